(* C12 driver: the first atom of a case line selects the table model.
     hmtx-enc W E L ascent descent linegap caretoffset rise run anglebits   (W,E,L: list or nil; anglebits ignored)
     hmtx-dec xHHEA xHMTX|nil
     time-enc sec nsec | time-dec x
     head-enc <fields> | head-dec xBYTES
     maxp-enc n (13 values)|nil | maxp-dec xBYTES
     post-enc version italic16.16 ulpos ulthick fixed | post-dec xBYTES
     os2-enc <fields> | os2-dec xBYTES
     derived glyf|cff (boxes) (widths) none|(4 codes...)|(12 codes...)
     ver v
   Output: (ok ...) | err | panic | fuel
   Numbers may need 64 bits: they are converted digit by digit with the
   extracted Coq arithmetic, never through OCaml's int. *)
let ten_z = z_of_int 10
let ten_n = n_of_int 10
let bz (x : sx) : z =
  let s = atom x in
  let neg = String.length s > 0 && s.[0] = '-' in
  let st = if neg then 1 else 0 in
  if String.length s = st then failwith "empty number";
  let acc = ref Z0 in
  for k = st to String.length s - 1 do
    let c = s.[k] in
    if c < '0' || c > '9' then failwith ("bad number " ^ s);
    acc := Z.add (Z.mul !acc ten_z) (z_of_int (Char.code c - 48))
  done;
  if neg then Z.opp !acc else !acc
let bn (x : sx) : n =
  let s = atom x in
  if String.length s = 0 then failwith "empty number";
  let acc = ref N0 in
  String.iter (fun c ->
    if c < '0' || c > '9' then failwith ("bad number " ^ s);
    acc := N.add (N.mul !acc ten_n) (n_of_int (Char.code c - 48))) s;
  !acc
let string_of_n (x : n) : string =
  if x = N0 then "0" else begin
    let b = Buffer.create 24 in
    let r = ref x in
    while !r <> N0 do
      Buffer.add_char b (Char.chr (48 + int_of_n (N.modulo !r ten_n)));
      r := N.div !r ten_n
    done;
    let s = Buffer.contents b in
    String.init (String.length s) (fun k -> s.[String.length s - 1 - k])
  end
let pn (x : n) : sx = A (string_of_n x)
let pz (x : z) : sx =
  match x with
  | Z0 -> A "0"
  | Zpos p -> A (string_of_n (Npos p))
  | Zneg p -> A ("-" ^ string_of_n (Npos p))
let pb (b : bool) : sx = ab b

let opt_list (f : sx -> 'a) (x : sx) : 'a list option =
  match x with A "nil" -> None | L l -> Some (List.map f l) | A s -> failwith ("list or nil expected: " ^ s)
let sx_rect (x : sx) : rect =
  match x with L [a; b; c; d] -> { llx = bz a; lly = bz b; urx = bz c; ury = bz d } | _ -> failwith "bad rect"
let p_rect (r : rect) : sx = L [pz r.llx; pz r.lly; pz r.urx; pz r.ury]
let sx_optlist (f : 'a -> sx) (x : 'a list option) : sx =
  match x with None -> A "nil" | Some l -> L (List.map f l)
let sx_optbytes (x : n list option) : sx =
  match x with None -> A "nil" | Some l -> A (hex_of_bytes l)
let opt_bytes (x : sx) : n list option =
  match x with A "nil" -> None | _ -> Some (sx_bytes x)
let sx_time (x : sx) : gotime =
  match x with L [s; ns] -> { t_sec = bz s; t_nsec = bn ns } | _ -> failwith "bad time"
let p_time (t : gotime) : sx = L [pz t.t_sec; pn t.t_nsec]

let outcome (f : 'a -> sx) (o : 'a outcome) : sx =
  match o with Ok a -> f a | Err -> A "err" | Panic -> A "panic" | OutOfFuel -> A "fuel"

let p_head (i : head_info) : sx list =
  [pn i.hd_revision; pb i.hd_ybase0; pb i.hd_xbase0; pb i.hd_nonlinear; pn i.hd_upem;
   p_time i.hd_created; p_time i.hd_modified; p_rect i.hd_bbox;
   pb i.hd_bold; pb i.hd_italic; pb i.hd_shadow; pb i.hd_condensed; pb i.hd_extended;
   pn i.hd_lowestppem; pz i.hd_locafmt]

let p_os2 (i : os2_info) : sx list =
  [pn i.os_weight; pn i.os_width; pb i.os_bold; pb i.os_italic; pb i.os_regular; pb i.os_oblique;
   pn i.os_first; pn i.os_last; pz i.os_ascent; pz i.os_descent; pz i.os_winascent; pz i.os_windescent;
   pz i.os_linegap; pz i.os_capheight; pz i.os_xheight; pz i.os_avg; L (List.map pz i.os_sub);
   pz i.os_family; A (hex_of_bytes i.os_panose); A (hex_of_bytes i.os_vendor); L (List.map pn i.os_ur);
   pn i.os_cpr; pz i.os_perm; pb i.os_nosub; pb i.os_onlybm]

let () = main_loop (fun c ->
  match c with
  | [A "hmtx-enc"; w; e; l; asc; desc; gap; co; rise; run; _angle_bits] ->
    let i = { h_widths = opt_list bz w; h_extents = opt_list sx_rect e; h_lsb = opt_list bz l;
              h_ascent = bz asc; h_descent = bz desc; h_linegap = bz gap; h_caretoffset = bz co } in
    outcome (fun (hhea, hmtx) -> L [A "ok"; A (hex_of_bytes hhea); sx_optbytes hmtx])
      (m_hmtx_encode i (bz rise) (bz run))
  | [A "hmtx-dec"; hhea; hmtx] ->
    outcome (fun d -> L [A "ok"; pz d.d_ascent; pz d.d_descent; pz d.d_linegap; pz d.d_caretoffset;
                         sx_optlist pz d.d_widths; sx_optlist pz d.d_lsb])
      (m_hmtx_decode (sx_bytes hhea) (opt_bytes hmtx))
  | [A "time-enc"; s; ns] -> L [A "ok"; pz (m_encodeTime { t_sec = bz s; t_nsec = bn ns })]
  | [A "time-dec"; x] -> L [A "ok"; p_time (m_decodeTime (bz x))]
  | [A "head-enc"; rev; y; x; nl; upem; cr; md; bb; bold; it; sh; co; ex; ppem; loca] ->
    let i = { hd_revision = bn rev; hd_ybase0 = sx_bool y; hd_xbase0 = sx_bool x; hd_nonlinear = sx_bool nl;
              hd_upem = bn upem; hd_created = sx_time cr; hd_modified = sx_time md; hd_bbox = sx_rect bb;
              hd_bold = sx_bool bold; hd_italic = sx_bool it; hd_shadow = sx_bool sh; hd_condensed = sx_bool co;
              hd_extended = sx_bool ex; hd_lowestppem = bn ppem; hd_locafmt = bz loca } in
    L [A "ok"; A (hex_of_bytes (m_head_encode i))]
  | [A "head-dec"; b] -> outcome (fun i -> L (A "ok" :: p_head i)) (m_head_decode (sx_bytes b))
  | [A "maxp-enc"; n; ttf] ->
    outcome (fun b -> L [A "ok"; A (hex_of_bytes b)])
      (m_maxp_encode { mx_numglyphs = bz n; mx_ttf = opt_list bn ttf })
  | [A "maxp-dec"; b] ->
    outcome (fun i -> L [A "ok"; pz i.mx_numglyphs; sx_optlist pn i.mx_ttf]) (m_maxp_decode (sx_bytes b))
  | [A "post-enc"; v; it; pos; th; fx] ->
    L [A "ok"; A (hex_of_bytes (m_post_encode_header (bn v)
        { po_italic = bz it; po_ulpos = bz pos; po_ulthick = bz th; po_fixed = sx_bool fx }))]
  | [A "post-dec"; b] ->
    outcome (fun r -> match r with
      | PostOk (v, h) -> L [A "ok"; pn v; pz h.po_italic; pz h.po_ulpos; pz h.po_ulthick; pb h.po_fixed]
      | PostV2 h -> L [A "v2"; pz h.po_italic; pz h.po_ulpos; pz h.po_ulthick; pb h.po_fixed])
      (m_post_decode_header (sx_bytes b))
  | [A "os2-enc"; we; wi; bo; it; re; ob; fi; la; asc; desc; wasc; wdesc; gap; cap; xh; avg; sub; fam; pan; ven; ur; cpr; perm; nosub; onlybm] ->
    let i = { os_weight = bn we; os_width = bn wi; os_bold = sx_bool bo; os_italic = sx_bool it;
              os_regular = sx_bool re; os_oblique = sx_bool ob; os_first = bn fi; os_last = bn la;
              os_ascent = bz asc; os_descent = bz desc; os_winascent = bz wasc; os_windescent = bz wdesc;
              os_linegap = bz gap; os_capheight = bz cap; os_xheight = bz xh; os_avg = bz avg;
              os_sub = List.map bz (lst sub); os_family = bz fam; os_panose = sx_bytes pan;
              os_vendor = sx_bytes ven; os_ur = List.map bn (lst ur); os_cpr = bn cpr; os_perm = bz perm;
              os_nosub = sx_bool nosub; os_onlybm = sx_bool onlybm } in
    L [A "ok"; A (hex_of_bytes (m_os2_encode i))]
  | [A "os2-dec"; b] -> outcome (fun i -> L (A "ok" :: p_os2 i)) (m_os2_decode (sx_bytes b))
  | [A "derived"; _kind; boxes; ws; cm] ->
    let cm = (match cm with
      | A "none" -> NoCmap
      | L (A "4" :: c) -> Cmap4 (List.map bz c)
      | L (A "12" :: c) -> Cmap12 (List.map bz c)
      | _ -> failwith "bad cmap") in
    outcome (fun d -> L [A "ok"; pz d.dv_numglyphs; p_rect d.dv_fontbbox; pz d.dv_advmax; pz d.dv_minlsb;
                         pz d.dv_minrsb; pz d.dv_xmaxext; pn d.dv_numlong; pz d.dv_avg; pz d.dv_first; pz d.dv_last;
                         pz d.dv_winascent; pz d.dv_windescent; pb d.dv_fixed])
      (m_derived (List.map sx_rect (lst boxes)) (List.map bz (lst ws)) cm)
  | [A "ver"; v] -> L [A "ok"; pn (m_version_round (bn v)); pn (version_milli_string (bn v))]
  | _ -> failwith "bad case")
