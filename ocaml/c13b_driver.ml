(* C13B driver: the first atom selects the modelled function.
     strings (xINIT ...) (xLOOKUP ...)     -> ((sid ...) (xDATA ...) INDEX)      INDEX = (ok xBYTES | md5) | panic
     sget (xDATA ...) sid                  -> (ok xS) | err
     utf8 xS                               -> xS'
     dict-enc (xINIT ...) ((op ARG ...) ...) -> (xBYTES (xDATA ...))      ARG = (i z) | (r neg mant exp) | (s xS)
     topdict isCID (xINIT ...) INFO        -> (xBYTES (xDATA ...))
     privdict PRIV defW nomW               -> xBYTES
     fmdict isCID (REAL x6)                -> xBYTES
     access xBUF (xSTR ...) op intDef REAL isCID
                                           -> (ok int REAL xSTR (delta ...) PAIR (REAL x6)) | err | panic
     readpriv xDICT (xSTR ...) xDATA       -> (ok PRIV (xSUBR ...) REAL REAL) | err | panic
     angle REAL                            -> REAL
     write FONT TABLES                     -> (ok BYTES (offs ...) hdrOffSize) | err | panic | fuel
     read xDATA TABLES                     -> (ok RFONT) | err | panic | fuel
   REAL  = (neg mant exp) | big            value = +-mant * 10^exp (canonical), big: more than 18 digits
   INFO  = (xFontName xVersion xNotice xCopyright xFullName xFamilyName xWeight REAL fixed REAL REAL (REAL x6))
   PRIV  = ((bv ...) (ob ...) REAL shift fuzz REAL REAL bold)
   FONT  = (INFO ROS (GLYPH ...) defW nomW (PRIV ...) (fd ...) (enc ...) (cid ...) ((REAL x6) ...))
   ROS   = - | (xReg xOrd sup)
   GLYPH = (xName xCS ...) | (g xPrefix start count xCS ...)   names prefix ^ decimal(start+k), k < count;
           further items (width, outline recipe) are for the harness
   read takes an optional fourth argument (what the harness's assembler put into the file), ignored here
   TABLES = ((sid code) ...) ((sid code) ...)   psenc.StandardEncodingRev / expertEnc by standard-string id
   BYTES = xHEX for at most 2048 bytes, otherwise (md5 length digest)
   Integer lists may contain (r n v) = n copies of v and (s first n) = first, first+1, ... *)

let outc (f : 'a -> sx) (o : 'a outcome) : sx =
  match o with
  | Ok a -> f a
  | Err -> A "err"
  | Panic -> A "panic"
  | OutOfFuel -> A "fuel"

let expand_ints (x : sx) : int list =
  List.concat_map (fun it -> match it with
    | L [A "r"; n; v] -> let n = sx_int n and v = sx_int v in List.init n (fun _ -> v)
    | L [A "s"; f; n] -> let f = sx_int f and n = sx_int n in List.init n (fun k -> f + k)
    | A _ -> [sx_int it]
    | _ -> failwith "bad run item") (lst x)

let hexa b = A (hex_of_bytes b)

let raw_of_bytes (l : n list) : string =
  let b = Buffer.create 1024 in
  List.iter (fun x -> Buffer.add_char b (Char.chr (int_of_n x))) l;
  Buffer.contents b

(* long byte strings are compared through their MD5 *)
let bytes_obs (l : n list) : sx =
  let s = raw_of_bytes l in
  if String.length s <= 2048 then hexa l
  else L [A "md5"; ai (String.length s); A (Digest.to_hex (Digest.string s))]

let long_obs (x : sx) : sx =
  let s = sx_to_string x in
  if String.length s <= 6000 then x
  else L [A "md5"; ai (String.length s); A (Digest.to_hex (Digest.string s))]

let strs x = List.map sx_bytes (lst x)
let hexl l = L (List.map hexa l)

(* ---- reals ---- *)
let rec pos_bits p = match p with XH -> 1 | XO q | XI q -> 1 + pos_bits q
let z_small z = match z with Z0 -> true | Zpos p | Zneg p -> pos_bits p <= 60
let real_in x = match x with
  | L [neg; m; e] -> rnorm (sx_bool neg) (sx_z m) (sx_z e)
  | _ -> failwith "bad real"
let real_out (r : real) : sx =
  if z_small r.r_mant && z_small r.r_exp then L [ab r.r_neg; az r.r_mant; az r.r_exp] else A "big"
let reals_in x = List.map real_in (lst x)
let reals_out l = L (List.map real_out l)
let zs_out l = L (List.map (fun z -> if z_small z then az z else A "big") l)

let info_in x = match x with
  | L [fn; ve; no; co; fu; fa; we; ang; fixed; up; ut; fm] ->
    { fi_FontName = sx_bytes fn; fi_Version = sx_bytes ve; fi_Notice = sx_bytes no; fi_Copyright = sx_bytes co;
      fi_FullName = sx_bytes fu; fi_FamilyName = sx_bytes fa; fi_Weight = sx_bytes we;
      fi_ItalicAngle = real_in ang; fi_IsFixedPitch = sx_bool fixed; fi_UnderlinePosition = real_in up;
      fi_UnderlineThickness = real_in ut; fi_FontMatrix = reals_in fm }
  | _ -> failwith "bad fontinfo"
let info_out (i : fontinfo) : sx =
  L [hexa i.fi_FontName; hexa i.fi_Version; hexa i.fi_Notice; hexa i.fi_Copyright; hexa i.fi_FullName;
     hexa i.fi_FamilyName; hexa i.fi_Weight; real_out i.fi_ItalicAngle; ab i.fi_IsFixedPitch;
     real_out i.fi_UnderlinePosition; real_out i.fi_UnderlineThickness; reals_out i.fi_FontMatrix]

let priv_in x = match x with
  | L [bv; ob; bs; sh; fz; hw; vw; fb] ->
    { pd_BlueValues = List.map z_of_int (expand_ints bv); pd_OtherBlues = List.map z_of_int (expand_ints ob);
      pd_BlueScale = real_in bs; pd_BlueShift = sx_z sh; pd_BlueFuzz = sx_z fz;
      pd_StdHW = real_in hw; pd_StdVW = real_in vw; pd_ForceBold = sx_bool fb }
  | _ -> failwith "bad private dict"
let priv_out (p : privdict) : sx =
  L [zs_out p.pd_BlueValues; zs_out p.pd_OtherBlues; real_out p.pd_BlueScale; az p.pd_BlueShift; az p.pd_BlueFuzz;
     real_out p.pd_StdHW; real_out p.pd_StdVW; ab p.pd_ForceBold]

let arg_in x = match x with
  | L [A "i"; z] -> VInt (sx_z z)
  | L [A "r"; neg; m; e] -> VReal (rnorm (sx_bool neg) (sx_z m) (sx_z e))
  | L [A "s"; s] -> VStr (sx_bytes s)
  | _ -> failwith "bad operand"

let nolay (_ : operand) : z = Z0

(* name -> code tables given by standard-string id *)
let code_fn (tbl : sx) : n list -> n option =
  let pairs = List.map (fun p -> match p with L [s; c] -> (sx_int s, sx_int c) | _ -> failwith "bad table") (lst tbl) in
  let h = Hashtbl.create 400 in
  List.iter (fun (s, c) -> Hashtbl.replace h s c) pairs;
  fun name ->
    match find_last name b_stdStrings with
    | Some i -> (match Hashtbl.find_opt h (int_of_n i) with Some c -> Some (n_of_int c) | None -> None)
    | None -> None

let bytes_of_string (s : string) : n list =
  List.init (String.length s) (fun i -> n_of_int (Char.code s.[i]))

let glyphs_in x : (n list * n list) list =
  List.concat_map (fun g -> match g with
    | L (A "g" :: prefix :: start :: count :: cs :: _) ->
      let p = sx_bytes prefix and cs = sx_bytes cs and st = sx_int start in
      List.init (sx_int count) (fun k -> (p @ bytes_of_string (string_of_int (st + k)), cs))
    | L (name :: cs :: _) -> [(sx_bytes name, sx_bytes cs)]
    | _ -> failwith "bad glyph") (lst x)

let font_in x = match x with
  | L [info; ros; glyphs; defw; nomw; privs; fds; enc; cids; fms] ->
    { f_info = info_in info;
      f_ros = (match ros with
        | A "-" -> None
        | L [r; o; s] -> Some ((sx_bytes r, sx_bytes o), sx_z s)
        | _ -> failwith "bad ROS");
      f_glyphs = glyphs_in glyphs;
      f_defw = sx_z defw; f_nomw = sx_z nomw;
      f_private = List.map priv_in (lst privs);
      f_fdselect = List.map n_of_int (expand_ints fds);
      f_encoding = List.map n_of_int (expand_ints enc);
      f_gid2cid = List.map n_of_int (expand_ints cids);
      f_fontmatrices = List.map reals_in (lst fms) }
  | _ -> failwith "bad font"

let ros_out r = match r with
  | None -> A "-"
  | Some ((reg, ord), sup) -> L [hexa reg; hexa ord; az sup]

(* the width a charstring of a blank glyph selects: 0e = endchar (default
   width), b 0e = (b-139) endchar (nominal width + b - 139), printed as
   (n b-139 nominalWidth) *)
let width_obs (p : rprivate option) (cs : n list) : sx =
  match p with
  | None -> A "nofd"
  | Some p ->
    (match List.map int_of_n cs with
     | [14] -> real_out p.rp_defw
     | [b; 14] when b >= 32 && b <= 246 -> L [A "n"; ai (b - 139); real_out p.rp_nomw]
     | _ -> A "?")

let rfont_out (f : rfont) : sx =
  let privs = Array.of_list f.rf_private in
  let fds = Array.of_list (List.map int_of_n f.rf_fdselect) in
  let glyphs = List.mapi (fun i (name, cs) ->
      let fd = if i < Array.length fds then fds.(i) else -1 in
      let p = if fd >= 0 && fd < Array.length privs then Some privs.(fd) else None in
      L [hexa name; ai fd; width_obs p cs]) f.rf_glyphs in
  L [info_out f.rf_info; ros_out f.rf_ros; long_obs (L glyphs); hexl f.rf_gsubrs;
     L (List.map (fun p -> L [priv_out p.rp_dict; hexl p.rp_subrs; real_out p.rp_defw; real_out p.rp_nomw]) f.rf_private);
     L (List.map an f.rf_encoding); long_obs (L (List.map an f.rf_gid2cid));
     L (List.map reals_out f.rf_fontmatrices)]

let () = main_loop (fun c ->
  match c with
  | [A "strings"; init; lookups] ->
    let (sids, data) = ss_lookups (strs init) (strs lookups) in
    L [zs_out sids; long_obs (hexl data); outc (fun b -> L [A "ok"; bytes_obs b]) (ss_encode data)]
  | [A "sget"; data; sid] ->
    (match ss_get (strs data) (sx_z sid) with Some s -> L [A "ok"; hexa s] | None -> A "err")
  | [A "utf8"; s] -> hexa (utf8_fix (sx_bytes s))
  | [A "dict-enc"; init; entries] ->
    let d = List.map (fun e -> match e with
      | L (op :: args) -> (sx_n op, List.map arg_in args)
      | _ -> failwith "bad entry") (lst entries) in
    let (b, data) = m_dict_encode nolay (strs init) d in
    L [hexa b; hexl data]
  | [A "topdict"; isCID; init; info] ->
    let (b, data) = m_dict_encode nolay (strs init) (m_topdict_base (info_in info) (sx_bool isCID)) in
    L [hexa b; hexl data]
  | [A "privdict"; priv; defw; nomw] ->
    hexa (fst (m_dict_encode nolay [] (m_makePrivateDict (priv_in priv) (sx_z defw) (sx_z nomw))))
  | [A "fmdict"; isCID; fm] ->
    hexa (fst (m_dict_encode nolay [] (setFontMatrix b_opFontMatrix (reals_in fm) (sx_bool isCID) [])))
  | [A "access"; buf; ss; op; idef; fdef; isCID] ->
    let op = sx_n op in
    outc (fun d ->
        L [A "ok"; az (getInt d op (sx_z idef)); real_out (getFloat d op (real_in fdef)); hexa (getString d op);
           zs_out (getDelta d op);
           (match getPair d op with Some (x, y) -> L [A "1"; az x; az y] | None -> L [A "0"; A "0"; A "0"]);
           reals_out (getFontMatrix d op (sx_bool isCID))])
      (m_decodeDict (strs ss) (sx_bytes buf))
  | [A "readpriv"; dict; ss; data] ->
    let ss = strs ss in
    outc (fun p -> L [A "ok"; priv_out p.rp_dict; hexl p.rp_subrs; real_out p.rp_defw; real_out p.rp_nomw])
      (obind (m_decodeDict ss (sx_bytes dict)) (fun d -> m_readPrivate (sx_bytes data) ss d))
  | [A "angle"; r] -> real_out (rnormangle (real_in r))
  | [A "write"; font; stdt; expt] ->
    let f = font_in font in
    let sc = code_fn stdt and ec = code_fn expt in
    (match m_write sc ec f with
     | Ok b ->
       (match m_write_offsets sc ec f with
        | Ok (offs, hdr) -> L [A "ok"; bytes_obs b; L (List.map az offs); an hdr]
        | _ -> failwith "offsets disagree with write")
     | Err -> A "err" | Panic -> A "panic" | OutOfFuel -> A "fuel")
  | A "read" :: data :: stdt :: expt :: _ ->
    outc (fun f -> L [A "ok"; rfont_out f]) (m_read (code_fn stdt) (code_fn expt) (sx_bytes data))
  | _ -> failwith "bad case")
