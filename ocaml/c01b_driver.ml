(* C01B driver: the file-level composition of C01 (glue) with C03 (container)
   and the table codecs of C12.

   case "file  TPL FIELDS WCTX FONT OPQ"
       prints (ok DIR LEN MD5 (real TABLE-BYTES...) TABLES FONT1) for
       M_font_write_bytes / M_font_read_tables / M_font_read_bytes on the
       model's own bytes
   case "read  SRC EDITS xFILE OPQ"
       prints (ok TABLES FONT) | err | panic for M_font_read_bytes on the bytes given

   OPQ carries the opaque codecs of the case: the bytes the Go encoders
   produced for the font's cmap / name / post names / glyph data / layout
   tables, and the values the Go decoders deliver for the tables of the file.
   An opaque decoder asked about bytes it was not told about answers Panic,
   which can never agree with the implementation's observation.

   The parsers / printers of fonts and tables are those of ocaml/c01_driver.ml
   (same record types: the extraction of C01B contains C01's model). *)

(* numbers that may exceed OCaml's int (CodePageRange is a uint64) *)
let n_of_decstring (s : string) : n =
  let ten = n_of_int 10 in
  let acc = ref N0 in
  String.iter (fun c ->
    if c < '0' || c > '9' then failwith ("bad number " ^ s);
    acc := N.add (N.mul !acc ten) (n_of_int (Char.code c - 48))) s;
  !acc
let string_of_n (x : n) : string =
  let l = print_dec x in
  String.init (List.length l) (fun i -> Char.chr (int_of_n (List.nth l i)))
let bn x = n_of_decstring (atom x)
let abn x = A (string_of_n x)
(* shadow conv.ml's int-based readers/printers: head timestamps are int64 *)
let sx_z x =
  let s = atom x in
  if String.length s > 0 && s.[0] = '-' then
    (match n_of_decstring (String.sub s 1 (String.length s - 1)) with N0 -> Z0 | Npos p -> Zneg p)
  else (match n_of_decstring s with N0 -> Z0 | Npos p -> Zpos p)
let az (z : z) : sx =
  match z with Z0 -> A "0" | Zpos p -> A (string_of_n (Npos p)) | Zneg p -> A ("-" ^ string_of_n (Npos p))
let sx_n x = bn x
let an x = abn x

let opt (f : sx -> 'a) (x : sx) : 'a option = match x with A "-" -> None | _ -> Some (f x)
let aopt (f : 'a -> sx) (x : 'a option) : sx = match x with None -> A "-" | Some v -> f v
let zl x = List.map sx_z (lst x)
let azl l = L (List.map az l)
let astr s = A (hex_of_bytes s)

let outl_of_sx (x : sx) : outl =
  match x with
  | L [A "ol"; cff; id; n; hs; ws; names; maxp] ->
    { ol_cff = sx_bool cff; ol_id = bn id; ol_n = sx_n n; ol_heights = zl hs;
      ol_widths = opt zl ws; ol_names = opt bn names; ol_maxp = opt bn maxp }
  | _ -> failwith "bad outl"
let sx_of_outl (o : outl) : sx =
  L [A "ol"; ab o.ol_cff; abn o.ol_id; an o.ol_n; azl o.ol_heights;
     aopt azl o.ol_widths; aopt abn o.ol_names; aopt abn o.ol_maxp]

let cmap_of_sx (x : sx) : cmapv =
  match x with
  | L [A "cm"; id; best; h; xx; lig] ->
    { cm_id = bn id; cm_best = sx_bool best; cm_H = sx_n h; cm_x = sx_n xx; cm_lig = opt bn lig }
  | _ -> failwith "bad cmap"
let sx_of_cmap (c : cmapv) : sx =
  L [A "cm"; abn c.cm_id; ab c.cm_best; an c.cm_H; an c.cm_x; aopt abn c.cm_lig]

let font_of_sx (x : sx) : font =
  match x with
  | L [A "font"; family; width; weight; L [r; b; i; o; s; c]; cpr; version; ctime; mtime;
       descr; sample; copyright; trademark; license; licurl; perm; upm;
       asc; desc; gap; cap; xh; angle; upos; uthick; ol; cm; gdef; gsub; gpos] ->
    { f_family = sx_bytes family; f_width = sx_n width; f_weight = sx_n weight;
      f_regular = sx_bool r; f_bold = sx_bool b; f_italic = sx_bool i; f_oblique = sx_bool o;
      f_serif = sx_bool s; f_script = sx_bool c;
      f_cpr = bn cpr; f_version = sx_n version; f_ctime = opt sx_z ctime; f_mtime = opt sx_z mtime;
      f_descr = sx_bytes descr; f_sample = sx_bytes sample; f_copyright = sx_bytes copyright;
      f_trademark = sx_bytes trademark; f_license = sx_bytes license; f_licurl = sx_bytes licurl;
      f_perm = sx_z perm; f_upm = sx_n upm; f_asc = sx_z asc; f_desc = sx_z desc; f_gap = sx_z gap;
      f_cap = sx_z cap; f_xh = sx_z xh; f_angle = sx_z angle; f_upos = sx_z upos; f_uthick = sx_z uthick;
      f_outl = outl_of_sx ol; f_cmap = opt cmap_of_sx cm;
      f_gdef = opt bn gdef; f_gsub = opt bn gsub; f_gpos = opt bn gpos }
  | _ -> failwith "bad font"
let sx_of_font (f : font) : sx =
  L [A "font"; astr f.f_family; an f.f_width; an f.f_weight;
     L [ab f.f_regular; ab f.f_bold; ab f.f_italic; ab f.f_oblique; ab f.f_serif; ab f.f_script];
     abn f.f_cpr; an f.f_version; aopt az f.f_ctime; aopt az f.f_mtime;
     astr f.f_descr; astr f.f_sample; astr f.f_copyright; astr f.f_trademark; astr f.f_license;
     astr f.f_licurl; az f.f_perm; an f.f_upm; az f.f_asc; az f.f_desc; az f.f_gap; az f.f_cap;
     az f.f_xh; az f.f_angle; az f.f_upos; az f.f_uthick; sx_of_outl f.f_outl;
     aopt sx_of_cmap f.f_cmap; aopt abn f.f_gdef; aopt abn f.f_gsub; aopt abn f.f_gpos]

let head_of_sx = function
  | L [A "head"; rev; upm; cr; md; b; i] ->
    { h_rev = sx_n rev; h_upm = sx_n upm; h_created = opt sx_z cr; h_modified = opt sx_z md;
      h_bold = sx_bool b; h_italic = sx_bool i }
  | _ -> failwith "bad head"
let sx_of_head h =
  L [A "head"; an h.h_rev; an h.h_upm; aopt az h.h_created; aopt az h.h_modified; ab h.h_bold; ab h.h_italic]

let os2_of_sx = function
  | L [A "os2"; we; wi; b; i; r; o; asc; desc; gap; cap; xh; fc; cpr; perm] ->
    { o_weight = sx_n we; o_width = sx_n wi; o_bold = sx_bool b; o_italic = sx_bool i;
      o_regular = sx_bool r; o_oblique = sx_bool o; o_asc = sx_z asc; o_desc = sx_z desc;
      o_gap = sx_z gap; o_cap = sx_z cap; o_xh = sx_z xh; o_fclass = sx_z fc; o_cpr = bn cpr;
      o_perm = sx_z perm }
  | _ -> failwith "bad os2"
let sx_of_os2 o =
  L [A "os2"; an o.o_weight; an o.o_width; ab o.o_bold; ab o.o_italic; ab o.o_regular; ab o.o_oblique;
     az o.o_asc; az o.o_desc; az o.o_gap; az o.o_cap; az o.o_xh; az o.o_fclass; abn o.o_cpr; az o.o_perm]

let name_of_sx = function
  | L [A "name"; fam; sub; descr; copy; tm; lic; licurl; idp; idd; full; ver; ps; sample] ->
    { n_family = sx_bytes fam; n_subfamily = sx_bytes sub; n_descr = sx_bytes descr;
      n_copyright = sx_bytes copy; n_trademark = sx_bytes tm; n_license = sx_bytes lic;
      n_licurl = sx_bytes licurl; n_ident_prefix = sx_bytes idp; n_ident_day = opt sx_z idd;
      n_fullname = sx_bytes full; n_version = sx_bytes ver; n_psname = sx_bytes ps;
      n_sample = sx_bytes sample }
  | _ -> failwith "bad name"
let sx_of_name n =
  L [A "name"; astr n.n_family; astr n.n_subfamily; astr n.n_descr; astr n.n_copyright;
     astr n.n_trademark; astr n.n_license; astr n.n_licurl; astr n.n_ident_prefix;
     aopt az n.n_ident_day; astr n.n_fullname; astr n.n_version; astr n.n_psname; astr n.n_sample]

let names_of_sx = function
  | L [A "names"; win; wc; mac; mc] ->
    { ns_win = opt name_of_sx win; ns_winconf = sx_n wc; ns_mac = opt name_of_sx mac; ns_macconf = sx_n mc }
  | _ -> failwith "bad names"

let post_of_sx = function
  | L [A "post"; a; up; ut; fx; names] ->
    { p_angle = sx_z a; p_upos = sx_z up; p_uthick = sx_z ut; p_fixed = sx_bool fx; p_names = opt bn names }
  | _ -> failwith "bad post"
let sx_of_post p = L [A "post"; az p.p_angle; az p.p_upos; az p.p_uthick; ab p.p_fixed; aopt abn p.p_names]

let hmtx_of_sx = function
  | L [A "hmtx"; asc; desc; gap; a; ws] ->
    { x_asc = sx_z asc; x_desc = sx_z desc; x_gap = sx_z gap; x_angle = sx_z a; x_widths = opt zl ws }
  | _ -> failwith "bad hmtx"
let sx_of_hmtx x = L [A "hmtx"; az x.x_asc; az x.x_desc; az x.x_gap; az x.x_angle; aopt azl x.x_widths]

let cffinfo_of_sx = function
  | L [A "cffinfo"; fn; full; fam; we; ver; copy; notice; a; up; ut; fx; fmz; upm] ->
    { c_fontname = sx_bytes fn; c_fullname = sx_bytes full; c_family = sx_bytes fam;
      c_weight = sx_bytes we; c_version = sx_bytes ver; c_copyright = sx_bytes copy;
      c_notice = sx_bytes notice; c_angle = sx_z a; c_upos = sx_z up; c_uthick = sx_z ut;
      c_fixed = sx_bool fx; c_fm0_zero = sx_bool fmz; c_upm_from_fm = sx_n upm }
  | _ -> failwith "bad cffinfo"
let sx_of_cffinfo c =
  L [A "cffinfo"; astr c.c_fontname; astr c.c_fullname; astr c.c_family; astr c.c_weight;
     astr c.c_version; astr c.c_copyright; astr c.c_notice; az c.c_angle; az c.c_upos; az c.c_uthick;
     ab c.c_fixed; ab c.c_fm0_zero; an c.c_upm_from_fm]

let maxp_of_sx = function
  | L [n; ttf] -> (sx_n n, opt bn ttf)
  | _ -> failwith "bad maxp"
let sx_of_maxp (n, ttf) = L [an n; aopt abn ttf]

let tables_of_sx = function
  | L [A "tables"; cff; hd; hm; mx; o2; cm; nm; po; ci; ol; gdef; gsub; gpos; kern] ->
    { t_cff = sx_bool cff; t_hd = opt head_of_sx hd; t_hm = opt hmtx_of_sx hm; t_maxp = opt maxp_of_sx mx;
      t_o2 = opt os2_of_sx o2; t_cm = opt cmap_of_sx cm; t_nm = opt names_of_sx nm; t_po = opt post_of_sx po;
      t_ci = opt cffinfo_of_sx ci; t_ol = outl_of_sx ol; t_gdef = opt bn gdef; t_gsub = opt bn gsub;
      t_gpos = opt bn gpos; t_kern = opt bn kern }
  | _ -> failwith "bad tables"

(* tables as observed from a written file: the name slot shows the table
   Read selects *)
let sx_of_hmtx_obs x = L [A "hmtx"; az x.x_asc; az x.x_desc; az x.x_gap; A "_"; aopt azl x.x_widths]
let sx_of_cffinfo_obs c =
  L [A "cffinfo"; astr c.c_fontname; astr c.c_fullname; astr c.c_family; astr c.c_weight;
     astr c.c_version; astr c.c_copyright; astr c.c_notice; A "_"; A "_"; A "_";
     ab c.c_fixed; A "_"; A "_"]
let sx_of_tables_obs (t : tables) : sx =
  L [A "tables"; ab t.t_cff; aopt sx_of_head t.t_hd; aopt sx_of_hmtx_obs t.t_hm; aopt sx_of_maxp t.t_maxp;
     aopt sx_of_os2 t.t_o2; aopt sx_of_cmap t.t_cm; aopt sx_of_name (choose_name t.t_nm);
     aopt sx_of_post t.t_po; aopt sx_of_cffinfo_obs t.t_ci; sx_of_outl t.t_ol;
     aopt abn t.t_gdef; aopt abn t.t_gsub; aopt abn t.t_gpos; aopt abn t.t_kern]


let rec last = function [x] -> x | _ :: l -> last l | [] -> failwith "empty case"
let rec last2 = function [x; _] -> x | _ :: l -> last2 l | [] -> failwith "short case"
let rec last3 = function [x; _; _] -> x | _ :: l -> last3 l | [] -> failwith "short case"

let hexs (l : n list) : sx = A (hex_of_bytes l)
let optbytes x = match x with A "-" -> None | _ -> Some (sx_bytes x)

let rect_of_sx = function
  | L [a; b; c; d] -> { llx = sx_z a; lly = sx_z b; urx = sx_z c; ury = sx_z d }
  | _ -> failwith "bad rect"

let range_of_sx = function
  | A "-" -> None
  | L [A "range"; lo; hi] -> Some (sx_z lo, sx_z hi)
  | _ -> failwith "bad range"

let assoc_field (name : string) (items : sx list) : sx list =
  let rec go = function
    | L (A k :: rest) :: _ when k = name -> rest
    | _ :: l -> go l
    | [] -> failwith ("missing opaque field " ^ name) in
  go items

let byte_eq (a : n list) (b : n list) : bool = (a = b)

(* the opaque codecs of one case *)
let opaque_of_sx (x : sx) : opaque =
  let items = (match x with L (A "opq" :: items) -> items | _ -> failwith "bad opq") in
  let fld k = assoc_field k items in
  let boxes = (match fld "boxes" with [L l] -> List.map rect_of_sx l | _ -> failwith "bad boxes") in
  let (rise, run) = (match fld "caret" with [a; b] -> (sx_z a, sx_z b) | _ -> failwith "bad caret") in
  let maxp13 = (match fld "maxp13" with [A "-"] -> None | [L l] -> Some (List.map sx_n l) | _ -> failwith "bad maxp13") in
  let range = (match fld "range" with [r] -> range_of_sx r | _ -> failwith "bad range") in
  let cmapb = (match fld "cmap" with [b] -> optbytes b | _ -> failwith "bad cmap") in
  let nameb = (match fld "name" with [b] -> optbytes b | _ -> failwith "bad name") in
  let (postv, posttail) = (match fld "post" with [A "-"] -> (N0, None) | [v; t] -> (bn v, Some (sx_bytes t)) | _ -> failwith "bad post") in
  let cffb = (match fld "cff" with [b] -> optbytes b | _ -> failwith "bad cff") in
  let glyf = (match fld "glyf" with
    | [A "-"] -> None
    | [g; l; f; L ex] ->
      Some (sx_bytes g, sx_bytes l, sx_z f,
            List.map (function L [nm; d] -> (sx_bytes nm, sx_bytes d) | _ -> failwith "bad extra") ex)
    | _ -> failwith "bad glyf") in
  let gdefb = (match fld "gdef" with [b] -> optbytes b | _ -> failwith "bad gdef") in
  let gsubb = (match fld "gsub" with [b] -> optbytes b | _ -> failwith "bad gsub") in
  let gposb = (match fld "gpos" with [b] -> optbytes b | _ -> failwith "bad gpos") in
  let kernb = (match fld "kern" with [b] -> optbytes b | _ -> failwith "bad kern") in
  (* what the Go decoders deliver for the tables of the file *)
  let dec = (match fld "dec" with [A "-"] -> None | [t] -> Some (tables_of_sx t) | _ -> failwith "bad dec") in
  let need (what : string) = function Some v -> v | None -> failwith ("opaque value missing: " ^ what) in
  let answer (expected : n list option) (given : n list) v =
    match expected with
    | Some e when byte_eq e given -> (match v () with Some r -> Ok r | None -> Panic)
    | _ -> Panic in
  let bytes_of what = function Some b -> b | None -> failwith ("opaque bytes missing: " ^ what) in
  { q_boxes = (fun _ -> boxes);
    q_glyf_enc = (fun _ ->
      match glyf with
      | Some (g, l, f, ex) -> { g_glyf = g; g_loca = l; g_locafmt = f; g_extra = ex }
      | None -> { g_glyf = []; g_loca = []; g_locafmt = Z0; g_extra = [] });
    q_glyf_dec = (fun g l f ex ->
      match glyf, dec with
      | Some (g0, l0, f0, ex0), Some t when byte_eq g g0 && byte_eq l l0 && f = f0 ->
        (* the pass-through tables found must be the non-empty ones given *)
        let want = List.filter (fun (_, d) -> d <> []) ex0 in
        if List.length want = List.length ex
           && List.for_all (fun (tg, d) -> List.exists (fun (nm, d0) -> byte_eq nm (be32 tg) && byte_eq d d0) want) ex
        then Ok t.t_ol else Panic
      | _ -> Panic);
    q_cff_enc = (fun _ _ -> bytes_of "cff" cffb);
    q_cff_dec = (fun b -> answer cffb b (fun () ->
      match dec with Some t -> (match t.t_ci with Some ci -> Some (ci, t.t_ol) | None -> None) | None -> None));
    q_cmap_enc = (fun _ -> bytes_of "cmap" cmapb);
    q_cmap_dec = (fun b -> answer cmapb b (fun () -> match dec with Some t -> t.t_cm | None -> None));
    q_cmap_range = (fun _ -> range);
    q_name_enc = (fun _ -> bytes_of "name" nameb);
    q_name_dec = (fun b -> answer nameb b (fun () -> match dec with Some t -> t.t_nm | None -> None));
    q_post_tail = (fun _ -> (postv, bytes_of "post" posttail));
    q_post_names = (fun v tl ->
      if v = postv then answer posttail tl (fun () ->
        match dec with Some t -> (match t.t_po with Some p -> Some p.p_names | None -> None) | None -> None)
      else Panic);
    q_maxp_ttf = (fun _ -> need "maxp13" maxp13);
    q_maxp_id = (fun l ->
      match maxp13, dec with
      | Some l0, Some t when l = l0 -> (match t.t_maxp with Some (_, Some id) -> id | _ -> N0)
      | _ -> N0);
    q_caret = (fun _ -> (rise, run));
    q_angle = (fun r u ->
      match dec with
      | Some t -> (match t.t_hm with Some h -> h.x_angle | None -> Z0)
      | None -> Z0);
    q_gdef_enc = (fun _ -> bytes_of "gdef" gdefb);
    q_gdef_dec = (fun b -> answer gdefb b (fun () -> match dec with Some t -> t.t_gdef | None -> None));
    q_gsub_enc = (fun _ -> bytes_of "gsub" gsubb);
    q_gsub_dec = (fun b -> answer gsubb b (fun () -> match dec with Some t -> t.t_gsub | None -> None));
    q_gpos_enc = (fun _ -> bytes_of "gpos" gposb);
    q_gpos_dec = (fun b -> answer gposb b (fun () -> match dec with Some t -> t.t_gpos | None -> None));
    q_kern_dec = (fun b -> answer kernb b (fun () -> match dec with Some t -> t.t_kern | None -> None)) }

let string_of_bytes (l : n list) : string =
  let b = Buffer.create (List.length l) in
  List.iter (fun x -> Buffer.add_char b (Char.chr (int_of_n x))) l;
  Buffer.contents b

let md5_of (l : n list) : sx = A (Digest.to_hex (Digest.string (string_of_bytes l)))

let sx_of_dir (b : n list) : sx =
  L (A "dir" :: List.map (fun (((tg, sm), off), len) -> L [abn tg; abn sm; abn off; abn len]) (file_directory b))

let real_tags = [("head", tag_head); ("hhea", tag_hhea); ("hmtx", tag_hmtx); ("maxp", tag_maxp);
                 ("OS2", tag_OS2); ("post", tag_post)]

let sx_of_real (b : n list) : sx =
  L (A "real" :: List.map (fun (nm, tg) ->
       L [A nm; (match file_table b tg with Some d -> hexs d | None -> A "-")]) real_tags)

(* a file read back: the decoded tables (head: the adjustment field is not
   part of the value) and the font *)
let sx_of_read (o : opaque) (b : n list) : sx list =
  match m_font_read_bytes o b with
  | Ok f1 ->
    (match m_font_read_tables o b with
     | Ok t -> [sx_of_tables_obs t; sx_of_font f1]
     | _ -> [A "inconsistent"])
  | Err -> [A "err"] | Panic -> [A "panic"] | OutOfFuel -> [A "fuel"]

let () = main_loop (fun c ->
  match c with
  | A "file" :: rest ->
    let o = opaque_of_sx (last rest) in
    let f = font_of_sx (last2 rest) in
    (match m_font_write_bytes o f with
     | Ok b ->
       let readback = sx_of_read o b in
       (* theorem file_read_write_normal_form, re-evaluated on this input *)
       let nf = (match m_font_read_bytes o b with
         | Ok f1 -> if in_range f && normalize f <> f1 then [L [A "normalize-disagrees"; sx_of_font (normalize f)]] else []
         | _ -> []) in
       L ([A "ok"; sx_of_dir b; L [A "len"; ai (List.length b)]; L [A "md5"; md5_of b];
           L [A "container-ok"; ab (container_ok b)]; sx_of_real b] @ readback @ nf)
     | Err -> A "err" | Panic -> A "panic" | OutOfFuel -> A "fuel")
  | A "read" :: rest ->
    let o = opaque_of_sx (last rest) in
    let b = sx_bytes (last2 rest) in
    (match sx_of_read o b with
     | [A e] -> A e
     | l -> L (A "ok" :: l))
  | _ -> failwith "bad case")
