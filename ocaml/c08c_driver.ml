(* C08C driver (part of property C08): the contextual lookup subtables.
     ctx-enc SUBTABLE                     -> (ok xBYTES encodeLen) | (ok LEN MD5 encodeLen) | panic
     ctx-read gsub|gpos TYPE xBYTES pos   -> (ok SUBTABLE) | err | panic
   SUBTABLE = (seq1 COV RSETS) | (seq2 COV CLS RSETS) | (seq3 (SET ...) ACTS)
            | (ch1 COV CSETS) | (ch2 COV CLS CLS CLS CSETS) | (ch3 (SET ...) (SET ...) (SET ...) ACTS)
            | (gsub81 COV (COV ...) (COV ...) NUMS)
   COV   = ((gid idx len) ...)      runs in which glyph and index advance by one
   CLS   = ((gid class len) ...)    runs of consecutive glyphs with one class
   SET   = ((gid len) ...)          runs of consecutive glyphs
   NUMS  = (n ...)                  ACTS = ((sequenceIndex lookupListIndex) ...)
   RSETS = (RSET ...), RSET = nil | (RULE ...), RULE = (NUMS ACTS)
   CSETS likewise with CRULE = (NUMS NUMS NUMS ACTS)     (backtrack input lookahead actions)
   Every list may contain (rep k X) for k copies of X; printed lists use it
   for every maximal run of at least 4 equal elements. *)

let outc (f : 'a -> sx) (o : 'a outcome) : sx =
  match o with
  | Ok a -> f a
  | Err -> A "err"
  | Panic -> A "panic"
  | OutOfFuel -> A "fuel"

(* ---- run-length lists ---- *)
let expand (f : sx -> 'a) (x : sx) : 'a list =
  List.concat_map (fun e -> match e with
    | L [A "rep"; k; y] -> let v = f y in List.init (sx_int k) (fun _ -> v)
    | y -> [f y]) (lst x)

let rle (l : sx list) : sx =
  let strs = Array.of_list (List.map sx_to_string l) in
  let els = Array.of_list l in
  let n = Array.length els in
  let out = ref [] in
  let i = ref 0 in
  while !i < n do
    let j = ref (!i + 1) in
    while !j < n && strs.(!j) = strs.(!i) do incr j done;
    if !j - !i >= 4 then out := L [A "rep"; ai (!j - !i); els.(!i)] :: !out
    else for k = !i to !j - 1 do out := els.(k) :: !out done;
    i := !j
  done;
  L (List.rev !out)

let nums_of_sx x = expand sx_n x
let sx_of_nums l = rle (List.map an l)
let act_of_sx x = match x with L [a; b] -> (sx_n a, sx_n b) | _ -> failwith "bad action"
let acts_of_sx x = expand act_of_sx x
let sx_of_acts l = rle (List.map (fun (a, b) -> L [an a; an b]) l)

(* coverage tables as runs (gid idx len); class tables as runs (gid class len); sets as runs (gid len) *)
let cov_of_sx (x : sx) : (n * n) list =
  List.concat_map (fun r -> match r with
    | L [g; i; n] -> let g = sx_int g and i = sx_int i and n = sx_int n in
      List.init n (fun k -> (n_of_int (g + k), n_of_int (i + k)))
    | _ -> failwith "bad run") (lst x)
let sx_of_cov (l : (n * n) list) : sx =
  let rec go l cur acc =
    match l, cur with
    | [], None -> List.rev acc
    | [], Some (g, i, n) -> List.rev (L [ai g; ai i; ai n] :: acc)
    | (g', i') :: tl, None -> go tl (Some (g', i', 1)) acc
    | (g', i') :: tl, Some (g, i, n) ->
      if g' = g + n && i' = i + n then go tl (Some (g, i, n + 1)) acc
      else go tl (Some (g', i', 1)) (L [ai g; ai i; ai n] :: acc)
  in
  L (go (List.map (fun (g, i) -> (int_of_n g, int_of_n i)) l) None [])
let cls_of_sx (x : sx) : (n * n) list =
  List.concat_map (fun r -> match r with
    | L [g; c; n] -> let g = sx_int g and c = sx_int c and n = sx_int n in
      List.init n (fun k -> (n_of_int (g + k), n_of_int c))
    | _ -> failwith "bad run") (lst x)
let sx_of_cls (l : (n * n) list) : sx =
  let rec go l cur acc =
    match l, cur with
    | [], None -> List.rev acc
    | [], Some (g, c, n) -> List.rev (L [ai g; ai c; ai n] :: acc)
    | (g', c') :: tl, None -> go tl (Some (g', c', 1)) acc
    | (g', c') :: tl, Some (g, c, n) ->
      if g' = g + n && c' = c then go tl (Some (g, c, n + 1)) acc
      else go tl (Some (g', c', 1)) (L [ai g; ai c; ai n] :: acc)
  in
  L (go (List.map (fun (g, c) -> (int_of_n g, int_of_n c)) l) None [])
let set_of_sx (x : sx) : n list =
  List.concat_map (fun r -> match r with
    | L [g; n] -> let g = sx_int g and n = sx_int n in List.init n (fun k -> n_of_int (g + k))
    | _ -> failwith "bad set run") (lst x)
let sx_of_set (s : n list) : sx =
  let rec go l cur acc = match l, cur with
    | [], None -> List.rev acc
    | [], Some (g, n) -> List.rev (L [ai g; ai n] :: acc)
    | g' :: tl, None -> go tl (Some (g', 1)) acc
    | g' :: tl, Some (g, n) -> if g' = g + n then go tl (Some (g, n + 1)) acc
                               else go tl (Some (g', 1)) (L [ai g; ai n] :: acc) in
  L (go (List.map int_of_n s) None [])
let sets_of_sx x = List.map set_of_sx (lst x)
let sx_of_sets l = L (List.map sx_of_set l)

(* rules and rule sets *)
let srule_of_sx x = match x with L [i; a] -> (nums_of_sx i, acts_of_sx a) | _ -> failwith "bad rule"
let sx_of_srule (i, a) = L [sx_of_nums i; sx_of_acts a]
let crule_of_sx x = match x with
  | L [b; i; l; a] -> { cr_back = nums_of_sx b; cr_in = nums_of_sx i; cr_look = nums_of_sx l; cr_acts = acts_of_sx a }
  | _ -> failwith "bad chained rule"
let sx_of_crule r = L [sx_of_nums r.cr_back; sx_of_nums r.cr_in; sx_of_nums r.cr_look; sx_of_acts r.cr_acts]
let rsets_of_sx (f : sx -> 'r) (x : sx) : 'r list option list =
  expand (fun s -> match s with A "nil" -> None | _ -> Some (expand f s)) x
let sx_of_rsets (f : 'r -> sx) (l : 'r list option list) : sx =
  rle (List.map (fun o -> match o with None -> A "nil" | Some s -> rle (List.map f s)) l)

let string_of_bytes (b : n list) : string =
  let buf = Buffer.create (List.length b) in
  List.iter (fun x -> Buffer.add_char buf (Char.chr (int_of_n x))) b;
  Buffer.contents buf

let enc_obs (b : n list outcome) (n : n outcome) : sx =
  match b, n with
  | Ok b, Ok n ->
    let len = List.length b in
    if len <= 300 then L [A "ok"; A (hex_of_bytes b); an n]
    else L [A "ok"; ai len; A (Digest.to_hex (Digest.string (string_of_bytes b))); an n]
  | Panic, _ | _, Panic -> A "panic"
  | _ -> A "err"

let ctx_encode (x : sx) : sx = match x with
  | L [A "seq1"; c; rs] ->
    let c = as_table (cov_of_sx c) and rs = rsets_of_sx srule_of_sx rs in
    enc_obs (m_seq1_encode c rs) (m_seq1_len c rs)
  | L [A "seq2"; c; cl; rs] ->
    let c = as_table (cov_of_sx c) and cl = cls_of_sx cl and rs = rsets_of_sx srule_of_sx rs in
    enc_obs (m_seq2_encode c cl rs) (m_seq2_len c cl rs)
  | L [A "seq3"; inp; a] ->
    let inp = sets_of_sx inp and a = acts_of_sx a in
    enc_obs (m_seq3_encode inp a) (m_seq3_len inp a)
  | L [A "ch1"; c; rs] ->
    let c = as_table (cov_of_sx c) and rs = rsets_of_sx crule_of_sx rs in
    enc_obs (m_ch1_encode c rs) (m_ch1_len c rs)
  | L [A "ch2"; c; c1; c2; c3; rs] ->
    let c = as_table (cov_of_sx c) and c1 = cls_of_sx c1 and c2 = cls_of_sx c2 and c3 = cls_of_sx c3
    and rs = rsets_of_sx crule_of_sx rs in
    enc_obs (m_ch2_encode c c1 c2 c3 rs) (m_ch2_len c c1 c2 c3 rs)
  | L [A "ch3"; bk; inp; la; a] ->
    let bk = sets_of_sx bk and inp = sets_of_sx inp and la = sets_of_sx la and a = acts_of_sx a in
    enc_obs (m_ch3_encode bk inp la a) (m_ch3_len bk inp la a)
  | L [A "gsub81"; c; bk; la; su] ->
    let c = as_table (cov_of_sx c)
    and bk = List.map (fun t -> as_table (cov_of_sx t)) (lst bk)
    and la = List.map (fun t -> as_table (cov_of_sx t)) (lst la) and su = nums_of_sx su in
    enc_obs (m_gsub81_encode c bk la su) (m_gsub81_len c bk la su)
  | _ -> failwith "bad subtable"

let sx_of_ctx (s : ctx_subtable) : sx = match s with
  | CSeq1 (c, rs) -> L [A "seq1"; sx_of_cov c; sx_of_rsets sx_of_srule rs]
  | CSeq2 (c, cl, rs) -> L [A "seq2"; sx_of_cov c; sx_of_cls cl; sx_of_rsets sx_of_srule rs]
  | CSeq3 (inp, a) -> L [A "seq3"; sx_of_sets inp; sx_of_acts a]
  | CCh1 (c, rs) -> L [A "ch1"; sx_of_cov c; sx_of_rsets sx_of_crule rs]
  | CCh2 (c, c1, c2, c3, rs) ->
    L [A "ch2"; sx_of_cov c; sx_of_cls c1; sx_of_cls c2; sx_of_cls c3; sx_of_rsets sx_of_crule rs]
  | CCh3 (bk, inp, la, a) -> L [A "ch3"; sx_of_sets bk; sx_of_sets inp; sx_of_sets la; sx_of_acts a]
  | CGsub81 (c, bk, la, su) ->
    L [A "gsub81"; sx_of_cov c; L (List.map sx_of_cov bk); L (List.map sx_of_cov la); sx_of_nums su]

(* kind: 1 = SeqContext (GSUB 5 / GPOS 7), 2 = ChainedSeqContext (GSUB 6 / GPOS 8), 3 = GSUB 8 *)
let kind_of (tbl : string) (tp : int) : int =
  match tbl, tp with
  | "gsub", 5 | "gpos", 7 -> 1
  | "gsub", 6 | "gpos", 8 -> 2
  | "gsub", 8 -> 3
  | _ -> failwith "lookup type outside this part"

let () = main_loop (fun c ->
  match c with
  | [A "ctx-enc"; st] -> ctx_encode st
  | [A "ctx-read"; tbl; tp; data; pos] ->
    outc (fun s -> L [A "ok"; sx_of_ctx s])
      (m_ctx_read (n_of_int (kind_of (atom tbl) (sx_int tp))) (sx_bytes data) (sx_n pos))
  | _ -> failwith "bad case")
