(* C10B driver.  Case lines (first atom selects the entry point):

     cff W OUTLINES GL EXTRAS _FLAGS        W = pub: cff.Outlines.Subset(GL)
                                            W = sfnt: SubsetCFF with the state GL ++ EXTRAS
     glyf GO ORC GL EXTRAS _FLAGS           SubsetGlyf with the state GL ++ EXTRAS
     font ORC OUTL CMAP GDEF GL _FLAGS      Font.Subset (no layout tables)

   OUTLINES ::= (GLYPHS PRIVS FDSEL ENC ROS G2C MATS)
     GLYPHS ::= ((xNAME width xBODY) ...)
     PRIVS  ::= (((bv ...) (ob ...) REAL shift fuzz REAL REAL forcebold) ...)    REAL ::= (neg mant exp)
     FDSEL  ::= nil | ((v ...) dflt)      v, dflt ::= int | p          (p = the function panics)
     ENC    ::= nil | (gid ...)           ROS ::= nil | (xREG xORD sup)
     G2C    ::= nil | (cid ...)           MATS ::= ((REAL ...) ...)
   GO ::= ((G ...) (width ...) NAMES)     NAMES ::= nil | (xNAME ...)
     G ::= nil | (simple nc (llx lly urx ury) xENC) | (comp (llx lly urx ury) ((flags gid xDATA) ...) INS)
   OUTL ::= (cff OUTLINES) | (glyf GO)
   CMAP ::= nil | (((platform encoding language) xDATA) ...)

   The observation printed for a result uses the same syntax. *)
let hx b = A (hex_of_bytes b)
let nlist x = List.map sx_n (lst x)
let zlist x = List.map sx_z (lst x)

(* ---- CFF ---- *)
let real_of_sx x = match x with
  | L [s; m; e] -> { r_neg = sx_bool s; r_mant = sx_z m; r_exp = sx_z e }
  | _ -> failwith "bad real"
let sx_of_real r = L [ab r.r_neg; az r.r_mant; az r.r_exp]

let priv_of_sx x = match x with
  | L [bv; ob; bs; sh; fz; hw; vw; fb] ->
    { pd_BlueValues = zlist bv; pd_OtherBlues = zlist ob; pd_BlueScale = real_of_sx bs;
      pd_BlueShift = sx_z sh; pd_BlueFuzz = sx_z fz; pd_StdHW = real_of_sx hw;
      pd_StdVW = real_of_sx vw; pd_ForceBold = sx_bool fb }
  | _ -> failwith "bad private dict"
let sx_of_priv p =
  L [L (List.map az p.pd_BlueValues); L (List.map az p.pd_OtherBlues); sx_of_real p.pd_BlueScale;
     az p.pd_BlueShift; az p.pd_BlueFuzz; sx_of_real p.pd_StdHW; sx_of_real p.pd_StdVW; ab p.pd_ForceBold]

let fdv_of_sx x = match x with A "p" -> None | v -> Some (sx_z v)
let sx_of_fdv v = match v with None -> A "p" | Some z -> az z

let cglyph_of_sx x = match x with
  | L [n; w; b] -> { cg_name = sx_bytes n; cg_width = sx_z w; cg_body = sx_bytes b }
  | _ -> failwith "bad cff glyph"
let sx_of_cglyph g = L [hx g.cg_name; az g.cg_width; hx g.cg_body]

let outlines_of_sx x : outlines = match x with
  | L [gl; pr; fs; enc; ros; g2c; mats] ->
    { o_glyphs = List.map cglyph_of_sx (lst gl);
      o_private = List.map priv_of_sx (lst pr);
      o_fdselect = (match fs with
          | A "nil" -> None
          | L [tbl; d] -> Some (fdselect_of (List.map fdv_of_sx (lst tbl)) (fdv_of_sx d))
          | _ -> failwith "bad FDSelect");
      o_encoding = (match enc with A "nil" -> None | e -> Some (nlist e));
      o_ros = (match ros with
          | A "nil" -> None
          | L [r; o; s] -> Some ((sx_bytes r, sx_bytes o), sx_z s)
          | _ -> failwith "bad ROS");
      o_gid2cid = (match g2c with A "nil" -> None | l -> Some (nlist l));
      o_matrices = List.map (fun m -> List.map real_of_sx (lst m)) (lst mats) }
  | _ -> failwith "bad outlines"

let sx_of_cff_obs (c : cff_obs) : sx =
  let o = c.co_out in
  L [L (List.map sx_of_cglyph o.o_glyphs);
     L (List.map sx_of_priv o.o_private);
     (match o.o_fdselect with None -> A "nil" | Some _ -> L (List.map sx_of_fdv c.co_fdsel));
     (match o.o_encoding with None -> A "nil" | Some e -> L (List.map an e));
     (match o.o_ros with None -> A "nil" | Some ((r, od), s) -> L [hx r; hx od; az s]);
     (match o.o_gid2cid with None -> A "nil" | Some l -> L (List.map an l));
     L (List.map (fun m -> L (List.map sx_of_real m)) o.o_matrices)]

(* ---- glyf ---- *)
let box_of_sx x = match lst x with
  | [a; b; c; d] -> { llx = sx_z a; lly = sx_z b; urx = sx_z c; ury = sx_z d }
  | _ -> failwith "bad bbox"
let sx_of_box b = L [az b.llx; az b.lly; az b.urx; az b.ury]

let glyph_of_sx (x : sx) : glyph option =
  match x with
  | A "nil" -> None
  | L [A "simple"; nc; bx; e] ->
    Some { g_box = box_of_sx bx; g_data = Simple (sx_z nc, sx_bytes e) }
  | L [A "comp"; bx; cs; ins] ->
    let comps = List.map (fun c -> match c with
      | L [f; g; d] -> { c_flags = sx_n f; c_gid = sx_n g; c_data = sx_bytes d }
      | _ -> failwith "bad component") (lst cs) in
    let ins = (match ins with A "nil" -> None | i -> Some (sx_bytes i)) in
    Some { g_box = box_of_sx bx; g_data = Composite (comps, ins) }
  | _ -> failwith "bad glyph"

let sx_of_glyph (g : glyph option) : sx =
  match g with
  | None -> A "nil"
  | Some g ->
    (match g.g_data with
     | Simple (nc, e) -> L [A "simple"; az nc; sx_of_box g.g_box; hx e]
     | Composite (cs, ins) ->
       L [A "comp"; sx_of_box g.g_box;
          L (List.map (fun c -> L [an c.c_flags; an c.c_gid; hx c.c_data]) cs);
          (match ins with None -> A "nil" | Some i -> hx i)])

let go_of_sx x : goutlines = match x with
  | L [gs; ws; names] ->
    { go_glyphs = List.map glyph_of_sx (lst gs);
      go_widths = zlist ws;
      go_names = (match names with A "nil" -> None | l -> Some (List.map sx_bytes (lst l))) }
  | _ -> failwith "bad glyf outlines"

let sx_of_grec (r : grec) : sx =
  let (((old, g), w), name) = r in
  L [an old; sx_of_glyph g; az w; (match name with None -> A "nil" | Some s -> hx s)]

let sx_of_glyf_obs (o : glyf_obs) : sx =
  L [L (List.map sx_of_grec o.g_listed); L (List.map sx_of_grec o.g_extras);
     an o.g_nwidths; (match o.g_nnames with None -> A "nil" | Some k -> an k)]

(* ---- fonts ---- *)
let key_of_sx x = match x with
  | L [p; e; l] -> ((sx_n p, sx_n e), sx_n l)
  | _ -> failwith "bad cmap key"
let sx_of_key ((p, e), l) = L [an p; an e; an l]

let out (f : 'a -> sx) (o : 'a outcome) : sx =
  match o with
  | Ok a -> L [A "ok"; f a]
  | Err -> A "err"
  | Panic -> A "panic"
  | OutOfFuel -> A "fuel"

let () = main_loop (fun c ->
  match c with
  | [A "cff"; w; o; gl; extras; _flags] ->
    let which = (match atom w with "pub" -> false | "sfnt" -> true | _ -> failwith "bad selector") in
    out sx_of_cff_obs (run_cff which (outlines_of_sx o) (nlist gl) (nlist extras))
  | [A "glyf"; go; orc; gl; extras; _flags] ->
    out sx_of_glyf_obs (run_glyf (go_of_sx go) (List.map sx_nat (lst orc)) (nlist gl) (nlist extras))
  | [A "font"; orc; outl; cm; gdef; gl; _flags] ->
    let ol = (match outl with
        | L [A "cff"; o] -> OCff (outlines_of_sx o)
        | L [A "glyf"; g] -> OGlyf (go_of_sx g)
        | _ -> failwith "bad outlines selector") in
    let cm = (match cm with
        | A "nil" -> None
        | l -> Some (List.map (fun e -> match e with
            | L [k; d] -> (key_of_sx k, sx_bytes d)
            | _ -> failwith "bad cmap entry") (lst l))) in
    out (fun (r : font_obs) ->
        L [(match r.fo_outl with
            | ObsCff o -> L [A "cff"; sx_of_cff_obs o]
            | ObsGlyf o -> L [A "glyf"; sx_of_glyf_obs o]);
           (match r.fo_cmap with
            | None -> A "nil"
            | Some l -> L (List.map (fun (((k, is12), m), b) ->
                L [sx_of_key k; A (if is12 then "12" else "4");
                   L (List.map (fun (a, g) -> L [an a; an g]) m);
                   (match b with None -> A "nil" | Some b -> hx b)]) l))])
      (run_font (fun x -> x) (List.map sx_nat (lst orc)) ol cm (sx_bool gdef) (nlist gl))
  | _ -> failwith "bad case")
