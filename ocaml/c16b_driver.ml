(* C16B driver.  Cases:
     alias  <kind> (none <field>...) (given (<field> alias|fresh|none)...) ...
                                             -> ((<field> alias|fresh|none) ...)
        the model's aliasing table of the receiver kind (which fields refer to
        font memory, which to fresh memory), the fields the walk found
        nil / empty printed as none; given = what the caller handed to
        gtab.NewContext / Apply (for the fields the receiver only keeps)
     writes <kind> (written <field>...) ...  -> ((covered 0|1))
        is every field the harness saw written one the model says is not an
        alias of the font (and, for the receivers of Layout, one the model's
        Layout program stores through)?
   Further items are for the Go side (environment, how the object was
   obtained). *)
let kind_of_atom = function
  | "Layouter" -> RLayouter | "Context" -> RContext | "nested" -> RNested
  | "keepFunc" -> RKeepFunc | "Clone" -> RClone | "Subset" -> RSubset
  | s -> failwith ("unknown receiver kind " ^ s)

let is_font k = (match k with RClone | RSubset -> true | _ -> false)

let fld_of_atom k = function
  | "self" -> F_self | "text" -> F_text
  | "font" -> F_font | "cmap" -> F_cmap | "gsub" -> F_gsub | "gpos" -> F_gpos | "buf" -> F_buf
  | "lookups" -> F_lookups | "ll" -> F_ll | "gdef" -> F_gdef | "seq" -> F_seq | "lookup" -> F_lookup
  | "keep" -> F_keep | "stack" -> F_stack | "scratch" -> F_scratch
  | "InputPos" -> F_InputPos | "Actions" -> F_Actions
  | "Gdef" -> if is_font k then F_FGdef else F_Gdef
  | "Meta" -> F_Meta
  | "Outlines" -> F_Outlines | "CMapTable" -> F_CMapTable
  | "Gsub" -> F_FGsub | "Gpos" -> F_FGpos
  | s -> failwith ("unknown field " ^ s)

let atom_of_fld = function
  | F_self -> "self" | F_text -> "text"
  | F_font -> "font" | F_cmap -> "cmap" | F_gsub -> "gsub" | F_gpos -> "gpos" | F_buf -> "buf"
  | F_lookups -> "lookups" | F_ll -> "ll" | F_gdef -> "gdef" | F_seq -> "seq" | F_lookup -> "lookup"
  | F_keep -> "keep" | F_stack -> "stack" | F_scratch -> "scratch"
  | F_InputPos -> "InputPos" | F_Actions -> "Actions"
  | F_Gdef -> "Gdef" | F_Meta -> "Meta"
  | F_Outlines -> "Outlines" | F_CMapTable -> "CMapTable"
  | F_FGdef -> "Gdef" | F_FGsub -> "Gsub" | F_FGpos -> "Gpos"

let tagged tag x =
  match x with
  | L (A t :: rest) when t = tag -> rest
  | _ -> failwith ("(" ^ tag ^ " ...) expected")

let () = main_loop (fun c ->
  match c with
  | A "alias" :: kind :: nones :: given :: _ ->
    let k = kind_of_atom (atom kind) in
    let ns = List.map (fun x -> fld_of_atom k (atom x)) (tagged "none" nones) in
    let gv = List.map (fun x -> match x with
        | L [f; A "alias"] -> (fld_of_atom k (atom f), n_of_int 1)
        | L [f; A "fresh"] -> (fld_of_atom k (atom f), n_of_int 2)
        | L [f; A "none"] -> (fld_of_atom k (atom f), n_of_int 0)
        | _ -> failwith "bad (given ...)") (tagged "given" given) in
    L (List.map (fun (f, code) ->
         L [A (atom_of_fld f); A (match int_of_n code with 0 -> "none" | 1 -> "alias" | _ -> "fresh")])
       (alias_report k ns gv))
  | A "writes" :: kind :: written :: _ ->
    let k = kind_of_atom (atom kind) in
    let ws = List.map (fun x -> fld_of_atom k (atom x)) (tagged "written" written) in
    L [L [A "covered"; ab (writes_covered k ws)]]
  | _ -> failwith "bad case")
