(* C16 driver.  Case (mode = seq | frozen | conc; frozen is seq on a copy of
   the environment whose shared state lies in read-only memory):
     <mode> <env> (heap (cell val)...) (threads (<op>...)...) (sched tid...)
     <op> = (Name arg (r cell...) (w (cell val)...))
   The operation names, their arguments and the environment name are for the
   Go side; the model sees the recorded traces, the initial cell values and
   the schedule.  Output: ((res (flag...)...) (fin b...) (heapdiff (c v)...) [(race 0)])
   or ((race 1)) when the mode is conc and the traces conflict. *)
let tagged tag x =
  match x with
  | L (A t :: rest) when t = tag -> rest
  | _ -> failwith ("(" ^ tag ^ " ...) expected")

let cv x = match x with L [c; v] -> (sx_n c, sx_n v) | _ -> failwith "bad (cell val)"

let oper_of_sx x =
  match x with
  | L [A _; _; r; w] -> (List.map sx_n (tagged "r" r), List.map cv (tagged "w" w))
  | _ -> failwith "bad op"

let () = main_loop (fun c ->
  match c with
  | [mode; _env; heap; threads; sched] ->
    let conc = (match atom mode with "conc" -> true | "seq" | "frozen" -> false | _ -> failwith "bad mode") in
    let h0 = List.map cv (tagged "heap" heap) in
    let ops = List.map (fun t -> List.map oper_of_sx (lst t)) (tagged "threads" threads) in
    let sch = List.map sx_nat (tagged "sched" sched) in
    let ob = run_case h0 ops sch in
    if conc && ob_conflict ob then L [L [A "race"; A "1"]]
    else begin
      let res = L (A "res" :: List.map (fun fl -> L (List.map ab fl)) (ob_flags ob)) in
      let fin = L (A "fin" :: List.map ab (ob_fin ob)) in
      let hd = L (A "heapdiff" :: List.map (fun (c, v) -> L [an c; an v]) (ob_heapdiff ob)) in
      L ([res; fin; hd] @ (if conc then [L [A "race"; A "0"]] else []))
    end
  | _ -> failwith "bad case")
