(* C02 driver: case = gtab <gsub|gpos> x<hex>; prints the model's view of gtab.Read *)
let sx_of_sub (s : subt) : sx =
  match s with
  | SExt (tp, off) -> L [A "ext"; an tp; an off]
  | SLeaf (pos, tp, fmt) -> L [A "leaf"; an pos; an tp; an fmt]

let () = main_loop (fun c ->
  match c with
  | [A "gtab"; which; data] ->
    let data = sx_bytes data in
    let ext = (match atom which with "gsub" -> gtab_gsubExt | "gpos" -> gtab_gposExt | _ -> failwith "bad type") in
    (match read_gtab gtab_maxScriptListWork gtab_lookupCap (sr_hook ext) data with
     | Ok g ->
       L [A "ok"; an (distinct_calls (g_lookups g));
          L (List.map (fun f -> L (an (f_tag f) :: List.map an (f_lookups f))) (g_features g));
          L (List.map (fun l -> L [an (l_type l); an (l_flags l); an (l_mfs l); L (List.map sx_of_sub (l_subs l))]) (g_lookups g))]
     | Err -> A "err"
     | Panic -> A "panic"
     | OutOfFuel -> A "fuel")
  | _ -> failwith "bad case")
