(* C03 driver.  Case lines:
     cksum (xCHUNK ...)              -> (streaming-sum block-sum)
     write SCALER ((xNAME xDATA|nil) ...)   -> (ok xBYTES) | panic
     write0 SCALER (...)             -> same, on the pre-fix model (M_write_original)
     check xBYTES                    -> 0 | 1        (container_ok)
     readdir xBYTES                  -> (ok SCALER ((TAG OFF LEN) ...)) | err
     readtabs xBYTES                 -> (ok SCALER ((TAG OFF LEN xDATA) ...)) | err
     filesum xBYTES                  -> N *)
let sx_table (x : sx) =
  match x with
  | L [name; A "nil"] -> (sx_bytes name, None)
  | L [name; d] -> (sx_bytes name, Some (sx_bytes d))
  | _ -> failwith "bad table"

let sx_outcome (f : 'a -> sx) (o : 'a outcome) : sx =
  match o with
  | Ok a -> f a
  | Err -> A "err"
  | Panic -> A "panic"
  | OutOfFuel -> A "fuel"

let toc_sx ((tg, off), len) = L [an tg; an off; an len]

let () = main_loop (fun c ->
  match c with
  | [A "cksum"; chunks] ->
    let cs = List.map sx_bytes (lst chunks) in
    L [an (m_checksum_chunks cs); an (s_checksum (List.concat cs))]
  | [A "write"; scaler; tabs] ->
    sx_outcome (fun b -> L [A "ok"; A (hex_of_bytes b)]) (m_write (sx_n scaler) (List.map sx_table (lst tabs)))
  | [A "write0"; scaler; tabs] ->
    sx_outcome (fun b -> L [A "ok"; A (hex_of_bytes b)]) (m_write_original (sx_n scaler) (List.map sx_table (lst tabs)))
  | [A "check"; b] -> ab (container_ok (sx_bytes b))
  | [A "readdir"; b] ->
    sx_outcome (fun (s, toc) -> L [A "ok"; an s; L (List.map toc_sx (toc_sorted toc))]) (m_read_dir (sx_bytes b))
  | [A "readtabs"; b] ->
    sx_outcome (fun (s, l) -> L [A "ok"; an s;
        L (List.map (fun (((tg, off), len), d) -> L [an tg; an off; an len; A (hex_of_bytes d)]) l)])
      (m_read_tables (sx_bytes b))
  | [A "filesum"; b] -> an (file_sum (sx_bytes b))
  | _ -> failwith "bad case")
