(* C12C driver: case = hread numHor data; runs the GENERATED loop of hmtx.Decode *)
let () = main_loop (fun c ->
  match c with
  | [A "hread"; n; data] ->
    (match gen_hmtx_read (sx_n n) (sx_bytes data) with
     | Ok (ws, ls) -> L [A "ok"; L (List.map az ws); L (List.map az ls)]
     | Err -> A "err"
     | Panic -> A "panic"
     | OutOfFuel -> A "fuel")
  | _ -> failwith "bad case")
