(* C07B driver: the stateful shell around the shaping engine.
   case  = ctx ll gdef (lklen lkcap) (call ...)        call = (src lookup-array glyph-array len)
             -> one observation per Apply call on ONE Context (M_ctx_apply), ending at the first panic:
                (ok (len (glyph ... over cap)) shared (caller's array afterwards) state)
         | lay font gdef gsub gpos (string ...)          font = ((rune gid) ...) nglyphs (width ...)
                                                         gsub/gpos = nil | (ll (lookup ...))
             -> one observation per Layout call on ONE Layouter (M_layouter_layout):
                (ok (len (glyph ... over cap)) reused (previous buffer's array afterwards) gsub-state gpos-state)
         | spec font gdef gsub gpos (string ...)         -> S_layout for every string (fresh contexts)
   state = (seq lookup keep (stack-len stack-cap dead ...) (scratch-cap pos ...))
           seq = nil | (set-by-this-call len cap); keep = nil | (flags set); dead = nil | (len(InputPos) len(Actions) EndPos)
   The table grammar (ll, gdef, glyphs) is C07's: see harness/c07/sx.go. *)
let pair f g x = match x with L [a; b] -> (f a, g b) | _ -> failwith "pair expected"
let slist f x = List.map f (lst x)

let sx_covtab x = slist (pair sx_n sx_nat) x
let sx_set x = slist sx_n x
let sx_cls x = slist (pair sx_n sx_n) x
let sx_acts x = slist (pair sx_nat sx_nat) x
let sx_seqrule x = match x with L [i; a] -> (slist sx_n i, sx_acts a) | _ -> failwith "seqrule"
let sx_chainrule x = match x with
  | L [b; i; l; a] -> (((slist sx_n b, slist sx_n i), slist sx_n l), sx_acts a)
  | _ -> failwith "chainrule"
let sx_vr x = match x with
  | A "nil" -> None
  | L [a; b; c; d; e; f; g; h] ->
    Some { vr_xpl = sx_z a; vr_ypl = sx_z b; vr_xadv = sx_z c; vr_yadv = sx_z d;
           vr_d1 = sx_n e; vr_d2 = sx_n f; vr_d3 = sx_n g; vr_d4 = sx_n h }
  | _ -> failwith "valrec"
let sx_anchor x = pair sx_z sx_z x
let sx_markrec x = match x with L [c; a; b] -> (sx_n c, (sx_z a, sx_z b)) | _ -> failwith "markrec"

let sx_sub (x : sx) : subtable =
  match x with
  | L [A "g11"; c; d] -> Gsub1_1 (sx_set c, sx_n d)
  | L [A "g12"; c; s] -> Gsub1_2 (sx_covtab c, slist sx_n s)
  | L [A "g21"; c; r] -> Gsub2_1 (sx_covtab c, slist (slist sx_n) r)
  | L [A "g31"; c; r] -> Gsub3_1 (sx_covtab c, slist (slist sx_n) r)
  | L [A "g41"; c; r] -> Gsub4_1 (sx_covtab c, slist (slist (pair (slist sx_n) sx_n)) r)
  | L [A "g81"; c; b; l; s] -> Gsub8_1 (sx_covtab c, slist sx_covtab b, slist sx_covtab l, slist sx_n s)
  | L [A "sc1"; c; r] -> SeqCtx1 (sx_covtab c, slist (slist sx_seqrule) r)
  | L [A "sc2"; c; k; r] -> SeqCtx2 (sx_covtab c, sx_cls k, slist (slist sx_seqrule) r)
  | L [A "sc3"; i; a] -> SeqCtx3 (slist sx_set i, sx_acts a)
  | L [A "cc1"; c; r] -> Chain1 (sx_covtab c, slist (slist sx_chainrule) r)
  | L [A "cc2"; c; k1; k2; k3; r] -> Chain2 (sx_covtab c, sx_cls k1, sx_cls k2, sx_cls k3, slist (slist sx_chainrule) r)
  | L [A "cc3"; b; i; l; a] -> Chain3 (slist sx_set b, slist sx_set i, slist sx_set l, sx_acts a)
  | L [A "p11"; c; v] -> Gpos1_1 (sx_set c, sx_vr v)
  | L [A "p12"; c; v] -> Gpos1_2 (sx_covtab c, slist sx_vr v)
  | L [A "p21"; p] -> Gpos2_1 (slist (fun y -> match y with
        | L [l; r; v1; v2] -> ((sx_n l, sx_n r), (sx_vr v1, sx_vr v2)) | _ -> failwith "pair entry") p)
  | L [A "p22"; c; k1; k2; a] -> Gpos2_2 (sx_set c, sx_cls k1, sx_cls k2, slist (slist (pair sx_vr sx_vr)) a)
  | L [A "p31"; c; r] -> Gpos3_1 (sx_covtab c, slist (fun y -> match y with
        | L [a; b; c; d] -> ((sx_z a, sx_z b), (sx_z c, sx_z d)) | _ -> failwith "entryexit") r)
  | L [A "p41"; m; b; mr; br] -> Gpos4_1 (sx_covtab m, sx_covtab b, slist sx_markrec mr, slist (slist sx_anchor) br)
  | A "p51" -> Gpos5_1
  | L [A "p61"; m; b; mr; br] -> Gpos6_1 (sx_covtab m, sx_covtab b, slist sx_markrec mr, slist (slist sx_anchor) br)
  | _ -> failwith "bad subtable"

let sx_lookup x = match x with
  | L [f; m; s] -> { lk_flags = sx_n f; lk_mfs = sx_nat m; lk_subs = slist sx_sub s }
  | _ -> failwith "bad lookup"

let sx_gdef x = match x with
  | A "nil" -> None
  | L [c; a; s] ->
    Some { gd_class = (match c with A "nil" -> None | _ -> Some (sx_cls c));
           gd_attach = sx_cls a; gd_sets = slist sx_set s }
  | _ -> failwith "bad gdef"

let sx_glyph x = match x with
  | L [g; t; xo; yo; ad] -> { g_gid = sx_n g; g_text = slist sx_n t; g_xoff = sx_z xo; g_yoff = sx_z yo; g_adv = sx_z ad }
  | _ -> failwith "bad glyph"

let glyph_sx g = L [an g.g_gid; L (List.map an g.g_text); az g.g_xoff; az g.g_yoff; az g.g_adv]
let glyphs_sx l = L (List.map glyph_sx l)

let state_sx (st : ctx_state) : sx =
  let seq = match st.cs_seq with
    | None -> A "nil"
    | Some ((_, _), O) -> A "nil"     (* a slice without capacity: nil and empty are not told apart *)
    | Some ((c, l), k) -> L [ab (int_of_nat c + 1 = int_of_nat st.cs_calls); anat l; anat k] in
  let lookup = match st.cs_lookup with None -> A "nil" | Some i -> anat i in
  let keep = match st.cs_keep with None -> A "nil" | Some (f, m) -> L [an f; anat m] in
  let b = st.cs_bufs in
  let dead = List.map (fun d -> match d with
      | None -> A "nil"
      | Some ((p, a), e) -> L [anat p; anat a; anat e]) b.b_dead in
  let ncap = List.length st.cs_stack + List.length b.b_dead in
  L [seq; lookup; keep;
     L (ai (List.length st.cs_stack) :: ai ncap :: dead);
     L (anat b.b_scratch.is_cap :: List.map anat b.b_scratch.is_data)]

let mem_sx (m : gmem) : sx = L [ai (List.length m.gm_live); glyphs_sx (List.append m.gm_live m.gm_tail)]

let sx_tab x = match x with
  | A "nil" -> None
  | L [ll; lks] -> Some (slist sx_lookup ll, slist sx_nat lks)
  | _ -> failwith "bad table"

let sx_font x = match x with
  | L [cm; n; w] -> { ft_cmap = slist (pair sx_n sx_n) cm; ft_nglyphs = sx_nat n; ft_widths = slist sx_z w }
  | _ -> failwith "bad font"

let opt_state_sx o = match o with None -> A "nil" | Some (st, _) -> state_sx st

let () = main_loop (fun c ->
  match c with
  | [A "ctx"; ll; gd; L [lklen; lkcap]; calls] ->
    let ll = slist sx_lookup ll in
    let gd = sx_gdef gd in
    let rec go st cs acc =
      match cs with
      | [] -> List.rev acc
      | L [_; lks; arr; len] :: rest ->
        let inp = { ai_lookups = slist sx_nat lks; ai_seq = gm_of (slist sx_glyph arr) (sx_nat len) } in
        (match m_ctx_apply go_growth st inp with
         | Ok (st', out) ->
           go st' rest (L [A "ok"; mem_sx out.ao_ret; ab out.ao_shared; glyphs_sx out.ao_caller; state_sx st'] :: acc)
         | Panic -> List.rev (A "panic" :: acc)
         | Err -> List.rev (A "err" :: acc)
         | OutOfFuel -> List.rev (A "fuel" :: acc))
      | _ -> failwith "bad call" in
    L (go (new_ctx ll gd (sx_nat lklen) (sx_nat lkcap)) (lst calls) [])
  | [A "lay"; ft; gd; gsub; gpos; strs] ->
    let st0 = new_layouter (sx_font ft) (sx_gdef gd) (sx_tab gsub) (sx_tab gpos) in
    let rec go st ss acc =
      match ss with
      | [] -> List.rev acc
      | s :: rest ->
        (match m_layouter_layout go_growth st (slist sx_n s) with
         | Ok (st', out) ->
           go st' rest (L [A "ok"; mem_sx out.lo_ret; ab out.lo_reused; glyphs_sx out.lo_prev;
                           opt_state_sx st'.ls_gsub; opt_state_sx st'.ls_gpos] :: acc)
         | Panic -> List.rev (A "panic" :: acc)
         | Err -> List.rev (A "err" :: acc)
         | OutOfFuel -> List.rev (A "fuel" :: acc)) in
    L (go st0 (lst strs) [])
  | [A "spec"; ft; gd; gsub; gpos; strs] ->
    let ft = sx_font ft and gd = sx_gdef gd and gsub = sx_tab gsub and gpos = sx_tab gpos in
    L (List.map (fun s -> match s_layout ft gd gsub gpos (slist sx_n s) with
      | Ok l -> L [A "ok"; glyphs_sx l]
      | Panic -> A "panic" | Err -> A "err" | OutOfFuel -> A "fuel") (lst strs))
  | _ -> failwith "bad case")
