(* C08B driver (part of property C08): first atom selects the modelled function.
     sub-enc SUBTABLE             -> (ok xBYTES encodeLen) | (ok LEN MD5 encodeLen) (more than 300 bytes) | panic
     sub-read TYPE xBYTES pos     -> (ok SUBTABLE) | err | panic | fuel   (GPOS lookup type TYPE, format word at pos)
     anchor-read xBYTES pos       -> (ok (x y)) | err
     markarray-read xBYTES pos n  -> (ok ((class x y) ...)) | err
     spec51 MCOV LCOV mcc MARKS LIGS -> (ok xBYTES fits) : the GPOS 5.1 layout of the specification side
       SUBTABLE = (gpos22 SET CD CD ((VR VR VR VR ...) ...))   rows of First Second First Second ...
                | (gpos31 COV ((ex ey xx xy) ...))
                | (gpos41 COV COV MARKS ROWS) | (gpos61 COV COV MARKS ROWS)
                | (gpos51 COV COV MARKS ((ROWS) ...))
                | C08's subtables (other keys reached by mutated format words)
       COV = ((gid idx runlen) ...)   SET = ((gid runlen) ...)   CD = ((gid class runlen) ...)
       MARKS = ((class x y) ...)      ROWS = (((x y) ...) ...)   VR = nil | (xp yp xa ya xpd ypd xad yad) *)

let outc (f : 'a -> sx) (o : 'a outcome) : sx =
  match o with
  | Ok a -> f a
  | Err -> A "err"
  | Panic -> A "panic"
  | OutOfFuel -> A "fuel"

(* ---- helpers shared in spirit with c08_driver.ml ---- *)
let runs_of_pairs (l : (int * int) list) : sx =
  let rec go l cur acc =
    match l, cur with
    | [], None -> List.rev acc
    | [], Some (g, i, n) -> List.rev (L [ai g; ai i; ai n] :: acc)
    | (g', i') :: tl, None -> go tl (Some (g', i', 1)) acc
    | (g', i') :: tl, Some (g, i, n) ->
      if g' = g + n && i' = i + n then go tl (Some (g, i, n + 1)) acc
      else go tl (Some (g', i', 1)) (L [ai g; ai i; ai n] :: acc)
  in
  L (go l None [])

let cruns_of_pairs (l : (int * int) list) : sx =
  let rec go l cur acc =
    match l, cur with
    | [], None -> List.rev acc
    | [], Some (g, c, n) -> List.rev (L [ai g; ai c; ai n] :: acc)
    | (g', c') :: tl, None -> go tl (Some (g', c', 1)) acc
    | (g', c') :: tl, Some (g, c, n) ->
      if g' = g + n && c' = c then go tl (Some (g, c, n + 1)) acc
      else go tl (Some (g', c', 1)) (L [ai g; ai c; ai n] :: acc)
  in
  L (go l None [])

let pairs_of_cruns (x : sx) : (n * n) list =
  List.concat_map (fun r -> match r with
    | L [g; c; n] -> let g = sx_int g and c = sx_int c and n = sx_int n in
      List.init n (fun k -> (n_of_int (g + k), n_of_int c))
    | _ -> failwith "bad run") (lst x)
let sx_of_cd (l : (n * n) list) : sx = cruns_of_pairs (List.map (fun (g, c) -> (int_of_n g, int_of_n c)) l)

let cov_of_sx (x : sx) : (n * n) list =
  List.concat_map (fun r -> match r with
    | L [g; i; n] -> let g = sx_int g and i = sx_int i and n = sx_int n in
      List.init n (fun k -> (n_of_int (g + k), n_of_int (i + k)))
    | _ -> failwith "bad run") (lst x)
let sx_of_cov (l : (n * n) list) : sx = runs_of_pairs (List.map (fun (g, i) -> (int_of_n g, int_of_n i)) l)

let set_of_sx x = List.concat_map (fun r -> match r with
  | L [g; n] -> let g = sx_int g and n = sx_int n in List.init n (fun k -> n_of_int (g + k))
  | _ -> failwith "bad set run") (lst x)
let sx_of_set (s : n list) : sx =
  let rec go l cur acc = match l, cur with
    | [], None -> List.rev acc
    | [], Some (g, n) -> List.rev (L [ai g; ai n] :: acc)
    | g' :: tl, None -> go tl (Some (g', 1)) acc
    | g' :: tl, Some (g, n) -> if g' = g + n then go tl (Some (g, n + 1)) acc
                               else go tl (Some (g', 1)) (L [ai g; ai n] :: acc) in
  L (go (List.map int_of_n s) None [])

let vr_of_sx x = match x with
  | A "nil" -> None
  | L [a; b; c; d; e; f; g; h] ->
    Some { v_xp = sx_z a; v_yp = sx_z b; v_xa = sx_z c; v_ya = sx_z d;
           v_xpd = sx_n e; v_ypd = sx_n f; v_xad = sx_n g; v_yad = sx_n h }
  | _ -> failwith "bad value record"
let sx_of_vr v = match v with
  | None -> A "nil"
  | Some r -> L [az r.v_xp; az r.v_yp; az r.v_xa; az r.v_ya; an r.v_xpd; an r.v_ypd; an r.v_xad; an r.v_yad]

let ns_of_sx x = List.map sx_n (lst x)
let sx_of_ns l = L (List.map an l)

(* C08's subtables (reached when a mutated format word selects another reader) *)
let sx_of_sets ss = L (List.map (fun s -> L (List.map (fun (o, ins) -> L (an o :: List.map an ins)) s)) ss)
let sx_of_subtable (s : subtable) : sx = match s with
  | SGsub41 (c, ss) -> L [A "gsub41"; sx_of_cov c; sx_of_sets ss]
  | SGsub11 (gl, d) -> L [A "gsub11"; sx_of_ns gl; an d]
  | SGsub12 (c, su) -> L [A "gsub12"; sx_of_cov c; sx_of_ns su]
  | SGsub21 (c, q) -> L [A "gsub21"; sx_of_cov c; L (List.map sx_of_ns q)]
  | SGsub31 (c, q) -> L [A "gsub31"; sx_of_cov c; L (List.map sx_of_ns q)]
  | SGpos11 (c, v) -> L [A "gpos11"; sx_of_cov c; sx_of_vr v]
  | SGpos12 (c, vs) -> L [A "gpos12"; sx_of_cov c; L (List.map sx_of_vr vs)]
let sx_of_groups gs =
  L (List.concat_map (fun (l, its) ->
       List.map (fun (r, (v1, v2)) -> L [an l; an r; sx_of_vr v1; sx_of_vr v2]) its) gs)

(* ---- this part's values ---- *)
let anchor_of_sx x = match x with L [a; b] -> (sx_z a, sx_z b) | _ -> failwith "bad anchor"
let sx_of_anchor (x, y) = L [az x; az y]
let marks_of_sx x = List.map (fun m -> match m with
  | L [c; a; b] -> (sx_n c, (sx_z a, sx_z b)) | _ -> failwith "bad mark record") (lst x)
let sx_of_marks ms = L (List.map (fun (c, (x, y)) -> L [an c; az x; az y]) ms)
let rows_of_sx x = List.map (fun r -> List.map anchor_of_sx (lst r)) (lst x)
let sx_of_rows rs = L (List.map (fun r -> L (List.map sx_of_anchor r)) rs)

(* rows of value record pairs, flattened: (V1 V2 V1 V2 ...) *)
let vrrow_of_sx x =
  let rec go l = match l with
    | [] -> []
    | a :: b :: tl -> (vr_of_sx a, vr_of_sx b) :: go tl
    | _ -> failwith "odd number of value records" in
  go (lst x)
let sx_of_vrrow r = L (List.concat_map (fun (a, b) -> [sx_of_vr a; sx_of_vr b]) r)

let ee_of_sx x = List.map (fun r -> match r with
  | L [a; b; c; d] -> ((sx_z a, sx_z b), (sx_z c, sx_z d)) | _ -> failwith "bad entry/exit record") (lst x)
let sx_of_ee rs = L (List.map (fun ((a, b), (c, d)) -> L [az a; az b; az c; az d]) rs)

let sx_of_markbase tag ((((mc, bc), ms), rows) : markbase_val) : sx =
  L [A tag; sx_of_cov mc; sx_of_cov bc; sx_of_marks ms; sx_of_rows rows]

let sx_of_subtableB (s : subtableB) : sx = match s with
  | SB_other (S1 s1) -> sx_of_subtable s1
  | SB_other (SGpos21 gs) -> L [A "gpos21"; sx_of_groups gs]
  | SGpos22 (((cov, t1), t2), rows) ->
    L [A "gpos22"; sx_of_set cov; sx_of_cd t1; sx_of_cd t2; L (List.map sx_of_vrrow rows)]
  | SGpos31 (cov, recs) -> L [A "gpos31"; sx_of_cov cov; sx_of_ee recs]
  | SGpos41 v -> sx_of_markbase "gpos41" v
  | SGpos61 v -> sx_of_markbase "gpos61" v
  | SGpos51 (((mc, lc), ms), ligs) ->
    L [A "gpos51"; sx_of_cov mc; sx_of_cov lc; sx_of_marks ms; L (List.map sx_of_rows ligs)]

let string_of_bytes (b : n list) : string =
  let buf = Buffer.create (List.length b) in
  List.iter (fun x -> Buffer.add_char buf (Char.chr (int_of_n x))) b;
  Buffer.contents buf

let enc_obs (b : n list outcome) (n : n outcome) : sx =
  match b, n with
  | Ok b, Ok n ->
    let len = List.length b in
    if len <= 300 then L [A "ok"; A (hex_of_bytes b); an n]
    else L [A "ok"; ai len; A (Digest.to_hex (Digest.string (string_of_bytes b))); an n]
  | Panic, _ | _, Panic -> A "panic"
  | _ -> A "err"

let sub_encode (x : sx) : sx = match x with
  | L [A "gpos41"; mc; bc; ms; rows] ->
    let mc = as_table (cov_of_sx mc) and bc = as_table (cov_of_sx bc) and ms = marks_of_sx ms and rows = rows_of_sx rows in
    enc_obs (m_gpos41_encode mc bc ms rows) (m_gpos41_len mc bc ms rows)
  | L [A "gpos61"; mc; bc; ms; rows] ->
    let mc = as_table (cov_of_sx mc) and bc = as_table (cov_of_sx bc) and ms = marks_of_sx ms and rows = rows_of_sx rows in
    enc_obs (m_gpos61_encode mc bc ms rows) (m_gpos61_len mc bc ms rows)
  | L [A "gpos22"; cov; t1; t2; rows] ->
    let gl = set_of_sx cov and t1 = pairs_of_cruns t1 and t2 = pairs_of_cruns t2 and rows = List.map vrrow_of_sx (lst rows) in
    enc_obs (m_gpos22_encode gl t1 t2 rows) (m_gpos22_len gl t1 t2 rows)
  | L [A "gpos31"; cov; recs] ->
    let c = as_table (cov_of_sx cov) and recs = ee_of_sx recs in
    enc_obs (m_gpos31_encode c recs) (m_gpos31_len c recs)
  | L [A "gpos51"; mc; lc; ms; ligs] ->
    let mc = as_table (cov_of_sx mc) and lc = as_table (cov_of_sx lc) and ms = marks_of_sx ms
    and ligs = List.map rows_of_sx (lst ligs) in
    enc_obs (m_gpos51_encode mc lc ms ligs) (m_gpos51_len mc lc ms ligs)
  | _ -> failwith "bad subtable"

let () = main_loop (fun c ->
  match c with
  | [A "sub-enc"; st] -> sub_encode st
  | [A "sub-read"; tp; data; pos] ->
    outc (fun st -> L [A "ok"; sx_of_subtableB st]) (m_sub_readB (sx_bytes data) (sx_n pos) (sx_n tp))
  | [A "anchor-read"; data; pos] ->
    outc (fun a -> L [A "ok"; sx_of_anchor a]) (m_anchor_read (sx_bytes data) (sx_n pos))
  | [A "markarray-read"; data; pos; n] ->
    outc (fun ms -> L [A "ok"; sx_of_marks ms]) (m_markarray_read (sx_bytes data) (sx_n pos) (sx_n n))
  | [A "spec51"; mc; lc; mcc; ms; ligs] ->
    let mcov = as_table (cov_of_sx mc) and lcov = as_table (cov_of_sx lc) in
    let ms = marks_of_sx ms and ligs = List.map rows_of_sx (lst ligs) and mcc = sx_n mcc in
    (match m_cov_encode mcov, m_cov_encode lcov with
     | Ok mcb, Ok lcb ->
       let b = s_gpos51_bytes mcb lcb mcc ms ligs in
       let len = List.length b in
       let fits = ab (s_gpos51_fits mcb lcb mcc ms ligs) in
       if len <= 300 then L [A "ok"; A (hex_of_bytes b); fits]
       else L [A "ok"; ai len; A (Digest.to_hex (Digest.string (string_of_bytes b))); fits]
     | _ -> A "panic")
  | _ -> failwith "bad case")
