(* C05B driver.
     font xDATA      -> M_cff_read (the mirror of cff.Read up to the glyphs)
     spec xDATA      -> S_cff_glyphs (the glyphs by the specifications)
     priv xDICT xDATA-> M_read_private on the decoded Top / Font DICT xDICT against the file xDATA
     index xDATA     -> M_index_read_fast on xDATA (file size = its length) and S_index
   Results
     font/spec: (ok GLYPH ...) | err | unspec | panic | fuel | none
       GLYPH = (REAL (hstem ...) (vstem ...) (CMD ...)), coordinates as 16.16 integers
       REAL  = (neg mantissa exponent): exact decimal, canonical
       CMD   = (m x y) | (l x y) | (c x1 y1 x2 y2 x3 y3) | (hm xMASK) | (cm xMASK)
     priv: (ok REAL REAL (xSUBR ...)) | err | panic | fuel
     index: (ok (xOBJ ...) restlen) spec-same|spec-differs | err ... *)

(* decimal text of a positive *)
let dec_double (ds : int list) : int list =
  let rec go ds carry = match ds with
    | [] -> if carry > 0 then [carry] else []
    | d :: r -> let v = 2 * d + carry in (v mod 10) :: go r (v / 10) in
  go ds 0
let dec_succ (ds : int list) : int list =
  let rec go ds = match ds with
    | [] -> [1]
    | d :: r -> if d < 9 then (d + 1) :: r else 0 :: go r in
  go ds
let rec pos_dec (p : positive) : int list =
  match p with
  | XH -> [1]
  | XO q -> dec_double (pos_dec q)
  | XI q -> dec_succ (dec_double (pos_dec q))
let z_string (x : z) : string =
  let str ds = String.concat "" (List.rev_map string_of_int ds) in
  match x with
  | Z0 -> "0"
  | Zpos p -> str (pos_dec p)
  | Zneg p -> "-" ^ str (pos_dec p)
let azs x = A (z_string x)

let real_out (r : real) : sx = L [ab r.r_neg; azs r.r_mant; azs r.r_exp]

let sx_of_cmd (c : cmd) : sx =
  match c with
  | CMove (x, y) -> L [A "m"; azs x; azs y]
  | CLine (x, y) -> L [A "l"; azs x; azs y]
  | CCurve (a, b, c, d, e, f) -> L [A "c"; azs a; azs b; azs c; azs d; azs e; azs f]
  | CHint bs -> L [A "hm"; A (hex_of_bytes bs)]
  | CCntr bs -> L [A "cm"; A (hex_of_bytes bs)]

let sx_of_glyph (g : cglyph) : sx =
  L [real_out g.cg_width; L (List.map azs g.cg_hstem); L (List.map azs g.cg_vstem);
     L (List.map sx_of_cmd g.cg_cmds)]

let no_code (_ : n list) : n option = None

let sx_of_gres (f : 'a -> sx) (r : 'a gres) : sx =
  match r with
  | GOk a -> f a
  | GErr -> A "err"
  | GPanic -> A "panic"
  | GFuel -> A "fuel"
  | GUnspec -> A "unspec"

let rec first_bad (l : cglyph gres list) (acc : cglyph list) : sx =
  match l with
  | [] -> L (A "ok" :: List.rev_map sx_of_glyph acc)
  | GOk g :: r -> first_bad r (g :: acc)
  | x :: _ -> sx_of_gres (fun _ -> A "?") x

let outc (f : 'a -> sx) (o : 'a outcome) : sx =
  match o with
  | Ok a -> f a
  | Err -> A "err"
  | Panic -> A "panic"
  | OutOfFuel -> A "fuel"

let () = main_loop (fun c ->
  match c with
  | A "font" :: data :: _ ->
    sx_of_gres (fun gl -> L (A "ok" :: List.map sx_of_glyph gl)) (m_cff_read no_code no_code (sx_bytes data))
  | A "spec" :: data :: _ ->
    (match s_cff_glyphs (sx_bytes data) with
     | Some l -> first_bad l []
     | None -> A "none")
  | [A "priv"; dict; data] ->
    (match m_decodeDict [] (sx_bytes dict) with
     | Ok d ->
       outc (fun p -> L [A "ok"; real_out p.pi_defw; real_out p.pi_nomw;
                         L (List.map (fun b -> A (hex_of_bytes b)) p.pi_subrs)])
         (m_read_private (sx_bytes data) [] d)
     | Err -> A "err" | Panic -> A "panic" | OutOfFuel -> A "fuel")
  | [A "index"; data] ->
    let inp = sx_bytes data in
    (match m_index_read_fast (lenN inp) inp with
     | Ok (bl, rest) ->
       let same = (match s_index inp with Some (bl', _) -> bl = bl' | None -> false) in
       L [A "ok"; L (List.map (fun b -> A (hex_of_bytes b)) bl); ai (List.length rest);
          A (if same then "spec-same" else "spec-differs")]
     | Err -> A "err" | Panic -> A "panic" | OutOfFuel -> A "fuel")
  | _ -> failwith "bad case")
