(* C17B driver: case = (gen data rpos script seeks ops); runs parser.New and the
   history through the GENERATED functions (run_generated) and prints, per
   step, the observation, Pos() and the fields, then the final buffer and the
   calls made on the underlying reader. *)
let z_of_n (x : n) : z = z_of_int (int_of_n x)

let beh_of_sx (x : sx) : rbeh =
  match x with
  | A "full" -> BFull
  | L [A "short"; l; e] -> BShort (sx_z l, sx_bool e)
  | L [A "fail"; l; c] -> BFail (sx_z l, sx_z c)
  | _ -> failwith "bad behaviour"

let gop_of_sx (x : sx) : gop =
  match x with
  | A "u8" -> GU8 | A "u16" -> GU16 | A "i16" -> GI16 | A "u32" -> GU32
  | A "slice" -> GSlice | A "pos" -> GPos | A "size" -> GSize
  | L [A "seek"; p] -> GSeek (sx_z p)
  | L [A "discard"; p] -> GDiscard (sx_z p)
  | L [A "bytes"; p] -> GBytes (sx_z p)
  | L [A "read"; p] -> GReadN (sx_nat p)
  | _ -> failwith "bad op"

let hex_of_zs (l : z list) : string =
  let b = Buffer.create (2 * List.length l + 1) in
  Buffer.add_char b 'x';
  List.iter (fun x -> Buffer.add_string b (Printf.sprintf "%02x" ((int_of_z x) land 255))) l;
  Buffer.contents b

(* a buffer without its trailing zero bytes (the harness prints the same) *)
let sx_of_buf (l : z list) : sx =
  let rec strip r = match r with x :: t when int_of_z x = 0 -> strip t | _ -> r in
  L [ai (List.length l); A (hex_of_zs (List.rev (strip (List.rev l))))]

let sx_of_err (e : gerr) : sx =
  match e with
  | ENil -> A "nil" | EEOF -> A "eof" | EUnexpectedEOF -> A "ueof"
  | EOther c -> A ("o" ^ string_of_int (int_of_z c))

let sx_of_obs (r : gobs) : sx =
  match r with
  | GDone -> A "done"
  | GVal v -> L [A "val"; az v]
  | GData b -> L [A "data"; A (hex_of_zs b)]
  | GWords w -> L (A "words" :: List.map az w)
  | GRead (n, b, e) -> L [A "read"; az n; A (hex_of_zs b); sx_of_err e]
  | GErr e -> L [A "err"; sx_of_err e]
  | GPanic -> A "panic"
  | GFuel -> A "fuel"

let sx_of_call (c : rcall) : sx =
  match c with
  | CRead n -> L [A "r"; az n]
  | CSeek o -> L [A "s"; az o]

let () = main_loop (fun c ->
  match c with
  | [A "gen"; data; rpos; script; seeks; ops] ->
    let data = List.map z_of_n (sx_bytes data) in
    let script = List.map beh_of_sx (lst script) in
    let seeks = List.map sx_bool (lst seeks) in
    let ops = List.map gop_of_sx (lst ops) in
    (match run_generated data (sx_z rpos) script seeks ops with
     | None -> A "new-failed"
     | Some ((tr, buf), log) ->
       L [ L (List.map (fun ((r, p), ((((f, po), u), lr), lb)) ->
                L [sx_of_obs r; az p; L [az f; az po; az u; az lr; az lb]]) tr);
           sx_of_buf buf;
           L (List.map sx_of_call log) ])
  | _ -> failwith "bad case")
