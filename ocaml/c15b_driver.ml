(* C15B driver (part of C15): the general layout pipeline S_layout_general.

   case = layg MODE (MT) LANG (CMAP) OUTL GDEF GSUB GPOS GSW PSW (STR ...)

     MODE   mem | file          how the harness built the font (not used here)
     MT     (((xTAG ...) idx) ...)   what x/text answers for a sorted tag list
     LANG   the requested language (not used here: the answer is in MT)
     CMAP   ((rune gid) ...)
     OUTL   (glyf n nil) | (glyf n (w...)) | (cff (w...))   n = Font.NumGlyphs(), the width slice
     GDEF   nogdef | (gdef ((g c)...) ((g c)...) ((g...)...))      (C06 syntax)
     GSUB, GPOS   nil | ((SL) (FL) (LOOKUP ...))
       SL     ((xTAG nil) | (xTAG (req (opt...))) ...)
       FL     ((tag (lookup...)) ...)
       LOOKUP (flags mfs (SUB...))                                  (C06 syntax)
     GSW, PSW     nil | ((tag 0|1) ...)
     STR    (rune ...)

   prints one observation per string:
     (ok (gid (text...) xoff yoff adv) ...) | panic | ood
   ood = outside C06's in_domain for one of the two shaping passes. *)

let pair f g x = match x with L [a; b] -> (f a, g b) | _ -> failwith "pair expected"
let glist x = List.map sx_n (lst x)
let cdef x = List.map (pair sx_n sx_n) (lst x)
let acts x = List.map (pair sx_nat sx_nat) (lst x)

let vrec_of x = match x with
  | L [a; b; c; d] -> { vx = sx_z a; vy = sx_z b; va = sx_z c; vbad = sx_bool d }
  | _ -> failwith "bad value record"
let vrec_opt x = match x with A "none" -> None | _ -> Some (vrec_of x)
let pairadj a b = (vrec_of a, vrec_opt b)
let anchor_of x = match x with
  | A "none" -> None
  | L [a; b] -> Some (sx_z a, sx_z b)
  | _ -> failwith "bad anchor"

let crule x = match x with L [i; a] -> (glist i, acts a) | _ -> failwith "bad rule"
let krule x = match x with
  | L [b; i; l; a] -> (((glist b, glist i), glist l), acts a)
  | _ -> failwith "bad chained rule"

let sub_of (x : sx) : subtable =
  match x with
  | L [A "s1"; cov; d] -> SSingle1 (glist cov, sx_n d)
  | L [A "s2"; m] -> SSingle2 (List.map (pair sx_n sx_n) (lst m))
  | L [A "mul"; m] -> SMultiple (List.map (pair sx_n glist) (lst m))
  | L [A "alt"; m] -> SAlternate (List.map (pair sx_n glist) (lst m))
  | L [A "lig"; m] ->
    SLigature (List.map (pair sx_n (fun l -> List.map (pair glist sx_n) (lst l))) (lst m))
  | L [A "c1"; m] -> SCtx1 (List.map (pair sx_n (fun l -> List.map crule (lst l))) (lst m))
  | L [A "c2"; cov; cd; rules] ->
    SCtx2 (glist cov, cdef cd, List.map (fun l -> List.map crule (lst l)) (lst rules))
  | L [A "c3"; covs; a] -> SCtx3 (List.map glist (lst covs), acts a)
  | L [A "k1"; m] -> SChain1 (List.map (pair sx_n (fun l -> List.map krule (lst l))) (lst m))
  | L [A "k2"; cov; b; i; l; rules] ->
    SChain2 (glist cov, cdef b, cdef i, cdef l, List.map (fun r -> List.map krule (lst r)) (lst rules))
  | L [A "k3"; b; i; l; a] ->
    SChain3 (List.map glist (lst b), List.map glist (lst i), List.map glist (lst l), acts a)
  | L [A "p1"; cov; v] -> SPos1 (glist cov, vrec_of v)
  | L [A "p2"; m] -> SPos2 (List.map (pair sx_n vrec_of) (lst m))
  | L [A "pp1"; m] ->
    SPair1 (List.map (pair sx_n (fun row ->
      List.map (fun e -> match e with
        | L [g2; v1; v2] -> (sx_n g2, pairadj v1 v2)
        | _ -> failwith "bad pair entry") (lst row))) (lst m))
  | L [A "pp2"; cov; c1; c2; m] ->
    SPair2 (glist cov, cdef c1, cdef c2,
            List.map (fun row -> List.map (fun e -> match e with
              | L [v1; v2] -> pairadj v1 v2
              | _ -> failwith "bad class pair entry") (lst row)) (lst m))
  | L [A "mb"; marks; bases] ->
    SMarkBase (List.map (fun e -> match e with
                 | L [g; c; x; y] -> (sx_n g, (sx_nat c, (sx_z x, sx_z y)))
                 | _ -> failwith "bad mark record") (lst marks),
               List.map (pair sx_n (fun l -> List.map anchor_of (lst l))) (lst bases))
  | L [A "mm"; marks; bases] ->
    SMarkMark (List.map (fun e -> match e with
                 | L [g; c; x; y] -> (sx_n g, (sx_nat c, (sx_z x, sx_z y)))
                 | _ -> failwith "bad mark record") (lst marks),
               List.map (pair sx_n (fun l -> List.map anchor_of (lst l))) (lst bases))
  | L [A "r8"; m; b; l] ->
    SRevChain (List.map (pair sx_n sx_n) (lst m), List.map glist (lst b), List.map glist (lst l))
  | L [A "unsup"] -> SUnsupported
  | _ -> failwith "bad subtable"

let lookup_of x = match x with
  | L [f; m; subs] -> { lk_flags = sx_n f; lk_mfs = sx_n m; lk_subs = List.map sub_of (lst subs) }
  | _ -> failwith "bad lookup"

let gdef_of x = match x with
  | A "nogdef" -> None
  | L [A "gdef"; c; a; s] ->
    Some { gd_class = cdef c; gd_attach = cdef a; gd_sets = List.map glist (lst s) }
  | _ -> failwith "bad gdef"

let opt_of (f : sx -> 'a) (x : sx) : 'a option =
  match x with A "nil" -> None | _ -> Some (f x)

let features_of_sx (x : sx) : features option =
  match x with
  | A "nil" -> None
  | L [req; opt] -> Some { fs_required = sx_n req; fs_optional = List.map sx_n (lst opt) }
  | _ -> failwith "bad features"

let sl_of_sx (x : sx) : (n list * features option) list =
  List.map (fun e -> match e with
    | L [t; f] -> (sx_bytes t, features_of_sx f)
    | _ -> failwith "bad script list entry") (lst x)

let fl_of_sx (x : sx) : feature list =
  List.map (fun e -> match e with
    | L [t; ls] -> { ft_tag = sx_n t; ft_lookups = List.map sx_n (lst ls) }
    | _ -> failwith "bad feature") (lst x)

let sw_of_sx (x : sx) : switches =
  List.map (fun e -> match e with
    | L [t; b] -> (sx_n t, sx_bool b)
    | _ -> failwith "bad switch") (lst x)

let pairs_of_sx (x : sx) : (n * n) list =
  List.map (fun e -> match e with
    | L [a; b] -> (sx_n a, sx_n b)
    | _ -> failwith "bad pair") (lst x)

let gtable_of_sx (x : sx) : n list gtable =
  match x with
  | L [sl; fl; ll] -> { gt_scripts = sl_of_sx sl; gt_features = fl_of_sx fl;
                        gt_lookups = List.map lookup_of (lst ll) }
  | _ -> failwith "bad gtab"

let outlines_of_sx (x : sx) : outlines =
  match x with
  | L [A "glyf"; n; A "nil"] -> OGlyf (sx_n n, None)
  | L [A "glyf"; n; w] -> OGlyf (sx_n n, Some (List.map sx_z (lst w)))
  | L [A "cff"; w] -> OCff (List.map sx_z (lst w))
  | _ -> failwith "bad outlines"

let mt_of_sx (x : sx) : (n list list * nat) list =
  List.map (fun e -> match e with
    | L [tags; i] -> (List.map sx_bytes (lst tags), sx_nat i)
    | _ -> failwith "bad matcher entry") (lst x)

let sx_of_seq (seq : ginfo list) : sx =
  L (A "ok" :: List.map (fun g ->
    L [an g.g_gid; L (List.map an g.g_text); az g.g_xoff; az g.g_yoff; az g.g_adv]) seq)

let () = main_loop (fun c ->
  match c with
  | [A "layg"; _mode; mt; _lang; cm; o; gdef; gsub; gpos; gsw; psw; strs] ->
    let f = { gf_cmap = pairs_of_sx cm; gf_outlines = outlines_of_sx o;
              gf_gdef = gdef_of gdef;
              gf_gsub = opt_of gtable_of_sx gsub; gf_gpos = opt_of gtable_of_sx gpos } in
    let mt = mt_of_sx mt in
    let gsw = opt_of sw_of_sx gsw and psw = opt_of sw_of_sx psw in
    L (List.map (fun s ->
         match run_layout_general mt f gsw psw (List.map sx_n (lst s)) with
         | Ok (Some seq) -> sx_of_seq seq
         | Ok None -> A "ood"
         | Err -> A "err"
         | Panic -> A "panic"
         | OutOfFuel -> A "fuel") (lst strs))
  | _ -> failwith "bad case")
