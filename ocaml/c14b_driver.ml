(* C14B driver: one case per line, selector first.
     tbl TABLE OPS              -> (RESULT ... (final TABLE))
         OPS = ((set id RUNES) | (get id) | (keys) | (keysiter (id ...))) ...;
         a RESULT per get (RUNES), keys and keysiter ((id ...))
     nenc weid MAC WIN          -> (VIEW MAC' WIN')    VIEW as C14's nameview; MAC', WIN' = Decode(Encode(info))
     ndec xBYTES                -> (ok MAC WIN) | err | panic
     otf xSCRIPT xLANG          -> (ok xEXT xSCRIPT xLANG) | (ok xEXT err) | err
     fromext xEXT               -> (ok xSCRIPT xLANG) | err
     slenc ITEMS                -> (ok xBYTES ASG) | (ok xBYTES err) | panic | err
     slread xBYTES              -> (ok ASG) | err | panic
     plain xTAG special xLANG xSCRIPT   -> (xSCRIPT xLANG)     bcp47ToOtf on a tag without x extension, given
                                           what x/text says of it (0 | 1 zh | 2 zh-Hans | 3 zh-Hant, Raw language, Script)
     slplain PITEMS             -> (ok xBYTES) | panic | err    PITEMS = ((xTAG special xLANG xSCRIPT required (optional ...)) ...)
   TABLE = nil | (FIELDS EXTRA); FIELDS = ((fieldIndex RUNES) ...) non-empty fields only;
   EXTRA = nil | ((id RUNES) ...) ascending; RUNES = (r ...) possibly with (rep n r);
   MAC, WIN = ((xTAG TABLE) ...); ITEMS, ASG = ((xSCRIPT xLANG required (optional ...)) ...) *)

let runes x = List.concat_map (fun e -> match e with
    | L [A "rep"; n; r] -> let v = sx_n r in List.init (sx_int n) (fun _ -> v)
    | _ -> [sx_n e]) (lst x)
let sx_runes l = L (List.map an l)

let nfields = List.length empty_table.st_fields

let table_of_sx x = match x with
  | L [fields; extra] ->
      let fl = List.map (fun e -> match e with
          | L [fi; v] -> (sx_int fi, runes v)
          | _ -> failwith "bad field entry") (lst fields) in
      let f = List.init nfields (fun i -> try List.assoc i fl with Not_found -> []) in
      let e = (match extra with
          | A "nil" -> None
          | L l -> Some (List.map (fun p -> match p with
              | L [id; v] -> (sx_n id, runes v)
              | _ -> failwith "bad extra entry") l)
          | _ -> failwith "bad extra") in
      { st_fields = f; st_extra = e }
  | _ -> failwith "bad table"
let otable_of_sx x = match x with A "nil" -> None | _ -> Some (table_of_sx x)

let sx_of_table t =
  let fl = List.concat (List.mapi (fun i v -> if v = [] then [] else [L [ai i; sx_runes v]]) t.st_fields) in
  let e = (match t.st_extra with
      | None -> A "nil"
      | Some m -> L (List.map (fun (id, v) -> L [an id; sx_runes v]) m)) in
  L [L fl; e]
let sx_of_otable o = match o with None -> A "nil" | Some t -> sx_of_table t

let stabs_of_sx x =
  List.map (fun e -> match e with
    | L [tag; t] -> (sx_bytes tag, otable_of_sx t)
    | _ -> failwith "bad tables entry") (lst x)
let sx_of_stabs tt =
  L (List.map (fun (tag, ot) -> L [A (hex_of_bytes tag); sx_of_otable ot]) tt)

let out_of f o = match o with
  | Ok a -> f a
  | Err -> A "err"
  | Panic -> A "panic"
  | OutOfFuel -> A "fuel"

let sx_of_asg asg =
  L (List.map (fun ((s, l), (req, opts)) ->
       L [A (hex_of_bytes s); A (hex_of_bytes l); an req; L (List.map an opts)]) asg)

let sx_view data =
  let ((((v, nr), so), len), recs) = name_view data in
  L [an v; an nr; an so; an len;
     L (List.map (fun ((((p, e), l), i), b) -> L [an p; an e; an l; an i; A (hex_of_bytes b)]) recs)]

let () = main_loop (fun c ->
  match c with
  | [A "tbl"; t; ops] ->
      let t = ref (table_of_sx t) in
      let res = List.concat_map (fun o -> match o with
          | L [A "set"; id; v] -> t := m_set !t (sx_n id) (runes v); []
          | L [A "get"; id] -> [sx_runes (m_get !t (sx_n id))]
          | L [A "keys"] -> [L (List.map an (m_keys !t))]
          | L [A "keysiter"; order] ->
              let m = (match (!t).st_extra with Some m -> m | None -> []) in
              let iter = List.map (fun i -> let id = sx_n i in (id, List.assoc id m)) (lst order) in
              [L (List.map an (m_keys_iter !t iter))]
          | _ -> failwith "bad op") (lst ops) in
      L (res @ [L [A "final"; sx_of_table !t]])
  | [A "nenc"; weid; m; w] ->
      let inf = { s_mac = stabs_of_sx m; s_win = stabs_of_sx w } in
      let data = s_name_encode name_appleBCP name_msBCP (sx_n weid) inf in
      let dec = (match s_name_decode data with
          | Ok o -> [sx_of_stabs (canon_stabs name_appleBCP o.s_mac); sx_of_stabs (canon_stabs name_msBCP o.s_win)]
          | Err -> [A "err"] | Panic -> [A "panic"] | OutOfFuel -> [A "fuel"]) in
      L (sx_view data :: dec)
  | [A "ndec"; b] ->
      out_of (fun o -> L [A "ok"; sx_of_stabs (canon_stabs name_appleBCP o.s_mac);
                          sx_of_stabs (canon_stabs name_msBCP o.s_win)]) (s_name_decode (sx_bytes b))
  | [A "otf"; sc; la] ->
      (match m_otf_to_ext xtext_strict (sx_bytes sc) (sx_bytes la) with
       | None -> A "err"
       | Some ext ->
           (match m_from_ext ext with
            | Some (s2, l2) -> L [A "ok"; A (hex_of_bytes ext); A (hex_of_bytes s2); A (hex_of_bytes l2)]
            | None -> L [A "ok"; A (hex_of_bytes ext); A "err"]))
  | [A "fromext"; e] ->
      (match m_from_ext (sx_bytes e) with
       | Some (s2, l2) -> L [A "ok"; A (hex_of_bytes s2); A (hex_of_bytes l2)]
       | None -> A "err")
  | [A "slenc"; items] ->
      let xinfo = List.map (fun it -> match it with
          | L [s; l; req; opts] ->
              (match m_otf_to_ext xtext_strict (sx_bytes s) (sx_bytes l) with
               | Some ext -> (ext, (sx_n req, List.map sx_n (lst opts)))
               | None -> failwith "slenc: pair does not convert")
          | _ -> failwith "bad item") (lst items) in
      (match m_sl_info_encode xinfo with
       | Ok b ->
           L [A "ok"; A (hex_of_bytes b);
              out_of (fun asg -> sx_of_asg (canon_asg asg)) (m_sl_info_read xtext_strict b)]
       | Err -> A "err" | Panic -> A "panic" | OutOfFuel -> A "fuel")
  | [A "slread"; b] ->
      out_of (fun asg -> L [A "ok"; sx_of_asg (canon_asg asg)]) (m_sl_info_read xtext_strict (sx_bytes b))
  | [A "plain"; _; sp; la; sc] ->
      let (s2, l2) = m_plain_tag gtab_langBcp47 gtab_scriptBcp47
          { pt_special = sx_n sp; pt_lang = sx_bytes la; pt_script = sx_bytes sc } in
      L [A (hex_of_bytes s2); A (hex_of_bytes l2)]
  | [A "slplain"; items] ->
      let info = List.map (fun it -> match it with
          | L [_; sp; la; sc; req; opts] ->
              (PTag { pt_special = sx_n sp; pt_lang = sx_bytes la; pt_script = sx_bytes sc },
               (sx_n req, List.map sx_n (lst opts)))
          | _ -> failwith "bad item") (lst items) in
      (match m_sl_info_encode_g gtab_langBcp47 gtab_scriptBcp47 info with
       | Ok b -> L [A "ok"; A (hex_of_bytes b)]
       | Err -> A "err" | Panic -> A "panic" | OutOfFuel -> A "fuel")
  | _ -> failwith "bad case")
