(* C18B driver.  The model of sfnt.Read at table level is run on a file given
   by its first bytes (the table directory) and its length - zero elsewhere -
   and on decoders given by a recording: for every table decoder its verdict
   and, for those handed a section reader, the accesses (offset length,
   relative to the table) it made on the fault-free table.

   FONT  = (xPRE LEN (DEC ...))
   DEC   = (NAME VERDICT ((OFF LEN) ...))      NAME in head maxp os2 post cff gdef gsub gpos kern
         | (NAME VERDICT)                      NAME in hmtx cmap name glyf getbest namever
   VERDICT = err | panic | (ok VALUE)          VALUE: LocaFormat / NumGlyphs / len(Glyphs) / len(Widths) / 0
   a decoder that is not listed returns an error without reading

   rd FONT                      fault-free ReaderAt
        -> (CLASS (dir (OFF LEN) ...) (order TAG ...) (cov (LO HI) ...))
           CLASS = (ok NUMGLYPHS) | err | panic | fuel; dir = header.Read's accesses;
           order = tables in the order of their first access; cov = bytes read, merged
   rdc xFILE (DEC ...)          the whole file is given; head.Read, hmtx.Decode and glyf.Decode are
                                the imported models of C12 / C11 run on the file's bytes (with_models),
                                the other decoders as in DEC ...; result as for rd
   flc STYLE xFILE (DEC ...) (K ...) [CHUNK]    the same with faults; styles at ge trunc stream seof
   bulk WANT (ERR ...) ...      Parser.Read of WANT bytes whose successive ReadBytes calls fail (1) or not (0)
        -> (COUNT ERR)
   fl STYLE FONT (K ...) [CHUNK] fault at K, STYLE in
        at       ReaderAt failing on every access touching offset K
        ge       ReaderAt failing on every access touching an offset >= K
        trunc    the first K bytes behind a ReaderAt
        stream   streaming reader delivering CHUNK bytes per call, failing when offset K is reached
        seof     streaming reader delivering the first K bytes in CHUNK-byte calls, then EOF
        -> one character per K: o (font returned) e (error) p (panic) f (fuel) X (font AND error) *)

let verdict_n (x : sx) : n outcome =
  match x with
  | A "err" -> Err
  | A "panic" -> Panic
  | L [A "ok"; v] -> Ok (sx_n v)
  | _ -> failwith "bad verdict"
let verdict_z (x : sx) : z outcome =
  match x with
  | A "err" -> Err
  | A "panic" -> Panic
  | L [A "ok"; v] -> Ok (sx_z v)
  | _ -> failwith "bad verdict"
let verdict_u (x : sx) : unit outcome =
  match verdict_n x with Ok _ -> Ok () | Err -> Err | Panic -> Panic | OutOfFuel -> OutOfFuel

let accs (x : sx) : (n * n) list =
  List.map (fun p -> match p with L [o; l] -> (sx_n o, sx_n l) | _ -> failwith "bad access") (lst x)

(* io.ReadAll: 512 bytes of capacity at first, then the buffer roughly doubles *)
let grow (pos : n) : n = let p = int_of_n pos in n_of_int (if p < 512 then 512 - p else p)

let decoders_of (decs : sx list) : decoders =
  let find name = List.find_opt (fun d -> match d with L (A nm :: _) -> nm = name | _ -> false) decs in
  let sec name conv =
    (match find name with
     | Some (L [_; v; a]) -> let v = conv v and a = accs a in (fun _ -> replay a v)
     | Some _ -> failwith ("bad decoder entry " ^ name)
     | None -> (fun _ -> Ret Err)) in
  let byt name conv =
    (match find name with
     | Some (L [_; v]) -> conv v
     | Some _ -> failwith ("bad decoder entry " ^ name)
     | None -> Err) in
  let hm = byt "hmtx" verdict_n and cm = byt "cmap" verdict_u and nm = byt "name" verdict_u
  and gl = byt "glyf" verdict_n and gb = byt "getbest" verdict_u and nv = byt "namever" verdict_u in
  { d_head = sec "head" verdict_z; d_maxp = sec "maxp" verdict_n; d_os2 = sec "os2" verdict_u;
    d_post = sec "post" verdict_u; d_cff = sec "cff" verdict_n; d_gdef = sec "gdef" verdict_u;
    d_gsub = sec "gsub" verdict_u; d_gpos = sec "gpos" verdict_u; d_kern = sec "kern" verdict_u;
    d_hmtx = (fun _ _ -> hm); d_cmap = (fun _ -> cm); d_name = (fun _ -> nm);
    d_glyf = (fun _ _ _ -> gl); d_getbest = (fun _ -> gb); d_namever = (fun _ -> nv); d_grow = grow }

let font_of (x : sx) : n list * int * decoders =
  match x with
  | L [pre; len; L decs] -> (sx_bytes pre, sx_int len, decoders_of decs)
  | _ -> failwith "bad font"

let class_sx (r : n outcome) : sx =
  match r with Ok v -> L [A "ok"; an v] | Err -> A "err" | Panic -> A "panic" | OutOfFuel -> A "fuel"

let tag_sx (t : n) : sx =
  let v = int_of_n t in
  A (Printf.sprintf "x%08x" v)

let rec take k l = if k <= 0 then [] else match l with [] -> [] | x :: r -> x :: take (k - 1) r

let rec chunks (c : int) (l : n list) : sev list =
  match l with
  | [] -> []
  | _ -> let rec split k l acc = if k = 0 then (List.rev acc, l) else
             (match l with [] -> (List.rev acc, []) | x :: r -> split (k - 1) r (x :: acc)) in
    let (h, t) = split c l [] in SChunk h :: chunks c t

(* one run of the model; M_sfnt_read_go is this outcome split into Go's two results
   (Props.no_partial_success), so the model never answers X *)
let class_char (d : decoders) (src : source) : char =
  match fst (m_sfnt_read d src) with Ok _ -> 'o' | Err -> 'e' | Panic -> 'p' | OutOfFuel -> 'f'

let rd_result (d : decoders) (rd : racc) : sx =
  let (r, fp) = m_sfnt_read_at d rd in
  let dirfp = dir_fp (to_c03 rd) in
  let toc = (match m_read_dir_r (to_c03 rd) with Ok (_, t) -> t | _ -> []) in
  let pairs l = List.map (fun (o, n) -> L [an o; an n]) l in
  L [class_sx r;
     L (A "dir" :: pairs dirfp);
     L (A "order" :: List.map tag_sx (first_touch toc fp []));
     L (A "cov" :: pairs (covered fp))]

(* faults on a file given by a reader of the whole file, a reader of its first kk
   bytes, and its bytes (for the streaming styles) *)
let fl_result (d : decoders) (len : int) (rd : racc) (cut : int -> racc) (data : n list Lazy.t)
    (style : string) (ks : sx list) (chunk : int) : sx =
  let b = Buffer.create 64 in
  List.iter (fun kx ->
      let k = sx_int kx in
      let kk = min k len in
      let src = (match style with
        | "at" -> SrcAt (faulty (fails_at (n_of_int k)) rd)
        | "ge" -> SrcAt (faulty (fails_ge (n_of_int k)) rd)
        | "trunc" -> SrcAt (cut kk)
        | "stream" ->
          let evs = chunks chunk (take kk (Lazy.force data)) in
          SrcStream (if k <= len then evs @ [SFail] else evs)
        | "seof" -> SrcStream (chunks chunk (take kk (Lazy.force data)))
        | _ -> failwith "bad style") in
      Buffer.add_char b (class_char d src)) ks;
  A (Buffer.contents b)

let () = main_loop (fun c ->
  match c with
  | A "rd" :: font :: _ ->
    let (pre, len, d) = font_of font in
    rd_result d (sparse_at pre (n_of_int len))
  | A "bulk" :: want :: L outs :: _ ->
    let r = m_bulk_read (n_of_int (int_of_nat parser_bufferSize)) rb_recorded (List.map sx_bool outs) (sx_n want) in
    if r.br_fuel then L [an r.br_total; ab r.br_err] else A "fuel"
  | A "rdc" :: file :: L decs :: _ ->
    rd_result (with_models (decoders_of decs)) (plain_at (sx_bytes file))
  | A "fl" :: style :: font :: ks :: rest ->
    let (pre, len, d) = font_of font in
    let chunk = (match rest with c :: _ -> (try sx_int c with _ -> 512) | _ -> 512) in
    let ln = n_of_int len in
    fl_result d len (sparse_at pre ln) (fun kk -> sparse_at (take kk pre) (n_of_int kk))
      (lazy (sparse_file pre ln)) (atom style) (lst ks) chunk
  | A "flc" :: style :: file :: L decs :: ks :: rest ->
    let data = sx_bytes file in
    let len = List.length data in
    let chunk = (match rest with c :: _ -> (try sx_int c with _ -> 512) | _ -> 512) in
    fl_result (with_models (decoders_of decs)) len (plain_at data) (fun kk -> plain_at (take kk data))
      (lazy data) (atom style) (lst ks) chunk
  | _ -> failwith "bad case")
