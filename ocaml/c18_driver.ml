(* C18 driver.  Case lines (STYLE = budget | short | eager, KS = list of fault points):
     wloop STYLE HDRLEN (BODYLEN ...) (K ...) [FONT ENTRY]    header.Write's loop on lengths
            -> ((n err calls after) ...)            one entry per K
     wloope ...                                    same for an entry point that returns only the error
            -> ((err calls after) ...)
     wbytes STYLE SCALER ((xNAME xDATA|nil) ...) (K ...)   header.Write on a table map, byte level
            -> ((n err calls after held) ...) | panic
     cffloop STYLE (BLOBLEN ...) (K ...) [FONT]    cff.Font.Write's section loop
            -> ((err calls after held) ...)
     rtrunc xBYTES (K ...)                         header.Read on a prefix / behind a failing ReaderAt
            -> ((ok-truncated ok-faulting) ...) *)
let sx_table (x : sx) =
  match x with
  | L [name; A "nil"] -> (sx_bytes name, None)
  | L [name; d] -> (sx_bytes name, Some (sx_bytes d))
  | _ -> failwith "bad table"

let zeros (n : int) : n list = List.init n (fun _ -> N0)

let () = main_loop (fun c ->
  match c with
  | A "wloop" :: style :: hdr :: bodies :: ks :: _ ->
    let mk = (match atom style with
      | "budget" -> budget_lwriter | "short" -> short_lwriter | "eager" -> eager_lwriter | _ -> failwith "bad style") in
    let hdr = sx_n hdr and bodies = List.map sx_n (lst bodies) in
    L (List.map (fun k ->
        let (((n, e), calls), after) = lsummary (m_write_loop_len (mk (sx_n k)) hdr bodies) in
        L [an n; ab e; an calls; an after]) (lst ks))
  | A "wloope" :: style :: hdr :: bodies :: ks :: _ ->
    let mk = (match atom style with
      | "budget" -> budget_lwriter | "short" -> short_lwriter | "eager" -> eager_lwriter | _ -> failwith "bad style") in
    let hdr = sx_n hdr and bodies = List.map sx_n (lst bodies) in
    L (List.map (fun k ->
        let (((n, e), calls), after) = lsummary (m_write_loop_len (mk (sx_n k)) hdr bodies) in
        L [ab e; an calls; an after]) (lst ks))
  | [A "wbytes"; style; scaler; tabs; ks] ->
    let mk = (match atom style with
      | "budget" -> budget_writer | "short" -> short_writer | "eager" -> eager_writer | _ -> failwith "bad style") in
    let scaler = sx_n scaler and tabs = List.map sx_table (lst tabs) in
    (match m_write scaler tabs with
     | Panic -> A "panic"
     | _ ->
       L (List.map (fun k ->
           match m_write_to (mk (sx_nat k)) scaler tabs with
           | Ok r ->
             let ((((n, e), calls), after), held) = wsummary r in
             L [an n; ab e; an calls; an after; an held]
           | _ -> A "panic") (lst ks)))
  | A "cffloop" :: style :: blobs :: ks :: _ ->
    let mk = (match atom style with
      | "budget" -> budget_writer | "short" -> short_writer | "eager" -> eager_writer | _ -> failwith "bad style") in
    let blobs = List.map (fun x -> zeros (sx_int x)) (lst blobs) in
    L (List.map (fun k ->
        let (((e, calls), after), held) = cff_summary (m_cff_write_loop (mk (sx_nat k)) blobs) in
        L [ab e; an calls; an after; an held]) (lst ks))
  | [A "rtrunc"; b; ks] ->
    let b = sx_bytes b in
    L (List.map (fun k -> let (t, f) = read_summary (sx_n k) b in L [ab t; ab f]) (lst ks))
  | _ -> failwith "bad case")
