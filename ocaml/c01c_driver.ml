(* C01C driver: the file-level round trip with the REAL codecs of C14B/C14 (name, post
   names), C08D (GSUB, GPOS), C08 (GDEF), C09 (cmap), C11 (glyf/loca) and C12 (head, hhea,
   hmtx, maxp, OS/2, post header) over C03's container and C01's glue.

   case "cfile TPL FIELDS FONT DESC VIEWS"
       the font described by DESC (real values) and FONT (scalar and string fields):
       prints (ok DIR LEN MD5 container-ok (tables (TAG MD5)...) TABLES FONT1) | err | panic
       for M_write_file and M_read_file / M_font_read_tables on the model's own bytes
   case "cread SRC EDITS xFILE VIEWS"
       prints (ok TABLES FONT) | err | panic for M_read_file on the bytes given

   VIEWS carries what is not computed from the values (Model.v, record views): the
   identities as association lists keyed by the printed value, the cmap views, the keys
   Choose picks and their confidence, the day string, the usable tag pairs, the caret
   slope, kern, and (CFF outlines) the CFF codec as in the C01B driver.

   The parsers / printers of fonts and tables are those of ocaml/c01_driver.ml, those of
   GSUB/GPOS values those of ocaml/c08d_driver.ml (same extracted types). *)

(* numbers that may exceed OCaml's int (CodePageRange is a uint64) *)
let n_of_decstring (s : string) : n =
  let ten = n_of_int 10 in
  let acc = ref N0 in
  String.iter (fun c ->
    if c < '0' || c > '9' then failwith ("bad number " ^ s);
    acc := N.add (N.mul !acc ten) (n_of_int (Char.code c - 48))) s;
  !acc
let string_of_n (x : n) : string =
  let l = print_dec x in
  String.init (List.length l) (fun i -> Char.chr (int_of_n (List.nth l i)))
let bn x = n_of_decstring (atom x)
let abn x = A (string_of_n x)
(* shadow conv.ml's int-based readers/printers: head timestamps are int64 *)
let sx_z x =
  let s = atom x in
  if String.length s > 0 && s.[0] = '-' then
    (match n_of_decstring (String.sub s 1 (String.length s - 1)) with N0 -> Z0 | Npos p -> Zneg p)
  else (match n_of_decstring s with N0 -> Z0 | Npos p -> Zpos p)
let az (z : z) : sx =
  match z with Z0 -> A "0" | Zpos p -> A (string_of_n (Npos p)) | Zneg p -> A ("-" ^ string_of_n (Npos p))
let sx_n x = bn x
let an x = abn x

let opt (f : sx -> 'a) (x : sx) : 'a option = match x with A "-" -> None | _ -> Some (f x)
let aopt (f : 'a -> sx) (x : 'a option) : sx = match x with None -> A "-" | Some v -> f v
let zl x = List.map sx_z (lst x)
let azl l = L (List.map az l)
let astr s = A (hex_of_bytes s)

let outl_of_sx (x : sx) : outl =
  match x with
  | L [A "ol"; cff; id; n; hs; ws; names; maxp] ->
    { ol_cff = sx_bool cff; ol_id = bn id; ol_n = sx_n n; ol_heights = zl hs;
      ol_widths = opt zl ws; ol_names = opt bn names; ol_maxp = opt bn maxp }
  | _ -> failwith "bad outl"
let sx_of_outl (o : outl) : sx =
  L [A "ol"; ab o.ol_cff; abn o.ol_id; an o.ol_n; azl o.ol_heights;
     aopt azl o.ol_widths; aopt abn o.ol_names; aopt abn o.ol_maxp]

let cmap_of_sx (x : sx) : cmapv =
  match x with
  | L [A "cm"; id; best; h; xx; lig] ->
    { cm_id = bn id; cm_best = sx_bool best; cm_H = sx_n h; cm_x = sx_n xx; cm_lig = opt bn lig }
  | _ -> failwith "bad cmap"
let sx_of_cmap (c : cmapv) : sx =
  L [A "cm"; abn c.cm_id; ab c.cm_best; an c.cm_H; an c.cm_x; aopt abn c.cm_lig]

let font_of_sx (x : sx) : font =
  match x with
  | L [A "font"; family; width; weight; L [r; b; i; o; s; c]; cpr; version; ctime; mtime;
       descr; sample; copyright; trademark; license; licurl; perm; upm;
       asc; desc; gap; cap; xh; angle; upos; uthick; ol; cm; gdef; gsub; gpos] ->
    { f_family = sx_bytes family; f_width = sx_n width; f_weight = sx_n weight;
      f_regular = sx_bool r; f_bold = sx_bool b; f_italic = sx_bool i; f_oblique = sx_bool o;
      f_serif = sx_bool s; f_script = sx_bool c;
      f_cpr = bn cpr; f_version = sx_n version; f_ctime = opt sx_z ctime; f_mtime = opt sx_z mtime;
      f_descr = sx_bytes descr; f_sample = sx_bytes sample; f_copyright = sx_bytes copyright;
      f_trademark = sx_bytes trademark; f_license = sx_bytes license; f_licurl = sx_bytes licurl;
      f_perm = sx_z perm; f_upm = sx_n upm; f_asc = sx_z asc; f_desc = sx_z desc; f_gap = sx_z gap;
      f_cap = sx_z cap; f_xh = sx_z xh; f_angle = sx_z angle; f_upos = sx_z upos; f_uthick = sx_z uthick;
      f_outl = outl_of_sx ol; f_cmap = opt cmap_of_sx cm;
      f_gdef = opt bn gdef; f_gsub = opt bn gsub; f_gpos = opt bn gpos }
  | _ -> failwith "bad font"
let sx_of_font (f : font) : sx =
  L [A "font"; astr f.f_family; an f.f_width; an f.f_weight;
     L [ab f.f_regular; ab f.f_bold; ab f.f_italic; ab f.f_oblique; ab f.f_serif; ab f.f_script];
     abn f.f_cpr; an f.f_version; aopt az f.f_ctime; aopt az f.f_mtime;
     astr f.f_descr; astr f.f_sample; astr f.f_copyright; astr f.f_trademark; astr f.f_license;
     astr f.f_licurl; az f.f_perm; an f.f_upm; az f.f_asc; az f.f_desc; az f.f_gap; az f.f_cap;
     az f.f_xh; az f.f_angle; az f.f_upos; az f.f_uthick; sx_of_outl f.f_outl;
     aopt sx_of_cmap f.f_cmap; aopt abn f.f_gdef; aopt abn f.f_gsub; aopt abn f.f_gpos]

let head_of_sx = function
  | L [A "head"; rev; upm; cr; md; b; i] ->
    { h_rev = sx_n rev; h_upm = sx_n upm; h_created = opt sx_z cr; h_modified = opt sx_z md;
      h_bold = sx_bool b; h_italic = sx_bool i }
  | _ -> failwith "bad head"
let sx_of_head h =
  L [A "head"; an h.h_rev; an h.h_upm; aopt az h.h_created; aopt az h.h_modified; ab h.h_bold; ab h.h_italic]

let os2_of_sx = function
  | L [A "os2"; we; wi; b; i; r; o; asc; desc; gap; cap; xh; fc; cpr; perm] ->
    { o_weight = sx_n we; o_width = sx_n wi; o_bold = sx_bool b; o_italic = sx_bool i;
      o_regular = sx_bool r; o_oblique = sx_bool o; o_asc = sx_z asc; o_desc = sx_z desc;
      o_gap = sx_z gap; o_cap = sx_z cap; o_xh = sx_z xh; o_fclass = sx_z fc; o_cpr = bn cpr;
      o_perm = sx_z perm }
  | _ -> failwith "bad os2"
let sx_of_os2 o =
  L [A "os2"; an o.o_weight; an o.o_width; ab o.o_bold; ab o.o_italic; ab o.o_regular; ab o.o_oblique;
     az o.o_asc; az o.o_desc; az o.o_gap; az o.o_cap; az o.o_xh; az o.o_fclass; abn o.o_cpr; az o.o_perm]

let name_of_sx = function
  | L [A "name"; fam; sub; descr; copy; tm; lic; licurl; idp; idd; full; ver; ps; sample] ->
    { n_family = sx_bytes fam; n_subfamily = sx_bytes sub; n_descr = sx_bytes descr;
      n_copyright = sx_bytes copy; n_trademark = sx_bytes tm; n_license = sx_bytes lic;
      n_licurl = sx_bytes licurl; n_ident_prefix = sx_bytes idp; n_ident_day = opt sx_z idd;
      n_fullname = sx_bytes full; n_version = sx_bytes ver; n_psname = sx_bytes ps;
      n_sample = sx_bytes sample }
  | _ -> failwith "bad name"
let sx_of_name n =
  L [A "name"; astr n.n_family; astr n.n_subfamily; astr n.n_descr; astr n.n_copyright;
     astr n.n_trademark; astr n.n_license; astr n.n_licurl; astr n.n_ident_prefix;
     aopt az n.n_ident_day; astr n.n_fullname; astr n.n_version; astr n.n_psname; astr n.n_sample]

let names_of_sx = function
  | L [A "names"; win; wc; mac; mc] ->
    { ns_win = opt name_of_sx win; ns_winconf = sx_n wc; ns_mac = opt name_of_sx mac; ns_macconf = sx_n mc }
  | _ -> failwith "bad names"

let post_of_sx = function
  | L [A "post"; a; up; ut; fx; names] ->
    { p_angle = sx_z a; p_upos = sx_z up; p_uthick = sx_z ut; p_fixed = sx_bool fx; p_names = opt bn names }
  | _ -> failwith "bad post"
let sx_of_post p = L [A "post"; az p.p_angle; az p.p_upos; az p.p_uthick; ab p.p_fixed; aopt abn p.p_names]

let hmtx_of_sx = function
  | L [A "hmtx"; asc; desc; gap; a; ws] ->
    { x_asc = sx_z asc; x_desc = sx_z desc; x_gap = sx_z gap; x_angle = sx_z a; x_widths = opt zl ws }
  | _ -> failwith "bad hmtx"
let sx_of_hmtx x = L [A "hmtx"; az x.x_asc; az x.x_desc; az x.x_gap; az x.x_angle; aopt azl x.x_widths]

let cffinfo_of_sx = function
  | L [A "cffinfo"; fn; full; fam; we; ver; copy; notice; a; up; ut; fx; fmz; upm] ->
    { c_fontname = sx_bytes fn; c_fullname = sx_bytes full; c_family = sx_bytes fam;
      c_weight = sx_bytes we; c_version = sx_bytes ver; c_copyright = sx_bytes copy;
      c_notice = sx_bytes notice; c_angle = sx_z a; c_upos = sx_z up; c_uthick = sx_z ut;
      c_fixed = sx_bool fx; c_fm0_zero = sx_bool fmz; c_upm_from_fm = sx_n upm }
  | _ -> failwith "bad cffinfo"
let sx_of_cffinfo c =
  L [A "cffinfo"; astr c.c_fontname; astr c.c_fullname; astr c.c_family; astr c.c_weight;
     astr c.c_version; astr c.c_copyright; astr c.c_notice; az c.c_angle; az c.c_upos; az c.c_uthick;
     ab c.c_fixed; ab c.c_fm0_zero; an c.c_upm_from_fm]

let maxp_of_sx = function
  | L [n; ttf] -> (sx_n n, opt bn ttf)
  | _ -> failwith "bad maxp"
let sx_of_maxp (n, ttf) = L [an n; aopt abn ttf]

let tables_of_sx = function
  | L [A "tables"; cff; hd; hm; mx; o2; cm; nm; po; ci; ol; gdef; gsub; gpos; kern] ->
    { t_cff = sx_bool cff; t_hd = opt head_of_sx hd; t_hm = opt hmtx_of_sx hm; t_maxp = opt maxp_of_sx mx;
      t_o2 = opt os2_of_sx o2; t_cm = opt cmap_of_sx cm; t_nm = opt names_of_sx nm; t_po = opt post_of_sx po;
      t_ci = opt cffinfo_of_sx ci; t_ol = outl_of_sx ol; t_gdef = opt bn gdef; t_gsub = opt bn gsub;
      t_gpos = opt bn gpos; t_kern = opt bn kern }
  | _ -> failwith "bad tables"

(* tables as observed from a written file: the name slot shows the table
   Read selects *)
let sx_of_hmtx_obs x = L [A "hmtx"; az x.x_asc; az x.x_desc; az x.x_gap; A "_"; aopt azl x.x_widths]
let sx_of_cffinfo_obs c =
  L [A "cffinfo"; astr c.c_fontname; astr c.c_fullname; astr c.c_family; astr c.c_weight;
     astr c.c_version; astr c.c_copyright; astr c.c_notice; A "_"; A "_"; A "_";
     ab c.c_fixed; A "_"; A "_"]
let sx_of_tables_obs (t : tables) : sx =
  L [A "tables"; ab t.t_cff; aopt sx_of_head t.t_hd; aopt sx_of_hmtx_obs t.t_hm; aopt sx_of_maxp t.t_maxp;
     aopt sx_of_os2 t.t_o2; aopt sx_of_cmap t.t_cm; aopt sx_of_name (choose_name t.t_nm);
     aopt sx_of_post t.t_po; aopt sx_of_cffinfo_obs t.t_ci; sx_of_outl t.t_ol;
     aopt abn t.t_gdef; aopt abn t.t_gsub; aopt abn t.t_gpos; aopt abn t.t_kern]


let rec last = function [x] -> x | _ :: l -> last l | [] -> failwith "empty case"
let rec last2 = function [x; _] -> x | _ :: l -> last2 l | [] -> failwith "short case"
let rec last3 = function [x; _; _] -> x | _ :: l -> last3 l | [] -> failwith "short case"

(* ---------------- GSUB / GPOS values (ocaml/c08d_driver.ml) ---------------- *)
let outc (f : 'a -> sx) (o : 'a outcome) : sx =
  match o with
  | Ok a -> f a
  | Err -> A "err"
  | Panic -> A "panic"
  | OutOfFuel -> A "fuel"

(* ---- run-length lists ---- *)
let expand (f : sx -> 'a) (x : sx) : 'a list =
  List.concat_map (fun e -> match e with
    | L [A "rep"; k; y] -> let v = f y in List.init (sx_int k) (fun _ -> v)
    | y -> [f y]) (lst x)

let rle (l : sx list) : sx =
  let strs = Array.of_list (List.map sx_to_string l) in
  let els = Array.of_list l in
  let n = Array.length els in
  let out = ref [] in
  let i = ref 0 in
  while !i < n do
    let j = ref (!i + 1) in
    while !j < n && strs.(!j) = strs.(!i) do incr j done;
    if !j - !i >= 4 then out := L [A "rep"; ai (!j - !i); els.(!i)] :: !out
    else for k = !i to !j - 1 do out := els.(k) :: !out done;
    i := !j
  done;
  L (List.rev !out)

let nums_of_sx x = expand sx_n x
let sx_of_nums l = rle (List.map an l)
let act_of_sx x = match x with L [a; b] -> (sx_n a, sx_n b) | _ -> failwith "bad action"
let acts_of_sx x = expand act_of_sx x
let sx_of_acts l = rle (List.map (fun (a, b) -> L [an a; an b]) l)

(* glyph sets as runs (gid len); class tables as runs (gid class len) *)
let set_of_sx (x : sx) : n list =
  List.concat_map (fun r -> match r with
    | L [g; n] -> let g = sx_int g and n = sx_int n in List.init n (fun k -> n_of_int (g + k))
    | _ -> failwith "bad run") (lst x)
let sx_of_set (l : n list) : sx =
  let rec go l cur acc =
    match l, cur with
    | [], None -> List.rev acc
    | [], Some (g, n) -> List.rev (L [ai g; ai n] :: acc)
    | g' :: tl, None -> go tl (Some (g', 1)) acc
    | g' :: tl, Some (g, n) ->
      if g' = g + n then go tl (Some (g, n + 1)) acc
      else go tl (Some (g', 1)) (L [ai g; ai n] :: acc)
  in
  L (go (List.map int_of_n l) None [])
let sets_of_sx x = expand set_of_sx x
let sx_of_sets l = rle (List.map sx_of_set l)
let cls_of_sx (x : sx) : (n * n) list =
  List.concat_map (fun r -> match r with
    | L [g; c; n] -> let g = sx_int g and c = sx_int c and n = sx_int n in
      List.init n (fun k -> (n_of_int (g + k), n_of_int c))
    | _ -> failwith "bad run") (lst x)
let sx_of_cls (l : (n * n) list) : sx =
  let rec go l cur acc =
    match l, cur with
    | [], None -> List.rev acc
    | [], Some (g, c, n) -> List.rev (L [ai g; ai c; ai n] :: acc)
    | (g', c') :: tl, None -> go tl (Some (g', c', 1)) acc
    | (g', c') :: tl, Some (g, c, n) ->
      if g' = g + n && c' = c then go tl (Some (g, c, n + 1)) acc
      else go tl (Some (g', c', 1)) (L [ai g; ai c; ai n] :: acc)
  in
  L (go (List.map (fun (g, c) -> (int_of_n g, int_of_n c)) l) None [])

(* ---- value records, anchors ---- *)
let vr_of_sx (x : sx) : vrec option =
  match x with
  | A "nil" -> None
  | L [a; b; c; d; e; f; g; h] ->
    Some { v_xp = sx_z a; v_yp = sx_z b; v_xa = sx_z c; v_ya = sx_z d;
           v_xpd = sx_n e; v_ypd = sx_n f; v_xad = sx_n g; v_yad = sx_n h }
  | _ -> failwith "bad value record"
let sx_of_vr (v : vrec option) : sx =
  match v with
  | None -> A "nil"
  | Some r -> L [az r.v_xp; az r.v_yp; az r.v_xa; az r.v_ya; an r.v_xpd; an r.v_ypd; an r.v_xad; an r.v_yad]
let vr2_of_sx x = match x with L [a; b] -> (vr_of_sx a, vr_of_sx b) | _ -> failwith "bad pair adjust"
let sx_of_vr2 (a, b) = L [sx_of_vr a; sx_of_vr b]
let an_of_sx x = match x with L [a; b] -> (sx_z a, sx_z b) | _ -> failwith "bad anchor"
let sx_of_anchor (x, y) = L [az x; az y]
let row_of_sx x = expand an_of_sx x
let sx_of_row r = rle (List.map sx_of_anchor r)
let marks_of_sx x = expand (fun m -> match m with L [c; a; b] -> (sx_n c, (sx_z a, sx_z b)) | _ -> failwith "bad mark") x
let sx_of_marks l = rle (List.map (fun (c, (x, y)) -> L [an c; az x; az y]) l)

(* ---- rules ---- *)
let srule_of_sx x = match x with L [i; a] -> (nums_of_sx i, acts_of_sx a) | _ -> failwith "bad rule"
let sx_of_srule (i, a) = L [sx_of_nums i; sx_of_acts a]
let crule_of_sx x = match x with
  | L [b; i; l; a] -> { cr_back = nums_of_sx b; cr_in = nums_of_sx i; cr_look = nums_of_sx l; cr_acts = acts_of_sx a }
  | _ -> failwith "bad chained rule"
let sx_of_crule r = L [sx_of_nums r.cr_back; sx_of_nums r.cr_in; sx_of_nums r.cr_look; sx_of_acts r.cr_acts]
let osets_of_sx (f : sx -> 'a) (x : sx) : 'a list option list =
  expand (fun s -> match s with A "nil" -> None | s -> Some (expand f s)) x
let sx_of_osets (f : 'a -> sx) (l : 'a list option list) : sx =
  rle (List.map (fun s -> match s with None -> A "nil" | Some rs -> rle (List.map f rs)) l)

(* ---- subtables ---- *)
let sub_of_sx (x : sx) : subtable =
  match x with
  | L [A "gsub11"; s; d] -> TGsub11 (set_of_sx s, sx_n d)
  | L [A "gsub12"; s; v] -> TGsub12 (set_of_sx s, nums_of_sx v)
  | L [A "gsub21"; s; v] -> TGsub21 (set_of_sx s, expand nums_of_sx v)
  | L [A "gsub31"; s; v] -> TGsub31 (set_of_sx s, expand nums_of_sx v)
  | L [A "gsub41"; s; v] ->
    TGsub41 (set_of_sx s, expand (expand (fun l -> match l with L [o; i] -> (sx_n o, nums_of_sx i) | _ -> failwith "bad ligature")) v)
  | L [A "gsub81"; s; b; l; v] -> TGsub81 (set_of_sx s, sets_of_sx b, sets_of_sx l, nums_of_sx v)
  | L [A "gpos11"; s; v] -> TGpos11 (set_of_sx s, vr_of_sx v)
  | L [A "gpos12"; s; v] -> TGpos12 (set_of_sx s, expand vr_of_sx v)
  | L [A "gpos21"; g] ->
    TGpos21 (expand (fun e -> match e with
      | L [l; items] -> (sx_n l, expand (fun it -> match it with L [r; a; b] -> (sx_n r, (vr_of_sx a, vr_of_sx b)) | _ -> failwith "bad pair") items)
      | _ -> failwith "bad pair group") g)
  | L [A "gpos22"; s; c1; c2; m] -> TGpos22 (set_of_sx s, cls_of_sx c1, cls_of_sx c2, expand (expand vr2_of_sx) m)
  | L [A "gpos31"; s; r] -> TGpos31 (set_of_sx s, expand (fun e -> match e with L [a; b] -> (an_of_sx a, an_of_sx b) | _ -> failwith "bad entry/exit") r)
  | L [A "gpos41"; m; b; ms; rows] -> TGpos41 (set_of_sx m, set_of_sx b, marks_of_sx ms, expand row_of_sx rows)
  | L [A "gpos51"; m; b; ms; ligs] -> TGpos51 (set_of_sx m, set_of_sx b, marks_of_sx ms, expand (expand row_of_sx) ligs)
  | L [A "gpos61"; m; b; ms; rows] -> TGpos61 (set_of_sx m, set_of_sx b, marks_of_sx ms, expand row_of_sx rows)
  | L [A "seq1"; s; r] -> TSeq1 (set_of_sx s, osets_of_sx srule_of_sx r)
  | L [A "seq2"; s; c; r] -> TSeq2 (set_of_sx s, cls_of_sx c, osets_of_sx srule_of_sx r)
  | L [A "seq3"; i; a] -> TSeq3 (sets_of_sx i, acts_of_sx a)
  | L [A "ch1"; s; r] -> TCh1 (set_of_sx s, osets_of_sx crule_of_sx r)
  | L [A "ch2"; s; b; i; l; r] -> TCh2 (set_of_sx s, cls_of_sx b, cls_of_sx i, cls_of_sx l, osets_of_sx crule_of_sx r)
  | L [A "ch3"; b; i; l; a] -> TCh3 (sets_of_sx b, sets_of_sx i, sets_of_sx l, acts_of_sx a)
  | _ -> failwith "bad subtable"

let sx_of_sub (s : subtable) : sx =
  match s with
  | TGsub11 (s, d) -> L [A "gsub11"; sx_of_set s; an d]
  | TGsub12 (s, v) -> L [A "gsub12"; sx_of_set s; sx_of_nums v]
  | TGsub21 (s, v) -> L [A "gsub21"; sx_of_set s; rle (List.map sx_of_nums v)]
  | TGsub31 (s, v) -> L [A "gsub31"; sx_of_set s; rle (List.map sx_of_nums v)]
  | TGsub41 (s, v) ->
    L [A "gsub41"; sx_of_set s; rle (List.map (fun set -> rle (List.map (fun (o, i) -> L [an o; sx_of_nums i]) set)) v)]
  | TGsub81 (s, b, l, v) -> L [A "gsub81"; sx_of_set s; sx_of_sets b; sx_of_sets l; sx_of_nums v]
  | TGpos11 (s, v) -> L [A "gpos11"; sx_of_set s; sx_of_vr v]
  | TGpos12 (s, v) -> L [A "gpos12"; sx_of_set s; rle (List.map sx_of_vr v)]
  | TGpos21 g ->
    L [A "gpos21"; rle (List.map (fun (l, items) ->
         L [an l; rle (List.map (fun (r, (a, b)) -> L [an r; sx_of_vr a; sx_of_vr b]) items)]) g)]
  | TGpos22 (s, c1, c2, m) ->
    L [A "gpos22"; sx_of_set s; sx_of_cls c1; sx_of_cls c2; rle (List.map (fun row -> rle (List.map sx_of_vr2 row)) m)]
  | TGpos31 (s, r) -> L [A "gpos31"; sx_of_set s; rle (List.map (fun (a, b) -> L [sx_of_anchor a; sx_of_anchor b]) r)]
  | TGpos41 (m, b, ms, rows) -> L [A "gpos41"; sx_of_set m; sx_of_set b; sx_of_marks ms; rle (List.map sx_of_row rows)]
  | TGpos51 (m, b, ms, ligs) ->
    L [A "gpos51"; sx_of_set m; sx_of_set b; sx_of_marks ms; rle (List.map (fun lg -> rle (List.map sx_of_row lg)) ligs)]
  | TGpos61 (m, b, ms, rows) -> L [A "gpos61"; sx_of_set m; sx_of_set b; sx_of_marks ms; rle (List.map sx_of_row rows)]
  | TSeq1 (s, r) -> L [A "seq1"; sx_of_set s; sx_of_osets sx_of_srule r]
  | TSeq2 (s, c, r) -> L [A "seq2"; sx_of_set s; sx_of_cls c; sx_of_osets sx_of_srule r]
  | TSeq3 (i, a) -> L [A "seq3"; sx_of_sets i; sx_of_acts a]
  | TCh1 (s, r) -> L [A "ch1"; sx_of_set s; sx_of_osets sx_of_crule r]
  | TCh2 (s, b, i, l, r) -> L [A "ch2"; sx_of_set s; sx_of_cls b; sx_of_cls i; sx_of_cls l; sx_of_osets sx_of_crule r]
  | TCh3 (b, i, l, a) -> L [A "ch3"; sx_of_sets b; sx_of_sets i; sx_of_sets l; sx_of_acts a]

(* ---- lists ---- *)
let ls_of_sx x = match x with L [r; o] -> (sx_n r, nums_of_sx o) | _ -> failwith "bad LangSys"
let sx_of_ls (r, o) = L [an r; sx_of_nums o]
let scripts_of_sx (x : sx) : script_entry list option =
  match x with
  | A "nil" -> None
  | x -> Some (expand (fun e -> match e with
      | L [tag; d; langs] ->
        ((sx_bytes tag, (match d with A "nil" -> None | d -> Some (ls_of_sx d))),
         expand (fun l -> match l with L [t; f] -> (sx_bytes t, ls_of_sx f) | _ -> failwith "bad language") langs)
      | _ -> failwith "bad script") x)
let features_of_sx (x : sx) : feature list option =
  match x with
  | A "nil" -> None
  | x -> Some (expand (fun f -> match f with L [t; l] -> (sx_bytes t, nums_of_sx l) | _ -> failwith "bad feature") x)
let sx_of_features (x : feature list option) : sx =
  match x with
  | None -> A "nil"
  | Some l -> rle (List.map (fun (t, idx) -> L [A (hex_of_bytes t); sx_of_nums idx]) l)
let lookups_of_sx (x : sx) : lookupC list option =
  match x with
  | A "nil" -> None
  | x -> Some (expand (fun l -> match l with
      | L [tp; fl; mfs; subs] -> { lc_type = sx_n tp; lc_flags = sx_n fl; lc_mfs = sx_n mfs; lc_subs = expand sub_of_sx subs }
      | _ -> failwith "bad lookup") x)
let sx_of_lookups (x : lookupC list option) : sx =
  match x with
  | None -> A "nil"
  | Some l -> rle (List.map (fun l -> L [an l.lc_type; an l.lc_flags; an l.lc_mfs; rle (List.map sx_of_sub l.lc_subs)]) l)

(* the ScriptList map: later assignments overwrite, sorted by (script, language) *)
let sx_of_assignments (l : ((n list * n list) * langsys) list) : sx =
  let tbl = Hashtbl.create 16 in
  List.iter (fun ((s, lg), f) -> Hashtbl.replace tbl (hex_of_bytes s, hex_of_bytes lg) f) l;
  let rows = Hashtbl.fold (fun k f acc -> (k, f) :: acc) tbl [] in
  let rows = List.sort (fun (a, _) (b, _) -> compare a b) rows in
  L (List.map (fun ((s, lg), f) -> L [A s; A lg; sx_of_ls f]) rows)

let sx_of_obs (o : info_obs) : sx =
  L [sx_of_assignments o.o_scripts; sx_of_features o.o_features; sx_of_lookups o.o_lookups]

let table_of_sx x = match atom x with "gsub" -> GSUB | "gpos" -> GPOS | _ -> failwith "bad table"

let string_of_bytes (l : n list) : string =
  let b = Buffer.create (List.length l) in
  List.iter (fun x -> Buffer.add_char b (Char.chr (int_of_n x))) l;
  Buffer.contents b


let info_of_sx (x : sx) : info option =
  match x with
  | A "-" -> None
  | L [sc; fs; ls] -> Some { i_scripts = scripts_of_sx sc; i_features = features_of_sx fs; i_lookups = lookups_of_sx ls }
  | _ -> failwith "bad info"

(* ---------------- other values ---------------- *)
let hexs (l : n list) : sx = A (hex_of_bytes l)
let optbytes x = match x with A "-" -> None | _ -> Some (sx_bytes x)

let cmap_of_sx_table (x : sx) : cmap_table =
  List.map (function L [p; e; l; d] -> (((sx_n p, sx_n e), sx_n l), sx_bytes d) | _ -> failwith "bad cmap entry") (lst x)
let sx_of_cmap_table (t : cmap_table) : sx =
  L (List.map (fun (((p, e), l), d) -> L [an p; an e; an l; hexs d]) t)

let glyph_of_sx (x : sx) : glyph option =
  match x with
  | A "nil" -> None
  | L [A "simple"; a; b; c; d; nc; enc] ->
    Some { g_box = { llx0 = sx_z a; lly0 = sx_z b; urx0 = sx_z c; ury0 = sx_z d }; g_data = Simple (sx_z nc, sx_bytes enc) }
  | L [A "comp"; a; b; c; d; L comps; ins] ->
    Some { g_box = { llx0 = sx_z a; lly0 = sx_z b; urx0 = sx_z c; ury0 = sx_z d };
           g_data = Composite (List.map (function L [f; g; dt] -> { c_flags = sx_n f; c_gid = sx_n g; c_data = sx_bytes dt }
                                                 | _ -> failwith "bad component") comps, optbytes ins) }
  | _ -> failwith "bad glyph"
let sx_of_glyph (g : glyph option) : sx =
  match g with
  | None -> A "nil"
  | Some g ->
    let b = g.g_box in
    (match g.g_data with
     | Simple (nc, enc) -> L [A "simple"; az b.llx0; az b.lly0; az b.urx0; az b.ury0; az nc; hexs enc]
     | Composite (cs, ins) ->
       L [A "comp"; az b.llx0; az b.lly0; az b.urx0; az b.ury0;
          L (List.map (fun c -> L [an c.c_flags; an c.c_gid; hexs c.c_data]) cs);
          (match ins with None -> A "-" | Some i -> hexs i)])

let pairs_of_sx x = List.map (function L [a; b] -> (sx_n a, sx_n b) | _ -> failwith "bad pair") (lst x)
let gdef_of_sx (x : sx) : gdef option =
  match x with
  | A "-" -> None
  | L [gc; mac; sets] ->
    Some { g_gc = opt pairs_of_sx gc; g_mac = opt pairs_of_sx mac;
           g_sets = opt (fun s -> List.map (fun y -> List.map sx_n (lst y)) (lst s)) sets }
  | _ -> failwith "bad gdef"
let sx_of_gdef (g : gdef) : sx =
  let cd c = aopt (fun l -> L (List.map (fun (a, b) -> L [an a; an b]) l)) c in
  L [cd g.g_gc; cd g.g_mac; aopt (fun ss -> L (List.map (fun s -> L (List.map an s)) ss)) g.g_sets]

let extras_of_sx x = List.map (function L [nm; d] -> (sx_bytes nm, sx_bytes d) | _ -> failwith "bad extra") (lst x)

let assoc_field (name : string) (items : sx list) : sx list =
  let rec go = function
    | L (A k :: rest) :: _ when k = name -> rest
    | _ :: l -> go l
    | [] -> failwith ("missing field " ^ name) in
  go items

let desc_of_sx (x : sx) : desc =
  let items = (match x with L (A "desc" :: items) -> items | _ -> failwith "bad desc") in
  let one k = (match assoc_field k items with [v] -> v | _ -> failwith ("bad field " ^ k)) in
  { d_cmap = opt cmap_of_sx_table (one "cmap");
    d_glyphs = List.map glyph_of_sx (lst (one "glyphs"));
    d_extra = extras_of_sx (one "extra");
    d_widths0 = opt zl (one "widths");
    d_postnames = opt (fun l -> List.map sx_bytes (lst l)) (one "postnames");
    d_maxp = opt (fun l -> List.map sx_n (lst l)) (one "maxp");
    d_gdef = gdef_of_sx (one "gdef");
    d_gsub = info_of_sx (one "gsub"); d_gpos = info_of_sx (one "gpos"); d_lig = info_of_sx (one "lig");
    d_cff = opt outl_of_sx (one "cff") }

(* ---------------- views ---------------- *)
let key_of_extras (ex : (n * n list) list) : sx = L (List.map (fun (t, d) -> L [an t; hexs d]) ex)
let key_glyf (gg : glyphs) (ex : (n * n list) list) : string =
  sx_to_string (L [L (List.map sx_of_glyph gg); key_of_extras ex])
let key_names (l : n list list) : string = sx_to_string (L (List.map hexs l))
let key_nums (l : n list) : string = sx_to_string (L (List.map an l))
let tname t = (match t with GSUB -> "gsub" | GPOS -> "gpos")

let lookup_id (what : string) (tbl : (string * n) list) (k : string) : n =
  match List.assoc_opt k tbl with
  | Some v -> v
  | None -> n_of_decstring "999999999999"    (* an identity no observation carries *)

let views_of_sx (x : sx) : views =
  let items = (match x with L (A "views" :: items) -> items | _ -> failwith "bad views") in
  let fld k = assoc_field k items in
  let idtab k = List.map (function L [key; id] -> (sx_to_string key, bn id) | _ -> failwith ("bad id table " ^ k)) (fld k) in
  let glyf_ids = idtab "glyf" and gdef_ids = idtab "gdef" and names_ids = idtab "names" and maxp_ids = idtab "maxp" in
  let gtab_ids = List.map (function L [t; key; id] -> (atom t ^ " " ^ sx_to_string key, bn id) | _ -> failwith "bad gtab id") (fld "gtab") in
  let cmaps = List.map (function L [key; cm; rg] -> (sx_to_string key, (cm, rg)) | _ -> failwith "bad cmap view") (fld "cmap") in
  let choose k = (match fld k with
    | [A "-"; c] -> (None, bn c)
    | [key; c] -> (Some (sx_bytes key), bn c)
    | _ -> failwith "bad choose") in
  let (wkey, wconf) = choose "choose-win" and (mkey, mconf) = choose "choose-mac" in
  let day = (match fld "day" with [d] -> sx_bytes d | _ -> failwith "bad day") in
  let known = List.map (fun p -> match p with L [a; b] -> (atom a, atom b) | _ -> failwith "bad pair") (match fld "conv" with [l] -> lst l | _ -> failwith "bad conv") in
  let (rise, run) = (match fld "caret" with [a; b] -> (sx_z a, sx_z b) | _ -> failwith "bad caret") in
  let angle = (match fld "angle" with [a] -> sx_z a | _ -> failwith "bad angle") in
  let kern = (match fld "kern" with [A "-"] -> None | [b; id] -> Some (sx_bytes b, opt bn id) | _ -> failwith "bad kern") in
  let cffb = (match fld "cff" with [A "-"] -> None | [b; ci; ol; L boxes] -> Some (sx_bytes b, cffinfo_of_sx ci, outl_of_sx ol, boxes) | _ -> failwith "bad cff") in
  let rect_of_sx = (function L [a; b; c; d] -> { llx = sx_z a; lly = sx_z b; urx = sx_z c; ury = sx_z d } | _ -> failwith "bad rect") in
  let pick key tt = (match key with None -> None | Some k -> stabs_find tt k) in
  { v_glyf_id = (fun gg ex -> lookup_id "glyf" glyf_ids (key_glyf gg ex));
    v_gtab_id = (fun t o -> lookup_id "gtab" gtab_ids (tname t ^ " " ^ sx_to_string (sx_of_obs o)));
    v_gdef_id = (fun g -> lookup_id "gdef" gdef_ids (sx_to_string (sx_of_gdef g)));
    v_names_id = (fun l -> lookup_id "names" names_ids (key_names l));
    v_maxp_id = (fun l -> lookup_id "maxp" maxp_ids (key_nums l));
    v_cmap = (fun t ->
      match List.assoc_opt (sx_to_string (sx_of_cmap_table t)) cmaps with
      | Some (cm, _) -> cmap_of_sx cm
      | None -> { cm_id = n_of_decstring "999999999999"; cm_best = false; cm_H = N0; cm_x = N0; cm_lig = None });
    v_cmap_range = (fun t ->
      match List.assoc_opt (sx_to_string (sx_of_cmap_table t)) cmaps with
      | Some (_, L [A "range"; lo; hi]) -> Some (sx_z lo, sx_z hi)
      | _ -> None);
    v_choose_win = (fun tt -> (pick wkey tt, wconf));
    v_choose_mac = (fun tt -> (pick mkey tt, mconf));
    v_day = (fun _ -> day);
    v_conv = (fun s l -> List.mem (hex_of_bytes s, hex_of_bytes l) known);
    v_caret = (fun _ -> (rise, run));
    v_angle = (fun _ _ -> angle);
    v_kern = (fun b -> match kern with Some (kb, Some id) when kb = b -> Ok id | _ -> Panic);
    v_cff_enc = (fun _ _ -> match cffb with Some (b, _, _, _) -> b | None -> []);
    v_cff_dec = (fun b -> match cffb with Some (b0, ci, ol, _) when b0 = b -> Ok (ci, ol) | _ -> Panic);
    v_cff_boxes = (fun _ -> match cffb with Some (_, _, _, boxes) -> List.map rect_of_sx boxes | None -> []) }

(* ---------------- observations ---------------- *)
let md5_of (l : n list) : sx = A (Digest.to_hex (Digest.string (string_of_bytes l)))

let sx_of_dir (b : n list) : sx =
  L (A "dir" :: List.map (fun (((tg, sm), off), len) -> L [abn tg; abn sm; abn off; abn len]) (file_directory b))

let sx_of_table_md5s (b : n list) : sx =
  L (A "tables" :: List.map (fun (((tg, _), _), _) ->
       L [abn tg; (match file_table b tg with Some d -> md5_of d | None -> A "-")]) (file_directory b))

let sx_of_read (v : views) (b : n list) : sx list =
  match m_read_file v b with
  | Ok f1 ->
    (match m_font_read_tables (copaque v empty_desc) b with
     | Ok t -> [sx_of_tables_obs t; sx_of_font f1]
     | _ -> [A "inconsistent"])
  | Err -> [A "err"] | Panic -> [A "panic"] | OutOfFuel -> [A "fuel"]

let () = main_loop (fun c ->
  match c with
  | A "cfile" :: rest ->
    let v = views_of_sx (last rest) in
    let d = desc_of_sx (last2 rest) in
    let bf = font_of_sx (last3 rest) in
    (match m_write_file v d bf with
     | Ok b ->
       let f = font_of v d bf in
       let readback = sx_of_read v b in
       let nf = (match m_read_file v b with
         | Ok f1 -> if in_range f && normalize f <> f1 then [L [A "normalize-disagrees"; sx_of_font (normalize f)]] else []
         | _ -> []) in
       (* the identities the description gives the font are those the harness computed *)
       let ids = if f = bf then [] else [L [A "described-font-differs"; sx_of_font f]] in
       L ([A "ok"; sx_of_dir b; L [A "len"; ai (List.length b)]; L [A "md5"; md5_of b];
           L [A "container-ok"; ab (container_ok b)]; sx_of_table_md5s b] @ readback @ nf @ ids)
     | Err -> A "err" | Panic -> A "panic" | OutOfFuel -> A "fuel")
  | A "cread" :: rest ->
    let v = views_of_sx (last rest) in
    let b = sx_bytes (last2 rest) in
    (match sx_of_read v b with
     | [A e] -> A e
     | l -> L (A "ok" :: l))
  | _ -> failwith "bad case")
