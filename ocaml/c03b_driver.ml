(* C03B driver.  Case lines:

     asm WRITER KIND WIDTHS CMAP GDEF GSUB GPOS CFFERR ((xNAME xDATA|nil) ...) (xENC*14) (EXTRA ...) RECIPE
        WRITER = full | ttpdf | cffpdf        KIND = glyf | cff | none
        switches = 0 | 1
        raw tables of the glyf outlines, in the order the harness lists them
        the 14 table sources in the order hhea hmtx cmap OS/2 name post CFF glyf
        loca maxp head GDEF GSUB GPOS (x = not applicable / empty)
        EXTRA = (s xSTRING) | (b xDATA) | (b nil) | o
        RECIPE = how the harness builds the font (ignored here)
     -> (ok SCALER N SEARCHRANGE ENTRYSEL RANGESHIFT FILELEN ((xTAG OFF LEN SUM MD5) ...) FILEMD5)
      | err | panic

     get WRITER KIND ... (same description) xNAME
     -> what the SPECIFICATION layers say about the name: none | nil | (some MD5)
        followed by in_domain / errs:  (GET DOMAIN ERRS) *)

let sx_table (x : sx) =
  match x with
  | L [name; A "nil"] -> (sx_bytes name, None)
  | L [name; d] -> (sx_bytes name, Some (sx_bytes d))
  | _ -> failwith "bad table"

let sx_any (x : sx) =
  match x with
  | L [A "s"; s] -> AStr (sx_bytes s)
  | L [A "b"; A "nil"] -> ABytes None
  | L [A "b"; d] -> ABytes (Some (sx_bytes d))
  | A "o" -> AOther
  | _ -> failwith "bad extra"

let src_index (s : src) : int =
  match s with
  | SHhea -> 0 | SHmtx -> 1 | SCmap -> 2 | SOS2 -> 3 | SName -> 4 | SPost -> 5 | SCff -> 6
  | SGlyf -> 7 | SLoca -> 8 | SMaxp -> 9 | SHead -> 10 | SGdef -> 11 | SGsub -> 12 | SGpos -> 13

let sx_writer x = match atom x with
  | "full" -> WFull | "ttpdf" -> WTrueTypePDF | "cffpdf" -> WCffPDF | _ -> failwith "bad writer"
let sx_kind x = match atom x with
  | "glyf" -> OGlyf | "cff" -> OCff | "none" -> ONone | _ -> failwith "bad kind"

let sx_desc kind widths cmap gdef gsub gpos cfferr tabs enc =
  let encs = Array.of_list (List.map sx_bytes (lst enc)) in
  if Array.length encs <> 14 then failwith "14 sources expected";
  { fd_kind = sx_kind kind; fd_widths = sx_bool widths; fd_cmap = sx_bool cmap;
    fd_gdef = sx_bool gdef; fd_gsub = sx_bool gsub; fd_gpos = sx_bool gpos;
    fd_cff_err = sx_bool cfferr; fd_tables = List.map sx_table (lst tabs);
    fd_enc = (fun s -> encs.(src_index s)) }

let string_of_bytes (l : n list) : string =
  let b = Buffer.create (List.length l) in
  List.iter (fun x -> Buffer.add_char b (Char.chr (int_of_n x))) l;
  Buffer.contents b

let md5 (l : n list) : string = Digest.to_hex (Digest.string (string_of_bytes l))

let rec drop (k : int) (l : 'a list) : 'a list =
  if k <= 0 then l else match l with [] -> [] | _ :: r -> drop (k - 1) r

let file_sx (b : n list) : sx =
  let dir = dir_of b in
  L [A "ok";
     an (rd32 b);
     an (num_tables b);
     an (rd16 (drop 6 b));
     an (rd16 (drop 8 b));
     an (rd16 (drop 10 b));
     ai (List.length b);
     L (List.map (fun r ->
          L [A (hex_of_bytes (be32 r.r_tag)); an r.r_off; an r.r_len; an r.r_sum; A (md5 (table_bytes b r))]) dir);
     A (md5 b)]

let () = main_loop (fun c ->
  match c with
  | [A "asm"; w; kind; widths; cmap; gdef; gsub; gpos; cfferr; tabs; enc; extras; _] ->
    let d = sx_desc kind widths cmap gdef gsub gpos cfferr tabs enc in
    (match m_writer (sx_writer w) d (List.map sx_any (lst extras)) with
     | Ok b -> file_sx b
     | Err -> A "err"
     | Panic -> A "panic"
     | OutOfFuel -> A "fuel")
  | [A "get"; w; kind; widths; cmap; gdef; gsub; gpos; cfferr; tabs; enc; extras; name] ->
    let d = sx_desc kind widths cmap gdef gsub gpos cfferr tabs enc in
    let ex = List.map sx_any (lst extras) in
    let w = sx_writer w in
    let g = match s_get w d ex (sx_bytes name) with
      | None -> A "none"
      | Some None -> A "nil"
      | Some (Some b) -> L [A "some"; A (md5 b)] in
    L [g; ab (in_domain w d ex); ab (s_errs w d)]
  | _ -> failwith "bad case")
