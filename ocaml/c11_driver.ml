(* C11 driver.  Case lines (first atom selects the function):
     loca-enc (o0 o1 ...)          encodeLoca
     loca-dec fmt xLOCA glyflen    decodeLoca (only len(GlyfData) matters)
     dec-glyph xDATA               decodeGlyph
     rmpad nc xENC                 SimpleGlyph.removePadding
     decode fmt xLOCA xGLYF        glyf.Decode
     encode (G ...)                Glyphs.Encode
     simple nc xENC                SimpleGlyph.Decode
     comps G                       Glyph.Components
     fix ((k v) ...) G             Glyph.FixComponents
   G ::= nil | (simple nc (llx lly urx ury) xENC)
       | (comp (llx lly urx ury) ((flags gid xDATA) ...) INS)     INS ::= nil | xHEX *)
let hx b = A (hex_of_bytes b)

let box_of_sx x = match lst x with
  | [a; b; c; d] -> { llx = sx_z a; lly = sx_z b; urx = sx_z c; ury = sx_z d }
  | _ -> failwith "bad bbox"
let sx_of_box b = L [az b.llx; az b.lly; az b.urx; az b.ury]

let glyph_of_sx (x : sx) : glyph option =
  match x with
  | A "nil" -> None
  | L [A "simple"; nc; bx; e] ->
    Some { g_box = box_of_sx bx; g_data = Simple (sx_z nc, sx_bytes e) }
  | L [A "comp"; bx; cs; ins] ->
    let comps = List.map (fun c -> match c with
      | L [f; g; d] -> { c_flags = sx_n f; c_gid = sx_n g; c_data = sx_bytes d }
      | _ -> failwith "bad component") (lst cs) in
    let ins = (match ins with A "nil" -> None | i -> Some (sx_bytes i)) in
    Some { g_box = box_of_sx bx; g_data = Composite (comps, ins) }
  | _ -> failwith "bad glyph"

let sx_of_glyph (g : glyph option) : sx =
  match g with
  | None -> A "nil"
  | Some g ->
    (match g.g_data with
     | Simple (nc, e) -> L [A "simple"; az nc; sx_of_box g.g_box; hx e]
     | Composite (cs, ins) ->
       L [A "comp"; sx_of_box g.g_box;
          L (List.map (fun c -> L [an c.c_flags; an c.c_gid; hx c.c_data]) cs);
          (match ins with None -> A "nil" | Some i -> hx i)])

let out (f : 'a -> sx) (o : 'a outcome) : sx =
  match o with
  | Ok a -> L [A "ok"; f a]
  | Err -> A "err"
  | Panic -> A "panic"
  | OutOfFuel -> A "fuel"

let out_l (f : 'a -> sx list) (o : 'a outcome) : sx =
  match o with
  | Ok a -> L (A "ok" :: f a)
  | Err -> A "err"
  | Panic -> A "panic"
  | OutOfFuel -> A "fuel"

let () = main_loop (fun c ->
  match c with
  | [A "loca-enc"; offs] ->
    out_l (fun (b, f) -> [az f; hx b]) (m_encode_loca (List.map sx_n (lst offs)))
  | [A "loca-dec"; f; loca; glen] ->
    out (fun offs -> L (List.map an offs)) (m_decode_loca (sx_z f) (sx_bytes loca) (sx_n glen))
  | [A "dec-glyph"; d] -> out sx_of_glyph (m_decode_glyph (sx_bytes d))
  | [A "rmpad"; nc; e] -> out hx (m_remove_padding (sx_z nc) (sx_bytes e))
  | [A "decode"; f; loca; glyf] ->
    out (fun gg -> L (List.map sx_of_glyph gg))
      (m_decode { e_glyf = sx_bytes glyf; e_loca = sx_bytes loca; e_fmt = sx_z f })
  | [A "encode-any"; gg] ->
    out_l (fun e -> [az e.e_fmt; hx e.e_loca; hx e.e_glyf]) (m_encode (List.map glyph_of_sx (lst gg)))
  | [A "encode"; gg] ->
    (* "encode" cases claim normal form (the harness demands the round trip):
       the claim must agree with the hypothesis of theorem glyf_roundtrip *)
    let gg = List.map glyph_of_sx (lst gg) in
    if List.for_all nf_glyph gg
    then out_l (fun e -> [az e.e_fmt; hx e.e_loca; hx e.e_glyf]) (m_encode gg)
    else A "model-says-not-normal-form"
  | [A "simple"; nc; e] ->
    out_l (fun (cs, ins) ->
        [L (List.map (fun ct -> L (List.map (fun p -> L [az p.px; az p.py; ab p.on]) ct)) cs); hx ins])
      (m_simple_decode (sx_z nc) (sx_bytes e))
  | [A "comps"; g] -> L (List.map an (components (glyph_of_sx g)))
  | [A "fix"; m; g] ->
    let m = List.map (fun p -> match p with L [k; v] -> (sx_n k, sx_n v) | _ -> failwith "bad map") (lst m) in
    sx_of_glyph (fix_components (map_lookup m) (glyph_of_sx g))
  | _ -> failwith "bad case")
