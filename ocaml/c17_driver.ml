(* C17 driver: case = data oracle ops ; prints the trace of run_parser *)
let op_of_sx (x : sx) : op =
  match x with
  | A "u8" -> OU8 | A "u16" -> OU16 | A "i16" -> OI16 | A "u32" -> OU32
  | A "slice" -> OSlice | A "pos" -> OPos | A "size" -> OSize
  | L [A "seek"; p] -> OSeek (sx_nat p)
  | L [A "discard"; p] -> ODiscard (sx_nat p)
  | L [A "bytes"; p] -> OBytes (sx_nat p)
  | L [A "read"; p] -> ORead (sx_nat p)
  | _ -> failwith "bad op"

let sx_of_result (r : result) : sx =
  match r with
  | RDone -> A "done"
  | RVal v -> L [A "val"; az v]
  | RData b -> L [A "data"; A (hex_of_bytes b)]
  | RWords w -> L (A "words" :: List.map an w)
  | RRead (n, b, failed) -> L [A "read"; anat n; A (hex_of_bytes b); ab failed]
  | REof -> A "eof"
  | RPanic -> A "panic"
  | RFuel -> A "fuel"

let () = main_loop (fun c ->
  match c with
  | [which; data; orc; ops] ->
    let data = sx_bytes data in
    let orc = List.map (fun p -> match p with L [l; e] -> (sx_nat l, sx_bool e) | _ -> failwith "bad oracle") (lst orc) in
    let ops = List.map op_of_sx (lst ops) in
    let tr = (match atom which with
      | "parser" -> run_parser parser_bufferSize data orc ops
      | "view" -> run_view parser_bufferSize data ops
      | _ -> failwith "bad selector") in
    L (List.map (fun (r, p) -> L [sx_of_result r; anat p]) tr)
  | _ -> failwith "bad case")
