(* C13 driver: the first atom selects the modelled function.
     index-enc (xB1 xB2 ...)     -> (ok xBYTES) | panic
     index-hdr (len1 len2 ...)   -> (ok xBYTES) | panic      (count, offSize, offset array)
     index-read start xDATA      -> (ok (xB1 ...) endpos) | err | panic
     dict-int a                  -> (xBYTES (i a')) | (xBYTES err)
     offs-size i                 -> k
     dict-dec nstr xBYTES        -> (ok ((op (i z)|r|(s sid) ...) ...)) | err | panic
     charset-enc (n0 n1 ...)     -> (ok xBYTES) | err | panic
     charset-read nGlyphs xDATA  -> (ok (sid ...) endpos) | err
     encoding-enc (g0..g255) (names) -> (ok xBYTES) | err | panic
     encoding-read xDATA (charset)   -> (ok (g0..g255) endpos) | err
     fdselect-enc (fd ...)       -> xBYTES
     fdselect-read nGlyphs nPrivate xDATA -> (ok (fd ...) endpos) | err | panic
     charset-predef id nGlyphs   -> (ok (sid ...)) | err
     fontmatrix place (e0..e5)   -> (written b (e0..e5 read back)), entries in 1e-6 units
     real-layout neg (d1..dm) l  -> xBYTES   (nibble coding of +-0.d1..dm * 10^l)
     layout seed style (sections) -> (ok (offs ...) hdrOffSize) | fuel
        section = (f n) | (l n) | (d base (ops)) | (i ((base (ops)) ...)),  op = (o j) | (x a b) | (z j)
     width def nom w             -> decoded width (units of 1/65536, repaired code path)
   Integer lists may contain (r n v) = n copies of v and (s first n) = first, first+1, ... *)

let outc (f : 'a -> sx) (o : 'a outcome) : sx =
  match o with
  | Ok a -> f a
  | Err -> A "err"
  | Panic -> A "panic"
  | OutOfFuel -> A "fuel"

let expand_ints (x : sx) : int list =
  List.concat_map (fun it -> match it with
    | L [A "r"; n; v] -> let n = sx_int n and v = sx_int v in List.init n (fun _ -> v)
    | L [A "s"; f; n] -> let f = sx_int f and n = sx_int n in List.init n (fun k -> f + k)
    | A _ -> [sx_int it]
    | _ -> failwith "bad run item") (lst x)

let hexa b = A (hex_of_bytes b)
let endpos data rest = ai (int_of_n (lenN data) - int_of_n (lenN rest))
let okb b = L [A "ok"; hexa b]

let () = main_loop (fun c ->
  match c with
  | [A "index-enc"; blobs] ->
    outc okb (m_index_encode (List.map sx_bytes (lst blobs)))
  | [A "index-hdr"; lens] ->
    outc okb (m_index_header (List.map sx_n (lst lens)))
  | [A "index-read"; start; data] ->
    let data = sx_bytes data in
    let size = lenN data in
    let inp = dropN data (sx_n start) in
    outc (fun (bl, rest) ->
        L [A "ok"; L (List.map hexa bl); ai (int_of_n size - int_of_n (lenN rest))])
      (m_index_read_fast size inp)
  | [A "dict-int"; a] ->
    let b = m_dict_int_encode (sx_z a) in
    let v = (match dict_token b with
      | Ok (TVal (DInt z), []) -> L [A "i"; az z]
      | _ -> A "err") in
    L [hexa b; v]
  | [A "offs-size"; i] -> an (m_offs_size (sx_z i))
  | [A "dict-dec"; nstr; data] ->
    let sv v = (match v with
      | DInt z -> L [A "i"; az z]
      | DReal _ -> A "r"
      | DStr z -> L [A "s"; az z]) in
    outc (fun d -> L [A "ok"; L (List.map (fun (op, args) -> L (an op :: List.map sv args)) d)])
      (m_dict_decode_top (sx_n nstr) (sx_bytes data))
  | [A "charset-enc"; names] ->
    outc okb (m_charset_encode (List.map z_of_int (expand_ints names)))
  | [A "charset-read"; ng; data] ->
    let data = sx_bytes data in
    outc (fun (l, rest) -> L [A "ok"; L (List.map an l); endpos data rest])
      (m_charset_read (sx_z ng) data)
  | [A "encoding-enc"; enc; names] ->
    outc okb (m_encoding_encode (List.map n_of_int (expand_ints enc)) (List.map z_of_int (expand_ints names)))
  | [A "encoding-read"; data; cs] ->
    let data = sx_bytes data in
    outc (fun (l, rest) -> L [A "ok"; L (List.map an l); endpos data rest])
      (m_encoding_read data (List.map z_of_int (expand_ints cs)))
  | [A "fdselect-enc"; fds] ->
    hexa (m_fdselect_encode (List.map n_of_int (expand_ints fds)))
  | [A "fdselect-read"; ng; np; data] ->
    let data = sx_bytes data in
    outc (fun (l, rest) -> L [A "ok"; L (List.map an l); endpos data rest])
      (m_fdselect_read (sx_n ng) (sx_n np) data)
  | [A "layout"; _; _; secs] ->
    let op_of x = (match x with
      | L [A "o"; j] -> OOffs (sx_nat j)
      | L [A "x"; a; b] -> ODiff (sx_nat a, sx_nat b)
      | L [A "z"; j] -> OSize (sx_nat j)
      | _ -> failwith "bad operand") in
    let dict_of base ops = { d_base = sx_n base; d_ops = List.map op_of (lst ops) } in
    let sec_of x = (match x with
      | L [A "f"; n] -> SFixed (sx_n n)
      | L [A "l"; n] -> SLate (sx_n n)
      | L [A "d"; base; ops] -> SDict (dict_of base ops)
      | L [A "i"; ds] -> SIndex (List.map (fun d -> match d with L [b; o] -> dict_of b o | _ -> failwith "bad dict") (lst ds))
      | _ -> failwith "bad section") in
    let secs = List.map sec_of (lst secs) in
    outc (fun (offs, _) -> L [A "ok"; L (List.map az offs); an (hdr_offsize secs offs)]) (m_layout secs)
  | [A "width"; def; nom; w] ->
    az (m_width_decode (sx_z def) (sx_z nom) (m_width_encode (sx_z def) (sx_z nom) (sx_z w)))
  | [A "charset-predef"; id; n] ->
    outc (fun l -> L [A "ok"; L (List.map an l)]) (m_predefined_charset (sx_n id) (sx_n n))
  | [A "fontmatrix"; place; es] ->
    let p = (match atom place with
      | "top-simple" -> FmTopSimple | "top-cid" -> FmTopCID | "fd" -> FmFontDict
      | _ -> failwith "bad place") in
    let w = m_fm_write p (List.map sx_z (lst es)) in
    L [A "written"; ab (w <> None); L (List.map az (m_fm_read p w))]
  | [A "real-layout"; neg; digits; l] ->
    hexa (m_real_layout (sx_bool neg) (List.map sx_n (lst digits)) (sx_z l))
  | _ -> failwith "bad case")
