(* C18C driver.  sfnt.Read at table level (C18B's model) with the table decoders
   of the library instantiated by import (C18C.Concrete.concrete_decoders): the
   model gets the WHOLE file and decodes every table itself with the imported
   models; the only thing it is told is how the six parser-based decoders moved
   through their sections (the ranges they fetched, recorded on the intact
   table) - and for a table that fits the parser's buffer not even that.

   NAVS  = ((NAME ((OFF LEN) ...)) ...)    NAME in post cff gdef gsub gpos kern; a decoder that is
                                           not listed fetches its whole section with one request
   rdx xFILE NAVS
        -> (CLASS (dir (OFF LEN) ...) (order TAG ...) (cov (LO HI) ...) (last TAG|none))
   tcx SRC xFILE xTAG ((J NAVS) ...)       table TAG cut to J bytes in place (the length field of its
                                           directory entry), for every J listed; SRC = ra (ReaderAt) | st (stream)
        -> ((CLASSCHAR LAST COVERED COUNT) ...)   run-length encoded over J
   flx STYLE xFILE NAVS (K ...) CHUNK      fault at K; STYLE in at ge trunc stream seof (as in the C18B driver)
        -> ((CLASSCHAR LAST COUNT) ...)           run-length encoded over K
   CLASSCHAR: o font returned, e error, p panic, f fuel / outside the model *)

let accs (x : sx) : (n * n) list =
  List.map (fun p -> match p with L [o; l] -> (sx_n o, sx_n l) | _ -> failwith "bad access") (lst x)

let grow (pos : n) : n = let p = int_of_n pos in n_of_int (if p < 512 then 512 - p else p)

let bs = n_of_int (int_of_nat parser_bufferSize)

let navs_of (x : sx) : navs =
  let l = lst x in
  let find name =
    (match List.find_opt (fun d -> match d with L (A nm :: _) -> nm = name | _ -> false) l with
     | Some (L [_; a]) -> nav_replay (accs a)
     | Some _ -> failwith ("bad navigation entry " ^ name)
     | None -> nav_one_window bs) in
  { n_post = find "post"; n_cff = find "cff"; n_gdef = find "gdef"; n_gsub = find "gsub";
    n_gpos = find "gpos"; n_kern = find "kern";
    n_std_code = (fun _ -> None); n_exp_code = (fun _ -> None);
    n_cff_unspec = (fun _ -> OutOfFuel);
    n_namever = (fun _ -> Ok ()); n_grow = grow }

let class_sx (r : n outcome) : sx =
  match r with Ok v -> L [A "ok"; an v] | Err -> A "err" | Panic -> A "panic" | OutOfFuel -> A "fuel"
let class_char (r : n outcome) : string =
  match r with Ok _ -> "o" | Err -> "e" | Panic -> "p" | OutOfFuel -> "f"

let tag_sx (t : n) : sx = A (Printf.sprintf "x%08x" (int_of_n t))

let toc_of (rd : racc) : toc_entry list =
  match m_read_dir_r (to_c03 rd) with Ok (_, t) -> t | _ -> []

let last_tag (toc : toc_entry list) (fp : (n * n) list) : sx =
  match List.rev fp with
  | [] -> A "none"
  | (o, _) :: _ -> (match table_of toc o with Some t -> tag_sx t | None -> A "none")

let covered_bytes (fp : (n * n) list) : int =
  List.fold_left (fun acc (lo, hi) -> acc + int_of_n hi - int_of_n lo) 0 (covered fp)

let pairs l = List.map (fun (o, n) -> L [an o; an n]) l

let rec take k l = if k <= 0 then [] else match l with [] -> [] | x :: r -> x :: take (k - 1) r

let rec chunks (c : int) (l : n list) : sev list =
  match l with
  | [] -> []
  | _ -> let rec split k l acc = if k = 0 then (List.rev acc, l) else
             (match l with [] -> (List.rev acc, []) | x :: r -> split (k - 1) r (x :: acc)) in
    let (h, t) = split c l [] in SChunk h :: chunks c t

(* run-length encoding of a list of S-expression lists *)
let rle (items : sx list list) : sx =
  let rec go cur cnt rest acc =
    match rest with
    | [] -> List.rev (L (cur @ [ai cnt]) :: acc)
    | x :: r -> if x = cur then go cur (cnt + 1) r acc else go x 1 r (L (cur @ [ai cnt]) :: acc) in
  match items with
  | [] -> L []
  | x :: r -> L (go x 1 r [])

(* overwrite the length field of the directory entry of [tag] *)
let cut_table (file : n list) (tag : n list) (j : int) : n list =
  let a = Array.of_list file in
  let nt = (if Array.length a >= 6 then int_of_n a.(4) * 256 + int_of_n a.(5) else 0) in
  let tg = Array.of_list tag in
  for i = 0 to nt - 1 do
    let e = 12 + 16 * i in
    if e + 16 <= Array.length a && Array.length tg = 4
       && a.(e) = tg.(0) && a.(e+1) = tg.(1) && a.(e+2) = tg.(2) && a.(e+3) = tg.(3) then begin
      a.(e+12) <- n_of_int ((j lsr 24) land 255); a.(e+13) <- n_of_int ((j lsr 16) land 255);
      a.(e+14) <- n_of_int ((j lsr 8) land 255); a.(e+15) <- n_of_int (j land 255)
    end
  done;
  Array.to_list a

let () = main_loop (fun c ->
  match c with
  | A "rdx" :: file :: navs :: _ ->
    let rd = plain_at (sx_bytes file) in
    let d = concrete_decoders (navs_of navs) in
    let (r, fp) = m_sfnt_read_at d rd in
    let toc = toc_of rd in
    L [class_sx r;
       L (A "dir" :: pairs (dir_fp (to_c03 rd)));
       L (A "order" :: List.map tag_sx (first_touch toc fp []));
       L (A "cov" :: pairs (covered fp));
       L [A "last"; last_tag toc fp]]
  | A "tcx" :: src :: file :: tag :: cuts :: _ ->
    let file = sx_bytes file and tag = sx_bytes tag in
    rle (List.map (fun cx ->
        match cx with
        | L [j; navs] ->
          let data = cut_table file tag (sx_int j) in
          let d = concrete_decoders (navs_of navs) in
          let source = (match atom src with
            | "ra" -> SrcAt (plain_at data)
            | "st" -> SrcStream (chunks 512 data)
            | _ -> failwith "bad source") in
          let (r, fp) = m_sfnt_read d source in
          (* a streaming source is read into memory first: what Read then asks of that copy
             cannot be observed on the implementation *)
          if atom src = "st" then [A (class_char r); A "-"; ai 0]
          else [A (class_char r); last_tag (toc_of (plain_at data)) fp; ai (covered_bytes fp)]
        | _ -> failwith "bad cut") (lst cuts))
  | A "flx" :: style :: file :: navs :: ks :: rest ->
    let data = sx_bytes file in
    let len = List.length data in
    let chunk = (match rest with c :: _ -> (try sx_int c with _ -> 512) | _ -> 512) in
    let d = concrete_decoders (navs_of navs) in
    let rd = plain_at data in
    let toc = toc_of rd in
    rle (List.map (fun kx ->
        let k = sx_int kx in
        let kk = min k len in
        let (source, t) = (match atom style with
          | "at" -> (SrcAt (faulty (fails_at (n_of_int k)) rd), toc)
          | "ge" -> (SrcAt (faulty (fails_ge (n_of_int k)) rd), toc)
          | "trunc" -> let cut = plain_at (take kk data) in (SrcAt cut, toc_of cut)
          | "stream" ->
            let evs = chunks chunk (take kk data) in
            (SrcStream (if k <= len then evs @ [SFail] else evs), toc)
          | "seof" -> (SrcStream (chunks chunk (take kk data)), toc_of (plain_at (take kk data)))
          | _ -> failwith "bad style") in
        let (r, fp) = m_sfnt_read d source in
        (match atom style with
         | "stream" | "seof" -> [A (class_char r); A "-"]
         | _ -> [A (class_char r); last_tag t fp])) (lst ks))
  | _ -> failwith "bad case")
