(* C20 driver.  Case lines (KIND, FMT and STYLE are for the harness only):
     names KIND <n> (xNAME ...) CMAP GSUB
        CMAP = none | (FMT ((rune gid xNAME) ...))  ascending runes; xNAME = names.FromUnicode(string(rune))
        GSUB = none | (SUB ...)
        SUB  = (g11 (gid ...) delta) | (g12 ((gid idx) ...) (gid ...))
             | (g31 ((gid idx) ...) ((gid ...) ...))
             | (g41 ((gid idx) ...) ((((gid ...) out) ...) ...)) | other
     cff KIND (xNAME ...) TEXTS ((xNAME 0|1) ...)
        TEXTS = none | ((xTEXT xBASE) ...)      one per glyph; xBASE = names.FromUnicode(text)
        last item: the finite part of names.IsValid the model may consult
     psname xFAMILY xSUBFAMILY STYLE
     psclass
   Output: (ok xNAME ...) | panic | fuel | err ; xBYTES ; (class 0101...) *)

let names_of x = List.map sx_bytes (lst x)

let pair_nn x = match x with L [a; b] -> (sx_n a, sx_n b) | _ -> failwith "pair expected"

let subtable_of (x : sx) : subtable =
  match x with
  | A "other" -> GOther
  | L [A "g11"; cov; d] -> G11 (List.map sx_n (lst cov), sx_n d)
  | L [A "g12"; cov; sub] -> G12 (List.map pair_nn (lst cov), List.map sx_n (lst sub))
  | L [A "g31"; cov; alts] ->
    G31 (List.map pair_nn (lst cov), List.map (fun a -> List.map sx_n (lst a)) (lst alts))
  | L [A "g41"; cov; repl] ->
    let lig l = match l with
      | L [ins; out] -> { lig_in = List.map sx_n (lst ins); lig_out = sx_n out }
      | _ -> failwith "bad ligature" in
    G41 (List.map pair_nn (lst cov), List.map (fun ls -> List.map lig (lst ls)) (lst repl))
  | _ -> failwith "bad subtable"

let out_names (r : name list outcome) : sx =
  match r with
  | Ok l -> L (A "ok" :: List.map (fun nm -> A (hex_of_bytes nm)) l)
  | Err -> A "err"
  | Panic -> A "panic"
  | OutOfFuel -> A "fuel"

let () = main_loop (fun c ->
  match c with
  | [A "names"; _; n; existing; cm; gs] ->
    let tbl = Hashtbl.create 64 in
    let cmap = (match cm with
      | A "none" -> None
      | L [_; L es] -> Some (List.map (fun e -> match e with
          | L [r; g; nm] -> Hashtbl.replace tbl (sx_int r) (sx_bytes nm); (sx_n r, sx_n g)
          | _ -> failwith "bad cmap entry") es)
      | _ -> failwith "bad cmap") in
    let from_unicode (r : n) : name =
      (match Hashtbl.find_opt tbl (int_of_n r) with
       | Some nm -> nm
       | None -> failwith "from_unicode: rune not in the table") in
    let gsub = (match gs with
      | A "none" -> None
      | L ts -> Some (List.map subtable_of ts)
      | _ -> failwith "bad gsub") in
    out_names (m_make_names from_unicode true (sx_nat n) (names_of existing) cmap gsub)
  | [A "cff"; _; existing; tx; valid] ->
    let ft = Hashtbl.create 64 and vt = Hashtbl.create 64 in
    let texts = (match tx with
      | A "none" -> None
      | L es -> Some (List.map (fun e -> match e with
          | L [t; b] -> Hashtbl.replace ft (atom t) (sx_bytes b); sx_bytes t
          | _ -> failwith "bad text entry") es)
      | _ -> failwith "bad texts") in
    List.iter (fun e -> match e with
      | L [nm; v] -> Hashtbl.replace vt (atom nm) (sx_bool v)
      | _ -> failwith "bad valid entry") (lst valid);
    let from_text (t : n list) : name =
      (match Hashtbl.find_opt ft (hex_of_bytes t) with
       | Some b -> b
       | None -> failwith "from_text: text not in the table") in
    let is_valid (nm : name) : bool =
      (match Hashtbl.find_opt vt (hex_of_bytes nm) with
       | Some v -> v
       | None -> failwith ("is_valid: name not in the table: " ^ hex_of_bytes nm)) in
    out_names (m_cff_make_names from_text is_valid (names_of existing) texts)
  | [A "psname"; fam; sub; _] ->
    A (hex_of_bytes (m_postscript_name sfnt_psNameRegexp (sx_bytes fam) (sx_bytes sub)))
  | [A "psclass"] ->
    let b = Buffer.create 256 in
    for i = 0 to 255 do
      Buffer.add_char b (if ps_allowed sfnt_psNameRegexp (n_of_int i) then '1' else '0')
    done;
    L [A "class"; A (Buffer.contents b)]
  | _ -> failwith "bad case")
