(* C05 driver.
   case "t2 <dflt> <nom> <code> <subrs> <gsubrs>": runs S_t2; a table is
     (size xDEFAULTBODY (idx xBODY) ...)
   case "bias <count> <biased>": bias and range test of a subroutine call *)
let tab_of_sx (x : sx) : subrtab =
  match x with
  | L (size :: dflt :: specials) ->
    { t_size = sx_z size; t_default = sx_bytes dflt;
      t_special = List.map (fun p -> match p with
        | L [i; b] -> (sx_z i, sx_bytes b)
        | _ -> failwith "bad table entry") specials }
  | _ -> failwith "bad table"

let sx_of_cmd (c : cmd) : sx =
  match c with
  | CMove (x, y) -> L [A "m"; az x; az y]
  | CLine (x, y) -> L [A "l"; az x; az y]
  | CCurve (a, b, c, d, e, f) -> L [A "c"; az a; az b; az c; az d; az e; az f]
  | CHint bs -> L [A "hm"; A (hex_of_bytes bs)]
  | CCntr bs -> L [A "cm"; A (hex_of_bytes bs)]

let sx_of_outcome (o : outcome) : sx =
  match o with
  | T2Ok g -> L [A "ok"; az g.g_width; L (List.map az g.g_hstem); L (List.map az g.g_vstem);
                 L (List.map sx_of_cmd g.g_cmds)]
  | T2Err _ -> A "err"
  | T2Unspec -> A "unspec"
  | T2Fuel -> A "fuel"

let () = main_loop (fun c ->
  match c with
  | [A "t2"; dflt; nom; code; subrs; gsubrs] ->
    sx_of_outcome (s_t2 (sx_z dflt) (sx_z nom) (tab_of_sx subrs) (tab_of_sx gsubrs) (sx_bytes code))
  | [A "bias"; count; biased] ->
    let n = sx_z count in
    let t = { t_size = n; t_default = []; t_special = [] } in
    (match lookup t (sx_z biased) with
     | Some _ -> L [A "sub"; az (Z.add (sx_z biased) (subr_bias n))]
     | None -> A "bad")
  | _ -> failwith "bad case")
