(* C08 driver: first atom selects the modelled function.
     cov-enc ((gid idx) ...)      -> (ok xBYTES len) | panic
     cov-read xBYTES pos          -> (ok ((gid idx runlen) ...)) | err | panic
     cd-enc ((gid class len) ...) -> (ok xBYTES appendlen) | (panic appendlen)
     cd-read xBYTES pos           -> (ok ((gid class runlen) ...)) | err | panic
     ll-enc ((type flags mfs (sub ...)) ...)  -> (ok xBYTES) | (ok len md5) | panic
     ll-rt  ((type flags mfs (sub ...)) ...)  -> encode, then read: (ok ((type flags mfs (pos ...)) ...)) | panic | err
     ll-read xBYTES pos extType   -> (ok ((type flags mfs (pos ...)) ...)) | err
       sub = (b size seed) | (gsub xHEX) | (gpos xHEX) | (ctx xHEX) *)

let outc (f : 'a -> sx) (o : 'a outcome) : sx =
  match o with
  | Ok a -> f a
  | Err -> A "err"
  | Panic -> A "panic"
  | OutOfFuel -> A "fuel"

(* compress (gid, idx) pairs into maximal runs where both advance by one *)
let runs_of_pairs (l : (int * int) list) : sx =
  let rec go l cur acc =
    match l, cur with
    | [], None -> List.rev acc
    | [], Some (g, i, n) -> List.rev (L [ai g; ai i; ai n] :: acc)
    | (g', i') :: tl, None -> go tl (Some (g', i', 1)) acc
    | (g', i') :: tl, Some (g, i, n) ->
      if g' = g + n && i' = i + n then go tl (Some (g, i, n + 1)) acc
      else go tl (Some (g', i', 1)) (L [ai g; ai i; ai n] :: acc)
  in
  L (go l None [])

(* compress (gid, class) pairs into maximal runs of consecutive gids with one class *)
let cruns_of_pairs (l : (int * int) list) : sx =
  let rec go l cur acc =
    match l, cur with
    | [], None -> List.rev acc
    | [], Some (g, c, n) -> List.rev (L [ai g; ai c; ai n] :: acc)
    | (g', c') :: tl, None -> go tl (Some (g', c', 1)) acc
    | (g', c') :: tl, Some (g, c, n) ->
      if g' = g + n && c' = c then go tl (Some (g, c, n + 1)) acc
      else go tl (Some (g', c', 1)) (L [ai g; ai c; ai n] :: acc)
  in
  L (go l None [])

(* expand ((gid class len) ...) *)
let pairs_of_cruns (x : sx) : (n * n) list =
  List.concat_map (fun r -> match r with
    | L [g; c; n] -> let g = sx_int g and c = sx_int c and n = sx_int n in
      List.init n (fun k -> (n_of_int (g + k), n_of_int c))
    | _ -> failwith "bad run") (lst x)

(* ---- lookup lists ---- *)
(* synthetic blob: byte k = (seed + 7k + (k lsr 8)) land 255 *)
let blob size seed = List.init size (fun k -> n_of_int ((seed + 7 * k + (k lsr 8)) land 255))

(* sub = (b size seed) | (gsub xHEX) | (gpos xHEX) | (ctx xHEX); returns (kind, bytes) *)
let sub_of_sx x = match x with
  | L [A "b"; sz; sd] -> (0, blob (sx_int sz) (sx_int sd))
  | L [A "gsub"; h] -> (1, sx_bytes h)
  | L [A "gpos"; h] -> (2, sx_bytes h)
  | L [A "ctx"; h] -> (3, sx_bytes h)
  | _ -> failwith "bad subtable"

let lookups_of_sx x =
  List.map (fun l -> match l with
    | L [tp; fl; mfs; subs] ->
      let ss = List.map sub_of_sx (lst subs) in
      ({ lk_type = sx_n tp; lk_flags = sx_n fl; lk_mfs = sx_n mfs; lk_subs = List.map snd ss },
       (sx_n tp, List.map (fun (k, _) -> n_of_int k) ss))
    | _ -> failwith "bad lookup") (lst x)

let string_of_bytes (b : n list) : string =
  let buf = Buffer.create (List.length b) in
  List.iter (fun x -> Buffer.add_char buf (Char.chr (int_of_n x))) b;
  Buffer.contents buf

let bytes_obs (b : n list) : sx =
  let len = List.length b in
  if len <= 300 then L [A "ok"; A (hex_of_bytes b)]
  else L [A "ok"; ai len; A (Digest.to_hex (Digest.string (string_of_bytes b)))]

let obs_lookups (l : lookup_obs list) : sx =
  L [A "ok"; L (List.map (fun o -> L [an o.lo_type; an o.lo_flags; an o.lo_mfs; L (List.map an o.lo_subpos)]) l)]

let pair_nz x = match x with L [g; i] -> (sx_n g, sx_z i) | _ -> failwith "bad pair"

let () = main_loop (fun c ->
  match c with
  | [A "cov-enc"; t] ->
    let t = List.map pair_nz (lst t) in
    (match m_cov_encode t, m_cov_encode_len t with
     | Ok b, Ok n -> L [A "ok"; A (hex_of_bytes b); an n]
     | Panic, _ | _, Panic -> A "panic"
     | _ -> A "err")
  | [A "cov-read"; data; pos] ->
    outc (fun l -> L [A "ok"; runs_of_pairs (List.map (fun (g, i) -> (int_of_n g, int_of_n i)) l)])
      (m_cov_read (sx_bytes data) (sx_n pos))
  | [A "cd-enc"; t] ->
    let t = pairs_of_cruns t in
    let n = m_cd_append_len t in
    (match m_cd_append t with
     | Ok b -> L [A "ok"; A (hex_of_bytes b); an n]
     | Panic -> L [A "panic"; an n]
     | _ -> A "err")
  | [A "cd-read"; data; pos] ->
    outc (fun l -> L [A "ok"; cruns_of_pairs (List.map (fun (g, i) -> (int_of_n g, int_of_n i)) l)])
      (m_cd_read (sx_bytes data) (sx_n pos))
  | [A "ll-enc"; lks] ->
    let l = lookups_of_sx lks in
    outc bytes_obs (m_ll_encode (List.map fst l) (m_find_ext (List.map snd l)))
  | [A "ll-rt"; lks] ->
    let l = lookups_of_sx lks in
    let ext = m_find_ext (List.map snd l) in
    (match m_ll_encode (List.map fst l) ext with
     | Ok b -> outc obs_lookups (m_ll_read b N0 ext)
     | Panic -> A "panic" | Err -> A "err" | OutOfFuel -> A "fuel")
  | [A "ll-read"; data; pos; ext] ->
    outc obs_lookups (m_ll_read (sx_bytes data) (sx_n pos) (sx_n ext))
  | _ -> failwith "bad case")
