(* C08 driver: first atom selects the modelled function.
     cov-enc ((gid idx) ...)      -> (ok xBYTES len) | panic
     cov-read xBYTES pos          -> (ok ((gid idx runlen) ...)) | err | panic
     cd-enc ((gid class len) ...) -> (ok xBYTES appendlen) | (panic appendlen)
     cd-read xBYTES pos           -> (ok ((gid class runlen) ...)) | err | panic *)

let outc (f : 'a -> sx) (o : 'a outcome) : sx =
  match o with
  | Ok a -> f a
  | Err -> A "err"
  | Panic -> A "panic"
  | OutOfFuel -> A "fuel"

(* compress (gid, idx) pairs into maximal runs where both advance by one *)
let runs_of_pairs (l : (int * int) list) : sx =
  let rec go l cur acc =
    match l, cur with
    | [], None -> List.rev acc
    | [], Some (g, i, n) -> List.rev (L [ai g; ai i; ai n] :: acc)
    | (g', i') :: tl, None -> go tl (Some (g', i', 1)) acc
    | (g', i') :: tl, Some (g, i, n) ->
      if g' = g + n && i' = i + n then go tl (Some (g, i, n + 1)) acc
      else go tl (Some (g', i', 1)) (L [ai g; ai i; ai n] :: acc)
  in
  L (go l None [])

(* compress (gid, class) pairs into maximal runs of consecutive gids with one class *)
let cruns_of_pairs (l : (int * int) list) : sx =
  let rec go l cur acc =
    match l, cur with
    | [], None -> List.rev acc
    | [], Some (g, c, n) -> List.rev (L [ai g; ai c; ai n] :: acc)
    | (g', c') :: tl, None -> go tl (Some (g', c', 1)) acc
    | (g', c') :: tl, Some (g, c, n) ->
      if g' = g + n && c' = c then go tl (Some (g, c, n + 1)) acc
      else go tl (Some (g', c', 1)) (L [ai g; ai c; ai n] :: acc)
  in
  L (go l None [])

(* expand ((gid class len) ...) *)
let pairs_of_cruns (x : sx) : (n * n) list =
  List.concat_map (fun r -> match r with
    | L [g; c; n] -> let g = sx_int g and c = sx_int c and n = sx_int n in
      List.init n (fun k -> (n_of_int (g + k), n_of_int c))
    | _ -> failwith "bad run") (lst x)

let pair_nz x = match x with L [g; i] -> (sx_n g, sx_z i) | _ -> failwith "bad pair"

let () = main_loop (fun c ->
  match c with
  | [A "cov-enc"; t] ->
    let t = List.map pair_nz (lst t) in
    (match m_cov_encode t, m_cov_encode_len t with
     | Ok b, Ok n -> L [A "ok"; A (hex_of_bytes b); an n]
     | Panic, _ | _, Panic -> A "panic"
     | _ -> A "err")
  | [A "cov-read"; data; pos] ->
    outc (fun l -> L [A "ok"; runs_of_pairs (List.map (fun (g, i) -> (int_of_n g, int_of_n i)) l)])
      (m_cov_read (sx_bytes data) (sx_n pos))
  | [A "cd-enc"; t] ->
    let t = pairs_of_cruns t in
    let n = m_cd_append_len t in
    (match m_cd_append t with
     | Ok b -> L [A "ok"; A (hex_of_bytes b); an n]
     | Panic -> L [A "panic"; an n]
     | _ -> A "err")
  | [A "cd-read"; data; pos] ->
    outc (fun l -> L [A "ok"; cruns_of_pairs (List.map (fun (g, i) -> (int_of_n g, int_of_n i)) l)])
      (m_cd_read (sx_bytes data) (sx_n pos))
  | _ -> failwith "bad case")
