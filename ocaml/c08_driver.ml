(* C08 driver: first atom selects the modelled function.
     cov-enc ((gid idx) ...)      -> (ok xBYTES len) | panic
     cov-read xBYTES pos          -> (ok ((gid idx runlen) ...)) | err | panic
     cd-enc ((gid class len) ...) -> (ok xBYTES appendlen) | (panic appendlen)
     cd-read xBYTES pos           -> (ok ((gid class runlen) ...)) | err | panic
     ll-enc ((type flags mfs (sub ...)) ...)  -> (ok xBYTES) | (ok len md5) | panic
     ll-rt  ((type flags mfs (sub ...)) ...)  -> encode, then read: (ok ((type flags mfs (pos ...)) ...)) | panic | err
     ll-read xBYTES pos extType   -> (ok ((type flags mfs (pos ...)) ...)) | err
       sub = (b size seed) | (gsub xHEX) | (gpos xHEX) | (ctx xHEX)
     vr-enc FMT|own VR            -> (format xBYTES encodeLen)      VR = nil | (xp yp xa ya xpd ypd xad yad)
     vr-read FMT xBYTES           -> (ok VR bytesleft) | err
     sub-enc SUBTABLE             -> (ok xBYTES encodeLen) | panic
     sub-read gsub|gpos TYPE xBYTES pos -> (ok SUBTABLE) | err | fuel (reader not modelled)
       SUBTABLE = (gsub11 (gid ...) delta) | (gsub12 COV (gid ...)) | (gsub21 COV ((gid ...) ...))
                | (gsub31 COV ((gid ...) ...)) | (gpos11 COV VR) | (gpos12 COV (VR ...))
                | (gsub41 COV (((out in ...) ...) ...)) | (gpos21 ((left right VR VR) ...))
       COV = ((gid idx runlen) ...)
     gdef-enc GC MAC MGS          -> (ok xBYTES) | panic     GC, MAC = nil | ((gid class len) ...)
     gdef-read xBYTES             -> (ok GC MAC MGS) | err   MGS = nil | (((gid len) ...) ...)
     sl-enc ((xSCRIPT DEF ((xLANG LS) ...)) ...) -> (ok xBYTES) | panic    DEF = nil | LS, LS = (required (optional ...))
     sl-read xBYTES pos ((xSCRIPT xLANG) ...) -> (ok ((xSCRIPT xLANG LS) ...)) | err   (the final map, sorted; xLANG = x for the
                                     default; 3rd argument: the pairs the tag conversion accepts)
     fl-enc ((xTAG (lookup ...)) ...) -> (ok xBYTES) | panic
     fl-read xBYTES pos           -> (ok ((xTAG (lookup ...)) ...)) | err *)

let outc (f : 'a -> sx) (o : 'a outcome) : sx =
  match o with
  | Ok a -> f a
  | Err -> A "err"
  | Panic -> A "panic"
  | OutOfFuel -> A "fuel"

(* compress (gid, idx) pairs into maximal runs where both advance by one *)
let runs_of_pairs (l : (int * int) list) : sx =
  let rec go l cur acc =
    match l, cur with
    | [], None -> List.rev acc
    | [], Some (g, i, n) -> List.rev (L [ai g; ai i; ai n] :: acc)
    | (g', i') :: tl, None -> go tl (Some (g', i', 1)) acc
    | (g', i') :: tl, Some (g, i, n) ->
      if g' = g + n && i' = i + n then go tl (Some (g, i, n + 1)) acc
      else go tl (Some (g', i', 1)) (L [ai g; ai i; ai n] :: acc)
  in
  L (go l None [])

(* compress (gid, class) pairs into maximal runs of consecutive gids with one class *)
let cruns_of_pairs (l : (int * int) list) : sx =
  let rec go l cur acc =
    match l, cur with
    | [], None -> List.rev acc
    | [], Some (g, c, n) -> List.rev (L [ai g; ai c; ai n] :: acc)
    | (g', c') :: tl, None -> go tl (Some (g', c', 1)) acc
    | (g', c') :: tl, Some (g, c, n) ->
      if g' = g + n && c' = c then go tl (Some (g, c, n + 1)) acc
      else go tl (Some (g', c', 1)) (L [ai g; ai c; ai n] :: acc)
  in
  L (go l None [])

(* expand ((gid class len) ...) *)
let pairs_of_cruns (x : sx) : (n * n) list =
  List.concat_map (fun r -> match r with
    | L [g; c; n] -> let g = sx_int g and c = sx_int c and n = sx_int n in
      List.init n (fun k -> (n_of_int (g + k), n_of_int c))
    | _ -> failwith "bad run") (lst x)

(* ---- lookup lists ---- *)
(* synthetic blob: byte k = (seed + 7k + (k lsr 8)) land 255 *)
let blob size seed = List.init size (fun k -> n_of_int ((seed + 7 * k + (k lsr 8)) land 255))

(* sub = (b size seed) | (gsub xHEX) | (gpos xHEX) | (ctx xHEX); returns (kind, bytes) *)
let sub_of_sx x = match x with
  | L [A "b"; sz; sd] -> (0, blob (sx_int sz) (sx_int sd))
  | L [A "gsub"; h] -> (1, sx_bytes h)
  | L [A "gpos"; h] -> (2, sx_bytes h)
  | L [A "ctx"; h] -> (3, sx_bytes h)
  | _ -> failwith "bad subtable"

let lookups_of_sx x =
  List.map (fun l -> match l with
    | L [tp; fl; mfs; subs] ->
      let ss = List.map sub_of_sx (lst subs) in
      ({ lk_type = sx_n tp; lk_flags = sx_n fl; lk_mfs = sx_n mfs; lk_subs = List.map snd ss },
       (sx_n tp, List.map (fun (k, _) -> n_of_int k) ss))
    | _ -> failwith "bad lookup") (lst x)

let string_of_bytes (b : n list) : string =
  let buf = Buffer.create (List.length b) in
  List.iter (fun x -> Buffer.add_char buf (Char.chr (int_of_n x))) b;
  Buffer.contents buf

let bytes_obs (b : n list) : sx =
  let len = List.length b in
  if len <= 300 then L [A "ok"; A (hex_of_bytes b)]
  else L [A "ok"; ai len; A (Digest.to_hex (Digest.string (string_of_bytes b)))]

let obs_lookups (l : lookup_obs list) : sx =
  L [A "ok"; L (List.map (fun o -> L [an o.lo_type; an o.lo_flags; an o.lo_mfs; L (List.map an o.lo_subpos)]) l)]

(* ---- value records and subtables ---- *)
let vr_of_sx x = match x with
  | A "nil" -> None
  | L [a; b; c; d; e; f; g; h] ->
    Some { v_xp = sx_z a; v_yp = sx_z b; v_xa = sx_z c; v_ya = sx_z d;
           v_xpd = sx_n e; v_ypd = sx_n f; v_xad = sx_n g; v_yad = sx_n h }
  | _ -> failwith "bad value record"
let sx_of_vr v = match v with
  | None -> A "nil"
  | Some r -> L [az r.v_xp; az r.v_yp; az r.v_xa; az r.v_ya; an r.v_xpd; an r.v_ypd; an r.v_xad; an r.v_yad]

(* coverage table as runs ((gid idx len) ...) in which both advance by one *)
let cov_of_sx (x : sx) : (n * n) list =
  List.concat_map (fun r -> match r with
    | L [g; i; n] -> let g = sx_int g and i = sx_int i and n = sx_int n in
      List.init n (fun k -> (n_of_int (g + k), n_of_int (i + k)))
    | _ -> failwith "bad run") (lst x)
let sx_of_cov (l : (n * n) list) : sx = runs_of_pairs (List.map (fun (g, i) -> (int_of_n g, int_of_n i)) l)
let ns_of_sx x = List.map sx_n (lst x)
let sx_of_ns l = L (List.map an l)

let lig_of_sx x = match lst x with o :: ins -> (sx_n o, List.map sx_n ins) | [] -> failwith "bad ligature"
let sets_of_sx x = List.map (fun s -> List.map lig_of_sx (lst s)) (lst x)
let sx_of_sets ss = L (List.map (fun s -> L (List.map (fun (o, ins) -> L (an o :: List.map an ins)) s)) ss)

let sx_of_subtable (s : subtable) : sx = match s with
  | SGsub41 (c, ss) -> L [A "gsub41"; sx_of_cov c; sx_of_sets ss]
  | SGsub11 (gl, d) -> L [A "gsub11"; sx_of_ns gl; an d]
  | SGsub12 (c, su) -> L [A "gsub12"; sx_of_cov c; sx_of_ns su]
  | SGsub21 (c, q) -> L [A "gsub21"; sx_of_cov c; L (List.map sx_of_ns q)]
  | SGsub31 (c, q) -> L [A "gsub31"; sx_of_cov c; L (List.map sx_of_ns q)]
  | SGpos11 (c, v) -> L [A "gpos11"; sx_of_cov c; sx_of_vr v]
  | SGpos12 (c, vs) -> L [A "gpos12"; sx_of_cov c; L (List.map sx_of_vr vs)]

(* (gpos21 ((left right VR VR) ...)), sorted by (left, right): grouped by left *)
let groups_of_sx (x : sx) =
  let items = List.map (fun p -> match p with
    | L [l; r; v1; v2] -> (sx_n l, (sx_n r, (vr_of_sx v1, vr_of_sx v2)))
    | _ -> failwith "bad pair") (lst x) in
  let rec go items acc = match items, acc with
    | [], _ -> List.rev_map (fun (l, its) -> (l, List.rev its)) acc
    | (l, it) :: tl, (l', its) :: rest when int_of_n l = int_of_n l' -> go tl ((l', it :: its) :: rest)
    | (l, it) :: tl, _ -> go tl ((l, [it]) :: acc) in
  go items []
let sx_of_groups gs =
  L (List.concat_map (fun (l, its) ->
       List.map (fun (r, (v1, v2)) -> L [an l; an r; sx_of_vr v1; sx_of_vr v2]) its) gs)

(* GDEF: GC, MAC = nil | ((gid class len) ...); MGS = nil | (((gid len) ...) ...) *)
let opt_cd_of_sx x = match x with A "nil" -> None | _ -> Some (pairs_of_cruns x)
let sx_of_opt_cd o = match o with
  | None -> A "nil"
  | Some l -> cruns_of_pairs (List.map (fun (g, c) -> (int_of_n g, int_of_n c)) l)
let set_of_sx x = List.concat_map (fun r -> match r with
  | L [g; n] -> let g = sx_int g and n = sx_int n in List.init n (fun k -> n_of_int (g + k))
  | _ -> failwith "bad set run") (lst x)
let sx_of_set (s : n list) : sx =
  let rec go l cur acc = match l, cur with
    | [], None -> List.rev acc
    | [], Some (g, n) -> List.rev (L [ai g; ai n] :: acc)
    | g' :: tl, None -> go tl (Some (g', 1)) acc
    | g' :: tl, Some (g, n) -> if g' = g + n then go tl (Some (g, n + 1)) acc
                               else go tl (Some (g', 1)) (L [ai g; ai n] :: acc) in
  L (go (List.map int_of_n s) None [])
let opt_sets_of_sx x = match x with A "nil" -> None | _ -> Some (List.map set_of_sx (lst x))
let sx_of_opt_sets o = match o with None -> A "nil" | Some ss -> L (List.map sx_of_set ss)

(* script list: ((xSCRIPT DEF ((xLANG LS) ...)) ...), DEF = nil | LS, LS = (required (optional ...)) *)
let ls_of_sx x = match x with L [r; o] -> (sx_n r, ns_of_sx o) | _ -> failwith "bad langsys"
let sx_of_ls (r, o) = L [an r; sx_of_ns o]
let entries_of_sx x = List.map (fun e -> match e with
  | L [t; d; ls] ->
    ((sx_bytes t, (match d with A "nil" -> None | _ -> Some (ls_of_sx d))),
     List.map (fun l -> match l with L [lt; f] -> (sx_bytes lt, ls_of_sx f) | _ -> failwith "bad lang") (lst ls))
  | _ -> failwith "bad script entry") (lst x)
(* the assignments as a map: last wins, sorted by (script, lang) *)
let sx_of_assignments l =
  let tbl = Hashtbl.create 16 in
  List.iter (fun ((s, lg), f) -> Hashtbl.replace tbl (hex_of_bytes s, hex_of_bytes lg) f) l;
  let keys = List.sort compare (Hashtbl.fold (fun k _ acc -> k :: acc) tbl []) in
  L (List.map (fun (s, lg) -> L [A s; A lg; sx_of_ls (Hashtbl.find tbl (s, lg))]) keys)

let enc_obs (b : n list outcome) (n : n outcome) : sx =
  match b, n with
  | Ok b, Ok n -> L [A "ok"; A (hex_of_bytes b); an n]
  | Panic, _ | _, Panic -> A "panic"
  | _ -> A "err"

let sub_encode (x : sx) : sx = match x with
  | L [A "gsub11"; gl; d] -> let gl = ns_of_sx gl in enc_obs (m_gsub11_encode gl (sx_n d)) (m_gsub11_len gl)
  | L [A "gsub12"; c; su] -> let c = as_table (cov_of_sx c) and su = ns_of_sx su in
    enc_obs (m_gsub12_encode c su) (m_gsub12_len c su)
  | L [A ("gsub21" | "gsub31"); c; q] -> let c = as_table (cov_of_sx c) and q = List.map ns_of_sx (lst q) in
    enc_obs (m_gsubseq_encode c q) (m_gsubseq_len c q)
  | L [A "gsub41"; c; ss] -> let c = as_table (cov_of_sx c) and ss = sets_of_sx ss in
    enc_obs (m_gsub41_encode c ss) (m_gsub41_len c ss)
  | L [A "gpos21"; ps] -> let gs = groups_of_sx ps in
    enc_obs (m_gpos21_encode gs) (m_gpos21_len gs)
  | L [A "gpos11"; c; v] -> let c = as_table (cov_of_sx c) and v = vr_of_sx v in
    enc_obs (m_gpos11_encode c v) (m_gpos11_len c v)
  | L [A "gpos12"; c; vs] -> let c = as_table (cov_of_sx c) and vs = List.map vr_of_sx (lst vs) in
    enc_obs (m_gpos12_encode c vs) (m_gpos12_len c vs)
  | _ -> failwith "bad subtable"

let pair_nz x = match x with L [g; i] -> (sx_n g, sx_z i) | _ -> failwith "bad pair"

let () = main_loop (fun c ->
  match c with
  | [A "cov-enc"; t] ->
    let t = List.map pair_nz (lst t) in
    (match m_cov_encode t, m_cov_encode_len t with
     | Ok b, Ok n -> L [A "ok"; A (hex_of_bytes b); an n]
     | Panic, _ | _, Panic -> A "panic"
     | _ -> A "err")
  | [A "cov-read"; data; pos] ->
    outc (fun l -> L [A "ok"; runs_of_pairs (List.map (fun (g, i) -> (int_of_n g, int_of_n i)) l)])
      (m_cov_read (sx_bytes data) (sx_n pos))
  | [A "cd-enc"; t] ->
    let t = pairs_of_cruns t in
    let n = m_cd_append_len t in
    (match m_cd_append t with
     | Ok b -> L [A "ok"; A (hex_of_bytes b); an n]
     | Panic -> L [A "panic"; an n]
     | _ -> A "err")
  | [A "cd-read"; data; pos] ->
    outc (fun l -> L [A "ok"; cruns_of_pairs (List.map (fun (g, i) -> (int_of_n g, int_of_n i)) l)])
      (m_cd_read (sx_bytes data) (sx_n pos))
  | [A "ll-enc"; lks] ->
    let l = lookups_of_sx lks in
    outc bytes_obs (m_ll_encode (List.map fst l) (m_find_ext (List.map snd l)))
  | [A "ll-rt"; lks] ->
    let l = lookups_of_sx lks in
    let ext = m_find_ext (List.map snd l) in
    (match m_ll_encode (List.map fst l) ext with
     | Ok b -> outc obs_lookups (m_ll_read b N0 ext)
     | Panic -> A "panic" | Err -> A "err" | OutOfFuel -> A "fuel")
  | [A "ll-read"; data; pos; ext] ->
    outc obs_lookups (m_ll_read (sx_bytes data) (sx_n pos) (sx_n ext))
  | [A "vr-enc"; fmt; v] ->
    (* fmt = "own": the record's own format *)
    let v = vr_of_sx v in
    let f = (match fmt with A "own" -> m_vr_format v | _ -> sx_n fmt) in
    L [an f; A (hex_of_bytes (m_vr_encode f v)); an (m_vr_encode_len f)]
  | [A "vr-read"; fmt; data] ->
    outc (fun (v, rest) -> L [A "ok"; sx_of_vr v; ai (List.length rest)]) (m_vr_read (sx_n fmt) (sx_bytes data))
  | [A "sub-enc"; st] -> sub_encode st
  | [A "sub-read"; tbl; tp; data; pos] ->
    outc (fun st -> match st with
        | S1 s1 -> L [A "ok"; sx_of_subtable s1]
        | SGpos21 gs -> L [A "ok"; L [A "gpos21"; sx_of_groups gs]])
      (m_sub_read2 (atom tbl = "gpos") (sx_bytes data) (sx_n pos) (sx_n tp))
  | [A "fl-enc"; fl] ->
    let fl = List.map (fun f -> match f with
      | L [t; ls] -> (sx_bytes t, ns_of_sx ls) | _ -> failwith "bad feature") (lst fl) in
    outc (fun b -> L [A "ok"; A (hex_of_bytes b)]) (m_fl_encode fl)
  | [A "fl-read"; data; pos] ->
    outc (fun fl -> L [A "ok"; L (List.map (fun (t, ls) -> L [A (hex_of_bytes t); sx_of_ns ls]) fl)])
      (m_fl_read (sx_bytes data) (sx_n pos))
  | [A "gdef-enc"; gc; mac; mgs] ->
    outc (fun b -> L [A "ok"; A (hex_of_bytes b)])
      (m_gdef_encode { g_gc = opt_cd_of_sx gc; g_mac = opt_cd_of_sx mac; g_sets = opt_sets_of_sx mgs })
  | [A "gdef-read"; data] ->
    outc (fun t -> L [A "ok"; sx_of_opt_cd t.g_gc; sx_of_opt_cd t.g_mac; sx_of_opt_sets t.g_sets])
      (m_gdef_read (sx_bytes data))
  | [A "sl-enc"; es] ->
    outc (fun b -> L [A "ok"; A (hex_of_bytes b)]) (m_sl_encode (entries_of_sx es))
  | [A "sl-read"; data; pos; known] ->
    (* known = ((xSCRIPT xLANG) ...): the pairs otfToBCP47 converts (abstracted tag conversion) *)
    let known = List.map (fun p -> match p with L [A s; A l] -> (s, l) | _ -> failwith "bad pair") (lst known) in
    let conv_ok s l = List.mem (hex_of_bytes s, hex_of_bytes l) known in
    outc (fun l -> L [A "ok"; sx_of_assignments l]) (m_sl_read conv_ok (sx_bytes data) (sx_n pos))
  | _ -> failwith "bad case")
