(* C01 driver.
   case "cycle ... FONT"   : prints (ok TABLES FONT1) | err | panic for M_cycle
   case "merge ... TABLES" : prints (ok FONT) | err | panic for M_read_merge
   Only the first atom and the last item of a case are read; the items in
   between tell the harness how to rebuild the input (template, mutations). *)

(* numbers that may exceed OCaml's int (CodePageRange is a uint64) *)
let n_of_decstring (s : string) : n =
  let ten = n_of_int 10 in
  let acc = ref N0 in
  String.iter (fun c ->
    if c < '0' || c > '9' then failwith ("bad number " ^ s);
    acc := N.add (N.mul !acc ten) (n_of_int (Char.code c - 48))) s;
  !acc
let string_of_n (x : n) : string =
  let l = print_dec x in
  String.init (List.length l) (fun i -> Char.chr (int_of_n (List.nth l i)))
let bn x = n_of_decstring (atom x)
let abn x = A (string_of_n x)
(* shadow conv.ml's int-based readers/printers: head timestamps are int64 *)
let sx_z x =
  let s = atom x in
  if String.length s > 0 && s.[0] = '-' then
    (match n_of_decstring (String.sub s 1 (String.length s - 1)) with N0 -> Z0 | Npos p -> Zneg p)
  else (match n_of_decstring s with N0 -> Z0 | Npos p -> Zpos p)
let az (z : z) : sx =
  match z with Z0 -> A "0" | Zpos p -> A (string_of_n (Npos p)) | Zneg p -> A ("-" ^ string_of_n (Npos p))
let sx_n x = bn x
let an x = abn x

let opt (f : sx -> 'a) (x : sx) : 'a option = match x with A "-" -> None | _ -> Some (f x)
let aopt (f : 'a -> sx) (x : 'a option) : sx = match x with None -> A "-" | Some v -> f v
let zl x = List.map sx_z (lst x)
let azl l = L (List.map az l)
let astr s = A (hex_of_bytes s)

let outl_of_sx (x : sx) : outl =
  match x with
  | L [A "ol"; cff; id; n; hs; ws; names; maxp] ->
    { ol_cff = sx_bool cff; ol_id = bn id; ol_n = sx_n n; ol_heights = zl hs;
      ol_widths = opt zl ws; ol_names = opt bn names; ol_maxp = opt bn maxp }
  | _ -> failwith "bad outl"
let sx_of_outl (o : outl) : sx =
  L [A "ol"; ab o.ol_cff; abn o.ol_id; an o.ol_n; azl o.ol_heights;
     aopt azl o.ol_widths; aopt abn o.ol_names; aopt abn o.ol_maxp]

let cmap_of_sx (x : sx) : cmapv =
  match x with
  | L [A "cm"; id; best; h; xx; lig] ->
    { cm_id = bn id; cm_best = sx_bool best; cm_H = sx_n h; cm_x = sx_n xx; cm_lig = opt bn lig }
  | _ -> failwith "bad cmap"
let sx_of_cmap (c : cmapv) : sx =
  L [A "cm"; abn c.cm_id; ab c.cm_best; an c.cm_H; an c.cm_x; aopt abn c.cm_lig]

let font_of_sx (x : sx) : font =
  match x with
  | L [A "font"; family; width; weight; L [r; b; i; o; s; c]; cpr; version; ctime; mtime;
       descr; sample; copyright; trademark; license; licurl; perm; upm;
       asc; desc; gap; cap; xh; angle; upos; uthick; ol; cm; gdef; gsub; gpos] ->
    { f_family = sx_bytes family; f_width = sx_n width; f_weight = sx_n weight;
      f_regular = sx_bool r; f_bold = sx_bool b; f_italic = sx_bool i; f_oblique = sx_bool o;
      f_serif = sx_bool s; f_script = sx_bool c;
      f_cpr = bn cpr; f_version = sx_n version; f_ctime = opt sx_z ctime; f_mtime = opt sx_z mtime;
      f_descr = sx_bytes descr; f_sample = sx_bytes sample; f_copyright = sx_bytes copyright;
      f_trademark = sx_bytes trademark; f_license = sx_bytes license; f_licurl = sx_bytes licurl;
      f_perm = sx_z perm; f_upm = sx_n upm; f_asc = sx_z asc; f_desc = sx_z desc; f_gap = sx_z gap;
      f_cap = sx_z cap; f_xh = sx_z xh; f_angle = sx_z angle; f_upos = sx_z upos; f_uthick = sx_z uthick;
      f_outl = outl_of_sx ol; f_cmap = opt cmap_of_sx cm;
      f_gdef = opt bn gdef; f_gsub = opt bn gsub; f_gpos = opt bn gpos }
  | _ -> failwith "bad font"
let sx_of_font (f : font) : sx =
  L [A "font"; astr f.f_family; an f.f_width; an f.f_weight;
     L [ab f.f_regular; ab f.f_bold; ab f.f_italic; ab f.f_oblique; ab f.f_serif; ab f.f_script];
     abn f.f_cpr; an f.f_version; aopt az f.f_ctime; aopt az f.f_mtime;
     astr f.f_descr; astr f.f_sample; astr f.f_copyright; astr f.f_trademark; astr f.f_license;
     astr f.f_licurl; az f.f_perm; an f.f_upm; az f.f_asc; az f.f_desc; az f.f_gap; az f.f_cap;
     az f.f_xh; az f.f_angle; az f.f_upos; az f.f_uthick; sx_of_outl f.f_outl;
     aopt sx_of_cmap f.f_cmap; aopt abn f.f_gdef; aopt abn f.f_gsub; aopt abn f.f_gpos]

let head_of_sx = function
  | L [A "head"; rev; upm; cr; md; b; i] ->
    { h_rev = sx_n rev; h_upm = sx_n upm; h_created = opt sx_z cr; h_modified = opt sx_z md;
      h_bold = sx_bool b; h_italic = sx_bool i }
  | _ -> failwith "bad head"
let sx_of_head h =
  L [A "head"; an h.h_rev; an h.h_upm; aopt az h.h_created; aopt az h.h_modified; ab h.h_bold; ab h.h_italic]

let os2_of_sx = function
  | L [A "os2"; we; wi; b; i; r; o; asc; desc; gap; cap; xh; fc; cpr; perm] ->
    { o_weight = sx_n we; o_width = sx_n wi; o_bold = sx_bool b; o_italic = sx_bool i;
      o_regular = sx_bool r; o_oblique = sx_bool o; o_asc = sx_z asc; o_desc = sx_z desc;
      o_gap = sx_z gap; o_cap = sx_z cap; o_xh = sx_z xh; o_fclass = sx_z fc; o_cpr = bn cpr;
      o_perm = sx_z perm }
  | _ -> failwith "bad os2"
let sx_of_os2 o =
  L [A "os2"; an o.o_weight; an o.o_width; ab o.o_bold; ab o.o_italic; ab o.o_regular; ab o.o_oblique;
     az o.o_asc; az o.o_desc; az o.o_gap; az o.o_cap; az o.o_xh; az o.o_fclass; abn o.o_cpr; az o.o_perm]

let name_of_sx = function
  | L [A "name"; fam; sub; descr; copy; tm; lic; licurl; idp; idd; full; ver; ps; sample] ->
    { n_family = sx_bytes fam; n_subfamily = sx_bytes sub; n_descr = sx_bytes descr;
      n_copyright = sx_bytes copy; n_trademark = sx_bytes tm; n_license = sx_bytes lic;
      n_licurl = sx_bytes licurl; n_ident_prefix = sx_bytes idp; n_ident_day = opt sx_z idd;
      n_fullname = sx_bytes full; n_version = sx_bytes ver; n_psname = sx_bytes ps;
      n_sample = sx_bytes sample }
  | _ -> failwith "bad name"
let sx_of_name n =
  L [A "name"; astr n.n_family; astr n.n_subfamily; astr n.n_descr; astr n.n_copyright;
     astr n.n_trademark; astr n.n_license; astr n.n_licurl; astr n.n_ident_prefix;
     aopt az n.n_ident_day; astr n.n_fullname; astr n.n_version; astr n.n_psname; astr n.n_sample]

let names_of_sx = function
  | L [A "names"; win; wc; mac; mc] ->
    { ns_win = opt name_of_sx win; ns_winconf = sx_n wc; ns_mac = opt name_of_sx mac; ns_macconf = sx_n mc }
  | _ -> failwith "bad names"

let post_of_sx = function
  | L [A "post"; a; up; ut; fx; names] ->
    { p_angle = sx_z a; p_upos = sx_z up; p_uthick = sx_z ut; p_fixed = sx_bool fx; p_names = opt bn names }
  | _ -> failwith "bad post"
let sx_of_post p = L [A "post"; az p.p_angle; az p.p_upos; az p.p_uthick; ab p.p_fixed; aopt abn p.p_names]

let hmtx_of_sx = function
  | L [A "hmtx"; asc; desc; gap; a; ws] ->
    { x_asc = sx_z asc; x_desc = sx_z desc; x_gap = sx_z gap; x_angle = sx_z a; x_widths = opt zl ws }
  | _ -> failwith "bad hmtx"
let sx_of_hmtx x = L [A "hmtx"; az x.x_asc; az x.x_desc; az x.x_gap; az x.x_angle; aopt azl x.x_widths]

let cffinfo_of_sx = function
  | L [A "cffinfo"; fn; full; fam; we; ver; copy; notice; a; up; ut; fx; fmz; upm] ->
    { c_fontname = sx_bytes fn; c_fullname = sx_bytes full; c_family = sx_bytes fam;
      c_weight = sx_bytes we; c_version = sx_bytes ver; c_copyright = sx_bytes copy;
      c_notice = sx_bytes notice; c_angle = sx_z a; c_upos = sx_z up; c_uthick = sx_z ut;
      c_fixed = sx_bool fx; c_fm0_zero = sx_bool fmz; c_upm_from_fm = sx_n upm }
  | _ -> failwith "bad cffinfo"
let sx_of_cffinfo c =
  L [A "cffinfo"; astr c.c_fontname; astr c.c_fullname; astr c.c_family; astr c.c_weight;
     astr c.c_version; astr c.c_copyright; astr c.c_notice; az c.c_angle; az c.c_upos; az c.c_uthick;
     ab c.c_fixed; ab c.c_fm0_zero; an c.c_upm_from_fm]

let maxp_of_sx = function
  | L [n; ttf] -> (sx_n n, opt bn ttf)
  | _ -> failwith "bad maxp"
let sx_of_maxp (n, ttf) = L [an n; aopt abn ttf]

let tables_of_sx = function
  | L [A "tables"; cff; hd; hm; mx; o2; cm; nm; po; ci; ol; gdef; gsub; gpos; kern] ->
    { t_cff = sx_bool cff; t_hd = opt head_of_sx hd; t_hm = opt hmtx_of_sx hm; t_maxp = opt maxp_of_sx mx;
      t_o2 = opt os2_of_sx o2; t_cm = opt cmap_of_sx cm; t_nm = opt names_of_sx nm; t_po = opt post_of_sx po;
      t_ci = opt cffinfo_of_sx ci; t_ol = outl_of_sx ol; t_gdef = opt bn gdef; t_gsub = opt bn gsub;
      t_gpos = opt bn gpos; t_kern = opt bn kern }
  | _ -> failwith "bad tables"

(* tables as observed from a written file: the name slot shows the table
   Read selects *)
let sx_of_hmtx_obs x = L [A "hmtx"; az x.x_asc; az x.x_desc; az x.x_gap; A "_"; aopt azl x.x_widths]
let sx_of_cffinfo_obs c =
  L [A "cffinfo"; astr c.c_fontname; astr c.c_fullname; astr c.c_family; astr c.c_weight;
     astr c.c_version; astr c.c_copyright; astr c.c_notice; A "_"; A "_"; A "_";
     ab c.c_fixed; A "_"; A "_"]
let sx_of_tables_obs (t : tables) : sx =
  L [A "tables"; ab t.t_cff; aopt sx_of_head t.t_hd; aopt sx_of_hmtx_obs t.t_hm; aopt sx_of_maxp t.t_maxp;
     aopt sx_of_os2 t.t_o2; aopt sx_of_cmap t.t_cm; aopt sx_of_name (choose_name t.t_nm);
     aopt sx_of_post t.t_po; aopt sx_of_cffinfo_obs t.t_ci; sx_of_outl t.t_ol;
     aopt abn t.t_gdef; aopt abn t.t_gsub; aopt abn t.t_gpos; aopt abn t.t_kern]

let rec last = function [x] -> x | _ :: l -> last l | [] -> failwith "empty case"
let rec last2 = function [x; _] -> x | _ :: l -> last2 l | [] -> failwith "short case"

(* (wctx (days xMDAY xCDAY) (extra TAG ...)) : what Write reads besides the
   font value: the two day strings time.Format delivers, and the keys of
   glyf.Outlines.Tables *)
let wctx_of_sx = function
  | L [A "wctx"; L [A "days"; md; cd]; L (A "extra" :: tags); range; L [A "bbox"; lly; ury]] ->
    let rg = (match range with
      | A "-" -> None
      | L [A "range"; lo; hi] -> Some (sx_z lo, sx_z hi)
      | _ -> failwith "bad range") in
    (sx_bytes md, sx_bytes cd, List.map sx_n tags, rg, sx_z lly, sx_z ury)
  | _ -> failwith "bad wctx"

let sx_of_rec (r : nrec) : sx =
  L [an r.r_platform; an r.r_encoding; an r.r_language; an r.r_nameid; an r.r_off; an r.r_len]

let () = main_loop (fun c ->
  match c with
  | A "cycle" :: rest ->
    let f = font_of_sx (last rest) in
    (match m_cycle f with
     | Ok (t, f1) ->
       (* the theorem read_write_normal_form, re-evaluated on this input *)
       if in_range f && normalize f <> f1 then
         L [A "normalize-disagrees"; sx_of_font (normalize f); sx_of_font f1]
       else if in_range f && canonical f && f1 <> f then
         L [A "canonical-changed"; sx_of_font f1]
       else begin
         let (mday, cday, extra, range, lly, ury) = wctx_of_sx (last2 rest) in
         let os2x = (match m_os2_derived_of f range lly ury with
           | None -> A "-"
           | Some x -> L [A "os2x"; az x.x_avg; az x.x_first; az x.x_last; az x.x_winasc; az x.x_windesc]) in
         let tags = L (A "tags" :: List.map an (m_written_tags t extra)) in
         let nametab =
           match m_name_table_ascii c01_name_appleBCP c01_name_msBCP f mday cday with
           | None -> A "-"
           | Some (recs, storage) -> L [A "nametab"; L (List.map sx_of_rec recs); astr storage] in
         L [A "ok"; sx_of_tables_obs t; sx_of_font f1; tags; nametab; os2x]
       end
     | Err -> A "err" | Panic -> A "panic" | OutOfFuel -> A "fuel")
  | A "merge" :: rest ->
    (match m_read_merge (tables_of_sx (last rest)) with
     | Ok f1 -> L [A "ok"; sx_of_font f1]
     | Err -> A "err" | Panic -> A "panic" | OutOfFuel -> A "fuel")
  | _ -> failwith "bad case")
