(* C04B driver.
   rnum (x ...)                       -> the number encoder assembled from the regenerated pieces
   build W (calls)                    -> the glyph after the builder calls
   bcs dflt nom W (calls) xEMITTED    -> the built glyph; is the emitted charstring one the
                                         model can produce; what S_t2 makes of it
   ext (cmds)                         -> Glyph.Extent (cmds may hold masks: (hm xHEX) / (cm xHEX))
   sw (w ...)                         -> selectWidths
   fontw CID NFD (w ...) (fd ...) (seed ...)
                                      -> Private DICT width entries per Font DICT, width
                                         operand per glyph, widths the reader's rule gives *)
let call_of_sx (x : sx) : bcall =
  match x with
  | L [A "m"; a; b] -> BMove (sx_z a, sx_z b)
  | L [A "l"; a; b] -> BLine (sx_z a, sx_z b)
  | L [A "c"; a; b; c; d; e; f] -> BCurve (sx_z a, sx_z b, sx_z c, sx_z d, sx_z e, sx_z f)
  | _ -> failwith "bad call"

let cmd_of_sx (x : sx) : cmd =
  match x with
  | L [A "m"; a; b] -> CMove (sx_z a, sx_z b)
  | L [A "l"; a; b] -> CLine (sx_z a, sx_z b)
  | L [A "c"; a; b; c; d; e; f] -> CCurve (sx_z a, sx_z b, sx_z c, sx_z d, sx_z e, sx_z f)
  | L [A "hm"; b] -> CHint (sx_bytes b)
  | L [A "cm"; b] -> CCntr (sx_bytes b)
  | _ -> failwith "bad cmd"

let sx_of_cmd (c : cmd) : sx =
  match c with
  | CMove (x, y) -> L [A "m"; az x; az y]
  | CLine (x, y) -> L [A "l"; az x; az y]
  | CCurve (a, b, c, d, e, f) -> L [A "c"; az a; az b; az c; az d; az e; az f]
  | CHint bs -> L [A "hm"; A (hex_of_bytes bs)]
  | CCntr bs -> L [A "cm"; A (hex_of_bytes bs)]

let sx_of_glyph (g : glyph) : sx =
  L [A "ok"; az g.g_width; L (List.map az g.g_hstem); L (List.map az g.g_vstem);
     L (List.map sx_of_cmd g.g_cmds)]

let sx_of_outcome (o : outcome) : sx =
  match o with
  | T2Ok g -> sx_of_glyph g
  | T2Err _ -> A "err"
  | T2Unspec -> A "unspec"
  | T2Fuel -> A "fuel"

let sx_of_entry (e : z option) : sx = match e with Some v -> az v | None -> A "none"

let () = main_loop (fun c ->
  match c with
  | [A "rnum"; xs] ->
    L (List.map (fun x -> match r_enc_number (sx_z x) with
                          | Some e -> L [az (fst e); A (hex_of_bytes (snd e))]
                          | None -> A "none") (lst xs))
  | [A "build"; w; calls] ->
    (match m_build (sx_z w) (List.map call_of_sx (lst calls)) with
     | Some g -> sx_of_glyph g
     | None -> A "none")
  | [A "bcs"; dflt; nom; w; calls; emitted] ->
    (match m_build_check (sx_z w) (sx_z dflt) (sx_z nom) (List.map call_of_sx (lst calls)) (sx_bytes emitted) with
     | Some ((g, ok), o) -> L [sx_of_glyph g; L [A "valid"; ab ok; sx_of_outcome o]]
     | None -> A "none")
  | [A "ext"; cmds] ->
    let (((a, b), c), d) = m_extent (List.map cmd_of_sx (lst cmds)) in
    L [az a; az b; az c; az d]
  | [A "sw"; ws] ->
    let (d, n) = m_select_widths (List.map sx_z (lst ws)) in
    L [az d; (match n with Some v -> az v | None -> A "inf")]
  | [A "fontw"; _; nfd; ws; fds; _] ->
    let widths = List.map sx_z (lst ws) in
    let fdsel = List.map sx_nat (lst fds) in
    let (privs, ops) = m_font_write_widths (sx_nat nfd) widths in
    let rd = s_font_read_widths privs fdsel ops in
    L [L (List.map (fun (d, n) -> L [sx_of_entry d; sx_of_entry n]) privs);
       L (List.map sx_of_entry ops);
       L (List.map az rd)]
  | _ -> failwith "bad case")
