(* C14 driver: one case per line, selector first.
     macdec xBYTES            -> (ok (r ...)) | panic
     macenc (r ...)           -> xBYTES
     u16enc (r ...)           -> xBYTES
     u16dec xBYTES            -> (r ...)
     postenc (italic upos uthick fixed) nil|(xNAME ...)   -> xBYTES
     postrep (italic upos uthick fixed) ((n xNAME) ...)     -> xBYTES   (run-length form of postenc)
     postread xBYTES          -> (ok (italic upos uthick fixed) nil|(xNAME ...)) | err | panic
     nameenc weid MAC WIN     -> xBYTES       (language tables visited in ascending id order)
     nameview weid MAC WIN    -> (version numRec storageOffset len ((plat enc lang id xBYTES) ...))
     namedec xBYTES           -> (ok MAC WIN) | err | panic
     otfpair xSCRIPT xLANG    -> (ok xEXT xSCRIPT xLANG) | err   (x extension string predicted under
                                 the x/text assumption, and the pair bcp47ToOtf recovers from it)
   MAC, WIN = ((xTAG ((id (r ...)) ...)) ...); rune lists may contain (rep n r), tables (idrange start count (r ...)) *)

(* a rune list may contain run-length items (rep n r) *)
let runes x = List.concat_map (fun e -> match e with
    | L [A "rep"; n; r] -> let v = sx_n r in List.init (sx_int n) (fun _ -> v)
    | _ -> [sx_n e]) (lst x)
let sx_runes l = L (List.map an l)

(* a table may contain (idrange start count RUNES): count consecutive ids with the same string *)
let table_of_sx x =
  List.concat_map (fun e -> match e with
    | L [A "idrange"; st; c; v] ->
        let s = sx_int st and rv = runes v in List.init (sx_int c) (fun i -> (n_of_int (s + i), rv))
    | L [id; v] -> [(sx_n id, runes v)]
    | _ -> failwith "bad table entry") (lst x)
let tables_of_sx x =
  List.map (fun e -> match e with
    | L [tag; t] -> (sx_bytes tag, table_of_sx t)
    | _ -> failwith "bad tables entry") (lst x)
let sx_of_tables tt =
  L (List.map (fun (tag, t) ->
       L [A (hex_of_bytes tag); L (List.map (fun (id, v) -> L [an id; sx_runes v]) t)]) tt)

let hdr_of_sx x = match x with
  | L [i; u; t; f] -> { ph_italic = sx_z i; ph_upos = sx_z u; ph_uthick = sx_z t; ph_fixed = sx_bool f }
  | _ -> failwith "bad post header"
let sx_of_hdr h = L [az h.ph_italic; az h.ph_upos; az h.ph_uthick; ab h.ph_fixed]
let names_of_sx x = match x with
  | A "nil" -> None
  | L l -> Some (List.map sx_bytes l)
  | _ -> failwith "bad names"
let sx_of_names o = match o with
  | None -> A "nil"
  | Some l -> L (List.map (fun b -> A (hex_of_bytes b)) l)

let out_of f o = match o with
  | Ok a -> f a
  | Err -> A "err"
  | Panic -> A "panic"
  | OutOfFuel -> A "fuel"

let () = main_loop (fun c ->
  match c with
  | [A "macdec"; b] -> out_of (fun l -> L [A "ok"; sx_runes l]) (m_mac_decode (sx_bytes b))
  | [A "macenc"; r] -> A (hex_of_bytes (m_mac_encode (runes r)))
  | [A "u16enc"; r] -> A (hex_of_bytes (m_utf16_encode (runes r)))
  | [A "u16dec"; b] -> sx_runes (m_utf16_decode (sx_bytes b))
  | [A "postenc"; h; names] -> A (hex_of_bytes (m_post_encode (hdr_of_sx h) (names_of_sx names)))
  | [A "postrep"; h; runs] ->
      let names = List.concat_map (fun r -> match r with
        | L [n; nm] -> let b = sx_bytes nm in List.init (sx_int n) (fun _ -> b)
        | _ -> failwith "bad run") (lst runs) in
      A (hex_of_bytes (m_post_encode (hdr_of_sx h) (Some names)))
  | [A "postread"; b] ->
      out_of (fun (h, names) -> L [A "ok"; sx_of_hdr h; sx_of_names names]) (m_post_read (sx_bytes b))
  | [A "nameenc"; weid; m; w] ->
      let inf = { i_mac = tables_of_sx m; i_win = tables_of_sx w } in
      A (hex_of_bytes (m_name_encode name_appleBCP name_msBCP (sx_n weid) inf))
  | [A "nameview"; weid; m; w] ->
      let inf = { i_mac = tables_of_sx m; i_win = tables_of_sx w } in
      let ((((v, nr), so), len), recs) = name_view (m_name_encode name_appleBCP name_msBCP (sx_n weid) inf) in
      L [an v; an nr; an so; an len;
         L (List.map (fun ((((p, e), l), i), b) -> L [an p; an e; an l; an i; A (hex_of_bytes b)]) recs)]
  | [A "namedec"; b] ->
      out_of (fun inf -> let ci = canon_info inf in
               L [A "ok"; sx_of_tables ci.i_mac; sx_of_tables ci.i_win]) (m_name_decode (sx_bytes b))
  | [A "otfpair"; sc; la] ->
      (match m_otf_pair (sx_bytes sc) (sx_bytes la) with
       | Some (ext, (s2, l2)) -> L [A "ok"; A (hex_of_bytes ext); A (hex_of_bytes s2); A (hex_of_bytes l2)]
       | None -> A "err")
  | _ -> failwith "bad case")
