(* C19B driver (part B of C19: GPOS2 and lookup lists mixing GPOS1-4).
   Case lines (S-expressions):
     parse  CLS FONT TEXT        -> (ok XLOOKUPS) | (err line) | panic | fuel | unmodelled
     egpos  CLS FONT XLOOKUPS    -> (text c c c ...) | panic
   CLS, FONT, TEXT and the subtable kinds of GSUB1-6, GPOS1, GPOS3, GPOS4 are
   those of the main driver (c19_driver.ml; the conversion functions are
   repeated here because every driver is a single file).  New:
     XLOOKUPS = ((type flags (SUB ...)) ...)
     SUB  = ... | (p21 (((left right) PADJ) ...))
                | (p22 (cov) ((glyph class) ...) ((glyph class) ...) ((PADJ ...) ...))
     PADJ = (ADJ ADJ)        ADJ = _ | (x y dx)
   A lookup of type 2 whose subtables are all p21 / p22 is a pair adjustment
   lookup (XPair); every other lookup is handed to the main model (XOld). *)

let ns x = List.map sx_n (lst x)
let zs_of_adj x = match x with
  | A "_" -> None
  | L [a; b; c] -> Some { v_x = sx_z a; v_y = sx_z b; v_dx = sx_z c }
  | _ -> failwith "bad adj"

let ucls_of_sx (x : sx) : uclass =
  let tbl = Hashtbl.create 16 in
  List.iter (fun p -> match p with
    | L [r; f] -> Hashtbl.replace tbl (sx_int r) (sx_int f)
    | _ -> failwith "bad cls") (lst x);
  let bit b c = match Hashtbl.find_opt tbl (int_of_n c) with Some f -> f land b <> 0 | None -> false in
  { u_letter = bit 1; u_digit = bit 2; u_space = bit 4; u_print = bit 8 }

let font_of_sx (x : sx) : font =
  match x with
  | L [names; cm] ->
    { f_names = List.map ns (lst names);
      f_cmap = List.map (fun p -> match p with L [r; g] -> (sx_n r, sx_n g) | _ -> failwith "bad cmap") (lst cm) }
  | _ -> failwith "bad font"

let acts_of_sx x = List.map (fun p -> match p with L [a; b] -> (sx_n a, sx_n b) | _ -> failwith "bad action") (lst x)
let rules_of_sx x =
  List.map (fun rs -> List.map (fun r -> match r with L [i; a] -> (ns i, acts_of_sx a) | _ -> failwith "bad rule") (lst rs)) (lst x)
let crules_of_sx x =
  List.map (fun rs -> List.map (fun r -> match r with
    | L [b; i; l; a] -> (((ns b, ns i), ns l), acts_of_sx a) | _ -> failwith "bad chain rule") (lst rs)) (lst x)
let anchor_of_sx x = match x with L [a; b] -> (sx_z a, sx_z b) | _ -> failwith "bad anchor"
let sx_of_anchor (a, b) = L [az a; az b]
let sub_of_sx (x : sx) : subtable =
  match x with
  | L [A "p31"; cov; recs] ->
    Pos (Gpos3_1 (ns cov, List.map (fun r -> match r with L [e; x] -> (anchor_of_sx e, anchor_of_sx x) | _ -> failwith "bad record") (lst recs)))
  | L [A "p41"; mc; ma; bc; ba] ->
    Pos (Gpos4_1 (ns mc, List.map (fun r -> match r with L [c; x; y] -> (sx_n c, (sx_z x, sx_z y)) | _ -> failwith "bad mark") (lst ma),
                  ns bc, List.map (fun r -> List.map anchor_of_sx (lst r)) (lst ba)))
  | L [A "h1"; cov; rules] -> Chn (Chain1 (ns cov, crules_of_sx rules))
  | L [A "h2"; cov; b; i; l; rules] ->
    Chn (Chain2 (ns cov, List.map ns (lst b), List.map ns (lst i), List.map ns (lst l), crules_of_sx rules))
  | L [A "h3"; b; i; l; acts] -> Chn (Chain3 (List.map ns (lst b), List.map ns (lst i), List.map ns (lst l), acts_of_sx acts))
  | L [A "c1"; cov; rules] -> Ctx (SeqCtx1 (ns cov, rules_of_sx rules))
  | L [A "c2"; cov; cls; rules] -> Ctx (SeqCtx2 (ns cov, List.map ns (lst cls), rules_of_sx rules))
  | L [A "c3"; sets; acts] -> Ctx (SeqCtx3 (List.map ns (lst sets), acts_of_sx acts))
  | L [A "g11"; cov; d] -> Gsub1_1 (ns cov, sx_n d)
  | L [A "g12"; cov; s] -> Gsub1_2 (ns cov, ns s)
  | L [A "g21"; cov; r] -> Gsub2_1 (ns cov, List.map ns (lst r))
  | L [A "g31"; cov; r] -> Gsub3_1 (ns cov, List.map ns (lst r))
  | L [A "g41"; cov; r] ->
    Gsub4_1 (ns cov, List.map (fun ls -> List.map (fun lg -> match lg with
      | L [i; o] -> (ns i, sx_n o) | _ -> failwith "bad lig") (lst ls)) (lst r))
  | L [A "p11"; cov; a] -> Gpos1_1 (ns cov, zs_of_adj a)
  | L [A "p12"; cov; a] -> Gpos1_2 (ns cov, List.map zs_of_adj (lst a))
  | _ -> failwith "bad subtable"

let lookups_of_sx (x : sx) : lookup list =
  List.map (fun l -> match l with
    | L [ty; fl; subs] -> { l_type = sx_n ty; l_flags = sx_n fl; l_subs = List.map sub_of_sx (lst subs) }
    | _ -> failwith "bad lookup") (lst x)

let lns l = L (List.map an l)
let sx_of_adj = function None -> A "_" | Some v -> L [az v.v_x; az v.v_y; az v.v_dx]
let sx_of_acts a = L (List.map (fun (x, y) -> L [an x; an y]) a)
let sx_of_rules rules = L (List.map (fun rs -> L (List.map (fun (i, a) -> L [lns i; sx_of_acts a]) rs)) rules)
let sx_of_crules rules =
  L (List.map (fun rs -> L (List.map (fun (((b, i), l), a) -> L [lns b; lns i; lns l; sx_of_acts a]) rs)) rules)
let lls x = L (List.map lns x)
let sx_of_sub = function
  | Pos (Gpos3_1 (cov, recs)) -> L [A "p31"; lns cov; L (List.map (fun (e, x) -> L [sx_of_anchor e; sx_of_anchor x]) recs)]
  | Pos (Gpos4_1 (mc, ma, bc, ba)) ->
    L [A "p41"; lns mc; L (List.map (fun (c, (x, y)) -> L [an c; az x; az y]) ma); lns bc;
       L (List.map (fun r -> L (List.map sx_of_anchor r)) ba)]
  | Chn (Chain1 (cov, rules)) -> L [A "h1"; lns cov; sx_of_crules rules]
  | Chn (Chain2 (cov, b, i, l, rules)) -> L [A "h2"; lns cov; lls b; lls i; lls l; sx_of_crules rules]
  | Chn (Chain3 (b, i, l, acts)) -> L [A "h3"; lls b; lls i; lls l; sx_of_acts acts]
  | Ctx (SeqCtx1 (cov, rules)) -> L [A "c1"; lns cov; sx_of_rules rules]
  | Ctx (SeqCtx2 (cov, cls, rules)) -> L [A "c2"; lns cov; L (List.map lns cls); sx_of_rules rules]
  | Ctx (SeqCtx3 (sets, acts)) -> L [A "c3"; L (List.map lns sets); sx_of_acts acts]
  | Gsub1_1 (cov, d) -> L [A "g11"; lns cov; an d]
  | Gsub1_2 (cov, s) -> L [A "g12"; lns cov; lns s]
  | Gsub2_1 (cov, r) -> L [A "g21"; lns cov; L (List.map lns r)]
  | Gsub3_1 (cov, r) -> L [A "g31"; lns cov; L (List.map lns r)]
  | Gsub4_1 (cov, r) ->
    L [A "g41"; lns cov; L (List.map (fun ls -> L (List.map (fun (i, o) -> L [lns i; an o]) ls)) r)]
  | Gpos1_1 (cov, a) -> L [A "p11"; lns cov; sx_of_adj a]
  | Gpos1_2 (cov, a) -> L [A "p12"; lns cov; L (List.map sx_of_adj a)]
let sx_of_lookups ll =
  L (List.map (fun l -> L [an l.l_type; an l.l_flags; L (List.map sx_of_sub l.l_subs)]) ll)


(* ---- GPOS2 ---- *)
let padj_of_sx x = match x with L [a; b] -> (zs_of_adj a, zs_of_adj b) | _ -> failwith "bad padj"
let sx_of_padj (a, b) = L [sx_of_adj a; sx_of_adj b]
let cls_of_sx x = List.map (fun p -> match p with L [g; c] -> (sx_n g, sx_n c) | _ -> failwith "bad class entry") (lst x)
let sx_of_cls m = L (List.map (fun (g, c) -> L [an g; an c]) m)
let is_pair_sx x = match x with L (A "p21" :: _) | L (A "p22" :: _) -> true | _ -> false
let psub_of_sx x = match x with
  | L [A "p21"; pairs] ->
    Gpos2_1 (List.map (fun e -> match e with
      | L [L [a; b]; pa] -> ((sx_n a, sx_n b), padj_of_sx pa) | _ -> failwith "bad pair") (lst pairs))
  | L [A "p22"; cov; c1; c2; adj] ->
    Gpos2_2 (ns cov, cls_of_sx c1, cls_of_sx c2, List.map (fun r -> List.map padj_of_sx (lst r)) (lst adj))
  | _ -> failwith "bad pair subtable"
let sx_of_psub = function
  | Gpos2_1 pairs -> L [A "p21"; L (List.map (fun ((a, b), pa) -> L [L [an a; an b]; sx_of_padj pa]) pairs)]
  | Gpos2_2 (cov, c1, c2, adj) ->
    L [A "p22"; lns cov; sx_of_cls c1; sx_of_cls c2; L (List.map (fun r -> L (List.map sx_of_padj r)) adj)]

let xlookups_of_sx (x : sx) : xlookup list =
  List.map (fun l -> match l with
    | L [ty; fl; subs] ->
      let sl = lst subs in
      if sx_int ty = 2 && List.for_all is_pair_sx sl then XPair (sx_n fl, List.map psub_of_sx sl)
      else XOld { l_type = sx_n ty; l_flags = sx_n fl; l_subs = List.map sub_of_sx sl }
    | _ -> failwith "bad lookup") (lst x)
let sx_of_xlookups ll =
  L (List.map (fun l -> match l with
    | XOld l -> L [an l.l_type; an l.l_flags; L (List.map sx_of_sub l.l_subs)]
    | XPair (fl, subs) -> L [ai 2; an fl; L (List.map sx_of_psub subs)]) ll)

let sx_of_xresult = function
  | POk ll -> L [A "ok"; sx_of_xlookups ll]
  | PErr l -> L [A "err"; an l]
  | PPanic -> A "panic"
  | PFuel -> A "fuel"
  | PUnmodelled -> A "unmodelled"

let () = main_loop (fun c ->
  match c with
  | [A "parse"; cls; font; text] ->
    sx_of_xresult (m_parse_gpos2 (ucls_of_sx cls) (font_of_sx font) (ns text))
  | [A "egpos"; cls; font; ll] ->
    let xl = xlookups_of_sx ll in
    if m_explain_gpos2_panics xl then A "panic"
    else L (A "text" :: List.map an (m_explain_gpos2 (ucls_of_sx cls) (font_of_sx font) xl))
  | _ -> failwith "bad case")
