(* C09B driver: one case per line, first atom selects the model function.
   SUB   = (f0 x<256 bytes>) | (f4 (k g) ...) | (f12 (k g) ...)    keys ascending
   R     = a rune (any int32)
   O     = a glyph number | panic
   SEGS  = ((first last delta vals) ...)  the segments found in the implementation's
           format-4 output (the model emits along this path and checks that it is a
           path of its own segment graph); () for the other types
   TABLE = ((pid eid lang x<bytes>) ...) | nil

     lk SUB (R ...)                  -> (O ...)                             M_lookup
     range SUB                       -> (low high)                          M_coderange
     rangeord SUB (k ...)            -> (low high)                          M_coderange_order (keys in the given order)
     enum SUB FUEL                   -> fuel | panic | (ok (r g) ...)       M_enumerate
     rt SUB LANG SEGS P E (R ...)    -> panic | (ok x<bytes> PATH GOT)      M_encode, M_get_sub_v (P,E,0)
                                        PATH = 1/0 (format 4: path_ok and size fits), GOT = err | panic | (SUB (O ...))
     get P E x<bytes> (R ...)        -> err | panic | (SUB (O ...) (low high))   M_get_sub_v, M_lookup, M_coderange
     best TABLE (R ...)              -> none | panic | (best SUB (O ...))    M_getbest_v
     install TABLE SUB SEGS (R ...)  -> panic | (ok TABLE' BEST COPY)       M_installcmap on heap {1: TABLE}
                                        TABLE' = the font's table afterwards, BEST as in `best`,
                                        COPY = 1 iff a copy of the font taken before still sees TABLE
     installip TABLE SUB SEGS (R ...) -> the same for the in-place variant (M_installcmap_inplace)
*)
let sx_pairs (x : sx list) : (n * n) list =
  List.map (fun p -> match p with L [k; g] -> (sx_n k, sx_n g) | _ -> failwith "bad pair") x

let sx_sub (x : sx) : sub0 =
  match x with
  | L [A "f0"; d] -> F0 (sx_bytes d)
  | L (A "f4" :: m) -> F4 (sx_pairs m)
  | L (A "f12" :: m) -> F12 (sx_pairs m)
  | _ -> failwith "bad subtable value"

let sub_sx (s : sub0) : sx =
  let pairs m = List.map (fun (k, g) -> L [an k; an g]) m in
  match s with
  | F0 d -> L [A "f0"; A (hex_of_bytes d)]
  | F4 m -> L (A "f4" :: pairs m)
  | F12 m -> L (A "f12" :: pairs m)

let o_sx (o : n outcome) : sx =
  match o with Ok g -> an g | Panic -> A "panic" | Err -> A "err" | OutOfFuel -> A "fuel"

let lookups (s : sub0) (rs : sx) : sx = L (List.map (fun r -> o_sx (m_lookup s (sx_z r))) (lst rs))

let range_sx (s : sub0) : sx = let (a, b) = m_coderange s in L [az a; az b]

let sx_seg (x : sx) : seg4 =
  match x with
  | L [f; l; d; v] -> { s_first = sx_n f; s_last = sx_n l; s_delta = sx_n d; s_vals = sx_bool v }
  | _ -> failwith "bad segment"

(* a Go map[uint16]glyph.ID as a total function (fast path for path_ok) *)
let fun_of_pairs (m : (n * n) list) : n -> n =
  let arr = Array.make 65536 N0 in
  List.iter (fun (k, g) -> let i = int_of_n k in if i < 65536 then arr.(i) <- g) m;
  fun c -> let i = int_of_n c in if i < 65536 then arr.(i) else N0

let le_n (a : n) (b : int) : bool = int_of_n a <= b

let path_flag (s : sub0) (segs : seg4 list) : sx =
  match s with
  | F4 m -> let f = fun_of_pairs m in ab (path_ok f N0 segs && le_n (emit4_size f segs) 65535)
  | _ -> ab true

let sx_table (x : sx) : table option =
  match x with
  | A "nil" -> None
  | L l ->
    Some (table_of_entries (List.map (fun e -> match e with
      | L [p; e; l; d] -> (((sx_n p, sx_n e), sx_n l), sx_bytes d)
      | _ -> failwith "bad table entry") l))
  | _ -> failwith "bad table"

let table_sx (t : table) : sx =
  L (List.map (fun (((p, e), l), d) -> L [an p; an e; an l; A (hex_of_bytes d)]) t)

let best_sx (t : table) (rs : sx) : sx =
  match m_getbest_v t with
  | Ok (_, s) -> L [A "best"; sub_sx s; lookups s rs]
  | Err -> A "none"
  | Panic -> A "panic"
  | OutOfFuel -> A "fuel"

let install (inplace : bool) (tbl : sx) (s : sx) (segs : sx) (rs : sx) : sx =
  let s = sx_sub s in
  let segs = List.map sx_seg (lst segs) in
  let pick _ = segs in
  let (h, f) = match sx_table tbl with
    | None -> ([], { f_cmap = None; f_rest = () })
    | Some t -> ([(n_of_int 1, t)], { f_cmap = Some (n_of_int 1); f_rest = () }) in
  let copy = f in
  let before = view h copy in
  let res = if inplace then m_installcmap_inplace pick h f s else m_installcmap pick h f s in
  match res with
  | Ok (h', f') ->
    let t' = view h' f' in
    L [A "ok"; table_sx t'; best_sx t' rs; ab (table_eqb (view h' copy) before)]
  | Panic -> A "panic"
  | Err -> A "err"
  | OutOfFuel -> A "fuel"

let () = main_loop (fun c ->
  match c with
  | [A "lk"; s; rs] -> lookups (sx_sub s) rs
  | [A "range"; s] -> range_sx (sx_sub s)
  | [A "rangeord"; s; ks] ->
    let (a, b) = m_coderange_order (sx_sub s) (List.map sx_z (lst ks)) in L [az a; az b]
  | [A "enum"; s; fuel] ->
    (match m_enumerate (sx_nat fuel) (sx_sub s) with
     | Ok l -> L (A "ok" :: List.map (fun (r, g) -> L [az r; an g]) l)
     | Panic -> A "panic"
     | Err -> A "err"
     | OutOfFuel -> A "fuel")
  | [A "rt"; s; lang; segs; p; e; rs] ->
    let s = sx_sub s in
    let segs = List.map sx_seg (lst segs) in
    (match m_encode (fun _ -> segs) s (sx_n lang) with
     | Ok b ->
       let got = match m_get_sub_v ((sx_n p, sx_n e), N0) b with
         | Ok s' -> L [sub_sx s'; lookups s' rs]
         | Err -> A "err"
         | Panic -> A "panic"
         | OutOfFuel -> A "fuel" in
       L [A "ok"; A (hex_of_bytes b); path_flag s segs; got]
     | Panic -> A "panic"
     | Err -> A "err"
     | OutOfFuel -> A "fuel")
  | [A "get"; p; e; data; rs] ->
    (match m_get_sub_v ((sx_n p, sx_n e), N0) (sx_bytes data) with
     | Ok s -> L [sub_sx s; lookups s rs; range_sx s]
     | Err -> A "err"
     | Panic -> A "panic"
     | OutOfFuel -> A "fuel")
  | [A "best"; t; rs] ->
    (match sx_table t with
     | None -> A "none"
     | Some t -> best_sx t rs)
  | [A "install"; t; s; segs; rs] -> install false t s segs rs
  | [A "installip"; t; s; segs; rs] -> install true t s segs rs
  | _ -> failwith "bad case")
