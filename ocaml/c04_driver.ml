(* C04 driver.
   num (x ...)                         -> encodeNumber on each scaled value
   args x0 y0 (cmds)                   -> encodeArgs
   edges x0 y0 (cmds)                  -> AppendEdges for every start index
   cs dflt nom width (hs) (vs) (cmds) xEMITTED
                                       -> is the emitted charstring one the model can
                                          produce, and what does S_t2 make of it *)
let cmd_of_sx (x : sx) : cmd =
  match x with
  | L [A "m"; a; b] -> CMove (sx_z a, sx_z b)
  | L [A "l"; a; b] -> CLine (sx_z a, sx_z b)
  | L [A "c"; a; b; c; d; e; f] -> CCurve (sx_z a, sx_z b, sx_z c, sx_z d, sx_z e, sx_z f)
  | L [A "hm"; b] -> CHint (sx_bytes b)
  | L [A "cm"; b] -> CCntr (sx_bytes b)
  | _ -> failwith "bad cmd"

let sx_of_cmd (c : cmd) : sx =
  match c with
  | CMove (x, y) -> L [A "m"; az x; az y]
  | CLine (x, y) -> L [A "l"; az x; az y]
  | CCurve (a, b, c, d, e, f) -> L [A "c"; az a; az b; az c; az d; az e; az f]
  | CHint bs -> L [A "hm"; A (hex_of_bytes bs)]
  | CCntr bs -> L [A "cm"; A (hex_of_bytes bs)]

let sx_of_outcome (o : outcome) : sx =
  match o with
  | T2Ok g -> L [A "ok"; az g.g_width; L (List.map az g.g_hstem); L (List.map az g.g_vstem);
                 L (List.map sx_of_cmd g.g_cmds)]
  | T2Err _ -> A "err"
  | T2Unspec -> A "unspec"
  | T2Fuel -> A "fuel"

let sx_of_enum (e : enum) : sx = L [az (fst e); A (hex_of_bytes (snd e))]

let sx_of_ecmd (c : ecmd) : sx =
  match c with
  | EMove (a, b) | ELine (a, b) -> L [sx_of_enum a; sx_of_enum b]
  | ECurve (a, b, c, d, e, f) -> L (List.map sx_of_enum [a; b; c; d; e; f])
  | EMask (_, bs) -> L [A "mask"; A (hex_of_bytes bs)]

let rec drop n l = if n <= 0 then l else match l with [] -> [] | _ :: t -> drop (n - 1) t

let empty_tab = { t_size = Z0; t_default = []; t_special = [] }

let () = main_loop (fun c ->
  match c with
  | [A "num"; xs] ->
    L (List.map (fun x -> match enc_number (sx_z x) with
                          | Some e -> sx_of_enum e
                          | None -> A "none") (lst xs))
  | [A "args"; x0; y0; cmds] ->
    (match enc_args (sx_z x0) (sx_z y0) (List.map cmd_of_sx (lst cmds)) with
     | Some ecs -> L (List.map sx_of_ecmd ecs)
     | None -> A "none")
  | [A "edges"; x0; y0; cmds] ->
    (match enc_args (sx_z x0) (sx_z y0) (List.map cmd_of_sx (lst cmds)) with
     | None -> A "none"
     | Some ecs ->
       let n = List.length ecs in
       let rec each from acc =
         if from >= n then List.rev acc
         else
           let r = (match m_t2edges ecs (nat_of_int from) with
             | None -> A "panic"
             | Some es -> L (List.map (fun e ->
                 L [L (List.map (fun a -> A (hex_of_bytes (snd a))) e.e_args @ [A (hex_of_bytes (op_bytes e.e_op))]);
                    anat e.e_to]) es)) in
           each (from + 1) (r :: acc) in
       L (each 0 []))
  | [A "cs"; dflt; nom; w; hs; vs; cmds; emitted] ->
    let g = { g_cmds = List.map cmd_of_sx (lst cmds); g_hstem = List.map sx_z (lst hs);
              g_vstem = List.map sx_z (lst vs); g_width = sx_z w } in
    let code = sx_bytes emitted in
    let ok = check_charstring g (sx_z dflt) (sx_z nom) code in
    L [A "valid"; ab ok; sx_of_outcome (s_t2 (sx_z dflt) (sx_z nom) empty_tab empty_tab code)]
  | _ -> failwith "bad case")
