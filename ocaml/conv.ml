(* conv.ml — shared glue between the line-oriented case files and the
   extracted models.  This file is concatenated after "open <Model>" so the
   extracted datatypes nat / positive / n / z are in scope. *)

type sx = A of string | L of sx list

let parse_sx (s : string) : sx list =
  let n = String.length s in
  let pos = ref 0 in
  let rec skip () = while !pos < n && (s.[!pos] = ' ' || s.[!pos] = '\t' || s.[!pos] = '\n' || s.[!pos] = '\r') do incr pos done
  and items closing acc =
    skip ();
    if !pos >= n then (if closing then failwith "unbalanced (" else List.rev acc)
    else if s.[!pos] = ')' then (if closing then (incr pos; List.rev acc) else failwith "unbalanced )")
    else if s.[!pos] = '(' then (incr pos; let l = items true [] in items closing (L l :: acc))
    else begin
      let st = !pos in
      while !pos < n && not (s.[!pos] = ' ' || s.[!pos] = '(' || s.[!pos] = ')' || s.[!pos] = '\t' || s.[!pos] = '\n' || s.[!pos] = '\r') do incr pos done;
      items closing (A (String.sub s st (!pos - st)) :: acc)
    end
  in
  items false []

let rec print_sx (b : Buffer.t) (x : sx) : unit =
  match x with
  | A s -> Buffer.add_string b s
  | L l ->
    Buffer.add_char b '(';
    List.iteri (fun i y -> if i > 0 then Buffer.add_char b ' '; print_sx b y) l;
    Buffer.add_char b ')'

let sx_to_string (x : sx) : string = let b = Buffer.create 256 in print_sx b x; Buffer.contents b

(* ---- numbers ---- *)
let rec pos_of_int (i : int) : positive =
  if i <= 1 then XH else if i land 1 = 0 then XO (pos_of_int (i lsr 1)) else XI (pos_of_int (i lsr 1))
let rec int_of_pos (p : positive) : int =
  match p with XH -> 1 | XO q -> 2 * int_of_pos q | XI q -> 2 * int_of_pos q + 1
let n_of_int (i : int) : n = if i <= 0 then N0 else Npos (pos_of_int i)
let int_of_n (x : n) : int = match x with N0 -> 0 | Npos p -> int_of_pos p
let z_of_int (i : int) : z = if i = 0 then Z0 else if i > 0 then Zpos (pos_of_int i) else Zneg (pos_of_int (-i))
let int_of_z (x : z) : int = match x with Z0 -> 0 | Zpos p -> int_of_pos p | Zneg p -> - (int_of_pos p)
let nat_of_int (i : int) : nat = let rec go k acc = if k <= 0 then acc else go (k - 1) (S acc) in go i O
let int_of_nat (x : nat) : int = let rec go x acc = match x with O -> acc | S y -> go y (acc + 1) in go x 0

let atom = function A s -> s | L _ -> failwith "atom expected"
let lst = function L l -> l | A s -> failwith ("list expected, got " ^ s)
let sx_int x = int_of_string (atom x)
let sx_n x = n_of_int (sx_int x)
let sx_z x = z_of_int (sx_int x)
let sx_nat x = nat_of_int (sx_int x)
let sx_bool x = (atom x = "1" || atom x = "true")

(* bytes: atom "x" followed by hex digits (possibly none) *)
let hexv c = match c with
  | '0'..'9' -> Char.code c - 48 | 'a'..'f' -> Char.code c - 87 | 'A'..'F' -> Char.code c - 55
  | _ -> failwith "bad hex"
let bytes_of_hex (s : string) : n list =
  if String.length s = 0 || s.[0] <> 'x' then failwith ("hex atom expected: " ^ s);
  let m = (String.length s - 1) / 2 in
  let rec go i acc = if i < 0 then acc else go (i - 1) (n_of_int (hexv s.[1 + 2*i] * 16 + hexv s.[2 + 2*i]) :: acc) in
  go (m - 1) []
let hex_of_bytes (l : n list) : string =
  let b = Buffer.create (2 * List.length l + 1) in
  Buffer.add_char b 'x';
  List.iter (fun x -> Buffer.add_string b (Printf.sprintf "%02x" (int_of_n x))) l;
  Buffer.contents b
let sx_bytes x = bytes_of_hex (atom x)

let ai i = A (string_of_int i)
let an x = ai (int_of_n x)
let az x = ai (int_of_z x)
let anat x = ai (int_of_nat x)
let ab b = A (if b then "1" else "0")

(* main loop: one case per input line, one result per output line *)
let main_loop (f : sx list -> sx) : unit =
  (try
    while true do
      let line = input_line stdin in
      if String.length line > 0 && line.[0] <> '#' then begin
        let out = (try sx_to_string (f (parse_sx line)) with
                   | Failure m -> "(driver-error " ^ String.escaped m ^ ")"
                   | Stack_overflow -> "(driver-error stack-overflow)"
                   | Not_found -> "(driver-error not-found)") in
        print_string out; print_newline ()
      end
    done
  with End_of_file -> ())
