(* C06B driver: case = GDEF LOOKUPS ORDER SEQS ; prints for every sequence the
   observation of the extended reference shaper R_shape2 (coq/C06B/Model.v):

     ood                          outside the reference's domain
     (dom GLYPHS)                 the engine must produce GLYPHS
     (out f r n l GLYPHS)         outside the domain where the engine implements
                                  the rules, for the reasons f r n l (0/1):
                                  cursive partner skipped by the lookup flags /
                                  RIGHT_TO_LEFT set / NULL anchor on an adjacent
                                  pair / mark-to-ligature lookup; the rules
                                  give GLYPHS

   GDEF    := nogdef | (gdef ((g c)...) ((g c)...) ((g...)...))
   LOOKUPS := (LOOKUP ...)
   LOOKUP  := (old flags mfs (SUB...))            one of C06's lookups (C06 syntax)
            | (cur flags mfs (CSUB...))           GPOS 3.1
            | (mlig flags mfs (MSUB...))          GPOS 5.1
   CSUB    := ((g ANCHOR ANCHOR) ...)             glyph, entry, exit
   MSUB    := (((g cls x y) ...) ((g ((ANCHOR ...) ...)) ...))
                                                  marks; ligature -> component -> class
   ANCHOR  := none | (x y)
   ORDER   := (li ...)
   SEQS    := ((((gid (text...) x y adv) ...) (comp ...)) ...)
              comp: one number per glyph (component association, 0 = none),
              or the empty list

   The parser of C06's subtables repeats ocaml/c06_driver.ml (glue, not model:
   the constructors are C06's, extracted again into c06b_model.ml). *)

let pair f g x = match x with L [a; b] -> (f a, g b) | _ -> failwith "pair expected"
let glist x = List.map sx_n (lst x)
let cdef x = List.map (pair sx_n sx_n) (lst x)
let acts x = List.map (pair sx_nat sx_nat) (lst x)

let vrec_of x = match x with
  | L [a; b; c; d] -> { vx = sx_z a; vy = sx_z b; va = sx_z c; vbad = sx_bool d }
  | _ -> failwith "bad value record"
let vrec_opt x = match x with A "none" -> None | _ -> Some (vrec_of x)
let pairadj a b = (vrec_of a, vrec_opt b)
let anchor_of x = match x with
  | A "none" -> None
  | L [a; b] -> Some (sx_z a, sx_z b)
  | _ -> failwith "bad anchor"

let crule x = match x with L [i; a] -> (glist i, acts a) | _ -> failwith "bad rule"
let krule x = match x with
  | L [b; i; l; a] -> (((glist b, glist i), glist l), acts a)
  | _ -> failwith "bad chained rule"

let markrec e = match e with
  | L [g; c; x; y] -> (sx_n g, (sx_nat c, (sx_z x, sx_z y)))
  | _ -> failwith "bad mark record"

let sub_of (x : sx) : subtable =
  match x with
  | L [A "s1"; cov; d] -> SSingle1 (glist cov, sx_n d)
  | L [A "s2"; m] -> SSingle2 (List.map (pair sx_n sx_n) (lst m))
  | L [A "mul"; m] -> SMultiple (List.map (pair sx_n glist) (lst m))
  | L [A "alt"; m] -> SAlternate (List.map (pair sx_n glist) (lst m))
  | L [A "lig"; m] ->
    SLigature (List.map (pair sx_n (fun l -> List.map (pair glist sx_n) (lst l))) (lst m))
  | L [A "c1"; m] -> SCtx1 (List.map (pair sx_n (fun l -> List.map crule (lst l))) (lst m))
  | L [A "c2"; cov; cd; rules] ->
    SCtx2 (glist cov, cdef cd, List.map (fun l -> List.map crule (lst l)) (lst rules))
  | L [A "c3"; covs; a] -> SCtx3 (List.map glist (lst covs), acts a)
  | L [A "k1"; m] -> SChain1 (List.map (pair sx_n (fun l -> List.map krule (lst l))) (lst m))
  | L [A "k2"; cov; b; i; l; rules] ->
    SChain2 (glist cov, cdef b, cdef i, cdef l, List.map (fun r -> List.map krule (lst r)) (lst rules))
  | L [A "k3"; b; i; l; a] ->
    SChain3 (List.map glist (lst b), List.map glist (lst i), List.map glist (lst l), acts a)
  | L [A "p1"; cov; v] -> SPos1 (glist cov, vrec_of v)
  | L [A "p2"; m] -> SPos2 (List.map (pair sx_n vrec_of) (lst m))
  | L [A "pp1"; m] ->
    SPair1 (List.map (pair sx_n (fun row ->
      List.map (fun e -> match e with
        | L [g2; v1; v2] -> (sx_n g2, pairadj v1 v2)
        | _ -> failwith "bad pair entry") (lst row))) (lst m))
  | L [A "pp2"; cov; c1; c2; m] ->
    SPair2 (glist cov, cdef c1, cdef c2,
            List.map (fun row -> List.map (fun e -> match e with
              | L [v1; v2] -> pairadj v1 v2
              | _ -> failwith "bad class pair entry") (lst row)) (lst m))
  | L [A "mb"; marks; bases] ->
    SMarkBase (List.map markrec (lst marks),
               List.map (pair sx_n (fun l -> List.map anchor_of (lst l))) (lst bases))
  | L [A "mm"; marks; bases] ->
    SMarkMark (List.map markrec (lst marks),
               List.map (pair sx_n (fun l -> List.map anchor_of (lst l))) (lst bases))
  | L [A "r8"; m; b; l] ->
    SRevChain (List.map (pair sx_n sx_n) (lst m), List.map glist (lst b), List.map glist (lst l))
  | L [A "unsup"] -> SUnsupported
  | _ -> failwith "bad subtable"

let csub_of x = List.map (fun e -> match e with
  | L [g; en; ex] -> (sx_n g, (anchor_of en, anchor_of ex))
  | _ -> failwith "bad entry/exit record") (lst x)

let msub_of x = match x with
  | L [marks; ligs] ->
    { ms_marks = List.map markrec (lst marks);
      ms_ligs = List.map (pair sx_n (fun comps ->
                  List.map (fun row -> List.map anchor_of (lst row)) (lst comps))) (lst ligs) }
  | _ -> failwith "bad mark-to-ligature subtable"

let lookup2_of x = match x with
  | L [A "old"; f; m; subs] ->
    LOld { lk_flags = sx_n f; lk_mfs = sx_n m; lk_subs = List.map sub_of (lst subs) }
  | L [A "cur"; f; m; subs] -> LCursive (sx_n f, sx_n m, List.map csub_of (lst subs))
  | L [A "mlig"; f; m; subs] -> LMarkLig (sx_n f, sx_n m, List.map msub_of (lst subs))
  | _ -> failwith "bad lookup"

let gdef_of x = match x with
  | A "nogdef" -> None
  | L [A "gdef"; c; a; s] ->
    Some { gd_class = cdef c; gd_attach = cdef a; gd_sets = List.map glist (lst s) }
  | _ -> failwith "bad gdef"

let glyph_of x = match x with
  | L [g; t; x; y; a] -> { gid = sx_n g; gtext = glist t; gx = sx_z x; gy = sx_z y; gadv = sx_z a }
  | _ -> failwith "bad glyph"

let sx_of_glyph g =
  L [an g.gid; L (List.map an g.gtext); az g.gx; az g.gy; az g.gadv]

let () = main_loop (fun c ->
  match c with
  | [gd; lls; order; seqs] ->
    let gd = gdef_of gd in
    let ll = List.map lookup2_of (lst lls) in
    let order = List.map sx_nat (lst order) in
    L (List.map (fun s ->
         match s with
         | L [glyphs; comps] ->
           let seq = List.map glyph_of (lst glyphs) in
           let ca = List.map sx_nat (lst comps) in
           (match observe2 ll gd ca order seq with
            | OOod -> A "ood"
            | ODom out -> L [A "dom"; L (List.map sx_of_glyph out)]
            | OOut (d, out) ->
              L [A "out"; ab d.dv_flags; ab d.dv_rtl; ab d.dv_null; ab d.dv_lig;
                 L (List.map sx_of_glyph out)])
         | _ -> failwith "bad sequence") (lst seqs))
  | _ -> failwith "bad case")
