(* C09 driver: one case per line, first atom selects the model function.
     enc12 LANG ((k g) ...)          -> x<bytes>
     dec12 MAC x<bytes>              -> err | panic | fuel | (ok (k g) ...)
     look12 x<bytes> (c ...)         -> (g ...)                       S_lookup12
     dec0 x<bytes>                   -> err | panic | (ok x<256 bytes>)
     dec6 MAC x<bytes>               -> err | panic | (ok (k g) ...)
*)
let sx_pairs (x : sx) : (n * n) list =
  List.map (fun p -> match p with L [k; g] -> (sx_n k, sx_n g) | _ -> failwith "bad pair") (lst x)

let pairs_sx (m : (n * n) list) : sx list =
  List.map (fun (k, g) -> L [an k; an g]) m

let outcome_sx (f : 'a -> sx) (o : 'a outcome) : sx =
  match o with
  | Ok a -> f a
  | Err -> A "err"
  | Panic -> A "panic"
  | OutOfFuel -> A "fuel"

let ident (x : n) : n = x

let () = main_loop (fun c ->
  match c with
  | [A "enc12"; lang; m] ->
    A (hex_of_bytes (m_encode12 (sx_pairs m) (sx_n lang)))
  | [A "dec12"; mac; data] ->
    outcome_sx (fun m -> L (A "ok" :: pairs_sx m)) (m_decode12 (sx_bool mac) (sx_bytes data))
  | [A "look12"; data; cs] ->
    let d = sx_bytes data in
    L (List.map (fun c -> an (s_lookup12 d (sx_n c))) (lst cs))
  | [A "dec0"; data] ->
    outcome_sx (fun d -> L [A "ok"; A (hex_of_bytes d)]) (m_decode0 (sx_bytes data))
  | [A "dec6"; mac; data] ->
    if sx_bool mac then failwith "mac not supported yet" else
    outcome_sx (fun m -> L (A "ok" :: pairs_sx m)) (m_decode6 ident (sx_bytes data))
  | _ -> failwith "bad case")
