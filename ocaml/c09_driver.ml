(* C09 driver: one case per line, first atom selects the model function.
     enc12 LANG ((k g) ...)          -> x<bytes>
     dec12 MAC x<bytes>              -> err | panic | fuel | (ok (k g) ...)
     look12 x<bytes> (c ...)         -> (g ...)                       S_lookup12
     dec0 x<bytes>                   -> err | panic | (ok x<256 bytes>)
     dec6 MAC x<bytes>               -> err | panic | (ok (k g) ...)
     edges4 ((k g) ...) (v ...)      -> (((first last delta vals) ...) ...)   M_edges at each v
     emit4 LANG ((k g) ...) ((first last delta vals) ...)
                                     -> (ok x<bytes> P) | (panic P)   M_emit4, P = path_ok from 0
     dec4 MAC x<bytes>               -> err | panic | (ok (k g) ...)
     look4 x<bytes> (c ...)          -> ((some g) | none ...)          S_lookup4
     tdec x<bytes>                   -> err | panic | (ok (pid eid lang off len) ...)   M_decode_table
     tenc ((pid eid lang x<bytes>) ...) -> (ok x<bytes>) | panic       M_encode_table
     best x<bytes>                   -> err | panic | none | (best i)  M_decode_table_bytes + M_getbest
     install HIGH                    -> ((pid eid lang) ...)           M_installcmap_keys
     lk4 ((k g) ...) (r ...)         -> (g ...)                       M_lookup4 (Format4.Lookup), r any integer
     getsub P E (r0 ... r255) x<bytes> -> err | panic | (bytes x..) | (map (k g) ...)
                                        M_get_sub2 (Table.Get as repaired) with macrune c = r[c mod 256]
*)
let sx_pairs (x : sx) : (n * n) list =
  List.map (fun p -> match p with L [k; g] -> (sx_n k, sx_n g) | _ -> failwith "bad pair") (lst x)

let pairs_sx (m : (n * n) list) : sx list =
  List.map (fun (k, g) -> L [an k; an g]) m

let outcome_sx (f : 'a -> sx) (o : 'a outcome) : sx =
  match o with
  | Ok a -> f a
  | Err -> A "err"
  | Panic -> A "panic"
  | OutOfFuel -> A "fuel"

let ident (x : n) : n = x

(* a Go map[uint16]glyph.ID as a total function *)
let fun_of_pairs (m : (n * n) list) : n -> n =
  let arr = Array.make 65536 N0 in
  List.iter (fun (k, g) -> let i = int_of_n k in if i < 65536 then arr.(i) <- g) m;
  fun c -> let i = int_of_n c in if i < 65536 then arr.(i) else N0

let sx_seg (x : sx) : seg4 =
  match x with
  | L [f; l; d; v] -> { s_first = sx_n f; s_last = sx_n l; s_delta = sx_n d; s_vals = sx_bool v }
  | _ -> failwith "bad segment"

let seg_sx (s : seg4) : sx = L [an s.s_first; an s.s_last; an s.s_delta; ab s.s_vals]

let () = main_loop (fun c ->
  match c with
  | [A "enc12"; lang; m] ->
    A (hex_of_bytes (m_encode12 (sx_pairs m) (sx_n lang)))
  | [A "dec12"; mac; data] ->
    outcome_sx (fun m -> L (A "ok" :: pairs_sx m)) (m_decode12 (sx_bool mac) (sx_bytes data))
  | [A "look12"; data; cs] ->
    let d = sx_bytes data in
    L (List.map (fun c -> an (s_lookup12 d (sx_n c))) (lst cs))
  | [A "dec0"; data] ->
    outcome_sx (fun d -> L [A "ok"; A (hex_of_bytes d)]) (m_decode0 (sx_bytes data))
  | [A "dec6"; mac; data] ->
    if sx_bool mac then failwith "mac not supported yet" else
    outcome_sx (fun m -> L (A "ok" :: pairs_sx m)) (m_decode6 ident (sx_bytes data))
  | [A "edges4"; m; vs] ->
    let f = fun_of_pairs (sx_pairs m) in
    L (List.map (fun v -> L (List.map seg_sx (m_edges f (sx_n v)))) (lst vs))
  | [A "emit4"; lang; m; segs] ->
    let f = fun_of_pairs (sx_pairs m) in
    let segs = List.map sx_seg (lst segs) in
    let p = ab (path_ok f N0 segs) in
    (match m_emit4 f segs (sx_n lang) with
     | Ok b -> L [A "ok"; A (hex_of_bytes b); p]
     | Panic -> L [A "panic"; p]
     | _ -> A "unexpected")
  | [A "dec4"; mac; data] ->
    if sx_bool mac then failwith "mac not supported yet" else
    outcome_sx (fun m -> L (A "ok" :: pairs_sx m)) (m_decode4 ident (sx_bytes data))
  | [A "look4"; data; cs] ->
    let d = sx_bytes data in
    L (List.map (fun c -> match s_lookup4 d (sx_n c) with Some g -> L [A "some"; an g] | None -> A "none") (lst cs))
  | [A "tdec"; data] ->
    outcome_sx (fun t -> L (A "ok" :: List.map (fun (((p, e), l), (o, n)) -> L [an p; an e; an l; an o; an n]) t))
      (m_decode_table (sx_bytes data))
  | [A "tenc"; t] ->
    let t = List.map (fun x -> match x with
      | L [p; e; l; d] -> (((sx_n p, sx_n e), sx_n l), sx_bytes d)
      | _ -> failwith "bad table entry") (lst t) in
    outcome_sx (fun b -> L [A "ok"; A (hex_of_bytes b)]) (m_encode_table t)
  | [A "best"; data] ->
    (match m_decode_table_bytes (sx_bytes data) with
     | Ok t ->
       (match m_getbest ident t with
        | Ok (i, _) -> L [A "best"; an i]
        | Err -> A "none"
        | Panic -> A "panic"
        | OutOfFuel -> A "fuel")
     | Err -> A "err"
     | Panic -> A "panic"
     | OutOfFuel -> A "fuel")
  | [A "getsub"; p; e; tbl; data] ->
    let arr = Array.of_list (List.map sx_n (lst tbl)) in
    if Array.length arr <> 256 then failwith "bad rune table" else
    let macrune c = arr.((int_of_n c) land 255) in
    (match m_get_sub2 macrune ((sx_n p, sx_n e), N0) (sx_bytes data) with
     | Ok (SubBytes d) -> L [A "bytes"; A (hex_of_bytes d)]
     | Ok (SubMap m) -> L (A "map" :: pairs_sx m)
     | Err -> A "err"
     | Panic -> A "panic"
     | OutOfFuel -> A "fuel")
  | [A "lk4"; m; rs] ->
    let m = sx_pairs m in
    L (List.map (fun r -> an (m_lookup4 m (sx_z r))) (lst rs))
  | [A "install"; high] ->
    L (List.map (fun ((p, e), l) -> L [an p; an e; an l]) (m_installcmap_keys (sx_z high)))
  | _ -> failwith "bad case")
