(* C07 driver.
   case  = ll gdef lookups hist          -> trace of run_history (M_shape on one Context)
         | keep flags mfs gdef (gid...)  -> keepf on every gid
         | shape ll                      -> (reader_shape implemented simple) of Shape.v
   see harness/c07/sx.go for the grammar *)
let pair f g x = match x with L [a; b] -> (f a, g b) | _ -> failwith "pair expected"
let slist f x = List.map f (lst x)

let sx_covtab x = slist (pair sx_n sx_nat) x
let sx_set x = slist sx_n x
let sx_cls x = slist (pair sx_n sx_n) x
let sx_acts x = slist (pair sx_nat sx_nat) x
let sx_seqrule x = match x with L [i; a] -> (slist sx_n i, sx_acts a) | _ -> failwith "seqrule"
let sx_chainrule x = match x with
  | L [b; i; l; a] -> (((slist sx_n b, slist sx_n i), slist sx_n l), sx_acts a)
  | _ -> failwith "chainrule"
let sx_vr x = match x with
  | A "nil" -> None
  | L [a; b; c; d; e; f; g; h] ->
    Some { vr_xpl = sx_z a; vr_ypl = sx_z b; vr_xadv = sx_z c; vr_yadv = sx_z d;
           vr_d1 = sx_n e; vr_d2 = sx_n f; vr_d3 = sx_n g; vr_d4 = sx_n h }
  | _ -> failwith "valrec"
let sx_anchor x = pair sx_z sx_z x
let sx_markrec x = match x with L [c; a; b] -> (sx_n c, (sx_z a, sx_z b)) | _ -> failwith "markrec"

let sx_sub (x : sx) : subtable =
  match x with
  | L [A "g11"; c; d] -> Gsub1_1 (sx_set c, sx_n d)
  | L [A "g12"; c; s] -> Gsub1_2 (sx_covtab c, slist sx_n s)
  | L [A "g21"; c; r] -> Gsub2_1 (sx_covtab c, slist (slist sx_n) r)
  | L [A "g31"; c; r] -> Gsub3_1 (sx_covtab c, slist (slist sx_n) r)
  | L [A "g41"; c; r] -> Gsub4_1 (sx_covtab c, slist (slist (pair (slist sx_n) sx_n)) r)
  | L [A "g81"; c; b; l; s] -> Gsub8_1 (sx_covtab c, slist sx_covtab b, slist sx_covtab l, slist sx_n s)
  | L [A "sc1"; c; r] -> SeqCtx1 (sx_covtab c, slist (slist sx_seqrule) r)
  | L [A "sc2"; c; k; r] -> SeqCtx2 (sx_covtab c, sx_cls k, slist (slist sx_seqrule) r)
  | L [A "sc3"; i; a] -> SeqCtx3 (slist sx_set i, sx_acts a)
  | L [A "cc1"; c; r] -> Chain1 (sx_covtab c, slist (slist sx_chainrule) r)
  | L [A "cc2"; c; k1; k2; k3; r] -> Chain2 (sx_covtab c, sx_cls k1, sx_cls k2, sx_cls k3, slist (slist sx_chainrule) r)
  | L [A "cc3"; b; i; l; a] -> Chain3 (slist sx_set b, slist sx_set i, slist sx_set l, sx_acts a)
  | L [A "p11"; c; v] -> Gpos1_1 (sx_set c, sx_vr v)
  | L [A "p12"; c; v] -> Gpos1_2 (sx_covtab c, slist sx_vr v)
  | L [A "p21"; p] -> Gpos2_1 (slist (fun y -> match y with
        | L [l; r; v1; v2] -> ((sx_n l, sx_n r), (sx_vr v1, sx_vr v2)) | _ -> failwith "pair entry") p)
  | L [A "p22"; c; k1; k2; a] -> Gpos2_2 (sx_set c, sx_cls k1, sx_cls k2, slist (slist (pair sx_vr sx_vr)) a)
  | L [A "p31"; c; r] -> Gpos3_1 (sx_covtab c, slist (fun y -> match y with
        | L [a; b; c; d] -> ((sx_z a, sx_z b), (sx_z c, sx_z d)) | _ -> failwith "entryexit") r)
  | L [A "p41"; m; b; mr; br] -> Gpos4_1 (sx_covtab m, sx_covtab b, slist sx_markrec mr, slist (slist sx_anchor) br)
  | A "p51" -> Gpos5_1
  | L [A "p61"; m; b; mr; br] -> Gpos6_1 (sx_covtab m, sx_covtab b, slist sx_markrec mr, slist (slist sx_anchor) br)
  | _ -> failwith "bad subtable"

let sx_lookup x = match x with
  | L [f; m; s] -> { lk_flags = sx_n f; lk_mfs = sx_nat m; lk_subs = slist sx_sub s }
  | _ -> failwith "bad lookup"

let sx_gdef x = match x with
  | A "nil" -> None
  | L [c; a; s] ->
    Some { gd_class = (match c with A "nil" -> None | _ -> Some (sx_cls c));
           gd_attach = sx_cls a; gd_sets = slist sx_set s }
  | _ -> failwith "bad gdef"

let sx_glyph x = match x with
  | L [g; t; xo; yo; ad] -> { g_gid = sx_n g; g_text = slist sx_n t; g_xoff = sx_z xo; g_yoff = sx_z yo; g_adv = sx_z ad }
  | _ -> failwith "bad glyph"

let glyph_sx g = L [an g.g_gid; L (List.map an g.g_text); az g.g_xoff; az g.g_yoff; az g.g_adv]

let () = main_loop (fun c ->
  match c with
  | [A "keep"; f; m; gd; gids] ->
    let lk = { lk_flags = sx_n f; lk_mfs = sx_nat m; lk_subs = [] } in
    let gd = sx_gdef gd in
    L (List.map (fun g -> ab (keepf gd lk (sx_n g))) (lst gids))
  | [A "shape"; ll] ->
    let ll = slist sx_lookup ll in
    L [ab (reader_shape ll); ab (implemented ll); ab (simple ll)]
  | [ll; gd; lookups; hist] ->
    let ll = slist sx_lookup ll in
    let gd = sx_gdef gd in
    let lookups = slist sx_nat lookups in
    let hist = slist (slist sx_glyph) hist in
    let tr = run_history ll gd lookups [] hist in
    L (List.map (fun r -> match r with
      | Ok (s, n) -> L [A "ok"; anat n; L (List.map glyph_sx s)]
      | Err -> A "err" | Panic -> A "panic" | OutOfFuel -> A "fuel") tr)
  | _ -> failwith "bad case")
