(* C10 driver: case = selector kind glyphs privs mats cmaps enc gsub gpos list orc flags;
   prints the canonical observation of the model's subset (Observe.v) *)
let nlist x = List.map sx_n (lst x)

let glyph_of_sx (x : sx) : glyph =
  match x with
  | L [o; w; n; c; fd; comps] ->
    { g_outline = sx_n o; g_width = sx_z w; g_name = sx_n n; g_cid = sx_n c; g_fd = sx_n fd; g_comps = nlist comps }
  | _ -> failwith "bad glyph"

let pair_of_sx (x : sx) = match x with L [a; b] -> (sx_n a, sx_n b) | _ -> failwith "bad pair"

let sub_of_sx (x : sx) : gsubst =
  match x with
  | L [A "s1"; d; cov] -> Single1 (sx_n d, nlist cov)
  | L [A "s2"; m] -> Single2 (List.map pair_of_sx (lst m))
  | L [A "lig"; sets] ->
    Lig (List.map (fun s -> match s with
      | L [first; ligs] ->
        (sx_n first, List.map (fun l -> match l with
           | L [ins; out] -> (nlist ins, sx_n out)
           | _ -> failwith "bad ligature") (lst ligs))
      | _ -> failwith "bad ligature set") (lst sets))
  | L [A ("mult" | "alt" as k); m] ->
    Multi (k = "alt", List.map (fun e -> match e with
      | L [g; outs] -> (sx_n g, nlist outs)
      | _ -> failwith "bad multiple/alternate entry") (lst m))
  | _ -> failwith "bad subtable"

let kern_of_sx (x : sx) = match x with L [l; r; v] -> ((sx_n l, sx_n r), sx_z v) | _ -> failwith "bad kern"

let zl l = L (List.map az l)

let sx_of_osub (s : osub) : sx =
  match s with
  | OS1 (d, cov) -> L [A "s1"; az d; zl cov]
  | OS2 m -> L [A "s2"; L (List.map (fun (a, b) -> L [az a; az b]) m)]
  | OLig sets ->
    L [A "lig"; L (List.map (fun (f, ligs) ->
      L [az f; L (List.map (fun (ins, out) -> L [zl ins; az out]) ligs)]) sets)]
  | OMulti (alt, m) ->
    L [A (if alt then "alt" else "mult"); L (List.map (fun (g, outs) -> L [az g; zl outs]) m)]

let sx_of_obs (o : obs) : sx =
  L [A "ok"; zl o.o_sel; zl o.o_extras;
     L (List.map (fun (((oldid, (((ou, w), n), c)), (p, m)), comps) ->
          L [az oldid; az ou; az w; az n; az c; az p; az m; zl comps]) o.o_glyphs);
     L (List.map (fun (p, m) -> L [az p; az m]) o.o_fds);
     az o.o_nmats;
     L (List.map (fun c -> L (List.map (fun (a, b) -> L [az a; az b]) c)) o.o_cmaps);
     (match o.o_enc with None -> A "none" | Some l -> zl l);
     L (List.map (fun lk -> L (List.map sx_of_osub lk)) o.o_gsub);
     L (List.map (fun lk -> L (List.map (fun st -> L (List.map (fun ((l, r), v) -> L [az l; az r; az v]) st)) lk)) o.o_gpos)]

let () = main_loop (fun c ->
  match c with
  | [which; kind; glyphs; privs; mats; cmaps; enc; gsub; gpos; gl; orc; _flags] ->
    let k = (match atom kind with "glyf" -> KGlyf | "cff" -> KCff | "cid" -> KCid | _ -> failwith "bad kind") in
    let f = { f_kind = k;
              f_glyphs = List.map glyph_of_sx (lst glyphs);
              f_privs = nlist privs; f_mats = nlist mats;
              f_cmaps = List.map (fun cm -> match cm with
                 | L [_; _; _; m] -> List.map pair_of_sx (lst m)
                 | _ -> failwith "bad cmap") (lst cmaps);
              f_enc = (match enc with A "none" -> None | _ -> Some (nlist enc));
              f_gsub = List.map (fun lk -> List.map sub_of_sx (lst lk)) (lst gsub);
              f_gpos = List.map (fun lk -> List.map (fun st -> List.map kern_of_sx (lst st)) (lst lk)) (lst gpos) } in
    let cffonly = (match atom which with "font" -> false | "cffsub" -> true | _ -> failwith "bad selector") in
    let gl = nlist gl in
    (match run cffonly (List.map sx_nat (lst orc)) f gl with
     | RObs o ->
       (* inside the domain the mirror model and the specification must agree *)
       if in_domain f gl then
         (match run_spec cffonly f gl with
          | Some o' when o' = o -> sx_of_obs o
          | Some o' -> L [A "spec-differs"; sx_of_obs o; sx_of_obs o']
          | None -> L [A "spec-undefined"; sx_of_obs o])
       else sx_of_obs o
     | RPanic -> A "panic"
     | RFuel -> A "fuel"
     | RErr -> A "err")
  | _ -> failwith "bad case")
