(* C02B driver (part of property C02): gtab.Read with the real subtable readers.
     gtab gsub|gpos xBYTES KNOWN -> err | panic | fuel | (SCRIPTSOBS FEATURES LOOKUPS)
                                    | (models-disagree D1 D2)
       M_gtab_decode (C02's top-level reader with the real subtable readers of
       C08D) and, as a cross-check, C08D's M_info_read (C08's list readers) on
       the same bytes: the accept/reject class, the features and the lookups
       must agree; the script list map is C08D's (C02 models the script list at
       the accept/reject + work level).  KNOWN = ((xSCRIPT xLANG) ...): the pairs
       otfToBCP47 accepts.
     sub gsub|gpos TYPE xBYTES pos -> err | panic | fuel | (ok SUB)
       one subtable reader call (read_subtable)
   The syntax of SUB, FEATURES, LOOKUPS, SCRIPTSOBS is that of ocaml/c08d_driver.ml
   (the printing functions below are the same). *)

let outc (f : 'a -> sx) (o : 'a outcome) : sx =
  match o with
  | Ok a -> f a
  | Err -> A "err"
  | Panic -> A "panic"
  | OutOfFuel -> A "fuel"

(* ---- run-length lists ---- *)
let expand (f : sx -> 'a) (x : sx) : 'a list =
  List.concat_map (fun e -> match e with
    | L [A "rep"; k; y] -> let v = f y in List.init (sx_int k) (fun _ -> v)
    | y -> [f y]) (lst x)

let rle (l : sx list) : sx =
  let strs = Array.of_list (List.map sx_to_string l) in
  let els = Array.of_list l in
  let n = Array.length els in
  let out = ref [] in
  let i = ref 0 in
  while !i < n do
    let j = ref (!i + 1) in
    while !j < n && strs.(!j) = strs.(!i) do incr j done;
    if !j - !i >= 4 then out := L [A "rep"; ai (!j - !i); els.(!i)] :: !out
    else for k = !i to !j - 1 do out := els.(k) :: !out done;
    i := !j
  done;
  L (List.rev !out)

let nums_of_sx x = expand sx_n x
let sx_of_nums l = rle (List.map an l)
let act_of_sx x = match x with L [a; b] -> (sx_n a, sx_n b) | _ -> failwith "bad action"
let acts_of_sx x = expand act_of_sx x
let sx_of_acts l = rle (List.map (fun (a, b) -> L [an a; an b]) l)

(* glyph sets as runs (gid len); class tables as runs (gid class len) *)
let set_of_sx (x : sx) : n list =
  List.concat_map (fun r -> match r with
    | L [g; n] -> let g = sx_int g and n = sx_int n in List.init n (fun k -> n_of_int (g + k))
    | _ -> failwith "bad run") (lst x)
let sx_of_set (l : n list) : sx =
  let rec go l cur acc =
    match l, cur with
    | [], None -> List.rev acc
    | [], Some (g, n) -> List.rev (L [ai g; ai n] :: acc)
    | g' :: tl, None -> go tl (Some (g', 1)) acc
    | g' :: tl, Some (g, n) ->
      if g' = g + n then go tl (Some (g, n + 1)) acc
      else go tl (Some (g', 1)) (L [ai g; ai n] :: acc)
  in
  L (go (List.map int_of_n l) None [])
let sets_of_sx x = expand set_of_sx x
let sx_of_sets l = rle (List.map sx_of_set l)
let cls_of_sx (x : sx) : (n * n) list =
  List.concat_map (fun r -> match r with
    | L [g; c; n] -> let g = sx_int g and c = sx_int c and n = sx_int n in
      List.init n (fun k -> (n_of_int (g + k), n_of_int c))
    | _ -> failwith "bad run") (lst x)
let sx_of_cls (l : (n * n) list) : sx =
  let rec go l cur acc =
    match l, cur with
    | [], None -> List.rev acc
    | [], Some (g, c, n) -> List.rev (L [ai g; ai c; ai n] :: acc)
    | (g', c') :: tl, None -> go tl (Some (g', c', 1)) acc
    | (g', c') :: tl, Some (g, c, n) ->
      if g' = g + n && c' = c then go tl (Some (g, c, n + 1)) acc
      else go tl (Some (g', c', 1)) (L [ai g; ai c; ai n] :: acc)
  in
  L (go (List.map (fun (g, c) -> (int_of_n g, int_of_n c)) l) None [])

(* ---- value records, anchors ---- *)
let vr_of_sx (x : sx) : vrec option =
  match x with
  | A "nil" -> None
  | L [a; b; c; d; e; f; g; h] ->
    Some { v_xp = sx_z a; v_yp = sx_z b; v_xa = sx_z c; v_ya = sx_z d;
           v_xpd = sx_n e; v_ypd = sx_n f; v_xad = sx_n g; v_yad = sx_n h }
  | _ -> failwith "bad value record"
let sx_of_vr (v : vrec option) : sx =
  match v with
  | None -> A "nil"
  | Some r -> L [az r.v_xp; az r.v_yp; az r.v_xa; az r.v_ya; an r.v_xpd; an r.v_ypd; an r.v_xad; an r.v_yad]
let vr2_of_sx x = match x with L [a; b] -> (vr_of_sx a, vr_of_sx b) | _ -> failwith "bad pair adjust"
let sx_of_vr2 (a, b) = L [sx_of_vr a; sx_of_vr b]
let an_of_sx x = match x with L [a; b] -> (sx_z a, sx_z b) | _ -> failwith "bad anchor"
let sx_of_anchor (x, y) = L [az x; az y]
let row_of_sx x = expand an_of_sx x
let sx_of_row r = rle (List.map sx_of_anchor r)
let marks_of_sx x = expand (fun m -> match m with L [c; a; b] -> (sx_n c, (sx_z a, sx_z b)) | _ -> failwith "bad mark") x
let sx_of_marks l = rle (List.map (fun (c, (x, y)) -> L [an c; az x; az y]) l)

(* ---- rules ---- *)
let srule_of_sx x = match x with L [i; a] -> (nums_of_sx i, acts_of_sx a) | _ -> failwith "bad rule"
let sx_of_srule (i, a) = L [sx_of_nums i; sx_of_acts a]
let crule_of_sx x = match x with
  | L [b; i; l; a] -> { cr_back = nums_of_sx b; cr_in = nums_of_sx i; cr_look = nums_of_sx l; cr_acts = acts_of_sx a }
  | _ -> failwith "bad chained rule"
let sx_of_crule r = L [sx_of_nums r.cr_back; sx_of_nums r.cr_in; sx_of_nums r.cr_look; sx_of_acts r.cr_acts]
let osets_of_sx (f : sx -> 'a) (x : sx) : 'a list option list =
  expand (fun s -> match s with A "nil" -> None | s -> Some (expand f s)) x
let sx_of_osets (f : 'a -> sx) (l : 'a list option list) : sx =
  rle (List.map (fun s -> match s with None -> A "nil" | Some rs -> rle (List.map f rs)) l)

(* ---- subtables ---- *)
let sub_of_sx (x : sx) : subtable =
  match x with
  | L [A "gsub11"; s; d] -> TGsub11 (set_of_sx s, sx_n d)
  | L [A "gsub12"; s; v] -> TGsub12 (set_of_sx s, nums_of_sx v)
  | L [A "gsub21"; s; v] -> TGsub21 (set_of_sx s, expand nums_of_sx v)
  | L [A "gsub31"; s; v] -> TGsub31 (set_of_sx s, expand nums_of_sx v)
  | L [A "gsub41"; s; v] ->
    TGsub41 (set_of_sx s, expand (expand (fun l -> match l with L [o; i] -> (sx_n o, nums_of_sx i) | _ -> failwith "bad ligature")) v)
  | L [A "gsub81"; s; b; l; v] -> TGsub81 (set_of_sx s, sets_of_sx b, sets_of_sx l, nums_of_sx v)
  | L [A "gpos11"; s; v] -> TGpos11 (set_of_sx s, vr_of_sx v)
  | L [A "gpos12"; s; v] -> TGpos12 (set_of_sx s, expand vr_of_sx v)
  | L [A "gpos21"; g] ->
    TGpos21 (expand (fun e -> match e with
      | L [l; items] -> (sx_n l, expand (fun it -> match it with L [r; a; b] -> (sx_n r, (vr_of_sx a, vr_of_sx b)) | _ -> failwith "bad pair") items)
      | _ -> failwith "bad pair group") g)
  | L [A "gpos22"; s; c1; c2; m] -> TGpos22 (set_of_sx s, cls_of_sx c1, cls_of_sx c2, expand (expand vr2_of_sx) m)
  | L [A "gpos31"; s; r] -> TGpos31 (set_of_sx s, expand (fun e -> match e with L [a; b] -> (an_of_sx a, an_of_sx b) | _ -> failwith "bad entry/exit") r)
  | L [A "gpos41"; m; b; ms; rows] -> TGpos41 (set_of_sx m, set_of_sx b, marks_of_sx ms, expand row_of_sx rows)
  | L [A "gpos51"; m; b; ms; ligs] -> TGpos51 (set_of_sx m, set_of_sx b, marks_of_sx ms, expand (expand row_of_sx) ligs)
  | L [A "gpos61"; m; b; ms; rows] -> TGpos61 (set_of_sx m, set_of_sx b, marks_of_sx ms, expand row_of_sx rows)
  | L [A "seq1"; s; r] -> TSeq1 (set_of_sx s, osets_of_sx srule_of_sx r)
  | L [A "seq2"; s; c; r] -> TSeq2 (set_of_sx s, cls_of_sx c, osets_of_sx srule_of_sx r)
  | L [A "seq3"; i; a] -> TSeq3 (sets_of_sx i, acts_of_sx a)
  | L [A "ch1"; s; r] -> TCh1 (set_of_sx s, osets_of_sx crule_of_sx r)
  | L [A "ch2"; s; b; i; l; r] -> TCh2 (set_of_sx s, cls_of_sx b, cls_of_sx i, cls_of_sx l, osets_of_sx crule_of_sx r)
  | L [A "ch3"; b; i; l; a] -> TCh3 (sets_of_sx b, sets_of_sx i, sets_of_sx l, acts_of_sx a)
  | _ -> failwith "bad subtable"

let sx_of_sub (s : subtable) : sx =
  match s with
  | TGsub11 (s, d) -> L [A "gsub11"; sx_of_set s; an d]
  | TGsub12 (s, v) -> L [A "gsub12"; sx_of_set s; sx_of_nums v]
  | TGsub21 (s, v) -> L [A "gsub21"; sx_of_set s; rle (List.map sx_of_nums v)]
  | TGsub31 (s, v) -> L [A "gsub31"; sx_of_set s; rle (List.map sx_of_nums v)]
  | TGsub41 (s, v) ->
    L [A "gsub41"; sx_of_set s; rle (List.map (fun set -> rle (List.map (fun (o, i) -> L [an o; sx_of_nums i]) set)) v)]
  | TGsub81 (s, b, l, v) -> L [A "gsub81"; sx_of_set s; sx_of_sets b; sx_of_sets l; sx_of_nums v]
  | TGpos11 (s, v) -> L [A "gpos11"; sx_of_set s; sx_of_vr v]
  | TGpos12 (s, v) -> L [A "gpos12"; sx_of_set s; rle (List.map sx_of_vr v)]
  | TGpos21 g ->
    L [A "gpos21"; rle (List.map (fun (l, items) ->
         L [an l; rle (List.map (fun (r, (a, b)) -> L [an r; sx_of_vr a; sx_of_vr b]) items)]) g)]
  | TGpos22 (s, c1, c2, m) ->
    L [A "gpos22"; sx_of_set s; sx_of_cls c1; sx_of_cls c2; rle (List.map (fun row -> rle (List.map sx_of_vr2 row)) m)]
  | TGpos31 (s, r) -> L [A "gpos31"; sx_of_set s; rle (List.map (fun (a, b) -> L [sx_of_anchor a; sx_of_anchor b]) r)]
  | TGpos41 (m, b, ms, rows) -> L [A "gpos41"; sx_of_set m; sx_of_set b; sx_of_marks ms; rle (List.map sx_of_row rows)]
  | TGpos51 (m, b, ms, ligs) ->
    L [A "gpos51"; sx_of_set m; sx_of_set b; sx_of_marks ms; rle (List.map (fun lg -> rle (List.map sx_of_row lg)) ligs)]
  | TGpos61 (m, b, ms, rows) -> L [A "gpos61"; sx_of_set m; sx_of_set b; sx_of_marks ms; rle (List.map sx_of_row rows)]
  | TSeq1 (s, r) -> L [A "seq1"; sx_of_set s; sx_of_osets sx_of_srule r]
  | TSeq2 (s, c, r) -> L [A "seq2"; sx_of_set s; sx_of_cls c; sx_of_osets sx_of_srule r]
  | TSeq3 (i, a) -> L [A "seq3"; sx_of_sets i; sx_of_acts a]
  | TCh1 (s, r) -> L [A "ch1"; sx_of_set s; sx_of_osets sx_of_crule r]
  | TCh2 (s, b, i, l, r) -> L [A "ch2"; sx_of_set s; sx_of_cls b; sx_of_cls i; sx_of_cls l; sx_of_osets sx_of_crule r]
  | TCh3 (b, i, l, a) -> L [A "ch3"; sx_of_sets b; sx_of_sets i; sx_of_sets l; sx_of_acts a]

(* ---- lists ---- *)
let ls_of_sx x = match x with L [r; o] -> (sx_n r, nums_of_sx o) | _ -> failwith "bad LangSys"
let sx_of_ls (r, o) = L [an r; sx_of_nums o]
let sx_of_features x : sx =
  match x with
  | None -> A "nil"
  | Some l -> rle (List.map (fun (t, idx) -> L [A (hex_of_bytes t); sx_of_nums idx]) l)
let sx_of_lookups x : sx =
  match x with
  | None -> A "nil"
  | Some l -> rle (List.map (fun l -> L [an l.lc_type; an l.lc_flags; an l.lc_mfs; rle (List.map sx_of_sub l.lc_subs)]) l)

(* the ScriptList map: later assignments overwrite, sorted by (script, language) *)
let sx_of_assignments l : sx =
  let tbl = Hashtbl.create 16 in
  List.iter (fun ((s, lg), f) -> Hashtbl.replace tbl (hex_of_bytes s, hex_of_bytes lg) f) l;
  let rows = Hashtbl.fold (fun k f acc -> (k, f) :: acc) tbl [] in
  let rows = List.sort (fun (a, _) (b, _) -> compare a b) rows in
  L (List.map (fun ((s, lg), f) -> L [A s; A lg; sx_of_ls f]) rows)

let sx_of_obs o : sx =
  L [sx_of_assignments o.o_scripts; sx_of_features o.o_features; sx_of_lookups o.o_lookups]

let table_of_sx x = match atom x with "gsub" -> GSUB | "gpos" -> GPOS | _ -> failwith "bad table"

let string_of_bytes (l : n list) : string =
  let b = Buffer.create (List.length l) in
  List.iter (fun x -> Buffer.add_char b (Char.chr (int_of_n x))) l;
  Buffer.contents b


let bytes4 (x : n) : n list =
  let v = int_of_n x in
  [n_of_int ((v lsr 24) land 255); n_of_int ((v lsr 16) land 255); n_of_int ((v lsr 8) land 255); n_of_int (v land 255)]

let class_of (o : 'a outcome) : string =
  match o with Ok _ -> "ok" | Err -> "err" | Panic -> "panic" | OutOfFuel -> "fuel"

let run (items : sx list) : sx =
  match items with
  | [A "gtab"; tbl; data; known] ->
    let t = table_of_sx tbl in
    let data = sx_bytes data in
    let known = List.map (fun p -> match p with L [a; b] -> (atom a, atom b) | _ -> failwith "bad pair") (lst known) in
    let conv_ok s l = List.mem (hex_of_bytes s, hex_of_bytes l) known in
    let d1 = m_gtab_decode t data in
    let d2 = m_info_read conv_ok t data in
    let s1 = (match d1 with
      | Ok (fs, ls) ->
        let fl = List.map (fun f -> (bytes4 (f_tag f), f_lookups f)) fs in
        sx_to_string (L [sx_of_features (Some fl); sx_of_lookups (Some ls)])
      | o -> class_of o) in
    let opt l = (match l with None -> Some [] | x -> x) in
    let s2 = (match d2 with
      | Ok o -> sx_to_string (L [sx_of_features (opt o.o_features); sx_of_lookups (opt o.o_lookups)])
      | o -> class_of o) in
    if s1 <> s2 then L [A "models-disagree"; A s1; A s2]
    else outc sx_of_obs d2
  | [A "sub"; tbl; tp; data; pos] ->
    (match read_subtable (table_of_sx tbl) (sx_bytes data) (sx_n pos) (sx_n tp) with
     | Ok s -> L [A "ok"; sx_of_sub s]
     | Err -> A "err" | Panic -> A "panic" | OutOfFuel -> A "fuel")
  | _ -> failwith "unknown case"

let () = main_loop run
