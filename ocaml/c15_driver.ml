(* C15 driver.  Case kinds (first atom):
     fl     sorted rev1 rev2 midx lang (SL) (FL) nLookups SW
     kern   xBYTES
     stdlig (CMAP)
     lay    (MT) rev1 rev2 lang (CMAP) OUTL GDEF GSUB GPOS GSUBSW GPOSSW (runes)
     rlay   (MT) rev1 rev2 lang (CMAP) OUTL GDEF fixed KERN GSUBSW GPOSSW (runes)
   see harness/c15/c15.go for the syntax of the parts. *)

let opt_of (f : sx -> 'a) (x : sx) : 'a option =
  match x with A "nil" -> None | _ -> Some (f x)

let features_of_sx (x : sx) : features option =
  match x with
  | A "nil" -> None
  | L [req; opt] -> Some { fs_required = sx_n req; fs_optional = List.map sx_n (lst opt) }
  | _ -> failwith "bad features"

let sl_of_sx (x : sx) : (n list * features option) list =
  List.map (fun e -> match e with
    | L [t; f] -> (sx_bytes t, features_of_sx f)
    | _ -> failwith "bad script list entry") (lst x)

let fl_of_sx (x : sx) : feature list =
  List.map (fun e -> match e with
    | L [t; ls] -> { ft_tag = sx_n t; ft_lookups = List.map sx_n (lst ls) }
    | _ -> failwith "bad feature") (lst x)

let sw_of_sx (x : sx) : switches =
  List.map (fun e -> match e with
    | L [t; b] -> (sx_n t, sx_bool b)
    | _ -> failwith "bad switch") (lst x)

let pairs_of_sx (x : sx) : (n * n) list =
  List.map (fun e -> match e with
    | L [a; b] -> (sx_n a, sx_n b)
    | _ -> failwith "bad pair") (lst x)

let lookup_of_sx (x : sx) : lookup =
  match x with
  | A "none" -> LNone
  | L (A "pair" :: es) ->
    (* given sorted by key by the harness *)
    LPair (List.map (fun e -> match e with
      | L [l; r; v] -> (n_of_int (sx_int l * 65536 + sx_int r), sx_z v)
      | _ -> failwith "bad pair entry") es)
  | L (A "liga" :: sets) ->
    LLiga (List.map (fun s -> match s with
      | L (first :: ligs) ->
        (sx_n first, List.map (fun l -> match l with
          | L [ins; out] -> (List.map sx_n (lst ins), sx_n out)
          | _ -> failwith "bad ligature") ligs)
      | _ -> failwith "bad ligature set") sets)
  | _ -> failwith "bad lookup"

let gtab_of_sx (x : sx) : n list gtab =
  match x with
  | L [sl; fl; ll] -> { gt_scripts = sl_of_sx sl; gt_features = fl_of_sx fl;
                        gt_lookups = List.map lookup_of_sx (lst ll) }
  | _ -> failwith "bad gtab"

let outlines_of_sx (x : sx) : outlines =
  match x with
  | L [A "glyf"; n; A "nil"] -> OGlyf (sx_n n, None)
  | L [A "glyf"; n; w] -> OGlyf (sx_n n, Some (List.map sx_z (lst w)))
  | L [A "cff"; w] -> OCff (List.map sx_z (lst w))
  | _ -> failwith "bad outlines"

let mt_of_sx (x : sx) : (n list list * nat) list =
  List.map (fun e -> match e with
    | L [tags; i] -> (List.map sx_bytes (lst tags), sx_nat i)
    | _ -> failwith "bad matcher entry") (lst x)

let sx_of_outcome (f : 'a -> sx) (o : 'a outcome) : sx =
  match o with
  | Ok a -> f a
  | Err -> A "err"
  | Panic -> A "panic"
  | OutOfFuel -> A "fuel"

let sx_of_seq (seq : ginfo list) : sx =
  L (A "ok" :: List.map (fun g ->
    L [an g.g_gid; L (List.map an g.g_text); az g.g_xoff; az g.g_yoff; az g.g_adv]) seq)

let sx_of_sets (sets : (n * ligature list) list) : sx =
  L (A "sets" :: List.map (fun (first, ligs) ->
    L (an first :: List.map (fun (ins, out) -> L [L (List.map an ins); an out]) ligs)) sets)

let () = main_loop (fun c ->
  match c with
  | [A "fl"; sorted; rev1; rev2; midx; _lang; sl; fl; nl; sw] ->
    let sw = (match sw with A "nil" -> [] | _ -> sw_of_sx sw) in
    sx_of_outcome (fun ls -> L (A "ok" :: List.map an ls))
      (run_find_lookups (sx_bool sorted) (sx_bool rev1) (sx_bool rev2) (sx_nat midx)
         (sl_of_sx sl) (fl_of_sx fl) (sx_n nl) sw)
  | [A "kern"; b] ->
    sx_of_outcome (fun km -> L (A "ok" :: List.map (fun (k, v) ->
        let k = int_of_n k in L [ai (k / 65536); ai (k mod 65536); az v]) km))
      (run_kern_read (sx_bytes b))
  | [A "stdlig"; cm] ->
    sx_of_outcome (fun t -> match t with
        | None -> A "nil"
        | Some g -> (match g.gt_lookups with
            | [LLiga sets] -> sx_of_sets sets
            | _ -> A "unexpected-shape"))
      (run_std_ligatures (pairs_of_sx cm))
  | [A "lay"; mt; rev1; rev2; _lang; cm; o; gdef; gsub; gpos; gsw; psw; runes] ->
    let f = { f_cmap = pairs_of_sx cm; f_outlines = outlines_of_sx o;
              f_gdef = opt_of pairs_of_sx gdef;
              f_gsub = opt_of gtab_of_sx gsub; f_gpos = opt_of gtab_of_sx gpos } in
    sx_of_outcome sx_of_seq
      (run_layout (mt_of_sx mt) (sx_bool rev1) (sx_bool rev2) f
         (opt_of sw_of_sx gsw) (opt_of sw_of_sx psw) (List.map sx_n (lst runes)))
  | [A "rlay"; mt; rev1; rev2; _lang; cm; o; gdef; fixed; kern; gsw; psw; runes] ->
    sx_of_outcome sx_of_seq
      (run_read_layout (mt_of_sx mt) (sx_bool rev1) (sx_bool rev2)
         (pairs_of_sx cm) (outlines_of_sx o) (opt_of pairs_of_sx gdef) (sx_bool fixed)
         (opt_of sx_bytes kern) (opt_of sw_of_sx gsw) (opt_of sw_of_sx psw)
         (List.map sx_n (lst runes)))
  | _ -> failwith "bad case")
