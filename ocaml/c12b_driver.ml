(* C12B driver.  Numbers are exact: an integer atom "123" / "-5", or a dyadic
   rational "m@e" = m * 2^e (what a float64 holds).  Claims (float64 answers of
   the implementation, embedded in the case line) are checked with the
   extracted checker Qnear and answered by "ok"; everything that is exact
   (integers, widths handed through) is printed.

     extent (cmd...)                                  cmd = (op arg...)
     cff  cid top (fmat...) (fd...) (glyph...) (probe...) fm claims      (cffrt: the same
                                                      font after Write + Read)
                                                      glyph = (name width (cmd...))
     glyf upem top (glyph...) widths names (probe...) fm claims
                                                      glyph = nil | (a b c d)
     wd cff cid top (fmat...) (fd...) (glyph...) cmap
     wd glyf upem top (glyph...) widths names cmap    cmap = (0) | (4 c...) | (12 c...)
     rh os2value have gid n (height...)
     cfont cid top (fmat...) (fd...) (glyph...) enc (probe...) claims   cff.Font's own methods;
                                                      enc = nil | (gid...)
     clone (op...)                                    op = (set s k) | (elem s k j), s = 0 FontInfo, 1 Outlines *)

(* ---- numbers ---- *)
let rec pos_shift (p : positive) (k : int) : positive = if k <= 0 then p else pos_shift (XO p) (k - 1)

let q_of_atom (s : string) : q =
  match String.index_opt s '@' with
  | None -> { qnum = z_of_int (int_of_string s); qden = XH }
  | Some i ->
    let m = int_of_string (String.sub s 0 i) in
    let e = int_of_string (String.sub s (i + 1) (String.length s - i - 1)) in
    if e >= 0 then
      { qnum = (if m = 0 then Z0 else if m > 0 then Zpos (pos_shift (pos_of_int m) e) else Zneg (pos_shift (pos_of_int (-m)) e));
        qden = XH }
    else { qnum = z_of_int m; qden = pos_shift XH (-e) }

let sx_q x = q_of_atom (atom x)

let rec float_of_pos (p : positive) : float =
  match p with XH -> 1.0 | XO q -> 2.0 *. float_of_pos q | XI q -> 2.0 *. float_of_pos q +. 1.0
let float_of_z (x : z) : float = match x with Z0 -> 0.0 | Zpos p -> float_of_pos p | Zneg p -> -. float_of_pos p
let approx (x : q) : sx = A (Printf.sprintf "~%.12g" (float_of_z x.qnum /. float_of_pos x.qden))

(* exact printing of a dyadic rational, normalised like Go's big.Rat: odd
   numerator when the denominator is not 1 *)
let dyadic (x : q) : sx =
  let rec log2 p k = match p with XH -> k | XO q -> log2 q (k + 1) | XI _ -> failwith "not dyadic" in
  let k = ref (log2 x.qden 0) in
  let m = ref (int_of_z x.qnum) in
  if !m = 0 then A "0" else begin
    while !k > 0 && !m land 1 = 0 do m := !m asr 1; decr k done;
    if !k = 0 then ai !m else A (Printf.sprintf "%d@-%d" !m !k)
  end

let sx_mat x : mat =
  match lst x with
  | [a; b; c; d; e; f] -> { m0 = sx_q a; m1 = sx_q b; m2 = sx_q c; m3 = sx_q d; m4 = sx_q e; m5 = sx_q f }
  | _ -> failwith "matrix: 6 numbers expected"

let sx_cmd x : cmd =
  match lst x with
  | op :: args -> { c_op = sx_n op; c_args = List.map sx_q args }
  | [] -> failwith "empty command"

let sx_glyph x : glyph =
  match lst x with
  | [name; w; cmds] -> { g_name = sx_n name; g_width = sx_q w; g_cmds = List.map sx_cmd (lst cmds) }
  | _ -> failwith "glyph: (name width cmds)"

let sx_rect x : rect =
  match lst x with
  | [a; b; c; d] -> { llx = sx_z a; lly = sx_z b; urx = sx_z c; ury = sx_z d }
  | _ -> failwith "rect: 4 integers expected"

let is_nil x = (match x with A "nil" -> true | _ -> false)

let out_rect (r : rect) : sx = L [az r.llx; az r.lly; az r.urx; az r.ury]
let out_o (f : 'a -> sx) (o : 'a outcome) : sx =
  match o with Ok a -> f a | Panic -> A "panic" | Err -> A "err" | OutOfFuel -> A "fuel"

(* ---- claims ---- *)
(* one float64 answer against the exact value *)
let check1 (claim : sx) (exact : q) (mag : q) : bool =
  match claim with
  | A "nan" | A "inf" | A "-inf" | A "panic" | A "nil" -> false
  | A s -> qnear (q_of_atom s) exact mag
  | L _ -> false

let qabs_ (x : q) : q = { qnum = (match x.qnum with Zneg p -> Zpos p | y -> y); qden = x.qden }
let qmul_ (a : q) (b : q) : q = qmult a b
let q_one : q = { qnum = Zpos XH; qden = XH }
let q_thousand : q = { qnum = z_of_int 1000; qden = XH }

let verdict_num (claim : sx) (o : q outcome) (mag : q) : sx =
  match o with
  | Panic -> A "panic"
  | Ok v -> if check1 claim v mag then A "ok" else L [A "bad"; approx v]
  | _ -> A "err"

let verdict_rect (claim : sx) (o : qrect outcome) (mag : q) : sx =
  match o with
  | Panic -> A "panic"
  | Ok r ->
    (match claim with
     | L [a; b; c; d] ->
       if check1 a r.q_llx mag && check1 b r.q_lly mag && check1 c r.q_urx mag && check1 d r.q_ury mag then A "ok"
       else L [A "bad"; approx r.q_llx; approx r.q_lly; approx r.q_urx; approx r.q_ury]
     | _ -> L [A "bad"; approx r.q_llx; approx r.q_lly; approx r.q_urx; approx r.q_ury])
  | _ -> A "err"

let find_claim (claims : sx list) (key : string) : sx list =
  let rec go = function
    | [] -> failwith ("missing claim " ^ key)
    | L (A k :: rest) :: _ when k = key -> rest
    | _ :: t -> go t in
  go claims

let rec list_max_q (l : q list) (acc : q) : q = match l with [] -> acc | x :: t -> list_max_q t (qmaxb acc x)

(* ---- cases ---- *)
let sx_cff cid top fmats fdsel glyphs : cff_font =
  { cf_glyphs = List.map sx_glyph (lst glyphs); cf_cid = sx_bool cid;
    cf_fdsel = List.map sx_nat (lst fdsel); cf_fmats = List.map sx_mat (lst fmats); cf_top = sx_mat top }

let sx_glyf upem top glyphs widths names : glyf_font =
  { gf_glyphs = List.map (fun g -> if is_nil g then None else Some (sx_rect g)) (lst glyphs);
    gf_widths = (if is_nil widths then None else Some (List.map sx_z (lst widths)));
    gf_names = (if is_nil names then None else Some (List.map sx_n (lst names)));
    gf_upem = sx_z upem; gf_top = sx_mat top }

let sx_cmap x : cmap_kind =
  match lst x with
  | A "0" :: _ -> NoCmap
  | A "4" :: codes -> Cmap4 (List.map sx_z codes)
  | A "12" :: codes -> Cmap12 (List.map sx_z codes)
  | _ -> failwith "bad cmap"

let out_derived (d : derived) : sx =
  L [A "derived"; az d.dv_numglyphs; out_rect d.dv_fontbbox; az d.dv_advmax; az d.dv_minlsb; az d.dv_minrsb;
     az d.dv_xmaxext; an d.dv_numlong; az d.dv_avg; az d.dv_first; az d.dv_last; az d.dv_winascent;
     az d.dv_windescent; ab d.dv_fixed]

let run_cff cid top fmats fdsel glyphs probes fm claims : sx =
  let f = sx_cff cid top fmats fdsel glyphs in
  let fm = sx_mat fm in
  let probes = List.map sx_int (lst probes) in
  let claims = lst claims in
  let per f' = List.map (fun g -> f' (nat_of_int g)) probes in
  let n = int_of_nat (cf_numglyphs f) in
  let ws = m_cff_widths f in
  (* magnitudes *)
  let wmag gid (w : q) : q =
    let fa = glyph_matrix_abs f f.cf_top gid in
    (match glyph_matrix f f.cf_top gid with
     | Ok m -> qmul_ (qabs_ w) (qmul_ (qfactor_mag m fa) q_thousand)
     | _ -> q_one) in
  let gbp = find_claim claims "gbp" in
  let gwp = find_claim claims "gwp" in
  let out_gbp = List.map2 (fun g c -> let gid = nat_of_int g in
                  verdict_rect c (m_cff_glyph_bbox_pdf f fm gid) (cff_glyph_bbox_pdf_mag f fm gid)) probes gbp in
  let fbp_mag = list_max_q (List.init n (fun g -> cff_glyph_bbox_pdf_mag f f.cf_top (nat_of_int g))) { qnum = Z0; qden = XH } in
  let out_fbp = (match find_claim claims "fbp" with [c] -> verdict_rect c (m_cff_font_bbox_pdf f) fbp_mag | _ -> failwith "fbp") in
  let out_gwp = List.map2 (fun g c -> let gid = nat_of_int g in
                  let w = (match m_cff_glyph_width f gid with Ok w -> w | _ -> q_one) in
                  verdict_num c (m_cff_glyph_width_pdf f gid) (wmag gid w)) probes gwp in
  let out_wpdf =
    (match find_claim claims "wpdf", m_cff_widths_pdf f with
     | _, Panic -> A "panic"
     | [L cl], Ok l ->
       if List.length cl <> List.length l then L [A "bad-length"; ai (List.length l)]
       else begin
         let bad = ref None in
         List.iteri (fun i (c, v) ->
           let gid = nat_of_int i in
           let fa = glyph_matrix_abs f f.cf_top gid in
           let mag = qmul_ (qabs_ (List.nth ws i)) fa.m0 in
           if !bad = None && not (check1 c v mag) then bad := Some (L [A "bad"; ai i; approx v])) (List.combine cl l);
         (match !bad with None -> A "ok" | Some b -> b)
       end
     | _, Ok l -> L [A "bad-shape"; ai (List.length l)]
     | _ -> A "err") in
  let out_wmap =
    (match find_claim claims "wmap", m_cff_widths_map_pdf f with
     | [A "nil"], None -> A "nil"
     | _, None -> A "nil"
     | [A "nil"], Some _ -> A "not-nil"
     | [A "panic"], Some _ -> A "not-nil"
     | [L cl], Some m ->
       (* last assignment to a name wins *)
       let tbl = Hashtbl.create 16 in
       List.iter2 (fun (k, v) (g : glyph) -> Hashtbl.replace tbl (int_of_n k) (v, g.g_width)) m f.cf_glyphs;
       let fa = mat_abs f.cf_top in
       let qm = qmul_ (qfactor_mag f.cf_top fa) q_thousand in
       let bad = ref None in
       if List.length cl <> Hashtbl.length tbl then bad := Some (L [A "bad-size"; ai (Hashtbl.length tbl)]);
       List.iter (fun e -> match e with
         | L [k; c] ->
           (match Hashtbl.find_opt tbl (sx_int k) with
            | None -> if !bad = None then bad := Some (L [A "bad-key"; k])
            | Some (v, w) ->
              if !bad = None && not (check1 c v (qmul_ (qabs_ w) qm)) then bad := Some (L [A "bad"; k; approx v]))
         | _ -> failwith "wmap entry") cl;
       (match !bad with None -> A "ok" | Some b -> b)
     | _ -> failwith "wmap claim") in
  L [ L [A "n"; ai n];
      L (A "widths" :: List.map dyadic ws);
      L (A "gw" :: per (fun gid -> out_o dyadic (m_cff_glyph_width f gid)));
      L [A "boxes"; out_o (fun l -> L (List.map out_rect l)) (m_cff_glyph_bboxes f)];
      L (A "gbox" :: per (fun gid -> out_o out_rect (m_cff_glyph_bbox f gid)));
      L [A "fbox"; out_o out_rect (m_cff_font_bbox f)];
      L (A "height" :: per (fun gid -> out_o az (m_cff_glyph_height f gid)));
      L (A "name" :: per (fun gid -> out_o an (m_cff_glyph_name f gid)));
      L [A "fixed"; ab (m_cff_fixed_pitch f)];
      L (A "gbp" :: out_gbp); L [A "fbp"; out_fbp]; L [A "wpdf"; out_wpdf];
      L (A "gwp" :: out_gwp); L [A "wmap"; out_wmap] ]

let run_glyf upem top glyphs widths names probes fm claims : sx =
  let f = sx_glyf upem top glyphs widths names in
  let fm = sx_mat fm in
  let probes = List.map sx_int (lst probes) in
  let claims = lst claims in
  let per f' = List.map (fun g -> f' (nat_of_int g)) probes in
  let n = int_of_nat (gf_numglyphs f) in
  let gbp = find_claim claims "gbp" in
  let gwp = find_claim claims "gwp" in
  let out_gbp = List.map2 (fun g c -> let gid = nat_of_int g in
                  verdict_rect c (m_glyf_glyph_bbox_pdf f fm gid) (glyf_glyph_bbox_pdf_mag f fm gid)) probes gbp in
  let fbp_mag = list_max_q (List.init n (fun g -> glyf_glyph_bbox_pdf_mag f f.gf_top (nat_of_int g))) { qnum = Z0; qden = XH } in
  let out_fbp = (match find_claim claims "fbp" with [c] -> verdict_rect c (m_glyf_font_bbox_pdf f) fbp_mag | _ -> failwith "fbp") in
  let out_gwp = List.map2 (fun g c -> let gid = nat_of_int g in
                  let o = m_glyf_glyph_width_pdf f gid in
                  verdict_num c o (match o with Ok v -> qabs_ v | _ -> q_one)) probes gwp in
  let out_wpdf =
    (match find_claim claims "wpdf", m_glyf_widths_pdf f with
     | _, Panic -> A "panic"
     | [A "nil"], Ok None -> A "nil"
     | _, Ok None -> A "nil"
     | [L cl], Ok (Some l) ->
       if List.length cl <> List.length l then L [A "bad-length"; ai (List.length l)]
       else begin
         let bad = ref None in
         List.iteri (fun i (c, v) ->
           if !bad = None && not (check1 c v (qabs_ v)) then bad := Some (L [A "bad"; ai i; approx v])) (List.combine cl l);
         (match !bad with None -> A "ok" | Some b -> b)
       end
     | _, Ok (Some l) -> L [A "bad-shape"; ai (List.length l)]
     | _ -> A "err") in
  L [ L [A "n"; ai n];
      L [A "widths"; out_o (fun l -> L (List.map dyadic l)) (m_glyf_widths f)];
      L (A "gw" :: per (fun gid -> out_o dyadic (m_glyf_glyph_width f gid)));
      L [A "boxes"; L (List.map out_rect (m_glyf_glyph_bboxes f))];
      L (A "gbox" :: per (fun gid -> out_o out_rect (m_glyf_glyph_bbox f gid)));
      L [A "fbox"; out_rect (m_glyf_font_bbox f)];
      L (A "height" :: per (fun gid -> out_o az (m_glyf_glyph_height f gid)));
      L (A "name" :: per (fun gid -> out_o (fun o -> match o with Some k -> an k | None -> A "none") (m_glyf_glyph_name f gid)));
      L [A "fixed"; out_o ab (m_glyf_fixed_pitch f)];
      L (A "gbp" :: out_gbp); L [A "fbp"; out_fbp]; L [A "wpdf"; out_wpdf]; L (A "gwp" :: out_gwp) ]

let out_cols (boxes : rect list) (wq : q list) : sx =
  let (ws, ls) = m_hmtx_columns boxes wq in
  L [A "cols"; L (List.map az ws); L (List.map az ls)]


(* cff.Font's own queries *)
let run_cfont cid top fmats fdsel glyphs enc probes claims : sx =
  let f = sx_cff cid top fmats fdsel glyphs in
  let probes = List.map sx_int (lst probes) in
  let claims = lst claims in
  let n = int_of_nat (cf_numglyphs f) in
  let ws = m_cfont_widths f in
  let wmag gid (w : q) : q =
    let fa = glyph_matrix_abs f f.cf_top gid in
    (match glyph_matrix f f.cf_top gid with
     | Ok m -> qmul_ (qabs_ w) (qmul_ (qfactor_mag m fa) q_thousand)
     | _ -> q_one) in
  let gwp = find_claim claims "gwp" in
  let out_gwp = List.map2 (fun g c -> let gid = nat_of_int g in
                  let w = (match m_cff_glyph_width f gid with Ok w -> w | _ -> q_one) in
                  verdict_num c (m_cfont_glyph_width_pdf f gid) (wmag gid w)) probes gwp in
  let fbp_mag = list_max_q (List.init n (fun g -> cff_glyph_bbox_pdf_mag f f.cf_top (nat_of_int g))) { qnum = Z0; qden = XH } in
  let out_fbp = (match find_claim claims "fbp" with [c] -> verdict_rect c (m_cfont_font_bbox_pdf f) fbp_mag | _ -> failwith "fbp") in
  let out_wpdf =
    (match find_claim claims "wpdf", m_cfont_widths_pdf f with
     | _, Panic -> A "panic"
     | [L cl], Ok l ->
       if List.length cl <> List.length l then L [A "bad-length"; ai (List.length l)]
       else begin
         let bad = ref None in
         List.iteri (fun i (c, v) ->
           let fa = glyph_matrix_abs f f.cf_top (nat_of_int i) in
           let mag = qmul_ (qabs_ (List.nth ws i)) (qmul_ fa.m0 q_thousand) in
           if !bad = None && not (check1 c v mag) then bad := Some (L [A "bad"; ai i; approx v])) (List.combine cl l);
         (match !bad with None -> A "ok" | Some b -> b)
       end
     | _, Ok l -> L [A "bad-shape"; ai (List.length l)]
     | _ -> A "err") in
  let out_wmap =
    (match find_claim claims "wmap", m_cfont_widths_map_pdf f with
     | _, None -> A "nil"
     | [L cl], Some m ->
       let tbl = Hashtbl.create 16 in
       List.iter2 (fun (k, v) (g : glyph) -> Hashtbl.replace tbl (int_of_n k) (v, g.g_width)) m f.cf_glyphs;
       let qm = qmul_ (qfactor_mag f.cf_top (mat_abs f.cf_top)) q_thousand in
       let bad = ref None in
       if List.length cl <> Hashtbl.length tbl then bad := Some (L [A "bad-size"; ai (Hashtbl.length tbl)]);
       List.iter (fun e -> match e with
         | L [k; c] ->
           (match Hashtbl.find_opt tbl (sx_int k) with
            | None -> if !bad = None then bad := Some (L [A "bad-key"; k])
            | Some (v, w) ->
              if !bad = None && not (check1 c v (qmul_ (qabs_ w) qm)) then bad := Some (L [A "bad"; k; approx v]))
         | _ -> failwith "wmap entry") cl;
       (match !bad with None -> A "ok" | Some b -> b)
     | _, Some _ -> A "not-nil") in
  let encl = if is_nil enc then [] else List.map sx_nat (lst enc) in
  L [ L [A "n"; ai n];
      L (A "widths" :: List.map dyadic ws);
      L [A "bbox"; out_o out_rect (m_outlines_bbox f)];
      L [A "enc"; (match m_builtin_encoding encl f.cf_glyphs with None -> A "nil" | Some l -> L (List.map an l))];
      L [A "fbp"; out_fbp]; L [A "wpdf"; out_wpdf]; L (A "gwp" :: out_gwp); L [A "wmap"; out_wmap] ]

(* Clone on the store  FontInfo = [FontName; FontMatrix (array); ItalicAngle],
   Outlines = [Glyphs; Encoding; Private] (references to objects 0, 1, 2) *)
let run_clone ops : sx =
  let zl l = List.map z_of_int l in
  let s0 = { st_structs = [ [FScalar (z_of_int 7); FArray (zl [1; 0; 0; 1; 0; 0]); FScalar Z0];
                            [FRef (nat_of_int 0); FRef (nat_of_int 1); FRef (nat_of_int 2)] ];
             st_objs = [ zl [500; 600; 700]; zl [0; 0; 0; 0]; zl [11; 12] ] } in
  let f0 = { p_info = nat_of_int 0; p_outl = nat_of_int 1 } in
  let before = cfont_observe s0 f0 in
  L (List.map (fun op ->
      let (s1, f1) = m_clone s0 f0 in
      let loc which = if sx_int which = 0 then f1.p_info else f1.p_outl in
      let s2 = (match op with
        | L [A "set"; which; k] -> st_assign s1 (loc which) (sx_nat k) (FScalar (z_of_int 424242))
        | L [A "elem"; which; k; j] -> st_write_elem s1 (loc which) (sx_nat k) (sx_nat j) (z_of_int 424242)
        | _ -> failwith "bad clone op") in
      ab (cfont_observe s2 f0 <> before)) (lst ops))

let () = main_loop (fun c ->
  match c with
  | [A "extent"; cmds] ->
    out_o (fun r -> L (A "rect" :: (match out_rect r with L l -> l | x -> [x]))) (m_extent_cmds (List.map sx_cmd (lst cmds)))
  | [A ("cff" | "cffrt"); cid; top; fmats; fdsel; glyphs; probes; fm; claims] -> run_cff cid top fmats fdsel glyphs probes fm claims
  | [A ("glyf" | "glyfrt"); upem; top; glyphs; widths; names; probes; fm; claims] -> run_glyf upem top glyphs widths names probes fm claims
  | [A "wd"; A "cff"; cid; top; fmats; fdsel; glyphs; cmap] ->
    let f = sx_cff cid top fmats fdsel glyphs in
    (match m_cff_derived f (sx_cmap cmap), m_cff_glyph_bboxes f with
     | Ok d, Ok boxes -> L [out_derived d; out_cols boxes (m_cff_widths f)]
     | Panic, _ | _, Panic -> A "panic"
     | _ -> A "err")
  | [A "wd"; A "glyf"; upem; top; glyphs; widths; names; cmap] ->
    let f = sx_glyf upem top glyphs widths names in
    (match m_glyf_derived f (sx_cmap cmap), m_glyf_widths f with
     | Ok d, Ok ws ->
       L [out_derived d;
          (match f.gf_widths with
           | Some _ -> out_cols (m_glyf_glyph_bboxes f) ws
           | None -> L [A "cols"; A "nil"; A "nil"])]
     | Panic, _ | _, Panic -> A "panic"
     | _ -> A "err")
  | [A "cfont"; cid; top; fmats; fdsel; glyphs; enc; probes; claims] -> run_cfont cid top fmats fdsel glyphs enc probes claims
  | [A "clone"; ops] -> run_clone ops
  | [A "rh"; os2v; have; gid; n; heights] ->
    let hs = List.map sx_z (lst heights) in
    let height (g : nat) : z outcome = (match List.nth_opt hs (int_of_nat g) with Some h -> Ok h | None -> Panic) in
    out_o az (m_read_height (sx_z os2v) (sx_bool have) (sx_nat gid) (sx_nat n) height)
  | _ -> failwith "bad case")
