(* C01C/Proofs_cff.v — the law of the CFF table codec of Cff.v from C13B's
   write_read_roundtrip, for simple and for CID-keyed fonts. *)
From Coq Require Import List NArith ZArith Bool Arith Lia.
From Common Require Import Bytes Outcome.
From C01 Require Import Str Model Spec Model2.
From C13B Require ModelNum ModelFont Proofs_fields Proofs_simple Proofs_cid2 Props.
From C01B Require Import Model Spec.
From C01C Require Import Model Spec Cff Proofs_main.
Import ListNotations.
Local Open Scope Z_scope.

Lemma read_nil W : C13B.ModelFont.M_read (cv_std W) (cv_exp W) [] = Err.
Proof. reflexivity. Qed.

(* simple fonts *)
Lemma cff_law_simple W cf ci o p bytes :
  let cf' := set_info cf (fi_of W ci) in
  C13B.Proofs_simple.write_size_ok (cv_std W) (cv_exp W) cf' ->
  C13B.ModelFont.M_write (cv_std W) (cv_exp W) cf' = Ok bytes ->
  C13B.Proofs_simple.font_ok_simple cf' -> C13B.ModelFont.f_private cf' = [p] -> C13B.Proofs_fields.pd_ok p ->
  ci_of W (C13B.Proofs_simple.font_nf_simple (cv_std W) cf' p) = ci ->
  outl_of_rf W (C13B.Proofs_simple.font_nf_simple (cv_std W) cf' p) = codec_outl o ->
  cff_encode W cf ci <> [] /\ cff_decode W (cff_encode W cf ci) = Ok (ci, codec_outl o).
Proof.
  cbv zeta. intros Hs Hw Hok Hp Hpd Hci Hol.
  destruct (C13B.Props.write_read_roundtrip (cv_std W) (cv_exp W) _ bytes Hs Hw) as [Hsimple _].
  pose proof (Hsimple p Hok Hp Hpd) as Hr.
  unfold cff_encode. rewrite Hw. cbn [bytes_or_nil]. split.
  - intros ->. rewrite read_nil in Hr. discriminate.
  - unfold cff_decode. rewrite Hr. cbn [obind]. now rewrite Hci, Hol.
Qed.

(* CID-keyed fonts *)
Lemma cff_law_cid W cf ci o reg ord sup bytes :
  let cf' := set_info cf (fi_of W ci) in
  C13B.Proofs_simple.write_size_ok (cv_std W) (cv_exp W) cf' ->
  C13B.ModelFont.M_write (cv_std W) (cv_exp W) cf' = Ok bytes ->
  C13B.Proofs_cid2.font_ok_cid cf' reg ord sup ->
  ci_of W (C13B.Proofs_cid2.font_nf_cid cf' reg ord sup) = ci ->
  outl_of_rf W (C13B.Proofs_cid2.font_nf_cid cf' reg ord sup) = codec_outl o ->
  cff_encode W cf ci <> [] /\ cff_decode W (cff_encode W cf ci) = Ok (ci, codec_outl o).
Proof.
  cbv zeta. intros Hs Hw Hok Hci Hol.
  destruct (C13B.Props.write_read_roundtrip (cv_std W) (cv_exp W) _ bytes Hs Hw) as [_ Hcid].
  pose proof (Hcid reg ord sup Hok) as Hr.
  unfold cff_encode. rewrite Hw. cbn [bytes_or_nil]. split.
  - intros ->. rewrite read_nil in Hr. discriminate.
  - unfold cff_decode. rewrite Hr. cbn [obind]. now rewrite Hci, Hol.
Qed.

(* the normal form C13B's reader returns for the CFF font written *)
Definition cff_normal_form (W : cff_views) (cf' : C13B.ModelFont.font) (rf : C13B.ModelFont.rfont) : Prop :=
  (exists p, C13B.Proofs_simple.font_ok_simple cf' /\ C13B.ModelFont.f_private cf' = [p] /\
             C13B.Proofs_fields.pd_ok p /\ rf = C13B.Proofs_simple.font_nf_simple (cv_std W) cf' p) \/
  (exists reg ord sup, C13B.Proofs_cid2.font_ok_cid cf' reg ord sup /\
                       rf = C13B.Proofs_cid2.font_nf_cid cf' reg ord sup).

(* the domain of C13B's write_read_roundtrip for the CFF font of a description, and the
   glue: FontInfo and outlines of the normal form are the font's *)
Record cff_ok (V : views) (W : cff_views) (cf : C13B.ModelFont.font) (D : desc) (B : font) : Prop := mkCffOk {
  co_choose_win : forall t tt, only_key tag_en_US t tt -> v_choose_win V tt = (Some t, 3%N);
  co_choose_mac : forall t tt, only_key tag_en t tt -> v_choose_mac V tt = (Some t, 3%N);
  co_caret_rng : I16 (fst (v_caret V (f_angle B))) /\ I16 (snd (v_caret V (f_angle B)));
  co_caret : v_angle V (fst (v_caret V (f_angle B))) (snd (v_caret V (f_angle B))) = f_angle B;
  co_cff : forall o, d_cff D = Some o ->
      let F := font_of (with_cff V W cf) D B in
      let ci := cffinfo_of F (font_widths o) in
      let cf' := set_info cf (fi_of W ci) in
      length (v_cff_boxes V o) = N.to_nat (ol_n o) /\ Forall box_ok (v_cff_boxes V o) /\
      C13B.Proofs_simple.write_size_ok (cv_std W) (cv_exp W) cf' /\
      (exists bytes, C13B.ModelFont.M_write (cv_std W) (cv_exp W) cf' = Ok bytes) /\
      exists rf, cff_normal_form W cf' rf /\ ci_of W rf = ci /\ outl_of_rf W rf = codec_outl o
}.

(* ... gives the remaining hypotheses of the concrete theorems, the CFF clause discharged *)
Theorem ext_ok_with_cff V W cf D B : cff_ok V W cf D B -> ext_ok (with_cff V W cf) D B.
Proof.
  intros H. constructor.
  - exact (co_choose_win V W cf D B H).
  - exact (co_choose_mac V W cf D B H).
  - exact (co_caret_rng V W cf D B H).
  - exact (co_caret V W cf D B H).
  - intros o Ho. cbv zeta.
    destruct (co_cff V W cf D B H o Ho) as (Hl & Hb & Hs & (bytes & Hw) & rf & Hnf & Hci & Hol).
    cbn [with_cff v_cff_boxes v_cff_enc v_cff_dec].
    split; [exact Hl|]. split; [exact Hb|].
    destruct Hnf as [(p & Hok & Hp & Hpd & ->) | (reg & ord & sup & Hok & ->)].
    + exact (cff_law_simple W cf _ o p bytes Hs Hw Hok Hp Hpd Hci Hol).
    + exact (cff_law_cid W cf _ o reg ord sup bytes Hs Hw Hok Hci Hol).
Qed.

(* the file-level theorems with the CFF table codec of C13B: what remains is cff_ok *)
Theorem normal_form_concrete_cff V W cf D B :
  let V' := with_cff V W cf in
  desc_ok V' D B -> cff_ok V W cf D B ->
  exists b, M_write_file V' D B = Ok b /\ M_read_file V' b = Ok (normalize (font_of V' D B)).
Proof. cbv zeta. intros K H. exact (normal_form_concrete _ D B K (ext_ok_with_cff V W cf D B H)). Qed.

Theorem fixed_point_concrete_cff V W cf D B :
  let V' := with_cff V W cf in
  let N1 := normalize (font_of V' D B) in
  desc_ok V' D B -> cff_ok V W cf D B -> lig_ok V' D B ->
  desc_ok V' (norm_desc V' D B) N1 -> cff_ok V W cf (norm_desc V' D B) N1 ->
  exists b1 b2,
    M_write_file V' D B = Ok b1 /\ M_read_file V' b1 = Ok N1 /\
    M_write_file V' (norm_desc V' D B) N1 = Ok b2 /\ M_read_file V' b2 = Ok N1.
Proof.
  cbv zeta. intros K H Hl K1 H1.
  exact (fixed_point_concrete _ D B K (ext_ok_with_cff V W cf D B H) Hl K1 (ext_ok_with_cff V W cf _ _ H1)).
Qed.
