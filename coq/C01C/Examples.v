(* C01C/Examples.v — non-vacuity: a TrueType font ALL of whose tables are described
   by model values (cmap table of C09's examples, glyph list of C11's examples
   with simple and composite glyphs, GSUB and GPOS tables of C08D's examples
   with every subtable kind they hold, a GDEF table, post format 2 with custom
   glyph names, a pass-through table) and a CFF font (the CFF table through a
   view), concrete views, every precondition and remaining hypothesis
   established, the cycle evaluated inside Coq; and the witness that the
   255-byte bound on glyph names is needed. *)
From Coq Require Import List NArith ZArith Bool Lia.
From Common Require Import Bytes Outcome.
From Gen Require Import Consts C03.
From C01 Require Import Str Model Spec Model2.
From C03 Require Model Spec.
From C08 Require ModelGDEF.
From C08D Require Model Examples.
From C09 Require ModelT Proofs_Trt Examples.
From C11 Require Model Examples.
From C12 Require Model Util.
From C14 Require Model.
From C14B Require Model.
From C01B Require Import Model Spec.
From C13B Require ModelNum ModelFont ModelCDict Proofs_num Proofs_fields Proofs_simple Proofs_cid2 Examples.
From C01C Require Import Utf8 Model Spec Proofs_main Cff Proofs_cff Props.
Import ListNotations.
Local Open Scope Z_scope.

(* ---- concrete views ---- *)

Definition ex_choose (tag : list N) (tt : stabs) : option C14B.Model.stable * N :=
  match C14B.Model.stabs_find tt tag with Some t => (Some t, 3%N) | None => (None, 0%N) end.

Definition ex_views (cffb : t_cffinfo * outl) : views :=
  mkViews
    (fun gg ex => N.of_nat (length gg) * 100 + N.of_nat (length ex))%N
    (fun t o => match t with C08D.Model.GSUB => 11%N | C08D.Model.GPOS => 12%N end)
    (fun _ => 13%N)
    (fun l => N.of_nat (length l))
    (fun l => 14%N)
    (fun t => mkCmap (N.of_nat (length t)) true 1 2 None)
    (fun _ => Some (65, 66))
    (ex_choose tag_en_US) (ex_choose tag_en)
    (fun _ => [50; 48; 50; 51; 45; 49; 49; 45; 49; 52]%N)      (* "2023-11-14" *)
    (fun _ _ => true)
    (fun _ => (1, 0)) (fun _ _ => 0)
    (fun _ => Err)
    (fun _ _ => [1; 0; 4; 1]%N)
    (fun b => if (length b =? 4)%nat then Ok cffb else Err)
    (fun o => repeat (C12.Model.mkRect 0 0 500 700) (N.to_nat (ol_n o))).

Definition ex_dummy_cff : t_cffinfo * outl :=
  (mkCffInfo [] [] [] [] [] [] [] 0 0 0 false false 0, mkOutl true 0 1 [0] None None None).

Definition V0 := ex_views ex_dummy_cff.

(* ---- a TrueType font, every table described ---- *)

Definition ex_gdef : C08.ModelGDEF.gdef :=
  {| C08.ModelGDEF.g_gc := Some [(1, 1); (2, 3)]%N; C08.ModelGDEF.g_mac := None;
     C08.ModelGDEF.g_sets := Some [[1; 2]%N] |}.

Definition ex_names : list (list N) :=
  [[46; 110; 111; 116; 100; 101; 102]; [65]; [103; 49]; [103; 50]; [103; 51]; [66]; [103; 52]; [103; 53]]%N.

Definition ex_desc : desc :=
  mkDesc (Some C09.Examples.ex_t) C11.Examples.ex_gg [(be32 tag_cvt, [0; 16; 0; 32; 7]%N)]
         (Some [500; 600; 0; 250; 250; 700; 0; 300]) (Some ex_names) (Some (repeat 3%N 13))
         (Some ex_gdef) (Some C08D.Examples.ex_gsub) (Some C08D.Examples.ex_gpos) None None.

(* the scalar and string fields (REGULAR together with BOLD, a permission value outside
   0..3: the normal form differs from the value) *)
Definition ex_base : font :=
  mkFont [84; 101; 115; 116]%N 5 400 true true false false true false 3 65536 (Some 1700000000) None
         [100]%N [] [67; 32; 50]%N [] [] [] 7 1000 800 (-200) 90 700 0 0 (-6553600) 3276800
         (mkOutl false 0 0 [] None None None) None None None None.

Definition ex_font : font := font_of V0 ex_desc ex_base.

Ltac rng := unfold U32, U16, U64, I16, I32, I64, C12.Util.U32, C12.Util.U16, C12.Util.U64,
                   C12.Util.I16, C12.Util.I32, C12.Util.I64; cbn; lia.
Ltac values :=
  constructor; try rng; try exact I;
  try (cbn; split; [rng|discriminate]);
  try (cbn; repeat constructor; rng).

Lemma ex_values : value_range ex_font.
Proof. values. Qed.

Example ex_desc_ok : desc_ok V0 ex_desc ex_base.
Proof.
  constructor.
  - vm_compute. reflexivity.
  - exact ex_values.
  - cbn [cmap_ok ex_desc d_cmap]. split; [exact (proj1 C09.Examples.ex_t_hyps)|].
    split; [exact (proj2 C09.Examples.ex_t_hyps)|]. split; [cbn; lia|cbn; lia].
  - intros _. vm_compute. reflexivity.
  - intros o H. discriminate.
  - vm_compute. reflexivity.
  - vm_compute. reflexivity.
  - vm_compute. reflexivity.
  - vm_compute. reflexivity.
  - vm_compute. reflexivity.
  - intros s ts H. vm_compute in H. injection H as <- <-. vm_compute. reflexivity.
Qed.

Lemma list_eqb_refl (l : list N) : C14.Model.list_eqb l l = true.
Proof. induction l as [|x r IH]; [reflexivity|]. cbn [C14.Model.list_eqb]. rewrite N.eqb_refl. exact IH. Qed.

Lemma ex_choose_exact tag t tt : only_key tag t tt -> ex_choose tag tt = (Some t, 3%N).
Proof. intros H. unfold ex_choose. rewrite (H tag), list_eqb_refl. reflexivity. Qed.

Example ex_ext_ok : ext_ok V0 ex_desc ex_base.
Proof.
  constructor.
  - intros t tt. apply ex_choose_exact.
  - intros t tt. apply ex_choose_exact.
  - split; rng.
  - reflexivity.
  - intros o H. discriminate.
Qed.

(* the cycle, evaluated: 13 tables, every one computed by a model, accepted by C03's
   container checker, read back as the normal form (which differs from the value) *)
Example ex_cycle :
  exists b, M_write_file V0 ex_desc ex_base = Ok b /\
            C03.Model.container_ok b = true /\
            map (fun e => fst (fst (fst e))) (file_directory b) =
              [tag_GDEF; tag_GPOS; tag_GSUB; tag_OS2; tag_cmap; tag_cvt; tag_glyf; tag_head; tag_hhea;
               tag_hmtx; tag_loca; tag_maxp; tag_name; tag_post] /\
            M_read_file V0 b = Ok (normalize ex_font) /\ normalize ex_font <> ex_font.
Proof.
  eexists. split; [vm_compute; reflexivity|]. vm_compute. repeat split; try reflexivity. discriminate.
Qed.

(* the normal form is described by norm_desc and in the domain again *)
Example ex_lig_ok : lig_ok V0 ex_desc ex_base.
Proof. intros H. discriminate. Qed.

Definition ex_nfont : font := Eval vm_compute in normalize ex_font.
Lemma ex_nfont_eq : ex_nfont = normalize ex_font.
Proof. vm_compute. reflexivity. Qed.

Example ex_norm_desc_ok : desc_ok V0 (norm_desc V0 ex_desc ex_base) (normalize ex_font).
Proof.
  rewrite <- ex_nfont_eq. constructor.
  - vm_compute. reflexivity.
  - values.
  - cbn [cmap_ok norm_desc ex_desc d_cmap]. split; [exact (proj1 C09.Examples.ex_t_hyps)|].
    split; [exact (proj2 C09.Examples.ex_t_hyps)|]. split; [cbn; lia|cbn; lia].
  - intros _. vm_compute. reflexivity.
  - intros o H. discriminate.
  - vm_compute. reflexivity.
  - vm_compute. reflexivity.
  - vm_compute. reflexivity.
  - vm_compute. reflexivity.
  - vm_compute. reflexivity.
  - intros s ts H. vm_compute in H. injection H as <- <-. vm_compute. reflexivity.
Qed.

Example ex_norm_ext_ok : ext_ok V0 (norm_desc V0 ex_desc ex_base) (normalize ex_font).
Proof.
  rewrite <- ex_nfont_eq. constructor.
  - intros t tt. apply ex_choose_exact.
  - intros t tt. apply ex_choose_exact.
  - split; rng.
  - reflexivity.
  - intros o H. discriminate.
Qed.

(* ---- a CFF font: name, post, cmap, GPOS real; the CFF table through the view ---- *)

Definition ex_cff_outl : outl := mkOutl true 88 2 [0; 650] (Some [0; 555]) None None.
Definition ex_cff_desc : desc :=
  mkDesc (Some C09.Examples.ex_t) [] [] None None None None None (Some C08D.Examples.ex_gpos) None (Some ex_cff_outl).
Definition ex_cff_base : font :=
  mkFont [67; 102]%N 5 700 false true false false false false 0 131072 None (Some 1700000000)
         [] [] [] [] [] [] 2 1000 750 (-250) 0 700 500 0 (-4915200) 1638400
         (mkOutl false 0 0 [] None None None) None None None None.
Definition V1 : views :=
  ex_views (cffinfo_of (font_of V0 ex_cff_desc ex_cff_base) (font_widths ex_cff_outl), codec_outl ex_cff_outl).

Example ex_cff_desc_ok : desc_ok V1 ex_cff_desc ex_cff_base.
Proof.
  constructor.
  - vm_compute. reflexivity.
  - values.
  - cbn [cmap_ok ex_cff_desc d_cmap]. split; [exact (proj1 C09.Examples.ex_t_hyps)|].
    split; [exact (proj2 C09.Examples.ex_t_hyps)|]. split; [cbn; lia|cbn; lia].
  - intros H. discriminate.
  - intros o H. injection H as <-. reflexivity.
  - reflexivity.
  - vm_compute. reflexivity.
  - reflexivity.
  - reflexivity.
  - vm_compute. reflexivity.
  - intros s ts H. vm_compute in H. injection H as <- <-. vm_compute. reflexivity.
Qed.

Example ex_cff_ext_ok : ext_ok V1 ex_cff_desc ex_cff_base.
Proof.
  constructor.
  - intros t tt. apply ex_choose_exact.
  - intros t tt. apply ex_choose_exact.
  - split; rng.
  - reflexivity.
  - intros o H. injection H as <-. cbv zeta. split; [reflexivity|]. split.
    + cbn. repeat constructor; unfold box_ok, I16, C12.Util.I16; cbn; lia.
    + split; [discriminate|reflexivity].
Qed.

Example ex_cff_cycle :
  exists b, M_write_file V1 ex_cff_desc ex_cff_base = Ok b /\ C03.Model.container_ok b = true /\
            M_read_file V1 b = Ok (normalize (font_of V1 ex_cff_desc ex_cff_base)).
Proof. eexists. split; [vm_compute; reflexivity|]. vm_compute. split; reflexivity. Qed.

(* ---- the bound on glyph names is needed ---- *)

(* a glyph name of 256 bytes: post.Encode writes its length as byte(256) = 0, the names
   behind it are misread and sfnt.Read rejects the file Font.Write produced without an
   error (replayed on the real code: "post table: unexpected EOF") *)
Definition long_name : list N := repeat 97%N 256.
Definition ex_long_desc : desc :=
  mkDesc (Some C09.Examples.ex_t) C11.Examples.ex_gg [] (Some [500; 600; 0; 250; 250; 700; 0; 300])
         (Some [[46; 110]%N; [65]%N; long_name; [103; 50]%N; [103; 51]%N; [66]%N; [103; 52]%N; [103; 53]%N])
         (Some (repeat 3%N 13)) None None None None None.

Example long_glyph_name_refuted :
  post_names_okb (d_postnames ex_long_desc) = false /\
  in_range (font_of V0 ex_long_desc ex_base) = true /\
  exists b, M_write_file V0 ex_long_desc ex_base = Ok b /\ M_read_file V0 b = Err.
Proof.
  split; [vm_compute; reflexivity|]. split; [vm_compute; reflexivity|].
  eexists. split; [vm_compute; reflexivity|]. vm_compute. reflexivity.
Qed.

(* ---- CFF fonts whose "CFF " table is written and read by C13B's model: a simple font
   (C13B.Examples.font1, three glyphs, a custom glyph name, a private dictionary away
   from the defaults) and a CID-keyed one (font3, two private dictionaries), the FontInfo
   replaced by the font's; concrete float and charstring views; cff_ok established, the
   cycle evaluated inside Coq ---- *)

Definition ex_fix (r : C13B.ModelNum.real) : Z :=
  (if C13B.ModelNum.r_neg r then -1 else 1) * C13B.ModelNum.r_mant r * 10 ^ C13B.ModelNum.r_exp r * 65536.

Definition ex_cff_views (hs ws : list Z) : cff_views :=
  mkCffViews C13B.Examples.ex_std C13B.Examples.ex_exp
    (fun z => C13B.ModelNum.real_of_Z (z / 65536)) ex_fix
    (fun upm => if (upm =? 1000)%N then C13B.ModelCDict.rdefault_fm else repeat C13B.ModelNum.R0 6)
    (fun fm => match fm with
               | r :: _ => ((C13B.ModelNum.r_mant r =? 0), if C13B.ModelNum.real_eqb r (C13B.ModelNum.mkReal false 1 (-3)) then 1000%N else 0%N)
               | [] => (true, 0%N) end)
    (fun _ => 88%N) (fun _ => hs) (fun _ => ws).
Definition W1 := ex_cff_views [0; 650; 650] [0; 555; 555].

Definition ex_cffr_outl : outl := mkOutl true 88 3 [0; 650; 650] (Some [0; 555; 555]) None None.
Definition ex_cffr_desc : desc :=
  mkDesc (Some C09.Examples.ex_t) [] [] None None None None None (Some C08D.Examples.ex_gpos) None (Some ex_cffr_outl).
Definition V2 : views := with_cff V0 W1 C13B.Examples.font1.

Definition ex_ci := Eval vm_compute in cffinfo_of (font_of V2 ex_cffr_desc ex_cff_base) (font_widths ex_cffr_outl).

Definition ex_cf' := set_info C13B.Examples.font1 (fi_of W1 ex_ci).
Definition ex_nf := C13B.Proofs_simple.font_nf_simple C13B.Examples.ex_std ex_cf' C13B.Examples.pd1.

Example ex_cf'_ok : C13B.Proofs_simple.font_ok_simple ex_cf'.
Proof.
  destruct C13B.Examples.ex_font1_ok as [(H1 & H2 & _ & H4 & H5 & H6 & H7 & H8) _].
  refine (conj H1 (conj H2 (conj _ (conj H4 (conj H5 (conj H6 (conj H7 H8))))))).
  unfold C13B.Proofs_fields.fi_ok, C13B.Proofs_num.real_ok.
  repeat split; try (vm_compute; reflexivity).
  repeat constructor; vm_compute; reflexivity.
Qed.

Example ex_cf'_size : C13B.Proofs_simple.write_size_ok C13B.Examples.ex_std C13B.Examples.ex_exp ex_cf'.
Proof. intros secs H. vm_compute in H. injection H as <-. vm_compute. reflexivity. Qed.

Example ex_cffr_desc_ok : desc_ok V2 ex_cffr_desc ex_cff_base.
Proof.
  constructor.
  - vm_compute. reflexivity.
  - values.
  - cbn [cmap_ok ex_cffr_desc d_cmap]. split; [exact (proj1 C09.Examples.ex_t_hyps)|].
    split; [exact (proj2 C09.Examples.ex_t_hyps)|]. split; [cbn; lia|cbn; lia].
  - intros H. discriminate.
  - intros o H. injection H as <-. reflexivity.
  - reflexivity.
  - vm_compute. reflexivity.
  - reflexivity.
  - reflexivity.
  - vm_compute. reflexivity.
  - intros s ts H. vm_compute in H. injection H as <- <-. vm_compute. reflexivity.
Qed.

Example ex_cffr_ok : cff_ok V0 W1 C13B.Examples.font1 ex_cffr_desc ex_cff_base.
Proof.
  constructor.
  - intros t tt. apply ex_choose_exact.
  - intros t tt. apply ex_choose_exact.
  - split; rng.
  - reflexivity.
  - intros o H. injection H as <-. cbv zeta.
    change (cffinfo_of (font_of (with_cff V0 W1 C13B.Examples.font1) ex_cffr_desc ex_cff_base) (font_widths ex_cffr_outl)) with ex_ci.
    split; [reflexivity|]. split.
    { cbn. repeat constructor; unfold box_ok, I16, C12.Util.I16; cbn; lia. }
    split; [exact ex_cf'_size|]. split; [eexists; vm_compute; reflexivity|].
    exists ex_nf. split; [|split; vm_compute; reflexivity].
    left. exists C13B.Examples.pd1. split; [exact ex_cf'_ok|]. split; [reflexivity|].
    split; [exact C13B.Examples.ex_pd_ok|reflexivity].
Qed.

Example ex_cffr_cycle :
  exists b, M_write_file V2 ex_cffr_desc ex_cff_base = Ok b /\ C03.Model.container_ok b = true /\
            M_read_file V2 b = Ok (normalize (font_of V2 ex_cffr_desc ex_cff_base)).
Proof. eexists. split; [vm_compute; reflexivity|]. vm_compute. split; reflexivity. Qed.

(* CID-keyed *)
Definition W3 := ex_cff_views [0; 650; 650; 700] [0; 555; 555; 555].
Definition ex_cid_outl : outl := mkOutl true 88 4 [0; 650; 650; 700] (Some [0; 555; 555; 555]) None None.
Definition ex_cid_desc : desc :=
  mkDesc (Some C09.Examples.ex_t) [] [] None None None None None (Some C08D.Examples.ex_gpos) None (Some ex_cid_outl).
Definition V3 : views := with_cff V0 W3 C13B.Examples.font3.
Definition ex_cid_ci := Eval vm_compute in cffinfo_of (font_of V3 ex_cid_desc ex_cff_base) (font_widths ex_cid_outl).
Definition ex_cid_cf' := set_info C13B.Examples.font3 (fi_of W3 ex_cid_ci).
Definition ex_cid_nf := C13B.Proofs_cid2.font_nf_cid ex_cid_cf' [65; 100; 111; 98; 101]%N [73; 100]%N 3.

Example ex_cid_cf'_ok : C13B.Proofs_cid2.font_ok_cid ex_cid_cf' [65; 100; 111; 98; 101]%N [73; 100]%N 3.
Proof.
  destruct C13B.Examples.ex_font3_ok as (H1 & H2 & H3 & _ & H5).
  refine (conj H1 (conj H2 (conj H3 (conj _ H5)))).
  unfold C13B.Proofs_fields.fi_ok, C13B.Proofs_num.real_ok.
  repeat split; try (vm_compute; reflexivity).
  repeat constructor; vm_compute; reflexivity.
Qed.

Example ex_cid_cf'_size : C13B.Proofs_simple.write_size_ok C13B.Examples.ex_std C13B.Examples.ex_exp ex_cid_cf'.
Proof. intros secs H. vm_compute in H. injection H as <-. vm_compute. reflexivity. Qed.

Example ex_cid_desc_ok : desc_ok V3 ex_cid_desc ex_cff_base.
Proof.
  constructor.
  - vm_compute. reflexivity.
  - values.
  - cbn [cmap_ok ex_cid_desc d_cmap]. split; [exact (proj1 C09.Examples.ex_t_hyps)|].
    split; [exact (proj2 C09.Examples.ex_t_hyps)|]. split; [cbn; lia|cbn; lia].
  - intros H. discriminate.
  - intros o H. injection H as <-. reflexivity.
  - reflexivity.
  - vm_compute. reflexivity.
  - reflexivity.
  - reflexivity.
  - vm_compute. reflexivity.
  - intros s ts H. vm_compute in H. injection H as <- <-. vm_compute. reflexivity.
Qed.

Example ex_cid_ok : cff_ok V0 W3 C13B.Examples.font3 ex_cid_desc ex_cff_base.
Proof.
  constructor.
  - intros t tt. apply ex_choose_exact.
  - intros t tt. apply ex_choose_exact.
  - split; rng.
  - reflexivity.
  - intros o H. injection H as <-. cbv zeta.
    change (cffinfo_of (font_of (with_cff V0 W3 C13B.Examples.font3) ex_cid_desc ex_cff_base) (font_widths ex_cid_outl)) with ex_cid_ci.
    split; [reflexivity|]. split.
    { cbn. repeat constructor; unfold box_ok, I16, C12.Util.I16; cbn; lia. }
    split; [exact ex_cid_cf'_size|]. split; [eexists; vm_compute; reflexivity|].
    exists ex_cid_nf. split; [|split; vm_compute; reflexivity].
    right. exists [65; 100; 111; 98; 101]%N, [73; 100]%N, 3. split; [exact ex_cid_cf'_ok|reflexivity].
Qed.

Example ex_cid_cycle :
  exists b, M_write_file V3 ex_cid_desc ex_cff_base = Ok b /\ C03.Model.container_ok b = true /\
            M_read_file V3 b = Ok (normalize (font_of V3 ex_cid_desc ex_cff_base)).
Proof. eexists. split; [vm_compute; reflexivity|]. vm_compute. split; reflexivity. Qed.

Example ex_cffr_theorem := file_read_write_normal_form_concrete_cff V0 W1 C13B.Examples.font1 _ _ ex_cffr_desc_ok ex_cffr_ok.
Example ex_cid_theorem := file_read_write_normal_form_concrete_cff V0 W3 C13B.Examples.font3 _ _ ex_cid_desc_ok ex_cid_ok.
