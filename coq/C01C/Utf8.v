(* C01C/Utf8.v — Go strings as byte lists (C01) and as rune lists (C14).

   utf8_decode is `for _, r := range s` / []rune(s): well-formed sequences
   (shortest form, no surrogates, at most U+10FFFF) give their scalar value,
   every other byte gives U+FFFD and is consumed alone.  utf8_encode is
   string(runes) / utf8.AppendRune for scalar values (others give U+FFFD).
   u8_ok s is "s is what its runes spell": the strings for which the two
   representations carry the same information.  Executable definitions only. *)
From Coq Require Import List NArith Bool Arith.
Import ListNotations.
Local Open Scope N_scope.

Definition cont (b : N) : bool := (128 <=? b) && (b <=? 191).

(* one rune and the number of bytes it takes *)
Definition utf8_first (l : list N) : N * nat :=
  match l with
  | [] => (65533, 1%nat)
  | a :: r =>
    if a <? 128 then (a, 1%nat)
    else if (194 <=? a) && (a <=? 223) then
      match r with
      | b :: _ => if cont b then ((a - 192) * 64 + (b - 128), 2%nat) else (65533, 1%nat)
      | _ => (65533, 1%nat)
      end
    else if (224 <=? a) && (a <=? 239) then
      match r with
      | b :: c :: _ =>
        let lo := if a =? 224 then 160 else 128 in
        let hi := if a =? 237 then 159 else 191 in
        if (lo <=? b) && (b <=? hi) && cont c
        then ((a - 224) * 4096 + (b - 128) * 64 + (c - 128), 3%nat) else (65533, 1%nat)
      | _ => (65533, 1%nat)
      end
    else if (240 <=? a) && (a <=? 244) then
      match r with
      | b :: c :: d :: _ =>
        let lo := if a =? 240 then 144 else 128 in
        let hi := if a =? 244 then 143 else 191 in
        if (lo <=? b) && (b <=? hi) && cont c && cont d
        then ((a - 240) * 262144 + (b - 128) * 4096 + (c - 128) * 64 + (d - 128), 4%nat)
        else (65533, 1%nat)
      | _ => (65533, 1%nat)
      end
    else (65533, 1%nat)
  end.

Fixpoint utf8_decode_fuel (fuel : nat) (l : list N) : list N :=
  match fuel with
  | O => []
  | S f =>
    match l with
    | [] => []
    | _ => let '(r, k) := utf8_first l in r :: utf8_decode_fuel f (skipn k l)
    end
  end.
Definition utf8_decode (l : list N) : list N := utf8_decode_fuel (length l) l.

Definition utf8_encode1 (r : N) : list N :=
  if r <? 128 then [r]
  else if r <? 2048 then [192 + r / 64; 128 + r mod 64]
  else if ((55296 <=? r) && (r <=? 57343)) || (1114111 <? r) then [239; 191; 189]
  else if r <? 65536 then [224 + r / 4096; 128 + (r / 64) mod 64; 128 + r mod 64]
  else [240 + r / 262144; 128 + (r / 4096) mod 64; 128 + (r / 64) mod 64; 128 + r mod 64].
Definition utf8_encode (rs : list N) : list N := flat_map utf8_encode1 rs.

Fixpoint bytes_eqb (a b : list N) : bool :=
  match a, b with
  | [], [] => true
  | x :: a', y :: b' => (x =? y) && bytes_eqb a' b'
  | _, _ => false
  end.

Definition u8_ok (s : list N) : bool := bytes_eqb (utf8_encode (utf8_decode s)) s.

Lemma bytes_eqb_eq a : forall b, bytes_eqb a b = true -> a = b.
Proof.
  induction a as [|x a IH]; intros [|y b] H; cbn in H; try discriminate; [reflexivity|].
  apply andb_true_iff in H. destruct H as [H1 H2]. apply N.eqb_eq in H1. subst. f_equal. now apply IH.
Qed.

Lemma u8_ok_spec s : u8_ok s = true -> utf8_encode (utf8_decode s) = s.
Proof. apply bytes_eqb_eq. Qed.
