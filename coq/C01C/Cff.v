(* C01C/Cff.v — the "CFF " table codec from C13B's model of cff.Font.Write /
   cff.Read (simple and CID-keyed fonts), composed with the glue between the
   font and its CFF table: makeCFF hands Font.GetFontInfo() to the CFF writer,
   Read takes the FontInfo and the outlines back.

   C13B's model takes the charstrings (opaque bytes), the integer default /
   nominal widths and decimal reals as given.  What lies between C01's values
   and these is collected in [cff_views]: the decimal a 16.16 value is
   formatted to and the 16.16 value of a decimal (float formatting: strconv),
   the FontMatrix of a unitsPerEm value and back, and what the charstring
   interpreter (C04/C05) makes of the charstrings: identity, heights, widths.
   Executable definitions only. *)
From Coq Require Import List NArith ZArith Bool.
From Common Require Import Bytes Outcome.
From C01 Require Import Str Model Spec Model2.
From C13B Require ModelNum ModelFont.
From C01B Require Import Model Spec.
From C01C Require Import Model.
Import ListNotations.
Local Open Scope Z_scope.

Record cff_views : Type := mkCffViews {
  cv_std : list N -> option N;                       (* psenc.StandardEncodingRev *)
  cv_exp : list N -> option N;                       (* expertEnc *)
  cv_real : Z -> C13B.ModelNum.real;                 (* 16.16 value -> the decimal written *)
  cv_fix : C13B.ModelNum.real -> Z;                  (* decimal read -> 16.16 value *)
  cv_matrix : N -> list C13B.ModelNum.real;          (* FontMatrix for unitsPerEm *)
  cv_upm : list C13B.ModelNum.real -> bool * N;      (* FontMatrix[0] == 0, uint16(round(1/FontMatrix[0])) *)
  cv_id : C13B.ModelFont.rfont -> N;
  cv_heights : C13B.ModelFont.rfont -> list Z;
  cv_widths : C13B.ModelFont.rfont -> list Z
}.

(* Font.GetFontInfo() as the CFF writer's type1.FontInfo *)
Definition fi_of (W : cff_views) (ci : t_cffinfo) : C13B.ModelFont.fontinfo :=
  C13B.ModelFont.mkInfo (c_fontname ci) (c_version ci) (c_notice ci) (c_copyright ci) (c_fullname ci)
    (c_family ci) (c_weight ci) (cv_real W (c_angle ci)) (c_fixed ci)
    (cv_real W (c_upos ci)) (cv_real W (c_uthick ci)) (cv_matrix W (c_upm_from_fm ci)).

(* what read.go takes from the FontInfo cff.Read returns *)
Definition ci_of (W : cff_views) (rf : C13B.ModelFont.rfont) : t_cffinfo :=
  let fi := C13B.ModelFont.rf_info rf in
  mkCffInfo (C13B.ModelFont.fi_FontName fi) (C13B.ModelFont.fi_FullName fi) (C13B.ModelFont.fi_FamilyName fi)
    (C13B.ModelFont.fi_Weight fi) (C13B.ModelFont.fi_Version fi) (C13B.ModelFont.fi_Copyright fi)
    (C13B.ModelFont.fi_Notice fi) (cv_fix W (C13B.ModelFont.fi_ItalicAngle fi))
    (cv_fix W (C13B.ModelFont.fi_UnderlinePosition fi)) (cv_fix W (C13B.ModelFont.fi_UnderlineThickness fi))
    (C13B.ModelFont.fi_IsFixedPitch fi)
    (fst (cv_upm W (C13B.ModelFont.fi_FontMatrix fi))) (snd (cv_upm W (C13B.ModelFont.fi_FontMatrix fi))).

Definition outl_of_rf (W : cff_views) (rf : C13B.ModelFont.rfont) : outl :=
  mkOutl true (cv_id W rf) (N.of_nat (length (C13B.ModelFont.rf_glyphs rf))) (cv_heights W rf)
         (Some (cv_widths W rf)) None None.

Definition set_info (cf : C13B.ModelFont.font) (fi : C13B.ModelFont.fontinfo) : C13B.ModelFont.font :=
  C13B.ModelFont.mkFont fi (C13B.ModelFont.f_ros cf) (C13B.ModelFont.f_glyphs cf) (C13B.ModelFont.f_defw cf)
    (C13B.ModelFont.f_nomw cf) (C13B.ModelFont.f_private cf) (C13B.ModelFont.f_fdselect cf)
    (C13B.ModelFont.f_encoding cf) (C13B.ModelFont.f_gid2cid cf) (C13B.ModelFont.f_fontmatrices cf).

(* makeCFF: cff.Font{FontInfo: f.GetFontInfo(), Outlines: outlines}.Write *)
Definition cff_encode (W : cff_views) (cf : C13B.ModelFont.font) (ci : t_cffinfo) : list N :=
  bytes_or_nil (C13B.ModelFont.M_write (cv_std W) (cv_exp W) (set_info cf (fi_of W ci))).

(* cff.Read, then FontInfo and Outlines as read.go uses them *)
Definition cff_decode (W : cff_views) (b : list N) : outcome (t_cffinfo * outl) :=
  rf <- C13B.ModelFont.M_read (cv_std W) (cv_exp W) b ;; Ok (ci_of W rf, outl_of_rf W rf).

(* the views with the CFF codec of C13B for the CFF font cf *)
Definition with_cff (V : views) (W : cff_views) (cf : C13B.ModelFont.font) : views :=
  mkViews (v_glyf_id V) (v_gtab_id V) (v_gdef_id V) (v_names_id V) (v_maxp_id V) (v_cmap V) (v_cmap_range V)
          (v_choose_win V) (v_choose_mac V) (v_day V) (v_conv V) (v_caret V) (v_angle V) (v_kern V)
          (fun ci _ => cff_encode W cf ci) (cff_decode W) (v_cff_boxes V).
