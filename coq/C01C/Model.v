(* C01C/Model.v — the opaque codecs of C01B (file-level round trip) built from
   the REAL models of the developments that own them, for a font that is given
   by a DESCRIPTION: C01's font record for the scalar and string fields plus
   the real values of the data C01 carries as identities.

     name table        C14B S_name_encode / S_name_decode (struct level) over C14's
                       byte codec, strings converted between C01's bytes and C14's
                       runes by Utf8.v; Tables.Choose (x/text) is a view
     post glyph names  C14 M_post_encode / M_post_read (formats 1, 2, 3)
     GSUB / GPOS       C08D M_info_encode / M_info_read (all 20 subtable kinds)
     GDEF              C08 M_gdef_encode / M_gdef_read
     cmap              C09 M_encode_table / M_decode_table_bytes
     glyf / loca       C11 M_encode / M_decode, bounding boxes and heights from the
                       glyph records, pass-through tables as byte strings
     maxp              the 13 values themselves
   What cannot be computed from these values is collected in [views]: the
   identities (any functions: the theorems hold for every choice), GetBest /
   Lookup / standardLigatures of a cmap table, x/text's Choose and tag
   conversion, time.Format's day string, the float code of hhea's caret slope,
   and - for CFF outlines - the CFF table codec (see Cff.v for the part of it
   that C13B's model covers).  kern is never written; its reader is a view.

   Executable definitions only. *)
From Coq Require Import List NArith ZArith Bool.
From Common Require Import Bytes Outcome.
From Gen Require C14.
From C01 Require Import Str Model Spec Model2.
From C03 Require Model.
From C08 Require ModelGDEF.
From C08D Require Model.
From C09 Require ModelT.
From C11 Require Model.
From C12 Require Model.
From C14 Require Model.
From C14B Require Model.
From C01B Require Import Model Spec.
From C01C Require Import Utf8.
Import ListNotations.
Local Open Scope Z_scope.

Definition cmap_table : Type := list (C09.ModelT.key * list N).
Definition stabs : Type := list (list N * option C14B.Model.stable).

(* ------------------------------------------------------------------ *)
(* what is not computed from the values                                *)

Record views : Type := mkViews {
  (* identities *)
  v_glyf_id : C11.Model.glyphs -> list (N * list N) -> N;
  v_gtab_id : C08D.Model.table -> C08D.Model.info_obs -> N;
  v_gdef_id : C08.ModelGDEF.gdef -> N;
  v_names_id : list (list N) -> N;
  v_maxp_id : list N -> N;
  (* a cmap table as the glue sees it: identity, GetBest() != nil, Lookup('H'),
     Lookup('x'), identity of standardLigatures(best); and CodeRange() of the best *)
  v_cmap : cmap_table -> cmapv;
  v_cmap_range : cmap_table -> option (Z * Z);
  (* name: Tables.Choose(language.AmericanEnglish) and its confidence (x/text),
     the day part of the identifier string (time.Format) *)
  v_choose_win : stabs -> option C14B.Model.stable * N;
  v_choose_mac : stabs -> option C14B.Model.stable * N;
  v_day : option Z -> str;
  (* GSUB/GPOS: otfToBCP47(script, language) succeeds (x/text) *)
  v_conv : list N -> list N -> bool;
  (* hhea: caret slope from / to the italic angle (float code) *)
  v_caret : Z -> Z * Z;
  v_angle : Z -> Z -> Z;
  (* kern.Read and the GPOS table it stands for *)
  v_kern : list N -> outcome N;
  (* CFF outlines: the "CFF " table codec and the glyph boxes *)
  v_cff_enc : t_cffinfo -> outl -> list N;
  v_cff_dec : list N -> outcome (t_cffinfo * outl);
  v_cff_boxes : outl -> list C12.Model.rect
}.

(* ------------------------------------------------------------------ *)
(* the description of a font                                           *)

Record desc : Type := mkDesc {
  d_cmap : option cmap_table;                       (* Font.CMapTable *)
  d_glyphs : C11.Model.glyphs;                      (* glyf.Outlines.Glyphs *)
  d_extra : list (list N * list N);                 (* glyf.Outlines.Tables *)
  d_widths : option (list Z);                       (* glyf.Outlines.Widths *)
  d_postnames : option (list (list N));             (* glyf.Outlines.Names *)
  d_maxp : option (list N);                         (* glyf.Outlines.Maxp: 13 values *)
  d_gdef : option C08.ModelGDEF.gdef;
  d_gsub : option C08D.Model.info;
  d_gpos : option C08D.Model.info;
  d_lig : option C08D.Model.info;                   (* standardLigatures(best cmap), if any *)
  d_cff : option outl                               (* Some: CFF outlines as C01 sees them *)
}.

(* ------------------------------------------------------------------ *)
(* glyph data                                                          *)

Definition rect_of_box (b : C11.Model.bbox) : C12.Model.rect :=
  C12.Model.mkRect (C11.Model.llx b) (C11.Model.lly b) (C11.Model.urx b) (C11.Model.ury b).
(* Font.GlyphBBoxes(): the zero rectangle for a nil glyph *)
Definition glyph_boxes (gg : C11.Model.glyphs) : list C12.Model.rect :=
  map (fun g => match g with Some x => rect_of_box (C11.Model.g_box x) | None => C12.Model.mkRect 0 0 0 0 end) gg.
(* Font.glyphHeight(gid) *)
Definition glyph_heights (gg : C11.Model.glyphs) : list Z :=
  map (fun g => match g with Some x => C11.Model.ury (C11.Model.g_box x) | None => 0 end) gg.

(* the Outlines value as C01's model sees the decoded glyf/loca tables *)
Definition glyf_view (V : views) (gg : C11.Model.glyphs) (ex : list (N * list N)) : outl :=
  mkOutl false (v_glyf_id V gg ex) (N.of_nat (length gg)) (glyph_heights gg) None None None.

(* ------------------------------------------------------------------ *)
(* name                                                                *)

(* the name.Table Write builds (write.go makeName): the non-empty strings under
   their name ids, as runes *)
Definition name_table_of (V : views) (nm : t_name) : C14B.Model.stable :=
  fold_left (fun t (p : N * str) => C14B.Model.M_set t (fst p) (utf8_decode (snd p)))
            (ntable_of nm (n_ident_prefix nm ++ v_day V (n_ident_day nm)))
            C14B.Model.empty_table.

Definition name_info_of (V : views) (nm : t_name) : C14B.Model.sinfo :=
  C14B.Model.mk_sinfo [(tag_en, Some (name_table_of V nm))] [(tag_en_US, Some (name_table_of V nm))].

(* nameInfo.Encode(1) *)
Definition name_encode (V : views) (nm : t_name) : list N :=
  C14B.Model.S_name_encode Gen.C14.name_appleBCP Gen.C14.name_msBCP 1 (name_info_of V nm).

(* a decoded table as C01's t_name; the identifier is kept whole *)
Definition tname_of (t : C14B.Model.stable) : t_name :=
  let g id := utf8_encode (C14B.Model.M_get t id) in
  mkName (g 1%N) (g 2%N) (g 10%N) (g 0%N) (g 7%N) (g 13%N) (g 14%N) (g 3%N) None (g 4%N) (g 5%N) (g 6%N) (g 19%N).

(* name.Decode, then Choose on both platforms (read.go:160-176) *)
Definition name_decode (V : views) (b : list N) : outcome t_names :=
  i <- C14B.Model.S_name_decode b ;;
  let w := v_choose_win V (C14B.Model.s_win i) in
  let m := v_choose_mac V (C14B.Model.s_mac i) in
  Ok (mkNames (option_map tname_of (fst w)) (snd w) (option_map tname_of (fst m)) (snd m)).

(* ------------------------------------------------------------------ *)
(* post glyph names                                                    *)

Definition post_h0 : C14.Model.post_hdr := C14.Model.mk_post_hdr 0 0 0 false.

(* version and the bytes behind the 32-byte header *)
Definition post_tail_of (names : option (list (list N))) : N * list N :=
  (C14.Model.post_version names, skipn 32 (C14.Model.M_post_encode post_h0 names)).

Definition post_names_read (V : views) (version : N) (tail : list N) : outcome (option N) :=
  r <- C14.Model.M_post_read (C14.Model.post_header_bytes version post_h0 ++ tail) ;;
  Ok (option_map (v_names_id V) (snd r)).

(* ------------------------------------------------------------------ *)
(* layout tables                                                       *)

Definition bytes_or_nil (o : outcome (list N)) : list N := match o with Ok b => b | _ => [] end.

Definition gtab_encode (I : option C08D.Model.info) : list N :=
  match I with Some i => bytes_or_nil (C08D.Model.M_info_encode i) | None => [] end.
Definition gtab_decode (V : views) (t : C08D.Model.table) (b : list N) : outcome N :=
  omap (v_gtab_id V t) (C08D.Model.M_info_read (v_conv V) t b).

Definition gdef_encode (g : option C08.ModelGDEF.gdef) : list N :=
  match g with Some x => bytes_or_nil (C08.ModelGDEF.M_gdef_encode x) | None => [] end.
Definition gdef_decode (V : views) (b : list N) : outcome N :=
  omap (v_gdef_id V) (C08.ModelGDEF.M_gdef_read b).

(* the identities under which the font carries them: of what the reader returns *)
Definition gtab_ident (V : views) (t : C08D.Model.table) (I : C08D.Model.info) : N :=
  v_gtab_id V t (C08D.Model.obs_of (C08D.Model.normal_info I)).
Definition gdef_ident (V : views) (g : C08.ModelGDEF.gdef) : N := v_gdef_id V (C08.ModelGDEF.gdef_norm g).

(* ------------------------------------------------------------------ *)
(* the opaque record of C01B, concretely                               *)

Definition glyf_tables_of (D : desc) : glyf_tables :=
  match C11.Model.M_encode (d_glyphs D) with
  | Ok e => mkGlyfTables (C11.Model.e_glyf e) (C11.Model.e_loca e) (C11.Model.e_fmt e) (d_extra D)
  | _ => mkGlyfTables [] [] 0 []
  end.

Definition copaque (V : views) (D : desc) : opaque :=
  mkOpaque
    (fun o => match d_cff D with Some _ => v_cff_boxes V o | None => glyph_boxes (d_glyphs D) end)
    (fun _ => glyf_tables_of D)
    (fun g l f ex =>
       omap (fun gg => glyf_view V gg ex)
            (C11.Model.M_decode {| C11.Model.e_glyf := g; C11.Model.e_loca := l; C11.Model.e_fmt := f |}))
    (v_cff_enc V) (v_cff_dec V)
    (fun _ => match d_cmap D with Some t => bytes_or_nil (C09.ModelT.M_encode_table t) | None => [] end)
    (fun b => omap (v_cmap V) (C09.ModelT.M_decode_table_bytes b))
    (fun _ => match d_cmap D with Some t => v_cmap_range V t | None => None end)
    (name_encode V) (name_decode V)
    (fun _ => post_tail_of (match d_cff D with Some _ => None | None => d_postnames D end)) (post_names_read V)
    (fun _ => match d_maxp D with Some l => l | None => [] end) (v_maxp_id V)
    (v_caret V) (v_angle V)
    (fun _ => gdef_encode (d_gdef D)) (gdef_decode V)
    (fun _ => gtab_encode (d_gsub D)) (gtab_decode V C08D.Model.GSUB)
    (fun _ => gtab_encode (d_gpos D)) (gtab_decode V C08D.Model.GPOS)
    (v_kern V).

(* ------------------------------------------------------------------ *)
(* the font value described: C01's record with the identity-typed      *)
(* fields computed from the description                                *)

Definition outl_of (V : views) (D : desc) : outl :=
  match d_cff D with
  | Some o => o
  | None =>
    let c := glyf_view V (d_glyphs D) (extras_read (d_extra D)) in
    mkOutl false (ol_id c) (ol_n c) (ol_heights c) (d_widths D)
           (option_map (v_names_id V) (d_postnames D)) (option_map (v_maxp_id V) (d_maxp D))
  end.

Definition set_data (B : font) (o : outl) (cm : option cmapv) (gd gs gp : option N) : font :=
  mkFont (f_family B) (f_width B) (f_weight B) (f_regular B) (f_bold B) (f_italic B) (f_oblique B)
         (f_serif B) (f_script B) (f_cpr B) (f_version B) (f_ctime B) (f_mtime B)
         (f_descr B) (f_sample B) (f_copyright B) (f_trademark B) (f_license B) (f_licurl B)
         (f_perm B) (f_upm B) (f_asc B) (f_desc B) (f_gap B) (f_cap B) (f_xh B)
         (f_angle B) (f_upos B) (f_uthick B) o cm gd gs gp.

(* B supplies the scalar and string fields (its other fields are not looked at) *)
Definition font_of (V : views) (D : desc) (B : font) : font :=
  set_data B (outl_of V D)
    (option_map (v_cmap V) (d_cmap D))
    (option_map (gdef_ident V) (d_gdef D))
    (option_map (gtab_ident V C08D.Model.GSUB) (d_gsub D))
    (option_map (gtab_ident V C08D.Model.GPOS) (d_gpos D)).

(* Font.Write and sfnt.Read on descriptions *)
Definition M_write_file (V : views) (D : desc) (B : font) : outcome (list N) :=
  M_font_write_bytes (copaque V D) (font_of V D B).

Definition empty_desc : desc := mkDesc None [] [] None None None None None None None None.
(* the decoders of copaque do not depend on the description *)
Definition M_read_file (V : views) (b : list N) : outcome font :=
  M_font_read_bytes (copaque V empty_desc) b.
