(* C01C/Spec.v — the domain of the concrete file-level theorems.

   desc_ok: the preconditions under which the imported round-trip theorems
   apply to the values of a description - each is the domain predicate of the
   theorem named next to it, boolean wherever that development offers a
   boolean form.  ext_ok: what remains a hypothesis - the answers of
   golang.org/x/text (Choose), the float code of hhea's caret slope and, for
   CFF outlines, the law of the "CFF " table codec.  Propositions and the
   small functions they mention only. *)
From Coq Require Import List NArith ZArith Bool.
From Common Require Import Bytes Outcome.
From Gen Require C14.
From C01 Require Import Str Model Spec Model2.
From C03 Require Model Spec.
From C08 Require Model ModelGDEF ModelCD.
From C08D Require Model.
From C09 Require ModelT Proofs_Trt.
From C11 Require Model.
From C12 Require Model Util.
From C14 Require Model Proofs_post.
From C14B Require Model Proofs_check.
From C01B Require Import Model Spec.
From C01C Require Import Utf8 Model.
Import ListNotations.
Local Open Scope Z_scope.

Definition i16b (z : Z) : bool := (-32768 <=? z) && (z <=? 32767).
Definition boxb (r : C12.Model.rect) : bool :=
  i16b (C12.Model.llx r) && i16b (C12.Model.lly r) && i16b (C12.Model.urx r) && i16b (C12.Model.ury r).

(* glyf.Outlines.Tables holds only the four pass-through tables, each once *)
Fixpoint names_nodupb (l : list (list N)) : bool :=
  match l with
  | [] => true
  | x :: r => negb (existsb (name_eqb x) r) && names_nodupb r
  end.
Definition extras_okb (ex : list (list N * list N)) : bool :=
  names_nodupb (map fst ex) && forallb (fun e => existsb (name_eqb (fst e)) pass_names) ex.

(* C14 post_roundtrip: no list (format 3), the standard Macintosh list (format 1), or
   at most 65535 names of at most 255 bytes with 258 + custom names <= 65536 (format 2) *)
Definition post_names_okb (names : option (list (list N))) : bool :=
  match names with
  | None => true
  | Some l =>
    C14.Model.is_mac_roman l ||
    (forallb (fun nm => (length nm <=? 255)%nat) l && (C14.Model.lenN l <=? 65535)%N &&
     (C14.Model.nMac + C14.Proofs_post.count_custom l <=? 65536)%N)
  end.

(* C14B name_roundtrip_identity on the Info Write builds: strings representable on both
   platforms (Macintosh: Mac Roman repertoire), clean tables, the two 16-bit guards of
   the name table; and every string is what its runes spell (valid UTF-8) *)
Definition name_okb (V : views) (nm : t_name) : bool :=
  let inf := name_info_of V nm in
  C14B.Proofs_check.sinfo_okb inf && C14B.Proofs_check.clean_sinfob inf &&
  (6 + 12 * C14.Model.name_num_records Gen.C14.name_appleBCP Gen.C14.name_msBCP 1 (C14B.Model.abs_info inf) <=? 65535)%N &&
  (C14.Model.name_storage_len Gen.C14.name_appleBCP Gen.C14.name_msBCP 1 (C14B.Model.abs_info inf) <=? 65535)%N &&
  forallb (fun p : N * str => u8_ok (snd p)) (ntable_of nm (n_ident_prefix nm ++ v_day V (n_ident_day nm))).

(* C08D info_roundtrip: a well-formed Info that Encode accepts *)
Definition gtab_okb (V : views) (t : C08D.Model.table) (I : option C08D.Model.info) : bool :=
  match I with
  | Some i => C08D.Model.wf_info (v_conv V) t i && is_ok (C08D.Model.M_info_encode i)
  | None => true
  end.

(* C08 gdef_roundtrip *)
Definition gdef_okb (g : option C08.ModelGDEF.gdef) : bool :=
  match g with
  | Some x =>
    match C08.ModelGDEF.g_gc x with Some c => C08.ModelCD.cd_ok c | None => true end &&
    match C08.ModelGDEF.g_mac x with Some c => C08.ModelCD.cd_ok c | None => true end &&
    match C08.ModelGDEF.g_sets x with
    | Some ss => forallb (fun s => C08.Model.strictly_inc s && C08.Model.glyphs_ok s) ss
    | None => true
    end &&
    match C08.ModelGDEF.M_gdef_encode x with Ok b => (C14.Model.lenN b <? 4294967296)%N | _ => false end
  | None => true
  end.

(* C11 glyf_roundtrip: at least one glyph, every glyph nil or in normal form, glyf table
   below 4 GiB; locaFormat, loca, boxes and maxp values as the formats need them *)
Definition glyf_okb (D : desc) : bool :=
  match d_glyphs D with [] => false | _ => true end &&
  forallb C11.Model.nf_glyph (d_glyphs D) &&
  (C11.Model.len (C11.Model.enc_all 0 (d_glyphs D)) <? 4294967296)%N &&
  i16b (g_locafmt (glyf_tables_of D)) &&
  match g_loca (glyf_tables_of D) with [] => false | _ => true end &&
  extras_okb (d_extra D) &&
  forallb boxb (glyph_boxes (d_glyphs D)) &&
  match d_maxp D with
  | Some l => (length l =? 13)%nat && forallb (fun x => (x <? 65536)%N) l
  | None => true
  end.

(* C09 table_roundtrip (wf_entry has no boolean form in C09: kept as it is) *)
Definition cmap_ok (t : option cmap_table) : Prop :=
  match t with
  | Some t =>
    C09.Proofs_Trt.keys_sorted (map fst t) = true /\ Forall C09.Proofs_Trt.wf_entry t /\
    (N.of_nat (length t) <= 65535)%N /\
    (4 + 8 * N.of_nat (length t) + N.of_nat (length (flat_map snd t)) < 4294967296)%N
  | None => True
  end.

Record desc_ok (V : views) (D : desc) (B : font) : Prop := mkDescOk {
  dk_range : in_range (font_of V D B) = true;
  dk_values : value_range (font_of V D B);
  dk_cmap : cmap_ok (d_cmap D);
  dk_glyf : d_cff D = None -> glyf_okb D = true;
  dk_cffkind : forall o, d_cff D = Some o -> ol_cff o = true;
  dk_post : post_names_okb (if d_cff D then None else d_postnames D) = true;
  dk_name : name_okb V (M_write_name (font_of V D B)) = true;
  dk_gdef : gdef_okb (d_gdef D) = true;
  dk_gsub : gtab_okb V C08D.Model.GSUB (d_gsub D) = true;
  dk_gpos : gtab_okb V C08D.Model.GPOS (d_gpos D) = true;
  dk_fits : file_fits (copaque V D) (font_of V D B)
}.

(* ---- what remains a hypothesis ---- *)

Definition only_key (tag : list N) (t : C14B.Model.stable) (tt : stabs) : Prop :=
  forall k, C14B.Model.stabs_find tt k = if C14.Model.list_eqb tag k then Some t else None.

Record ext_ok (V : views) (D : desc) (B : font) : Prop := mkExtOk {
  (* golang.org/x/text: a table stored under "en-US" (Windows) / "en" (Macintosh) and
     no other is what Choose(language.AmericanEnglish) returns, with confidence Exact *)
  ek_choose_win : forall t tt, only_key tag_en_US t tt -> v_choose_win V tt = (Some t, 3%N);
  ek_choose_mac : forall t tt, only_key tag_en t tt -> v_choose_mac V tt = (Some t, 3%N);
  (* hhea caret slope (float code of hmtx.Encode / Decode and read.go's rounding) *)
  ek_caret_rng : I16 (fst (v_caret V (f_angle B))) /\ I16 (snd (v_caret V (f_angle B)));
  ek_caret : v_angle V (fst (v_caret V (f_angle B))) (snd (v_caret V (f_angle B))) = f_angle B;
  (* CFF outlines: the "CFF " table codec (C13, C13B, C04, C05) *)
  ek_cff : forall o, d_cff D = Some o ->
      let F := font_of V D B in
      let ci := cffinfo_of F (font_widths o) in
      length (v_cff_boxes V o) = N.to_nat (ol_n o) /\ Forall box_ok (v_cff_boxes V o) /\
      v_cff_enc V ci o <> [] /\
      v_cff_dec V (v_cff_enc V ci o) = Ok (ci, codec_outl o)
}.
