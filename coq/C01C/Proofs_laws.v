(* C01C/Proofs_laws.v — the laws of C01B's opaque codecs for the concrete codecs
   of Model.v, from the imported round-trip theorems: C08D info_roundtrip, C08
   gdef_roundtrip, C14 post_roundtrip, C09 table_roundtrip, C11 glyf_roundtrip. *)
From Coq Require Import List NArith ZArith Bool Arith Lia.
From Common Require Import Bytes Outcome.
From C01 Require Import Str Model Spec Model2.
From C08 Require Model ModelGDEF ModelCD Props.
From C08D Require Model Props.
From C09 Require ModelT Proofs_Trt Props.
From C11 Require Model Props.
From C12 Require Model Util.
From C14 Require Model Proofs_post Props.
From C01B Require Import Model Spec Proofs_tl.
From C01C Require Import Utf8 Model Spec.
Import ListNotations.
Local Open Scope Z_scope.

(* ---------------- GSUB / GPOS ---------------- *)

Lemma gtab_law V t I :
  gtab_okb V t (Some I) = true ->
  gtab_encode (Some I) <> [] /\
  gtab_decode V t (gtab_encode (Some I)) = Ok (gtab_ident V t I).
Proof.
  cbn [gtab_okb]. intros H. apply andb_true_iff in H. destruct H as [Hwf Henc].
  unfold gtab_encode. destruct (C08D.Model.M_info_encode I) as [b| | |] eqn:E; try discriminate.
  cbn [bytes_or_nil].
  pose proof (C08D.Props.info_roundtrip (v_conv V) t I b Hwf E) as Hr.
  split.
  - intros ->. cbn in Hr. discriminate.
  - unfold gtab_decode, gtab_ident. rewrite Hr. reflexivity.
Qed.

(* ---------------- GDEF ---------------- *)

Lemma gdef_law V g :
  gdef_okb (Some g) = true ->
  gdef_encode (Some g) <> [] /\
  gdef_decode V (gdef_encode (Some g)) = Ok (gdef_ident V g).
Proof.
  cbn [gdef_okb]. intros H.
  apply andb_true_iff in H. destruct H as [H Hlen].
  apply andb_true_iff in H. destruct H as [H Hsets].
  apply andb_true_iff in H. destruct H as [Hgc Hmac].
  unfold gdef_encode. destruct (C08.ModelGDEF.M_gdef_encode g) as [b| | |] eqn:E; try discriminate.
  cbn [bytes_or_nil]. apply N.ltb_lt in Hlen.
  assert (Hok : C08.ModelGDEF.gdef_ok g).
  { unfold C08.ModelGDEF.gdef_ok, C08.ModelGDEF.opt_cd_ok. split; [|split].
    - destruct (C08.ModelGDEF.g_gc g); [exact Hgc|exact I].
    - destruct (C08.ModelGDEF.g_mac g); [exact Hmac|exact I].
    - destruct (C08.ModelGDEF.g_sets g) as [ss|]; [|exact I].
      apply Forall_forall. intros s Hs. rewrite forallb_forall in Hsets. specialize (Hsets s Hs).
      apply andb_true_iff in Hsets. exact Hsets. }
  pose proof (C08.Props.gdef_roundtrip g b [] Hok Hlen E) as Hr. rewrite app_nil_r in Hr.
  split.
  - intros ->. cbn in Hr. discriminate.
  - unfold gdef_decode, gdef_ident. rewrite Hr. reflexivity.
Qed.

(* ---------------- post glyph names ---------------- *)

Lemma post_h0_ok : C14.Proofs_post.hdr_ok post_h0.
Proof. unfold C14.Proofs_post.hdr_ok, post_h0. cbn. lia. Qed.

Lemma post_law V names :
  post_names_okb names = true ->
  (let v := fst (post_tail_of names) in v = 65536%N \/ v = 131072%N \/ v = 196608%N) /\
  post_names_read V (fst (post_tail_of names)) (snd (post_tail_of names))
    = Ok (option_map (v_names_id V) names).
Proof.
  intros H. cbv zeta. split.
  - cbn [post_tail_of fst]. unfold C14.Model.post_version.
    destruct names as [l|]; [destruct (C14.Model.is_mac_roman l)|]; auto.
  - assert (Hc : match names with
                 | None => True
                 | Some l => C14.Model.is_mac_roman l = true \/
                             (Forall (fun nm => (length nm <= 255)%nat) l /\ (C14.Model.lenN l <= 65535)%N /\
                              (C14.Model.nMac + C14.Proofs_post.count_custom l <= 65536)%N)
                 end).
    { destruct names as [l|]; [|exact I]. cbn [post_names_okb] in H.
      apply orb_true_iff in H. destruct H as [H|H]; [now left|right].
      apply andb_true_iff in H. destruct H as [H H3]. apply andb_true_iff in H. destruct H as [H1 H2].
      split; [|split; [now apply N.leb_le|now apply N.leb_le]].
      apply Forall_forall. intros nm Hnm. rewrite forallb_forall in H1. specialize (H1 nm Hnm).
      now apply Nat.leb_le. }
    destruct (C14.Props.post_roundtrip post_h0 names post_h0_ok Hc) as (Hr & _).
    unfold post_names_read. cbn [post_tail_of fst snd].
    assert (He : C14.Model.post_header_bytes (C14.Model.post_version names) post_h0
                 ++ skipn 32 (C14.Model.M_post_encode post_h0 names) = C14.Model.M_post_encode post_h0 names).
    { unfold C14.Model.M_post_encode. cbv zeta.
      set (hb := C14.Model.post_header_bytes (C14.Model.post_version names) post_h0).
      assert (Hl : length hb = 32%nat) by reflexivity.
      rewrite <- Hl at 1. rewrite skipn_app, skipn_all, Nat.sub_diag. reflexivity. }
    rewrite He, Hr. reflexivity.
Qed.

(* ---------------- cmap ---------------- *)

Lemma cmap_law V t :
  cmap_ok (Some t) ->
  omap (v_cmap V) (C09.ModelT.M_decode_table_bytes (bytes_or_nil (C09.ModelT.M_encode_table t)))
    = Ok (v_cmap V t).
Proof.
  intros (H1 & H2 & H3 & H4).
  destruct (C09.Props.table_roundtrip t H1 H2 H3 H4) as (b & He & Hd & _).
  rewrite He. cbn [bytes_or_nil]. rewrite Hd. reflexivity.
Qed.

(* ---------------- glyf / loca ---------------- *)

Lemma names_nodupb_spec l : names_nodupb l = true -> NoDup l.
Proof.
  induction l as [|x r IH]; intros H; [constructor|].
  cbn [names_nodupb] in H. apply andb_true_iff in H. destruct H as [H1 H2].
  constructor; [|now apply IH].
  intros Hin. apply negb_true_iff in H1.
  assert (existsb (name_eqb x) r = true).
  { apply existsb_exists. exists x. split; [exact Hin|apply name_eqb_refl]. }
  congruence.
Qed.

Lemma extras_okb_spec ex : extras_okb ex = true -> extras_ok ex.
Proof.
  unfold extras_okb, extras_ok. intros H. apply andb_true_iff in H. destruct H as [H1 H2].
  split; [now apply names_nodupb_spec|].
  apply Forall_forall. intros e He. rewrite forallb_forall in H2. specialize (H2 e He).
  apply existsb_exists in H2. destruct H2 as (n & Hn & Heq).
  destruct (name_eqb_spec (fst e) n) as [->|]; [exact Hn|discriminate].
Qed.

Lemma i16b_spec z : i16b z = true -> I16 z.
Proof. unfold i16b, I16, C12.Util.I16. lia. Qed.

Lemma boxb_spec r : boxb r = true -> box_ok r.
Proof.
  unfold boxb, box_ok. intros H.
  apply andb_true_iff in H. destruct H as [H H4]. apply andb_true_iff in H. destruct H as [H H3].
  apply andb_true_iff in H. destruct H as [H1 H2].
  repeat split; apply i16b_spec; assumption.
Qed.

Lemma glyf_law V D :
  glyf_okb D = true ->
  let gt := glyf_tables_of D in
  I16 (g_locafmt gt) /\ g_loca gt <> [] /\ extras_ok (g_extra gt) /\
  omap (fun gg => glyf_view V gg (extras_read (g_extra gt)))
       (C11.Model.M_decode {| C11.Model.e_glyf := g_glyf gt; C11.Model.e_loca := g_loca gt;
                              C11.Model.e_fmt := g_locafmt gt |})
    = Ok (glyf_view V (d_glyphs D) (extras_read (d_extra D))) /\
  length (glyph_boxes (d_glyphs D)) = length (d_glyphs D) /\
  Forall box_ok (glyph_boxes (d_glyphs D)).
Proof.
  unfold glyf_okb. intros H. cbv zeta.
  repeat (apply andb_true_iff in H; let H' := fresh "K" in destruct H as [H H']).
  assert (Hne : d_glyphs D <> []) by (destruct (d_glyphs D); [discriminate|discriminate]).
  apply N.ltb_lt in K4.
  destruct (C11.Props.glyf_roundtrip (d_glyphs D) Hne K5 K4) as (e & He & Hd).
  unfold glyf_tables_of in *. rewrite He in *. cbn [g_glyf g_loca g_locafmt g_extra] in *.
  split; [now apply i16b_spec|]. split; [destruct (C11.Model.e_loca e); [discriminate|discriminate]|].
  split; [now apply extras_okb_spec|]. split.
  - destruct e as [g l f]. cbn [C11.Model.e_glyf C11.Model.e_loca C11.Model.e_fmt] in *.
    rewrite Hd. reflexivity.
  - split; [unfold glyph_boxes; apply map_length|].
    apply Forall_forall. intros r Hr. rewrite forallb_forall in K0. apply boxb_spec. now apply K0.
Qed.
