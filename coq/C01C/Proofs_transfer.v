(* C01C/Proofs_transfer.v — sfnt.Read does not look at the identifier string of
   the name table: two name decoders that agree up to the identifier fields of
   C01's t_name give the same font.  This carries C01B's theorems (whose name
   law is stated with the identifier split into prefix and day, as Write
   builds it) over to the real decoder, which returns the identifier whole. *)
From Coq Require Import List NArith ZArith Bool Arith Lia.
From Common Require Import Bytes Outcome.
From C01 Require Import Str Model Spec Model2.
From C03 Require Model.
From C01B Require Import Model Spec.
From C01C Require Import Utf8 Model Spec.
Import ListNotations.
Local Open Scope Z_scope.

Definition erase1 (n : t_name) : t_name :=
  mkName (n_family n) (n_subfamily n) (n_descr n) (n_copyright n) (n_trademark n) (n_license n)
         (n_licurl n) [] None (n_fullname n) (n_version n) (n_psname n) (n_sample n).
Definition erase (ns : t_names) : t_names :=
  mkNames (option_map erase1 (ns_win ns)) (ns_winconf ns) (option_map erase1 (ns_mac ns)) (ns_macconf ns).
Definition erase_tables (t : tables) : tables :=
  mkTables (t_cff t) (t_hd t) (t_hm t) (t_maxp t) (t_o2 t) (t_cm t) (option_map erase (t_nm t))
           (t_po t) (t_ci t) (t_ol t) (t_gdef t) (t_gsub t) (t_gpos t) (t_kern t).

Lemma mg_name_erase t : mg_name (erase_tables t) = option_map erase1 (mg_name t).
Proof.
  unfold mg_name, erase_tables, choose_name. cbn [t_nm].
  destruct (t_nm t) as [[w wc m mc]|]; [|reflexivity]. cbn [option_map erase ns_win ns_winconf ns_mac ns_macconf].
  destruct w as [w|], m as [m|]; cbn [option_map is_some];
    destruct ((wc <? 2)%N && (wc <? mc)%N); reflexivity.
Qed.

Lemma merge_erase t : M_read_merge (erase_tables t) = M_read_merge t.
Proof.
  unfold M_read_merge.
  assert (Hc : merge_counts (erase_tables t) = merge_counts t) by reflexivity.
  rewrite Hc. destruct (merge_counts t) as [c| | |]; cbn [obind]; try reflexivity.
  assert (Ho : merge_outl (erase_tables t) (fst c) (snd c) = merge_outl t (fst c) (snd c)) by reflexivity.
  rewrite Ho. destruct (merge_outl t (fst c) (snd c)) as [o| | |]; cbn [obind]; try reflexivity.
  f_equal. unfold merge_fields.
  pose proof (mg_name_erase t) as Hn.
  unfold mg_family, mg_width, mg_weight, mg_regular, mg_bold, mg_italic, mg_oblique, mg_serif, mg_script,
         mg_version, mg_upm, mg_vmetrics, mg_cap, mg_xh, mg_angle, mg_underline, mg_gsub, mg_gpos, mg_fclass.
  rewrite Hn. cbn [erase_tables t_cff t_hd t_hm t_maxp t_o2 t_cm t_po t_ci t_ol t_gdef t_gsub t_gpos t_kern].
  destruct (mg_name t) as [n|]; cbn [option_map erase1 n_family n_subfamily n_descr n_copyright n_trademark
    n_license n_licurl n_fullname n_version n_psname n_sample]; reflexivity.
Qed.

(* an opaque record with another name decoder *)
Definition with_name_dec (O : opaque) (dec : list N -> outcome t_names) : opaque :=
  mkOpaque (q_boxes O) (q_glyf_enc O) (q_glyf_dec O) (q_cff_enc O) (q_cff_dec O)
    (q_cmap_enc O) (q_cmap_dec O) (q_cmap_range O) (q_name_enc O) dec (q_post_tail O) (q_post_names O)
    (q_maxp_ttf O) (q_maxp_id O) (q_caret O) (q_angle O)
    (q_gdef_enc O) (q_gdef_dec O) (q_gsub_enc O) (q_gsub_dec O) (q_gpos_enc O) (q_gpos_dec O)
    (q_kern_dec O).

Lemma write_with_name_dec O dec F : M_font_write_bytes (with_name_dec O dec) F = M_font_write_bytes O F.
Proof. reflexivity. Qed.

Lemma file_tables_with_name_dec O dec F : M_file_tables (with_name_dec O dec) F = M_file_tables O F.
Proof. reflexivity. Qed.

Lemma read_tables_with_name_dec O dec b :
  (forall x, omap erase (dec x) = omap erase (q_name_dec O x)) ->
  omap erase_tables (M_font_read_tables (with_name_dec O dec) b) = omap erase_tables (M_font_read_tables O b).
Proof.
  intros Hdec. unfold M_font_read_tables.
  destruct (C03.Model.M_read_tables b) as [[s rt]| | |]; cbn [obind fst snd]; try reflexivity.
  destruct (negb _); [reflexivity|].
  change (dec_maxp (with_name_dec O dec)) with (dec_maxp O).
  change (dec_hmtx (with_name_dec O dec)) with (dec_hmtx O).
  change (dec_post (with_name_dec O dec)) with (dec_post O).
  cbn [with_name_dec q_cmap_dec q_name_dec q_cff_dec q_glyf_dec q_gdef_dec q_gsub_dec q_gpos_dec q_kern_dec].
  destruct (opt_dec (tb_get tag_head rt) dec_head) as [hd| | |]; cbn [obind]; try reflexivity.
  destruct (opt_dec (tb_get tag_maxp rt) (dec_maxp O)) as [mx| | |]; cbn [obind]; try reflexivity.
  destruct (opt_dec (tb_get tag_OS2 rt) dec_os2) as [o2| | |]; cbn [obind]; try reflexivity.
  destruct (opt_dec (tb_get tag_hhea rt) _) as [hm| | |]; cbn [obind]; try reflexivity.
  destruct (opt_dec (tb_get tag_cmap rt) (q_cmap_dec O)) as [cm| | |]; cbn [obind]; try reflexivity.
  (* the name step *)
  assert (Hn : omap (option_map erase) (opt_dec (tb_get tag_name rt) dec)
             = omap (option_map erase) (opt_dec (tb_get tag_name rt) (q_name_dec O))).
  { unfold opt_dec. destruct (tb_get tag_name rt) as [d|]; [|reflexivity].
    specialize (Hdec d). destruct (dec d), (q_name_dec O d); cbn [omap obind option_map] in *; congruence. }
  destruct (opt_dec (tb_get tag_name rt) dec) as [n1| | |],
           (opt_dec (tb_get tag_name rt) (q_name_dec O)) as [n2| | |];
    cbn [omap obind] in Hn; try discriminate; cbn [obind]; try reflexivity.
  injection Hn as Hn.
  destruct (opt_dec (tb_get tag_post rt) (dec_post O)) as [po| | |]; cbn [obind]; try reflexivity.
  match goal with |- omap _ (obind ?x _) = omap _ (obind ?x _) => destruct x as [ol| | |]; cbn [obind]; try reflexivity end.
  match goal with |- omap _ (obind ?x _) = omap _ (obind ?x _) => destruct x as [gd| | |]; cbn [obind]; try reflexivity end.
  match goal with |- omap _ (obind ?x _) = omap _ (obind ?x _) => destruct x as [gs| | |]; cbn [obind]; try reflexivity end.
  match goal with |- omap _ (obind ?x _) = omap _ (obind ?x _) => destruct x as [gp| | |]; cbn [obind]; try reflexivity end.
  match goal with |- omap _ (obind ?x _) = omap _ (obind ?x _) => destruct x as [kn| | |]; cbn [obind]; try reflexivity end.
  cbn [omap obind]. unfold erase_tables. cbn [t_cff t_hd t_hm t_maxp t_o2 t_cm t_nm t_po t_ci t_ol t_gdef t_gsub t_gpos t_kern].
  now rewrite Hn.
Qed.

Lemma read_bytes_with_name_dec O dec b :
  (forall x, omap erase (dec x) = omap erase (q_name_dec O x)) ->
  M_font_read_bytes (with_name_dec O dec) b = M_font_read_bytes O b.
Proof.
  intros Hdec. pose proof (read_tables_with_name_dec O dec b Hdec) as H.
  unfold M_font_read_bytes.
  destruct (M_font_read_tables (with_name_dec O dec) b) as [t1| | |],
           (M_font_read_tables O b) as [t2| | |]; cbn [omap obind] in H; try discriminate; try reflexivity.
  assert (H' : erase_tables t1 = erase_tables t2).
  { exact (f_equal (fun o : outcome tables => match o with Ok x => x | _ => erase_tables t1 end) H). }
  clear H. rename H' into H. cbn [obind].
  transitivity (M_read_merge (erase_tables t1)); [symmetry; apply merge_erase|rewrite H; apply merge_erase].
Qed.
