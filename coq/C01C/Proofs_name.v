(* C01C/Proofs_name.v — the name table: Decode (Encode (the Info Write builds))
   chosen by Choose gives back every string of the table, from C14B's
   name_roundtrip_identity and table_get_set.  The identifier string comes back
   whole (its split into prefix and day is not recoverable and not needed:
   Read does not look at it). *)
From Coq Require Import List NArith ZArith Bool Arith Lia Permutation.
From Common Require Import Bytes Outcome.
From Gen Require C14 C14B.
From C01 Require Import Str Model Spec Model2.
From C14 Require Model.
From C14B Require Model Proofs_check Props.
From C01B Require Import Model Spec.
From C01C Require Import Utf8 Model Spec.
Import ListNotations.
Local Open Scope N_scope.

(* what comes back for the table of nm *)
Definition name_back (V : views) (nm : t_name) : t_name :=
  mkName (n_family nm) (n_subfamily nm) (n_descr nm) (n_copyright nm) (n_trademark nm)
         (n_license nm) (n_licurl nm) (n_ident_prefix nm ++ v_day V (n_ident_day nm)) None
         (n_fullname nm) (n_version nm) (n_psname nm) (n_sample nm).

Fixpoint assocN (id : N) (l : list (N * str)) : option str :=
  match l with
  | [] => None
  | (k, v) :: r => if k =? id then Some v else assocN id r
  end.

Definition set_all (l : list (N * str)) (t : C14B.Model.stable) : C14B.Model.stable :=
  fold_left (fun t (p : N * str) => C14B.Model.M_set t (fst p) (utf8_decode (snd p))) l t.

Lemma assoc_notin id l : ~ In id (map fst l) -> assocN id l = None.
Proof.
  induction l as [|[k v] r IH]; intros H; [reflexivity|]. cbn [assocN].
  destruct (N.eqb_spec k id) as [->|Hne]; [exfalso; apply H; now left|].
  apply IH. intros Hin. apply H. now right.
Qed.

Lemma get_set_all l : forall t,
  NoDup (map fst l) -> C14B.Model.wf_stable t = true ->
  C14B.Model.wf_stable (set_all l t) = true /\
  forall id, C14B.Model.M_get (set_all l t) id =
             match assocN id l with Some s => utf8_decode s | None => C14B.Model.M_get t id end.
Proof.
  induction l as [|[k v] r IH]; intros t Hn Hwf; [split; [exact Hwf|reflexivity]|].
  cbn [map fst] in Hn. inversion Hn as [|? ? Hnin Hn']; subst.
  destruct (C14B.Props.table_get_set t k (utf8_decode v) Hwf) as [Hwf' Hget].
  unfold set_all. cbn [fold_left fst snd]. fold (set_all r (C14B.Model.M_set t k (utf8_decode v))).
  destruct (IH _ Hn' Hwf') as [Hw Hg]. split; [exact Hw|].
  intros id. rewrite Hg. cbn [assocN].
  destruct (N.eqb_spec k id) as [->|Hne].
  - rewrite (assoc_notin id r Hnin). rewrite Hget. now rewrite N.eqb_refl.
  - destruct (assocN id r); [reflexivity|]. rewrite Hget.
    destruct (N.eqb_spec k id); [contradiction|reflexivity].
Qed.

Lemma assoc_filter (p : N * str -> bool) id l :
  NoDup (map fst l) ->
  assocN id (filter p l) =
  match assocN id l with Some v => if p (id, v) then Some v else None | None => None end.
Proof.
  induction l as [|[k v] r IH]; intros Hn; [reflexivity|].
  cbn [map fst] in Hn. inversion Hn as [|? ? Hnin Hn']; subst.
  cbn [filter assocN]. destruct (N.eqb_spec k id) as [->|Hne].
  - destruct (p (id, v)) eqn:Ep; cbn [assocN].
    + now rewrite N.eqb_refl.
    + rewrite (IH Hn'). now rewrite (assoc_notin id r Hnin).
  - destruct (p (k, v)); cbn [assocN].
    + destruct (N.eqb_spec k id); [contradiction|]. now apply IH.
    + now apply IH.
Qed.

Lemma filter_nodup {A} (p : A -> bool) (f : A -> N) l : NoDup (map f l) -> NoDup (map f (filter p l)).
Proof.
  induction l as [|x l IH]; intros H; [constructor|]. cbn [map] in H. inversion H as [|? ? Hn H']; subst.
  cbn [filter]. destruct (p x); [|now apply IH]. cbn [map]. constructor; [|now apply IH].
  intros Hin. apply Hn. apply in_map_iff in Hin. destruct Hin as (y & E & Hy). apply filter_In in Hy.
  apply in_map_iff. exists y. tauto.
Qed.

Lemma empty_get id : C14B.Model.M_get C14B.Model.empty_table id = [].
Proof.
  unfold C14B.Model.M_get, C14B.Model.empty_table. cbn [C14B.Model.st_fields C14B.Model.st_extra].
  destruct (C14.Model.lookupN id Gen.C14B.name_get_switch) as [fi|]; [|reflexivity].
  generalize (N.to_nat fi). generalize C14B.Model.nfields.
  induction n as [|n IH]; intros [|k]; cbn [repeat nth]; auto.
Qed.

Section Name.
Variable V : views.
Variable nm : t_name.
Let ident := n_ident_prefix nm ++ v_day V (n_ident_day nm).
Let full : list (N * str) :=
  [ (0, n_copyright nm); (1, n_family nm); (2, n_subfamily nm); (3, ident); (4, n_fullname nm);
    (5, n_version nm); (6, n_psname nm); (7, n_trademark nm); (10, n_descr nm); (13, n_license nm);
    (14, n_licurl nm); (19, n_sample nm) ].
Let T := name_table_of V nm.

Hypothesis Hok : name_okb V nm = true.

Lemma nt_eq : ntable_of nm ident = filter (fun p => negb (str_empty (snd p))) full.
Proof. reflexivity. Qed.

Lemma full_nodup : NoDup (map fst full).
Proof. cbn. repeat constructor; cbn; intuition discriminate. Qed.

Lemma T_get id s : assocN id full = Some s -> utf8_encode (C14B.Model.M_get T id) = s.
Proof.
  intros Ha. unfold T, name_table_of. fold ident. rewrite nt_eq.
  fold (set_all (filter (fun p => negb (str_empty (snd p))) full) C14B.Model.empty_table).
  destruct (get_set_all (filter (fun p => negb (str_empty (snd p))) full) C14B.Model.empty_table
              (filter_nodup _ fst full full_nodup) eq_refl) as [_ Hg].
  rewrite Hg, (assoc_filter _ id full full_nodup), Ha. cbn [snd].
  destruct s as [|c s']; cbn [str_empty negb].
  - now rewrite empty_get.
  - pose proof Hok as H0. unfold name_okb in H0. apply andb_true_iff in H0. destruct H0 as [_ Hu].
    fold ident in Hu. rewrite nt_eq in Hu. rewrite forallb_forall in Hu.
    apply u8_ok_spec. apply (Hu (id, c :: s')). apply filter_In. split; [|reflexivity].
    clear - Ha. induction full as [|[k v] r IH]; [discriminate|]. cbn [assocN] in Ha.
    destruct (N.eqb_spec k id) as [->|]; [injection Ha as ->; now left|right; now apply IH].
Qed.

Lemma tname_T : tname_of T = name_back V nm.
Proof.
  unfold tname_of, name_back. fold ident.
  rewrite (T_get 1 (n_family nm) eq_refl), (T_get 2 (n_subfamily nm) eq_refl),
          (T_get 10 (n_descr nm) eq_refl), (T_get 0 (n_copyright nm) eq_refl),
          (T_get 7 (n_trademark nm) eq_refl), (T_get 13 (n_license nm) eq_refl),
          (T_get 14 (n_licurl nm) eq_refl), (T_get 3 ident eq_refl),
          (T_get 4 (n_fullname nm) eq_refl), (T_get 5 (n_version nm) eq_refl),
          (T_get 6 (n_psname nm) eq_refl), (T_get 19 (n_sample nm) eq_refl).
  reflexivity.
Qed.

Hypothesis Hwin : forall t tt, only_key tag_en_US t tt -> v_choose_win V tt = (Some t, 3).
Hypothesis Hmac : forall t tt, only_key tag_en t tt -> v_choose_mac V tt = (Some t, 3).

Lemma name_law :
  name_decode V (name_encode V nm) = Ok (mkNames (Some (name_back V nm)) 3 (Some (name_back V nm)) 3).
Proof.
  pose proof Hok as H0. unfold name_okb in H0.
  do 4 (apply andb_true_iff in H0; let H' := fresh "K" in destruct H0 as [H0 H']).
  destruct (C14B.Proofs_check.sinfo_okb_spec _ H0) as [_ Hrep].
  pose proof (C14B.Proofs_check.clean_sinfob_spec _ K2) as Hclean.
  apply N.leb_le in K1. apply N.leb_le in K0.
  destruct (C14B.Props.name_roundtrip_identity Gen.C14.name_appleBCP Gen.C14.name_msBCP (name_info_of V nm)
              (Permutation_refl _) (Permutation_refl _) Hclean Hrep K1 K0) as (out & Hd & Hm & Hw).
  unfold name_decode, name_encode. rewrite Hd. cbn [obind].
  assert (Ow : only_key tag_en_US T (C14B.Model.s_win out)).
  { intros k. rewrite Hw. unfold name_info_of, C14B.Model.stabs_find. cbn [C14B.Model.s_win C14.Model.lookupB].
    fold T. destruct (C14.Model.list_eqb tag_en_US k); reflexivity. }
  assert (Om : only_key tag_en T (C14B.Model.s_mac out)).
  { intros k. rewrite Hm. unfold name_info_of, C14B.Model.stabs_find. cbn [C14B.Model.s_mac C14.Model.lookupB].
    fold T. destruct (C14.Model.list_eqb tag_en k); reflexivity. }
  rewrite (Hwin _ _ Ow), (Hmac _ _ Om). cbn [fst snd option_map]. now rewrite tname_T.
Qed.
End Name.
