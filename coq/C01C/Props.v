(* C01C/Props.v — the file-level round trip of property C01 with the REAL codecs.

   C01B proved the file-level clauses for any record of opaque codecs that
   satisfy their round-trip laws (hypotheses).  Here the record is built from
   the models of the developments that own the codecs, and the laws are
   DISCHARGED by import:
       name table        C14B name_roundtrip_identity, table_get_set (struct level) over
                         C14's byte codec; strings bytes <-> runes by Utf8.v
       post glyph names  C14 post_roundtrip (formats 1, 2, 3)
       GSUB, GPOS        C08D info_roundtrip (all 20 subtable kinds, extension lookups)
       GDEF              C08 gdef_roundtrip
       cmap              C09 table_roundtrip
       glyf / loca       C11 glyf_roundtrip; boxes and heights from the glyph records
       head, hhea+hmtx, maxp, OS/2, post header   C12 (already in C01B)
       container         C03 (already in C01B)
   A font is given by a description (Model.v: desc): C01's record for the scalar
   and string fields, the real values for everything C01 carries as an identity.
   The identities themselves, GetBest/Lookup/standardLigatures of a cmap table
   and CodeRange are functions in the record [views]: the theorems hold for
   every choice of them.

   PRECONDITIONS (desc_ok, Spec.v): the domain predicates of the imported
   theorems, boolean wherever the development offers a boolean form; each gap
   between them and C01's quantifier is visible there:
       name: strings in the Mac Roman repertoire (C14B representable), valid UTF-8, the two
             16-bit guards of the name table;   post: names of at most 255 bytes, at most
             65535 names, 258 + custom names <= 65536 (long_glyph_name_refuted: beyond 255
             bytes Write produces a file Read rejects - replayed on the real code);
       GSUB/GPOS: wf_info (three lists present, ...) and Encode accepts;  GDEF: gdef_ok;
       glyf: nf_glyph, table below 4 GiB;  cmap: C09's wf_entry;  C01B's value_range, file_fits.
   REMAINING HYPOTHESES (ext_ok, Spec.v) - nothing else is assumed:
       (x) golang.org/x/text: Choose(AmericanEnglish) returns the only table, with confidence Exact
       (f) the float code of hhea's caret slope (rise/run in int16, the angle recomputed)
       (c) for CFF outlines only: the law of the "CFF " table codec and the glyph boxes; a
           TrueType font needs neither.  The law is DISCHARGED from C13B write_read_roundtrip
           (simple and CID-keyed) for the codec of Cff.v - cff.Font.Write of GetFontInfo() and the
           outlines, cff.Read - in the *_cff theorems below; what then remains of (c) is cff_ok
           (Proofs_cff.v): the domain of C13B's theorem (font_ok_simple / font_ok_cid, size below
           2 GiB, Write accepts) and the glue C13B does not model, as two equations on the normal
           form C13B's reader returns: FontInfo through the float views (16.16 <-> decimal,
           FontMatrix <-> unitsPerEm) is the font's, and the charstring views (identity, heights,
           widths: C04/C05) are the outlines'.
   kern needs no hypothesis: Font.Write never writes it, its reader is a view.
   Non-vacuity: Examples.v (a TrueType and a CFF font with every table described). *)
From Coq Require Import List NArith ZArith Bool.
From Common Require Import Bytes Outcome.
From Gen Require Import Consts C03.
From C01 Require Import Str Model Spec Model2.
From C03 Require Model Spec.
From C08 Require ModelGDEF.
From C08D Require Model.
From C01B Require Import Model Spec.
From C13B Require ModelNum ModelFont Proofs_fields Proofs_simple Proofs_cid2.
From C01C Require Import Utf8 Model Spec Proofs_laws Proofs_name Proofs_transfer Proofs_main Cff Proofs_cff.
Import ListNotations.
Local Open Scope Z_scope.

(* (1)  Read(Write(F)) = normalize F through the bytes, every codec real: for every
   description in the domain, Font.Write produces a file and sfnt.Read of that file - with
   decoders that do not depend on the font - returns the normal form of the font described. *)
Theorem file_read_write_normal_form_concrete :
  forall (V : views) (D : desc) (B : font),
    desc_ok V D B -> ext_ok V D B ->
    exists b, M_write_file V D B = Ok b /\ M_read_file V b = Ok (normalize (font_of V D B)).
Proof. exact normal_form_concrete. Qed.
Print Assumptions file_read_write_normal_form_concrete.

(* (2)  Byte fixed point: the normal form is described by norm_desc (the same values; the
   GSUB table Read synthesises is the one the description names: lig_ok); its file reads
   back as the normal form again - generation 2 = generation 1 at the value level, hence
   every further file equals the second. *)
Theorem file_byte_fixed_point_concrete :
  forall (V : views) (D : desc) (B : font),
    desc_ok V D B -> ext_ok V D B -> lig_ok V D B ->
    desc_ok V (norm_desc V D B) (normalize (font_of V D B)) ->
    ext_ok V (norm_desc V D B) (normalize (font_of V D B)) ->
    exists b1 b2,
      M_write_file V D B = Ok b1 /\ M_read_file V b1 = Ok (normalize (font_of V D B)) /\
      M_write_file V (norm_desc V D B) (normalize (font_of V D B)) = Ok b2 /\
      M_read_file V b2 = Ok (normalize (font_of V D B)).
Proof. exact fixed_point_concrete. Qed.
Print Assumptions file_byte_fixed_point_concrete.

Theorem normal_form_is_described :
  forall (V : views) (D : desc) (B : font),
    lig_ok V D B ->
    font_of V (norm_desc V D B) (normalize (font_of V D B)) = normalize (font_of V D B).
Proof. exact font_of_norm. Qed.
Print Assumptions normal_form_is_described.

(* (3)  Every accepted byte string whose font has a description: one cycle is a fixed
   point, under C01's exclusions. *)
Theorem file_accepts_fixed_point_concrete :
  forall (V : views) (D : desc) (B : font) (b : list N),
    Bytes b -> M_read_file V b = Ok (font_of V D B) ->
    bold_settled (font_of V D B) = true -> underline_settled (font_of V D B) = true ->
    desc_ok V D B -> ext_ok V D B ->
    exists b1, M_write_file V D B = Ok b1 /\ M_read_file V b1 = Ok (font_of V D B).
Proof. exact accepts_concrete. Qed.
Print Assumptions file_accepts_fixed_point_concrete.

(* (4)  The file written is a well-formed container with word sum 0xB1B0AFBA. *)
Theorem file_container_well_formed_concrete :
  forall (V : views) (D : desc) (B : font) (b : list N),
    desc_ok V D B -> ext_ok V D B -> M_write_file V D B = Ok b ->
    C03.Spec.S_wf b /\ C03.Model.file_sum b = header_checksumMagic.
Proof. intros V D B b K E. exact (container_concrete V D B K E b). Qed.
Print Assumptions file_container_well_formed_concrete.

(* the decoders do not depend on the description: sfnt.Read is a function of the bytes *)
Theorem read_is_function_of_bytes :
  forall (V : views) (D : desc) (b : list N), M_font_read_bytes (copaque V D) b = M_read_file V b.
Proof. exact read_any_desc. Qed.
Print Assumptions read_is_function_of_bytes.

(* ---- the laws, one by one ---- *)

Theorem name_codec_law :
  forall (V : views) (nm : t_name),
    name_okb V nm = true ->
    (forall t tt, only_key tag_en_US t tt -> v_choose_win V tt = (Some t, 3%N)) ->
    (forall t tt, only_key tag_en t tt -> v_choose_mac V tt = (Some t, 3%N)) ->
    name_decode V (name_encode V nm) = Ok (mkNames (Some (name_back V nm)) 3 (Some (name_back V nm)) 3).
Proof. exact name_law. Qed.
Print Assumptions name_codec_law.

(* sfnt.Read does not look at the identifier string: decoders that agree up to it give the
   same font *)
Theorem read_ignores_identifier :
  forall (O : opaque) (dec : list N -> outcome t_names) (b : list N),
    (forall x, omap erase (dec x) = omap erase (q_name_dec O x)) ->
    M_font_read_bytes (with_name_dec O dec) b = M_font_read_bytes O b.
Proof. exact read_bytes_with_name_dec. Qed.
Print Assumptions read_ignores_identifier.

Theorem post_names_codec_law :
  forall (V : views) (names : option (list (list N))),
    post_names_okb names = true ->
    (let v := fst (post_tail_of names) in v = 65536%N \/ v = 131072%N \/ v = 196608%N) /\
    post_names_read V (fst (post_tail_of names)) (snd (post_tail_of names))
      = Ok (option_map (v_names_id V) names).
Proof. exact post_law. Qed.
Print Assumptions post_names_codec_law.

Theorem gtab_codec_law :
  forall (V : views) (t : C08D.Model.table) (I : C08D.Model.info),
    gtab_okb V t (Some I) = true ->
    gtab_encode (Some I) <> [] /\
    gtab_decode V t (gtab_encode (Some I)) = Ok (gtab_ident V t I).
Proof. exact gtab_law. Qed.
Print Assumptions gtab_codec_law.

Theorem gdef_codec_law :
  forall (V : views) (g : C08.ModelGDEF.gdef),
    gdef_okb (Some g) = true ->
    gdef_encode (Some g) <> [] /\
    gdef_decode V (gdef_encode (Some g)) = Ok (gdef_ident V g).
Proof. exact gdef_law. Qed.
Print Assumptions gdef_codec_law.

(* all laws of C01B's opaque record at once (the name decoder restoring the split of the
   identifier string) *)
Theorem concrete_codecs_lawful :
  forall (V : views) (D : desc) (B : font),
    desc_ok V D B -> ext_ok V D B ->
    opaque_ok (with_name_dec (copaque V D) (canon_dec V (M_write_name (font_of V D B)))) (font_of V D B).
Proof. exact opaque_laws. Qed.
Print Assumptions concrete_codecs_lawful.

(* strings: what the byte / rune conversion needs *)
Theorem utf8_valid_strings_survive : forall s, u8_ok s = true -> utf8_encode (utf8_decode s) = s.
Proof. exact u8_ok_spec. Qed.
Print Assumptions utf8_valid_strings_survive.

(* ---- CFF: the table codec from C13B ---- *)

(* the remaining CFF hypothesis (ek_cff) follows from C13B's write_read_roundtrip, for the
   views whose CFF codec is Cff.v's (cff.Font.Write of the font's FontInfo / cff.Read) *)
Theorem cff_hypothesis_discharged :
  forall (V : views) (W : cff_views) (cf : C13B.ModelFont.font) (D : desc) (B : font),
    cff_ok V W cf D B -> ext_ok (with_cff V W cf) D B.
Proof. exact ext_ok_with_cff. Qed.
Print Assumptions cff_hypothesis_discharged.

Theorem cff_codec_law_simple :
  forall (W : cff_views) (cf : C13B.ModelFont.font) (ci : t_cffinfo) (o : outl)
         (p : C13B.ModelFont.privdict) (bytes : list N),
    let cf' := set_info cf (fi_of W ci) in
    C13B.Proofs_simple.write_size_ok (cv_std W) (cv_exp W) cf' ->
    C13B.ModelFont.M_write (cv_std W) (cv_exp W) cf' = Ok bytes ->
    C13B.Proofs_simple.font_ok_simple cf' -> C13B.ModelFont.f_private cf' = [p] -> C13B.Proofs_fields.pd_ok p ->
    ci_of W (C13B.Proofs_simple.font_nf_simple (cv_std W) cf' p) = ci ->
    outl_of_rf W (C13B.Proofs_simple.font_nf_simple (cv_std W) cf' p) = codec_outl o ->
    cff_encode W cf ci <> [] /\ cff_decode W (cff_encode W cf ci) = Ok (ci, codec_outl o).
Proof. exact cff_law_simple. Qed.
Print Assumptions cff_codec_law_simple.

Theorem cff_codec_law_cid :
  forall (W : cff_views) (cf : C13B.ModelFont.font) (ci : t_cffinfo) (o : outl)
         (reg ord : list N) (sup : Z) (bytes : list N),
    let cf' := set_info cf (fi_of W ci) in
    C13B.Proofs_simple.write_size_ok (cv_std W) (cv_exp W) cf' ->
    C13B.ModelFont.M_write (cv_std W) (cv_exp W) cf' = Ok bytes ->
    C13B.Proofs_cid2.font_ok_cid cf' reg ord sup ->
    ci_of W (C13B.Proofs_cid2.font_nf_cid cf' reg ord sup) = ci ->
    outl_of_rf W (C13B.Proofs_cid2.font_nf_cid cf' reg ord sup) = codec_outl o ->
    cff_encode W cf ci <> [] /\ cff_decode W (cff_encode W cf ci) = Ok (ci, codec_outl o).
Proof. exact cff_law_cid. Qed.
Print Assumptions cff_codec_law_cid.

(* (1) and (2) for OpenType/CFF fonts, the CFF table written and read by C13B's model *)
Theorem file_read_write_normal_form_concrete_cff :
  forall (V : views) (W : cff_views) (cf : C13B.ModelFont.font) (D : desc) (B : font),
    let V' := with_cff V W cf in
    desc_ok V' D B -> cff_ok V W cf D B ->
    exists b, M_write_file V' D B = Ok b /\ M_read_file V' b = Ok (normalize (font_of V' D B)).
Proof. exact normal_form_concrete_cff. Qed.
Print Assumptions file_read_write_normal_form_concrete_cff.

Theorem file_byte_fixed_point_concrete_cff :
  forall (V : views) (W : cff_views) (cf : C13B.ModelFont.font) (D : desc) (B : font),
    let V' := with_cff V W cf in
    let N1 := normalize (font_of V' D B) in
    desc_ok V' D B -> cff_ok V W cf D B -> lig_ok V' D B ->
    desc_ok V' (norm_desc V' D B) N1 -> cff_ok V W cf (norm_desc V' D B) N1 ->
    exists b1 b2,
      M_write_file V' D B = Ok b1 /\ M_read_file V' b1 = Ok N1 /\
      M_write_file V' (norm_desc V' D B) N1 = Ok b2 /\ M_read_file V' b2 = Ok N1.
Proof. exact fixed_point_concrete_cff. Qed.
Print Assumptions file_byte_fixed_point_concrete_cff.
