From Coq Require Import Extraction ExtrOcamlBasic.
From Common Require Import Conv.
From Gen Require Import Consts.
From C01 Require Import Str Model Spec Model2.
From C03 Require Model.
From C08 Require ModelGDEF.
From C08D Require Model.
From C14B Require Model.
From C01B Require Import Model.
From C01C Require Import Utf8 Model.
Extraction Language OCaml.
Extraction "c01c_model.ml" conv_anchor
  M_write_file M_read_file M_font_read_tables copaque empty_desc font_of
  file_directory file_table normalize in_range choose_name
  C03.Model.container_ok C08D.Model.obs_of C08D.Model.normal_info C08.ModelGDEF.gdef_norm
  C14B.Model.stabs_find utf8_decode utf8_encode
  tag_head tag_hhea tag_hmtx tag_maxp tag_OS2 tag_post tag_name tag_cmap tag_glyf tag_loca
  tag_GDEF tag_GSUB tag_GPOS tag_CFF tag_cvt tag_fpgm tag_prep tag_gasp tag_kern.
