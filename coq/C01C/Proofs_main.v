(* C01C/Proofs_main.v — the laws assembled: the concrete codecs satisfy C01B's
   opaque_ok for the font a description stands for, hence C01B's file-level
   theorems hold for descriptions with the real decoders. *)
From Coq Require Import List NArith ZArith Bool Arith Lia.
From Common Require Import Bytes Outcome.
From C01 Require Import Str Model Spec Model2 Proofs.
From C03 Require Model Spec.
From C08 Require ModelGDEF.
From C08D Require Model.
From C12 Require Model Util.
From C01B Require Import Model Spec Proofs_main.
From C01C Require Import Utf8 Model Spec Proofs_laws Proofs_name Proofs_transfer.
Import ListNotations.
Local Open Scope Z_scope.

(* ---- boolean equality of decoded name tables ---- *)

Definition ozeqb (a b : option Z) : bool :=
  match a, b with Some x, Some y => x =? y | None, None => true | _, _ => false end.
Definition tname_eqb (a b : t_name) : bool :=
  bytes_eqb (n_family a) (n_family b) && bytes_eqb (n_subfamily a) (n_subfamily b) &&
  bytes_eqb (n_descr a) (n_descr b) && bytes_eqb (n_copyright a) (n_copyright b) &&
  bytes_eqb (n_trademark a) (n_trademark b) && bytes_eqb (n_license a) (n_license b) &&
  bytes_eqb (n_licurl a) (n_licurl b) && bytes_eqb (n_ident_prefix a) (n_ident_prefix b) &&
  ozeqb (n_ident_day a) (n_ident_day b) && bytes_eqb (n_fullname a) (n_fullname b) &&
  bytes_eqb (n_version a) (n_version b) && bytes_eqb (n_psname a) (n_psname b) &&
  bytes_eqb (n_sample a) (n_sample b).
Definition otname_eqb (a b : option t_name) : bool :=
  match a, b with Some x, Some y => tname_eqb x y | None, None => true | _, _ => false end.
Definition tnames_eqb (a b : t_names) : bool :=
  otname_eqb (ns_win a) (ns_win b) && (ns_winconf a =? ns_winconf b)%N &&
  otname_eqb (ns_mac a) (ns_mac b) && (ns_macconf a =? ns_macconf b)%N.

Lemma bytes_eqb_refl a : bytes_eqb a a = true.
Proof. induction a as [|x a IH]; [reflexivity|]. cbn. now rewrite N.eqb_refl. Qed.

Lemma tname_eqb_eq a b : tname_eqb a b = true -> a = b.
Proof.
  unfold tname_eqb. intros H.
  repeat (apply andb_true_iff in H; let K := fresh "K" in destruct H as [H K]).
  destruct a, b. cbn in *.
  repeat match goal with H : bytes_eqb _ _ = true |- _ => apply bytes_eqb_eq in H end.
  assert (n_ident_day = n_ident_day0).
  { destruct n_ident_day, n_ident_day0; cbn in *; try discriminate; [|reflexivity]. f_equal. lia. }
  subst. reflexivity.
Qed.
Lemma tname_eqb_refl a : tname_eqb a a = true.
Proof.
  unfold tname_eqb. rewrite !bytes_eqb_refl. cbn [andb].
  destruct (n_ident_day a); cbn [ozeqb]; [now rewrite Z.eqb_refl|reflexivity].
Qed.
Lemma tnames_eqb_eq a b : tnames_eqb a b = true -> a = b.
Proof.
  unfold tnames_eqb. intros H.
  repeat (apply andb_true_iff in H; let K := fresh "K" in destruct H as [H K]).
  destruct a as [w wc m mc], b as [w' wc' m' mc']. cbn in *.
  apply N.eqb_eq in K, K1. subst.
  assert (w = w') by (destruct w, w'; cbn in *; try discriminate; [f_equal; now apply tname_eqb_eq|reflexivity]).
  assert (m = m') by (destruct m, m'; cbn in *; try discriminate; [f_equal; now apply tname_eqb_eq|reflexivity]).
  now subst.
Qed.

Definition names3 (n : t_name) : t_names := mkNames (Some n) 3 (Some n) 3.

(* the decoder that restores the split of the identifier when everything else agrees *)
Definition canon_dec (V : views) (nm : t_name) (b : list N) : outcome t_names :=
  match name_decode V b with
  | Ok ns => if tnames_eqb ns (names3 (name_back V nm)) then Ok (names3 nm) else Ok ns
  | Err => Err | Panic => Panic | OutOfFuel => OutOfFuel
  end.

Lemma canon_dec_erase V nm x : omap erase (canon_dec V nm x) = omap erase (name_decode V x).
Proof.
  unfold canon_dec. destruct (name_decode V x) as [ns| | |]; try reflexivity.
  destruct (tnames_eqb ns (names3 (name_back V nm))) eqn:E; [|reflexivity].
  apply tnames_eqb_eq in E. subst ns. destruct nm; reflexivity.
Qed.

(* ---- the assembled laws ---- *)

Section Assemble.
Variables (V : views) (D : desc) (B : font).
Hypothesis K : desc_ok V D B.
Hypothesis E : ext_ok V D B.

Let F := font_of V D B.
Let OF := with_name_dec (copaque V D) (canon_dec V (M_write_name F)).

Lemma F_outl : f_outl F = outl_of V D. Proof. reflexivity. Qed.
Lemma F_angle : f_angle F = f_angle B. Proof. reflexivity. Qed.

Lemma opaque_laws : opaque_ok OF F.
Proof.
  pose proof (dk_range V D B K) as Hr. fold F in Hr.
  constructor.
  - (* boxes: count *)
    cbn [OF with_name_dec q_boxes copaque]. rewrite F_outl. unfold outl_of.
    destruct (d_cff D) as [o|] eqn:Ec.
    + exact (proj1 (ek_cff V D B E o Ec)).
    + cbn [ol_n glyf_view]. rewrite Nat2N.id. unfold glyph_boxes. apply map_length.
  - cbn [OF with_name_dec q_boxes copaque]. rewrite F_outl. unfold outl_of.
    destruct (d_cff D) as [o|] eqn:Ec.
    + exact (proj1 (proj2 (ek_cff V D B E o Ec))).
    + destruct (glyf_law V D (dk_glyf V D B K Ec)) as (_ & _ & _ & _ & _ & Hb). exact Hb.
  - exact (ek_caret_rng V D B E).
  - exact (ek_caret V D B E).
  - (* maxp *)
    intros id Hid. rewrite F_outl in Hid. unfold outl_of in Hid.
    destruct (d_cff D) as [o|] eqn:Ec.
    + exfalso. unfold in_range in Hr. rewrite F_outl in Hr. unfold outl_of in Hr. rewrite Ec in Hr.
      rewrite (dk_cffkind V D B K o Ec) in Hr. rewrite Hid in Hr. cbn [is_some negb andb] in Hr.
      repeat rewrite andb_false_r in Hr. cbn in Hr. repeat rewrite andb_false_r in Hr. discriminate.
    + cbn [ol_maxp] in Hid. destruct (d_maxp D) as [l|] eqn:Em; [|discriminate]. injection Hid as <-.
      cbn [OF with_name_dec q_maxp_ttf q_maxp_id copaque]. rewrite Em.
      pose proof (dk_glyf V D B K Ec) as Hg. unfold glyf_okb in Hg. rewrite Em in Hg.
      apply andb_true_iff in Hg. destruct Hg as [_ Hg]. apply andb_true_iff in Hg. destruct Hg as [H13 Hu].
      split; [now apply Nat.eqb_eq|]. split; [|reflexivity].
      apply Forall_forall. intros x Hx. rewrite forallb_forall in Hu. specialize (Hu x Hx).
      unfold U16, C12.Util.U16. now apply N.ltb_lt.
  - (* cmap *)
    intros c Hc. cbn [F font_of set_data f_cmap] in Hc.
    destruct (d_cmap D) as [t|] eqn:Et; [|discriminate]. injection Hc as <-.
    cbn [OF with_name_dec q_cmap_enc q_cmap_dec copaque]. rewrite Et.
    apply cmap_law. pose proof (dk_cmap V D B K) as H. now rewrite Et in H.
  - (* name *)
    cbn [OF with_name_dec q_name_enc q_name_dec copaque]. unfold canon_dec.
    rewrite (name_law V (M_write_name F) (dk_name V D B K) (ek_choose_win V D B E) (ek_choose_mac V D B E)).
    fold (names3 (name_back V (M_write_name F))).
    assert (Hrefl : tnames_eqb (names3 (name_back V (M_write_name F))) (names3 (name_back V (M_write_name F))) = true).
    { unfold tnames_eqb, names3. cbn [ns_win ns_winconf ns_mac ns_macconf otname_eqb]. now rewrite tname_eqb_refl. }
    rewrite Hrefl. reflexivity.
  - (* post version *)
    cbn [OF with_name_dec q_post_tail copaque].
    exact (proj1 (post_law V _ (dk_post V D B K))).
  - cbn [OF with_name_dec q_post_tail q_post_names copaque].
    rewrite (proj2 (post_law V _ (dk_post V D B K))). f_equal.
    unfold post_names_of. rewrite F_outl. unfold outl_of.
    destruct (d_cff D) as [o|] eqn:Ec.
    + now rewrite (dk_cffkind V D B K o Ec).
    + reflexivity.
  - (* CFF *)
    intros Hcff. rewrite F_outl in Hcff |- *. unfold outl_of in *.
    destruct (d_cff D) as [o|] eqn:Ec; [|cbn in Hcff; discriminate].
    cbn [OF with_name_dec q_cff_enc q_cff_dec copaque]. cbv zeta.
    destruct (ek_cff V D B E o Ec) as (_ & _ & H1 & H2). fold F in H1, H2. split; assumption.
  - (* glyf *)
    intros Hcff. rewrite F_outl in Hcff |- *. unfold outl_of in *.
    destruct (d_cff D) as [o|] eqn:Ec; [now rewrite (dk_cffkind V D B K o Ec) in Hcff|].
    cbn [OF with_name_dec q_glyf_enc q_glyf_dec copaque]. cbv zeta.
    destruct (glyf_law V D (dk_glyf V D B K Ec)) as (H1 & H2 & H3 & H4 & _).
    split; [exact H1|]. split; [exact H2|]. split; [exact H3|].
    rewrite H4. reflexivity.
  - (* GDEF *)
    intros g Hg. cbn [F font_of set_data f_gdef] in Hg.
    destruct (d_gdef D) as [x|] eqn:Ex; [|discriminate]. injection Hg as <-.
    cbn [OF with_name_dec q_gdef_enc q_gdef_dec copaque]. rewrite Ex.
    apply gdef_law. pose proof (dk_gdef V D B K) as H. now rewrite Ex in H.
  - intros g Hg. cbn [F font_of set_data f_gsub] in Hg.
    destruct (d_gsub D) as [x|] eqn:Ex; [|discriminate]. injection Hg as <-.
    cbn [OF with_name_dec q_gsub_enc q_gsub_dec copaque]. rewrite Ex.
    apply gtab_law. pose proof (dk_gsub V D B K) as H. now rewrite Ex in H.
  - intros g Hg. cbn [F font_of set_data f_gpos] in Hg.
    destruct (d_gpos D) as [x|] eqn:Ex; [|discriminate]. injection Hg as <-.
    cbn [OF with_name_dec q_gpos_enc q_gpos_dec copaque]. rewrite Ex.
    apply gtab_law. pose proof (dk_gpos V D B K) as H. now rewrite Ex in H.
Qed.

Lemma domain_OF : file_domain OF F.
Proof.
  constructor.
  - exact (dk_range V D B K).
  - exact (dk_values V D B K).
  - exact opaque_laws.
  - intros s ts H. unfold OF in H. rewrite file_tables_with_name_dec in H. exact (dk_fits V D B K s ts H).
Qed.

(* the decoders do not depend on the description *)
Lemma read_any_desc D' b : M_font_read_bytes (copaque V D') b = M_read_file V b.
Proof. reflexivity. Qed.

Lemma read_OF b : M_font_read_bytes OF b = M_read_file V b.
Proof.
  unfold OF. rewrite read_bytes_with_name_dec; [apply read_any_desc|].
  intros x. apply canon_dec_erase.
Qed.

Theorem normal_form_concrete :
  exists b, M_write_file V D B = Ok b /\ M_read_file V b = Ok (normalize F).
Proof.
  destruct (file_normal_form OF F domain_OF) as (b & Hw & Hrd).
  exists b. split.
  - unfold M_write_file. fold F. unfold OF in Hw. now rewrite write_with_name_dec in Hw.
  - now rewrite <- read_OF.
Qed.

Theorem container_concrete b :
  M_write_file V D B = Ok b ->
  C03.Spec.S_wf b /\ C03.Model.file_sum b = Gen.C03.header_checksumMagic.
Proof.
  intros Hw. apply (file_container_wf OF F b domain_OF).
  unfold OF. rewrite write_with_name_dec. exact Hw.
Qed.

End Assemble.

(* ------------------------------------------------------------------ *)
(* the description of the normal form, and the fixed points            *)

Definition norm_desc (V : views) (D : desc) (B : font) : desc :=
  mkDesc (d_cmap D) (d_glyphs D) (d_extra D) (d_widths D) (d_postnames D) (d_maxp D) (d_gdef D)
    (match d_gsub D with
     | Some g => Some g
     | None => match std_ligatures (font_of V D B) with Some _ => d_lig D | None => None end
     end)
    (d_gpos D) (d_lig D) (d_cff D).

(* Read synthesises the standard ligatures when there is no GSUB table: the
   description names the table it builds *)
Definition lig_ok (V : views) (D : desc) (B : font) : Prop :=
  d_gsub D = None ->
  std_ligatures (font_of V D B) = option_map (gtab_ident V C08D.Model.GSUB) (d_lig D).

Lemma font_of_norm V D B :
  lig_ok V D B ->
  font_of V (norm_desc V D B) (normalize (font_of V D B)) = normalize (font_of V D B).
Proof.
  intros Hl. unfold font_of at 1. unfold set_data.
  set (F := font_of V D B) in *.
  assert (Ho : outl_of V (norm_desc V D B) = f_outl (normalize F)) by reflexivity.
  assert (Hc : option_map (v_cmap V) (d_cmap (norm_desc V D B)) = f_cmap (normalize F)) by reflexivity.
  assert (Hd : option_map (gdef_ident V) (d_gdef (norm_desc V D B)) = f_gdef (normalize F)) by reflexivity.
  assert (Hp : option_map (gtab_ident V C08D.Model.GPOS) (d_gpos (norm_desc V D B)) = f_gpos (normalize F)) by reflexivity.
  assert (Hs : option_map (gtab_ident V C08D.Model.GSUB) (d_gsub (norm_desc V D B)) = f_gsub (normalize F)).
  { unfold normalize. cbn [f_gsub norm_desc d_gsub].
    assert (Eg : f_gsub F = option_map (gtab_ident V C08D.Model.GSUB) (d_gsub D)) by reflexivity.
    rewrite Eg. destruct (d_gsub D) as [g|] eqn:Egs; [reflexivity|]. cbn [option_map].
    change (font_of V D B) with F. pose proof (Hl Egs) as Hl'. change (font_of V D B) with F in Hl'.
    rewrite Hl'. destruct (d_lig D); reflexivity. }
  rewrite Ho, Hc, Hd, Hp, Hs. unfold normalize. reflexivity.
Qed.

Theorem fixed_point_concrete V D B :
  desc_ok V D B -> ext_ok V D B -> lig_ok V D B ->
  desc_ok V (norm_desc V D B) (normalize (font_of V D B)) ->
  ext_ok V (norm_desc V D B) (normalize (font_of V D B)) ->
  exists b1 b2,
    M_write_file V D B = Ok b1 /\ M_read_file V b1 = Ok (normalize (font_of V D B)) /\
    M_write_file V (norm_desc V D B) (normalize (font_of V D B)) = Ok b2 /\
    M_read_file V b2 = Ok (normalize (font_of V D B)).
Proof.
  intros K E Hl K1 E1.
  destruct (normal_form_concrete V D B K E) as (b1 & Hw1 & Hr1).
  destruct (normal_form_concrete V _ _ K1 E1) as (b2 & Hw2 & Hr2).
  rewrite (font_of_norm V D B Hl) in Hr2.
  rewrite (normalize_idem _ (in_range_version _ (dk_range V D B K))) in Hr2.
  exists b1, b2. repeat split; assumption.
Qed.

Theorem accepts_concrete V D B b :
  Bytes b -> M_read_file V b = Ok (font_of V D B) ->
  bold_settled (font_of V D B) = true -> underline_settled (font_of V D B) = true ->
  desc_ok V D B -> ext_ok V D B ->
  exists b1, M_write_file V D B = Ok b1 /\ M_read_file V b1 = Ok (font_of V D B).
Proof.
  intros Hb Hr Hbold Hund K E.
  set (OF := with_name_dec (copaque V D) (canon_dec V (M_write_name (font_of V D B)))).
  assert (Hr' : M_font_read_bytes OF b = Ok (font_of V D B)) by (unfold OF; rewrite (read_OF V D B); exact Hr).
  destruct (file_accepts_fixed_point OF b (font_of V D B) Hb Hr' Hbold Hund (domain_OF V D B K E))
    as (b1 & Hw & Hr1 & _).
  exists b1. split.
  - unfold M_write_file. unfold OF in Hw. now rewrite write_with_name_dec in Hw.
  - unfold OF in Hr1. now rewrite (read_OF V D B) in Hr1.
Qed.
