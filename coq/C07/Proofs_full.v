(* C07/Proofs_full.v — apply_no_panic, stage 2: any lookup list of reader
   shape (contextual subtables included).  Every subtable applied at a
   position a < b <= |seq| on a stack satisfying the invariant returns
   normally and re-establishes the invariant. *)
From Coq Require Import List NArith ZArith Bool Arith Lia Permutation.
From Common Require Import Outcome.
From Gen Require Import Consts C07.
From C07 Require Import Model Shape Util Proofs Proofs_text Proofs_term Proofs_len Proofs_match Proofs_safe Proofs_stack.
Import ListNotations.

(* positions matched by the ligature loop are strictly increasing and below b *)
Lemma lig_match_sorted keep s b : forall comps p mpos spos text p' mpos' spos' text',
  lig_match keep s b p comps mpos spos text = Ok (Some (p', mpos', spos', text')) ->
  exists mnew, mpos' = mpos ++ mnew /\ inc_from p mnew /\ Forall (fun x => x < b) mnew.
Proof.
  induction comps as [|c rest IH]; intros p mpos spos text p' mpos' spos' text' H; cbn [lig_match] in H.
  - inversion H; subst. exists []. rewrite app_nil_r. splits; [reflexivity|exact I|constructor].
  - brk H. destruct a as [p2 spos2]. brk H.
    match goal with Hq : (_, _) = (_, _) |- _ => inversion Hq; subst; clear Hq end.
    match goal with Hs : skip_fwd_collect _ _ _ _ _ = Ok _ |- _ =>
      apply skip_fwd_collect_spec in Hs; destruct Hs as (Hp1 & Hp2 & Hp3 & Hp4) end.
    apply IH in H. destruct H as (mn & -> & Hinc & Hlt).
    match goal with Hb : (b <=? ?q) = false |- _ => apply Nat.leb_gt in Hb;
      exists (q :: mn); rewrite <- app_assoc; splits;
      [ reflexivity | cbn [inc_from]; split; [lia|exact Hinc] | constructor; [lia|exact Hlt] ] end.
Qed.

Lemma lig_loop_inv keep s k a b g0 : a < b -> b <= length s -> stack_ok (length s) b k ->
  forall ligs, exists r s' k', lig_loop keep s k a b g0 ligs = Ok (r, (s', k')) /\ stack_ok (length s') 0 k'.
Proof.
  intros Ha Hb Hk. induction ligs as [|[comps out] rest IH]; cbn [lig_loop].
  - unfold nomatch. do 3 eexists. split; [reflexivity|]. eapply stack_ok_weaken; [|exact Hk]. lia.
  - destruct (lig_match_ok keep s b Hb comps (S a) [a] [] (g_text g0)) as [m Em]. rewrite Em. cbn [obind].
    destruct m as [[[[p mpos] spos] text]|]; [|exact IH].
    pose proof Em as Em2. apply lig_match_sorted in Em2. destruct Em2 as (mn2 & Hm2 & Hinc & Hlt).
    apply lig_match_spec in Em. destruct Em as (mn & sn & Hm & Hs & _ & Hperm & Hle & _ & Hin).
    rewrite Hm in Hm2. apply app_inv_head in Hm2. subst mn2. cbn in Hs. subst spos.
    assert (Hp : p <= length s) by (destruct (Nat.eq_dec p (S a)); [lia|apply Hin; lia]).
    destruct (gather_ok s sn) as [sk Esk].
    { apply Forall_forall. intros i Hi.
      assert (In i (seq (S a) (p - S a))) by (eapply Permutation_in; [exact Hperm|]; apply in_or_app; auto).
      apply in_seq in H. lia. }
    rewrite Esk. cbn [obind].
    destruct (length s <? p) eqn:El; [apply Nat.ltb_lt in El; lia|].
    do 3 eexists. split; [reflexivity|].
    apply gather_length in Esk. apply Permutation_length in Hperm. rewrite app_length, seq_length in Hperm.
    assert (Hlen : length (firstn a s ++ mkG out text 0 0 0 :: sk ++ skipn p s) = length s - length mn).
    { assert (Hal : a <= length s) by lia. rewrite app_length. rewrite (firstn_length_le s Hal). cbn [length]. rewrite app_length, skipn_length. lia. }
    rewrite Hlen. subst mpos. cbn [app].
    eapply stack_ok_weaken; [|eapply stack_ok_merge; [exact Hinc|exact Hlt|exact Ha|exact Hk]]. lia.
Qed.

Lemma seq_rules_inv test keep s k a b : a < b -> b <= length s -> stack_ok (length s) b k ->
  forall rules, exists r k', seq_rules test keep s k a b rules = Ok (r, (s, k')) /\ stack_ok (length s) 0 k'.
Proof.
  intros Ha Hb Hk. induction rules as [|[input acts] rest IH]; cbn [seq_rules].
  - unfold nomatch. do 2 eexists. split; [reflexivity|]. eapply stack_ok_weaken; [|exact Hk]. lia.
  - destruct (match_fwd_ok test keep s b Hb input a [a]) as (m & Em & Hm). rewrite Em. cbn [obind].
    destruct m as [[p mpos]|]; [|exact IH].
    destruct Hm as (new & -> & Hinc & Hle & Hap & Hlt). specialize (Hlt Ha).
    destruct (skip_fwd_ok keep s (b - S p) (S p)) as (e & Ee & He1 & He2); [right; lia|].
    rewrite Ee. cbn [obind]. unfold push_frame. do 2 eexists. split; [reflexivity|].
    cbn [stack_ok f_end]. splits; [|lia|eapply stack_ok_weaken; [|exact Hk]; cbn [f_end]; lia].
    unfold frame_ok. cbn [f_pos f_end app]. splits.
    + cbn [inc_from]. split; [lia|exact Hinc].
    + constructor; [lia|]. eapply Forall_impl; [|exact Hle]. cbn. intros; lia.
    + lia.
Qed.

Lemma chain_rules_inv tb ti tl keep s k a b : a < b -> b <= length s -> stack_ok (length s) b k ->
  forall rules, exists r k', chain_rules tb ti tl keep s k a b rules = Ok (r, (s, k')) /\ stack_ok (length s) 0 k'.
Proof.
  intros Ha Hb Hk. induction rules as [|[[[back input] look] acts] rest IH]; cbn [chain_rules].
  - unfold nomatch. do 2 eexists. split; [reflexivity|]. eapply stack_ok_weaken; [|exact Hk]. lia.
  - destruct (match_bwd_ok tb keep s back (S a)) as [okb Eb]; [lia|]. rewrite Eb. cbn [obind].
    destruct okb; cbn [negb]; [|exact IH].
    destruct (match_fwd_ok ti keep s b Hb input a [a]) as (m & Em & Hm). rewrite Em. cbn [obind].
    destruct m as [[p mpos]|]; [|exact IH].
    destruct Hm as (new & -> & Hinc & Hle & Hap & Hlt). specialize (Hlt Ha).
    destruct (match_fwd_ok tl keep s (length s) (le_n _) look p []) as (ml & El & _). rewrite El. cbn [obind].
    destruct ml; [|exact IH].
    destruct (skip_fwd_ok keep s (b - S p) (S p)) as (e & Ee & He1 & He2); [right; lia|].
    rewrite Ee. cbn [obind]. unfold push_frame. do 2 eexists. split; [reflexivity|].
    cbn [stack_ok f_end]. splits; [|lia|eapply stack_ok_weaken; [|exact Hk]; cbn [f_end]; lia].
    unfold frame_ok. cbn [f_pos f_end app]. splits.
    + cbn [inc_from]. split; [lia|exact Hinc].
    + constructor; [lia|]. eapply Forall_impl; [|exact Hle]. cbn. intros; lia.
    + lia.
Qed.

(* subtables that neither resize the sequence nor touch the stack *)
Definition sub_plain (sub : subtable) : bool :=
  match sub with
  | Gsub2_1 _ _ | Gsub4_1 _ _ => false
  | _ => sub_simple sub
  end.

Lemma apply_sub_plain keep sub s k a b r s' k' :
  sub_plain sub = true -> apply_sub keep sub s k a b = Ok (r, (s', k')) -> k' = k /\ length s' = length s.
Proof.
  intros Hp H. split.
  - revert H. unfold apply_sub. intros H.
    destruct (oget s a) as [g| | |] eqn:Eg; cbn [obind] in H; try discriminate H.
    destruct sub; cbn [sub_plain sub_simple] in Hp; try discriminate Hp; brk H; unfold nomatch in *;
      try (apply pair_apply_stack in H; exact H);
      try (apply mark_attach_stack in H; exact H);
      try (inversion H; subst; reflexivity).
  - revert H. unfold apply_sub. intros H.
    destruct (oget s a) as [g| | |] eqn:Eg; cbn [obind] in H; try discriminate H.
    destruct sub; cbn [sub_plain sub_simple] in Hp; try discriminate Hp; brk H; unfold nomatch in *;
      try (apply pair_apply_length in H; exact H);
      try (apply mark_attach_length in H; exact H);
      try (inversion H; subst; reflexivity);
      try (inversion H; subst;
           repeat match goal with
           | Hv : vr_apply_at _ _ _ = Ok _ |- _ => apply vr_apply_at_length in Hv
           | Hv : oupd _ _ _ = Ok _ |- _ => apply oupd_length in Hv
           end; congruence).
Qed.

Lemma chain3_input_ok keep s a b gid input : b <= length s -> a < b ->
  exists r, chain3_input keep s a b gid input = Ok r /\
    match r with
    | None => True
    | Some (p, mpos) => inc_from 0 mpos /\ Forall (fun x => x <= p) mpos /\ a <= p /\ p < b
    end.
Proof.
  intros Hb Ha. unfold chain3_input. destruct input as [|c0 rest].
  - exists (Some (a, [])). split; [reflexivity|]. cbn [inc_from]. splits; [exact I|constructor|lia|lia].
  - destruct (b <=? a + length rest); [eexists; split; [reflexivity|exact I]|].
    destruct (set_mem c0 gid); [|eexists; split; [reflexivity|exact I]].
    destruct (match_fwd_ok (fun x c => set_mem c x) keep s b Hb rest a [a]) as (m & Em & Hm).
    exists m. split; [exact Em|]. destruct m as [[p mpos]|]; [|exact I].
    destruct Hm as (new & -> & Hinc & Hle & Hap & Hlt). splits.
    + cbn [app inc_from]. split; [lia|]. eapply inc_from_weaken; [|exact Hinc]. lia.
    + cbn [app]. constructor; [lia|exact Hle].
    + lia.
    + auto.
Qed.

(* the main step: one subtable re-establishes the stack invariant *)
Lemma apply_sub_inv keep sub s k a b :
  sub_shape sub = true -> sub_impl sub = true ->
  a < b -> b <= length s -> stack_ok (length s) b k ->
  exists r s' k', apply_sub keep sub s k a b = Ok (r, (s', k')) /\ stack_ok (length s') 0 k'.
Proof.
  intros Hshape Himpl Ha Hb Hk.
  assert (Hk0 : stack_ok (length s) 0 k) by (eapply stack_ok_weaken; [|exact Hk]; lia).
  destruct (sub_plain sub) eqn:Epl.
  - (* plain *)
    assert (Hsimple : sub_simple sub = true) by (destruct sub; cbn in *; congruence).
    destruct (apply_sub_simple_ok keep sub s k a b Hsimple Hshape Himpl ltac:(lia) Hb) as [[r [s' k']] E].
    exists r, s', k'. split; [exact E|].
    apply apply_sub_plain in E; [|exact Epl]. destruct E as [-> ->]. exact Hk0.
  - unfold apply_sub. destruct (oget_lt s a ltac:(lia)) as [g Eg]. rewrite Eg. cbn [obind].
    destruct sub; cbn [sub_plain sub_simple sub_shape] in *; try discriminate Epl; unfold nomatch.
    + (* Gsub2_1 *)
      destruct (cov_find cov (g_gid g)) as [i|] eqn:Ec; [|do 3 eexists; split; [reflexivity|exact Hk0]].
      destruct (oget_lt repl i) as [x Ex]; [eapply cov_find_ok; eauto|]. rewrite Ex. cbn [obind].
      destruct x as [|x rest]; [do 3 eexists; split; [reflexivity|exact Hk0]|].
      do 3 eexists. split; [reflexivity|].
      rewrite multi_subst_length by lia.
      destruct rest as [|y rest'].
      * cbn [length]. rewrite Nat.add_0_r. exact Hk0.
      * eapply stack_ok_weaken; [|apply (stack_ok_insert (length s) a (length (y :: rest')) k b Ha Hk)]. lia.
    + (* Gsub4_1 *)
      destruct (cov_find cov (g_gid g)) as [i|] eqn:Ec; [|do 3 eexists; split; [reflexivity|exact Hk0]].
      destruct (oget_lt ligs i) as [x Ex]; [eapply cov_find_ok; eauto|]. rewrite Ex. cbn [obind].
      apply lig_loop_inv; auto.
    + (* SeqCtx1 *)
      destruct (cov_find cov (g_gid g)) as [i|] eqn:Ec; [|do 3 eexists; split; [reflexivity|exact Hk0]].
      destruct (oget_lt rules i) as [x Ex]; [eapply cov_find_ok; eauto|]. rewrite Ex. cbn [obind].
      destruct (seq_rules_inv eqN keep s k a b Ha Hb Hk x) as (r & k' & E & Hk'). eauto.
    + (* SeqCtx2 *)
      destruct (cov_find cov (g_gid g)) as [i|] eqn:Ec; [|do 3 eexists; split; [reflexivity|exact Hk0]].
      destruct (nth_error rules (N.to_nat (class_of cls (g_gid g)))) as [rs|];
        [|do 3 eexists; split; [reflexivity|exact Hk0]].
      match goal with |- context [seq_rules ?t keep s k a b rs] =>
        destruct (seq_rules_inv t keep s k a b Ha Hb Hk rs) as (r & k' & E & Hk') end. eauto.
    + (* SeqCtx3 *)
      destruct input as [|c0 rest]; [discriminate Hshape|].
      destruct (set_mem c0 (g_gid g)); cbn [negb]; [|do 3 eexists; split; [reflexivity|exact Hk0]].
      destruct (match_fwd_ok (fun x c => set_mem c x) keep s b Hb rest a [a]) as (m & Em & Hm).
      rewrite Em. cbn [obind].
      destruct m as [[p mpos]|]; [|do 3 eexists; split; [reflexivity|exact Hk0]].
      destruct Hm as (new & -> & Hinc & Hle & Hap & Hlt). specialize (Hlt Ha).
      destruct (skip_fwd_ok keep s (b - S p) (S p)) as (e & Ee & He1 & He2); [right; lia|].
      rewrite Ee. cbn [obind]. unfold push_frame. do 3 eexists. split; [reflexivity|].
      cbn [stack_ok f_end]. splits; [|lia|eapply stack_ok_weaken; [|exact Hk]; cbn [f_end]; lia].
      unfold frame_ok. cbn [f_pos f_end app]. splits.
      * cbn [inc_from]. split; [lia|exact Hinc].
      * constructor; [lia|]. eapply Forall_impl; [|exact Hle]. cbn. intros; lia.
      * lia.
    + (* Chain1 *)
      destruct (cov_find cov (g_gid g)) as [i|] eqn:Ec; [|do 3 eexists; split; [reflexivity|exact Hk0]].
      destruct (oget_lt rules i) as [x Ex]; [eapply cov_find_ok; eauto|]. rewrite Ex. cbn [obind].
      destruct (chain_rules_inv eqN eqN eqN keep s k a b Ha Hb Hk x) as (r & k' & E & Hk'). eauto.
    + (* Chain2 *)
      destruct (cov_find cov (g_gid g)) as [i|] eqn:Ec; [|do 3 eexists; split; [reflexivity|exact Hk0]].
      destruct (nth_error rules (N.to_nat (class_of icls (g_gid g)))) as [rs|];
        [|do 3 eexists; split; [reflexivity|exact Hk0]].
      match goal with |- context [chain_rules ?t1 ?t2 ?t3 keep s k a b rs] =>
        destruct (chain_rules_inv t1 t2 t3 keep s k a b Ha Hb Hk rs) as (r & k' & E & Hk') end. eauto.
    + (* Chain3 *)
      match goal with |- context [match_bwd ?t keep s (S a) back] =>
        destruct (match_bwd_ok t keep s back (S a)) as [okb Eb]; [lia|]; rewrite Eb; cbn [obind] end.
      destruct okb; cbn [negb]; [|do 3 eexists; split; [reflexivity|exact Hk0]].
      destruct (chain3_input_ok keep s a b (g_gid g) input Hb Ha) as (m & Em & Hm). rewrite Em. cbn [obind].
      destruct m as [[p mpos]|]; [|do 3 eexists; split; [reflexivity|exact Hk0]].
      destruct Hm as (Hinc & Hle & Hap & Hlt).
      match goal with |- context [match_fwd ?t keep s (length s) p look []] =>
        destruct (match_fwd_ok t keep s (length s) (le_n _) look p []) as (ml & El & _); rewrite El; cbn [obind] end.
      destruct ml; [|do 3 eexists; split; [reflexivity|exact Hk0]].
      destruct (skip_fwd_ok keep s (b - S p) (S p)) as (e & Ee & He1 & He2); [right; lia|].
      rewrite Ee. cbn [obind]. unfold push_frame. do 3 eexists. split; [reflexivity|].
      cbn [stack_ok f_end]. splits; [|lia|eapply stack_ok_weaken; [|exact Hk]; cbn [f_end]; lia].
      unfold frame_ok. cbn [f_pos f_end]. splits; [exact Hinc| |lia].
      eapply Forall_impl; [|exact Hle]. cbn. intros; lia.
Qed.

Definition subs_ok2 (subs : list subtable) : Prop :=
  Forall (fun sub => sub_shape sub = true /\ sub_impl sub = true) subs.

Lemma apply_at_inv keep : forall subs s k a b,
  subs_ok2 subs -> a < b -> b <= length s -> stack_ok (length s) b k ->
  exists r s' k', apply_at keep subs s k a b = Ok (r, (s', k')) /\ stack_ok (length s') 0 k'.
Proof.
  induction subs as [|sub rest IH]; intros s k a b HF Ha Hb Hk; cbn [apply_at].
  - unfold nomatch. do 3 eexists. split; [reflexivity|]. eapply stack_ok_weaken; [|exact Hk]. lia.
  - inversion HF as [|? ? (H1 & H2) HF']; subst.
    destruct (apply_sub_inv keep sub s k a b H1 H2 Ha Hb Hk) as (r & s' & k' & E & Hk').
    rewrite E. cbn [obind]. destruct r as [next|]; [eauto|].
    apply apply_sub_none in E. destruct E as [-> ->]. apply IH; auto.
Qed.

Definition ll_ok (ll : list lookup) : Prop :=
  forall i lk, nth_error ll i = Some lk -> subs_ok2 (lk_subs lk).

Lemma ll_ok_of ll : reader_shape ll = true -> implemented ll = true -> ll_ok ll.
Proof.
  intros H1 H2 i lk Hn. unfold subs_ok2.
  pose proof (ll_all_nth _ _ _ _ H1 Hn) as F1. pose proof (ll_all_nth _ _ _ _ H2 Hn) as F2.
  rewrite Forall_forall in *. intros sub Hin. auto.
Qed.

(* the nested-action loop keeps the invariant and never panics *)
Lemma nested_loop_np ll gd : ll_ok ll -> forall fuel num next s k,
  stack_ok (length s) 0 k -> nested_loop ll gd fuel num next s k <> Panic.
Proof.
  intros Hll. induction fuel as [|fuel IH]; intros num next s k Hk.
  - destruct k as [|fr rest]; cbn [nested_loop]; [discriminate|].
    destruct (budget <=? num); discriminate.
  - destruct k as [|fr rest]; cbn [nested_loop]; [discriminate|].
    destruct (budget <=? num); [discriminate|].
    destruct Hk as ((Hinc & Hlt & He) & _ & Hrest).
    destruct (f_acts fr) as [|[seqidx lidx] acts'] eqn:Eacts.
    + apply IH. eapply stack_ok_weaken; [|exact Hrest]. lia.
    + assert (Hk1 : stack_ok (length s) (f_end fr) (mkFrame (f_pos fr) acts' (f_end fr) :: rest)).
      { cbn [stack_ok f_end f_pos]. splits; [unfold frame_ok; cbn [f_pos f_end]; auto | lia | exact Hrest]. }
      assert (Hk10 : stack_ok (length s) 0 (mkFrame (f_pos fr) acts' (f_end fr) :: rest))
        by (eapply stack_ok_weaken; [|exact Hk1]; lia).
      destruct (nth_error (f_pos fr) seqidx) as [pos|] eqn:Epos; [|apply IH; exact Hk10].
      destruct (nth_error ll lidx) as [lk|] eqn:Elk; [|apply IH; exact Hk10].
      assert (Hpos : pos < f_end fr).
      { rewrite Forall_forall in Hlt. apply Hlt. eapply nth_error_In; eauto. }
      destruct (oget_lt s pos ltac:(lia)) as [g Eg]. rewrite Eg. cbn [obind].
      destruct (keepf gd lk (g_gid g)); [|apply IH; exact Hk10].
      destruct (apply_at_inv (keepf gd lk) (lk_subs lk) s _ pos (f_end fr) (Hll _ _ Elk) Hpos He Hk1)
        as (r & s' & k' & E & Hk').
      rewrite E. cbn [obind]. apply IH. exact Hk'.
Qed.

Lemma apply_rec_np ll gd lk s pos : ll_ok ll -> subs_ok2 (lk_subs lk) ->
  apply_rec ll gd lk s [] pos <> Panic \/ length s <= pos.
Proof.
  intros Hll Hlk. destruct (Nat.lt_ge_cases pos (length s)) as [Hp|Hp]; [left|right; exact Hp].
  unfold apply_rec. destruct (oget_lt s pos Hp) as [g Eg]. rewrite Eg. cbn [obind].
  destruct (keepf gd lk (g_gid g)); cbn [negb]; [|discriminate].
  destruct (apply_at_inv (keepf gd lk) (lk_subs lk) s [] pos (length s) Hlk Hp (le_n _) I)
    as (r & s' & k' & E & Hk').
  rewrite E. cbn [obind]. destruct r as [next|]; [|discriminate].
  destruct (nested_loop ll gd (nested_fuel k') 1 next s' k') as [[[n2 s2] k2]| | |] eqn:En; cbn [obind]; try discriminate.
  exfalso. eapply nested_loop_np; eauto.
Qed.

Lemma outer_loop_np ll gd lk : ll_ok ll -> subs_ok2 (lk_subs lk) ->
  forall fuel pos s, outer_loop ll gd lk fuel pos s [] <> Panic.
Proof.
  intros Hll Hlk. induction fuel as [|fuel IH]; intros pos s; cbn [outer_loop].
  - destruct (length s <=? pos); discriminate.
  - destruct (length s <=? pos) eqn:El; [discriminate|]. apply Nat.leb_gt in El.
    destruct (apply_rec ll gd lk s [] pos) as [[[pos1 s1] k1]| | |] eqn:E; cbn [obind]; try discriminate.
    + pose proof (apply_rec_stack _ _ _ _ _ _ _ _ _ E) as Hk. assert (k1 = []) by (destruct Hk; auto). subst k1.
      apply IH.
    + destruct (apply_rec_np ll gd lk s pos Hll Hlk) as [H|H]; [congruence|lia].
Qed.

(* apply_no_panic, general form *)
Lemma apply_no_panic_gen ll gd :
  reader_shape ll = true -> implemented ll = true ->
  forall lookups s, M_shape ll gd lookups [] s <> Panic.
Proof.
  intros H1 H2. pose proof (ll_ok_of ll H1 H2) as Hll. unfold M_shape.
  induction lookups as [|l rest IH]; intros s; cbn [apply_lookups]; [discriminate|].
  unfold apply_lookup. destruct (nth_error ll l) as [lk|] eqn:En; cbn [obind]; [|apply IH].
  destruct (outer_loop ll gd lk (length s) 0 s []) as [[s' k']| | |] eqn:E; cbn [obind]; try discriminate.
  - apply outer_loop_stack in E. subst k'. apply IH.
  - exfalso. eapply outer_loop_np; eauto.
Qed.

