(* C07/Props.v — the property theorems about M_shape (coq/C07/Model.v), the
   mirror of the repaired lookup-application engine, stated against the action
   budget the translator extracted from opentype/gtab/layout.go on this run.
   Nothing else. *)
From Coq Require Import List NArith ZArith Bool Arith Lia Permutation.
From Common Require Import Outcome.
From Gen Require Import Consts C07.
From C07 Require Import Model Proofs Proofs_text Proofs_term Proofs_len.
Import ListNotations.

(* C07 "terminates": for ANY lookup list (any shape, also shapes the reader
   cannot deliver), any GDEF, any lookup order, any stack left behind and any
   glyph sequence, neither the outer loop of Context.Apply (fuel = |seq|: the
   progress guard makes todo strictly decrease) nor the nested-action loop
   (fuel = 2*budget + |stack|: at most budget actions, each pushing at most
   one frame) runs out of fuel. *)
Theorem apply_terminates :
  forall ll gd lookups k s, M_shape ll gd lookups k s <> OutOfFuel.
Proof. intros. apply apply_lookups_nf. Qed.
Print Assumptions apply_terminates.

(* the two loop-level statements behind it *)
Theorem inner_loop_within_budget :
  forall ll gd fuel num next s k,
    2 * (gtab_actionBudget - num) + length k <= fuel ->
    nested_loop ll gd fuel num next s k <> OutOfFuel.
Proof. exact nested_loop_nf. Qed.

Theorem outer_loop_progress :
  forall ll gd lk fuel pos s k,
    length s - pos <= fuel -> outer_loop ll gd lk fuel pos s k <> OutOfFuel.
Proof. exact outer_loop_nf. Qed.
Print Assumptions outer_loop_progress.

(* C07 "conserves text": the multiset of runes attached to the glyphs is the
   same before and after Apply - for any tables, GDEF, stack and sequence. *)
Theorem text_conserved :
  forall ll gd lookups k s s' k',
    M_shape ll gd lookups k s = Ok (s', k') ->
    Permutation (flat_map g_text s') (flat_map g_text s).
Proof. exact text_conserved_gen. Qed.
Print Assumptions text_conserved.

(* C07 "output length stays within what the matched substitutions can
   produce": one lookup pass over n glyphs yields at most
   n * (1 + budget * (K - 1)) glyphs, K = the longest replacement sequence of
   a multiple substitution in the lookup list (at least 1). *)
Theorem length_bound :
  forall ll gd s k l s' k',
    apply_lookup ll gd s k l = Ok (s', k') ->
    length s' <= length s * (1 + gtab_actionBudget * (ll_K ll - 1)).
Proof. exact length_bound_gen. Qed.
Print Assumptions length_bound.

(* The stack of nested frames is empty when Apply returns. *)
Theorem stack_empty_on_return :
  forall ll gd lookups s s' k',
    M_shape ll gd lookups [] s = Ok (s', k') -> k' = [].
Proof. exact apply_lookups_stack. Qed.
Print Assumptions stack_empty_on_return.

(* C07 "history independent": in any history of Apply calls on one context
   (starting from a new context), the i-th observation equals the observation
   of the same call on a fresh context. *)
Theorem history_independent :
  forall ll gd lookups hist i r,
    nth_error (run_history ll gd lookups [] hist) i = Some r ->
    exists s, nth_error hist i = Some s /\ r = obs (M_shape ll gd lookups [] s).
Proof. exact history_independent_gen. Qed.
Print Assumptions history_independent.

(* A subtable that reports "no match" leaves sequence and stack untouched
   (first matching subtable wins, the others have no effect). *)
Theorem nomatch_is_pure :
  forall keep sub s k a b s' k',
    apply_sub keep sub s k a b = Ok (None, (s', k')) -> s' = s /\ k' = k.
Proof. exact apply_sub_none. Qed.
Print Assumptions nomatch_is_pure.
