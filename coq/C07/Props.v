(* C07/Props.v — the property theorems about M_shape (coq/C07/Model.v), the
   mirror of the repaired lookup-application engine, stated against the action
   budget the translator extracted from opentype/gtab/layout.go on this run.
   Nothing else. *)
From Coq Require Import List NArith ZArith Bool Arith Lia Permutation.
From Common Require Import Outcome.
From Gen Require Import Consts C07.
From C07 Require Import Model Shape Proofs Proofs_text Proofs_term Proofs_len Proofs_match Proofs_safe Proofs_stack Proofs_full Proofs_err.
Import ListNotations.

(* C07 "terminates": for ANY lookup list (any shape, also shapes the reader
   cannot deliver), any GDEF, any lookup order, any stack left behind and any
   glyph sequence, neither the outer loop of Context.Apply (fuel = |seq|: the
   progress guard makes todo strictly decrease) nor the nested-action loop
   (fuel = 2*budget + |stack|: at most budget actions, each pushing at most
   one frame) runs out of fuel. *)
Theorem apply_terminates :
  forall ll gd lookups k s, M_shape ll gd lookups k s <> OutOfFuel.
Proof. intros. apply apply_lookups_nf. Qed.
Print Assumptions apply_terminates.

(* the two loop-level statements behind it *)
Theorem inner_loop_within_budget :
  forall ll gd fuel num next s k,
    2 * (gtab_actionBudget - num) + length k <= fuel ->
    nested_loop ll gd fuel num next s k <> OutOfFuel.
Proof. exact nested_loop_nf. Qed.

Theorem outer_loop_progress :
  forall ll gd lk fuel pos s k,
    length s - pos <= fuel -> outer_loop ll gd lk fuel pos s k <> OutOfFuel.
Proof. exact outer_loop_nf. Qed.
Print Assumptions outer_loop_progress.

(* C07 "conserves text": the multiset of runes attached to the glyphs is the
   same before and after Apply - for any tables, GDEF, stack and sequence. *)
Theorem text_conserved :
  forall ll gd lookups k s s' k',
    M_shape ll gd lookups k s = Ok (s', k') ->
    Permutation (flat_map g_text s') (flat_map g_text s).
Proof. exact text_conserved_gen. Qed.
Print Assumptions text_conserved.

(* C07 "output length stays within what the matched substitutions can
   produce": one lookup pass over n glyphs yields at most
   n * (1 + budget * (K - 1)) glyphs, K = the longest replacement sequence of
   a multiple substitution in the lookup list (at least 1). *)
Theorem length_bound :
  forall ll gd s k l s' k',
    apply_lookup ll gd s k l = Ok (s', k') ->
    length s' <= length s * (1 + gtab_actionBudget * (ll_K ll - 1)).
Proof. exact length_bound_gen. Qed.
Print Assumptions length_bound.

(* The stack of nested frames is empty when Apply returns. *)
Theorem stack_empty_on_return :
  forall ll gd lookups s s' k',
    M_shape ll gd lookups [] s = Ok (s', k') -> k' = [].
Proof. exact apply_lookups_stack. Qed.
Print Assumptions stack_empty_on_return.

(* C07 "history independent": in any history of Apply calls on one context
   (starting from a new context), the i-th observation equals the observation
   of the same call on a fresh context. *)
Theorem history_independent :
  forall ll gd lookups hist i r,
    nth_error (run_history ll gd lookups [] hist) i = Some r ->
    exists s, nth_error hist i = Some s /\ r = obs (M_shape ll gd lookups [] s).
Proof. exact history_independent_gen. Qed.
Print Assumptions history_independent.

(* A subtable that reports "no match" leaves sequence and stack untouched
   (first matching subtable wins, the others have no effect). *)
Theorem nomatch_is_pure :
  forall keep sub s k a b s' k',
    apply_sub keep sub s k a b = Ok (None, (s', k')) -> s' = s /\ k' = k.
Proof. exact apply_sub_none. Qed.
Print Assumptions nomatch_is_pure.

(* C07 "does not panic".  reader_shape (Shape.v) is the boolean description of
   what gtab.Read can deliver: coverage indices inside the arrays they index,
   at least one input coverage table in format-3 contexts - and nothing else:
   lookup indices, sequence indices, classes, mark classes, mark filtering
   sets, empty replacement lists and action counts are arbitrary.
   implemented excludes the positioning data the library declares
   unimplemented (vertical advance, device offsets). *)

(* stage 1: lookup lists without contextual subtables *)
Theorem apply_no_panic_partial :
  forall ll gd, simple ll = true -> reader_shape ll = true -> implemented ll = true ->
  forall lookups s, M_shape ll gd lookups [] s <> Panic.
Proof. exact apply_no_panic_simple. Qed.
Print Assumptions apply_no_panic_partial.

(* stage 2: every lookup list of reader shape, contextual subtables of all six
   formats, self-referential and arbitrarily deep nesting, any number of
   nested actions included *)
Theorem apply_no_panic :
  forall ll gd, reader_shape ll = true -> implemented ll = true ->
  forall lookups s, M_shape ll gd lookups [] s <> Panic.
Proof. exact apply_no_panic_gen. Qed.
Print Assumptions apply_no_panic.

(* the stack invariant behind it: InputPos strictly increasing and below
   EndPos, EndPos <= |seq| and non-decreasing from the top of the stack down;
   it is re-established by every subtable applied at a < b <= |seq| ... *)
Theorem stack_invariant_step :
  forall keep sub s k a b,
    sub_shape sub = true -> sub_impl sub = true ->
    a < b -> b <= length s -> stack_ok (length s) b k ->
    exists r s' k', apply_sub keep sub s k a b = Ok (r, (s', k')) /\ stack_ok (length s') 0 k'.
Proof. exact apply_sub_inv. Qed.
Print Assumptions stack_invariant_step.

(* ... in particular by fixStackInsert (one glyph at a became d+1 glyphs) *)
Theorem fix_stack_insert_preserves :
  forall n a d k b, a < b -> stack_ok n b k -> stack_ok (n + d) (b + d) (fix_insert a (S d) k).
Proof. exact stack_ok_insert. Qed.

(* ... and by fixStackMerge (the glyphs at a :: mnew, all below b, became one) *)
Theorem fix_stack_merge_preserves :
  forall n a mnew, inc_from (S a) mnew ->
  forall k b, Forall (fun x => x < b) mnew -> a < b -> stack_ok n b k ->
  stack_ok (n - length mnew) (b - length mnew) (fix_merge (a :: mnew) k).
Proof. exact stack_ok_merge. Qed.
Print Assumptions fix_stack_merge_preserves.

(* Altogether: on a context with an empty stack every Apply call returns - a
   sequence, and the empty stack again. *)
Theorem apply_returns :
  forall ll gd, reader_shape ll = true -> implemented ll = true ->
  forall lookups s, exists s', M_shape ll gd lookups [] s = Ok (s', []).
Proof. exact apply_total. Qed.
Print Assumptions apply_returns.
