(* C07/Util.v — small tactics and list lemmas used by the C07 proofs. *)
From Coq Require Import List NArith ZArith Bool Arith Lia Permutation.
From Common Require Import Outcome.
Import ListNotations.

(* invert  obind e f = Ok r  *)
Ltac obind_inv H :=
  match type of H with
  | obind ?e ?f = Ok ?r =>
    let a := fresh "a" in let Ha := fresh "Ha" in let Hb := fresh "Hb" in
    destruct (obind_ok e f r H) as [a [Ha Hb]]; clear H
  end.

Lemma obind_ok_eq {A B} (x : outcome A) (f : A -> outcome B) a :
  x = Ok a -> obind x f = f a.
Proof. intros ->. reflexivity. Qed.

(* split syntactic conjunctions only *)
Ltac splits := repeat match goal with |- _ /\ _ => split end.
