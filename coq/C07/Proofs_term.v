(* C07/Proofs_term.v — termination (the fuel of the two loops never runs
   out), the stack is empty when Apply returns, and the result of Apply does
   not depend on earlier calls on the same context. *)
From Coq Require Import List NArith ZArith Bool Arith Lia.
From Common Require Import Outcome.
From Gen Require Import Consts C07.
From C07 Require Import Model Util Proofs.
Import ListNotations.

(* ------------------------------------------------------------------ *)
(* No subtable ever reports OutOfFuel (their loops are structural).    *)

Ltac nf_leaf H := first [ discriminate H | (unfold nomatch, push_frame in H; discriminate H) ].

Lemma oget_nf {A} (s : list A) i : oget s i <> OutOfFuel.
Proof. unfold oget. destruct (nth_error s i); discriminate. Qed.

Lemma oupd_nf {A} (s : list A) i x : oupd s i x <> OutOfFuel.
Proof. unfold oupd. destruct (upd s i x); discriminate. Qed.

Ltac nf_base := first [ eapply oget_nf; eassumption | eapply oupd_nf; eassumption ].

Lemma skip_fwd_nf keep s : forall n p, skip_fwd keep s p n <> OutOfFuel.
Proof.
  induction n as [|n IH]; intros p H; cbn [skip_fwd] in H; [discriminate|].
  brk H; try nf_leaf H; try nf_base. eapply IH; eauto.
Qed.

Lemma skip_fwd_collect_nf keep s : forall n p acc, skip_fwd_collect keep s p n acc <> OutOfFuel.
Proof.
  induction n as [|n IH]; intros p acc H; cbn [skip_fwd_collect] in H; [discriminate|].
  brk H; try nf_leaf H; try nf_base. eapply IH; eauto.
Qed.

Lemma skip_bwd_nf keep s gn : forall q, skip_bwd keep s q gn <> OutOfFuel.
Proof.
  induction q as [|q IH]; intros H; cbn [skip_bwd] in H; [discriminate|].
  brk H; try nf_leaf H; try nf_base. eapply IH; eauto.
Qed.

Lemma match_fwd_nf {X} (test : N -> X -> bool) keep s lim : forall items p acc,
  match_fwd test keep s lim p items acc <> OutOfFuel.
Proof.
  induction items as [|it rest IH]; intros p acc H; cbn [match_fwd] in H; [discriminate|].
  brk H; try nf_leaf H; try nf_base.
  - eapply IH; eauto.
  - eapply skip_fwd_nf; eauto.
Qed.

Lemma match_bwd_nf {X} (test : N -> X -> bool) keep s : forall items q,
  match_bwd test keep s q items <> OutOfFuel.
Proof.
  induction items as [|it rest IH]; intros q H; cbn [match_bwd] in H; [discriminate|].
  brk H; try nf_leaf H; try nf_base.
  - eapply IH; eauto.
  - eapply skip_bwd_nf; eauto.
Qed.

Lemma chain3_input_nf keep s a b gid input : chain3_input keep s a b gid input <> OutOfFuel.
Proof.
  unfold chain3_input. intros H. brk H; try nf_leaf H. eapply match_fwd_nf; eauto.
Qed.

Lemma seq_rules_nf test keep s k a b : forall rules, seq_rules test keep s k a b rules <> OutOfFuel.
Proof.
  induction rules as [|[input acts] rest IH]; intros H; cbn [seq_rules] in H; [nf_leaf H|].
  brk H; try nf_leaf H; try (eapply IH; eauto; fail).
  - eapply skip_fwd_nf; eauto.
  - eapply match_fwd_nf; eauto.
Qed.

Lemma chain_rules_nf tb ti tl keep s k a b : forall rules,
  chain_rules tb ti tl keep s k a b rules <> OutOfFuel.
Proof.
  induction rules as [|[[[back input] look] acts] rest IH]; intros H; cbn [chain_rules] in H; [nf_leaf H|].
  brk H; try nf_leaf H; try (eapply IH; eauto; fail);
    try (eapply skip_fwd_nf; eauto; fail);
    try (eapply match_fwd_nf; eauto; fail);
    try (eapply match_bwd_nf; eauto; fail).
Qed.

Lemma lig_match_nf keep s b : forall comps p mpos spos text,
  lig_match keep s b p comps mpos spos text <> OutOfFuel.
Proof.
  induction comps as [|c rest IH]; intros p mpos spos text H; cbn [lig_match] in H; [discriminate|].
  brk H; try nf_leaf H; try nf_base.
  - eapply IH; eauto.
  - eapply skip_fwd_collect_nf; eauto.
Qed.

Lemma gather_nf {A} (s : list A) : forall idx, gather s idx <> OutOfFuel.
Proof.
  induction idx as [|i t IH]; intros H; cbn [gather] in H; [discriminate|].
  brk H; try nf_leaf H; try nf_base. eapply IH; eauto.
Qed.

Lemma lig_loop_nf keep s k a b g0 : forall ligs, lig_loop keep s k a b g0 ligs <> OutOfFuel.
Proof.
  induction ligs as [|[comps out] rest IH]; intros H; cbn [lig_loop] in H; [nf_leaf H|].
  brk H; try nf_leaf H; try (eapply IH; eauto; fail).
  - eapply gather_nf; eauto.
  - eapply lig_match_nf; eauto.
Qed.

Lemma vr_apply_nf v g : vr_apply v g <> OutOfFuel.
Proof. unfold vr_apply. destruct v; [destruct (_ || _)|]; discriminate. Qed.

Lemma vr_apply_at_nf v s i : vr_apply_at v s i <> OutOfFuel.
Proof.
  unfold vr_apply_at. intros H. brk H; try nf_leaf H; try nf_base. eapply vr_apply_nf; eauto.
Qed.

Lemma pair_apply_nf pa s k a p : pair_apply pa s k a p <> OutOfFuel.
Proof.
  unfold pair_apply. intros H. brk H; try nf_leaf H; eapply vr_apply_at_nf; eauto.
Qed.

Lemma sub_advances_nf s : forall n p dx, sub_advances s p n dx <> OutOfFuel.
Proof.
  induction n as [|n IH]; intros p dx H; cbn [sub_advances] in H; [discriminate|].
  brk H; try nf_leaf H; try nf_base. eapply IH; eauto.
Qed.

Lemma find_back_nf cov s : forall q, find_back cov s q <> OutOfFuel.
Proof.
  induction q as [|q IH]; intros H; cbn [find_back] in H; [discriminate|].
  brk H; try nf_leaf H; try nf_base. eapply IH; eauto.
Qed.

Lemma mark_attach_nf add mcov bcov marks bases s k a :
  mark_attach add mcov bcov marks bases s k a <> OutOfFuel.
Proof.
  unfold mark_attach. intros H. brk H; try nf_leaf H; try nf_base.
  - eapply sub_advances_nf; eauto.
  - eapply find_back_nf; eauto.
Qed.

Lemma gpos3_prev_nf cov recs s a g ey : gpos3_prev cov recs s a g ey <> OutOfFuel.
Proof. unfold gpos3_prev. intros H. brk H; try nf_leaf H; nf_base. Qed.

Lemma gpos3_next_nf cov recs s a b g xx : gpos3_next cov recs s a b g xx <> OutOfFuel.
Proof. unfold gpos3_next. intros H. brk H; try nf_leaf H; nf_base. Qed.

Ltac nf_sub :=
  first [ eapply oget_nf; eassumption | eapply oupd_nf; eassumption
        | eapply skip_fwd_nf; eassumption | eapply match_fwd_nf; eassumption | eapply chain3_input_nf; eassumption
        | eapply match_bwd_nf; eassumption
        | eapply seq_rules_nf; eassumption | eapply chain_rules_nf; eassumption
        | eapply lig_loop_nf; eassumption | eapply vr_apply_at_nf; eassumption
        | eapply pair_apply_nf; eassumption | eapply mark_attach_nf; eassumption
        | eapply gpos3_prev_nf; eassumption | eapply gpos3_next_nf; eassumption ].

Lemma apply_sub_nf keep sub s k a b : apply_sub keep sub s k a b <> OutOfFuel.
Proof.
  unfold apply_sub. intros H.
  destruct (oget s a) as [g| | |] eqn:Eg; cbn [obind] in H; try discriminate H;
    [|eapply oget_nf; eauto].
  destruct sub; brk H; try nf_leaf H; nf_sub.
Qed.

Lemma apply_at_nf keep : forall subs s k a b, apply_at keep subs s k a b <> OutOfFuel.
Proof.
  induction subs as [|sub rest IH]; intros s k a b H; cbn [apply_at] in H; [nf_leaf H|].
  brk H; try nf_leaf H.
  - eapply IH; eauto.
  - eapply apply_sub_nf; eauto.
Qed.

(* ------------------------------------------------------------------ *)
(* How a subtable changes the stack                                     *)

Lemma fix_merge_length pos k : length (fix_merge pos k) = length k.
Proof. apply map_length. Qed.

Lemma fix_insert_length pos num k : length (fix_insert pos num k) = length k.
Proof. apply map_length. Qed.

Lemma seq_rules_stack test keep s k a b rules r s' k' :
  seq_rules test keep s k a b rules = Ok (r, (s', k')) -> length k' <= S (length k).
Proof.
  induction rules as [|[input acts] rest IH]; cbn [seq_rules]; intros H.
  - inversion H; subst; lia.
  - brk H; try (apply IH; exact H). unfold push_frame in H. inversion H; subst. cbn. lia.
Qed.

Lemma chain_rules_stack tb ti tl keep s k a b rules r s' k' :
  chain_rules tb ti tl keep s k a b rules = Ok (r, (s', k')) -> length k' <= S (length k).
Proof.
  induction rules as [|[[[back input] look] acts] rest IH]; cbn [chain_rules]; intros H.
  - inversion H; subst; lia.
  - brk H; try (apply IH; exact H). unfold push_frame in H. inversion H; subst. cbn. lia.
Qed.

Lemma lig_loop_stack keep s k a b g0 ligs r s' k' :
  lig_loop keep s k a b g0 ligs = Ok (r, (s', k')) -> length k' <= S (length k).
Proof.
  induction ligs as [|[comps out] rest IH]; cbn [lig_loop]; intros H.
  - inversion H; subst; lia.
  - brk H; try (apply IH; exact H). inversion H; subst. rewrite fix_merge_length. lia.
Qed.

Lemma pair_apply_stack pa s k a p r s' k' : pair_apply pa s k a p = Ok (r, (s', k')) -> k' = k.
Proof. unfold pair_apply. intros H. brk H; inversion H; subst; reflexivity. Qed.

Lemma mark_attach_stack add mcov bcov marks bases s k a r s' k' :
  mark_attach add mcov bcov marks bases s k a = Ok (r, (s', k')) -> k' = k.
Proof. unfold mark_attach, nomatch. intros H. brk H; inversion H; subst; reflexivity. Qed.

Lemma apply_sub_stack keep sub s k a b r s' k' :
  apply_sub keep sub s k a b = Ok (r, (s', k')) -> length k' <= S (length k).
Proof.
  unfold apply_sub. intros H.
  destruct (oget s a) as [g| | |] eqn:Eg; cbn [obind] in H; try discriminate H.
  destruct sub; brk H; unfold nomatch, push_frame in *;
    try (apply seq_rules_stack in H; exact H);
    try (apply chain_rules_stack in H; exact H);
    try (apply lig_loop_stack in H; exact H);
    try (apply pair_apply_stack in H; subst; lia);
    try (apply mark_attach_stack in H; subst; lia);
    try (inversion H; subst; cbn [length]; rewrite ?fix_insert_length; lia).
  inversion H; subst. destruct l; rewrite ?fix_insert_length; lia.
Qed.

Lemma apply_at_stack keep : forall subs s k a b r s' k',
  apply_at keep subs s k a b = Ok (r, (s', k')) -> length k' <= S (length k).
Proof.
  induction subs as [|sub rest IH]; cbn [apply_at]; intros s k a b r s' k' H.
  - inversion H; subst; lia.
  - brk H.
    + inversion H; subst. eapply apply_sub_stack; eauto.
    + match goal with Hn : apply_sub _ _ _ _ _ _ = Ok (None, _) |- _ =>
        apply apply_sub_none in Hn; destruct Hn as [-> ->] end.
      eapply IH; eauto.
Qed.

Lemma apply_at_none keep : forall subs s k a b s' k',
  apply_at keep subs s k a b = Ok (None, (s', k')) -> s' = s /\ k' = k.
Proof.
  induction subs as [|sub rest IH]; cbn [apply_at]; intros s k a b s' k' H.
  - inversion H; auto.
  - brk H; try (inversion H; fail).
    match goal with Hn : apply_sub _ _ _ _ _ _ = Ok (None, _) |- _ =>
      apply apply_sub_none in Hn; destruct Hn as [-> ->] end.
    eapply IH; eauto.
Qed.

(* ------------------------------------------------------------------ *)
(* apply_terminates                                                    *)

(* inner loop: 2*(budget - numActions) + |stack| strictly decreases *)
Lemma nested_loop_nf ll gd : forall fuel num next s k,
  2 * (budget - num) + length k <= fuel -> nested_loop ll gd fuel num next s k <> OutOfFuel.
Proof.
  induction fuel as [|fuel IH]; intros num next s k Hf H.
  - destruct k as [|fr rest]; cbn [nested_loop] in H; [discriminate|].
    destruct (budget <=? num) eqn:Eb; [discriminate|].
    apply Nat.leb_gt in Eb. cbn [length] in Hf. lia.
  - destruct k as [|fr rest]; cbn [nested_loop] in H; [discriminate|].
    destruct (budget <=? num) eqn:Eb; [discriminate|].
    apply Nat.leb_gt in Eb. cbn [length] in Hf.
    brk H; try nf_leaf H; try nf_base;
      try (eapply IH; [|exact H]; cbn [length]; lia).
    + match goal with Ha : apply_at _ _ _ _ _ _ = Ok _ |- _ => apply apply_at_stack in Ha; cbn [length] in Ha end.
      eapply IH; [|exact H]. lia.
    + eapply apply_at_nf; eauto.
Qed.

Lemma apply_rec_nf ll gd lk s k pos : apply_rec ll gd lk s k pos <> OutOfFuel.
Proof.
  unfold apply_rec. intros H. brk H; try nf_leaf H; try nf_base.
  - eapply nested_loop_nf; [|eassumption]. unfold nested_fuel. lia.
  - eapply apply_at_nf; eauto.
Qed.

(* what the inner loop and applyAtRecursively do to the sequence length is
   irrelevant here; for the outer loop only "todo strictly decreases" matters *)
Lemma outer_loop_nf ll gd lk : forall fuel pos s k,
  length s - pos <= fuel -> outer_loop ll gd lk fuel pos s k <> OutOfFuel.
Proof.
  induction fuel as [|fuel IH]; intros pos s k Hf H; cbn [outer_loop] in H.
  - destruct (length s <=? pos) eqn:El; [discriminate|]. apply Nat.leb_gt in El. lia.
  - destruct (length s <=? pos) eqn:El; [discriminate|]. apply Nat.leb_gt in El.
    brk H; try nf_leaf H.
    + eapply IH; [|exact H].
      match goal with |- context [if ?c then _ else _] => destruct c eqn:Ec end.
      * apply Nat.leb_le in Ec. lia.
      * apply Nat.leb_gt in Ec. lia.
    + eapply apply_rec_nf; eauto.
Qed.

Lemma apply_lookup_nf ll gd s k l : apply_lookup ll gd s k l <> OutOfFuel.
Proof.
  unfold apply_lookup. destruct (nth_error ll l); [|discriminate].
  apply outer_loop_nf. lia.
Qed.

Lemma apply_lookups_nf ll gd : forall lookups s k, apply_lookups ll gd lookups s k <> OutOfFuel.
Proof.
  induction lookups as [|l rest IH]; intros s k H; cbn [apply_lookups] in H; [discriminate|].
  brk H; try nf_leaf H.
  - eapply IH; eauto.
  - eapply apply_lookup_nf; eauto.
Qed.

(* ------------------------------------------------------------------ *)
(* stack_empty_on_return, history_independent                          *)

Lemma apply_rec_stack ll gd lk s k pos pos' s' k' :
  apply_rec ll gd lk s k pos = Ok (pos', s', k') -> k' = k \/ k' = [].
Proof.
  unfold apply_rec. intros H. brk H; inversion H; subst; auto.
  match goal with Hn : apply_at _ _ _ _ _ _ = Ok (None, _) |- _ =>
    apply apply_at_none in Hn; destruct Hn as [-> ->] end. auto.
Qed.

Lemma outer_loop_stack ll gd lk : forall fuel pos s s' k',
  outer_loop ll gd lk fuel pos s [] = Ok (s', k') -> k' = [].
Proof.
  induction fuel as [|fuel IH]; intros pos s s' k' H; cbn [outer_loop] in H.
  - destruct (length s <=? pos); [inversion H; reflexivity | discriminate].
  - destruct (length s <=? pos); [inversion H; reflexivity|].
    brk H.
    match goal with Ha : apply_rec _ _ _ _ _ _ = Ok _ |- _ => apply apply_rec_stack in Ha; destruct Ha as [-> | ->] end;
      eapply IH; eauto.
Qed.

Lemma apply_lookups_stack ll gd : forall lookups s s' k',
  apply_lookups ll gd lookups s [] = Ok (s', k') -> k' = [].
Proof.
  induction lookups as [|l rest IH]; cbn [apply_lookups]; intros s s' k' H.
  - inversion H; reflexivity.
  - brk H.
    match goal with Ha : apply_lookup _ _ _ _ _ = Ok _ |- _ => unfold apply_lookup in Ha; rename Ha into E' end.
    destruct (nth_error ll l).
    + apply outer_loop_stack in E'. subst. eapply IH; eauto.
    + inversion E'; subst. eapply IH; eauto.
Qed.

Definition obs (r : outcome (list glyph * stack)) : outcome (list glyph * nat) :=
  match r with
  | Ok (s, k) => Ok (s, length k)
  | Err => Err | Panic => Panic | OutOfFuel => OutOfFuel
  end.

(* every observation in a history run from a fresh context is the observation
   of the same call on a fresh context *)
Lemma history_independent_gen ll gd lookups : forall hist i r,
  nth_error (run_history ll gd lookups [] hist) i = Some r ->
  exists s, nth_error hist i = Some s /\ r = obs (M_shape ll gd lookups [] s).
Proof.
  induction hist as [|s rest IH]; intros i r H; cbn [run_history] in H.
  - destruct i; discriminate.
  - destruct (M_shape ll gd lookups [] s) as [[s' k']| | |] eqn:E.
    + assert (k' = []) by (eapply apply_lookups_stack; exact E). subst k'.
      destruct i as [|i]; cbn in H.
      * inversion H; subst. exists s. rewrite E. auto.
      * apply IH in H. destruct H as (s0 & H1 & H2). exists s0. auto.
    + destruct i as [|[|i]]; cbn in H; try discriminate. inversion H; subst. exists s. rewrite E. auto.
    + destruct i as [|[|i]]; cbn in H; try discriminate. inversion H; subst. exists s. rewrite E. auto.
    + destruct i as [|[|i]]; cbn in H; try discriminate. inversion H; subst. exists s. rewrite E. auto.
Qed.
