(* C07/Proofs.v — basic facts about M_shape: a subtable that reports "no
   match" leaves the state untouched; the stack changes only by pushing one
   frame or by a length-preserving map. *)
From Coq Require Import List NArith ZArith Bool Arith Lia.
From Common Require Import Outcome.
From Gen Require Import Consts C07.
From C07 Require Import Model Util.
Import ListNotations.

(* destruct the scrutinee of the outermost match / if / bind in hypothesis H *)
Ltac brk1 H :=
  match type of H with
  | obind ?e _ = _ => let E := fresh "E" in destruct e eqn:E; cbn [obind] in H; try discriminate H
  | match ?x with _ => _ end = _ => let E := fresh "E" in destruct x eqn:E; try discriminate H
  end.
Ltac brk H := repeat brk1 H.

Ltac fin H := first [ discriminate H | (unfold nomatch, push_frame in H; inversion H; subst; auto) ].

Lemma seq_rules_none test keep s k a b rules s' k' :
  seq_rules test keep s k a b rules = Ok (None, (s', k')) -> s' = s /\ k' = k.
Proof.
  induction rules as [|[input acts] rest IH]; cbn [seq_rules]; intros H.
  - fin H.
  - brk H; try (apply IH; exact H); fin H.
Qed.

Lemma chain_rules_none tb ti tl keep s k a b rules s' k' :
  chain_rules tb ti tl keep s k a b rules = Ok (None, (s', k')) -> s' = s /\ k' = k.
Proof.
  induction rules as [|[[[back input] look] acts] rest IH]; cbn [chain_rules]; intros H.
  - fin H.
  - brk H; try (apply IH; exact H); fin H.
Qed.

Lemma lig_loop_none keep s k a b g0 ligs s' k' :
  lig_loop keep s k a b g0 ligs = Ok (None, (s', k')) -> s' = s /\ k' = k.
Proof.
  induction ligs as [|[comps out] rest IH]; cbn [lig_loop]; intros H.
  - fin H.
  - brk H; try (apply IH; exact H); fin H.
Qed.

Lemma pair_apply_none pa s k a p s' k' :
  pair_apply pa s k a p = Ok (None, (s', k')) -> s' = s /\ k' = k.
Proof. unfold pair_apply. intros H. brk H; fin H. Qed.

Lemma mark_attach_none add mcov bcov marks bases s k a s' k' :
  mark_attach add mcov bcov marks bases s k a = Ok (None, (s', k')) -> s' = s /\ k' = k.
Proof. unfold mark_attach. intros H. brk H; fin H. Qed.

(* a subtable that does not match (-1) changes neither the sequence nor the stack *)
Lemma apply_sub_none keep sub s k a b s' k' :
  apply_sub keep sub s k a b = Ok (None, (s', k')) -> s' = s /\ k' = k.
Proof.
  unfold apply_sub. intros H.
  destruct (oget s a) as [g| | |] eqn:Eg; cbn [obind] in H; try discriminate H.
  destruct sub;
    brk H;
    try (eapply seq_rules_none; exact H);
    try (eapply chain_rules_none; exact H);
    try (eapply lig_loop_none; exact H);
    try (eapply pair_apply_none; exact H);
    try (eapply mark_attach_none; exact H);
    fin H.
Qed.
