(* C07/Shape.v — boolean descriptions of the tables the theorems range over.
   reader_shape : what gtab.Read can deliver (coverage indices inside the
                  tables they index - the readers prune the coverage table or
                  the array; format-3 contexts have at least one input
                  coverage table).  NOT in it (the reader does not check them,
                  the engine must): lookup indices, sequence indices, class
                  values, mark classes, mark filtering sets, empty
                  replacement / alternate lists, action counts.
   implemented  : no positioning data the library declares unimplemented
                  (vertical advance, device / variation offsets).
   simple       : no contextual subtable (stage 1 of apply_no_panic).
   Definitions only. *)
From Coq Require Import List NArith ZArith Bool Arith.
From C07 Require Import Model.
Import ListNotations.

Definition cov_ok (c : covtab) (n : nat) : bool := forallb (fun e => snd e <? n) c.

Definition nonempty {A} (l : list A) : bool := match l with [] => false | _ => true end.

Definition sub_shape (sub : subtable) : bool :=
  match sub with
  | Gsub1_2 cov subst => cov_ok cov (length subst)
  | Gsub2_1 cov repl => cov_ok cov (length repl)
  | Gsub3_1 cov alts => cov_ok cov (length alts)
  | Gsub4_1 cov ligs => cov_ok cov (length ligs)
  | Gsub8_1 input _ _ subst => cov_ok input (length subst)
  | SeqCtx1 cov rules => cov_ok cov (length rules)
  | SeqCtx3 input _ => nonempty input
  | Chain1 cov rules => cov_ok cov (length rules)
  | Chain3 _ input _ _ => nonempty input
  | Gpos1_2 cov adjs => cov_ok cov (length adjs)
  | Gpos3_1 cov recs => cov_ok cov (length recs)
  | Gpos4_1 mcov bcov marks bases => cov_ok mcov (length marks) && cov_ok bcov (length bases)
  | Gpos6_1 mcov bcov marks bases => cov_ok mcov (length marks) && cov_ok bcov (length bases)
  | _ => true
  end.

Definition vr_impl (v : option valrec) : bool :=
  match v with
  | None => true
  | Some r => Z.eqb (vr_yadv r) 0 && N.eqb (vr_d1 r) 0 && N.eqb (vr_d2 r) 0 && N.eqb (vr_d3 r) 0 && N.eqb (vr_d4 r) 0
  end.

Definition pa_impl (p : pairadj) : bool := vr_impl (fst p) && vr_impl (snd p).

Definition sub_impl (sub : subtable) : bool :=
  match sub with
  | Gpos1_1 _ adj => vr_impl adj
  | Gpos1_2 _ adjs => forallb vr_impl adjs
  | Gpos2_1 pairs => forallb (fun e => pa_impl (snd e)) pairs
  | Gpos2_2 _ _ _ adj => forallb (forallb pa_impl) adj
  | _ => true
  end.

Definition sub_simple (sub : subtable) : bool :=
  match sub with
  | SeqCtx1 _ _ | SeqCtx2 _ _ _ | SeqCtx3 _ _ | Chain1 _ _ | Chain2 _ _ _ _ _ | Chain3 _ _ _ _ => false
  | _ => true
  end.

Definition ll_all (f : subtable -> bool) (ll : list lookup) : bool :=
  forallb (fun lk => forallb f (lk_subs lk)) ll.

Definition reader_shape (ll : list lookup) : bool := ll_all sub_shape ll.
Definition implemented (ll : list lookup) : bool := ll_all sub_impl ll.
Definition simple (ll : list lookup) : bool := ll_all sub_simple ll.
