(* C07/Proofs_match.v — the scanning helpers never index outside the sequence
   when their limit is inside it, and the positions they collect are strictly
   increasing and below the limit. *)
From Coq Require Import List NArith ZArith Bool Arith Lia Permutation.
From Common Require Import Outcome.
From Gen Require Import Consts C07.
From C07 Require Import Model Util Proofs Proofs_text.
Import ListNotations.

(* strictly increasing, all elements >= lo *)
Fixpoint inc_from (lo : nat) (l : list nat) : Prop :=
  match l with
  | [] => True
  | x :: t => lo <= x /\ inc_from (S x) t
  end.

Lemma inc_from_weaken lo lo' l : lo' <= lo -> inc_from lo l -> inc_from lo' l.
Proof. destruct l; cbn; intuition lia. Qed.

Lemma inc_from_ge lo l : inc_from lo l -> Forall (fun x => lo <= x) l.
Proof.
  revert lo. induction l as [|x t IH]; intros lo H; constructor.
  - apply H.
  - destruct H as [H1 H2]. apply IH in H2. eapply Forall_impl; [|exact H2]. cbn. intros; lia.
Qed.

Lemma inc_from_snoc lo l x :
  inc_from lo l -> Forall (fun y => y < x) l -> lo <= x -> inc_from lo (l ++ [x]).
Proof.
  revert lo. induction l as [|y t IH]; intros lo H HF Hx; cbn [app inc_from].
  - auto.
  - destruct H as [H1 H2]. inversion HF; subst. split; [exact H1|]. apply IH; auto.
Qed.

Lemma oget_lt {A} (s : list A) i : i < length s -> exists x, oget s i = Ok x.
Proof.
  intros H. unfold oget. destruct (nth_error s i) eqn:E; eauto.
  apply nth_error_None in E. lia.
Qed.

Lemma oupd_lt {A} (s : list A) i x : i < length s -> exists s', oupd s i x = Ok s' /\ length s' = length s.
Proof.
  intros H. unfold oupd.
  assert (exists s', upd s i x = Some s') as [s' E].
  { revert i H. induction s as [|h t IH]; intros i H; [cbn in H; lia|].
    destruct i; cbn; eauto. destruct (IH i) as [t' E]; [cbn in H; lia|]. rewrite E. eauto. }
  rewrite E. eexists; split; eauto. eapply upd_length; eauto.
Qed.

Lemma skip_fwd_ok keep s : forall n p,
  (n = 0 \/ p + n <= length s) ->
  exists p2, skip_fwd keep s p n = Ok p2 /\ p <= p2 /\ p2 <= p + n.
Proof.
  induction n as [|n IH]; intros p H; cbn [skip_fwd].
  - exists p. repeat split; lia.
  - destruct H as [H|H]; [discriminate|].
    destruct (oget_lt s p) as [g Eg]; [lia|]. rewrite Eg. cbn [obind].
    destruct (keep (g_gid g)).
    + exists p. repeat split; lia.
    + destruct (IH (S p)) as (p2 & E & H1 & H2); [right; lia|].
      exists p2. repeat split; auto; lia.
Qed.

Lemma skip_fwd_collect_ok keep s : forall n p acc,
  (n = 0 \/ p + n <= length s) ->
  exists r, skip_fwd_collect keep s p n acc = Ok r.
Proof.
  induction n as [|n IH]; intros p acc H; cbn [skip_fwd_collect].
  - eauto.
  - destruct H as [H|H]; [discriminate|].
    destruct (oget_lt s p) as [g Eg]; [lia|]. rewrite Eg. cbn [obind].
    destruct (keep (g_gid g)); eauto. apply IH. right; lia.
Qed.

Lemma skip_bwd_ok keep s gn : forall q,
  q <= length s -> exists q2, skip_bwd keep s q gn = Ok q2 /\ q2 <= q.
Proof.
  induction q as [|q IH]; intros H; cbn [skip_bwd].
  - exists 0. auto.
  - destruct (q <? gn); [exists (S q); auto|].
    destruct (oget_lt s q) as [g Eg]; [lia|]. rewrite Eg. cbn [obind].
    destruct (keep (g_gid g)); [exists (S q); auto|].
    destruct IH as (q2 & E & Hq); [lia|]. exists q2. split; auto.
Qed.

Lemma match_bwd_ok {X} (test : N -> X -> bool) keep s : forall items q,
  q <= length s -> exists r, match_bwd test keep s q items = Ok r.
Proof.
  induction items as [|it rest IH]; intros q H; cbn [match_bwd]; [eauto|].
  destruct q as [|q1]; [eauto|].
  destruct (skip_bwd_ok keep s (length rest) q1) as (q2 & E & Hq); [lia|].
  rewrite E. cbn [obind]. destruct q2 as [|p]; [eauto|].
  destruct (p <? length rest); [eauto|].
  destruct (oget_lt s p) as [g Eg]; [lia|]. rewrite Eg. cbn [obind].
  destruct (test (g_gid g) it); [|eauto]. apply IH. lia.
Qed.

(* input / lookahead loop of the formats 1 and 2 *)
Lemma match_fwd_ok {X} (test : N -> X -> bool) keep s lim : lim <= length s ->
  forall items p acc,
  exists r, match_fwd test keep s lim p items acc = Ok r /\
    match r with
    | None => True
    | Some (p', acc') =>
      exists new, acc' = acc ++ new /\ inc_from (S p) new /\ Forall (fun x => x <= p') new /\
                  p <= p' /\ (p < lim -> p' < lim)
    end.
Proof.
  intros Hlim. induction items as [|it rest IH]; intros p acc; cbn [match_fwd].
  - eexists; split; [reflexivity|]. exists []. rewrite app_nil_r. cbn. splits; auto.
  - destruct (skip_fwd_ok keep s (lim - length rest - S p) (S p)) as (p2 & E & H1 & H2);
      [destruct (lim - length rest - S p) eqn:En; [auto|right; lia]|].
    rewrite E. cbn [obind].
    destruct (lim <=? p2 + length rest) eqn:El; [eexists; split; [reflexivity|exact I]|].
    apply Nat.leb_gt in El.
    destruct (oget_lt s p2) as [g Eg]; [lia|]. rewrite Eg. cbn [obind].
    destruct (test (g_gid g) it); [|eexists; split; [reflexivity|exact I]].
    destruct (IH p2 (acc ++ [p2])) as (r & Er & Hr). exists r. split; [exact Er|].
    destruct r as [[p' acc']|]; [|exact I].
    destruct Hr as (new & -> & Hinc & Hle & Hpp & Hlt).
    exists (p2 :: new). rewrite <- app_assoc. cbn [app].
    splits; [reflexivity | cbn; split; [lia|exact Hinc] | constructor; auto | lia | intros _; apply Hlt; lia].
Qed.

(* ligature matcher *)
Lemma lig_match_ok keep s b : b <= length s ->
  forall comps p mpos spos text, exists r, lig_match keep s b p comps mpos spos text = Ok r.
Proof.
  intros Hb. induction comps as [|c rest IH]; intros p mpos spos text; cbn [lig_match]; [eauto|].
  destruct (skip_fwd_collect_ok keep s (b - p) p spos) as ([p2 spos2] & E);
    [destruct (b - p) eqn:En; [auto|right; lia]|].
  rewrite E. cbn [obind].
  destruct (b <=? p2) eqn:El; [eauto|]. apply Nat.leb_gt in El.
  destruct (oget_lt s p2) as [g Eg]; [lia|]. rewrite Eg. cbn [obind].
  destruct (N.eqb (g_gid g) c); eauto.
Qed.

Lemma gather_ok {A} (s : list A) : forall idx,
  Forall (fun i => i < length s) idx -> exists r, gather s idx = Ok r.
Proof.
  induction idx as [|i t IH]; intros H; cbn [gather]; [eauto|].
  inversion H; subst. destruct (oget_lt s i) as [x Ex]; [auto|]. rewrite Ex. cbn [obind].
  destruct (IH H3) as [r Er]. rewrite Er. cbn [obind]. eauto.
Qed.
