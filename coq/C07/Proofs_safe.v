(* C07/Proofs_safe.v — apply_no_panic, stage 1: lookup lists without
   contextual subtables.  Every simple subtable of reader shape, without
   unimplemented positioning data, applied at a position inside the sequence
   with a limit inside the sequence, returns normally. *)
From Coq Require Import List NArith ZArith Bool Arith Lia Permutation.
From Common Require Import Outcome.
From Gen Require Import Consts C07.
From C07 Require Import Model Shape Util Proofs Proofs_text Proofs_term Proofs_len Proofs_match.
Import ListNotations.

Lemma cov_find_ok c n : cov_ok c n = true -> forall g i, cov_find c g = Some i -> i < n.
Proof.
  intros H. induction c as [|[k v] t IH]; intros g i Hf; cbn in *; [discriminate|].
  apply andb_prop in H. destruct H as [H1 H2].
  destruct (N.eqb k g).
  - inversion Hf; subst. apply Nat.ltb_lt. exact H1.
  - eapply IH; eauto.
Qed.

Lemma vr_apply_ok v g : vr_impl v = true -> exists g', vr_apply v g = Ok g'.
Proof.
  unfold vr_impl, vr_apply. destruct v as [r|]; [|eauto].
  intros H. repeat (apply andb_prop in H; destruct H as [H ?]).
  rewrite H, H0, H1, H2, H3. cbn. eauto.
Qed.

Lemma vr_apply_at_ok v s i : vr_impl v = true -> i < length s ->
  exists s', vr_apply_at v s i = Ok s' /\ length s' = length s.
Proof.
  intros Hv Hi. unfold vr_apply_at.
  destruct (oget_lt s i Hi) as [g Eg]. rewrite Eg. cbn [obind].
  destruct (vr_apply_ok v g Hv) as [g' Ev]. rewrite Ev. cbn [obind].
  apply oupd_lt. exact Hi.
Qed.

Lemma pair_apply_ok pa s k a p : pa_impl pa = true -> a < length s -> p < length s ->
  exists r, pair_apply pa s k a p = Ok r.
Proof.
  destruct pa as [v1 v2]. unfold pa_impl. cbn [fst snd]. intros H Ha Hp.
  apply andb_prop in H. destruct H as [H1 H2]. unfold pair_apply.
  destruct (vr_apply_at_ok v1 s a H1 Ha) as (s1 & E1 & L1). rewrite E1. cbn [obind].
  destruct v2 as [r2|]; [|eauto].
  destruct (vr_apply_at_ok (Some r2) s1 p H2) as (s2 & E2 & L2); [lia|]. rewrite E2. cbn [obind]. eauto.
Qed.

Lemma pair_find_impl pairs x y pa :
  forallb (fun e => pa_impl (snd e)) pairs = true -> pair_find pairs x y = Some pa -> pa_impl pa = true.
Proof.
  induction pairs as [|[[k1 k2] v] t IH]; cbn; intros H Hf; [discriminate|].
  apply andb_prop in H. destruct H as [H1 H2].
  destruct (N.eqb k1 x && N.eqb k2 y); [inversion Hf; subst; exact H1|eauto].
Qed.

Lemma forallb_nth {A} (f : A -> bool) l i x : forallb f l = true -> nth_error l i = Some x -> f x = true.
Proof.
  intros H Hn. rewrite forallb_forall in H. apply H. eapply nth_error_In; eauto.
Qed.

Lemma sub_advances_ok s : forall n p dx, p + n <= length s -> exists r, sub_advances s p n dx = Ok r.
Proof.
  induction n as [|n IH]; intros p dx H; cbn [sub_advances]; [eauto|].
  destruct (oget_lt s p) as [g Eg]; [lia|]. rewrite Eg. cbn [obind]. apply IH. lia.
Qed.

Lemma find_back_ok cov s : forall q, q <= length s ->
  exists r, find_back cov s q = Ok r /\
    match r with None => True | Some (p, i) => p < q /\ exists g, nth_error s p = Some g /\ cov_find cov (g_gid g) = Some i end.
Proof.
  induction q as [|q IH]; intros H; cbn [find_back]; [exists None; split; [reflexivity|exact I]|].
  destruct (oget_lt s q) as [g Eg]; [lia|]. rewrite Eg. cbn [obind].
  destruct (cov_find cov (g_gid g)) as [i|] eqn:Ec.
  - eexists; split; [reflexivity|]. split; [lia|]. exists g. apply oget_ok in Eg. auto.
  - destruct IH as (r & Er & Hr); [lia|]. exists r. split; [exact Er|].
    destruct r as [[p i]|]; [|exact I]. destruct Hr as [Hp Hg]. split; [lia|exact Hg].
Qed.

Lemma mark_attach_ok add mcov bcov marks bases s k a :
  cov_ok mcov (length marks) = true -> cov_ok bcov (length bases) = true -> a < length s ->
  exists r, mark_attach add mcov bcov marks bases s k a = Ok r.
Proof.
  intros Hm Hb Ha. unfold mark_attach, nomatch.
  destruct (oget_lt s a Ha) as [g Eg]. rewrite Eg. cbn [obind].
  destruct (cov_find mcov (g_gid g)) as [mi|] eqn:Em; [|eauto].
  destruct (oget_lt marks mi) as [[mcls [mx my]] Emr]; [eapply cov_find_ok; eauto|]. rewrite Emr. cbn [obind].
  destruct a as [|a1]; [eauto|].
  destruct (find_back_ok bcov s (S a1)) as (fb & Efb & Hfb); [lia|]. rewrite Efb. cbn [obind].
  destruct fb as [[p bi]|]; [|eauto]. destruct Hfb as (Hp & g2 & Hg2 & Hc).
  destruct (oget_lt bases bi) as [row Erow]; [eapply cov_find_ok; eauto|]. rewrite Erow. cbn [obind].
  destruct (nth_error row (N.to_nat mcls)) as [[bx by_]|]; [|eauto].
  destruct (Z.eqb bx 0 && Z.eqb by_ 0); [eauto|].
  destruct (sub_advances_ok s (S a1 - p) p (wrap_i16 (bx - mx))) as [dx Edx]; [lia|]. rewrite Edx. cbn [obind].
  match goal with |- context [oupd s (S a1) ?x] => destruct (oupd_lt s (S a1) x Ha) as (s' & Es & _) end.
  rewrite Es. cbn [obind]. eauto.
Qed.

Lemma gpos3_prev_ok cov recs s a g ey :
  cov_ok cov (length recs) = true -> a < length s -> exists g1, gpos3_prev cov recs s a g ey = Ok g1.
Proof.
  intros Hc Ha. unfold gpos3_prev. destruct a as [|a1]; [eauto|].
  destruct (oget_lt s a1) as [pg Epg]; [lia|]. rewrite Epg. cbn [obind].
  destruct (cov_find cov (g_gid pg)) as [pi|] eqn:Ec; [|eauto].
  destruct (oget_lt recs pi) as [[e1 [x1 y1]] Er]; [eapply cov_find_ok; eauto|]. rewrite Er. cbn [obind]. eauto.
Qed.

Lemma gpos3_next_ok cov recs s a b g xx :
  cov_ok cov (length recs) = true -> b <= length s -> exists g2, gpos3_next cov recs s a b g xx = Ok g2.
Proof.
  intros Hc Hb. unfold gpos3_next. destruct (S a <? b) eqn:El; [|eauto]. apply Nat.ltb_lt in El.
  destruct (oget_lt s (S a)) as [ng Eng]; [lia|]. rewrite Eng. cbn [obind].
  destruct (cov_find cov (g_gid ng)) as [ni|] eqn:Ec; [|eauto].
  destruct (oget_lt recs ni) as [[[ex1 ey1] x1] Er]; [eapply cov_find_ok; eauto|]. rewrite Er. cbn [obind]. eauto.
Qed.

Lemma lig_loop_ok keep s k a b g0 : a < length s -> b <= length s ->
  forall ligs, exists r, lig_loop keep s k a b g0 ligs = Ok r.
Proof.
  intros Ha Hb. induction ligs as [|[comps out] rest IH]; cbn [lig_loop]; [unfold nomatch; eauto|].
  destruct (lig_match_ok keep s b Hb comps (S a) [a] [] (g_text g0)) as [m Em]. rewrite Em. cbn [obind].
  destruct m as [[[[p mpos] spos] text]|]; [|exact IH].
  apply lig_match_spec in Em. destruct Em as (mn & sn & _ & Hs & _ & Hperm & Hle & _ & Hin).
  cbn in Hs. subst spos.
  assert (Hp : p <= length s) by (destruct (Nat.eq_dec p (S a)); [lia|apply Hin; lia]).
  destruct (gather_ok s sn) as [sk Esk].
  { apply Forall_forall. intros i Hi.
    assert (In i (seq (S a) (p - S a))) by (eapply Permutation_in; [exact Hperm|]; apply in_or_app; auto).
    apply in_seq in H. lia. }
  rewrite Esk. cbn [obind].
  destruct (length s <? p) eqn:El; [apply Nat.ltb_lt in El; lia|]. eauto.
Qed.

(* ------------------------------------------------------------------ *)

Lemma oget_lt' {A} (s : list A) i : i < length s -> oget s i <> Panic.
Proof. intros H. destruct (oget_lt s i H) as [x E]. rewrite E. discriminate. Qed.

(* a simple subtable returns normally *)
Lemma apply_sub_simple_ok keep sub s k a b :
  sub_simple sub = true -> sub_shape sub = true -> sub_impl sub = true ->
  a < length s -> b <= length s ->
  exists r, apply_sub keep sub s k a b = Ok r.
Proof.
  intros Hsimple Hshape Himpl Ha Hb. unfold apply_sub.
  destruct (oget_lt s a Ha) as [g Eg]. rewrite Eg. cbn [obind].
  destruct sub; cbn [sub_simple sub_shape sub_impl] in *; try discriminate; unfold nomatch.
  - (* Gsub1_1 *)
    destruct (set_mem cov (g_gid g)); [|eauto].
    match goal with |- context [oupd s a ?x] => destruct (oupd_lt s a x Ha) as (s' & Es & _) end.
    rewrite Es. cbn [obind]. eauto.
  - (* Gsub1_2 *)
    destruct (cov_find cov (g_gid g)) as [i|] eqn:Ec; [|eauto].
    destruct (oget_lt subst i) as [x Ex]; [eapply cov_find_ok; eauto|]. rewrite Ex. cbn [obind].
    match goal with |- context [oupd s a ?x] => destruct (oupd_lt s a x Ha) as (s' & Es & _) end.
    rewrite Es. cbn [obind]. eauto.
  - (* Gsub2_1 *)
    destruct (cov_find cov (g_gid g)) as [i|] eqn:Ec; [|eauto].
    destruct (oget_lt repl i) as [x Ex]; [eapply cov_find_ok; eauto|]. rewrite Ex. cbn [obind].
    destruct x; eauto.
  - (* Gsub3_1 *)
    destruct (cov_find cov (g_gid g)) as [i|] eqn:Ec; [|eauto].
    destruct (oget_lt alts i) as [x Ex]; [eapply cov_find_ok; eauto|]. rewrite Ex. cbn [obind].
    destruct x; [eauto|].
    match goal with |- context [oupd s a ?x] => destruct (oupd_lt s a x Ha) as (s' & Es & _) end.
    rewrite Es. cbn [obind]. eauto.
  - (* Gsub4_1 *)
    destruct (cov_find cov (g_gid g)) as [i|] eqn:Ec; [|eauto].
    destruct (oget_lt ligs i) as [x Ex]; [eapply cov_find_ok; eauto|]. rewrite Ex. cbn [obind].
    apply lig_loop_ok; auto.
  - (* Gsub8_1 *)
    destruct (cov_find input (g_gid g)) as [i|] eqn:Ec; [|eauto].
    match goal with |- context [match_bwd ?t keep s (S a) back] =>
      destruct (match_bwd_ok t keep s back (S a)) as [okb Eb]; [lia|]; rewrite Eb; cbn [obind] end.
    destruct okb; cbn [negb]; [|eauto].
    match goal with |- context [match_fwd ?t keep s (length s) a look []] =>
      destruct (match_fwd_ok t keep s (length s) (le_n _) look a []) as (ml & El & _); rewrite El; cbn [obind] end.
    destruct ml; [|eauto].
    destruct (oget_lt subst i) as [x Ex]; [eapply cov_find_ok; eauto|]. rewrite Ex. cbn [obind].
    match goal with |- context [oupd s a ?x] => destruct (oupd_lt s a x Ha) as (s' & Es & _) end.
    rewrite Es. cbn [obind]. eauto.
  - (* Gpos1_1 *)
    destruct (set_mem cov (g_gid g)); [|eauto].
    destruct (vr_apply_at_ok adj s a Himpl Ha) as (s' & Es & _). rewrite Es. cbn [obind]. eauto.
  - (* Gpos1_2 *)
    destruct (cov_find cov (g_gid g)) as [i|] eqn:Ec; [|eauto].
    destruct (oget_lt adjs i) as [v Ev]; [eapply cov_find_ok; eauto|]. rewrite Ev. cbn [obind].
    destruct (vr_apply_at_ok v s a) as (s' & Es & _); [|exact Ha|].
    { apply oget_ok in Ev. eapply forallb_nth; eauto. }
    rewrite Es. cbn [obind]. eauto.
  - (* Gpos2_1 *)
    destruct (skip_fwd_ok keep s (b - S a) (S a)) as (p & Ep & H1 & H2);
      [destruct (b - S a) eqn:En; [auto|right; lia]|].
    rewrite Ep. cbn [obind].
    destruct (b <=? p) eqn:El; [eauto|]. apply Nat.leb_gt in El.
    destruct (oget_lt s p) as [g2 Eg2]; [lia|]. rewrite Eg2. cbn [obind].
    destruct (pair_find pairs (g_gid g) (g_gid g2)) as [pa|] eqn:Ef; [|eauto].
    apply pair_apply_ok; [eapply pair_find_impl; eauto|lia|lia].
  - (* Gpos2_2 *)
    destruct (set_mem cov (g_gid g)); cbn [negb]; [|eauto].
    destruct (skip_fwd_ok keep s (b - S a) (S a)) as (p & Ep & H1 & H2);
      [destruct (b - S a) eqn:En; [auto|right; lia]|].
    rewrite Ep. cbn [obind].
    destruct (b <=? p) eqn:El; [eauto|]. apply Nat.leb_gt in El.
    destruct (oget_lt s p) as [g2 Eg2]; [lia|]. rewrite Eg2. cbn [obind].
    destruct (nth_error adj (N.to_nat (class_of c1 (g_gid g)))) as [row|] eqn:Er; [|eauto].
    destruct (nth_error row (N.to_nat (class_of c2 (g_gid g2)))) as [pa|] eqn:Ep2; [|eauto].
    apply pair_apply_ok; [|lia|lia].
    eapply forallb_nth; [|exact Ep2]. eapply forallb_nth; [exact Himpl|exact Er].
  - (* Gpos3_1 *)
    destruct (cov_find cov (g_gid g)) as [i|] eqn:Ec; [|eauto].
    destruct (oget_lt recs i) as [[[ex ey] [xx xy]] Er]; [eapply cov_find_ok; eauto|]. rewrite Er. cbn [obind].
    destruct (gpos3_prev_ok cov recs s a g ey Hshape Ha) as [g1 E1]. rewrite E1. cbn [obind].
    destruct (gpos3_next_ok cov recs s a b g1 xx Hshape Hb) as [g2 E2]. rewrite E2. cbn [obind].
    destruct (oupd_lt s a g2 Ha) as (s' & Es & _). rewrite Es. cbn [obind]. eauto.
  - (* Gpos4_1 *)
    apply andb_prop in Hshape. destruct Hshape. apply mark_attach_ok; auto.
  - (* Gpos5_1 *) eauto.
  - (* Gpos6_1 *)
    apply andb_prop in Hshape. destruct Hshape. apply mark_attach_ok; auto.
Qed.

(* ------------------------------------------------------------------ *)
(* without contextual subtables the stack stays empty                  *)

Lemma lig_loop_nil keep s a b g0 ligs r s' k' :
  lig_loop keep s [] a b g0 ligs = Ok (r, (s', k')) -> k' = [].
Proof.
  induction ligs as [|[comps out] rest IH]; cbn [lig_loop]; intros H.
  - inversion H; reflexivity.
  - brk H; try (apply IH; exact H). inversion H; reflexivity.
Qed.

Lemma apply_sub_simple_nil keep sub s a b r s' k' :
  sub_simple sub = true -> apply_sub keep sub s [] a b = Ok (r, (s', k')) -> k' = [].
Proof.
  intros Hs. unfold apply_sub. intros H.
  destruct (oget s a) as [g| | |] eqn:Eg; cbn [obind] in H; try discriminate H.
  destruct sub; cbn [sub_simple] in Hs; try discriminate Hs; brk H; unfold nomatch in *;
    try (apply lig_loop_nil in H; exact H);
    try (apply pair_apply_stack in H; exact H);
    try (apply mark_attach_stack in H; exact H);
    try (inversion H; subst; reflexivity).
  inversion H; subst. destruct l; reflexivity.
Qed.

Definition subs_ok (subs : list subtable) : Prop :=
  Forall (fun sub => sub_simple sub = true /\ sub_shape sub = true /\ sub_impl sub = true) subs.

Lemma apply_at_simple_ok keep : forall subs s a b,
  subs_ok subs -> a < length s -> b <= length s ->
  exists r s', apply_at keep subs s [] a b = Ok (r, (s', [])).
Proof.
  induction subs as [|sub rest IH]; intros s a b HF Ha Hb; cbn [apply_at].
  - unfold nomatch. eauto.
  - inversion HF as [|? ? (H1 & H2 & H3) HF']; subst.
    destruct (apply_sub_simple_ok keep sub s [] a b H1 H2 H3 Ha Hb) as [[r [s' k']] E].
    rewrite E. cbn [obind].
    pose proof (apply_sub_simple_nil _ _ _ _ _ _ _ _ H1 E). subst k'.
    destruct r as [next|]; [eauto|].
    apply apply_sub_none in E. destruct E as [-> _]. apply IH; auto.
Qed.

Lemma nested_loop_nil ll gd fuel num next s : nested_loop ll gd fuel num next s [] = Ok (next, s, []).
Proof. destruct fuel; reflexivity. Qed.

Lemma apply_rec_simple_ok ll gd lk s pos :
  subs_ok (lk_subs lk) -> pos < length s ->
  exists pos' s', apply_rec ll gd lk s [] pos = Ok (pos', s', []).
Proof.
  intros HF Hp. unfold apply_rec.
  destruct (oget_lt s pos Hp) as [g Eg]. rewrite Eg. cbn [obind].
  destruct (keepf gd lk (g_gid g)); cbn [negb]; [|eauto].
  destruct (apply_at_simple_ok (keepf gd lk) (lk_subs lk) s pos (length s) HF Hp (le_n _)) as (r & s' & E).
  rewrite E. cbn [obind]. destruct r as [next|]; [|eauto].
  rewrite nested_loop_nil. cbn [obind]. eauto.
Qed.

Lemma outer_loop_simple_np ll gd lk : subs_ok (lk_subs lk) ->
  forall fuel pos s, outer_loop ll gd lk fuel pos s [] <> Panic.
Proof.
  intros HF. induction fuel as [|fuel IH]; intros pos s; cbn [outer_loop].
  - destruct (length s <=? pos); discriminate.
  - destruct (length s <=? pos) eqn:El; [discriminate|]. apply Nat.leb_gt in El.
    destruct (apply_rec_simple_ok ll gd lk s pos HF El) as (pos' & s' & E). rewrite E. cbn [obind].
    apply IH.
Qed.

Lemma ll_all_nth f ll i lk : ll_all f ll = true -> nth_error ll i = Some lk -> Forall (fun sub => f sub = true) (lk_subs lk).
Proof.
  intros H Hn. unfold ll_all in H. eapply forallb_nth in H; [|exact Hn].
  apply Forall_forall. rewrite forallb_forall in H. exact H.
Qed.

Lemma subs_ok_nth ll i lk :
  simple ll = true -> reader_shape ll = true -> implemented ll = true ->
  nth_error ll i = Some lk -> subs_ok (lk_subs lk).
Proof.
  intros H1 H2 H3 Hn. unfold subs_ok.
  pose proof (ll_all_nth _ _ _ _ H1 Hn) as F1. pose proof (ll_all_nth _ _ _ _ H2 Hn) as F2.
  pose proof (ll_all_nth _ _ _ _ H3 Hn) as F3.
  rewrite Forall_forall in *. intros sub Hin. auto.
Qed.

(* apply_no_panic, stage 1 *)
Lemma apply_no_panic_simple ll gd :
  simple ll = true -> reader_shape ll = true -> implemented ll = true ->
  forall lookups s, M_shape ll gd lookups [] s <> Panic.
Proof.
  intros H1 H2 H3. unfold M_shape.
  induction lookups as [|l rest IH]; intros s; cbn [apply_lookups]; [discriminate|].
  unfold apply_lookup. destruct (nth_error ll l) as [lk|] eqn:En; cbn [obind]; [|apply IH].
  pose proof (subs_ok_nth ll l lk H1 H2 H3 En) as HF.
  destruct (outer_loop ll gd lk (length s) 0 s []) as [[s' k']| | |] eqn:E; cbn [obind]; try discriminate.
  - apply outer_loop_stack in E. subst k'. apply IH.
  - exfalso. eapply outer_loop_simple_np; eauto.
Qed.
