(* C07/Proofs_len.v — length bound: one lookup pass turns n glyphs into at
   most n * (1 + budget * (K - 1)) glyphs, K the longest Gsub2_1 replacement. *)
From Coq Require Import List NArith ZArith Bool Arith Lia Permutation.
From Common Require Import Outcome.
From Gen Require Import Consts C07.
From C07 Require Import Model Util Proofs Proofs_text Proofs_term.
Import ListNotations.

Definition sub_K (sub : subtable) : nat :=
  match sub with
  | Gsub2_1 _ repl => list_max (map (@length N) repl)
  | _ => 0
  end.
Definition lk_K (lk : lookup) : nat := list_max (map sub_K (lk_subs lk)).
(* K: the longest replacement sequence of any multiple substitution, at least 1 *)
Definition ll_K (ll : list lookup) : nat := Nat.max 1 (list_max (map lk_K ll)).

Lemma list_max_nth l : forall i x, nth_error l i = Some x -> x <= list_max l.
Proof.
  induction l as [|h t IH]; intros i x H; [destruct i; discriminate|].
  change (list_max (h :: t)) with (Nat.max h (list_max t)).
  destruct i; cbn [nth_error] in H.
  - inversion H; subst. lia.
  - apply IH in H. lia.
Qed.

Lemma list_max_in l x : In x l -> x <= list_max l.
Proof.
  intros H. apply In_nth_error in H. destruct H as [i H]. eapply list_max_nth; eauto.
Qed.

Lemma lk_K_le ll i lk : nth_error ll i = Some lk -> lk_K lk <= ll_K ll.
Proof.
  intros H. unfold ll_K.
  assert (lk_K lk <= list_max (map lk_K ll)).
  { eapply list_max_nth. rewrite nth_error_map, H. reflexivity. }
  lia.
Qed.

Lemma sub_K_le lk sub : In sub (lk_subs lk) -> sub_K sub <= lk_K lk.
Proof. intros H. unfold lk_K. apply list_max_in. apply in_map. exact H. Qed.

Lemma oupd_length {A} (s : list A) i x s' : oupd s i x = Ok s' -> length s' = length s.
Proof.
  unfold oupd. destruct (upd s i x) eqn:E; intros H; inversion H; subst.
  eapply upd_length; eauto.
Qed.

Lemma vr_apply_at_length v s i s' : vr_apply_at v s i = Ok s' -> length s' = length s.
Proof. unfold vr_apply_at. intros H. brk H. eapply oupd_length; eauto. Qed.

Lemma pair_apply_length pa s k a p r s' k' :
  pair_apply pa s k a p = Ok (r, (s', k')) -> length s' = length s.
Proof.
  unfold pair_apply. intros H. brk H; inversion H; subst;
    repeat match goal with Hv : vr_apply_at _ _ _ = Ok _ |- _ => apply vr_apply_at_length in Hv end; lia.
Qed.

Lemma mark_attach_length add mcov bcov marks bases s k a r s' k' :
  mark_attach add mcov bcov marks bases s k a = Ok (r, (s', k')) -> length s' = length s.
Proof.
  unfold mark_attach, nomatch. intros H. brk H; inversion H; subst; auto.
  all: eapply oupd_length; eauto.
Qed.

Lemma multi_subst_length s a g x rest :
  a < length s -> length (multi_subst s a g x rest) = length s + length rest.
Proof.
  intros Ha. unfold multi_subst.
  rewrite app_length, firstn_length_le by lia. cbn [length].
  rewrite app_length, map_length, skipn_length. lia.
Qed.

Lemma lig_loop_length keep s k a b g0 ligs r s' k' :
  a < length s ->
  lig_loop keep s k a b g0 ligs = Ok (r, (s', k')) -> length s' <= length s.
Proof.
  intros Ha. induction ligs as [|[comps out] rest IH]; cbn [lig_loop]; intros H.
  - inversion H; subst. lia.
  - brk H; try (apply IH; exact H).
    inversion H; subst. clear H IH.
    lazymatch goal with
    | E : lig_match _ _ _ _ _ _ _ _ = Ok (Some (?n, _, ?sp, _)),
      Eg : gather s ?sp = Ok ?sk, El : (length s <? ?n) = false |- _ =>
      rename E into EE; rename Eg into EG; rename El into EL; rename n into nn; rename sk into skipped; rename sp into spos
    end.
    apply lig_match_spec in EE. destruct EE as (mn & sn & _ & Hs & _ & Hperm & Hle & _ & Hin).
    cbn in Hs. subst spos. apply gather_length in EG. apply Nat.ltb_ge in EL.
    apply Permutation_length in Hperm. rewrite app_length, seq_length in Hperm.
    rewrite app_length, firstn_length_le by lia. cbn [length].
    rewrite app_length, skipn_length. lia.
Qed.

(* one subtable adds at most K-1 glyphs *)
Lemma apply_sub_length keep sub s k a b r s' k' :
  apply_sub keep sub s k a b = Ok (r, (s', k')) -> length s' + 1 <= length s + Nat.max 1 (sub_K sub).
Proof.
  unfold apply_sub. intros H.
  destruct (oget s a) as [g| | |] eqn:Eg; cbn [obind] in H; try discriminate H.
  assert (Ha : a < length s) by (apply oget_ok in Eg; apply nth_error_Some; congruence).
  destruct sub; brk H; unfold nomatch, push_frame in *;
    try (apply seq_rules_seq in H; subst; lia);
    try (apply chain_rules_seq in H; subst; lia);
    try (eapply lig_loop_length in H; [lia|lia]);
    try (apply pair_apply_length in H; lia);
    try (apply mark_attach_length in H; lia);
    try (inversion H; subst; lia);
    try (inversion H; subst;
         repeat match goal with
         | Hv : vr_apply_at _ _ _ = Ok _ |- _ => apply vr_apply_at_length in Hv
         | Hv : oupd _ _ _ = Ok _ |- _ => apply oupd_length in Hv
         end; lia).
  (* Gsub2_1 *)
  inversion H; subst. rewrite multi_subst_length by lia.
  match goal with Hr : oget repl _ = Ok (?x :: ?l) |- _ =>
    apply oget_ok in Hr; assert (length (x :: l) <= list_max (map (@length N) repl))
      by (eapply list_max_nth; rewrite nth_error_map, Hr; reflexivity) end.
  cbn [sub_K length] in *. lia.
Qed.

Lemma apply_at_length keep K : forall subs s k a b r s' k',
  Forall (fun sub => sub_K sub <= K) subs -> 1 <= K ->
  apply_at keep subs s k a b = Ok (r, (s', k')) -> length s' + 1 <= length s + K.
Proof.
  induction subs as [|sub rest IH]; cbn [apply_at]; intros s k a b r s' k' HF HK H.
  - inversion H; subst. lia.
  - inversion HF; subst. brk H.
    + inversion H; subst.
      match goal with Ha : apply_sub _ _ _ _ _ _ = Ok _ |- _ => apply apply_sub_length in Ha end. lia.
    + match goal with Hn : apply_sub _ _ _ _ _ _ = Ok (None, _) |- _ =>
        apply apply_sub_none in Hn; destruct Hn as [-> ->] end.
      eapply IH; eauto.
Qed.

Lemma lookup_subs_K ll i lk :
  nth_error ll i = Some lk -> Forall (fun sub => sub_K sub <= ll_K ll) (lk_subs lk).
Proof.
  intros H. apply Forall_forall. intros sub Hin.
  apply sub_K_le in Hin. apply lk_K_le in H. lia.
Qed.

Lemma ll_K_pos ll : 1 <= ll_K ll.
Proof. unfold ll_K. lia. Qed.

(* the inner loop runs at most budget - numActions further actions *)
Lemma nested_loop_length ll gd : forall fuel num next s k next' s' k',
  nested_loop ll gd fuel num next s k = Ok (next', s', k') ->
  length s' <= length s + (budget - num) * (ll_K ll - 1).
Proof.
  induction fuel as [|fuel IH]; intros num next s k next' s' k' H.
  - destruct k as [|fr rest]; cbn [nested_loop] in H; [inversion H; subst; apply Nat.le_add_r|].
    destruct (budget <=? num); [inversion H; subst; apply Nat.le_add_r | discriminate].
  - destruct k as [|fr rest]; cbn [nested_loop] in H; [inversion H; subst; apply Nat.le_add_r|].
    destruct (budget <=? num) eqn:Eb; [inversion H; subst; apply Nat.le_add_r|].
    apply Nat.leb_gt in Eb.
    assert (Hstep : (budget - S num) * (ll_K ll - 1) + (ll_K ll - 1) = (budget - num) * (ll_K ll - 1)).
    { replace (budget - num) with (S (budget - S num)) by lia. cbn. lia. }
    brk H; try (apply IH in H; lia).
    apply IH in H.
    match goal with Ha : apply_at _ _ _ _ _ _ = Ok _, Hl : nth_error ll _ = Some _ |- _ =>
      eapply apply_at_length in Ha; [|eapply lookup_subs_K; exact Hl|apply ll_K_pos] end.
    lia.
Qed.

Lemma budget_pos : 1 <= budget.
Proof. apply Nat.leb_le. vm_compute. reflexivity. Qed.

Lemma apply_rec_length ll gd lk s k pos pos' s' k' :
  Forall (fun sub => sub_K sub <= ll_K ll) (lk_subs lk) ->
  apply_rec ll gd lk s k pos = Ok (pos', s', k') ->
  length s' <= length s + budget * (ll_K ll - 1).
Proof.
  intros HF. unfold apply_rec. intros H. pose proof budget_pos as Hb.
  assert (Hstep : (budget - 1) * (ll_K ll - 1) + (ll_K ll - 1) = budget * (ll_K ll - 1)).
  { replace budget with (S (budget - 1)) at 2 by lia. cbn. lia. }
  brk H; inversion H; subst; try apply Nat.le_add_r;
    repeat match goal with
    | Ha : apply_at _ _ _ _ _ _ = Ok _ |- _ => eapply apply_at_length in Ha; [|exact HF|apply ll_K_pos]
    | Ha : nested_loop _ _ _ _ _ _ _ = Ok _ |- _ => apply nested_loop_length in Ha
    end;
    set (P1 := (budget - 1) * (ll_K ll - 1)) in *; set (P2 := budget * (ll_K ll - 1)) in *; lia.
Qed.

(* how far the outer loop can be from the end after one step *)
Lemma outer_loop_length ll gd lk :
  Forall (fun sub => sub_K sub <= ll_K ll) (lk_subs lk) ->
  forall fuel pos s k s' k',
  outer_loop ll gd lk fuel pos s k = Ok (s', k') ->
  length s' <= length s + (length s - pos) * (budget * (ll_K ll - 1)).
Proof.
  intros HF. set (B := budget * (ll_K ll - 1)).
  induction fuel as [|fuel IH]; intros pos s k s' k' H; cbn [outer_loop] in H.
  - destruct (length s <=? pos); [inversion H; subst; apply Nat.le_add_r | discriminate].
  - destruct (length s <=? pos) eqn:El; [inversion H; subst; apply Nat.le_add_r|].
    apply Nat.leb_gt in El. brk H. apply IH in H.
    match goal with Ha : apply_rec _ _ _ _ _ _ = Ok (?p1, ?s1, _) |- _ =>
      apply apply_rec_length in Ha; [|exact HF]; fold B in Ha;
      assert (Htodo : length s1 - (if length s - pos + p1 <=? length s1 then length s1 - (length s - pos) + 1 else p1)
                      <= length s - pos - 1)
        by (destruct (length s - pos + p1 <=? length s1) eqn:Ec;
            [apply Nat.leb_le in Ec | apply Nat.leb_gt in Ec]; lia)
    end.
    assert (Hmul : forall t t', t' <= t - 1 -> 1 <= t -> t' * B + B <= t * B).
    { intros t t' H1 H2. rewrite Nat.add_comm. change (B + t' * B) with (S t' * B).
      apply Nat.mul_le_mono_r. lia. }
    specialize (Hmul (length s - pos) _ Htodo ltac:(lia)).
    match type of Hmul with ?x * B + B <= ?y * B => set (P1 := x * B) in *; set (P2 := y * B) in * end.
    lia.
Qed.

(* length_bound, general form *)
Lemma length_bound_gen ll gd s k l s' k' :
  apply_lookup ll gd s k l = Ok (s', k') ->
  length s' <= length s * (1 + budget * (ll_K ll - 1)).
Proof.
  unfold apply_lookup. destruct (nth_error ll l) as [lk|] eqn:E; intros H.
  - apply outer_loop_length in H; [|eapply lookup_subs_K; eauto].
    rewrite Nat.sub_0_r in H. rewrite Nat.mul_add_distr_l, Nat.mul_1_r. exact H.
  - inversion H; subst. rewrite Nat.mul_add_distr_l, Nat.mul_1_r. apply Nat.le_add_r.
Qed.
