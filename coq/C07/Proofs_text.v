(* C07/Proofs_text.v — text conservation: every step of M_shape keeps the
   multiset of runes attached to the glyphs (for ANY tables, GDEF, stack). *)
From Coq Require Import List NArith ZArith Bool Arith Lia Permutation.
From Common Require Import Outcome.
From Gen Require Import Consts C07.
From C07 Require Import Model Util Proofs.
Import ListNotations.

Definition runes (s : list glyph) : list N := flat_map g_text s.

(* text of the glyph at index i (empty beyond the end) *)
Definition txt (s : list glyph) (i : nat) : list N :=
  match nth_error s i with Some g => g_text g | None => [] end.

Lemma runes_app s1 s2 : runes (s1 ++ s2) = runes s1 ++ runes s2.
Proof. apply flat_map_app. Qed.

Lemma oget_ok {A} (s : list A) i x : oget s i = Ok x <-> nth_error s i = Some x.
Proof. unfold oget. destruct (nth_error s i); split; intros H; inversion H; reflexivity. Qed.

Lemma upd_split {A} (s : list A) a x s' :
  upd s a x = Some s' ->
  exists l g r, s = l ++ g :: r /\ length l = a /\ s' = l ++ x :: r.
Proof.
  revert a s'. induction s as [|h t IH]; intros a s' H; [destruct a; discriminate|].
  destruct a as [|a]; cbn in H.
  - inversion H; subst. exists [], h, t. auto.
  - destruct (upd t a x) as [t'|] eqn:E; [|discriminate]. inversion H; subst.
    destruct (IH _ _ E) as (l & g & r & -> & Hl & ->).
    exists (h :: l), g, r. cbn. auto.
Qed.

Lemma upd_length {A} (s : list A) a x s' : upd s a x = Some s' -> length s' = length s.
Proof.
  intros H. destruct (upd_split _ _ _ _ H) as (l & g & r & -> & _ & ->).
  rewrite !app_length. reflexivity.
Qed.

Lemma oupd_runes s a g g' s' :
  oget s a = Ok g -> oupd s a g' = Ok s' -> g_text g' = g_text g -> runes s' = runes s.
Proof.
  intros Hg Hu Ht. apply oget_ok in Hg. unfold oupd in Hu.
  destruct (upd s a g') as [s2|] eqn:E; [|discriminate]. inversion Hu; subst s2.
  destruct (upd_split _ _ _ _ E) as (l & g0 & r & -> & Hl & ->).
  rewrite nth_error_app2 in Hg by lia. replace (a - length l) with 0 in Hg by lia.
  cbn in Hg. inversion Hg; subst g0.
  rewrite !runes_app. cbn. unfold runes. cbn. rewrite Ht. reflexivity.
Qed.

Lemma vr_apply_text v g g' : vr_apply v g = Ok g' -> g_text g' = g_text g.
Proof.
  unfold vr_apply. destruct v as [r|]; [|intros H; inversion H; reflexivity].
  destruct (_ || _); intros H; inversion H. reflexivity.
Qed.

Lemma vr_apply_at_runes v s i s' : vr_apply_at v s i = Ok s' -> runes s' = runes s.
Proof.
  unfold vr_apply_at. intros H. brk H.
  eapply oupd_runes; eauto using vr_apply_text.
Qed.

Lemma pair_apply_runes pa s k a p r s' k' :
  pair_apply pa s k a p = Ok (r, (s', k')) -> runes s' = runes s.
Proof.
  unfold pair_apply. intros H. brk H; inversion H; subst;
    repeat match goal with Hv : vr_apply_at _ _ _ = Ok _ |- _ => apply vr_apply_at_runes in Hv end;
    congruence.
Qed.

Lemma mark_attach_runes add mcov bcov marks bases s k a r s' k' :
  mark_attach add mcov bcov marks bases s k a = Ok (r, (s', k')) -> runes s' = runes s.
Proof.
  unfold mark_attach, nomatch. intros H. brk H; inversion H; subst; auto.
  all: eapply oupd_runes; eauto; destruct add; reflexivity.
Qed.

Lemma seq_rules_seq test keep s k a b rules r s' k' :
  seq_rules test keep s k a b rules = Ok (r, (s', k')) -> s' = s.
Proof.
  induction rules as [|[input acts] rest IH]; cbn [seq_rules]; intros H.
  - inversion H; auto.
  - brk H; try (apply IH; exact H). unfold push_frame in H. inversion H; auto.
Qed.

Lemma chain_rules_seq tb ti tl keep s k a b rules r s' k' :
  chain_rules tb ti tl keep s k a b rules = Ok (r, (s', k')) -> s' = s.
Proof.
  induction rules as [|[[[back input] look] acts] rest IH]; cbn [chain_rules]; intros H.
  - inversion H; auto.
  - brk H; try (apply IH; exact H). unfold push_frame in H. inversion H; auto.
Qed.

(* ---- index view of the rune list ---- *)

Lemma runes_idx_gen l1 l2 :
  runes l2 = flat_map (txt (l1 ++ l2)) (seq (length l1) (length l2)).
Proof.
  revert l1. induction l2 as [|g t IH]; intros l1; [reflexivity|].
  cbn [length seq flat_map]. unfold runes at 1. cbn [flat_map]. f_equal.
  - unfold txt. rewrite nth_error_app2 by lia. rewrite Nat.sub_diag. reflexivity.
  - specialize (IH (l1 ++ [g])). rewrite <- app_assoc in IH. cbn in IH.
    rewrite app_length in IH. cbn in IH. rewrite Nat.add_1_r in IH. exact IH.
Qed.

Lemma runes_skipn_idx s p :
  p <= length s -> runes (skipn p s) = flat_map (txt s) (seq p (length s - p)).
Proof.
  intros Hp. pose proof (runes_idx_gen (firstn p s) (skipn p s)) as H.
  rewrite firstn_skipn in H. rewrite firstn_length_le in H by exact Hp.
  rewrite skipn_length in H. exact H.
Qed.

Lemma gather_runes s idx r : gather s idx = Ok r -> runes r = flat_map (txt s) idx.
Proof.
  revert r. induction idx as [|i t IH]; cbn [gather]; intros r H.
  - inversion H. reflexivity.
  - brk H. inversion H; subst. unfold runes. cbn [flat_map]. f_equal.
    + unfold txt. apply oget_ok in E. rewrite E. reflexivity.
    + apply IH. reflexivity.
Qed.

Lemma gather_length {A} (s : list A) idx r : gather s idx = Ok r -> length r = length idx.
Proof.
  revert r. induction idx as [|i t IH]; cbn [gather]; intros r H.
  - inversion H. reflexivity.
  - brk H. inversion H; subst. cbn. f_equal. apply IH. reflexivity.
Qed.

Lemma skip_fwd_collect_spec keep s p n acc p2 acc2 :
  skip_fwd_collect keep s p n acc = Ok (p2, acc2) ->
  p <= p2 /\ p2 <= p + n /\ acc2 = acc ++ seq p (p2 - p) /\ (p < p2 -> p2 <= length s).
Proof.
  revert p acc. induction n as [|n IH]; intros p acc H; cbn [skip_fwd_collect] in H.
  - inversion H; subst. rewrite Nat.sub_diag. cbn. rewrite app_nil_r. repeat split; lia.
  - brk H.
    + inversion H; subst. rewrite Nat.sub_diag. cbn. rewrite app_nil_r. repeat split; lia.
    + apply IH in H. destruct H as (H1 & H2 & H3 & H4).
      apply oget_ok in E. assert (p < length s) by (apply nth_error_Some; congruence).
      repeat split; try lia.
      rewrite H3. rewrite <- app_assoc. f_equal.
      replace (p2 - p) with (S (p2 - S p)) by lia. reflexivity.
Qed.

(* the ligature matcher: what it adds to the matched / skipped position lists
   is a permutation of the index range it walked over *)
Lemma lig_match_spec keep s b : forall comps p mpos spos text p' mpos' spos' text',
  lig_match keep s b p comps mpos spos text = Ok (Some (p', mpos', spos', text')) ->
  exists mnew snew,
    mpos' = mpos ++ mnew /\ spos' = spos ++ snew /\
    text' = text ++ flat_map (txt s) mnew /\
    Permutation (mnew ++ snew) (seq p (p' - p)) /\ p <= p' /\
    length mnew = length comps /\ (p < p' -> p' <= length s).
Proof.
  induction comps as [|c rest IH]; intros p mpos spos text p' mpos' spos' text' H; cbn [lig_match] in H.
  - inversion H; subst. exists [], []. rewrite !app_nil_r, Nat.sub_diag. cbn.
    repeat split; auto; lia.
  - brk H. destruct a as [p2 spos2]. brk H.
    match goal with Hq : (_, _) = (_, _) |- _ => inversion Hq; subst; clear Hq end.
    match goal with Hs : skip_fwd_collect _ _ _ _ _ = Ok _ |- _ =>
      apply skip_fwd_collect_spec in Hs; destruct Hs as (Hp1 & Hp2 & Hp3 & Hp4) end.
    apply IH in H. destruct H as (mn & sn & -> & -> & -> & Hperm & Hle & Hlen & Hin).
    lazymatch goal with Hg : oget s ?q = Ok ?g |- _ =>
      apply oget_ok in Hg;
      assert (Hq : q < length s) by (apply nth_error_Some; congruence);
      exists (q :: mn), (seq p (q - p) ++ sn); subst;
      repeat split;
      [ rewrite <- app_assoc; reflexivity
      | rewrite <- app_assoc; reflexivity
      | rewrite <- app_assoc; cbn [flat_map]; f_equal; f_equal; unfold txt; rewrite Hg; reflexivity
      | replace (p' - p) with ((q - p) + S (p' - S q)) by lia;
        rewrite seq_app; replace (p + (q - p)) with q by lia; cbn [seq];
        apply Permutation_trans with (seq p (q - p) ++ (q :: mn) ++ sn);
        [ apply Permutation_app_swap_app
        | apply Permutation_app_head; cbn [app]; constructor; exact Hperm ]
      | lia
      | cbn; lia
      | intros _; destruct (Nat.eq_dec p' (S q)); [lia|]; apply Hin; lia ]
    end.
Qed.

Lemma lig_loop_runes keep s k a b g0 ligs r s' k' :
  oget s a = Ok g0 ->
  lig_loop keep s k a b g0 ligs = Ok (r, (s', k')) -> Permutation (runes s') (runes s).
Proof.
  intros Hg. induction ligs as [|[comps out] rest IH]; cbn [lig_loop]; intros H.
  - inversion H; subst. reflexivity.
  - brk H; try (apply IH; exact H).
    inversion H; subst. clear H IH.
    lazymatch goal with
    | E : lig_match _ _ _ _ _ _ _ _ = Ok (Some (?n, _, ?sp, _)),
      Eg : gather s ?sp = Ok ?sk, El : (length s <? ?n) = false |- _ =>
      rename E into EE; rename Eg into EG; rename El into EL; rename n into nn; rename sk into skipped; rename sp into spos
    end.
    apply lig_match_spec in EE. destruct EE as (mn & sn & _ & Hs & -> & Hperm & Hle & _ & Hin).
    cbn in Hs. subst spos.
    apply gather_runes in EG. apply Nat.ltb_ge in EL.
    apply oget_ok in Hg. assert (Ha : a < length s) by (apply nth_error_Some; congruence).
    rewrite !runes_app. unfold runes at 2. cbn [flat_map g_text]. fold (runes (skipped ++ skipn nn s)).
    rewrite runes_app, EG.
    rewrite <- (firstn_skipn a s) at 5. rewrite runes_app.
    apply Permutation_app_head.
    rewrite (runes_skipn_idx s a) by lia.
    replace (length s - a) with (1 + ((nn - S a) + (length s - nn))) by lia.
    rewrite seq_app. cbn [seq flat_map]. rewrite flat_map_app.
    cbn [flat_map]. rewrite app_nil_r. unfold txt at 3. rewrite Hg. rewrite <- app_assoc. apply Permutation_app_head.
    rewrite seq_app. replace (a + 1) with (S a) by lia.
    rewrite flat_map_app. replace (S a + (nn - S a)) with nn by lia.
    rewrite (runes_skipn_idx s nn) by lia.
    rewrite app_assoc. apply Permutation_app_tail.
    rewrite <- flat_map_app. apply Permutation_flat_map. exact Hperm.
Qed.

Lemma gpos3_prev_text cov recs s a g ey g1 : gpos3_prev cov recs s a g ey = Ok g1 -> g_text g1 = g_text g.
Proof. unfold gpos3_prev. intros H. brk H; inversion H; reflexivity. Qed.

Lemma gpos3_next_text cov recs s a b g1 xx g2 : gpos3_next cov recs s a b g1 xx = Ok g2 -> g_text g2 = g_text g1.
Proof. unfold gpos3_next. intros H. brk H; inversion H; reflexivity. Qed.

Lemma multi_subst_runes s a g x rest :
  oget s a = Ok g -> runes (multi_subst s a g x rest) = runes s.
Proof.
  intros Hg. apply oget_ok in Hg.
  destruct (nth_error_split _ _ Hg) as (l1 & l2 & -> & Hl).
  unfold multi_subst. subst a.
  rewrite firstn_app, firstn_all, Nat.sub_diag. cbn [firstn]. rewrite app_nil_r.
  replace (S (length l1)) with (length (l1 ++ [g])) by (rewrite app_length; cbn; lia).
  replace (l1 ++ g :: l2) with ((l1 ++ [g]) ++ l2) at 1 by (rewrite <- app_assoc; reflexivity).
  rewrite skipn_app, skipn_all, Nat.sub_diag. cbn [skipn app].
  rewrite !runes_app. f_equal. unfold runes. cbn [flat_map]. f_equal.
  rewrite flat_map_app. replace (flat_map g_text (map (fun y => mkG y [] 0 0 0) rest)) with (@nil N).
  - reflexivity.
  - induction rest; cbn; auto.
Qed.

Ltac runes_tac :=
  repeat match goal with
  | Hv : vr_apply_at _ _ _ = Ok _ |- _ => apply vr_apply_at_runes in Hv
  | Hv : gpos3_prev _ _ _ _ _ _ = Ok _ |- _ => apply gpos3_prev_text in Hv
  | Hv : gpos3_next _ _ _ _ _ _ _ = Ok _ |- _ => apply gpos3_next_text in Hv
  end.

(* one subtable keeps the multiset of runes *)
Lemma apply_sub_runes keep sub s k a b r s' k' :
  apply_sub keep sub s k a b = Ok (r, (s', k')) -> Permutation (runes s') (runes s).
Proof.
  unfold apply_sub. intros H.
  destruct (oget s a) as [g| | |] eqn:Eg; cbn [obind] in H; try discriminate H.
  destruct sub; brk H; unfold nomatch, push_frame in *;
    try (apply seq_rules_seq in H; subst; reflexivity);
    try (apply chain_rules_seq in H; subst; reflexivity);
    try (eapply lig_loop_runes; eassumption);
    try (apply pair_apply_runes in H; rewrite H; reflexivity);
    try (apply mark_attach_runes in H; rewrite H; reflexivity);
    try (inversion H; subst; reflexivity);
    try (inversion H; subst; erewrite oupd_runes by (try eassumption; reflexivity); reflexivity);
    try (inversion H; subst; rewrite multi_subst_runes by assumption; reflexivity);
    runes_tac.
  all: try (inversion H; subst; match goal with Hv : runes _ = runes _ |- _ => rewrite Hv end; reflexivity).
  all: try (inversion H; subst; erewrite oupd_runes by (try eassumption; congruence); reflexivity).
Qed.

(* applyAt *)
Lemma apply_at_runes keep subs : forall s k a b r s' k',
  apply_at keep subs s k a b = Ok (r, (s', k')) -> Permutation (runes s') (runes s).
Proof.
  induction subs as [|sub rest IH]; cbn [apply_at]; intros s k a b r s' k' H.
  - inversion H; subst. reflexivity.
  - brk H.
    + inversion H; subst. eapply apply_sub_runes; eauto.
    + apply apply_sub_none in E. destruct E as [-> ->]. eapply IH; eauto.
Qed.

Ltac perm_chain :=
  solve [ reflexivity | eassumption
        | eapply Permutation_trans; [eassumption|]; perm_chain ].

Lemma nested_loop_runes ll gd : forall fuel num next s k next' s' k',
  nested_loop ll gd fuel num next s k = Ok (next', s', k') -> Permutation (runes s') (runes s).
Proof.
  induction fuel as [|fuel IH]; intros num next s k next' s' k' H.
  - destruct k as [|fr rest]; cbn [nested_loop] in H; [inversion H; subst; reflexivity|].
    destruct (budget <=? num); [inversion H; subst; reflexivity | discriminate].
  - destruct k as [|fr rest]; cbn [nested_loop] in H; [inversion H; subst; reflexivity|].
    destruct (budget <=? num); [inversion H; subst; reflexivity|].
    brk H; try (eapply IH; exact H).
    apply IH in H.
    match goal with Ha : apply_at _ _ _ _ _ _ = Ok _ |- _ => apply apply_at_runes in Ha end.
    perm_chain.
Qed.

Lemma apply_rec_runes ll gd lk s k pos pos' s' k' :
  apply_rec ll gd lk s k pos = Ok (pos', s', k') -> Permutation (runes s') (runes s).
Proof.
  unfold apply_rec. intros H. brk H; inversion H; subst; try reflexivity;
    repeat match goal with
    | Ha : apply_at _ _ _ _ _ _ = Ok _ |- _ => apply apply_at_runes in Ha
    | Ha : nested_loop _ _ _ _ _ _ _ = Ok _ |- _ => apply nested_loop_runes in Ha
    end; perm_chain.
Qed.

Lemma outer_loop_runes ll gd lk : forall fuel pos s k s' k',
  outer_loop ll gd lk fuel pos s k = Ok (s', k') -> Permutation (runes s') (runes s).
Proof.
  induction fuel as [|fuel IH]; intros pos s k s' k' H; cbn [outer_loop] in H.
  - destruct (length s <=? pos); [inversion H; subst; reflexivity | discriminate].
  - destruct (length s <=? pos); [inversion H; subst; reflexivity|].
    brk H. apply IH in H.
    match goal with Ha : apply_rec _ _ _ _ _ _ = Ok _ |- _ => apply apply_rec_runes in Ha end.
    perm_chain.
Qed.

Lemma apply_lookups_runes ll gd : forall lookups s k s' k',
  apply_lookups ll gd lookups s k = Ok (s', k') -> Permutation (runes s') (runes s).
Proof.
  induction lookups as [|l rest IH]; cbn [apply_lookups]; intros s k s' k' H.
  - inversion H; subst. reflexivity.
  - brk H. apply IH in H.
    match goal with Ha : apply_lookup _ _ _ _ _ = Ok _ |- _ => unfold apply_lookup in Ha; rename Ha into E' end.
    destruct (nth_error ll l).
    + apply outer_loop_runes in E'. perm_chain.
    + inversion E'; subst. exact H.
Qed.

(* text_conserved, general form: any tables, any GDEF, any lookup order, any
   initial stack, any sequence *)
Lemma text_conserved_gen ll gd lookups k s s' k' :
  M_shape ll gd lookups k s = Ok (s', k') -> Permutation (runes s') (runes s).
Proof. apply apply_lookups_runes. Qed.
