(* C07/Proofs_stack.v — the stack invariant and its preservation by
   fixStackInsert / fixStackMerge.
     frame_ok n f : InputPos strictly increasing, every position < EndPos,
                    EndPos <= n = |seq|
     stack_ok n lim k : every frame ok, EndPos non-decreasing from the top
                    of the stack to the bottom, the top's EndPos >= lim *)
From Coq Require Import List NArith ZArith Bool Arith Lia Permutation.
From Common Require Import Outcome.
From Gen Require Import Consts C07.
From C07 Require Import Model Util Proofs Proofs_text Proofs_match.
Import ListNotations.

Definition frame_ok (n : nat) (f : frame) : Prop :=
  inc_from 0 (f_pos f) /\ Forall (fun p => p < f_end f) (f_pos f) /\ f_end f <= n.

Fixpoint stack_ok (n lim : nat) (k : stack) : Prop :=
  match k with
  | [] => True
  | f :: rest => frame_ok n f /\ lim <= f_end f /\ stack_ok n (f_end f) rest
  end.

Lemma stack_ok_weaken n lim lim' k : lim' <= lim -> stack_ok n lim k -> stack_ok n lim' k.
Proof. destruct k; cbn; intuition lia. Qed.

(* ---- inc_from facts ---- *)

Lemma inc_from_length lo hi l : inc_from lo l -> Forall (fun x => x < hi) l -> length l + lo <= hi \/ l = [].
Proof.
  revert lo. induction l as [|x t IH]; intros lo H HF; [auto|]. left.
  destruct H as [H1 H2]. inversion HF; subst.
  destruct (IH (S x) H2 H4) as [H|H]; cbn [length]; [lia|subst; cbn; lia].
Qed.

Lemma inc_from_length' lo hi l : inc_from lo l -> Forall (fun x => x < hi) l -> lo <= hi -> length l + lo <= hi.
Proof. intros H HF Hl. destruct (inc_from_length lo hi l H HF) as [H0| ->]; cbn; lia. Qed.

Lemma inc_from_map_sub m d l : inc_from m l -> d <= m -> inc_from (m - d) (map (fun x => x - d) l).
Proof.
  revert m. induction l as [|x t IH]; intros m H Hd; cbn [map inc_from]; [auto|].
  destruct H as [H1 H2]. split; [lia|].
  replace (S (x - d)) with (S x - d) by lia. apply IH; [exact H2|lia].
Qed.

Lemma inc_from_map_add m d l : inc_from m l -> inc_from (m + d) (map (fun x => x + d) l).
Proof.
  revert m. induction l as [|x t IH]; intros m H; cbn [map inc_from]; [auto|].
  destruct H as [H1 H2]. split; [lia|]. apply (IH (S x)). exact H2.
Qed.

Lemma inc_from_map_mono (f : nat -> nat) : (forall x y, x < y -> f x < f y) ->
  forall l lo lo', inc_from lo l -> (forall x, lo <= x -> lo' <= f x) -> inc_from lo' (map f l).
Proof.
  intros Hf. induction l as [|x t IH]; intros lo lo' H Hlo; cbn [map inc_from]; [auto|].
  destruct H as [H1 H2]. split; [auto|].
  eapply IH; [exact H2|]. intros y Hy. specialize (Hf x y). lia.
Qed.

Lemma inc_from_app2 lo l1 mid l2 :
  inc_from lo l1 -> Forall (fun x => x < mid) l1 -> lo <= mid -> inc_from mid l2 -> inc_from lo (l1 ++ l2).
Proof.
  revert lo. induction l1 as [|x t IH]; intros lo H HF Hl H2; cbn [app].
  - eapply inc_from_weaken; eauto.
  - destruct H as [Ha Hb]. inversion HF; subst. split; [exact Ha|]. apply IH; auto.
Qed.

Lemma inc_from_In lo l x : inc_from lo l -> In x l -> lo <= x.
Proof. intros H Hin. apply inc_from_ge in H. rewrite Forall_forall in H. auto. Qed.

Lemma inc_from_split lo l1 x l2 :
  inc_from lo (l1 ++ x :: l2) -> inc_from lo l1 /\ Forall (fun y => y < x) l1 /\ lo <= x /\ inc_from (S x) l2.
Proof.
  revert lo. induction l1 as [|y t IH]; intros lo H; cbn [app] in H.
  - destruct H. cbn. auto.
  - destruct H as [H1 H2]. apply IH in H2. destruct H2 as (Ha & Hb & Hc & Hd).
    splits; [cbn; auto | constructor; [lia|exact Hb] | lia | exact Hd].
Qed.

(* ------------------------------------------------------------------ *)
(* fixStackInsert                                                       *)

Lemma last_index_notin x : forall l i acc, ~ In x l -> last_index l x i acc = acc.
Proof.
  induction l as [|y t IH]; intros i acc H; cbn [last_index]; [reflexivity|].
  destruct (Nat.eqb_spec y x); [exfalso; apply H; left; auto|].
  apply IH. intros Hin. apply H. right. exact Hin.
Qed.

Lemma last_index_app x : forall l1 l2 i acc,
  last_index (l1 ++ l2) x i acc = last_index l2 x (i + length l1) (last_index l1 x i acc).
Proof.
  induction l1 as [|y t IH]; intros l2 i acc; cbn [app last_index length].
  - rewrite Nat.add_0_r. reflexivity.
  - rewrite IH. f_equal. lia.
Qed.

Lemma map_id_below (f : nat -> nat) a l :
  Forall (fun y => y < a) l -> (forall y, y < a -> f y = y) -> map f l = l.
Proof.
  intros H Hf. induction H; cbn; [reflexivity|]. rewrite Hf by assumption. f_equal. assumption.
Qed.

Lemma fix_insert_frame_ok n a d f :
  frame_ok n f -> a < f_end f ->
  frame_ok (n + d) (fix_insert_frame a (S d) f) /\ f_end (fix_insert_frame a (S d) f) = f_end f + d.
Proof.
  intros (Hs & Hlt & He) Ha. unfold fix_insert_frame.
  destruct (f_end f <=? a) eqn:El; [apply Nat.leb_le in El; lia|]. clear El.
  cbn [f_end f_pos]. split; [|lia].
  set (sh := fun p => if a <? p then p + S d - 1 else p).
  assert (Hsh_lo : forall y, y < a -> sh y = y) by (intros y Hy; unfold sh; destruct (Nat.ltb_spec a y); lia).
  assert (Hsh_eq : sh a = a) by (unfold sh; rewrite Nat.ltb_irrefl; reflexivity).
  assert (Hsh_hi : forall l, inc_from (S a) l -> map sh l = map (fun y => y + d) l).
  { intros l Hl. apply map_ext_in. intros y Hy. eapply inc_from_In in Hy; [|exact Hl].
    unfold sh. destruct (Nat.ltb_spec a y); lia. }
  destruct (in_dec Nat.eq_dec a (f_pos f)) as [Hin|Hnin].
  - apply in_split in Hin. destruct Hin as (l1 & l2 & E). rewrite E in *.
    apply inc_from_split in Hs. destruct Hs as (H1 & H1lt & _ & H2).
    assert (Hn2 : ~ In a l2) by (intros Hin; eapply inc_from_In in Hin; [|exact H2]; lia).
    rewrite last_index_app. cbn [last_index]. rewrite Nat.eqb_refl.
    rewrite last_index_notin by exact Hn2.
    replace (0 + length l1) with (length l1) by lia.
    rewrite map_app. cbn [map]. rewrite Hsh_eq, (map_id_below sh a l1 H1lt Hsh_lo), (Hsh_hi l2 H2).
    replace (S (length l1)) with (length (l1 ++ [a])) by (rewrite app_length; cbn; lia).
    replace (l1 ++ a :: map (fun y => y + d) l2) with ((l1 ++ [a]) ++ map (fun y => y + d) l2)
      by (rewrite <- app_assoc; reflexivity).
    rewrite firstn_app, firstn_all, Nat.sub_diag, skipn_app, skipn_all, Nat.sub_diag. cbn [firstn skipn].
    rewrite !app_nil_r. cbn [app].
    replace (S d - 1) with d by lia.
    apply Forall_app in Hlt. destruct Hlt as [Hlt1 Hlt2]. inversion Hlt2 as [|? ? Hlta Hlt2']; subst.
    unfold frame_ok. cbn [f_pos f_end f_acts]. rewrite <- ?app_assoc. cbn [app]. splits.
    + eapply inc_from_app2; [exact H1|exact H1lt|lia|]. cbn [inc_from]. split; [lia|].
      eapply inc_from_app2 with (mid := S a + d).
      * clear. replace (S a) with (a + 1) by lia. generalize 1 as st.
        induction d as [|d IH]; intros st; cbn [seq map inc_from]; [auto|].
        split; [lia|]. replace (S (a + st)) with (a + S st) by lia. apply IH.
      * apply Forall_forall. intros y Hy. apply in_map_iff in Hy. destruct Hy as (j & <- & Hj).
        apply in_seq in Hj. lia.
      * lia.
      * apply (inc_from_map_add (S a) d l2 H2).
    + apply Forall_app. split.
      * eapply Forall_impl; [|exact Hlt1]. cbn. intros; lia.
      * constructor; [lia|]. apply Forall_app. split.
        -- apply Forall_forall. intros y Hy. apply in_map_iff in Hy. destruct Hy as (j & <- & Hj).
           apply in_seq in Hj. lia.
        -- apply Forall_forall. intros y Hy. apply in_map_iff in Hy. destruct Hy as (z & <- & Hz).
           rewrite Forall_forall in Hlt2'. specialize (Hlt2' z Hz). lia.
    + lia.
  - rewrite last_index_notin by exact Hnin.
    assert (Hmono : forall x y, x < y -> sh x < sh y).
    { intros x y Hxy. unfold sh. destruct (Nat.ltb_spec a x); destruct (Nat.ltb_spec a y); lia. }
    unfold frame_ok. cbn [f_pos f_end f_acts]. splits.
    + eapply inc_from_map_mono; [exact Hmono|exact Hs|]. intros; lia.
    + apply Forall_forall. intros y Hy. apply in_map_iff in Hy. destruct Hy as (z & <- & Hz).
      rewrite Forall_forall in Hlt. specialize (Hlt z Hz). unfold sh. destruct (Nat.ltb_spec a z); lia.
    + lia.
Qed.
