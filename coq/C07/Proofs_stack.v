(* C07/Proofs_stack.v — the stack invariant and its preservation by
   fixStackInsert / fixStackMerge.
     frame_ok n f : InputPos strictly increasing, every position < EndPos,
                    EndPos <= n = |seq|
     stack_ok n lim k : every frame ok, EndPos non-decreasing from the top
                    of the stack to the bottom, the top's EndPos >= lim *)
From Coq Require Import List NArith ZArith Bool Arith Lia Permutation.
From Common Require Import Outcome.
From Gen Require Import Consts C07.
From C07 Require Import Model Util Proofs Proofs_text Proofs_match.
Import ListNotations.

Definition frame_ok (n : nat) (f : frame) : Prop :=
  inc_from 0 (f_pos f) /\ Forall (fun p => p < f_end f) (f_pos f) /\ f_end f <= n.

Fixpoint stack_ok (n lim : nat) (k : stack) : Prop :=
  match k with
  | [] => True
  | f :: rest => frame_ok n f /\ lim <= f_end f /\ stack_ok n (f_end f) rest
  end.

Lemma stack_ok_weaken n lim lim' k : lim' <= lim -> stack_ok n lim k -> stack_ok n lim' k.
Proof. destruct k; cbn; intuition lia. Qed.

(* ---- inc_from facts ---- *)

Lemma inc_from_length lo hi l : inc_from lo l -> Forall (fun x => x < hi) l -> length l + lo <= hi \/ l = [].
Proof.
  revert lo. induction l as [|x t IH]; intros lo H HF; [auto|]. left.
  destruct H as [H1 H2]. inversion HF; subst.
  destruct (IH (S x) H2 H4) as [H|H]; cbn [length]; [lia|subst; cbn; lia].
Qed.

Lemma inc_from_length' lo hi l : inc_from lo l -> Forall (fun x => x < hi) l -> lo <= hi -> length l + lo <= hi.
Proof. intros H HF Hl. destruct (inc_from_length lo hi l H HF) as [H0| ->]; cbn; lia. Qed.

Lemma inc_from_map_sub m d l : inc_from m l -> d <= m -> inc_from (m - d) (map (fun x => x - d) l).
Proof.
  revert m. induction l as [|x t IH]; intros m H Hd; cbn [map inc_from]; [auto|].
  destruct H as [H1 H2]. split; [lia|].
  replace (S (x - d)) with (S x - d) by lia. apply IH; [exact H2|lia].
Qed.

Lemma inc_from_map_add m d l : inc_from m l -> inc_from (m + d) (map (fun x => x + d) l).
Proof.
  revert m. induction l as [|x t IH]; intros m H; cbn [map inc_from]; [auto|].
  destruct H as [H1 H2]. split; [lia|]. apply (IH (S x)). exact H2.
Qed.

Lemma inc_from_map_mono (f : nat -> nat) : (forall x y, x < y -> f x < f y) ->
  forall l lo lo', inc_from lo l -> (forall x, lo <= x -> lo' <= f x) -> inc_from lo' (map f l).
Proof.
  intros Hf. induction l as [|x t IH]; intros lo lo' H Hlo; cbn [map inc_from]; [auto|].
  destruct H as [H1 H2]. split; [auto|].
  eapply IH; [exact H2|]. intros y Hy. specialize (Hf x y). lia.
Qed.

Lemma inc_from_app2 lo l1 mid l2 :
  inc_from lo l1 -> Forall (fun x => x < mid) l1 -> lo <= mid -> inc_from mid l2 -> inc_from lo (l1 ++ l2).
Proof.
  revert lo. induction l1 as [|x t IH]; intros lo H HF Hl H2; cbn [app].
  - eapply inc_from_weaken; eauto.
  - destruct H as [Ha Hb]. inversion HF; subst. split; [exact Ha|]. apply IH; auto.
Qed.

Lemma inc_from_In lo l x : inc_from lo l -> In x l -> lo <= x.
Proof. intros H Hin. apply inc_from_ge in H. rewrite Forall_forall in H. auto. Qed.

Lemma inc_from_split lo l1 x l2 :
  inc_from lo (l1 ++ x :: l2) -> inc_from lo l1 /\ Forall (fun y => y < x) l1 /\ lo <= x /\ inc_from (S x) l2.
Proof.
  revert lo. induction l1 as [|y t IH]; intros lo H; cbn [app] in H.
  - destruct H. cbn. auto.
  - destruct H as [H1 H2]. apply IH in H2. destruct H2 as (Ha & Hb & Hc & Hd).
    splits; [cbn; auto | constructor; [lia|exact Hb] | lia | exact Hd].
Qed.

(* ------------------------------------------------------------------ *)
(* fixStackInsert                                                       *)

Lemma last_index_notin x : forall l i acc, ~ In x l -> last_index l x i acc = acc.
Proof.
  induction l as [|y t IH]; intros i acc H; cbn [last_index]; [reflexivity|].
  destruct (Nat.eqb_spec y x); [exfalso; apply H; left; auto|].
  apply IH. intros Hin. apply H. right. exact Hin.
Qed.

Lemma last_index_app x : forall l1 l2 i acc,
  last_index (l1 ++ l2) x i acc = last_index l2 x (i + length l1) (last_index l1 x i acc).
Proof.
  induction l1 as [|y t IH]; intros l2 i acc; cbn [app last_index length].
  - rewrite Nat.add_0_r. reflexivity.
  - rewrite IH. f_equal. lia.
Qed.

Lemma map_id_below (f : nat -> nat) a l :
  Forall (fun y => y < a) l -> (forall y, y < a -> f y = y) -> map f l = l.
Proof.
  intros H Hf. induction H; cbn; [reflexivity|]. rewrite Hf by assumption. f_equal. assumption.
Qed.

Lemma fix_insert_frame_ok n a d f :
  frame_ok n f -> a < f_end f ->
  frame_ok (n + d) (fix_insert_frame a (S d) f) /\ f_end (fix_insert_frame a (S d) f) = f_end f + d.
Proof.
  intros (Hs & Hlt & He) Ha. unfold fix_insert_frame.
  destruct (f_end f <=? a) eqn:El; [apply Nat.leb_le in El; lia|]. clear El.
  cbn [f_end f_pos]. split; [|lia].
  set (sh := fun p => if a <? p then p + S d - 1 else p).
  assert (Hsh_lo : forall y, y < a -> sh y = y) by (intros y Hy; unfold sh; destruct (Nat.ltb_spec a y); lia).
  assert (Hsh_eq : sh a = a) by (unfold sh; rewrite Nat.ltb_irrefl; reflexivity).
  assert (Hsh_hi : forall l, inc_from (S a) l -> map sh l = map (fun y => y + d) l).
  { intros l Hl. apply map_ext_in. intros y Hy. eapply inc_from_In in Hy; [|exact Hl].
    unfold sh. destruct (Nat.ltb_spec a y); lia. }
  destruct (in_dec Nat.eq_dec a (f_pos f)) as [Hin|Hnin].
  - apply in_split in Hin. destruct Hin as (l1 & l2 & E). rewrite E in *.
    apply inc_from_split in Hs. destruct Hs as (H1 & H1lt & _ & H2).
    assert (Hn2 : ~ In a l2) by (intros Hin; eapply inc_from_In in Hin; [|exact H2]; lia).
    rewrite last_index_app. cbn [last_index]. rewrite Nat.eqb_refl.
    rewrite last_index_notin by exact Hn2.
    replace (0 + length l1) with (length l1) by lia.
    rewrite map_app. cbn [map]. rewrite Hsh_eq, (map_id_below sh a l1 H1lt Hsh_lo), (Hsh_hi l2 H2).
    replace (S (length l1)) with (length (l1 ++ [a])) by (rewrite app_length; cbn; lia).
    replace (l1 ++ a :: map (fun y => y + d) l2) with ((l1 ++ [a]) ++ map (fun y => y + d) l2)
      by (rewrite <- app_assoc; reflexivity).
    rewrite firstn_app, firstn_all, Nat.sub_diag, skipn_app, skipn_all, Nat.sub_diag. cbn [firstn skipn].
    rewrite !app_nil_r. cbn [app].
    replace (S d - 1) with d by lia.
    apply Forall_app in Hlt. destruct Hlt as [Hlt1 Hlt2]. inversion Hlt2 as [|? ? Hlta Hlt2']; subst.
    unfold frame_ok. cbn [f_pos f_end f_acts]. rewrite <- ?app_assoc. cbn [app]. splits.
    + eapply inc_from_app2; [exact H1|exact H1lt|lia|]. cbn [inc_from]. split; [lia|].
      eapply inc_from_app2 with (mid := S a + d).
      * clear. replace (S a) with (a + 1) by lia. generalize 1 as st.
        induction d as [|d IH]; intros st; cbn [seq map inc_from]; [auto|].
        split; [lia|]. replace (S (a + st)) with (a + S st) by lia. apply IH.
      * apply Forall_forall. intros y Hy. apply in_map_iff in Hy. destruct Hy as (j & <- & Hj).
        apply in_seq in Hj. lia.
      * lia.
      * apply (inc_from_map_add (S a) d l2 H2).
    + apply Forall_app. split.
      * eapply Forall_impl; [|exact Hlt1]. cbn. intros; lia.
      * constructor; [lia|]. apply Forall_app. split.
        -- apply Forall_forall. intros y Hy. apply in_map_iff in Hy. destruct Hy as (j & <- & Hj).
           apply in_seq in Hj. lia.
        -- apply Forall_forall. intros y Hy. apply in_map_iff in Hy. destruct Hy as (z & <- & Hz).
           rewrite Forall_forall in Hlt2'. specialize (Hlt2' z Hz). lia.
    + lia.
  - rewrite last_index_notin by exact Hnin.
    assert (Hmono : forall x y, x < y -> sh x < sh y).
    { intros x y Hxy. unfold sh. destruct (Nat.ltb_spec a x); destruct (Nat.ltb_spec a y); lia. }
    unfold frame_ok. cbn [f_pos f_end f_acts]. splits.
    + eapply inc_from_map_mono; [exact Hmono|exact Hs|]. intros; lia.
    + apply Forall_forall. intros y Hy. apply in_map_iff in Hy. destruct Hy as (z & <- & Hz).
      rewrite Forall_forall in Hlt. specialize (Hlt z Hz). unfold sh. destruct (Nat.ltb_spec a z); lia.
    + lia.
Qed.

(* ------------------------------------------------------------------ *)
(* fixStackMerge                                                        *)

Lemma merge_loop_nil first ins d n :
  merge_loop [] first ins d n = (map (fun x => x - d) ins, d, n).
Proof. destruct ins; reflexivity. Qed.

Lemma merge_loop_cons_nil p ps first d n :
  merge_loop (p :: ps) first [] d n = ([], d + (if first then length ps else length (p :: ps)), n).
Proof. reflexivity. Qed.

Lemma merge_loop_cons_cons p ps first x ins d n :
  merge_loop (p :: ps) first (x :: ins) d n =
  if p <? x then merge_loop ps false (x :: ins) (if first then d else S d) n
  else if x <? p then cons3 (x - d) (merge_loop (p :: ps) first ins d n)
  else
    let n' := if first then true else match ps with [] => true | _ => n end in
    if first then cons3 x (merge_loop ps false ins d n')
    else merge_loop ps false ins (S d) n'.
Proof. reflexivity. Qed.

(* the loop once the first merged position has been passed (i > 0):
   m is a lower bound of everything still to come, delta <= m *)
Lemma merge_loop_tail : forall ps ins delta needs m hi out D nd,
  inc_from m ps -> inc_from m ins -> delta <= m ->
  Forall (fun x => x < hi) ps -> Forall (fun x => x < hi) ins ->
  merge_loop ps false ins delta needs = (out, D, nd) ->
  D = delta + length ps /\ inc_from (m - delta) out /\ Forall (fun y => y + D < hi) out.
Proof.
  induction ps as [|p ps IHp].
  - intros ins delta needs m hi out D nd _ Hi Hd _ Hhi H. rewrite merge_loop_nil in H. inversion H; subst.
    splits; [cbn; lia | apply inc_from_map_sub; auto |].
    apply Forall_forall. intros y Hy. apply in_map_iff in Hy. destruct Hy as (x & <- & Hx).
    rewrite Forall_forall in Hhi. specialize (Hhi x Hx).
    eapply inc_from_In in Hx; [|exact Hi]. lia.
  - induction ins as [|x ins IHi]; intros delta needs m hi out D nd Hp Hi Hd Hph Hih H.
    + rewrite merge_loop_cons_nil in H. inversion H; subst. splits; [reflexivity | exact I | constructor].
    + rewrite merge_loop_cons_cons in H.
      destruct Hp as [Hp1 Hp2]. destruct Hi as [Hi1 Hi2].
      inversion Hph as [|? ? Hph1 Hph2]; subst. inversion Hih as [|? ? Hih1 Hih2]; subst.
      destruct (Nat.ltb_spec p x) as [Hpx|Hpx].
      * (* merged glyph before the next input position *)
        eapply (IHp (x :: ins) (S delta) needs (S p) hi) in H;
          [|exact Hp2|cbn [inc_from]; split; [lia|exact Hi2]|lia|exact Hph2|exact Hih].
        destruct H as (-> & Ho & Hb). splits; [cbn [length]; lia | |exact Hb].
        eapply inc_from_weaken; [|exact Ho]. lia.
      * destruct (Nat.ltb_spec x p) as [Hxp|Hxp].
        -- (* input position not merged *)
           destruct (merge_loop (p :: ps) false ins delta needs) as [[out1 D1] nd1] eqn:E.
           cbn [cons3] in H. inversion H; subst.
           eapply (IHi delta needs (S x) hi) in E;
             [|cbn [inc_from]; split; [lia|exact Hp2]|exact Hi2|lia|exact Hph|exact Hih2].
           destruct E as (-> & Ho & Hb). splits; [reflexivity| |].
           ++ cbn [inc_from]. split; [lia|]. eapply inc_from_weaken; [|exact Ho]. lia.
           ++ constructor; [|exact Hb].
              assert (HL : length (p :: ps) + S x <= hi).
              { apply inc_from_length'; [cbn [inc_from]; split; [lia|exact Hp2] | exact Hph | lia]. }
              cbn [length] in *. lia.
        -- (* input position merged: deleted *)
           assert (p = x) by lia. subst p. cbn zeta in H.
           eapply (IHp ins (S delta) _ (S x) hi) in H; [|exact Hp2|exact Hi2|lia|exact Hph2|exact Hih2].
           destruct H as (-> & Ho & Hb). splits; [cbn [length]; lia | |exact Hb].
           eapply inc_from_weaken; [|exact Ho]. lia.
Qed.

(* the whole loop, started at i = 0 with pos = a :: mnew *)
Lemma merge_loop_head a mnew hi : inc_from (S a) mnew -> Forall (fun x => x < hi) mnew -> a < hi ->
  forall ins needs out D nd,
  inc_from 0 ins -> Forall (fun x => x < hi) ins ->
  merge_loop (a :: mnew) true ins 0 needs = (out, D, nd) ->
  D = length mnew /\ inc_from 0 out /\ Forall (fun y => y + D < hi) out.
Proof.
  intros Hm Hmh Ha.
  assert (Hcount : length mnew + S a <= hi) by (apply inc_from_length'; auto; lia).
  assert (Gen : forall ins lo needs out D nd, lo <= S a ->
    inc_from lo ins -> Forall (fun x => x < hi) ins ->
    merge_loop (a :: mnew) true ins 0 needs = (out, D, nd) ->
    D = length mnew /\ inc_from lo out /\ Forall (fun y => y + D < hi) out).
  { induction ins as [|x ins IH]; intros lo needs out D nd Hlo Hi Hih H.
    - rewrite merge_loop_cons_nil in H. inversion H; subst. splits; [reflexivity|exact I|constructor].
    - rewrite merge_loop_cons_cons in H. destruct Hi as [Hi1 Hi2]. inversion Hih as [|? ? Hih1 Hih2]; subst.
      destruct (Nat.ltb_spec a x) as [Hax|Hax].
      + eapply (merge_loop_tail mnew (x :: ins) 0 needs (S a) hi) in H;
          [|exact Hm|cbn [inc_from]; split; [lia|exact Hi2]|lia|exact Hmh|exact Hih].
        destruct H as (-> & Ho & Hb). splits; [reflexivity| |exact Hb].
        rewrite Nat.sub_0_r in Ho. eapply inc_from_weaken; [|exact Ho]. exact Hlo.
      + destruct (Nat.ltb_spec x a) as [Hxa|Hxa].
        * destruct (merge_loop (a :: mnew) true ins 0 needs) as [[out1 D1] nd1] eqn:E.
          cbn [cons3] in H. inversion H; subst.
          eapply (IH (S x)) in E; [|lia|exact Hi2|exact Hih2].
          destruct E as (-> & Ho & Hb). splits; [reflexivity| |].
          -- rewrite Nat.sub_0_r. cbn [inc_from]. split; [lia|exact Ho].
          -- constructor; [lia|exact Hb].
        * assert (x = a) by lia. subst x. cbn zeta in H.
          destruct (merge_loop mnew false ins 0 true) as [[out1 D1] nd1] eqn:E.
          cbn [cons3] in H. inversion H; subst.
          eapply (merge_loop_tail mnew ins 0 true (S a) hi) in E; [|exact Hm|exact Hi2|lia|exact Hmh|exact Hih2].
          destruct E as (-> & Ho & Hb). splits; [reflexivity| |].
          -- cbn [inc_from]. split; [lia|]. rewrite Nat.sub_0_r in Ho. exact Ho.
          -- constructor; [cbn [length]; lia|exact Hb]. }
  intros ins needs out D nd Hi Hih H. eapply Gen; eauto. lia.
Qed.

(* slices.BinarySearch followed by Insert / Delete on an ascending list *)
Lemma lb_insert : forall l lo t idx,
  inc_from lo l -> lo <= t -> lower_bound l t = (idx, false) ->
  inc_from lo (firstn idx l ++ t :: skipn idx l) /\
  (forall P : nat -> Prop, Forall P l -> P t -> Forall P (firstn idx l ++ t :: skipn idx l)).
Proof.
  induction l as [|x r IH]; intros lo t idx Hl Ht H; cbn [lower_bound] in H.
  - inversion H; subst. cbn. splits; auto.
  - destruct Hl as [Hl1 Hl2]. destruct (Nat.leb_spec t x) as [Htx|Htx].
    + inversion H; subst. apply Nat.eqb_neq in H2. cbn [firstn skipn app inc_from].
      split; [splits; [lia|lia|exact Hl2]|]. intros P HP Hp. constructor; auto.
    + destruct (lower_bound r t) as [i f] eqn:E. inversion H; subst.
      destruct (IH (S x) t i Hl2 ltac:(lia) E) as [I1 I2].
      cbn [firstn skipn app inc_from]. split; [split; [exact Hl1|exact I1]|].
      intros P HP Hp. inversion HP; subst. constructor; auto.
Qed.

Lemma delete_inc : forall l lo idx, inc_from lo l -> inc_from lo (firstn idx l ++ skipn (S idx) l).
Proof.
  induction l as [|x r IH]; intros lo idx Hl; [destruct idx; exact I|].
  destruct Hl as [Hl1 Hl2]. destruct idx as [|idx]; cbn [firstn skipn app].
  - eapply inc_from_weaken; [|exact Hl2]. lia.
  - cbn [inc_from]. split; [exact Hl1|]. apply IH. exact Hl2.
Qed.

Lemma delete_Forall {A} (P : A -> Prop) l idx : Forall P l -> Forall P (firstn idx l ++ skipn (S idx) l).
Proof.
  intros H. apply Forall_app. split.
  - rewrite <- (firstn_skipn idx l) in H. apply Forall_app in H. apply H.
  - rewrite <- (firstn_skipn (S idx) l) in H. apply Forall_app in H. apply H.
Qed.

(* one frame under fixStackMerge: the merged positions are a :: mnew, all
   below lim <= EndPos *)
Lemma fix_merge_frame_ok n a mnew lim f :
  frame_ok n f -> inc_from (S a) mnew -> Forall (fun x => x < lim) mnew -> a < lim -> lim <= f_end f ->
  frame_ok (n - length mnew) (fix_merge_frame (a :: mnew) f) /\
  f_end (fix_merge_frame (a :: mnew) f) = f_end f - length mnew.
Proof.
  intros (Hs & Hlt & He) Hm Hml Ha Hlim. unfold fix_merge_frame.
  destruct (f_end f <=? a) eqn:El; [apply Nat.leb_le in El; lia|]. clear El.
  destruct (merge_loop (a :: mnew) true (f_pos f) 0 false) as [[ins delta] needs] eqn:E.
  eapply (merge_loop_head a mnew (f_end f)) in E; [|exact Hm| |lia|exact Hs|exact Hlt].
  2:{ eapply Forall_impl; [|exact Hml]. cbn. intros; lia. }
  destruct E as (-> & Hi & Hb).
  assert (Hcount : length mnew + S a <= lim) by (apply inc_from_length'; auto; lia).
  destruct (lower_bound ins a) as [idx has] eqn:Elb.
  assert (Hb' : Forall (fun p => p < f_end f - length mnew) ins).
  { eapply Forall_impl; [|exact Hb]. cbn. intros; lia. }
  unfold frame_ok. cbn [f_pos f_end f_acts]. split; [|reflexivity].
  destruct needs, has; cbn [andb negb].
  - splits; [exact Hi|exact Hb'|lia].
  - destruct (lb_insert ins 0 a idx Hi ltac:(lia) Elb) as [I1 I2].
    splits; [exact I1 | apply I2; [exact Hb'|lia] | lia].
  - splits; [apply delete_inc; exact Hi | apply delete_Forall; exact Hb' | lia].
  - splits; [exact Hi|exact Hb'|lia].
Qed.

(* ------------------------------------------------------------------ *)
(* the whole stack                                                      *)

Lemma stack_ok_insert n a d : forall k b, a < b ->
  stack_ok n b k -> stack_ok (n + d) (b + d) (fix_insert a (S d) k).
Proof.
  induction k as [|f rest IH]; intros b Ha H; cbn [fix_insert map stack_ok]; [exact I|].
  destruct H as (Hf & Hb & Hr).
  destruct (fix_insert_frame_ok n a d f Hf ltac:(lia)) as [F1 F2].
  splits; [exact F1 | lia |]. rewrite F2. apply (IH (f_end f)); [lia|]. exact Hr.
Qed.

Lemma stack_ok_merge n a mnew : inc_from (S a) mnew ->
  forall k b, Forall (fun x => x < b) mnew -> a < b -> stack_ok n b k ->
  stack_ok (n - length mnew) (b - length mnew) (fix_merge (a :: mnew) k).
Proof.
  intros Hm. induction k as [|f rest IH]; intros b Hml Ha H; cbn [fix_merge map stack_ok]; [exact I|].
  destruct H as (Hf & Hb & Hr).
  destruct (fix_merge_frame_ok n a mnew b f Hf Hm Hml Ha Hb) as [F1 F2].
  splits; [exact F1 | lia |]. fold (fix_merge (a :: mnew) rest). rewrite F2.
  apply (IH (f_end f)); [|lia|exact Hr].
  eapply Forall_impl; [|exact Hml]. cbn. intros; lia.
Qed.

Lemma stack_ok_length_eq n n' lim k : n = n' -> stack_ok n lim k -> stack_ok n' lim k.
Proof. intros ->. auto. Qed.
