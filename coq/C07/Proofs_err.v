(* C07/Proofs_err.v — the model never produces the outcome Err (the Go code
   has no error return on this path), hence with apply_terminates and
   apply_no_panic every Apply call returns a sequence.  The first part repeats
   the case analysis of Proofs_term.v for the constructor Err. *)
From Coq Require Import List NArith ZArith Bool Arith Lia.
From Common Require Import Outcome.
From Gen Require Import Consts C07.
From C07 Require Import Model Shape Util Proofs Proofs_term Proofs_full.
Import ListNotations.

(* ------------------------------------------------------------------ *)
(* No subtable ever reports Err (their loops are structural).    *)

Ltac ne_leaf H := first [ discriminate H | (unfold nomatch, push_frame in H; discriminate H) ].

Lemma oget_ne {A} (s : list A) i : oget s i <> Err.
Proof. unfold oget. destruct (nth_error s i); discriminate. Qed.

Lemma oupd_ne {A} (s : list A) i x : oupd s i x <> Err.
Proof. unfold oupd. destruct (upd s i x); discriminate. Qed.

Ltac ne_base := first [ eapply oget_ne; eassumption | eapply oupd_ne; eassumption ].

Lemma skip_fwd_ne keep s : forall n p, skip_fwd keep s p n <> Err.
Proof.
  induction n as [|n IH]; intros p H; cbn [skip_fwd] in H; [discriminate|].
  brk H; try ne_leaf H; try ne_base. eapply IH; eauto.
Qed.

Lemma skip_fwd_collect_ne keep s : forall n p acc, skip_fwd_collect keep s p n acc <> Err.
Proof.
  induction n as [|n IH]; intros p acc H; cbn [skip_fwd_collect] in H; [discriminate|].
  brk H; try ne_leaf H; try ne_base. eapply IH; eauto.
Qed.

Lemma skip_bwd_ne keep s gn : forall q, skip_bwd keep s q gn <> Err.
Proof.
  induction q as [|q IH]; intros H; cbn [skip_bwd] in H; [discriminate|].
  brk H; try ne_leaf H; try ne_base. eapply IH; eauto.
Qed.

Lemma match_fwd_ne {X} (test : N -> X -> bool) keep s lim : forall items p acc,
  match_fwd test keep s lim p items acc <> Err.
Proof.
  induction items as [|it rest IH]; intros p acc H; cbn [match_fwd] in H; [discriminate|].
  brk H; try ne_leaf H; try ne_base.
  - eapply IH; eauto.
  - eapply skip_fwd_ne; eauto.
Qed.

Lemma match_bwd_ne {X} (test : N -> X -> bool) keep s : forall items q,
  match_bwd test keep s q items <> Err.
Proof.
  induction items as [|it rest IH]; intros q H; cbn [match_bwd] in H; [discriminate|].
  brk H; try ne_leaf H; try ne_base.
  - eapply IH; eauto.
  - eapply skip_bwd_ne; eauto.
Qed.

Lemma chain3_input_ne keep s a b gid input : chain3_input keep s a b gid input <> Err.
Proof.
  unfold chain3_input. intros H. brk H; try ne_leaf H. eapply match_fwd_ne; eauto.
Qed.

Lemma seq_rules_ne test keep s k a b : forall rules, seq_rules test keep s k a b rules <> Err.
Proof.
  induction rules as [|[input acts] rest IH]; intros H; cbn [seq_rules] in H; [ne_leaf H|].
  brk H; try ne_leaf H; try (eapply IH; eauto; fail).
  - eapply skip_fwd_ne; eauto.
  - eapply match_fwd_ne; eauto.
Qed.

Lemma chain_rules_ne tb ti tl keep s k a b : forall rules,
  chain_rules tb ti tl keep s k a b rules <> Err.
Proof.
  induction rules as [|[[[back input] look] acts] rest IH]; intros H; cbn [chain_rules] in H; [ne_leaf H|].
  brk H; try ne_leaf H; try (eapply IH; eauto; fail);
    try (eapply skip_fwd_ne; eauto; fail);
    try (eapply match_fwd_ne; eauto; fail);
    try (eapply match_bwd_ne; eauto; fail).
Qed.

Lemma lig_match_ne keep s b : forall comps p mpos spos text,
  lig_match keep s b p comps mpos spos text <> Err.
Proof.
  induction comps as [|c rest IH]; intros p mpos spos text H; cbn [lig_match] in H; [discriminate|].
  brk H; try ne_leaf H; try ne_base.
  - eapply IH; eauto.
  - eapply skip_fwd_collect_ne; eauto.
Qed.

Lemma gather_ne {A} (s : list A) : forall idx, gather s idx <> Err.
Proof.
  induction idx as [|i t IH]; intros H; cbn [gather] in H; [discriminate|].
  brk H; try ne_leaf H; try ne_base. eapply IH; eauto.
Qed.

Lemma lig_loop_ne keep s k a b g0 : forall ligs, lig_loop keep s k a b g0 ligs <> Err.
Proof.
  induction ligs as [|[comps out] rest IH]; intros H; cbn [lig_loop] in H; [ne_leaf H|].
  brk H; try ne_leaf H; try (eapply IH; eauto; fail).
  - eapply gather_ne; eauto.
  - eapply lig_match_ne; eauto.
Qed.

Lemma vr_apply_ne v g : vr_apply v g <> Err.
Proof. unfold vr_apply. destruct v; [destruct (_ || _)|]; discriminate. Qed.

Lemma vr_apply_at_ne v s i : vr_apply_at v s i <> Err.
Proof.
  unfold vr_apply_at. intros H. brk H; try ne_leaf H; try ne_base. eapply vr_apply_ne; eauto.
Qed.

Lemma pair_apply_ne pa s k a p : pair_apply pa s k a p <> Err.
Proof.
  unfold pair_apply. intros H. brk H; try ne_leaf H; eapply vr_apply_at_ne; eauto.
Qed.

Lemma sub_advances_ne s : forall n p dx, sub_advances s p n dx <> Err.
Proof.
  induction n as [|n IH]; intros p dx H; cbn [sub_advances] in H; [discriminate|].
  brk H; try ne_leaf H; try ne_base. eapply IH; eauto.
Qed.

Lemma find_back_ne cov s : forall q, find_back cov s q <> Err.
Proof.
  induction q as [|q IH]; intros H; cbn [find_back] in H; [discriminate|].
  brk H; try ne_leaf H; try ne_base. eapply IH; eauto.
Qed.

Lemma mark_attach_ne add mcov bcov marks bases s k a :
  mark_attach add mcov bcov marks bases s k a <> Err.
Proof.
  unfold mark_attach. intros H. brk H; try ne_leaf H; try ne_base.
  - eapply sub_advances_ne; eauto.
  - eapply find_back_ne; eauto.
Qed.

Lemma gpos3_prev_ne cov recs s a g ey : gpos3_prev cov recs s a g ey <> Err.
Proof. unfold gpos3_prev. intros H. brk H; try ne_leaf H; ne_base. Qed.

Lemma gpos3_next_ne cov recs s a b g xx : gpos3_next cov recs s a b g xx <> Err.
Proof. unfold gpos3_next. intros H. brk H; try ne_leaf H; ne_base. Qed.

Ltac ne_sub :=
  first [ eapply oget_ne; eassumption | eapply oupd_ne; eassumption
        | eapply skip_fwd_ne; eassumption | eapply match_fwd_ne; eassumption | eapply chain3_input_ne; eassumption
        | eapply match_bwd_ne; eassumption
        | eapply seq_rules_ne; eassumption | eapply chain_rules_ne; eassumption
        | eapply lig_loop_ne; eassumption | eapply vr_apply_at_ne; eassumption
        | eapply pair_apply_ne; eassumption | eapply mark_attach_ne; eassumption
        | eapply gpos3_prev_ne; eassumption | eapply gpos3_next_ne; eassumption ].

Lemma apply_sub_ne keep sub s k a b : apply_sub keep sub s k a b <> Err.
Proof.
  unfold apply_sub. intros H.
  destruct (oget s a) as [g| | |] eqn:Eg; cbn [obind] in H; try discriminate H;
    [|eapply oget_ne; eauto].
  destruct sub; brk H; try ne_leaf H; ne_sub.
Qed.

Lemma apply_at_ne keep : forall subs s k a b, apply_at keep subs s k a b <> Err.
Proof.
  induction subs as [|sub rest IH]; intros s k a b H; cbn [apply_at] in H; [ne_leaf H|].
  brk H; try ne_leaf H.
  - eapply IH; eauto.
  - eapply apply_sub_ne; eauto.
Qed.


Lemma nested_loop_ne ll gd : forall fuel num next s k, nested_loop ll gd fuel num next s k <> Err.
Proof.
  induction fuel as [|fuel IH]; intros num next s k H.
  - destruct k as [|fr rest]; cbn [nested_loop] in H; [discriminate|].
    destruct (budget <=? num); discriminate.
  - destruct k as [|fr rest]; cbn [nested_loop] in H; [discriminate|].
    destruct (budget <=? num); [discriminate|].
    brk H; try ne_leaf H; try ne_base; try (eapply IH; exact H).
    eapply apply_at_ne; eauto.
Qed.

Lemma apply_rec_ne ll gd lk s k pos : apply_rec ll gd lk s k pos <> Err.
Proof.
  unfold apply_rec. intros H. brk H; try ne_leaf H; try ne_base.
  - eapply nested_loop_ne; eauto.
  - eapply apply_at_ne; eauto.
Qed.

Lemma outer_loop_ne ll gd lk : forall fuel pos s k, outer_loop ll gd lk fuel pos s k <> Err.
Proof.
  induction fuel as [|fuel IH]; intros pos s k H; cbn [outer_loop] in H.
  - destruct (length s <=? pos); discriminate.
  - destruct (length s <=? pos); [discriminate|].
    brk H; try ne_leaf H.
    + eapply IH; eauto.
    + eapply apply_rec_ne; eauto.
Qed.

Lemma apply_lookups_ne ll gd : forall lookups s k, apply_lookups ll gd lookups s k <> Err.
Proof.
  induction lookups as [|l rest IH]; intros s k H; cbn [apply_lookups] in H; [discriminate|].
  brk H; try ne_leaf H.
  - eapply IH; eauto.
  - match goal with Ha : apply_lookup _ _ _ _ _ = Err |- _ => unfold apply_lookup in Ha; rename Ha into E' end.
    destruct (nth_error ll l); [eapply outer_loop_ne; eauto|discriminate].
Qed.

(* Apply returns: a sequence and an empty stack *)
Lemma apply_total ll gd :
  reader_shape ll = true -> implemented ll = true ->
  forall lookups s, exists s', M_shape ll gd lookups [] s = Ok (s', []).
Proof.
  intros H1 H2 lookups s.
  destruct (M_shape ll gd lookups [] s) as [[s' k']| | |] eqn:E.
  - pose proof (apply_lookups_stack _ _ _ _ _ _ E). subst. eauto.
  - exfalso. eapply apply_lookups_ne; eauto.
  - exfalso. eapply apply_no_panic_gen; eauto.
  - exfalso. eapply apply_lookups_nf; eauto.
Qed.
