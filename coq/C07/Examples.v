(* C07/Examples.v — non-vacuity: concrete tables meeting every hypothesis of
   the theorems in Props.v, concrete runs, and witnesses showing that the
   hypotheses (and the repairs) are needed. *)
From Coq Require Import List NArith ZArith Bool Arith Permutation.
From Common Require Import Outcome.
From Gen Require Import Consts C07.
From C07 Require Import Model Shape Proofs_text Proofs_len Proofs_stack.
Import ListNotations.
Local Open Scope N_scope.

Definition gl (g : N) (t : list N) : glyph := mkG g t 0 0 0.
Definition nat0 := 0%nat. Definition nat1 := 1%nat. Definition nat2 := 2%nat.

(* a ligature 1 2 -> 4 carries the text of both components *)
Example ex_ligature :
  M_shape [mkLookup 0 nat0 [Gsub4_1 [(1, nat0)] [[([2], 4)]]]] None [nat0] []
          [gl 1 [97]; gl 2 [98]; gl 3 [99]]
  = Ok ([gl 4 [97; 98]; gl 3 [99]], []).
Proof. vm_compute. reflexivity. Qed.

(* A lookup list with a contextual rule (ignoring marks) whose nested actions
   run a ligature that swallows the marks the parent ignores, a multiple
   substitution and a chained format-3 context; GDEF with marks 10, 11. *)
Definition ex_gdef : option gdef := Some (mkGdef (Some [(10, 3); (11, 3)]) [] [[10]]).
Definition ex_ll : list lookup :=
  [ mkLookup 8 nat0 [SeqCtx1 [(1, nat0)] [[([], [(nat0, nat1); (nat0, nat2); (nat0, 3%nat)])]]];
    mkLookup 0 nat0 [Gsub4_1 [(1, nat0)] [[([10; 10], 5)]]];
    mkLookup 0 nat0 [Gsub2_1 [(5, nat0)] [[6; 7; 8]]];
    mkLookup 0 nat0 [Chain3 [] [[6]; [7]] [[8]] [(nat1, 4%nat)]];
    mkLookup 0 nat0 [Gsub1_1 [7] 100] ].
Definition ex_seq : list glyph := [gl 1 [97]; gl 10 [98]; gl 10 [99]; gl 2 [100]].

Example ex_hyp_shape : reader_shape ex_ll = true.
Proof. vm_compute. reflexivity. Qed.
Example ex_hyp_impl : implemented ex_ll = true.
Proof. vm_compute. reflexivity. Qed.

Example ex_run :
  M_shape ex_ll ex_gdef [nat0] [] ex_seq
  = Ok ([gl 6 [97; 98; 99]; gl 107 []; gl 8 []; gl 2 [100]], []).
Proof. vm_compute. reflexivity. Qed.

(* text_conserved and length_bound are not vacuous on it *)
Example ex_runes : Permutation (runes [gl 6 [97; 98; 99]; gl 107 []; gl 8 []; gl 2 [100]]) (runes ex_seq).
Proof. vm_compute. apply Permutation_refl. Qed.
Example ex_K : ll_K ex_ll = 3%nat.
Proof. vm_compute. reflexivity. Qed.

(* a simple list for the stage-1 theorem *)
Definition ex_simple : list lookup :=
  [ mkLookup 0 nat0 [Gsub1_2 [(1, nat0); (2, nat1)] [3; 4]; Gsub3_1 [(5, nat0)] [[]]];
    mkLookup 0 nat0 [Gpos2_1 [((3, 4), (Some (mkVR 10 0 (-20) 0 0 0 0 0), None))];
                     Gpos4_1 [(10, nat0)] [(3, nat0)] [(7, (1, 1)%Z)] [[(5, 5)%Z]]] ].
Example ex_hyp_simple : simple ex_simple = true /\ reader_shape ex_simple = true /\ implemented ex_simple = true.
Proof. vm_compute. auto. Qed.

(* the stack invariant is inhabited by a non-trivial stack *)
Example ex_stack_ok :
  stack_ok 10 3 [mkFrame [1; 2]%nat [] 3; mkFrame [0; 2; 4]%nat [(nat0, nat1)] 6; mkFrame [0]%nat [] 10].
Proof. cbn. unfold frame_ok. cbn. repeat split; repeat constructor. Qed.

(* ---- the hypotheses are needed ---- *)

(* outside reader_shape (coverage index beyond the substitute array) the engine panics *)
Example no_panic_needs_reader_shape_refuted :
  exists ll s, reader_shape ll = false /\ implemented ll = true /\ M_shape ll None [nat0] [] s = Panic.
Proof.
  exists [mkLookup 0 nat0 [Gsub1_2 [(1, 5%nat)] [3]]], [gl 1 []]. vm_compute. auto.
Qed.

(* unimplemented positioning data (vertical advance) panics: panic("not implemented") *)
Example no_panic_needs_implemented_refuted :
  exists ll s, reader_shape ll = true /\ implemented ll = false /\ M_shape ll None [nat0] [] s = Panic.
Proof.
  exists [mkLookup 0 nat0 [Gpos1_1 [1] (Some (mkVR 0 0 0 7 0 0 0 0))]], [gl 1 []]. vm_compute. auto.
Qed.

(* the action budget: 70 nested actions, 63 are run (gid 1 + 63), and the
   stack is empty afterwards *)
Definition ex_budget_ll : list lookup :=
  [ mkLookup 0 nat0 [SeqCtx1 [(1, nat0); (2, nat1)] [[([], repeat (nat0, nat1) 70)]; [([], [(nat0, nat1)])]]];
    mkLookup 0 nat0 [Gsub1_1 (map N.of_nat (seq 0 100)) 1] ].
Example ex_budget : M_shape ex_budget_ll None [nat0] [] [gl 1 [97]] = Ok ([gl 64 [97]], []).
Proof. vm_compute. reflexivity. Qed.

(* history independence needs the empty stack: on the stack the UNREPAIRED
   engine left behind after that call (7 unconsumed actions) the next call
   gives gid 10 instead of 3 - the defect 5.A-4 in the model *)
Example stale_stack_changes_result :
  exists k, M_shape ex_budget_ll None [nat0] k [gl 2 [97]] = Ok ([gl 10 [97]], [])
         /\ M_shape ex_budget_ll None [nat0] [] [gl 2 [97]] = Ok ([gl 3 [97]], []).
Proof. exists [mkFrame [nat0] (repeat (nat0, nat1) 7) nat1]. vm_compute. auto. Qed.
