(* C07/Examples.v — non-vacuity: concrete runs of M_shape. *)
From Coq Require Import List NArith ZArith Bool Arith.
From Common Require Import Outcome.
From Gen Require Import Consts C07.
From C07 Require Import Model.
Import ListNotations.
Local Open Scope N_scope.

Definition gl (g : N) (t : list N) : glyph := mkG g t 0 0 0.

(* a ligature 1 2 -> 4 carries the text of both components *)
Example ex_ligature :
  M_shape [mkLookup 0 0%nat [Gsub4_1 [(1, 0%nat)] [[([2], 4)]]]] None [0%nat] []
          [gl 1 [97]; gl 2 [98]; gl 3 [99]]
  = Ok ([gl 4 [97; 98]; gl 3 [99]], []).
Proof. vm_compute. reflexivity. Qed.
