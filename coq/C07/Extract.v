From Coq Require Import Extraction ExtrOcamlBasic.
From Common Require Import Conv Outcome.
From Gen Require Import Consts C07.
From C07 Require Import Model Shape.
Extraction "c07_model.ml" conv_anchor run_history keepf reader_shape implemented simple.
