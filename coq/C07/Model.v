(* C07/Model.v — M_shape: executable mirror of the lookup-application engine
   of opentype/gtab (layout.go, filter.go and every Subtable.apply in gsub.go,
   nested.go, gpos.go, gpos4.go, gpos5.go, gpos6.go), as repaired by
   fixes/C07-*.diff.

   Conventions
   * glyph ids, runes, flags, classes are N; positions and lengths are nat;
     offsets/advances (funit.Int16) are Z, wrapped to int16 where Go wraps.
   * Go maps (coverage.Table, coverage.Set, classdef.Table, Gpos2_1) are
     association lists searched front to back (the harness emits each key once).
   * every slice index the Go code does not guard is an explicit [Panic].
   * ctx.stack is a list of frames with the TOP OF THE STACK AT THE HEAD
     (Go appends at the end; k = len-1 is the head here, k = 0 the last).
   * ctx.scratch (reuse of the InputPos backing array) is abstracted away: the
     code only ever reads scratch[:0].
   Definitions only; proofs are in Proofs*.v. *)
From Coq Require Import List NArith ZArith Bool Arith.
From Common Require Import Outcome.
From Gen Require Import Consts C07.
Import ListNotations.

(* ------------------------------------------------------------------ *)
(* Glyphs                                                              *)

Record glyph : Type := mkG {
  g_gid : N;            (* glyph.ID, uint16 *)
  g_text : list N;      (* []rune *)
  g_xoff : Z;           (* funit.Int16 *)
  g_yoff : Z;
  g_adv : Z
}.

Definition wrap_u16 (x : N) : N := N.modulo x 65536.
Definition wrap_i16 (z : Z) : Z := (Z.modulo (z + 32768) 65536 - 32768)%Z.

Definition set_gid (g : glyph) (x : N) : glyph :=
  mkG x (g_text g) (g_xoff g) (g_yoff g) (g_adv g).

(* replace position [a] of [s]; None when out of range (Go: index panic) *)
Fixpoint upd {A} (s : list A) (a : nat) (x : A) : option (list A) :=
  match s, a with
  | [], _ => None
  | _ :: t, O => Some (x :: t)
  | h :: t, S a' => match upd t a' x with Some t' => Some (h :: t') | None => None end
  end.

Definition oget {A} (s : list A) (i : nat) : outcome A :=
  match nth_error s i with Some x => Ok x | None => Panic end.

Definition oupd {A} (s : list A) (i : nat) (x : A) : outcome (list A) :=
  match upd s i x with Some s' => Ok s' | None => Panic end.

(* ------------------------------------------------------------------ *)
(* Maps                                                                *)

Definition covtab := list (N * nat).       (* coverage.Table : gid -> index *)
Definition covset := list N.               (* coverage.Set   : gid -> true  *)
Definition classdef := list (N * N).       (* classdef.Table : gid -> class, default 0 *)

Fixpoint cov_find (c : covtab) (g : N) : option nat :=
  match c with
  | [] => None
  | (k, v) :: t => if N.eqb k g then Some v else cov_find t g
  end.

Fixpoint set_mem (c : covset) (g : N) : bool :=
  match c with
  | [] => false
  | k :: t => if N.eqb k g then true else set_mem t g
  end.

Fixpoint class_of (c : classdef) (g : N) : N :=
  match c with
  | [] => 0%N
  | (k, v) :: t => if N.eqb k g then v else class_of t g
  end.

(* ------------------------------------------------------------------ *)
(* Tables                                                              *)

(* SeqLookup: (SequenceIndex, LookupListIndex) *)
Definition action := (nat * nat)%type.

(* GposValueRecord; None = nil pointer *)
Record valrec : Type := mkVR {
  vr_xpl : Z; vr_ypl : Z; vr_xadv : Z; vr_yadv : Z;
  vr_d1 : N; vr_d2 : N; vr_d3 : N; vr_d4 : N   (* the four device offsets *)
}.

Definition seqrule := (list N * list action)%type.           (* Input (gids or classes), Actions *)
Definition chainrule := (list N * list N * list N * list action)%type. (* Backtrack, Input, Lookahead, Actions *)
Definition ligature := (list N * N)%type.                    (* In, Out *)
Definition pairadj := (option valrec * option valrec)%type.  (* First, Second *)
Definition anchor := (Z * Z)%type.
Definition markrec := (N * anchor)%type.                     (* Class, anchor *)

Inductive subtable : Type :=
| Gsub1_1 (cov : covset) (delta : N)
| Gsub1_2 (cov : covtab) (subst : list N)
| Gsub2_1 (cov : covtab) (repl : list (list N))
| Gsub3_1 (cov : covtab) (alts : list (list N))
| Gsub4_1 (cov : covtab) (ligs : list (list ligature))
| Gsub8_1 (input : covtab) (back look : list covtab) (subst : list N)
| SeqCtx1 (cov : covtab) (rules : list (list seqrule))
| SeqCtx2 (cov : covtab) (cls : classdef) (rules : list (list seqrule))
| SeqCtx3 (input : list covset) (acts : list action)
| Chain1 (cov : covtab) (rules : list (list chainrule))
| Chain2 (cov : covtab) (bcls icls lcls : classdef) (rules : list (list chainrule))
| Chain3 (back input look : list covset) (acts : list action)
| Gpos1_1 (cov : covset) (adj : option valrec)
| Gpos1_2 (cov : covtab) (adjs : list (option valrec))
| Gpos2_1 (pairs : list ((N * N) * pairadj))
| Gpos2_2 (cov : covset) (c1 c2 : classdef) (adj : list (list pairadj))
| Gpos3_1 (cov : covtab) (recs : list (anchor * anchor))      (* Entry, Exit *)
| Gpos4_1 (markcov basecov : covtab) (marks : list markrec) (bases : list (list anchor))
| Gpos5_1
| Gpos6_1 (m1cov m2cov : covtab) (m1 : list markrec) (m2 : list (list anchor)).

Record lookup : Type := mkLookup {
  lk_flags : N;           (* LookupFlags *)
  lk_mfs : nat;           (* MarkFilteringSet *)
  lk_subs : list subtable
}.

(* gdef.Table; the pointer and the GlyphClass map may be nil *)
Record gdef : Type := mkGdef {
  gd_class : option classdef;
  gd_attach : classdef;           (* nil map = empty map for reads *)
  gd_sets : list covset           (* nil slice = empty slice (length 0) *)
}.

(* ------------------------------------------------------------------ *)
(* filter.go: newKeepFunc / keepFunc.Keep (repaired: guarded set index) *)

Definition has_flag (flags bit : N) : bool := negb (N.eqb (N.land flags bit) 0).

Definition keep_gdef (gd : gdef) (cls : classdef) (flags : N) (mfs : nat) (g : N) : bool :=
  let c := class_of cls g in
  if N.eqb c gdef_GlyphClassBase then negb (has_flag flags gtab_IgnoreBaseGlyphs)
  else if N.eqb c gdef_GlyphClassLigature then negb (has_flag flags gtab_IgnoreLigatures)
  else if N.eqb c gdef_GlyphClassMark then
    if has_flag flags gtab_IgnoreMarks then false
    else if has_flag flags gtab_UseMarkFilteringSet then
      match nth_error (gd_sets gd) mfs with
      | None => false                       (* set >= len(MarkGlyphSets) *)
      | Some s => set_mem s g
      end
    else
      let m := N.land flags gtab_MarkAttachTypeMask in
      if N.eqb m 0 then true
      else N.eqb (class_of (gd_attach gd) g) (N.shiftr m gtab_markAttachShift)
  else true.

Definition keepf (gd : option gdef) (lk : lookup) (g : N) : bool :=
  match gd with
  | None => true
  | Some d =>
    match gd_class d with
    | None => true
    | Some cls => if N.eqb (lk_flags lk) 0 then true else keep_gdef d cls (lk_flags lk) (lk_mfs lk) g
    end
  end.

(* ------------------------------------------------------------------ *)
(* The stack of nested frames                                          *)

Record frame : Type := mkFrame {
  f_pos : list nat;       (* InputPos *)
  f_acts : list action;   (* Actions *)
  f_end : nat             (* EndPos *)
}.

Definition stack := list frame.     (* head = top = ctx.stack[len-1] *)

(* fixStackInsert(pos, num): the glyph at [pos] became [num] glyphs *)
Fixpoint last_index (l : list nat) (x : nat) (i : nat) (acc : option nat) : option nat :=
  match l with
  | [] => acc
  | y :: t => last_index t x (S i) (if Nat.eqb y x then Some i else acc)
  end.

Definition fix_insert_frame (pos num : nat) (f : frame) : frame :=
  if f_end f <=? pos then f else
  let shifted := map (fun p => if pos <? p then p + num - 1 else p) (f_pos f) in
  let ipos :=
    match last_index (f_pos f) pos 0 None with
    | None => shifted
    | Some i => firstn (S i) shifted ++ map (fun j => pos + j) (seq 1 (num - 1)) ++ skipn (S i) shifted
    end in
  mkFrame ipos (f_acts f) (f_end f + num - 1).

Definition fix_insert (pos num : nat) (st : stack) : stack := map (fix_insert_frame pos num) st.

(* fixStackMerge(pos): the glyphs at positions [pos] (ascending) were merged
   into one glyph at [hd pos].  [merge_loop] is the two-pointer loop; [first]
   says i = 0; it returns the new input list (before the final
   insert/delete of pos[0]), delta and needsMergePos.  The tail loop that
   counts merged glyphs after the last input position is the repair
   fixes/C07-merge-endpos.diff. *)
Definition cons3 (x : nat) (r : list nat * nat * bool) : list nat * nat * bool :=
  match r with (l, d, n) => (x :: l, d, n) end.

Fixpoint merge_loop (ps : list nat) (first : bool) : list nat -> nat -> bool -> list nat * nat * bool :=
  fix inner (ins : list nat) (delta : nat) (needs : bool) {struct ins} : list nat * nat * bool :=
    match ps with
    | [] => (map (fun x => x - delta) ins, delta, needs)
    | p :: ps' =>
      match ins with
      | [] => ([], delta + (if first then length ps' else length ps), needs)
      | x :: ins' =>
        if p <? x then merge_loop ps' false ins (if first then delta else S delta) needs
        else if x <? p then cons3 (x - delta) (inner ins' delta needs)
        else
          let needs' := if first then true else match ps' with [] => true | _ => needs end in
          if first then cons3 x (merge_loop ps' false ins' delta needs')
          else merge_loop ps' false ins' (S delta) needs'
      end
    end.

(* slices.BinarySearch on an ascending list: first index whose element is >= t *)
Fixpoint lower_bound (l : list nat) (t : nat) : nat * bool :=
  match l with
  | [] => (0, false)
  | x :: r => if t <=? x then (0, Nat.eqb x t)
              else let (i, f) := lower_bound r t in (S i, f)
  end.

Definition fix_merge_frame (pos : list nat) (f : frame) : frame :=
  match pos with
  | [] => f                                    (* never called with an empty list *)
  | p0 :: _ =>
    if f_end f <=? p0 then f else
    match merge_loop pos true (f_pos f) 0 false with
    | (ins, delta, needs) =>
      let (idx, has) := lower_bound ins p0 in
      let ins' :=
        if needs && negb has then firstn idx ins ++ p0 :: skipn idx ins
        else if has && negb needs then firstn idx ins ++ skipn (S idx) ins
        else ins in
      mkFrame ins' (f_acts f) (f_end f - delta)
    end
  end.

Definition fix_merge (pos : list nat) (st : stack) : stack := map (fix_merge_frame pos) st.

(* ------------------------------------------------------------------ *)
(* Scanning helpers shared by the matching loops                       *)

(* for p < lim && !keep(seq[p]) { p++ }   with n = lim - p *)
Fixpoint skip_fwd (keep : N -> bool) (s : list glyph) (p n : nat) : outcome nat :=
  match n with
  | O => Ok p
  | S n' =>
    g <- oget s p ;;
    if keep (g_gid g) then Ok p else skip_fwd keep s (S p) n'
  end.

(* same, also collecting the skipped positions (Gsub4_1) *)
Fixpoint skip_fwd_collect (keep : N -> bool) (s : list glyph) (p n : nat) (acc : list nat)
  : outcome (nat * list nat) :=
  match n with
  | O => Ok (p, acc)
  | S n' =>
    g <- oget s p ;;
    if keep (g_gid g) then Ok (p, acc) else skip_fwd_collect keep s (S p) n' (acc ++ [p])
  end.

(* backwards: the Go variable p is q-1 (so q = 0 stands for p = -1).
   for p-gn >= 0 && !keep(seq[p]) { p-- } *)
Fixpoint skip_bwd (keep : N -> bool) (s : list glyph) (q gn : nat) : outcome nat :=
  match q with
  | O => Ok O
  | S p =>
    if p <? gn then Ok q else
    g <- oget s p ;;
    if keep (g_gid g) then Ok q else skip_bwd keep s p gn
  end.

(* Input / lookahead loop of SeqContext1/2 and ChainedSeqContext1/2:
     for _, it := range items { gn--; p++; skip; if p+gn >= lim || !test { fail }; matchPos += p }
   returns the last p and the matched positions (in order) *)
Fixpoint match_fwd {X} (test : N -> X -> bool) (keep : N -> bool) (s : list glyph) (lim p : nat)
         (items : list X) (acc : list nat) : outcome (option (nat * list nat)) :=
  match items with
  | [] => Ok (Some (p, acc))
  | it :: rest =>
    let gn := length rest in
    p2 <- skip_fwd keep s (S p) (lim - gn - S p) ;;
    if lim <=? p2 + gn then Ok None else
    g <- oget s p2 ;;
    if test (g_gid g) it then match_fwd test keep s lim p2 rest (acc ++ [p2]) else Ok None
  end.

(* Backtrack loop: for _, it := range items { gn--; p--; skip; if p-gn < 0 || !test { fail } } *)
Fixpoint match_bwd {X} (test : N -> X -> bool) (keep : N -> bool) (s : list glyph) (q : nat)
         (items : list X) : outcome bool :=
  match items with
  | [] => Ok true
  | it :: rest =>
    let gn := length rest in
    match q with
    | O => Ok false
    | S q1 =>
      q2 <- skip_bwd keep s q1 gn ;;
      match q2 with
      | O => Ok false
      | S p =>
        if p <? gn then Ok false else
        g <- oget s p ;;
        if test (g_gid g) it then match_bwd test keep s q2 rest else Ok false
      end
    end
  end.

(* ChainedSeqContext3 input loop (repaired): the first coverage table is
   tested on seq[a] itself, the others like the input loop of format 1 *)
Definition chain3_input (keep : N -> bool) (s : list glyph) (a b : nat) (gid : N) (input : list covset)
  : outcome (option (nat * list nat)) :=
  match input with
  | [] => Ok (Some (a, []))
  | c0 :: rest =>
    if b <=? a + length rest then Ok None
    else if set_mem c0 gid then match_fwd (fun x c => set_mem c x) keep s b a rest [a]
    else Ok None
  end.

(* ------------------------------------------------------------------ *)
(* Subtable.apply.  State = (sequence, stack); result None = -1.       *)

Definition st := (list glyph * stack)%type.
Definition ares := outcome (option nat * st).

Definition nomatch (s : list glyph) (k : stack) : ares := Ok (None, (s, k)).

(* push a frame: ctx.stack = append(ctx.stack, &nested{...}) *)
Definition push_frame (s : list glyph) (k : stack) (ipos : list nat) (acts : list action) (e : nat) : ares :=
  Ok (Some e, (s, mkFrame ipos acts e :: k)).

(* rule loop of SeqContext1 / SeqContext2 *)
Fixpoint seq_rules (test : N -> N -> bool) (keep : N -> bool) (s : list glyph) (k : stack)
         (a b : nat) (rules : list seqrule) : ares :=
  match rules with
  | [] => nomatch s k
  | (input, acts) :: rest =>
    m <- match_fwd test keep s b a input [a] ;;
    match m with
    | None => seq_rules test keep s k a b rest
    | Some (p, mpos) =>
      e <- skip_fwd keep s (S p) (b - S p) ;;
      push_frame s k mpos acts e
    end
  end.

(* rule loop of ChainedSeqContext1 / ChainedSeqContext2 *)
Fixpoint chain_rules (tb ti tl : N -> N -> bool) (keep : N -> bool) (s : list glyph) (k : stack)
         (a b : nat) (rules : list chainrule) : ares :=
  match rules with
  | [] => nomatch s k
  | (back, input, look, acts) :: rest =>
    okb <- match_bwd tb keep s (S a) back ;;
    if negb okb then chain_rules tb ti tl keep s k a b rest else
    m <- match_fwd ti keep s b a input [a] ;;
    match m with
    | None => chain_rules tb ti tl keep s k a b rest
    | Some (p, mpos) =>
      ml <- match_fwd tl keep s (length s) p look [] ;;
      match ml with
      | None => chain_rules tb ti tl keep s k a b rest
      | Some _ =>
        e <- skip_fwd keep s (S p) (b - S p) ;;
        push_frame s k mpos acts e
      end
    end
  end.

(* ligature loop of Gsub4_1 (repaired: skipPos no longer aliases matchPos) *)
Fixpoint lig_match (keep : N -> bool) (s : list glyph) (b p : nat) (comps : list N)
         (mpos spos : list nat) (text : list N) : outcome (option (nat * list nat * list nat * list N)) :=
  match comps with
  | [] => Ok (Some (p, mpos, spos, text))
  | c :: rest =>
    r <- skip_fwd_collect keep s p (b - p) spos ;;
    let (p2, spos2) := r in
    if b <=? p2 then Ok None else
    g <- oget s p2 ;;
    if N.eqb (g_gid g) c then lig_match keep s b (S p2) rest (mpos ++ [p2]) spos2 (text ++ g_text g)
    else Ok None
  end.

Fixpoint gather {A} (s : list A) (idx : list nat) : outcome (list A) :=
  match idx with
  | [] => Ok []
  | i :: t => x <- oget s i ;; r <- gather s t ;; Ok (x :: r)
  end.

Fixpoint lig_loop (keep : N -> bool) (s : list glyph) (k : stack) (a b : nat) (g0 : glyph)
         (ligs : list ligature) : ares :=
  match ligs with
  | [] => nomatch s k
  | (comps, out) :: rest =>
    m <- lig_match keep s b (S a) comps [a] [] (g_text g0) ;;
    match m with
    | None => lig_loop keep s k a b g0 rest
    | Some (p, mpos, spos, text) =>
      skipped <- gather s spos ;;
      (* seq[a] = {GID: out, Text: text}; skipped glyphs follow; slices.Delete of
         the rest of the matched range [a+1+|skip|, a+|In|+1+|skip|) = [.., p) *)
      if length s <? p then Panic else
      let s' := firstn a s ++ mkG out text 0 0 0 :: skipped ++ skipn p s in
      Ok (Some (a + 1 + length spos), (s', fix_merge mpos k))
    end
  end.

(* Gsub2_1: seq[a].GID = repl[0]; the glyphs repl[1:] (no text, no offsets) are inserted after position a *)
Definition multi_subst (s : list glyph) (a : nat) (g : glyph) (x : N) (rest : list N) : list glyph :=
  firstn a s ++ set_gid g x :: map (fun y => mkG y [] 0 0 0) rest ++ skipn (S a) s.

(* GposValueRecord.Apply *)
Definition vr_apply (v : option valrec) (g : glyph) : outcome glyph :=
  match v with
  | None => Ok g
  | Some r =>
    if negb (Z.eqb (vr_yadv r) 0) || negb (N.eqb (vr_d1 r) 0) || negb (N.eqb (vr_d2 r) 0)
       || negb (N.eqb (vr_d3 r) 0) || negb (N.eqb (vr_d4 r) 0)
    then Panic       (* panic("not implemented") *)
    else Ok (mkG (g_gid g) (g_text g) (wrap_i16 (g_xoff g + vr_xpl r)) (wrap_i16 (g_yoff g + vr_ypl r))
                 (wrap_i16 (g_adv g + vr_xadv r)))
  end.

Definition vr_apply_at (v : option valrec) (s : list glyph) (i : nat) : outcome (list glyph) :=
  g <- oget s i ;; g' <- vr_apply v g ;; oupd s i g'.

Fixpoint pair_find (l : list ((N * N) * pairadj)) (x y : N) : option pairadj :=
  match l with
  | [] => None
  | ((k1, k2), v) :: t => if N.eqb k1 x && N.eqb k2 y then Some v else pair_find t x y
  end.

Definition pair_apply (pa : pairadj) (s : list glyph) (k : stack) (a p : nat) : ares :=
  let (first, second) := pa in
  s1 <- vr_apply_at first s a ;;
  match second with
  | None => Ok (Some p, (s1, k))
  | Some _ => s2 <- vr_apply_at second s1 p ;; Ok (Some (S p), (s2, k))
  end.

(* for i := p; i < a; i++ { dx -= seq[i].Advance }   (int16 arithmetic) *)
Fixpoint sub_advances (s : list glyph) (p n : nat) (dx : Z) : outcome Z :=
  match n with
  | O => Ok dx
  | S n' => g <- oget s p ;; sub_advances s (S p) n' (wrap_i16 (dx - g_adv g))
  end.

(* for p >= 0 { idx, ok = cov[seq[p]]; if ok break; p-- }   with q = p+1 *)
Fixpoint find_back (cov : covtab) (s : list glyph) (q : nat) : outcome (option (nat * nat)) :=
  match q with
  | O => Ok None
  | S p =>
    g <- oget s p ;;
    match cov_find cov (g_gid g) with
    | Some i => Ok (Some (p, i))
    | None => find_back cov s p
    end
  end.

(* Gpos4_1 / Gpos6_1 (repaired: mark class guarded); [add] = true for 4.1 ("+="), false for 6.1 ("=") *)
Definition mark_attach (add : bool) (mcov bcov : covtab) (marks : list markrec) (bases : list (list anchor))
           (s : list glyph) (k : stack) (a : nat) : ares :=
  g <- oget s a ;;
  match cov_find mcov (g_gid g) with
  | None => nomatch s k
  | Some mi =>
    mr <- oget marks mi ;;
    let '(mcls, (mx, my)) := mr in
    match a with
    | O => nomatch s k
    | S _ =>
      fb <- find_back bcov s a ;;
      match fb with
      | None => nomatch s k
      | Some (p, bi) =>
        row <- oget bases bi ;;
        match nth_error row (N.to_nat mcls) with
        | None => nomatch s k
        | Some (bx, by_) =>
          if Z.eqb bx 0 && Z.eqb by_ 0 then nomatch s k else
          dx <- sub_advances s p (a - p) (wrap_i16 (bx - mx)) ;;
          let dy := wrap_i16 (by_ - my) in
          let g' := if add
                    then mkG (g_gid g) (g_text g) (wrap_i16 (g_xoff g + dx)) (wrap_i16 (g_yoff g + dy)) (g_adv g)
                    else mkG (g_gid g) (g_text g) dx dy (g_adv g) in
          s' <- oupd s a g' ;;
          Ok (Some (S a), (s', k))
        end
      end
    end
  end.

(* Gpos3_1: if a > 0 { prevGlyph := seq[a-1]; ... seq[a].YOffset = prevGlyph.YOffset + prevRec.Exit.Y - rec.Entry.Y } *)
Definition gpos3_prev (cov : covtab) (recs : list (anchor * anchor)) (s : list glyph) (a : nat) (g : glyph) (ey : Z)
  : outcome glyph :=
  match a with
  | O => Ok g
  | S a1 =>
    pg <- oget s a1 ;;
    match cov_find cov (g_gid pg) with
    | None => Ok g
    | Some pi =>
      prec <- oget recs pi ;;
      let '(_, (_, pxy)) := prec in
      Ok (mkG (g_gid g) (g_text g) (g_xoff g) (wrap_i16 (wrap_i16 (g_yoff pg + pxy) - ey)) (g_adv g))
    end
  end.

(* Gpos3_1: if a < b-1 { nextGlyph := seq[a+1]; ... seq[a].Advance = seq[a].XOffset + rec.Exit.X - nextGlyph.XOffset - nextRec.Entry.X } *)
Definition gpos3_next (cov : covtab) (recs : list (anchor * anchor)) (s : list glyph) (a b : nat) (g1 : glyph) (xx : Z)
  : outcome glyph :=
  if S a <? b then
    ng <- oget s (S a) ;;
    match cov_find cov (g_gid ng) with
    | None => Ok g1
    | Some ni =>
      nrec <- oget recs ni ;;
      let '((nex, _), _) := nrec in
      Ok (mkG (g_gid g1) (g_text g1) (g_xoff g1) (g_yoff g1)
              (wrap_i16 (wrap_i16 (wrap_i16 (g_xoff g1 + xx) - g_xoff ng) - nex)))
    end
  else Ok g1.

Definition eqN (x y : N) : bool := N.eqb x y.

Definition apply_sub (keep : N -> bool) (sub : subtable) (s : list glyph) (k : stack) (a b : nat) : ares :=
  g <- oget s a ;;
  let gid := g_gid g in
  match sub with
  | Gsub1_1 cov delta =>
    if set_mem cov gid then
      s' <- oupd s a (set_gid g (wrap_u16 (gid + delta))) ;; Ok (Some (S a), (s', k))
    else nomatch s k
  | Gsub1_2 cov subst =>
    match cov_find cov gid with
    | None => nomatch s k
    | Some i => x <- oget subst i ;; s' <- oupd s a (set_gid g x) ;; Ok (Some (S a), (s', k))
    end
  | Gsub2_1 cov repl =>
    match cov_find cov gid with
    | None => nomatch s k
    | Some i =>
      r <- oget repl i ;;
      match r with
      | [] => nomatch s k                               (* repaired: empty replacement *)
      | x :: rest =>
        let n := length r in
        Ok (Some (a + n), (multi_subst s a g x rest, match rest with [] => k | _ => fix_insert a n k end))
      end
    end
  | Gsub3_1 cov alts =>
    match cov_find cov gid with
    | None => nomatch s k
    | Some i =>
      r <- oget alts i ;;
      match r with
      | [] => nomatch s k
      | x :: _ => s' <- oupd s a (set_gid g x) ;; Ok (Some (S a), (s', k))
      end
    end
  | Gsub4_1 cov ligs =>
    match cov_find cov gid with
    | None => nomatch s k
    | Some i => set <- oget ligs i ;; lig_loop keep s k a b g set
    end
  | Gsub8_1 input back look subst =>
    match cov_find input gid with
    | None => nomatch s k
    | Some i =>
      let test := fun (x : N) (c : covtab) => match cov_find c x with Some _ => true | None => false end in
      okb <- match_bwd test keep s (S a) back ;;
      if negb okb then nomatch s k else
      ml <- match_fwd test keep s (length s) a look [] ;;
      match ml with
      | None => nomatch s k
      | Some _ => x <- oget subst i ;; s' <- oupd s a (set_gid g x) ;; Ok (Some (S a), (s', k))
      end
    end
  | SeqCtx1 cov rules =>
    match cov_find cov gid with
    | None => nomatch s k
    | Some i => rs <- oget rules i ;; seq_rules eqN keep s k a b rs
    end
  | SeqCtx2 cov cls rules =>
    match cov_find cov gid with
    | None => nomatch s k
    | Some _ =>
      match nth_error rules (N.to_nat (class_of cls gid)) with
      | None => nomatch s k                             (* repaired: class >= len(Rules) *)
      | Some rs => seq_rules (fun x c => N.eqb (class_of cls x) c) keep s k a b rs
      end
    end
  | SeqCtx3 input acts =>
    match input with
    | [] => Panic                                       (* l.Input[0] *)
    | c0 :: rest =>
      if negb (set_mem c0 gid) then nomatch s k else
      m <- match_fwd (fun x c => set_mem c x) keep s b a rest [a] ;;
      match m with
      | None => nomatch s k
      | Some (p, mpos) => e <- skip_fwd keep s (S p) (b - S p) ;; push_frame s k mpos acts e
      end
    end
  | Chain1 cov rules =>
    match cov_find cov gid with
    | None => nomatch s k
    | Some i => rs <- oget rules i ;; chain_rules eqN eqN eqN keep s k a b rs
    end
  | Chain2 cov bcls icls lcls rules =>
    match cov_find cov gid with
    | None => nomatch s k
    | Some _ =>
      match nth_error rules (N.to_nat (class_of icls gid)) with
      | None => nomatch s k
      | Some rs =>
        chain_rules (fun x c => N.eqb (class_of bcls x) c) (fun x c => N.eqb (class_of icls x) c)
                    (fun x c => N.eqb (class_of lcls x) c) keep s k a b rs
      end
    end
  | Chain3 back input look acts =>
    (* repaired (fixes/C07-chained3-duplicate-pos.diff, fixes/C06-chained3-ignored-glyphs.diff):
       the loops have the shape of ChainedSeqContext1 *)
    okb <- match_bwd (fun x c => set_mem c x) keep s (S a) back ;;
    if negb okb then nomatch s k else
    m <- chain3_input keep s a b gid input ;;
    match m with
    | None => nomatch s k
    | Some (p, mpos) =>
      ml <- match_fwd (fun x c => set_mem c x) keep s (length s) p look [] ;;
      match ml with
      | None => nomatch s k
      | Some _ => e <- skip_fwd keep s (S p) (b - S p) ;; push_frame s k mpos acts e
      end
    end
  | Gpos1_1 cov adj =>
    if set_mem cov gid then s' <- vr_apply_at adj s a ;; Ok (Some (S a), (s', k)) else nomatch s k
  | Gpos1_2 cov adjs =>
    match cov_find cov gid with
    | None => nomatch s k
    | Some i => v <- oget adjs i ;; s' <- vr_apply_at v s a ;; Ok (Some (S a), (s', k))
    end
  | Gpos2_1 pairs =>
    p <- skip_fwd keep s (S a) (b - S a) ;;
    if b <=? p then nomatch s k else
    g2 <- oget s p ;;
    match pair_find pairs gid (g_gid g2) with
    | None => nomatch s k
    | Some pa => pair_apply pa s k a p
    end
  | Gpos2_2 cov c1 c2 adj =>
    if negb (set_mem cov gid) then nomatch s k else
    p <- skip_fwd keep s (S a) (b - S a) ;;
    if b <=? p then nomatch s k else
    g2 <- oget s p ;;
    match nth_error adj (N.to_nat (class_of c1 gid)) with
    | None => nomatch s k
    | Some row =>
      match nth_error row (N.to_nat (class_of c2 (g_gid g2))) with
      | None => nomatch s k
      | Some pa => pair_apply pa s k a p
      end
    end
  | Gpos3_1 cov recs =>
    match cov_find cov gid with
    | None => nomatch s k
    | Some i =>
      rec <- oget recs i ;;
      let '((_, ey), (xx, _)) := rec in
      g1 <- gpos3_prev cov recs s a g ey ;;
      g2 <- gpos3_next cov recs s a b g1 xx ;;
      s' <- oupd s a g2 ;; Ok (Some (S a), (s', k))
    end
  | Gpos4_1 mcov bcov marks bases => mark_attach true mcov bcov marks bases s k a
  | Gpos5_1 => nomatch s k
  | Gpos6_1 m1cov m2cov m1 m2 => mark_attach false m1cov m2cov m1 m2 s k a
  end.

(* layout.go applyAt: the first subtable that matches *)
Fixpoint apply_at (keep : N -> bool) (subs : list subtable) (s : list glyph) (k : stack) (a b : nat) : ares :=
  match subs with
  | [] => nomatch s k
  | sub :: rest =>
    r <- apply_sub keep sub s k a b ;;
    match r with
    | (Some next, st') => Ok (Some next, st')
    | (None, (s', k')) => apply_at keep rest s' k' a b
    end
  end.

(* ------------------------------------------------------------------ *)
(* layout.go applyAtRecursively (repaired: the action is consumed before the
   sequence-index test; the stack is emptied when the loop ends)         *)

Definition budget : nat := gtab_actionBudget.

(* the loop  for len(ctx.stack) > 0 && numActions < budget  *)
Fixpoint nested_loop (ll : list lookup) (gd : option gdef) (fuel : nat) (num : nat) (next : nat)
         (s : list glyph) (k : stack) : outcome (nat * list glyph * stack) :=
  match k with
  | [] => Ok (next, s, k)
  | fr :: rest =>
    if budget <=? num then Ok (next, s, k) else
    match fuel with
    | O => OutOfFuel
    | S fuel' =>
      match f_acts fr with
      | [] =>
        (* pop; the end position of the outermost frame is the result *)
        let next' := match rest with [] => f_end fr | _ => next end in
        nested_loop ll gd fuel' num next' s rest
      | (seqidx, lidx) :: acts' =>
        let fr' := mkFrame (f_pos fr) acts' (f_end fr) in
        let k1 := fr' :: rest in
        match nth_error (f_pos fr) seqidx with
        | None => nested_loop ll gd fuel' (S num) next s k1
        | Some pos =>
          match nth_error ll lidx with
          | None => nested_loop ll gd fuel' (S num) next s k1
          | Some lk =>
            g <- oget s pos ;;
            if keepf gd lk (g_gid g) then
              r <- apply_at (keepf gd lk) (lk_subs lk) s k1 pos (f_end fr) ;;
              let '(_, (s', k')) := r in
              nested_loop ll gd fuel' (S num) next s' k'
            else nested_loop ll gd fuel' (S num) next s k1
          end
        end
      end
    end
  end.

Definition nested_fuel (k : stack) : nat := 2 * budget + length k.

Definition apply_rec (ll : list lookup) (gd : option gdef) (lk : lookup) (s : list glyph) (k : stack) (pos : nat)
  : outcome (nat * list glyph * stack) :=
  g <- oget s pos ;;
  if negb (keepf gd lk (g_gid g)) then Ok (S pos, s, k) else
  r <- apply_at (keepf gd lk) (lk_subs lk) s k pos (length s) ;;
  match r with
  | (None, (s', k')) => Ok (S pos, s', k')
  | (Some next, (s', k')) =>
    r2 <- nested_loop ll gd (nested_fuel k') 1 next s' k' ;;
    let '(next', s'', _) := r2 in
    Ok (next', s'', [])                                   (* ctx.stack = ctx.stack[:0] *)
  end.

(* the loop  for pos < len(ctx.seq)  of Context.Apply, with the progress guard *)
Fixpoint outer_loop (ll : list lookup) (gd : option gdef) (lk : lookup) (fuel : nat) (pos : nat)
         (s : list glyph) (k : stack) : outcome (list glyph * stack) :=
  if length s <=? pos then Ok (s, k) else
  match fuel with
  | O => OutOfFuel
  | S fuel' =>
    let old_todo := length s - pos in
    r <- apply_rec ll gd lk s k pos ;;
    let '(pos1, s', k') := r in
    (* newTodo >= oldTodo  <->  len' - pos1 >= oldTodo (as integers) *)
    let pos2 := if old_todo + pos1 <=? length s' then length s' - old_todo + 1 else pos1 in
    outer_loop ll gd lk fuel' pos2 s' k'
  end.

(* Context.Apply for one lookup index *)
Definition apply_lookup (ll : list lookup) (gd : option gdef) (s : list glyph) (k : stack) (lidx : nat)
  : outcome (list glyph * stack) :=
  match nth_error ll lidx with
  | None => Ok (s, k)
  | Some lk => outer_loop ll gd lk (length s) 0 s k
  end.

Fixpoint apply_lookups (ll : list lookup) (gd : option gdef) (lookups : list nat) (s : list glyph) (k : stack)
  : outcome (list glyph * stack) :=
  match lookups with
  | [] => Ok (s, k)
  | l :: rest =>
    r <- apply_lookup ll gd s k l ;;
    let (s', k') := r in apply_lookups ll gd rest s' k'
  end.

(* M_shape: one Apply call on a context whose stack is [k] *)
Definition M_shape (ll : list lookup) (gd : option gdef) (lookups : list nat) (k : stack) (s : list glyph)
  : outcome (list glyph * stack) :=
  apply_lookups ll gd lookups s k.

(* A history of Apply calls on one Context: the stack left by one call is the
   stack the next one starts with.  A call that panics leaves the context in
   an unspecified state; the run stops there (observation "panic"). *)
Fixpoint run_history (ll : list lookup) (gd : option gdef) (lookups : list nat) (k : stack)
         (inputs : list (list glyph)) : list (outcome (list glyph * nat)) :=
  match inputs with
  | [] => []
  | s :: rest =>
    match M_shape ll gd lookups k s with
    | Ok (s', k') => Ok (s', length k') :: run_history ll gd lookups k' rest
    | Err => [Err]
    | Panic => [Panic]
    | OutOfFuel => [OutOfFuel]
    end
  end.
