(* C07B/Examples.v — non-vacuity: concrete, non-trivial values satisfy the
   hypotheses of every theorem of Props.v (computed with Go's growth policy),
   and the _refuted witnesses for the stronger readings of the API. *)
From Coq Require Import List NArith ZArith Bool Arith Lia.
From Common Require Import Outcome.
From Gen Require Import Consts C07.
From C07 Require Import Model Shape Proofs_len.
From C07B Require Import Growth Model Util Proofs_sim Proofs_inv Proofs_hist Proofs_lay Proofs_props.
Import ListNotations.
Local Open Scope N_scope.

Definition g (gid t : N) : glyph := mkG gid [t] 0 0 0.
(* what the caller left in the spare capacity *)
Definition sp (i : N) : glyph := mkG (65000 + i) [61440 + i] 3 (-3) 33.

(* lookup 0: "1 2" -> at position 1 apply lookup 1, at position 0 apply lookup 2
   lookup 1: 2 -> 2 6 7        (lengthens)
   lookup 2: 1 2 -> 9          (shortens)
   lookup 3: more nested actions than the budget, an out-of-range sequence index in front *)
Definition ex_ll : list lookup := [
  mkLookup 0 0 [SeqCtx1 [(1, 0%nat)] [[([2], [(1%nat, 1%nat); (0%nat, 2%nat)])]]];
  mkLookup 0 0 [Gsub2_1 [(2, 0%nat)] [[2; 6; 7]]];
  mkLookup 0 0 [Gsub4_1 [(1, 0%nat)] [[([2], 9)]]];
  mkLookup 0 0 [SeqCtx3 [[3]] ((7%nat, 1%nat) :: repeat (0%nat, 4%nat) 70)];
  mkLookup 0 0 [Gsub1_1 [3; 4; 5] 1] ].

Definition lkarr : list nat := [0%nat; 3%nat; 999%nat].    (* the caller's lookup array; the slice is its first two elements *)
Definition st0 : ctx_state := new_ctx ex_ll None 2 3.

Definition in1 := mkAI lkarr (gm_of [g 1 97; g 2 98; sp 0; sp 1; sp 2] 2).   (* spare capacity 3 *)
Definition in2 := mkAI lkarr (gm_of [g 1 97; g 2 98] 2).                     (* no spare capacity *)
Definition in3 := mkAI lkarr (gm_of [g 3 97; g 1 98; g 2 99; sp 0] 3).       (* runs into the action budget *)
Definition hist : list apply_in := [in1; in2; in3; in1].

Definition outs : list (outcome (ctx_state * apply_out)) := run_ctx go_growth st0 hist.

Definition out_of (r : outcome (ctx_state * apply_out)) : option apply_out :=
  match r with Ok (_, o) => Some o | _ => None end.
Definition st_of (r : outcome (ctx_state * apply_out)) : option ctx_state :=
  match r with Ok (s, _) => Some s | _ => None end.

(* hypotheses of ctx_state_invariant *)
Example ex_shape : reader_shape ex_ll = true /\ implemented ex_ll = true.
Proof. split; vm_compute; reflexivity. Qed.

(* every call returns; call 0 lengthens the sequence inside the caller's spare
   capacity and shortens it again (one freed element cleared), call 1 has to
   move it, call 2 moves it too and then ends in the action budget (an
   out-of-range sequence index in front, glyph 3 incremented until the coverage
   no longer holds it) *)
Example ex_all_return : map (fun r => match out_of r with Some o => Some (map g_gid (view (ao_ret o)), ao_shared o, ao_hw o) | None => None end) outs
  = [Some ([9; 6; 7], true, 4%nat); Some ([9; 6; 7], false, 2%nat); Some ([6; 9; 6; 7], false, 3%nat); Some ([9; 6; 7], true, 4%nat)].
Proof. vm_compute. reflexivity. Qed.

(* the caller's array after call 0: positions 0..2 the result, position 3 the
   cleared element, position 4 untouched (high-water mark 4) *)
Example ex_caller_array : match nth_error outs 0 with
  | Some r => match out_of r with Some o => ao_caller o = [mkG 9 [97; 98] 0 0 0; mkG 6 [] 0 0 0; mkG 7 [] 0 0 0; gzero; sp 2] | None => False end
  | None => False end.
Proof. vm_compute. reflexivity. Qed.

(* after call 1 the caller's (full) array keeps only the GID written before slices.Grow moved the sequence *)
Example ex_caller_array_moved : match nth_error outs 1 with
  | Some r => match out_of r with Some o => ao_caller o = [g 1 97; g 2 98] /\ gm_cap (ao_ret o) = 4%nat | None => False end
  | None => False end.
Proof. vm_compute. split; reflexivity. Qed.

(* the surviving state after call 2 (budget exhausted): no live frame; behind
   len(ctx.stack) the dropped frame with its 8 unconsumed actions; the scratch
   buffer is gone with it (it was claimed by that frame and never released) *)
Example ex_state_after_budget : match nth_error outs 2 with
  | Some r => match st_of r with
              | Some s => cs_stack s = [] /\ b_caps (cs_bufs s) = [] /\ b_dead (cs_bufs s) = [Some (1%nat, 8%nat, 1%nat)]
                          /\ b_scratch (cs_bufs s) = is_nil
                          /\ cs_lookup s = Some 3%nat /\ cs_seq s = Some (2%nat, 4%nat, 8%nat)
              | None => False end
  | None => False end.
Proof. vm_compute. repeat split; reflexivity. Qed.

(* reach: the state after three calls (budget path included) is one the
   theorems about "every state any history leads to" speak about *)
Definition st3 : ctx_state := match nth_error (run_ctx go_growth st0 hist) 2 with Some (Ok (st, _)) => st | _ => st0 end.
Example ex_reach : reach go_growth st0 st3.
Proof.
  unfold st3. destruct (nth_error (run_ctx go_growth st0 hist) 2) as [[[st out]| | |]|] eqn:E; try apply reach_refl.
  exact (run_ctx_reach go_growth st0 hist st0 2 st out (reach_refl go_growth st0) E).
Qed.
Example ex_reach_nontrivial : cs_calls st3 = 3%nat /\ cs_lookup st3 = Some 3%nat.
Proof. vm_compute. split; reflexivity. Qed.

(* the state differs after different histories (the invariant is not vacuous:
   it says which part of the state is irrelevant) although the results agree:
   a call that matches nothing, on a new Context and on one that has been used *)
Definition in4 := mkAI lkarr (gm_of [g 4 97; g 4 98; sp 0] 2).
Example ex_state_depends_on_history :
  match M_ctx_apply go_growth st0 in4, nth_error outs 0 with
  | Ok (s_new, o_new), Some (Ok (st1, _)) =>
    match M_ctx_apply go_growth st1 in4 with
    | Ok (s_used, o_used) => o_new = o_used /\ b_scratch (cs_bufs s_new) = is_nil /\ b_scratch (cs_bufs s_used) = mkIS [0; 1; 2]%nat 4
                             /\ b_dead (cs_bufs s_new) = [] /\ b_dead (cs_bufs s_used) = [Some (3, 0, 3)%nat]
    | _ => False
    end
  | _, _ => False
  end.
Proof. vm_compute. repeat split; reflexivity. Qed.

(* hypothesis of caller_slices_untouched_no_growth on a non-trivial list, and a run *)
Definition ex_ll_tight : list lookup := [
  mkLookup 0 0 [Gsub4_1 [(1, 0%nat)] [[([2], 9)]]; Gsub1_1 [2; 3] 1];
  mkLookup 0 0 [Gpos1_1 [3; 9] (Some (mkVR 5 0 (-20) 0 0 0 0 0))] ].
Example ex_tight_K : (ll_K ex_ll_tight <= 1)%nat.
Proof. vm_compute. lia. Qed.
Example ex_tight_run :
  match M_ctx_apply go_growth (new_ctx ex_ll_tight None 2 2) (mkAI [0%nat; 1%nat] (gm_of [g 1 97; g 2 98; g 2 99; sp 0] 3)) with
  | Ok (_, o) => gm_arr (ao_ret o) = [mkG 9 [97; 98] 5 0 (-20); mkG 3 [99] 5 0 (-20); gzero; sp 0] /\ ao_shared o = true
  | _ => False
  end.
Proof. vm_compute. split; reflexivity. Qed.

(* keep functions in use: a GDEF with marks and two mark filtering sets, a
   nested lookup with another set than its parent *)
Definition ex_gd : option gdef :=
  Some (mkGdef (Some [(1, 1); (2, 1); (10, 3); (11, 3)]) [] [[10]; [11]]).
Definition ex_ll_keep : list lookup := [
  mkLookup 16 1 [SeqCtx1 [(1, 0%nat)] [[([2], [(0%nat, 1%nat)])]]];      (* skips mark 10 (not in set 1) *)
  mkLookup 16 0 [Gsub4_1 [(1, 0%nat)] [[([10; 2], 9)]]] ].                 (* sees mark 10 (in set 0) *)
Example ex_keep_log :
  match ctx_apply_log go_growth (new_ctx ex_ll_keep ex_gd 1 1) (mkAI [0%nat] (gm_of [g 1 97; g 10 98; g 2 99] 3)) with
  | Ok lg => filter (fun ev => match ev with EvUse _ _ => true | _ => false end) lg
             = [EvUse (Some 0%nat) (Some (16, 1%nat)); EvUse (Some 1%nat) (Some (16, 0%nat))]
  | _ => False
  end.
Proof. vm_compute. reflexivity. Qed.

(* ------------------------------------------------------------------ *)
(* the Layouter                                                        *)

Definition ex_font : font := mkFont [(65, 1); (66, 2); (67, 3)] 12 [500; 600; 610; 620; 0; 0; 0; 0; 0; 700; 0; 0]%Z.
Definition ex_gsub : option (list lookup * list nat) := Some (ex_ll, [0%nat]).
Definition ex_gpos : option (list lookup * list nat) :=
  Some ([mkLookup 0 0 [Gpos2_1 [((9, 6), (Some (mkVR 0 0 (-30) 0 0 0 0 0), None))]]], [0%nat]).
Definition lay0 : lay_state := new_layouter ex_font None ex_gsub ex_gpos.
Definition strs : list (list N) := [[65; 66]; [67]; []; [65; 66; 65; 66]; [66]].
Definition louts := run_lay go_growth lay0 strs.

Definition lout_of (r : outcome (lay_state * lay_out)) : option lay_out :=
  match r with Ok (_, o) => Some o | _ => None end.

Example ex_lay_results : map (fun r => match lout_of r with Some o => Some (map (fun x => (g_gid x, g_adv x)) (view (lo_ret o)), lo_reused o) | None => None end) louts
  = [Some ([(9, 670%Z); (6, 0%Z); (7, 0%Z)], false); Some ([(3, 620%Z)], true); Some ([], true);
     Some ([(9, 670%Z); (6, 0%Z); (7, 0%Z); (9, 670%Z); (6, 0%Z); (7, 0%Z)], false); Some ([(2, 610%Z)], true)].
Proof. vm_compute. reflexivity. Qed.

Example ex_lay_spec : map (S_layout ex_font None ex_gsub ex_gpos) strs
  = map (fun r => match lout_of r with Some o => Ok (view (lo_ret o)) | None => Panic end) louts.
Proof. vm_compute. reflexivity. Qed.

Definition lay4 : lay_state := match nth_error (run_lay go_growth lay0 strs) 3 with Some (Ok (st, _)) => st | _ => lay0 end.
Example ex_lay_reach : lay_reach go_growth lay0 lay4.
Proof.
  unfold lay4. destruct (nth_error (run_lay go_growth lay0 strs) 3) as [[[st out]| | |]|] eqn:E; try apply lay_reach_refl.
  exact (run_lay_reach go_growth lay0 strs lay0 3 st out (lay_reach_refl go_growth lay0) E).
Qed.
Example ex_lay_reach_nontrivial : gm_cap (ls_buf lay4) = 8%nat /\ gm_len (ls_buf lay4) = 6%nat.
Proof. vm_compute. split; reflexivity. Qed.

(* ------------------------------------------------------------------ *)
(* refuted: the stronger readings                                      *)

(* "Apply never writes behind the length of the slice it is given": a multiple
   substitution lengthens the sequence inside the caller's spare capacity *)
Example apply_spare_capacity_untouched_refuted :
  exists gr st inp st' out, M_ctx_apply gr st inp = Ok (st', out) /\
    skipn (gm_len (ai_seq inp)) (ao_caller out) <> skipn (gm_len (ai_seq inp)) (gm_arr (ai_seq inp)).
Proof.
  exists go_growth, st0, in1.
  destruct (M_ctx_apply go_growth st0 in1) as [[st' out]| | |] eqn:E; try (vm_compute in E; discriminate E).
  exists st', out. split; [reflexivity|]. vm_compute in E. inversion E; subst. vm_compute. discriminate.
Qed.

(* "Apply leaves the caller's glyphs alone and returns a new sequence" *)
Example apply_input_preserved_refuted :
  exists gr st inp st' out, M_ctx_apply gr st inp = Ok (st', out) /\
    firstn (gm_len (ai_seq inp)) (ao_caller out) <> view (ai_seq inp).
Proof.
  exists go_growth, st0, in1.
  destruct (M_ctx_apply go_growth st0 in1) as [[st' out]| | |] eqn:E; try (vm_compute in E; discriminate E).
  exists st', out. split; [reflexivity|]. vm_compute in E. inversion E; subst. vm_compute. discriminate.
Qed.

(* "the result always lives in the caller's array" *)
Example apply_always_in_place_refuted :
  exists gr st inp st' out, M_ctx_apply gr st inp = Ok (st', out) /\ ao_shared out = false.
Proof.
  exists go_growth, st0, in2.
  destruct (M_ctx_apply go_growth st0 in2) as [[st' out]| | |] eqn:E; try (vm_compute in E; discriminate E).
  exists st', out. split; [reflexivity|]. vm_compute in E. inversion E; subst. reflexivity.
Qed.

(* "NewContext copies the lookup slice": rewriting the caller's array between
   two calls changes what the same Context does with the same glyphs *)
Example newcontext_copies_lookups_refuted :
  exists gr st lk1 lk2 m,
    omap (fun r => view (ao_ret (snd r))) (M_ctx_apply gr st (mkAI lk1 m))
    <> omap (fun r => view (ao_ret (snd r))) (M_ctx_apply gr st (mkAI lk2 m)).
Proof.
  exists go_growth, st0, [0%nat; 3%nat; 999%nat], [4%nat; 4%nat; 999%nat], (gm_of [g 3 97; g 1 98; g 2 99] 3).
  vm_compute. discriminate.
Qed.

(* "the slice Layout returned stays what it was" (the doc comment says it does
   not): the second call writes its glyph over the first result *)
Example layout_previous_result_stable_refuted :
  exists gr st s1 s2 st1 o1 st2 o2,
    M_layouter_layout gr st s1 = Ok (st1, o1) /\ M_layouter_layout gr st1 s2 = Ok (st2, o2) /\
    firstn (gm_len (lo_ret o1)) (lo_prev o2) <> view (lo_ret o1).
Proof.
  exists go_growth, lay0, [65; 66], [67].
  destruct (M_layouter_layout go_growth lay0 [65; 66]) as [[st1 o1]| | |] eqn:E1; try (vm_compute in E1; discriminate E1).
  exists st1, o1.
  destruct (M_layouter_layout go_growth st1 [67]) as [[st2 o2]| | |] eqn:E2;
    vm_compute in E1; inversion E1; subst; try (vm_compute in E2; discriminate E2).
  exists st2, o2. split; [reflexivity|]. split; [reflexivity|].
  vm_compute in E2. inversion E2; subst. vm_compute. discriminate.
Qed.

(* only the glyphs below len are history independent: capacity and stale tail
   of the returned slice depend on what the Layouter laid out before *)
Example layout_memory_history_independent_refuted :
  exists gr st s1 s2 st1 o1 st2 o2 st3 o3,
    M_layouter_layout gr st s1 = Ok (st1, o1) /\ M_layouter_layout gr st1 s2 = Ok (st2, o2) /\
    M_layouter_layout gr st s2 = Ok (st3, o3) /\
    view (lo_ret o2) = view (lo_ret o3) /\ gm_arr (lo_ret o2) <> gm_arr (lo_ret o3).
Proof.
  exists go_growth, lay0, [65; 66], [67].
  destruct (M_layouter_layout go_growth lay0 [65; 66]) as [[st1 o1]| | |] eqn:E1; try (vm_compute in E1; discriminate E1).
  exists st1, o1.
  destruct (M_layouter_layout go_growth st1 [67]) as [[st2 o2]| | |] eqn:E2;
    vm_compute in E1; inversion E1; subst; try (vm_compute in E2; discriminate E2).
  exists st2, o2.
  destruct (M_layouter_layout go_growth lay0 [67]) as [[st3 o3]| | |] eqn:E3; try (vm_compute in E3; discriminate E3).
  exists st3, o3. split; [reflexivity|]. split; [reflexivity|]. split; [reflexivity|].
  vm_compute in E2. inversion E2; subst. vm_compute in E3. inversion E3; subst.
  split; [reflexivity|]. vm_compute. discriminate.
Qed.
