(* C07B/Proofs_sim.v — refinement: the mirrored loops of layout.go over the
   concrete state compute exactly C07's loops on the abstraction
   (view of the backing array, live frames).  Equational: Panic and OutOfFuel
   correspond as well.  The engine itself (apply_sub) is C07's; nothing about
   it is proved again. *)
From Coq Require Import List NArith ZArith Bool Arith Lia.
From Common Require Import Outcome.
From Gen Require Import Consts C07.
From C07 Require Import Model Shape Util Proofs Proofs_term.
From C07B Require Import Growth Model.
Import ListNotations.

(* ------------------------------------------------------------------ *)
(* small facts                                                         *)

Lemma omap_ok {A B} (f : A -> B) x : omap f (Ok x) = Ok (f x).
Proof. reflexivity. Qed.

Lemma omap_obind {A B C} (f : B -> C) (x : outcome A) (g : A -> outcome B) :
  omap f (obind x g) = obind x (fun a => omap f (g a)).
Proof. destruct x; reflexivity. Qed.

Lemma obind_omap {A B C} (f : A -> B) (x : outcome A) (g : B -> outcome C) :
  obind (omap f x) g = obind x (fun a => g (f a)).
Proof. destruct x; reflexivity. Qed.

(* the keep function built from a lookup's meta data IS C07's keepf - as a
   function, without extensionality *)
Lemma kf_keep_new gd lk : kf_keep gd (new_keep_func gd lk) = keepf gd lk.
Proof.
  unfold kf_keep, new_keep_func, keepf.
  destruct gd as [d|]; [|reflexivity].
  destruct (gd_class d) as [cls|] eqn:Ec; [|reflexivity].
  destruct (N.eqb (lk_flags lk) 0); reflexivity.
Qed.

Lemma view_mem_step gr m o hw a s' : view (fst (fst (mem_step gr m o hw a s'))) = s'.
Proof.
  unfold mem_step, view.
  destruct (length s' <=? length (gm_live m)); [reflexivity|].
  destruct (length s' <=? length (gm_live m) + length (gm_tail m)); reflexivity.
Qed.

Lemma commit_fields gr e sub keep a b s' k' :
  let e' := commit_match gr e sub keep a b s' k' in
  eseq e' = s' /\ e_stack e' = k' /\ e_keep e' = e_keep e /\ e_lookup e' = e_lookup e.
Proof.
  unfold commit_match. pose proof (view_mem_step gr (e_mem e) (e_orig e) (e_hw e) a s') as Hv.
  destruct (mem_step gr (e_mem e) (e_orig e) (e_hw e) a s') as [[m' o'] hw']. cbn in *.
  unfold eseq. cbn. auto.
Qed.

(* ------------------------------------------------------------------ *)
(* projections                                                         *)

Definition proj_at (r : option nat * eng) : option nat * st := (fst r, (eseq (snd r), e_stack (snd r))).
Definition proj3 (r : nat * eng) : nat * list glyph * stack := (fst r, eseq (snd r), e_stack (snd r)).
Definition proj2 (e : eng) : list glyph * stack := (eseq e, e_stack e).

Section Sim.
Variable gr : growth.
Variable ll : list lookup.
Variable gd : option gdef.

(* ------------------------------------------------------------------ *)
(* applyAt                                                             *)

Lemma sim_apply_at : forall subs e a b,
  omap proj_at (c_apply_at gr gd subs e a b)
  = apply_at (kf_keep gd (e_keep e)) subs (eseq e) (e_stack e) a b.
Proof.
  induction subs as [|sub rest IH]; intros e a b; cbn [c_apply_at apply_at].
  - reflexivity.
  - destruct (apply_sub (kf_keep gd (e_keep e)) sub (eseq e) (e_stack e) a b) as [[[next|] [s' k']]| | |] eqn:E;
      cbn [obind omap]; try reflexivity.
    + destruct (commit_fields gr e sub (kf_keep gd (e_keep e)) a b s' k') as (H1 & H2 & _).
      unfold proj_at. cbn [fst snd]. rewrite H1, H2. reflexivity.
    + apply apply_sub_none in E. destruct E as [-> ->].
      rewrite IH. reflexivity.
Qed.

Lemma fields_apply_at : forall subs e a b r e',
  c_apply_at gr gd subs e a b = Ok (r, e') -> e_keep e' = e_keep e /\ e_lookup e' = e_lookup e.
Proof.
  induction subs as [|sub rest IH]; intros e a b r e' H; cbn [c_apply_at] in H.
  - inversion H; subst; auto.
  - destruct (apply_sub (kf_keep gd (e_keep e)) sub (eseq e) (e_stack e) a b) as [[[next|] [s' k']]| | |] eqn:E;
      cbn [obind] in H; try discriminate H.
    + inversion H; subst.
      destruct (commit_fields gr e sub (kf_keep gd (e_keep e)) a b s' k') as (_ & _ & H3 & H4). auto.
    + apply IH in H. cbn in H. exact H.
Qed.

(* ------------------------------------------------------------------ *)
(* the nested-action loop                                              *)

Lemma sim_nested : forall fuel num next e,
  omap proj3 (c_nested_loop gr ll gd fuel num next e)
  = nested_loop ll gd fuel num next (eseq e) (e_stack e).
Proof.
  induction fuel as [|fuel IH]; intros num next e.
  - cbn [c_nested_loop nested_loop]. destruct (e_stack e) as [|fr rest] eqn:Ek; [rewrite omap_ok; unfold proj3; cbn; rewrite Ek; reflexivity|].
    destruct (budget <=? num); [rewrite omap_ok; unfold proj3; cbn; rewrite Ek; reflexivity|reflexivity].
  - cbn [c_nested_loop nested_loop]. destruct (e_stack e) as [|fr rest] eqn:Ek; [rewrite omap_ok; unfold proj3; cbn; rewrite Ek; reflexivity|].
    destruct (budget <=? num); [rewrite omap_ok; unfold proj3; cbn; rewrite Ek; reflexivity|].
    destruct (f_acts fr) as [|[seqidx lidx] acts'].
    + rewrite IH. reflexivity.
    + destruct (nth_error (f_pos fr) seqidx) as [pos|]; [|rewrite IH; reflexivity].
      destruct (nth_error ll lidx) as [lk|]; [|rewrite IH; reflexivity].
      rewrite omap_obind.
      destruct (oget (eseq e) pos) as [g| | |]; cbn [obind]; try reflexivity.
      rewrite kf_keep_new.
      destruct (keepf gd lk (g_gid g)); [|rewrite IH; reflexivity].
      rewrite omap_obind.
      set (e2 := log (EvUse (Some lidx) (new_keep_func gd lk))
                     (set_lk (set_stack e (mkFrame (f_pos fr) acts' (f_end fr) :: rest)) (Some lidx) (new_keep_func gd lk))).
      pose proof (sim_apply_at (lk_subs lk) e2 pos (f_end fr)) as Hs.
      change (e_keep e2) with (new_keep_func gd lk) in Hs. rewrite kf_keep_new in Hs.
      change (eseq e2) with (eseq e) in Hs.
      change (e_stack e2) with (mkFrame (f_pos fr) acts' (f_end fr) :: rest) in Hs.
      rewrite <- Hs. rewrite obind_omap.
      destruct (c_apply_at gr gd (lk_subs lk) e2 pos (f_end fr)) as [[r e3]| | |]; cbn [obind]; try reflexivity.
      rewrite IH. reflexivity.
Qed.

Lemma fields_nested : forall fuel num next e next' e',
  c_nested_loop gr ll gd fuel num next e = Ok (next', e') -> e_keep e' = e_keep e /\ e_lookup e' = e_lookup e.
Proof.
  induction fuel as [|fuel IH]; intros num next e next' e' H.
  - cbn [c_nested_loop] in H. destruct (e_stack e) as [|fr rest]; [inversion H; subst; auto|].
    destruct (budget <=? num); [inversion H; subst; auto|discriminate H].
  - cbn [c_nested_loop] in H. destruct (e_stack e) as [|fr rest]; [inversion H; subst; auto|].
    destruct (budget <=? num); [inversion H; subst; auto|].
    destruct (f_acts fr) as [|[seqidx lidx] acts'].
    + apply IH in H. exact H.
    + destruct (nth_error (f_pos fr) seqidx) as [pos|]; [|apply IH in H; exact H].
      destruct (nth_error ll lidx) as [lk|]; [|apply IH in H; exact H].
      destruct (oget (eseq e) pos) as [g| | |]; cbn [obind] in H; try discriminate H.
      destruct (kf_keep gd (new_keep_func gd lk) (g_gid g)); [|apply IH in H; exact H].
      match type of H with obind ?x _ = _ => destruct x as [[r e3]| | |]; cbn [obind] in H; try discriminate H end.
      apply IH in H. exact H.
Qed.

(* ------------------------------------------------------------------ *)
(* applyAtRecursively, the outer loop, Apply                           *)

(* while a top-level lookup runs: ctx.lookup is that lookup, ctx.keep its keep function *)
Definition top_inv (e : eng) (lidx : nat) (lk : lookup) : Prop :=
  e_lookup e = Some lidx /\ nth_error ll lidx = Some lk /\ e_keep e = new_keep_func gd lk.

Lemma sim_apply_rec e lidx lk pos : top_inv e lidx lk ->
  omap proj3 (c_apply_rec gr ll gd e pos) = apply_rec ll gd lk (eseq e) (e_stack e) pos.
Proof.
  intros (Hl & Hn & Hk). unfold c_apply_rec, apply_rec.
  rewrite omap_obind.
  destruct (oget (eseq e) pos) as [g| | |]; cbn [obind]; try reflexivity.
  rewrite Hk, kf_keep_new.
  destruct (keepf gd lk (g_gid g)); cbn [negb]; [|reflexivity].
  unfold cur_lookup. rewrite Hl, Hn.
  rewrite omap_obind.
  set (e0 := log (EvUse (Some lidx) (new_keep_func gd lk)) e).
  pose proof (sim_apply_at (lk_subs lk) e0 pos (length (eseq e))) as Hs.
  change (e_keep e0) with (e_keep e) in Hs. rewrite Hk, kf_keep_new in Hs.
  change (eseq e0) with (eseq e) in Hs. change (e_stack e0) with (e_stack e) in Hs.
  rewrite <- Hs, obind_omap.
  destruct (c_apply_at gr gd (lk_subs lk) e0 pos (length (eseq e))) as [[[next|] e']| | |]; cbn [obind]; try reflexivity.
  rewrite omap_obind.
  pose proof (sim_nested (nested_fuel (e_stack e')) 1 next e') as Hn2.
  unfold proj_at. cbn [fst snd].
  rewrite <- Hn2, obind_omap.
  destruct (c_nested_loop gr ll gd (nested_fuel (e_stack e')) 1 next e') as [[next' e'']| | |]; cbn [obind]; reflexivity.
Qed.

Lemma fields_apply_rec e pos pos' e' :
  c_apply_rec gr ll gd e pos = Ok (pos', e') -> e_keep e' = e_keep e /\ e_lookup e' = e_lookup e.
Proof.
  unfold c_apply_rec. intros H.
  apply obind_ok in H. destruct H as (g & _ & H).
  destruct (negb (kf_keep gd (e_keep e) (g_gid g))); [inversion H; subst; auto|].
  destruct (cur_lookup ll e) as [lk|]; [|discriminate H].
  apply obind_ok in H. destruct H as ([[next|] e1] & E1 & H).
  - apply fields_apply_at in E1. change (e_keep e1 = e_keep e /\ e_lookup e1 = e_lookup e) in E1.
    apply obind_ok in H. destruct H as ([next' e2] & E2 & H).
    apply fields_nested in E2. destruct E1 as [E1a E1b], E2 as [E2a E2b].
    injection H as _ He. subst e'. cbn [snd log set_stack e_keep e_lookup].
    split; congruence.
  - apply fields_apply_at in E1. change (e_keep e1 = e_keep e /\ e_lookup e1 = e_lookup e) in E1.
    injection H as _ He. subst e'. exact E1.
Qed.

Lemma top_inv_apply_rec e lidx lk pos pos' e' :
  top_inv e lidx lk -> c_apply_rec gr ll gd e pos = Ok (pos', e') -> top_inv e' lidx lk.
Proof.
  intros (Hl & Hn & Hk) H. apply fields_apply_rec in H. destruct H as [H1 H2].
  unfold top_inv. rewrite H1, H2. auto.
Qed.

Lemma sim_outer lidx lk : forall fuel pos e, top_inv e lidx lk ->
  omap proj2 (c_outer_loop gr ll gd fuel pos e) = outer_loop ll gd lk fuel pos (eseq e) (e_stack e).
Proof.
  induction fuel as [|fuel IH]; intros pos e Hi; cbn [c_outer_loop outer_loop].
  - destruct (length (eseq e) <=? pos); reflexivity.
  - destruct (length (eseq e) <=? pos); [reflexivity|].
    rewrite omap_obind.
    pose proof (sim_apply_rec e lidx lk pos Hi) as Hs. rewrite <- Hs, obind_omap.
    destruct (c_apply_rec gr ll gd e pos) as [[pos1 e']| | |] eqn:Er; cbn [obind]; try reflexivity.
    unfold proj3. cbn [fst snd].
    rewrite IH; [reflexivity|]. eapply top_inv_apply_rec; eauto.
Qed.

Lemma fields_outer lidx lk : forall fuel pos e e', top_inv e lidx lk ->
  c_outer_loop gr ll gd fuel pos e = Ok e' -> top_inv e' lidx lk.
Proof.
  induction fuel as [|fuel IH]; intros pos e e' Hi H; cbn [c_outer_loop] in H.
  - destruct (length (eseq e) <=? pos); [inversion H; subst; exact Hi|discriminate H].
  - destruct (length (eseq e) <=? pos); [inversion H; subst; exact Hi|].
    destruct (c_apply_rec gr ll gd e pos) as [[pos1 e1]| | |] eqn:Er; cbn [obind] in H; try discriminate H.
    eapply IH; [|exact H]. eapply top_inv_apply_rec; eauto.
Qed.

Lemma top_inv_set e lidx lk : nth_error ll lidx = Some lk ->
  top_inv (set_lk e (Some lidx) (new_keep_func gd lk)) lidx lk.
Proof. intros H. unfold top_inv. cbn. auto. Qed.

Lemma sim_apply_lookup e lidx :
  omap proj2 (c_apply_lookup gr ll gd e lidx) = apply_lookup ll gd (eseq e) (e_stack e) lidx.
Proof.
  unfold c_apply_lookup, apply_lookup.
  destruct (nth_error ll lidx) as [lk|] eqn:En; [|reflexivity].
  rewrite (sim_outer lidx lk); [reflexivity|]. apply top_inv_set. exact En.
Qed.

Lemma sim_apply_lookups : forall lookups e,
  omap proj2 (c_apply_lookups gr ll gd lookups e) = apply_lookups ll gd lookups (eseq e) (e_stack e).
Proof.
  induction lookups as [|l rest IH]; intros e; cbn [c_apply_lookups apply_lookups].
  - reflexivity.
  - rewrite omap_obind. rewrite <- sim_apply_lookup, obind_omap.
    destruct (c_apply_lookup gr ll gd e l) as [e'| | |]; cbn [obind]; try reflexivity.
    unfold proj2. rewrite IH. reflexivity.
Qed.

(* ctx.lookup / ctx.keep after a round: the last valid lookup's, consistent *)
Definition lk_consistent (e : eng) : Prop :=
  match e_lookup e with
  | Some i => exists lk, nth_error ll i = Some lk /\ e_keep e = new_keep_func gd lk
  | None => e_keep e = None
  end.

Lemma consistent_apply_lookup e lidx e' :
  lk_consistent e -> c_apply_lookup gr ll gd e lidx = Ok e' -> lk_consistent e'.
Proof.
  unfold c_apply_lookup. intros Hc H.
  destruct (nth_error ll lidx) as [lk|] eqn:En; [|inversion H; subst; exact Hc].
  eapply fields_outer in H; [|apply top_inv_set; exact En].
  destruct H as (H1 & H2 & H3). unfold lk_consistent. rewrite H1. eauto.
Qed.

Lemma consistent_apply_lookups : forall lookups e e',
  lk_consistent e -> c_apply_lookups gr ll gd lookups e = Ok e' -> lk_consistent e'.
Proof.
  induction lookups as [|l rest IH]; intros e e' Hc H; cbn [c_apply_lookups] in H.
  - inversion H; subst; exact Hc.
  - destruct (c_apply_lookup gr ll gd e l) as [e1| | |] eqn:E1; cbn [obind] in H; try discriminate H.
    eapply IH; [|exact H]. eapply consistent_apply_lookup; eauto.
Qed.

(* ctx.lookup and ctx.keep are dead on entry: a round that runs a lookup
   overwrites them first, a round that runs none passes them through *)
Definition same_but_lk (e1 e2 : eng) : Prop :=
  e_mem e1 = e_mem e2 /\ e_orig e1 = e_orig e2 /\ e_hw e1 = e_hw e2 /\ e_stack e1 = e_stack e2 /\ e_log e1 = e_log e2.

Lemma set_lk_same e1 e2 l k : same_but_lk e1 e2 -> set_lk e1 l k = set_lk e2 l k.
Proof. intros (H1 & H2 & H3 & H4 & H5). unfold set_lk. rewrite H1, H2, H3, H4, H5. reflexivity. Qed.

Definition rel_out (r1 r2 : outcome eng) : Prop :=
  match r1, r2 with
  | Ok e1, Ok e2 => same_but_lk e1 e2
  | Err, Err | Panic, Panic | OutOfFuel, OutOfFuel => True
  | _, _ => False
  end.

Lemma rel_out_refl r : rel_out r r.
Proof. destruct r; cbn; auto. unfold same_but_lk. auto 6. Qed.

Lemma dead_lk_apply_lookups : forall lookups e1 e2,
  same_but_lk e1 e2 ->
  rel_out (c_apply_lookups gr ll gd lookups e1) (c_apply_lookups gr ll gd lookups e2).
Proof.
  induction lookups as [|l rest IH]; intros e1 e2 Hs; cbn [c_apply_lookups].
  - exact Hs.
  - unfold c_apply_lookup.
    destruct (nth_error ll l) as [lk|].
    + assert (He : eseq e1 = eseq e2) by (unfold eseq; destruct Hs as (-> & _); reflexivity).
      rewrite He, (set_lk_same e1 e2 _ _ Hs). apply rel_out_refl.
    + cbn [obind]. apply IH. exact Hs.
Qed.

End Sim.
