(* C07B/Proofs_lay.v — sfnt.Layouter over histories of Layout calls: every
   call returns the glyphs of S_layout (cmap, GSUB on a fresh context, widths,
   GPOS on a fresh context), whatever the buffer and the two contexts went
   through before; what happens to the slice the previous call returned. *)
From Coq Require Import List NArith ZArith Bool Arith Lia.
From Common Require Import Outcome.
From Gen Require Import Consts C07.
From C07 Require Import Model Shape Util Proofs Proofs_term.
From C07B Require Import Growth Model Util Proofs_sim Proofs_inv Proofs_hist.
Import ListNotations.

(* the tables a context of the layouter works with *)
Definition tab_of (c : option (ctx_state * list nat)) : option (list lookup * list nat) :=
  match c with
  | None => None
  | Some (st, lks) => Some (cs_ll st, lks)
  end.

Definition ctx_ok (gd : option gdef) (c : option (ctx_state * list nat)) : Prop :=
  match c with
  | None => True
  | Some (st, lks) => ctx_inv st /\ fst (cs_nlk st) = length lks /\ cs_gd st = gd
  end.

Definition lay_inv (st : lay_state) : Prop := ctx_ok (ls_gd st) (ls_gsub st) /\ ctx_ok (ls_gd st) (ls_gpos st).

Lemma new_layouter_inv ft gd gsub gpos : lay_inv (new_layouter ft gd gsub gpos).
Proof.
  unfold lay_inv, new_layouter, ctx_ok. cbn.
  split; [destruct gsub as [[ll lks]|]|destruct gpos as [[ll lks]|]]; auto;
    (split; [apply new_ctx_inv|cbn; auto]).
Qed.

Lemma new_layouter_tabs ft gd gsub gpos :
  tab_of (ls_gsub (new_layouter ft gd gsub gpos)) = gsub /\ tab_of (ls_gpos (new_layouter ft gd gsub gpos)) = gpos.
Proof. unfold new_layouter. cbn. destruct gsub as [[? ?]|], gpos as [[? ?]|]; auto. Qed.

(* ------------------------------------------------------------------ *)
(* the stages                                                          *)

Lemma lay_append_view gr cm : forall rs m o,
  view (fst (lay_append gr cm rs m o)) = view m ++ map (char_glyph cm) rs.
Proof.
  induction rs as [|r rest IH]; intros m o; cbn [lay_append map].
  - unfold view. rewrite app_nil_r. reflexivity.
  - destruct (gm_tail m) as [|x t]; rewrite IH; unfold view; cbn [gm_live]; rewrite <- app_assoc; reflexivity.
Qed.

Definition stage_view (r : option (ctx_state * list nat) * gmem * option (list glyph)) : list glyph :=
  view (snd (fst r)).

Lemma lay_stage_view gr gd c m o :
  ctx_ok gd c ->
  omap stage_view (lay_stage gr c m o) = shape_stage gd (tab_of c) (view m).
Proof.
  unfold lay_stage, shape_stage, tab_of, ctx_ok. destruct c as [[st lks]|]; [|reflexivity].
  intros ((Hs & _) & Hn & Hg).
  pose proof (ctx_apply_shape gr st (mkAI lks m) Hs) as Hsh.
  unfold ctx_lookups in Hsh. cbn [ai_lookups ai_seq] in Hsh. rewrite Hn, firstn_all, Hg in Hsh.
  rewrite <- Hsh.
  destruct (M_ctx_apply gr st (mkAI lks m)) as [[st' out]| | |]; reflexivity.
Qed.

Lemma lay_stage_ok gr gd c m o c' m' o' :
  ctx_ok gd c -> lay_stage gr c m o = Ok (c', m', o') -> ctx_ok gd c' /\ tab_of c' = tab_of c.
Proof.
  unfold lay_stage, ctx_ok, tab_of. destruct c as [[st lks]|].
  - intros (Hi & Hn & Hg) H. apply obind_ok in H. destruct H as ([st' out] & Hm & H).
    inversion H; subst c' m' o'; clear H. cbn [fst snd].
    destruct (ctx_apply_inv gr st (mkAI lks m) st' out Hi Hm) as (Hi' & E1 & E2 & E3 & _).
    rewrite E1, E2, E3. auto.
  - intros _ H. inversion H; subst. auto.
Qed.

(* ------------------------------------------------------------------ *)
(* one Layout call                                                     *)

Definition lay_view (r : lay_state * lay_out) : list glyph := view (lo_ret (snd r)).

Lemma layout_refines gr st s :
  lay_inv st ->
  omap lay_view (M_layouter_layout gr st s)
  = S_layout (ls_font st) (ls_gd st) (tab_of (ls_gsub st)) (tab_of (ls_gpos st)) s.
Proof.
  intros (H1 & H2). unfold M_layouter_layout, S_layout.
  pose proof (lay_append_view gr (ft_cmap (ls_font st)) s (mkGM [] (gm_arr (ls_buf st))) None) as Ha.
  destruct (lay_append gr (ft_cmap (ls_font st)) s (mkGM [] (gm_arr (ls_buf st))) None) as [m1 o1].
  cbn [fst view gm_live app] in Ha.
  rewrite omap_obind.
  pose proof (lay_stage_view gr (ls_gd st) (ls_gsub st) m1 o1 H1) as Hs1. rewrite Ha in Hs1.
  rewrite <- Hs1, obind_omap.
  destruct (lay_stage gr (ls_gsub st) m1 o1) as [[[gsub' m2] o2]| | |] eqn:E2; cbn [obind]; try reflexivity.
  rewrite omap_obind.
  pose proof (lay_stage_view gr (ls_gd st) (ls_gpos st) (lay_widths (ls_font st) (ls_gd st) m2) o2 H2) as Hs2.
  unfold stage_view at 1. cbn [fst snd].
  change (map (set_width (ls_font st) (ls_gd st)) (view m2)) with (view (lay_widths (ls_font st) (ls_gd st) m2)).
  rewrite <- Hs2.
  destruct (lay_stage gr (ls_gpos st) (lay_widths (ls_font st) (ls_gd st) m2) o2) as [[[gpos' m4] o4]| | |]; reflexivity.
Qed.

Lemma layout_inv gr st s st' out :
  lay_inv st -> M_layouter_layout gr st s = Ok (st', out) ->
  lay_inv st' /\ ls_font st' = ls_font st /\ ls_gd st' = ls_gd st /\
  tab_of (ls_gsub st') = tab_of (ls_gsub st) /\ tab_of (ls_gpos st') = tab_of (ls_gpos st) /\
  ls_buf st' = lo_ret out.
Proof.
  intros (H1 & H2) H. unfold M_layouter_layout in H.
  destruct (lay_append gr (ft_cmap (ls_font st)) s (mkGM [] (gm_arr (ls_buf st))) None) as [m1 o1].
  apply obind_ok in H. destruct H as ([[gsub' m2] o2] & E2 & H).
  apply obind_ok in H. destruct H as ([[gpos' m4] o4] & E4 & H).
  inversion H; subst st' out; clear H. cbn.
  destruct (lay_stage_ok gr (ls_gd st) _ _ _ _ _ _ H1 E2) as (A1 & A2).
  destruct (lay_stage_ok gr (ls_gd st) _ _ _ _ _ _ H2 E4) as (B1 & B2).
  unfold lay_inv. cbn. auto 10.
Qed.

(* ------------------------------------------------------------------ *)
(* histories                                                           *)

Lemma run_lay_nth gr : forall hist st i r,
  lay_inv st -> nth_error (run_lay gr st hist) i = Some r ->
  exists s, nth_error hist i = Some s /\
    omap lay_view r = S_layout (ls_font st) (ls_gd st) (tab_of (ls_gsub st)) (tab_of (ls_gpos st)) s.
Proof.
  induction hist as [|s rest IH]; intros st i r Hi H; cbn [run_lay] in H.
  - destruct i; discriminate H.
  - pose proof (layout_refines gr st s Hi) as Hr.
    destruct (M_layouter_layout gr st s) as [[st' out]| | |] eqn:E.
    + destruct i as [|i]; cbn [nth_error] in H.
      * inversion H; subst r. exists s. cbn [nth_error]. auto.
      * destruct (layout_inv gr st s st' out Hi E) as (Hi' & E1 & E2 & E3 & E4 & _).
        destruct (IH st' i r Hi' H) as (s' & A1 & A2).
        exists s'. cbn [nth_error]. rewrite E1, E2, E3, E4 in A2. auto.
    + destruct i as [|[|i]]; cbn in H; try discriminate H. inversion H; subst r. exists s. cbn [nth_error]. auto.
    + destruct i as [|[|i]]; cbn in H; try discriminate H. inversion H; subst r. exists s. cbn [nth_error]. auto.
    + destruct i as [|[|i]]; cbn in H; try discriminate H. inversion H; subst r. exists s. cbn [nth_error]. auto.
Qed.

(* ------------------------------------------------------------------ *)
(* the slice the previous call returned                                *)

(* If the buffer was not reallocated during the call, the array the previous
   result lives in IS the array of the new result: its first len elements are
   the new glyphs. *)
Lemma layout_overwrites_previous gr st s st' out :
  M_layouter_layout gr st s = Ok (st', out) -> lo_reused out = true ->
  lo_prev out = gm_arr (lo_ret out) /\ firstn (gm_len (lo_ret out)) (lo_prev out) = view (lo_ret out).
Proof.
  intros H. unfold M_layouter_layout in H.
  destruct (lay_append gr (ft_cmap (ls_font st)) s (mkGM [] (gm_arr (ls_buf st))) None) as [m1 o1].
  apply obind_ok in H. destruct H as ([[gsub' m2] o2] & E2 & H).
  apply obind_ok in H. destruct H as ([[gpos' m4] o4] & E4 & H).
  inversion H; subst st' out; clear H. cbn [lo_reused lo_prev lo_ret].
  destruct o4; [discriminate|]. intros _. split; [reflexivity|].
  unfold gm_arr, gm_len, view. rewrite firstn_app, Nat.sub_diag, firstn_all. cbn. apply app_nil_r.
Qed.
