From Coq Require Import Extraction ExtrOcamlBasic.
From Common Require Import Conv Outcome.
From Gen Require Import Consts C07.
From C07 Require Import Model Shape.
From C07B Require Import Growth Model.
Extraction "c07b_model.ml" conv_anchor go_growth gm_of new_ctx M_ctx_apply ctx_apply_log new_layouter M_layouter_layout S_layout reader_shape implemented.
