(* C07B/Props.v — part C07B of property C07: the stateful shell around the
   shaping engine.  The theorems are about M_ctx_apply / M_layouter_layout
   (coq/C07B/Model.v: gtab.Context and sfnt.Layouter with every field that
   survives a call), for EVERY growth policy of the Go runtime, any tables, any
   GDEF, any history of calls of any length; they are obtained by refinement to
   C07's M_shape (imported, nothing about the engine is proved again).
   Nothing else. *)
From Coq Require Import List NArith ZArith Bool Arith Lia.
From Common Require Import Outcome.
From Gen Require Import Consts C07 C07B.
From C07 Require Import Model Shape Proofs_len.
From C07B Require Import Growth Model Util Proofs_sim Proofs_inv Proofs_hist Proofs_lay Proofs_props Tie.
Import ListNotations.

(* (1) The invariant over the surviving state - no frame left on ctx.stack
   (and no InputPos capacity without a frame), ctx.keep = the keep function of
   the lookup ctx.lookup points to (nil before the first lookup ran) - holds for
   a new Context and in every state any history of calls that returned can lead
   to; the tables and the header of the caller's lookup slice never change.  On
   tables of reader shape EVERY call returns, the calls that end in the action
   budget or in out-of-range sequence / lookup indices included (they are Ok
   paths of the model, not Panic). *)
Theorem ctx_state_invariant : forall gr ll gd n c,
  ctx_inv (new_ctx ll gd n c) /\
  (forall st, reach gr (new_ctx ll gd n c) st ->
     ctx_inv st /\ cs_ll st = ll /\ cs_gd st = gd /\ cs_nlk st = (n, c)) /\
  (reader_shape ll = true -> implemented ll = true ->
   forall st inp, reach gr (new_ctx ll gd n c) st -> exists st' out, M_ctx_apply gr st inp = Ok (st', out)).
Proof. exact ctx_state_invariant_gen. Qed.
Print Assumptions ctx_state_invariant.

(* ... and everything else that survives is irrelevant: two states with the
   same tables and no frame on the stack - whatever ctx.seq, ctx.lookup,
   ctx.keep, the scratch buffer (contents, capacity), the dead frames behind
   len(ctx.stack) and the capacities are - give the caller the same result
   (returned slice over its whole capacity, the caller's array). *)
Theorem ctx_dead_state_irrelevant : forall gr st1 st2 inp,
  cs_ll st1 = cs_ll st2 -> cs_gd st1 = cs_gd st2 -> cs_nlk st1 = cs_nlk st2 ->
  cs_stack st1 = [] -> cs_stack st2 = [] ->
  omap snd (M_ctx_apply gr st1 inp) = omap snd (M_ctx_apply gr st2 inp).
Proof. exact ctx_dead_state_irrelevant_gen. Qed.
Print Assumptions ctx_dead_state_irrelevant.

(* (2) History independence of gtab.Context: in any history on one Context the
   i-th call gives the caller exactly what a brand-new Context gives for the
   same input (memory included), and the glyphs it returns are C07's M_shape on
   a FRESH state for the lookups the caller's slice holds at that moment. *)
Theorem ctx_history_independent : forall gr ll gd n c hist i r,
  nth_error (run_ctx gr (new_ctx ll gd n c) hist) i = Some r ->
  exists inp, nth_error hist i = Some inp /\
    omap snd r = omap snd (M_ctx_apply gr (new_ctx ll gd n c) inp) /\
    omap (fun x => view (ao_ret (snd x))) r
      = omap fst (M_shape ll gd (firstn n (ai_lookups inp)) [] (view (ai_seq inp))).
Proof. exact ctx_history_independent_gen. Qed.
Print Assumptions ctx_history_independent.

(* (3) History independence of sfnt.Layouter: the glyphs of the i-th Layout
   call are S_layout's (cmap, GSUB on a fresh context, widths, GPOS on a fresh
   context) - whatever the reused buffer and the two reused contexts went
   through before. *)
Theorem layouter_history_independent : forall gr ft gd gsub gpos hist i r,
  nth_error (run_lay gr (new_layouter ft gd gsub gpos) hist) i = Some r ->
  exists s, nth_error hist i = Some s /\
    omap (fun x => view (lo_ret (snd x))) r = S_layout ft gd gsub gpos s.
Proof. exact layouter_history_independent_gen. Qed.
Print Assumptions layouter_history_independent.

(* What a caller may rely on for the slice Layout returned (doc comment: "owned
   by the Layouter and only valid until the next call to Layout", Tie.v): it IS
   the Layouter's buffer; the next call that does not have to reallocate writes
   its own result over it (the array of the old result then starts with the
   new glyphs).  The stronger reading - the old result survives the next call -
   is refuted in Examples.v (layout_previous_result_stable_refuted). *)
Theorem layout_result_valid_until_next_call : forall gr ft gd gsub gpos st s st' out,
  lay_reach gr (new_layouter ft gd gsub gpos) st ->
  M_layouter_layout gr st s = Ok (st', out) ->
  S_layout ft gd gsub gpos s = Ok (view (lo_ret out)) /\
  ls_buf st' = lo_ret out /\
  (lo_reused out = true ->
     lo_prev out = gm_arr (lo_ret out) /\ firstn (gm_len (lo_ret out)) (lo_prev out) = view (lo_ret out)).
Proof. exact layout_any_history. Qed.
Print Assumptions layout_result_valid_until_next_call.

(* (4) The caller's glyph slice.  Apply works in place: [ao_caller] is what the
   array behind the input slice (first element to capacity) holds afterwards.
   Its length is unchanged; nothing at or behind the high-water mark [ao_hw]
   (the largest length the sequence had while it lived in this array) is
   touched; the mark is at least the input length, and while the result still
   lives in the array it is at most the capacity: the spare capacity is written
   only as far as a lengthening substitution reached (append semantics). *)
Theorem caller_slices_untouched : forall gr st inp st' out,
  M_ctx_apply gr st inp = Ok (st', out) ->
  let arr0 := gm_arr (ai_seq inp) in
  let n0 := gm_len (ai_seq inp) in
  length (ao_caller out) = length arr0 /\
  skipn (ao_hw out) (ao_caller out) = skipn (ao_hw out) arr0 /\
  n0 <= ao_hw out /\
  (ao_shared out = true ->
     ao_caller out = gm_arr (ao_ret out) /\ gm_len (ao_ret out) <= ao_hw out /\ ao_hw out <= length arr0).
Proof. exact ctx_apply_footprint. Qed.
Print Assumptions caller_slices_untouched.

(* ... and when no multiple substitution of the lookup list has a replacement
   longer than one glyph (ll_K <= 1: all of GPOS, ligatures, single and
   contextual substitutions): only positions below len are written, the
   result is the caller's array, never longer, same capacity. *)
Theorem caller_slices_untouched_no_growth : forall gr st inp st' out,
  ll_K (cs_ll st) <= 1 -> M_ctx_apply gr st inp = Ok (st', out) ->
  let arr0 := gm_arr (ai_seq inp) in
  let n0 := gm_len (ai_seq inp) in
  ao_shared out = true /\ ao_hw out = n0 /\ gm_len (ao_ret out) <= n0 /\
  ao_caller out = gm_arr (ao_ret out) /\
  skipn n0 (gm_arr (ao_ret out)) = skipn n0 arr0 /\ gm_cap (ao_ret out) = gm_cap (ai_seq inp).
Proof. exact ctx_apply_tight. Qed.
Print Assumptions caller_slices_untouched_no_growth.

(* The lookup-index slice and the feature maps: M_ctx_apply / new_layouter
   have no output for them - the model cannot write them; that the code does
   not either is Tie.v (no assignment through ctx.lookups, gsubFeatures,
   gposFeatures, includeFeature in the AST) and the oracle (sentinels).  What
   NewContext does NOT do is copy the slice: every call reads the caller's
   array again (ctx_history_independent: firstn n (ai_lookups inp)); witness
   newcontext_copies_lookups_refuted in Examples.v. *)

(* (5) The keep function in use: in every state any history can lead to, every
   time a lookup is applied during a call (top level or nested), ctx.lookup is a
   lookup i of the list and the keep function in use is newKeepFunc of lookup
   i's own flags / mark filtering set and the context's GDEF - C07's keepf, as a
   function.  (The state field ctx.keep is READ by the model, not recomputed:
   a stale entry would show here.) *)
Theorem keep_cache_sound : forall gr ll gd n c st inp lg,
  reach gr (new_ctx ll gd n c) st -> ctx_apply_log gr st inp = Ok lg ->
  Forall (fun ev => match ev with
                    | EvUse l k => exists i lk, l = Some i /\ nth_error ll i = Some lk /\
                                     k = new_keep_func gd lk /\ kf_keep gd k = keepf gd lk
                    | _ => True
                    end) lg.
Proof. exact keep_cache_sound_gen. Qed.
Print Assumptions keep_cache_sound.

(* the refinement behind (2), (3): one Apply call on ANY state is C07's
   M_shape started with the frames the state holds *)
Theorem apply_refines_engine : forall gr st inp,
  omap proj2 (ctx_run gr st inp)
  = M_shape (cs_ll st) (cs_gd st) (ctx_lookups st inp) (cs_stack st) (view (ai_seq inp)).
Proof. exact ctx_run_refines. Qed.
Print Assumptions apply_refines_engine.
