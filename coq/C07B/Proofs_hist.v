(* C07B/Proofs_hist.v — gtab.Context over histories of Apply calls: the state
   invariant, refinement of every call to C07's M_shape on a FRESH context,
   the keep function in use, the footprint in the caller's memory. *)
From Coq Require Import List NArith ZArith Bool Arith Lia.
From Common Require Import Outcome.
From Gen Require Import Consts C07.
From C07 Require Import Model Shape Util Proofs Proofs_term Proofs_len Proofs_err Proofs_full.
From C07B Require Import Growth Model Util Proofs_sim Proofs_inv.
Import ListNotations.

(* ------------------------------------------------------------------ *)
(* the invariant over the surviving state                              *)

Definition ctx_inv (st : ctx_state) : Prop :=
  cs_stack st = [] /\
  b_caps (cs_bufs st) = [] /\
  match cs_lookup st with
  | Some i => exists lk, nth_error (cs_ll st) i = Some lk /\ cs_keep st = new_keep_func (cs_gd st) lk
  | None => cs_keep st = None
  end.

Lemma new_ctx_inv ll gd n c : ctx_inv (new_ctx ll gd n c).
Proof. unfold ctx_inv, new_ctx. cbn. auto. Qed.

Lemma omap_ok_inv {A B} (f : A -> B) x y : omap f x = Ok y -> exists a, x = Ok a /\ y = f a.
Proof. destruct x; cbn; intros H; try discriminate H. inversion H; eauto. Qed.

(* one Apply call, as C07 sees it: M_shape started with the frames the state holds *)
Lemma ctx_run_refines gr st inp :
  omap proj2 (ctx_run gr st inp)
  = M_shape (cs_ll st) (cs_gd st) (ctx_lookups st inp) (cs_stack st) (view (ai_seq inp)).
Proof. unfold ctx_run, M_shape. rewrite sim_apply_lookups. reflexivity. Qed.

Lemma ctx_apply_inv gr st inp st' out :
  ctx_inv st -> M_ctx_apply gr st inp = Ok (st', out) ->
  ctx_inv st' /\ cs_ll st' = cs_ll st /\ cs_gd st' = cs_gd st /\ cs_nlk st' = cs_nlk st /\ cs_calls st' = S (cs_calls st).
Proof.
  intros (Hs & Hc & Hl) H. unfold M_ctx_apply in H.
  apply omap_ok_inv in H. destruct H as (e & He & Hf).
  unfold ctx_finish in Hf. inversion Hf; subst st' out; clear Hf.
  unfold ctx_inv. cbn [cs_stack cs_bufs cs_lookup cs_keep cs_ll cs_gd cs_nlk cs_calls].
  assert (Hstack : e_stack e = []).
  { pose proof (ctx_run_refines gr st inp) as Hr. rewrite He, Hs in Hr. cbn in Hr.
    symmetry in Hr. apply apply_lookups_stack in Hr. exact Hr. }
  repeat split; try reflexivity.
  - exact Hstack.
  - pose proof (aligned_apply_lookups gr (cs_ll st) (cs_gd st) (cs_bufs st) (ctx_lookups st inp) (ctx_eng0 st inp) e) as Ha.
    unfold aligned in Ha. cbn [ctx_eng0 e_log e_stack b_run fold_right] in Ha.
    rewrite Hc, Hs, Hstack in Ha. specialize (Ha eq_refl He).
    destruct (b_caps (b_run gr (e_log e) (cs_bufs st))); [reflexivity|discriminate Ha].
  - pose proof (consistent_apply_lookups gr (cs_ll st) (cs_gd st) (ctx_lookups st inp) (ctx_eng0 st inp) e) as Hk.
    unfold lk_consistent in Hk. cbn [ctx_eng0 e_lookup e_keep] in Hk. apply Hk; [exact Hl|exact He].
Qed.

(* the states a Context can be in: any history of calls that returned *)
Inductive reach (gr : growth) (st0 : ctx_state) : ctx_state -> Prop :=
| reach_refl : reach gr st0 st0
| reach_step st inp st' out : reach gr st0 st -> M_ctx_apply gr st inp = Ok (st', out) -> reach gr st0 st'.

Lemma reach_inv gr ll gd n c st :
  reach gr (new_ctx ll gd n c) st ->
  ctx_inv st /\ cs_ll st = ll /\ cs_gd st = gd /\ cs_nlk st = (n, c).
Proof.
  induction 1 as [|st inp st' out _ IH Hm].
  - split; [apply new_ctx_inv|]. cbn. auto.
  - destruct IH as (Hi & H1 & H2 & H3).
    destruct (ctx_apply_inv gr st inp st' out Hi Hm) as (Hi' & E1 & E2 & E3 & _).
    split; [exact Hi'|]. rewrite E1, E2, E3. auto.
Qed.

(* on tables of reader shape every call returns (also the calls that run into
   the action budget or into out-of-range indices) *)
Lemma ctx_apply_total gr st inp :
  cs_stack st = [] -> reader_shape (cs_ll st) = true -> implemented (cs_ll st) = true ->
  exists st' out, M_ctx_apply gr st inp = Ok (st', out).
Proof.
  intros Hs Hr Hi.
  destruct (apply_total (cs_ll st) (cs_gd st) Hr Hi (ctx_lookups st inp) (view (ai_seq inp))) as (s' & Hm).
  pose proof (ctx_run_refines gr st inp) as Hc. rewrite Hs, Hm in Hc.
  apply omap_ok_inv in Hc. destruct Hc as (e & He & _).
  unfold M_ctx_apply. rewrite He. cbn. destruct (ctx_finish gr st inp e) as [st' out]. eauto.
Qed.

(* ------------------------------------------------------------------ *)
(* history independence                                                *)

Definition fresh_of (st : ctx_state) : ctx_state :=
  new_ctx (cs_ll st) (cs_gd st) (fst (cs_nlk st)) (snd (cs_nlk st)).

(* what the caller observes (returned slice over its capacity, the caller's
   array) does not depend on the state at all, as long as no frames are left *)
Lemma ctx_apply_fresh gr st inp :
  cs_stack st = [] ->
  omap snd (M_ctx_apply gr st inp) = omap snd (M_ctx_apply gr (fresh_of st) inp).
Proof.
  intros Hs. unfold M_ctx_apply, ctx_run.
  assert (Hl : ctx_lookups (fresh_of st) inp = ctx_lookups st inp) by reflexivity.
  rewrite Hl. change (cs_ll (fresh_of st)) with (cs_ll st). change (cs_gd (fresh_of st)) with (cs_gd st).
  pose proof (dead_lk_apply_lookups gr (cs_ll st) (cs_gd st) (ctx_lookups st inp) (ctx_eng0 st inp) (ctx_eng0 (fresh_of st) inp)) as Hd.
  assert (Hsame : same_but_lk (ctx_eng0 st inp) (ctx_eng0 (fresh_of st) inp)).
  { unfold same_but_lk, ctx_eng0. cbn. rewrite Hs. auto 6. }
  specialize (Hd Hsame).
  destruct (c_apply_lookups gr (cs_ll st) (cs_gd st) (ctx_lookups st inp) (ctx_eng0 st inp)) as [e1| | |];
    destruct (c_apply_lookups gr (cs_ll st) (cs_gd st) (ctx_lookups st inp) (ctx_eng0 (fresh_of st) inp)) as [e2| | |];
    cbn in Hd; try contradiction; try reflexivity.
  destruct Hd as (H1 & H2 & H3 & _). cbn. unfold ctx_finish. cbn [snd]. rewrite H1, H2, H3. reflexivity.
Qed.

(* ... and the glyphs it returns are C07's M_shape of a fresh context *)
Lemma ctx_apply_shape gr st inp :
  cs_stack st = [] ->
  omap (fun r => view (ao_ret (snd r))) (M_ctx_apply gr st inp)
  = omap fst (M_shape (cs_ll st) (cs_gd st) (ctx_lookups st inp) [] (view (ai_seq inp))).
Proof.
  intros Hs. pose proof (ctx_run_refines gr st inp) as Hr. rewrite Hs in Hr. rewrite <- Hr. unfold M_ctx_apply.
  destruct (ctx_run gr st inp) as [e| | |]; reflexivity.
Qed.

Lemma run_ctx_nth gr : forall hist st i r,
  ctx_inv st -> nth_error (run_ctx gr st hist) i = Some r ->
  exists inp, nth_error hist i = Some inp /\
    omap snd r = omap snd (M_ctx_apply gr (fresh_of st) inp) /\
    omap (fun x => view (ao_ret (snd x))) r
      = omap fst (M_shape (cs_ll st) (cs_gd st) (ctx_lookups st inp) [] (view (ai_seq inp))).
Proof.
  induction hist as [|inp rest IH]; intros st i r Hi H; cbn [run_ctx] in H.
  - destruct i; discriminate H.
  - pose proof Hi as (Hs & _).
    pose proof (ctx_apply_fresh gr st inp Hs) as Hf.
    pose proof (ctx_apply_shape gr st inp Hs) as Hsh.
    destruct (M_ctx_apply gr st inp) as [[st' out]| | |] eqn:E.
    + destruct i as [|i]; cbn [nth_error] in H.
      * inversion H; subst r. exists inp. cbn [nth_error]. auto.
      * destruct (ctx_apply_inv gr st inp st' out Hi E) as (Hi' & E1 & E2 & E3 & _).
        destruct (IH st' i r Hi' H) as (inp' & H1 & H2 & H3).
        exists inp'. cbn [nth_error]. split; [exact H1|].
        unfold fresh_of, ctx_lookups in *. rewrite E1, E2, E3 in *. auto.
    + destruct i as [|[|i]]; cbn in H; try discriminate H. inversion H; subst r. exists inp. cbn [nth_error]. auto.
    + destruct i as [|[|i]]; cbn in H; try discriminate H. inversion H; subst r. exists inp. cbn [nth_error]. auto.
    + destruct i as [|[|i]]; cbn in H; try discriminate H. inversion H; subst r. exists inp. cbn [nth_error]. auto.
Qed.

(* ------------------------------------------------------------------ *)
(* the keep function in use                                            *)

Lemma ctx_apply_log_sound gr st inp lg :
  ctx_inv st -> ctx_apply_log gr st inp = Ok lg -> Forall (use_sound (cs_ll st) (cs_gd st)) lg.
Proof.
  intros _ H. unfold ctx_apply_log in H. apply omap_ok_inv in H. destruct H as (e & He & ->).
  apply Forall_rev.
  apply (log_sound_apply_lookups gr (cs_ll st) (cs_gd st) (ctx_lookups st inp) (ctx_eng0 st inp) e); [|exact He].
  unfold log_sound. cbn. constructor.
Qed.

(* ------------------------------------------------------------------ *)
(* the footprint in the caller's memory                                *)

Lemma ctx_apply_footprint gr st inp st' out :
  M_ctx_apply gr st inp = Ok (st', out) ->
  let arr0 := gm_arr (ai_seq inp) in
  let n0 := gm_len (ai_seq inp) in
  length (ao_caller out) = length arr0 /\
  skipn (ao_hw out) (ao_caller out) = skipn (ao_hw out) arr0 /\
  n0 <= ao_hw out /\
  (ao_shared out = true ->
     ao_caller out = gm_arr (ao_ret out) /\ gm_len (ao_ret out) <= ao_hw out /\ ao_hw out <= length arr0).
Proof.
  intros H. unfold M_ctx_apply in H. apply omap_ok_inv in H. destruct H as (e & He & Hf).
  unfold ctx_finish in Hf. inversion Hf; subst st' out; clear Hf. cbn [ao_caller ao_hw ao_shared ao_ret].
  pose proof (foot_apply_lookups gr (cs_ll st) (cs_gd st) (gm_arr (ai_seq inp)) (gm_len (ai_seq inp))
                (ctx_lookups st inp) (ctx_eng0 st inp) e) as Hfoot.
  assert (H0 : foot (gm_arr (ai_seq inp)) (gm_len (ai_seq inp)) (ctx_eng0 st inp)).
  { unfold foot, carr, ctx_eng0. cbn. repeat split; auto.
    unfold gm_len, gm_arr. rewrite app_length. lia. }
  destruct (Hfoot H0 He) as (F1 & F2 & F3 & F4). unfold carr in *.
  destruct (e_orig e) as [o|]; repeat split; auto; try discriminate; apply F4; reflexivity.
Qed.

Lemma ctx_apply_tight gr st inp st' out :
  ll_K (cs_ll st) <= 1 -> M_ctx_apply gr st inp = Ok (st', out) ->
  let arr0 := gm_arr (ai_seq inp) in
  let n0 := gm_len (ai_seq inp) in
  ao_shared out = true /\ ao_hw out = n0 /\ gm_len (ao_ret out) <= n0 /\
  ao_caller out = gm_arr (ao_ret out) /\
  skipn n0 (gm_arr (ao_ret out)) = skipn n0 arr0 /\ gm_cap (ao_ret out) = gm_cap (ai_seq inp).
Proof.
  intros HK H. pose proof (ctx_apply_footprint gr st inp st' out H) as Hfp.
  unfold M_ctx_apply in H. apply omap_ok_inv in H. destruct H as (e & He & Hf).
  unfold ctx_finish in Hf. inversion Hf; subst st' out; clear Hf. cbn [ao_caller ao_hw ao_shared ao_ret] in *.
  pose proof (tight_apply_lookups gr (cs_ll st) (cs_gd st) (gm_len (ai_seq inp))
                (ctx_lookups st inp) (ctx_eng0 st inp) e HK) as Ht.
  assert (H0 : tight (gm_len (ai_seq inp)) (ctx_eng0 st inp)) by (unfold tight, ctx_eng0; cbn; auto).
  destruct (Ht H0 He) as (T1 & T2 & T3). rewrite T1 in *. cbn zeta in Hfp.
  destruct Hfp as (F1 & F2 & F3 & F4). rewrite T2 in *.
  repeat split; auto.
  unfold gm_cap. unfold gm_arr in F1. rewrite !app_length in F1. exact F1.
Qed.

(* every state a history run passes through is reachable *)
Lemma run_ctx_reach gr s0 : forall hist st i st' out,
  reach gr s0 st -> nth_error (run_ctx gr st hist) i = Some (Ok (st', out)) -> reach gr s0 st'.
Proof.
  induction hist as [|inp rest IH]; intros st i st' out Hr H; cbn [run_ctx] in H.
  - destruct i; discriminate H.
  - destruct (M_ctx_apply gr st inp) as [[st1 o1]| | |] eqn:E.
    + destruct i as [|i]; cbn [nth_error] in H.
      * inversion H; subst. eapply reach_step; eauto.
      * eapply IH; [|exact H]. eapply reach_step; eauto.
    + destruct i as [|[|i]]; cbn in H; discriminate H.
    + destruct i as [|[|i]]; cbn in H; discriminate H.
    + destruct i as [|[|i]]; cbn in H; discriminate H.
Qed.
