(* C07B/Tie.v — what the model assumes about the SHAPE of the code, compared
   with what the translator read off the Go AST on this run (coq/Gen/C07B.v).
   A new field in gtab.Context / keepFunc / nested / sfnt.Layouter (= state
   that survives a call and is not in ctx_state / lay_state), another place
   that builds or stores a keep function, a write through the caller's lookup
   slice or feature maps, a changed claim / release order of ctx.scratch in a
   contextual subtable, or a changed doc comment of Layout / NewContext / Apply
   breaks one of these equalities: the check reports a broken obligation and
   the model has to be looked at again. *)
From Coq Require Import List String.
From Gen Require Import C07B.
Import ListNotations.
Local Open Scope string_scope.

(* every field of the state records is one of the model's *)
Example tie_context_fields :
  gtab_Context_fields = ["lookups"; "ll"; "gdef"; "seq"; "lookup"; "keep"; "stack"; "scratch"].
Proof. reflexivity. Qed.
Example tie_nested_fields : gtab_nested_fields = ["InputPos"; "Actions"; "EndPos"].
Proof. reflexivity. Qed.
Example tie_keepfunc_fields : gtab_keepFunc_fields = ["Gdef"; "Meta"].
Proof. reflexivity. Qed.
Example tie_layouter_fields : sfnt_Layouter_fields = ["font"; "cmap"; "gsub"; "gpos"; "buf"].
Proof. reflexivity. Qed.
Example tie_info_fields : glyph_Info_fields = ["GID"; "Text"; "XOffset"; "YOffset"; "Advance"].
Proof. reflexivity. Qed.

(* keep functions are built by newKeepFunc from the lookup's own meta data at
   exactly these places (no cache), and ctx.keep / ctx.lookup are assigned at
   exactly these (set for the top-level lookup; swapped and restored around a
   nested lookup) *)
Example tie_keep_built : gtab_newKeepFunc_callers = ["Context.Apply"; "Context.applyAtRecursively"].
Proof. reflexivity. Qed.
Example tie_keep_written :
  gtab_writers_ctx_keep = ["Context.Apply"; "Context.applyAtRecursively"; "Context.applyAtRecursively"].
Proof. reflexivity. Qed.
Example tie_lookup_written :
  gtab_writers_ctx_lookup = ["Context.Apply"; "Context.applyAtRecursively"; "Context.applyAtRecursively"].
Proof. reflexivity. Qed.

(* what the caller hands in is never written: the lookup slice (NewContext
   stores it, nothing assigns to it or through it), the tables, the feature maps *)
Example tie_lookups_never_written : gtab_writers_ctx_lookups = [] /\ gtab_writers_ctx_lookups_elems = [].
Proof. split; reflexivity. Qed.
Example tie_newcontext_leaves_lookups : gtab_writers_NewContext_lookups = [].
Proof. reflexivity. Qed.
(* Apply assigns to its parameter seq (seq = ctx.seq) and never through it: all
   element writes go through ctx.seq inside the subtables *)
Example tie_apply_seq : gtab_writers_Apply_seq = ["Context.Apply"].
Proof. reflexivity. Qed.
Example tie_tables_never_written : gtab_writers_ctx_ll = [] /\ gtab_writers_ctx_gdef = [].
Proof. split; reflexivity. Qed.
Example tie_feature_maps_never_written :
  sfnt_writers_gsubFeatures = [] /\ sfnt_writers_gposFeatures = [] /\ gtab_writers_includeFeature = [].
Proof. repeat split; reflexivity. Qed.
Example tie_layouter_contexts_fixed : sfnt_writers_l_gsub = [] /\ sfnt_writers_l_gpos = [].
Proof. split; reflexivity. Qed.

(* the slice header ctx.seq changes only where the model's mem_step says
   (multiple substitution, ligature) and at the head of Apply; l.buf only in Layout *)
Example tie_seq_written : gtab_writers_ctx_seq = ["Gsub2_1.apply"; "Gsub4_1.apply"; "Context.Apply"].
Proof. reflexivity. Qed.
Example tie_buf_written : sfnt_writers_l_buf = ["Layouter.Layout"].
Proof. reflexivity. Qed.

(* ctx.stack / ctx.scratch: popped and cleared in applyAtRecursively, pushed /
   claimed / released by the six contextual subtables and nowhere else *)
Example tie_stack_written :
  gtab_writers_ctx_stack = ["Context.applyAtRecursively"; "Context.applyAtRecursively";
    "SeqContext1.apply"; "SeqContext1.apply:append"; "SeqContext2.apply"; "SeqContext2.apply:append";
    "SeqContext3.apply"; "SeqContext3.apply:append";
    "ChainedSeqContext1.apply"; "ChainedSeqContext1.apply:append"; "ChainedSeqContext2.apply"; "ChainedSeqContext2.apply:append";
    "ChainedSeqContext3.apply"; "ChainedSeqContext3.apply:append"].
Proof. reflexivity. Qed.
Example tie_scratch_written :
  gtab_writers_ctx_scratch = ["Context.applyAtRecursively";
    "SeqContext1.apply"; "SeqContext1.apply"; "SeqContext2.apply"; "SeqContext2.apply";
    "SeqContext3.apply:append"; "SeqContext3.apply"; "SeqContext3.apply"; "ChainedSeqContext1.apply"; "ChainedSeqContext1.apply";
    "ChainedSeqContext2.apply"; "ChainedSeqContext2.apply";
    "ChainedSeqContext3.apply"; "ChainedSeqContext3.apply"; "ChainedSeqContext3.apply"].
Proof. reflexivity. Qed.

(* the scratch protocol of every contextual subtable, in source order (sub_ops
   in Model.v mirrors it): the buffer is taken from ctx.scratch; a match claims
   it (ctx.scratch = nil) and hands it to the frame; every exit after the first
   append releases it (ctx.scratch = matchPos) *)
Example tie_scratch_sc1 : gtab_scratch_SeqContext1 =
  ["ret:-1"; "take:ctx.scratch"; "claim"; "push"; "frame:matchPos"; "ret:p"; "release:matchPos"; "ret:-1"].
Proof. reflexivity. Qed.
Example tie_scratch_sc2 : gtab_scratch_SeqContext2 =
  ["ret:-1"; "ret:-1"; "take:ctx.scratch"; "claim"; "push"; "frame:matchPos"; "ret:p"; "release:matchPos"; "ret:-1"].
Proof. reflexivity. Qed.
Example tie_scratch_sc3 : gtab_scratch_SeqContext3 =
  ["ret:-1"; "take:append(ctx.scratch[:0], p)"; "release:matchPos"; "ret:-1"; "claim"; "push"; "frame:matchPos"; "ret:p"].
Proof. reflexivity. Qed.
Example tie_scratch_cc1 : gtab_scratch_ChainedSeqContext1 =
  ["ret:-1"; "take:ctx.scratch"; "claim"; "push"; "frame:matchPos"; "ret:next"; "release:matchPos"; "ret:-1"].
Proof. reflexivity. Qed.
Example tie_scratch_cc2 : gtab_scratch_ChainedSeqContext2 =
  ["ret:-1"; "ret:-1"; "take:ctx.scratch"; "claim"; "push"; "frame:matchPos"; "ret:next"; "release:matchPos"; "ret:-1"].
Proof. reflexivity. Qed.
Example tie_scratch_cc3 : gtab_scratch_ChainedSeqContext3 =
  ["ret:-1"; "take:ctx.scratch[:0]"; "release:matchPos"; "ret:-1"; "release:matchPos"; "ret:-1";
   "claim"; "push"; "frame:matchPos"; "ret:next"].
Proof. reflexivity. Qed.

(* What the API documents.  Layout says that the returned slice is only valid
   until the next call (the model: lo_prev; the stronger reading is refuted in
   Examples.v).  NewContext and Apply say nothing about keeping the caller's
   lookup slice or working in place on the glyph slice; the model states what
   the code does (ctx_lookups reads the caller's array at every call; ao_caller). *)
Example tie_doc_layout : sfnt_doc_Layout =
  "Layout returns the glyph sequence for the given text. The returned slice is owned by the Layouter and is only valid until the next call to Layout.".
Proof. reflexivity. Qed.
Example tie_doc_newlayouter : sfnt_doc_NewLayouter = "NewLayouter creates a new layouter for the given cmap and lookups.".
Proof. reflexivity. Qed.
Example tie_doc_newcontext : gtab_doc_NewContext =
  "NewContext creates a new context, which can be used to apply the given lookups in the given order. The gdef parameter, if non-nil, is used to resolve glyph classes.".
Proof. reflexivity. Qed.
Example tie_doc_apply : gtab_doc_Apply =
  "Apply applies the lookups to the given sequence of glyphs. This is the main entry-point for external users of GSUB and GPOS tables.".
Proof. reflexivity. Qed.

(* the pop in applyAtRecursively hands the POPPED frame's InputPos to
   ctx.scratch (never the array of a frame that stays on the stack), and the
   stack is cleared when the loop ends *)
Example tie_scratch_pop : gtab_scratch_applyAtRecursively =
  ["ret:pos + 1"; "ret:pos + 1"; "release:ctx.stack[k].InputPos"; "stack:ctx.stack[:k]"; "stack:ctx.stack[:0]"; "ret:next"].
Proof. reflexivity. Qed.
