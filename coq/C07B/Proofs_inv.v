(* C07B/Proofs_inv.v — one induction over the mirrored loops of layout.go for
   every invariant of the concrete state: a predicate on the engine state that
   is preserved by each elementary step (a subtable fails / matches, a frame is
   popped, an action is consumed, a nested lookup is entered and left, the stack
   is cleared) holds after applyAt, the nested loop, applyAtRecursively, the
   outer loop and the whole Apply.  Instances: the buffer bookkeeping stays
   aligned with the frames; every keep function in use is its lookup's; the
   footprint in the caller's array. *)
From Coq Require Import List NArith ZArith Bool Arith Lia.
From Common Require Import Outcome.
From Gen Require Import Consts C07.
From C07 Require Import Model Shape Util Proofs Proofs_term Proofs_len.
From C07B Require Import Growth Model Util Proofs_sim.
Import ListNotations.

Section Closure.
Variable gr : growth.
Variable ll : list lookup.
Variable gd : option gdef.

Variable Q : subtable -> Prop.
Hypothesis Q_ll : forall i lk, nth_error ll i = Some lk -> Forall Q (lk_subs lk).

Variable P : eng -> Prop.
Hypothesis P_fail : forall e ops, P e -> P (log (EvFail ops) e).
Hypothesis P_match : forall e sub a b next s' k', P e -> Q sub ->
  apply_sub (kf_keep gd (e_keep e)) sub (eseq e) (e_stack e) a b = Ok (Some next, (s', k')) ->
  P (commit_match gr e sub (kf_keep gd (e_keep e)) a b s' k').
Hypothesis P_pop : forall e fr rest, P e -> e_stack e = fr :: rest ->
  P (log (EvPop (f_pos fr) (dead_of fr)) (set_stack e rest)).
Hypothesis P_consume : forall e fr rest acts', P e -> e_stack e = fr :: rest ->
  P (set_stack e (mkFrame (f_pos fr) acts' (f_end fr) :: rest)).
Hypothesis P_enter : forall e lidx lk, P e -> nth_error ll lidx = Some lk ->
  P (log (EvUse (Some lidx) (new_keep_func gd lk)) (set_lk e (Some lidx) (new_keep_func gd lk))).
Hypothesis P_setlk : forall e l k, P e -> P (set_lk e l k).
Hypothesis P_use : forall e lidx lk, P e -> top_inv ll gd e lidx lk -> P (log (EvUse (e_lookup e) (e_keep e)) e).
Hypothesis P_clear : forall e, P e -> P (log (EvClear (map dead_of (e_stack e))) (set_stack e [])).

Lemma close_apply_at : forall subs e a b r e',
  Forall Q subs -> P e -> c_apply_at gr gd subs e a b = Ok (r, e') -> P e'.
Proof.
  induction subs as [|sub rest IH]; intros e a b r e' HQ HP H; cbn [c_apply_at] in H.
  - inversion H; subst; exact HP.
  - inversion HQ; subst.
    destruct (apply_sub (kf_keep gd (e_keep e)) sub (eseq e) (e_stack e) a b) as [[[next|] [s' k']]| | |] eqn:E;
      cbn [obind] in H; try discriminate H.
    + inversion H; subst. eapply P_match; eauto.
    + eapply IH; [assumption| |exact H]. apply P_fail. exact HP.
Qed.

Lemma close_nested : forall fuel num next e next' e',
  P e -> c_nested_loop gr ll gd fuel num next e = Ok (next', e') -> P e'.
Proof.
  induction fuel as [|fuel IH]; intros num next e next' e' HP H.
  - cbn [c_nested_loop] in H. destruct (e_stack e) as [|fr rest]; [inversion H; subst; exact HP|].
    destruct (budget <=? num); [inversion H; subst; exact HP|discriminate H].
  - cbn [c_nested_loop] in H. destruct (e_stack e) as [|fr rest] eqn:Ek; [inversion H; subst; exact HP|].
    destruct (budget <=? num); [inversion H; subst; exact HP|].
    destruct (f_acts fr) as [|[seqidx lidx] acts'] eqn:Ea.
    + eapply IH; [|exact H]. apply P_pop; assumption.
    + assert (HP1 : P (set_stack e (mkFrame (f_pos fr) acts' (f_end fr) :: rest))) by (apply P_consume; assumption).
      destruct (nth_error (f_pos fr) seqidx) as [pos|]; [|eapply IH; [exact HP1|exact H]].
      destruct (nth_error ll lidx) as [lk|] eqn:El; [|eapply IH; [exact HP1|exact H]].
      destruct (oget (eseq e) pos) as [g| | |]; cbn [obind] in H; try discriminate H.
      destruct (kf_keep gd (new_keep_func gd lk) (g_gid g)); [|eapply IH; [exact HP1|exact H]].
      match type of H with obind ?x _ = _ => destruct x as [[r e3]| | |] eqn:E3; cbn [obind] in H; try discriminate H end.
      eapply IH; [|exact H]. apply P_setlk. cbn [snd].
      eapply close_apply_at; [eapply Q_ll; exact El| |exact E3].
      apply P_enter; assumption.
Qed.

Lemma close_apply_rec e lidx lk pos pos' e' :
  top_inv ll gd e lidx lk -> P e -> c_apply_rec gr ll gd e pos = Ok (pos', e') -> P e'.
Proof.
  intros Hi HP H. pose proof Hi as (Hl & Hn & Hk). unfold c_apply_rec in H.
  apply obind_ok in H. destruct H as (g & _ & H).
  assert (HP0 : P (log (EvUse (e_lookup e) (e_keep e)) e)) by (eapply P_use; eauto).
  destruct (negb (kf_keep gd (e_keep e) (g_gid g))); [inversion H; subst; exact HP0|].
  assert (Hc : cur_lookup ll e = Some lk) by (unfold cur_lookup; rewrite Hl; exact Hn).
  rewrite Hc in H.
  apply obind_ok in H. destruct H as ([[next|] e1] & E1 & H).
  - assert (HP1 : P e1) by (eapply close_apply_at; [eapply Q_ll; exact Hn|exact HP0|exact E1]).
    apply obind_ok in H. destruct H as ([next' e2] & E2 & H).
    injection H as _ He. subst e'. cbn [snd]. apply P_clear. eapply close_nested; eauto.
  - injection H as _ He. subst e'. eapply close_apply_at; [eapply Q_ll; exact Hn|exact HP0|exact E1].
Qed.

Lemma close_outer lidx lk : forall fuel pos e e',
  top_inv ll gd e lidx lk -> P e -> c_outer_loop gr ll gd fuel pos e = Ok e' -> P e'.
Proof.
  induction fuel as [|fuel IH]; intros pos e e' Hi HP H; cbn [c_outer_loop] in H.
  - destruct (length (eseq e) <=? pos); [inversion H; subst; exact HP|discriminate H].
  - destruct (length (eseq e) <=? pos); [inversion H; subst; exact HP|].
    destruct (c_apply_rec gr ll gd e pos) as [[pos1 e1]| | |] eqn:Er; cbn [obind] in H; try discriminate H.
    eapply IH; [| |exact H].
    + eapply top_inv_apply_rec; eauto.
    + eapply close_apply_rec; eauto.
Qed.

Lemma close_apply_lookup e lidx e' :
  P e -> c_apply_lookup gr ll gd e lidx = Ok e' -> P e'.
Proof.
  unfold c_apply_lookup. intros HP H.
  destruct (nth_error ll lidx) as [lk|] eqn:En; [|inversion H; subst; exact HP].
  eapply close_outer; [apply top_inv_set; exact En| |exact H]. apply P_setlk. exact HP.
Qed.

Lemma close_apply_lookups : forall lookups e e',
  P e -> c_apply_lookups gr ll gd lookups e = Ok e' -> P e'.
Proof.
  induction lookups as [|l rest IH]; intros e e' HP H; cbn [c_apply_lookups] in H.
  - inversion H; subst; exact HP.
  - destruct (c_apply_lookup gr ll gd e l) as [e1| | |] eqn:E1; cbn [obind] in H; try discriminate H.
    eapply IH; [|exact H]. eapply close_apply_lookup; eauto.
Qed.

End Closure.

(* ------------------------------------------------------------------ *)
(* Instance 1: the buffer bookkeeping has one capacity per live frame  *)

Section Aligned.
Variable gr : growth.
Variable ll : list lookup.
Variable gd : option gdef.
Variable b0 : bufs.

Definition aligned (e : eng) : Prop := length (b_caps (b_run gr (e_log e) b0)) = length (e_stack e).

Lemma map2_length {A B C} (f : A -> B -> C) : forall l1 l2, length l1 = length l2 -> length (map2 f l1 l2) = length l1.
Proof.
  induction l1 as [|x t IH]; intros [|y t2] H; cbn in *; try discriminate; [reflexivity|].
  f_equal. apply IH. lia.
Qed.

Lemma aligned_apply_lookups lookups e e' :
  aligned e -> c_apply_lookups gr ll gd lookups e = Ok e' -> aligned e'.
Proof.
  apply (close_apply_lookups gr ll gd (fun _ => True)); unfold aligned.
  - intros i lk _. apply Forall_forall. auto.
  - intros e0 ops H. cbn. destruct ops; cbn; exact H.
  - intros e0 sub a b next s' k' H _ Ha. unfold commit_match.
    destruct (mem_step gr (e_mem e0) (e_orig e0) (e_hw e0) a s') as [[m' o'] hw']. cbn [e_log e_stack b_run fold_right].
    destruct (sub_simple sub) eqn:Es.
    + apply apply_sub_simple_len in Ha; [|exact Es].
      cbn [b_step b_caps]. fold (b_run gr (e_log e0) b0). rewrite map2_length; [lia|]. rewrite map_length. lia.
    + apply apply_sub_ctx_push in Ha; [|exact Es]. destruct Ha as [f ->].
      cbn [b_step b_caps length]. fold (b_run gr (e_log e0) b0). lia.
  - intros e0 fr rest H Ek. cbn [log set_stack e_log e_stack b_run fold_right b_step].
    fold (b_run gr (e_log e0) b0). rewrite Ek in H. cbn [length] in H.
    destruct (b_caps (b_run gr (e_log e0) b0)) as [|c cs]; cbn in *; [discriminate|lia].
  - intros e0 fr rest acts' H Ek. cbn. rewrite Ek in H. exact H.
  - intros e0 lidx lk H _. cbn. exact H.
  - intros e0 l k H. cbn. exact H.
  - intros e0 lidx lk H _. cbn. exact H.
  - intros e0 H. cbn. reflexivity.
Qed.

End Aligned.

(* ------------------------------------------------------------------ *)
(* Instance 2: every keep function in use is the one of its lookup     *)

Section KeepSound.
Variable gr : growth.
Variable ll : list lookup.
Variable gd : option gdef.

(* EvUse l k: lookup l is about to be applied with keep function k *)
Definition use_sound (ev : event) : Prop :=
  match ev with
  | EvUse l k => exists i lk, l = Some i /\ nth_error ll i = Some lk /\ k = new_keep_func gd lk
  | _ => True
  end.

Definition log_sound (e : eng) : Prop := Forall use_sound (e_log e).

Lemma log_sound_apply_lookups lookups e e' :
  log_sound e -> c_apply_lookups gr ll gd lookups e = Ok e' -> log_sound e'.
Proof.
  apply (close_apply_lookups gr ll gd (fun _ => True)); unfold log_sound.
  - intros i lk _. apply Forall_forall. auto.
  - intros e0 ops H. cbn. constructor; [exact I|exact H].
  - intros e0 sub a b next s' k' H _ _. unfold commit_match.
    destruct (mem_step gr (e_mem e0) (e_orig e0) (e_hw e0) a s') as [[m' o'] hw']. cbn [e_log].
    constructor; [destruct (sub_simple sub); exact I|exact H].
  - intros e0 fr rest H _. cbn. constructor; [exact I|exact H].
  - intros e0 fr rest acts' H _. cbn. exact H.
  - intros e0 lidx lk H Hn. cbn. constructor; [|exact H]. cbn. eauto.
  - intros e0 l k H. cbn. exact H.
  - intros e0 lidx lk H (Hl & Hn & Hk). cbn. constructor; [|exact H]. cbn. eauto.
  - intros e0 H. cbn. constructor; [exact I|exact H].
Qed.

End KeepSound.

(* ------------------------------------------------------------------ *)
(* Instance 3: the footprint in the caller's array                     *)

Section Footprint.
Variable gr : growth.
Variable ll : list lookup.
Variable gd : option gdef.
Variable arr0 : list glyph.     (* the caller's array when Apply is called *)
Variable n0 : nat.              (* len of the slice *)

(* the caller's array now *)
Definition carr (e : eng) : list glyph :=
  match e_orig e with None => gm_arr (e_mem e) | Some o => o end.

Definition foot (e : eng) : Prop :=
  length (carr e) = length arr0 /\
  skipn (e_hw e) (carr e) = skipn (e_hw e) arr0 /\
  n0 <= e_hw e /\
  (e_orig e = None -> gm_len (e_mem e) <= e_hw e /\ e_hw e <= length arr0).

Lemma set_nth_length {A} (l : list A) a x : length (set_nth l a x) = length l.
Proof.
  unfold set_nth. destruct (upd l a x) as [l'|] eqn:E; [eapply upd_length; eauto|reflexivity].
Qed.

Lemma foot_mem_step e a s' m' o' hw' :
  foot e -> mem_step gr (e_mem e) (e_orig e) (e_hw e) a s' = (m', o', hw') ->
  foot (mkEng m' o' hw' (e_lookup e) (e_keep e) (e_stack e) (e_log e)).
Proof.
  unfold foot, carr, mem_step, gm_arr, gm_len. cbn [e_mem e_orig e_hw].
  intros (Hlen & Hsk & Hn & Hsh) Hm.
  set (live := gm_live (e_mem e)) in *. set (tail := gm_tail (e_mem e)) in *.
  destruct (length s' <=? length live) eqn:E1.
  - (* same length or shorter: in place *)
    apply Nat.leb_le in E1. inversion Hm; subst m' o' hw'; clear Hm. cbn [gm_live gm_tail].
    destruct (e_orig e) as [o|] eqn:Eo.
    + refine (conj _ (conj _ (conj _ _))); auto; intros Hc; discriminate Hc.
    + destruct (Hsh eq_refl) as [H1 H2].
      rewrite app_length in Hlen. fold live tail in Hlen.
      assert (Hz : length (s' ++ repeat gzero (length live - length s')) = length live)
        by (rewrite app_length, repeat_length; lia).
      repeat split.
      * rewrite app_assoc, app_length, Hz. exact Hlen.
      * rewrite app_assoc. rewrite skipn_app_ge by lia. rewrite Hz.
        rewrite <- Hsk. rewrite skipn_app_ge by exact H1. reflexivity.
      * exact Hn.
      * lia.
      * exact H2.
  - apply Nat.leb_gt in E1.
    destruct (length s' <=? length live + length tail) eqn:E2.
    + (* longer, inside the capacity *)
      apply Nat.leb_le in E2. inversion Hm; subst m' o' hw'; clear Hm. cbn [gm_live gm_tail].
      destruct (e_orig e) as [o|] eqn:Eo.
      * refine (conj _ (conj _ (conj _ _))); auto; intros Hc; discriminate Hc.
      * destruct (Hsh eq_refl) as [H1 H2].
        rewrite app_length in Hlen. fold live tail in Hlen.
        repeat split.
        -- rewrite app_length, skipn_length. lia.
        -- rewrite skipn_app_ge by lia.
           rewrite skipn_add.
           assert (Hs2 : skipn (Nat.max (e_hw e) (length s')) (live ++ tail) = skipn (Nat.max (e_hw e) (length s')) arr0).
           { replace (Nat.max (e_hw e) (length s')) with ((Nat.max (e_hw e) (length s') - e_hw e) + e_hw e) by lia.
             rewrite <- !skipn_add. rewrite Hsk. reflexivity. }
           rewrite <- Hs2. rewrite skipn_app_ge by lia. f_equal. lia.
        -- lia.
        -- lia.
        -- lia.
    + (* longer than the capacity: a new array *)
      inversion Hm; subst m' o' hw'; clear Hm. cbn [gm_live gm_tail].
      destruct (e_orig e) as [o|] eqn:Eo.
      * refine (conj _ (conj _ (conj _ _))); auto; intros Hc; discriminate Hc.
      * destruct (Hsh eq_refl) as [H1 H2].
        rewrite app_length in Hlen. fold live tail in Hlen.
        assert (Hl2 : length (match nth_error s' a with Some g => set_nth live a g | None => live end) = length live)
          by (destruct (nth_error s' a); [apply set_nth_length|reflexivity]).
        repeat split; try discriminate.
        -- rewrite app_length, Hl2. exact Hlen.
        -- rewrite skipn_app_ge by lia. rewrite Hl2. rewrite <- Hsk. rewrite skipn_app_ge by exact H1. reflexivity.
        -- exact Hn.
Qed.

Lemma foot_apply_lookups lookups e e' :
  foot e -> c_apply_lookups gr ll gd lookups e = Ok e' -> foot e'.
Proof.
  apply (close_apply_lookups gr ll gd (fun _ => True)).
  - intros i lk _. apply Forall_forall. auto.
  - intros e0 ops H. exact H.
  - intros e0 sub a b next s' k' H _ _. unfold commit_match.
    destruct (mem_step gr (e_mem e0) (e_orig e0) (e_hw e0) a s') as [[m' o'] hw'] eqn:Em.
    apply (foot_mem_step e0 a s' m' o' hw') in H; [|exact Em]. exact H.
  - intros e0 fr rest H _. exact H.
  - intros e0 fr rest acts' H _. exact H.
  - intros e0 lidx lk H _. exact H.
  - intros e0 l k H. exact H.
  - intros e0 lidx lk H _. exact H.
  - intros e0 H. exact H.
Qed.

(* when no multiple substitution can lengthen the sequence: never behind len, never moved *)
Definition tight (e : eng) : Prop := e_orig e = None /\ e_hw e = n0 /\ gm_len (e_mem e) <= n0.

Lemma tight_apply_lookups lookups e e' :
  ll_K ll <= 1 -> tight e -> c_apply_lookups gr ll gd lookups e = Ok e' -> tight e'.
Proof.
  intros HK.
  apply (close_apply_lookups gr ll gd (fun sub => sub_K sub <= 1)).
  - intros i lk Hn. pose proof (lookup_subs_K ll i lk Hn) as HF.
    eapply Forall_impl; [|exact HF]. intros sub Hs. cbv beta in *. lia.
  - intros e0 ops H. exact H.
  - intros e0 sub a b next s' k' (H1 & H2 & H3) HQ Ha. unfold commit_match.
    apply apply_sub_length in Ha. unfold eseq, view in Ha.
    unfold mem_step. unfold gm_len in H3.
    assert (Hle : length s' <=? length (gm_live (e_mem e0)) = true) by (apply Nat.leb_le; lia).
    rewrite Hle. unfold tight, gm_len. cbn. repeat split; try assumption. apply Nat.leb_le in Hle. lia.
  - intros e0 fr rest H _. exact H.
  - intros e0 fr rest acts' H _. exact H.
  - intros e0 lidx lk H _. exact H.
  - intros e0 l k H. exact H.
  - intros e0 lidx lk H _. exact H.
  - intros e0 H. exact H.
Qed.

End Footprint.
