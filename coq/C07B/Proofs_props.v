(* C07B/Proofs_props.v — the lemmas of Proofs_hist / Proofs_lay in the shape
   Props.v states them (histories start at NewContext / NewLayouter). *)
From Coq Require Import List NArith ZArith Bool Arith Lia.
From Common Require Import Outcome.
From Gen Require Import Consts C07.
From C07 Require Import Model Shape Util Proofs Proofs_term Proofs_len.
From C07B Require Import Growth Model Util Proofs_sim Proofs_inv Proofs_hist Proofs_lay.
Import ListNotations.

Lemma ctx_state_invariant_gen gr ll gd n c :
  ctx_inv (new_ctx ll gd n c) /\
  (forall st, reach gr (new_ctx ll gd n c) st ->
     ctx_inv st /\ cs_ll st = ll /\ cs_gd st = gd /\ cs_nlk st = (n, c)) /\
  (reader_shape ll = true -> implemented ll = true ->
   forall st inp, reach gr (new_ctx ll gd n c) st -> exists st' out, M_ctx_apply gr st inp = Ok (st', out)).
Proof.
  split; [apply new_ctx_inv|]. split; [intros st H; eapply reach_inv; exact H|].
  intros Hr Hi st inp H. destruct (reach_inv gr ll gd n c st H) as ((Hs & _) & E1 & _).
  apply ctx_apply_total; [exact Hs|rewrite E1; exact Hr|rewrite E1; exact Hi].
Qed.

Lemma ctx_dead_state_irrelevant_gen gr st1 st2 inp :
  cs_ll st1 = cs_ll st2 -> cs_gd st1 = cs_gd st2 -> cs_nlk st1 = cs_nlk st2 ->
  cs_stack st1 = [] -> cs_stack st2 = [] ->
  omap snd (M_ctx_apply gr st1 inp) = omap snd (M_ctx_apply gr st2 inp).
Proof.
  intros E1 E2 E3 S1 S2. rewrite (ctx_apply_fresh gr st1 inp S1), (ctx_apply_fresh gr st2 inp S2).
  unfold fresh_of. rewrite E1, E2, E3. reflexivity.
Qed.

Lemma ctx_history_independent_gen gr ll gd n c hist i r :
  nth_error (run_ctx gr (new_ctx ll gd n c) hist) i = Some r ->
  exists inp, nth_error hist i = Some inp /\
    omap snd r = omap snd (M_ctx_apply gr (new_ctx ll gd n c) inp) /\
    omap (fun x => view (ao_ret (snd x))) r
      = omap fst (M_shape ll gd (firstn n (ai_lookups inp)) [] (view (ai_seq inp))).
Proof.
  intros H. exact (run_ctx_nth gr hist (new_ctx ll gd n c) i r (new_ctx_inv ll gd n c) H).
Qed.

Lemma layouter_history_independent_gen gr ft gd gsub gpos hist i r :
  nth_error (run_lay gr (new_layouter ft gd gsub gpos) hist) i = Some r ->
  exists s, nth_error hist i = Some s /\
    omap (fun x => view (lo_ret (snd x))) r = S_layout ft gd gsub gpos s.
Proof.
  intros H.
  destruct (run_lay_nth gr hist (new_layouter ft gd gsub gpos) i r (new_layouter_inv ft gd gsub gpos) H) as (s & H1 & H2).
  exists s. split; [exact H1|].
  destruct (new_layouter_tabs ft gd gsub gpos) as [T1 T2]. rewrite T1, T2 in H2. exact H2.
Qed.

(* the states a Layouter can be in *)
Inductive lay_reach (gr : growth) (st0 : lay_state) : lay_state -> Prop :=
| lay_reach_refl : lay_reach gr st0 st0
| lay_reach_step st s st' out : lay_reach gr st0 st -> M_layouter_layout gr st s = Ok (st', out) -> lay_reach gr st0 st'.

Lemma lay_reach_inv gr ft gd gsub gpos st :
  lay_reach gr (new_layouter ft gd gsub gpos) st ->
  lay_inv st /\ ls_font st = ft /\ ls_gd st = gd /\ tab_of (ls_gsub st) = gsub /\ tab_of (ls_gpos st) = gpos.
Proof.
  induction 1 as [|st s st' out _ IH Hm].
  - split; [apply new_layouter_inv|]. destruct (new_layouter_tabs ft gd gsub gpos). cbn. auto.
  - destruct IH as (Hi & H1 & H2 & H3 & H4).
    destruct (layout_inv gr st s st' out Hi Hm) as (Hi' & E1 & E2 & E3 & E4 & _).
    split; [exact Hi'|]. rewrite E1, E2, E3, E4. auto.
Qed.

(* every Layout call in any history: the glyphs are S_layout's, the new buffer
   is the returned slice, and - when the buffer was not reallocated - the array
   the previous result lives in now starts with the new glyphs *)
Lemma layout_any_history gr ft gd gsub gpos st s st' out :
  lay_reach gr (new_layouter ft gd gsub gpos) st ->
  M_layouter_layout gr st s = Ok (st', out) ->
  S_layout ft gd gsub gpos s = Ok (view (lo_ret out)) /\
  ls_buf st' = lo_ret out /\
  (lo_reused out = true ->
     lo_prev out = gm_arr (lo_ret out) /\ firstn (gm_len (lo_ret out)) (lo_prev out) = view (lo_ret out)).
Proof.
  intros Hr Hm. destruct (lay_reach_inv gr ft gd gsub gpos st Hr) as (Hi & E1 & E2 & E3 & E4).
  pose proof (layout_refines gr st s Hi) as Hl. rewrite Hm, E1, E2, E3, E4 in Hl. cbn in Hl.
  destruct (layout_inv gr st s st' out Hi Hm) as (_ & _ & _ & _ & _ & Hb).
  split; [symmetry; exact Hl|]. split; [exact Hb|].
  intros Hu. eapply layout_overwrites_previous; eauto.
Qed.

Lemma keep_cache_sound_gen gr ll gd n c st inp lg :
  reach gr (new_ctx ll gd n c) st -> ctx_apply_log gr st inp = Ok lg ->
  Forall (fun ev => match ev with
                    | EvUse l k => exists i lk, l = Some i /\ nth_error ll i = Some lk /\
                                     k = new_keep_func gd lk /\ kf_keep gd k = keepf gd lk
                    | _ => True
                    end) lg.
Proof.
  intros Hr Hl. destruct (reach_inv gr ll gd n c st Hr) as (Hi & E1 & E2 & _).
  pose proof (ctx_apply_log_sound gr st inp lg Hi Hl) as Hs. rewrite E1, E2 in Hs.
  eapply Forall_impl; [|exact Hs]. intros [l k| | | | |] Hu; cbn in *; auto.
  destruct Hu as (i & lk & H1 & H2 & H3). exists i, lk. repeat split; auto.
  rewrite H3. apply kf_keep_new.
Qed.

Lemma run_lay_reach gr s0 : forall hist st i st' out,
  lay_reach gr s0 st -> nth_error (run_lay gr st hist) i = Some (Ok (st', out)) -> lay_reach gr s0 st'.
Proof.
  induction hist as [|s rest IH]; intros st i st' out Hr H; cbn [run_lay] in H.
  - destruct i; discriminate H.
  - destruct (M_layouter_layout gr st s) as [[st1 o1]| | |] eqn:E.
    + destruct i as [|i]; cbn [nth_error] in H.
      * inversion H; subst. eapply lay_reach_step; eauto.
      * eapply IH; [|exact H]. eapply lay_reach_step; eauto.
    + destruct i as [|[|i]]; cbn in H; discriminate H.
    + destruct i as [|[|i]]; cbn in H; discriminate H.
    + destruct i as [|[|i]]; cbn in H; discriminate H.
Qed.
