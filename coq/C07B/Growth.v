(* C07B/Growth.v — the capacity a Go slice gets when append / slices.Grow /
   slices.Insert has to reallocate (runtime.growslice of go1.23: nextslicecap
   followed by rounding up to a malloc size class).

   The THEOREMS of C07B do not depend on this file: every model function takes
   the growth policy as an argument (record [growth]) and the theorems hold for
   every policy.  [go_growth] is the instance the extracted model runs with; the
   correspondence compares the capacities it predicts with the capacities of
   the real slices after every call (buffers of gtab.Context and
   sfnt.Layouter), so a Go release with another policy shows up as a mismatch
   of capacities, never as a broken theorem.  Definitions only. *)
From Coq Require Import List NArith Arith Bool.
Import ListNotations.

(* growth policy: old capacity -> needed length -> new capacity *)
Record growth : Type := mkGrowth {
  gr_glyph : nat -> nat -> nat;    (* []glyph.Info : 40-byte elements holding a pointer *)
  gr_int : nat -> nat -> nat;      (* []int        : 8-byte elements, no pointers *)
  gr_ptr : nat -> nat -> nat       (* []*nested    : 8-byte pointers *)
}.

Local Open Scope N_scope.

(* runtime/sizeclasses.go: class_to_size (without the leading 0) *)
Definition class_to_size : list N :=
  [8; 16; 24; 32; 48; 64; 80; 96; 112; 128; 144; 160; 176; 192; 208; 224; 240; 256; 288; 320; 352; 384;
   416; 448; 480; 512; 576; 640; 704; 768; 896; 1024; 1152; 1280; 1408; 1536; 1792; 2048; 2304; 2688;
   3072; 3200; 3456; 4096; 4864; 5376; 6144; 6528; 6784; 6912; 8192; 9472; 9728; 10240; 10880; 12288;
   13568; 14336; 16384; 18432; 19072; 20480; 21760; 24576; 27264; 28672; 32768].

Fixpoint first_ge (l : list N) (x : N) : N :=
  match l with
  | [] => x
  | c :: t => if x <=? c then c else first_ge t x
  end.

(* runtime.roundupsize(size, noscan) *)
Definition roundupsize (size : N) (noscan : bool) : N :=
  if size <=? 32768 - 8 then
    let req := if negb noscan && (512 <? size) then size + 8 else size in
    first_ge class_to_size req - (req - size)
  else ((size + 8191) / 8192) * 8192.

(* runtime.nextslicecap(newLen, oldCap); the loop runs at most newLen times *)
Fixpoint grow_loop (fuel : nat) (newcap newlen : N) : N :=
  match fuel with
  | O => newlen
  | S f =>
    let nc := newcap + (newcap + 768) / 4 in
    if newlen <=? nc then nc else grow_loop f nc newlen
  end.

Definition nextslicecap (newlen oldcap : N) : N :=
  let dbl := oldcap + oldcap in
  if dbl <? newlen then newlen
  else if oldcap <? 256 then dbl
  else grow_loop (N.to_nat newlen) oldcap newlen.

(* growslice for elements of [esize] bytes *)
Definition go_cap (esize : N) (noscan : bool) (oldcap newlen : nat) : nat :=
  let nc := nextslicecap (N.of_nat newlen) (N.of_nat oldcap) in
  N.to_nat (roundupsize (nc * esize) noscan / esize).

Definition go_growth : growth :=
  mkGrowth (go_cap 40 false) (go_cap 8 true) (go_cap 8 false).
