(* C07B/Model.v — the STATEFUL shell around the shaping engine: gtab.Context
   (opentype/gtab/layout.go) and sfnt.Layouter (layout.go) with every field that
   survives a call, as the code has them.

   C07's M_shape is a function of tables and input; here the state is explicit:

     ctx.lookups   the caller's slice, NOT copied by NewContext: the state keeps
                   only the header (len, cap); every Apply reads the elements from
                   what the caller's array holds at that moment ([ai_lookups])
     ctx.ll, gdef  pointers to immutable tables
     ctx.seq       the glyph slice = the elements below len ([gm_live]) and the
                   spare capacity behind them ([gm_tail]); stale contents
                   beyond len are part of the value.  Apply works IN
                   PLACE on the caller's array until slices.Grow has to
                   reallocate ([e_orig]); what is left in the caller's array is
                   an output of the model ([ao_caller])
     ctx.lookup    index into ctx.ll (pointer)            } dead between calls,
     ctx.keep      nil or {Gdef, Meta} = (flags, set)     } READ from the state
     ctx.stack     live frames (C07's representation) + capacity of every
                   InputPos + the slots ctx.stack[len:cap] (pointers to dead
                   frames: len(InputPos), len(Actions), EndPos)
     ctx.scratch   nil or (contents, cap)
     Layouter.buf  glyph slice as above, reused by l.buf[:0] + append

   The engine proper (every Subtable.apply, fixStackInsert/Merge) is C07's
   [apply_sub], imported - not copied.  The loops of layout.go are mirrored
   again ([c_apply_at] ... [c_apply_lookups]) because they are the code that
   reads and writes the state; Proofs_sim.v shows that they compute exactly
   C07's loops on the abstraction (view of the array, live frames).

   Bookkeeping of the int buffers (capacities, scratch, dead slots) is a fold
   over the event log the mirrored loops write ([b_run]); results cannot depend
   on it by construction, it is compared with the real buffers after every call.

   Reallocation capacities come from a growth policy argument ([growth],
   Growth.v); no theorem depends on the policy.  Definitions only. *)
From Coq Require Import List NArith ZArith Bool Arith.
From Common Require Import Outcome.
From Gen Require Import Consts C07.
From C07 Require Import Model Shape.
From C07B Require Import Growth.
Import ListNotations.

(* ------------------------------------------------------------------ *)
(* Glyph slices                                                        *)

Definition gzero : glyph := mkG 0 [] 0 0 0.     (* glyph.Info{} *)

(* A slice = the part of its backing array it can reach: the elements below
   len ([gm_live]) and the spare capacity behind them ([gm_tail], stale
   contents included).  The array from the slice's first element to its
   capacity is gm_live ++ gm_tail. *)
Record gmem : Type := mkGM {
  gm_live : list glyph;    (* s[0:len] *)
  gm_tail : list glyph     (* s[len:cap] *)
}.

Definition view (m : gmem) : list glyph := gm_live m.
Definition gm_arr (m : gmem) : list glyph := gm_live m ++ gm_tail m.
Definition gm_len (m : gmem) : nat := length (gm_live m).
Definition gm_cap (m : gmem) : nat := length (gm_live m) + length (gm_tail m).

(* the slice arr[0:n] of an array *)
Definition gm_of (arr : list glyph) (n : nat) : gmem := mkGM (firstn n arr) (skipn n arr).

(* arr[a] = g; out of range: unchanged (only used below len) *)
Definition set_nth {A} (l : list A) (a : nat) (x : A) : list A :=
  match upd l a x with Some l' => l' | None => l end.

(* What a matching subtable applied at position [a] does to memory, given the
   new sequence [s'] it produced (C07's apply_sub):
     same length        elements written in place
     shorter (Gsub4_1)  slices.Delete: tail moved down, the freed elements
                        seq[len':len] are cleared
     longer (Gsub2_1)   seq[a].GID = repl[0] is written first; then slices.Grow:
                        inside the capacity the tail is moved up in place (the
                        caller's spare capacity is overwritten), otherwise a
                        new array is allocated and the old one keeps seq[a]'s
                        new GID and nothing else of this step
   [orig] = None while the slice still lives in the array Apply was given,
   Some a once it has moved (a = what the caller's array was left with);
   [hw] = largest length the slice had inside the caller's array. *)
Definition mem_step (gr : growth) (m : gmem) (orig : option (list glyph)) (hw : nat) (a : nat) (s' : list glyph)
  : gmem * option (list glyph) * nat :=
  let n := length (gm_live m) in
  let n' := length s' in
  let c := n + length (gm_tail m) in
  if n' <=? n then (mkGM s' (repeat gzero (n - n') ++ gm_tail m), orig, hw)
  else if n' <=? c then
    (mkGM s' (skipn (n' - n) (gm_tail m)), orig, match orig with None => Nat.max hw n' | Some _ => hw end)
  else
    (mkGM s' (repeat gzero (gr_glyph gr c n' - n')),
     match orig with
     | Some o => Some o
     | None => Some (match nth_error s' a with Some g => set_nth (gm_live m) a g | None => gm_live m end ++ gm_tail m)
     end, hw).

(* ------------------------------------------------------------------ *)
(* filter.go: *keepFunc as a value                                     *)

(* nil, or &keepFunc{Gdef: ctx.gdef, Meta: &{LookupFlags, MarkFilteringSet}} *)
Definition kf : Type := option (N * nat).

Definition new_keep_func (gd : option gdef) (lk : lookup) : kf :=
  match gd with
  | None => None
  | Some d =>
    match gd_class d with
    | None => None
    | Some _ => if N.eqb (lk_flags lk) 0 then None else Some (lk_flags lk, lk_mfs lk)
    end
  end.

Definition kf_keep (gd : option gdef) (k : kf) (g : N) : bool :=
  match k with
  | None => true
  | Some (fl, mfs) =>
    match gd with
    | None => true
    | Some d => match gd_class d with None => true | Some cls => keep_gdef d cls fl mfs g end
    end
  end.

(* ------------------------------------------------------------------ *)
(* What a contextual subtable does to its matchPos buffer              *)

(* matchPos = matchPos[:0]  /  matchPos = append(matchPos, p) *)
Inductive sc_op : Type := OpTrunc | OpApp (p : nat).

(* the input loop of the contextual matchers: the positions appended *)
Fixpoint match_fwd_ops {X} (test : N -> X -> bool) (keep : N -> bool) (s : list glyph) (lim p : nat)
         (items : list X) : option nat * list sc_op :=
  match items with
  | [] => (Some p, [])
  | it :: rest =>
    let gn := length rest in
    match skip_fwd keep s (S p) (lim - gn - S p) with
    | Ok p2 =>
      if lim <=? p2 + gn then (None, []) else
      match nth_error s p2 with
      | Some g =>
        if test (g_gid g) it
        then let r := match_fwd_ops test keep s lim p2 rest in (fst r, OpApp p2 :: snd r)
        else (None, [])
      | None => (None, [])
      end
    | _ => (None, [])
    end
  end.

Fixpoint seq_rules_ops (test : N -> N -> bool) (keep : N -> bool) (s : list glyph) (a b : nat)
         (rules : list seqrule) : list sc_op :=
  match rules with
  | [] => []
  | (input, _) :: rest =>
    (* matchPos = append(matchPos[:0], p) *)
    let r := match_fwd_ops test keep s b a input in
    OpTrunc :: OpApp a :: snd r ++
    match fst r with
    | Some _ => []
    | None => seq_rules_ops test keep s a b rest
    end
  end.

Fixpoint chain_rules_ops (tb ti tl : N -> N -> bool) (keep : N -> bool) (s : list glyph) (a b : nat)
         (rules : list chainrule) : list sc_op :=
  match rules with
  | [] => []
  | (back, input, look, _) :: rest =>
    match match_bwd tb keep s (S a) back with
    | Ok true =>
      let r := match_fwd_ops ti keep s b a input in
      OpTrunc :: OpApp a :: snd r ++
      match fst r with
      | Some p =>
        match match_fwd tl keep s (length s) p look [] with
        | Ok (Some _) => []
        | _ => chain_rules_ops tb ti tl keep s a b rest
        end
      | None => chain_rules_ops tb ti tl keep s a b rest
      end
    | _ => chain_rules_ops tb ti tl keep s a b rest
    end
  end.

(* The buffer operations of one Subtable.apply on matchPos, which starts as
   ctx.scratch.  When the subtable matches, the buffer becomes the frame's
   InputPos and ctx.scratch = nil; otherwise ctx.scratch = the buffer (no
   operation = ctx.scratch is not assigned).  Non-contextual subtables do not
   touch the buffer. *)
Definition sub_ops (sub : subtable) (keep : N -> bool) (s : list glyph) (a b : nat) : list sc_op :=
  let cset := fun (x : N) (c : covset) => set_mem c x in
  let gid := match nth_error s a with Some g => g_gid g | None => 0%N end in
  match sub with
  | SeqCtx1 cov rules =>
    match cov_find cov gid with
    | None => []
    | Some i => match nth_error rules i with None => [] | Some rs => seq_rules_ops eqN keep s a b rs end
    end
  | SeqCtx2 cov cls rules =>
    match cov_find cov gid with
    | None => []
    | Some _ =>
      match nth_error rules (N.to_nat (class_of cls gid)) with
      | None => []
      | Some rs => seq_rules_ops (fun x c => N.eqb (class_of cls x) c) keep s a b rs
      end
    end
  | SeqCtx3 input _ =>
    match input with
    | [] => []
    | c0 :: rest =>
      if negb (set_mem c0 gid) then []
      else OpTrunc :: OpApp a :: snd (match_fwd_ops cset keep s b a rest)
    end
  | Chain1 cov rules =>
    match cov_find cov gid with
    | None => []
    | Some i => match nth_error rules i with None => [] | Some rs => chain_rules_ops eqN eqN eqN keep s a b rs end
    end
  | Chain2 cov bcls icls lcls rules =>
    match cov_find cov gid with
    | None => []
    | Some _ =>
      match nth_error rules (N.to_nat (class_of icls gid)) with
      | None => []
      | Some rs =>
        chain_rules_ops (fun x c => N.eqb (class_of bcls x) c) (fun x c => N.eqb (class_of icls x) c)
                        (fun x c => N.eqb (class_of lcls x) c) keep s a b rs
      end
    end
  | Chain3 back input look _ =>
    match match_bwd cset keep s (S a) back with
    | Ok true =>
      (* matchPos := ctx.scratch[:0] *)
      match input with
      | [] => [OpTrunc]
      | c0 :: rest =>
        if b <=? a + length rest then [OpTrunc]
        else if set_mem c0 gid then OpTrunc :: OpApp a :: snd (match_fwd_ops cset keep s b a rest)
        else [OpTrunc]
      end
    | _ => []
    end
  | _ => []
  end.

(* ------------------------------------------------------------------ *)
(* The part of the Context the loops of layout.go read and write       *)

(* a dead frame as far as it can still be inspected: len(InputPos), len(Actions), EndPos *)
Definition dslot : Type := (nat * nat * nat)%type.
Definition dead_of (f : frame) : dslot := (length (f_pos f), length (f_acts f), f_end f).

(* What happened to the buffers, in the order it happened (the log carries
   digests - buffer operations, lengths - not the sequences themselves). *)
Inductive event : Type :=
| EvUse (lk : option nat) (k : kf)     (* ctx.lookup / the keep function about to be used for it *)
| EvFail (ops : list sc_op)            (* subtable.apply returned -1 after these operations on matchPos *)
| EvPush (ops : list sc_op)            (* a contextual subtable matched: frame pushed with InputPos = matchPos *)
| EvFix (lens : list nat)              (* a non-contextual subtable matched; len(InputPos) of the live frames afterwards *)
| EvPop (pos : list nat) (d : dslot)   (* frame popped: its InputPos, what is left of it *)
| EvClear (ds : list dslot).           (* ctx.stack = ctx.stack[:0]; the frames dropped, top first *)

Record eng : Type := mkEng {
  e_mem : gmem;                    (* ctx.seq *)
  e_orig : option (list glyph);
  e_hw : nat;
  e_lookup : option nat;           (* ctx.lookup *)
  e_keep : kf;                     (* ctx.keep *)
  e_stack : stack;                 (* ctx.stack[:len], top first *)
  e_log : list event               (* newest first *)
}.

Definition set_stack (e : eng) (k : stack) : eng :=
  mkEng (e_mem e) (e_orig e) (e_hw e) (e_lookup e) (e_keep e) k (e_log e).
Definition set_lk (e : eng) (l : option nat) (k : kf) : eng :=
  mkEng (e_mem e) (e_orig e) (e_hw e) l k (e_stack e) (e_log e).
Definition log (ev : event) (e : eng) : eng :=
  mkEng (e_mem e) (e_orig e) (e_hw e) (e_lookup e) (e_keep e) (e_stack e) (ev :: e_log e).

Definition eseq (e : eng) : list glyph := view (e_mem e).

Definition commit_match (gr : growth) (e : eng) (sub : subtable) (keep : N -> bool) (a b : nat)
           (s' : list glyph) (k' : stack) : eng :=
  match mem_step gr (e_mem e) (e_orig e) (e_hw e) a s' with
  | (m', o', hw') =>
    let ev := if sub_simple sub then EvFix (map (fun f => length (f_pos f)) k')
              else EvPush (sub_ops sub keep (eseq e) a b) in
    mkEng m' o' hw' (e_lookup e) (e_keep e) k' (ev :: e_log e)
  end.

(* applyAt: the subtables read ctx.keep *)
Fixpoint c_apply_at (gr : growth) (gd : option gdef) (subs : list subtable) (e : eng) (a b : nat)
  : outcome (option nat * eng) :=
  match subs with
  | [] => Ok (None, e)
  | sub :: rest =>
    let keep := kf_keep gd (e_keep e) in
    r <- apply_sub keep sub (eseq e) (e_stack e) a b ;;
    match r with
    | (Some next, (s', k')) => Ok (Some next, commit_match gr e sub keep a b s' k')
    | (None, _) => c_apply_at gr gd rest (log (EvFail (sub_ops sub keep (eseq e) a b)) e) a b
    end
  end.

(* the nested-action loop of applyAtRecursively *)
Fixpoint c_nested_loop (gr : growth) (ll : list lookup) (gd : option gdef) (fuel num next : nat) (e : eng)
  : outcome (nat * eng) :=
  match e_stack e with
  | [] => Ok (next, e)
  | fr :: rest =>
    if budget <=? num then Ok (next, e) else
    match fuel with
    | O => OutOfFuel
    | S fuel' =>
      match f_acts fr with
      | [] =>
        (* ctx.scratch = ctx.stack[k].InputPos; ctx.stack = ctx.stack[:k] *)
        let next' := match rest with [] => f_end fr | _ => next end in
        c_nested_loop gr ll gd fuel' num next' (log (EvPop (f_pos fr) (dead_of fr)) (set_stack e rest))
      | (seqidx, lidx) :: acts' =>
        let e1 := set_stack e (mkFrame (f_pos fr) acts' (f_end fr) :: rest) in
        match nth_error (f_pos fr) seqidx with
        | None => c_nested_loop gr ll gd fuel' (S num) next e1
        | Some pos =>
          match nth_error ll lidx with
          | None => c_nested_loop gr ll gd fuel' (S num) next e1
          | Some lk =>
            g <- oget (eseq e) pos ;;
            let keep := new_keep_func gd lk in          (* keep := newKeepFunc(lookup.Meta, ctx.gdef) *)
            if kf_keep gd keep (g_gid g) then
              (* oldLookup := ctx.lookup; ctx.lookup = lookup; oldKeep := ctx.keep; ctx.keep = keep *)
              let e2 := log (EvUse (Some lidx) keep) (set_lk e1 (Some lidx) keep) in
              r <- c_apply_at gr gd (lk_subs lk) e2 pos (f_end fr) ;;
              (* ctx.lookup = oldLookup; ctx.keep = oldKeep *)
              c_nested_loop gr ll gd fuel' (S num) next (set_lk (snd r) (e_lookup e) (e_keep e))
            else c_nested_loop gr ll gd fuel' (S num) next e1
          end
        end
      end
    end
  end.

(* ctx.lookup dereferenced *)
Definition cur_lookup (ll : list lookup) (e : eng) : option lookup :=
  match e_lookup e with Some i => nth_error ll i | None => None end.

Definition c_apply_rec (gr : growth) (ll : list lookup) (gd : option gdef) (e : eng) (pos : nat)
  : outcome (nat * eng) :=
  g <- oget (eseq e) pos ;;
  let e0 := log (EvUse (e_lookup e) (e_keep e)) e in
  if negb (kf_keep gd (e_keep e) (g_gid g)) then Ok (S pos, e0) else
  match cur_lookup ll e with
  | None => Panic                                    (* ctx.lookup is nil *)
  | Some lk =>
    r <- c_apply_at gr gd (lk_subs lk) e0 pos (length (eseq e)) ;;
    match r with
    | (None, e') => Ok (S pos, e')
    | (Some next, e') =>
      r2 <- c_nested_loop gr ll gd (nested_fuel (e_stack e')) 1 next e' ;;
      Ok (fst r2, log (EvClear (map dead_of (e_stack (snd r2)))) (set_stack (snd r2) []))
    end
  end.

Fixpoint c_outer_loop (gr : growth) (ll : list lookup) (gd : option gdef) (fuel pos : nat) (e : eng)
  : outcome eng :=
  if length (eseq e) <=? pos then Ok e else
  match fuel with
  | O => OutOfFuel
  | S fuel' =>
    let old_todo := length (eseq e) - pos in
    r <- c_apply_rec gr ll gd e pos ;;
    let pos1 := fst r in
    let e' := snd r in
    let pos2 := if old_todo + pos1 <=? length (eseq e') then length (eseq e') - old_todo + 1 else pos1 in
    c_outer_loop gr ll gd fuel' pos2 e'
  end.

(* one round of `for _, lookupIndex := range ctx.lookups` *)
Definition c_apply_lookup (gr : growth) (ll : list lookup) (gd : option gdef) (e : eng) (lidx : nat) : outcome eng :=
  match nth_error ll lidx with
  | None => Ok e
  | Some lk =>
    (* ctx.seq = seq; ctx.lookup = ctx.ll[lookupIndex]; ctx.keep = newKeepFunc(...) *)
    c_outer_loop gr ll gd (length (eseq e)) 0 (set_lk e (Some lidx) (new_keep_func gd lk))
  end.

Fixpoint c_apply_lookups (gr : growth) (ll : list lookup) (gd : option gdef) (lookups : list nat) (e : eng)
  : outcome eng :=
  match lookups with
  | [] => Ok e
  | l :: rest => e' <- c_apply_lookup gr ll gd e l ;; c_apply_lookups gr ll gd rest e'
  end.

(* ------------------------------------------------------------------ *)
(* Int buffers: ctx.scratch, InputPos capacities, ctx.stack[len:cap]    *)

Record islice : Type := mkIS { is_data : list nat; is_cap : nat }.    (* cap 0 = nil *)
Definition is_nil : islice := mkIS [] 0.

Definition is_op (gr : growth) (b : islice) (op : sc_op) : islice :=
  match op with
  | OpTrunc => mkIS [] (is_cap b)
  | OpApp p =>
    if length (is_data b) <? is_cap b then mkIS (is_data b ++ [p]) (is_cap b)
    else mkIS (is_data b ++ [p]) (gr_int gr (is_cap b) (S (length (is_data b))))
  end.

Definition is_run (gr : growth) (ops : list sc_op) (b : islice) : islice := fold_left (is_op gr) ops b.

Record bufs : Type := mkBufs {
  b_caps : list nat;              (* cap(InputPos) of the live frames, top first *)
  b_dead : list (option dslot);   (* ctx.stack[len:cap]; None = nil pointer *)
  b_scratch : islice
}.

Definition recap (gr : growth) (cap newlen : nat) : nat :=
  if newlen <=? cap then cap else gr_int gr cap newlen.

Fixpoint map2 {A B C} (f : A -> B -> C) (l1 : list A) (l2 : list B) : list C :=
  match l1, l2 with
  | x :: t1, y :: t2 => f x y :: map2 f t1 t2
  | _, _ => []
  end.

(* ctx.stack = append(ctx.stack, p) with [nlive] live frames *)
Definition push_dead (gr : growth) (nlive : nat) (dead : list (option dslot)) : list (option dslot) :=
  match dead with
  | _ :: t => t
  | [] => repeat None (gr_ptr gr nlive (S nlive) - S nlive)
  end.

Definition b_step (gr : growth) (ev : event) (bs : bufs) : bufs :=
  match ev with
  | EvUse _ _ => bs
  | EvFail ops =>
    match ops with
    | [] => bs                                      (* ctx.scratch is not assigned *)
    | _ => mkBufs (b_caps bs) (b_dead bs) (is_run gr ops (b_scratch bs))
    end
  | EvPush ops =>
    (* ctx.scratch = nil; ctx.stack = append(ctx.stack, &nested{InputPos: matchPos, ...}) *)
    mkBufs (is_cap (is_run gr ops (b_scratch bs)) :: b_caps bs) (push_dead gr (length (b_caps bs)) (b_dead bs)) is_nil
  | EvFix lens =>
    (* fixStackInsert: slices.Grow; fixStackMerge: slices.Insert - both reallocate exactly when the new length exceeds the capacity *)
    mkBufs (map2 (recap gr) (b_caps bs) lens) (b_dead bs) (b_scratch bs)
  | EvPop pos d =>
    (* ctx.scratch = ctx.stack[k].InputPos; ctx.stack = ctx.stack[:k] *)
    match b_caps bs with
    | c :: cs => mkBufs cs (Some d :: b_dead bs) (mkIS pos c)
    | [] => mkBufs [] (Some d :: b_dead bs) (mkIS pos (length pos))
    end
  | EvClear ds => mkBufs [] (rev (map (@Some dslot) ds) ++ b_dead bs) (b_scratch bs)
  end.

(* the log is newest first *)
Definition b_run (gr : growth) (lg : list event) (bs : bufs) : bufs := fold_right (b_step gr) bs lg.

(* ------------------------------------------------------------------ *)
(* gtab.Context                                                        *)

Record ctx_state : Type := mkCtx {
  cs_ll : list lookup;
  cs_gd : option gdef;
  cs_nlk : nat * nat;                      (* len, cap of ctx.lookups (the caller's slice) *)
  cs_seq : option (nat * nat * nat);       (* ctx.seq: nil, or set by call number n, with len and cap *)
  cs_lookup : option nat;
  cs_keep : kf;
  cs_stack : stack;
  cs_bufs : bufs;
  cs_calls : nat
}.

(* NewContext(ll, gdef, lookups) *)
Definition new_ctx (ll : list lookup) (gd : option gdef) (lklen lkcap : nat) : ctx_state :=
  mkCtx ll gd (lklen, lkcap) None None None [] (mkBufs [] [] is_nil) 0.

Record apply_in : Type := mkAI {
  ai_lookups : list nat;    (* what the caller's lookup array holds NOW, from the first element of the slice *)
  ai_seq : gmem             (* the slice handed to Apply *)
}.

Record apply_out : Type := mkAO {
  ao_ret : gmem;            (* the returned slice *)
  ao_shared : bool;         (* it still lives in the array of the input slice *)
  ao_caller : list glyph;   (* that array afterwards, from the input slice's first element to its capacity *)
  ao_hw : nat               (* ghost: largest length the sequence had inside that array *)
}.

Definition ctx_lookups (st : ctx_state) (inp : apply_in) : list nat := firstn (fst (cs_nlk st)) (ai_lookups inp).

Definition ctx_eng0 (st : ctx_state) (inp : apply_in) : eng :=
  mkEng (ai_seq inp) None (gm_len (ai_seq inp)) (cs_lookup st) (cs_keep st) (cs_stack st) [].

Definition ctx_finish (gr : growth) (st : ctx_state) (inp : apply_in) (e : eng) : ctx_state * apply_out :=
  let m := e_mem e in
  let ran := existsb (fun i => i <? length (cs_ll st)) (ctx_lookups st inp) in
  (mkCtx (cs_ll st) (cs_gd st) (cs_nlk st)
         (if ran then Some (cs_calls st, gm_len m, gm_cap m) else cs_seq st)
         (e_lookup e) (e_keep e) (e_stack e) (b_run gr (e_log e) (cs_bufs st)) (S (cs_calls st)),
   mkAO m (match e_orig e with None => true | Some _ => false end)
        (match e_orig e with None => gm_arr m | Some o => o end) (e_hw e)).

Definition ctx_run (gr : growth) (st : ctx_state) (inp : apply_in) : outcome eng :=
  c_apply_lookups gr (cs_ll st) (cs_gd st) (ctx_lookups st inp) (ctx_eng0 st inp).

(* Context.Apply *)
Definition M_ctx_apply (gr : growth) (st : ctx_state) (inp : apply_in) : outcome (ctx_state * apply_out) :=
  omap (ctx_finish gr st inp) (ctx_run gr st inp).

(* the uses of keep functions during the call, oldest first *)
Definition ctx_apply_log (gr : growth) (st : ctx_state) (inp : apply_in) : outcome (list event) :=
  omap (fun e => rev (e_log e)) (ctx_run gr st inp).

(* a history of Apply calls on one Context; it stops at the first call that does not return *)
Fixpoint run_ctx (gr : growth) (st : ctx_state) (hist : list apply_in) : list (outcome (ctx_state * apply_out)) :=
  match hist with
  | [] => []
  | inp :: rest =>
    match M_ctx_apply gr st inp with
    | Ok (st', out) => Ok (st', out) :: run_ctx gr st' rest
    | Err => [Err]
    | Panic => [Panic]
    | OutOfFuel => [OutOfFuel]
    end
  end.

(* ------------------------------------------------------------------ *)
(* sfnt.Layouter                                                       *)

Record font : Type := mkFont {
  ft_cmap : list (N * N);     (* cmap.Subtable.Lookup: rune -> gid, 0 when absent *)
  ft_nglyphs : nat;           (* Font.NumGlyphs() *)
  ft_widths : list Z          (* funit.Int16(Font.GlyphWidth(gid)) *)
}.

Record lay_state : Type := mkLay {
  ls_font : font;
  ls_gd : option gdef;                        (* font.Gdef *)
  ls_gsub : option (ctx_state * list nat);    (* l.gsub and the array behind its lookups (from FindLookups, private) *)
  ls_gpos : option (ctx_state * list nat);
  ls_buf : gmem                               (* l.buf *)
}.

(* NewLayouter; the lookup lists are what Info.FindLookups returned (C15) *)
Definition new_layouter (ft : font) (gd : option gdef) (gsub gpos : option (list lookup * list nat)) : lay_state :=
  let mk := fun (t : option (list lookup * list nat)) =>
    match t with
    | None => None
    | Some (ll, lks) => Some (new_ctx ll gd (length lks) (length lks), lks)
    end in
  mkLay ft gd (mk gsub) (mk gpos) (mkGM [] []).

Definition cmap_lookup (cm : list (N * N)) (r : N) : N :=
  match find (fun p => N.eqb (fst p) r) cm with Some p => snd p | None => 0%N end.

Definition char_glyph (cm : list (N * N)) (r : N) : glyph := mkG (cmap_lookup cm r) [r] 0 0 0.

(* seq = append(seq, glyph.Info{GID: gid, Text: []rune{r}}) for every rune *)
Fixpoint lay_append (gr : growth) (cm : list (N * N)) (rs : list N) (m : gmem) (orig : option (list glyph))
  : gmem * option (list glyph) :=
  match rs with
  | [] => (m, orig)
  | r :: rest =>
    let g := char_glyph cm r in
    match gm_tail m with
    | _ :: t => lay_append gr cm rest (mkGM (gm_live m ++ [g]) t) orig
    | [] =>
      let n := length (gm_live m) in
      lay_append gr cm rest (mkGM (gm_live m ++ [g]) (repeat gzero (gr_glyph gr n (S n) - S n)))
                 (match orig with None => Some (gm_live m) | Some o => Some o end)
    end
  end.

Definition is_mark (gd : option gdef) (gid : N) : bool :=
  match gd with
  | None => false
  | Some d => match gd_class d with None => false | Some cls => N.eqb (class_of cls gid) gdef_GlyphClassMark end
  end.

Definition set_width (ft : font) (gd : option gdef) (g : glyph) : glyph :=
  if N.to_nat (g_gid g) <? ft_nglyphs ft then
    if is_mark gd (g_gid g) then g
    else mkG (g_gid g) (g_text g) (g_xoff g) (g_yoff g) (nth (N.to_nat (g_gid g)) (ft_widths ft) 0%Z)
  else g.

Definition lay_widths (ft : font) (gd : option gdef) (m : gmem) : gmem :=
  mkGM (map (set_width ft gd) (gm_live m)) (gm_tail m).

(* seq = ctx.Apply(seq) inside Layout: the array the previous result lives in
   is left as ao_caller says when the sequence moves *)
Definition lay_stage (gr : growth) (c : option (ctx_state * list nat)) (m : gmem) (orig : option (list glyph))
  : outcome (option (ctx_state * list nat) * gmem * option (list glyph)) :=
  match c with
  | None => Ok (None, m, orig)
  | Some (st, lks) =>
    r <- M_ctx_apply gr st (mkAI lks m) ;;
    let out := snd r in
    Ok (Some (fst r, lks), ao_ret out,
        match orig with
        | Some o => Some o
        | None => if ao_shared out then None else Some (ao_caller out)
        end)
  end.

Record lay_out : Type := mkLO {
  lo_ret : gmem;             (* the returned slice = the new l.buf *)
  lo_reused : bool;          (* it lives in the array of the previous l.buf *)
  lo_prev : list glyph       (* the array of the previous l.buf (where the previous result lives) afterwards *)
}.

(* Layouter.Layout *)
Definition M_layouter_layout (gr : growth) (st : lay_state) (s : list N) : outcome (lay_state * lay_out) :=
  let ft := ls_font st in
  let '(m1, o1) := lay_append gr (ft_cmap ft) s (mkGM [] (gm_arr (ls_buf st))) None in
  r2 <- lay_stage gr (ls_gsub st) m1 o1 ;;
  let '(gsub', m2, o2) := r2 in
  let m3 := lay_widths ft (ls_gd st) m2 in
  r4 <- lay_stage gr (ls_gpos st) m3 o2 ;;
  let '(gpos', m4, o4) := r4 in
  Ok (mkLay ft (ls_gd st) gsub' gpos' m4,
      mkLO m4 (match o4 with None => true | Some _ => false end)
           (match o4 with None => gm_arr m4 | Some o => o end)).

Fixpoint run_lay (gr : growth) (st : lay_state) (hist : list (list N)) : list (outcome (lay_state * lay_out)) :=
  match hist with
  | [] => []
  | s :: rest =>
    match M_layouter_layout gr st s with
    | Ok (st', out) => Ok (st', out) :: run_lay gr st' rest
    | Err => [Err]
    | Panic => [Panic]
    | OutOfFuel => [OutOfFuel]
    end
  end.

(* ------------------------------------------------------------------ *)
(* Specification side: Layout as a function of font, tables and string  *)

Definition shape_stage (gd : option gdef) (t : option (list lookup * list nat)) (s : list glyph) : outcome (list glyph) :=
  match t with
  | None => Ok s
  | Some (ll, lks) => omap fst (M_shape ll gd lks [] s)
  end.

(* cmap, GSUB on a FRESH context, widths, GPOS on a FRESH context *)
Definition S_layout (ft : font) (gd : option gdef) (gsub gpos : option (list lookup * list nat)) (s : list N)
  : outcome (list glyph) :=
  s1 <- shape_stage gd gsub (map (char_glyph (ft_cmap ft)) s) ;;
  shape_stage gd gpos (map (set_width ft gd) s1).
