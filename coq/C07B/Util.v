(* C07B/Util.v — facts about C07's subtable functions that C07 itself did not
   need (how a match changes the NUMBER of frames) and list lemmas. *)
From Coq Require Import List NArith ZArith Bool Arith Lia.
From Common Require Import Outcome.
From C07 Require Import Model Shape Util Proofs Proofs_term.
Import ListNotations.

(* ------------------------------------------------------------------ *)
(* lists                                                               *)

Lemma skipn_app_ge {A} (l1 l2 : list A) n : length l1 <= n -> skipn n (l1 ++ l2) = skipn (n - length l1) l2.
Proof.
  intros H. rewrite skipn_app. rewrite (skipn_all2 l1) by lia. reflexivity.
Qed.

Lemma skipn_add {A} : forall y x (l : list A), skipn x (skipn y l) = skipn (x + y) l.
Proof.
  induction y as [|y IH]; intros x l.
  - rewrite Nat.add_0_r. reflexivity.
  - destruct l as [|h t]; [rewrite !skipn_nil; reflexivity|].
    rewrite Nat.add_succ_r. cbn [skipn]. apply IH.
Qed.

Lemma upd_length {A} : forall (l : list A) a x l', upd l a x = Some l' -> length l' = length l.
Proof.
  induction l as [|h t IH]; intros a x l' H; [destruct a; discriminate|].
  destruct a as [|a]; cbn [upd] in H.
  - inversion H; reflexivity.
  - destruct (upd t a x) as [t'|] eqn:E; [|discriminate]. inversion H; subst. cbn. f_equal. eapply IH; eauto.
Qed.

Lemma repeat_length' {A} (x : A) n : length (repeat x n) = n.
Proof. apply repeat_length. Qed.

(* ------------------------------------------------------------------ *)
(* how a matching subtable changes the number of frames                *)

Lemma seq_rules_some test keep s k a b rules r s' k' :
  seq_rules test keep s k a b rules = Ok (Some r, (s', k')) -> exists f, k' = f :: k.
Proof.
  induction rules as [|[input acts] rest IH]; cbn [seq_rules]; intros H.
  - unfold nomatch in H. inversion H.
  - brk H; try (apply IH; exact H). unfold push_frame in H. inversion H; subst. eauto.
Qed.

Lemma chain_rules_some tb ti tl keep s k a b rules r s' k' :
  chain_rules tb ti tl keep s k a b rules = Ok (Some r, (s', k')) -> exists f, k' = f :: k.
Proof.
  induction rules as [|[[[back input] look] acts] rest IH]; cbn [chain_rules]; intros H.
  - unfold nomatch in H. inversion H.
  - brk H; try (apply IH; exact H). unfold push_frame in H. inversion H; subst. eauto.
Qed.

Lemma lig_loop_len keep s k a b g0 ligs r s' k' :
  lig_loop keep s k a b g0 ligs = Ok (r, (s', k')) -> length k' = length k.
Proof.
  induction ligs as [|[comps out] rest IH]; cbn [lig_loop]; intros H.
  - unfold nomatch in H. inversion H; subst; reflexivity.
  - brk H; try (apply IH; exact H). inversion H; subst. apply fix_merge_length.
Qed.

(* a non-contextual subtable never changes the number of frames *)
Lemma apply_sub_simple_len keep sub s k a b r s' k' :
  sub_simple sub = true -> apply_sub keep sub s k a b = Ok (r, (s', k')) -> length k' = length k.
Proof.
  intros Hs. unfold apply_sub. intros H.
  destruct (oget s a) as [g| | |] eqn:Eg; cbn [obind] in H; try discriminate H.
  destruct sub; cbn [sub_simple] in Hs; try discriminate Hs; brk H; unfold nomatch in *;
    try (apply lig_loop_len in H; exact H);
    try (apply pair_apply_stack in H; subst; reflexivity);
    try (apply mark_attach_stack in H; subst; reflexivity);
    try (inversion H; subst; rewrite ?fix_insert_length; reflexivity).
  inversion H; subst. destruct l; rewrite ?fix_insert_length; reflexivity.
Qed.

(* a contextual subtable that matches pushes exactly one frame *)
Lemma apply_sub_ctx_push keep sub s k a b r s' k' :
  sub_simple sub = false -> apply_sub keep sub s k a b = Ok (Some r, (s', k')) -> exists f, k' = f :: k.
Proof.
  intros Hs. unfold apply_sub. intros H.
  destruct (oget s a) as [g| | |] eqn:Eg; cbn [obind] in H; try discriminate H.
  destruct sub; cbn [sub_simple] in Hs; try discriminate Hs; brk H; unfold nomatch, push_frame in *;
    try (apply seq_rules_some in H; exact H);
    try (apply chain_rules_some in H; exact H);
    try (inversion H; subst; eauto; fail).
Qed.
