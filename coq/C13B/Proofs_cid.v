(* C13B/Proofs_cid.v — CID-keyed fonts: the sections of Write and their layout. *)
From Coq Require Import List NArith ZArith Bool Arith Lia Permutation.
From Coq Require Import ZifyBool ZifyNat ZifyN.
From Common Require Import Bytes Outcome.
From Gen Require Import C13 C13B.
From C13 Require Import Model Util ModelDict ModelTables ModelLayout
  Proofs_index Proofs_layout Proofs_charset Proofs_encoding Proofs_fdselect.
From C13B Require Import ModelNum ModelStr ModelCDict ModelFont Util Proofs_num Proofs_str Proofs_cdict
  Proofs_fields Proofs_write Proofs_read Proofs_simple.
Import ListNotations.
Local Open Scope N_scope.

(* the Private DICT sections *)
Definition priv_sec (f : font) (a b i : nat) (p : privdict) : msec :=
  MDict (plain_entries (priv_dict p (f_defw f) (f_nomw f) (ODiff b (a + i)))).

Lemma priv_sections_eq f a b :
  priv_sections f a b = map (fun ip => priv_sec f a b (fst ip) (snd ip)) (combine (seq 0 (length (f_private f))) (f_private f)).
Proof. reflexivity. Qed.

Lemma combine_seq_nth {A} (l : list A) : forall s i x, nth_error l i = Some x ->
  nth_error (combine (seq s (length l)) l) i = Some ((s + i)%nat, x).
Proof.
  induction l as [|y l IH]; intros s i x H; [destruct i; discriminate|].
  destruct i as [|i]; cbn [length seq combine nth_error] in *.
  - inversion H; subst. rewrite Nat.add_0_r. reflexivity.
  - rewrite (IH (S s) i x H). f_equal. f_equal. lia.
Qed.

Lemma combine_seq_length {A} (l : list A) s : length (combine (seq s (length l)) l) = length l.
Proof. rewrite combine_length, seq_length. lia. Qed.

Lemma priv_sections_length f a b : length (priv_sections f a b) = length (f_private f).
Proof. rewrite priv_sections_eq, map_length. apply combine_seq_length. Qed.

Lemma priv_sections_nth f a b i p : nth_error (f_private f) i = Some p ->
  nth_error (priv_sections f a b) i = Some (priv_sec f a b i p).
Proof.
  intros H. rewrite priv_sections_eq. rewrite nth_error_map, (combine_seq_nth _ 0 i p H). reflexivity.
Qed.

Lemma priv_sections_in f a b s : In s (priv_sections f a b) ->
  exists i p, nth_error (f_private f) i = Some p /\ s = priv_sec f a b i p.
Proof.
  intros Hin. apply In_nth_error in Hin. destruct Hin as [i Hi].
  assert (Hl : (i < length (f_private f))%nat).
  { rewrite <- (priv_sections_length f a b). apply nth_error_Some. congruence. }
  destruct (nth_error (f_private f) i) as [p|] eqn:Ep; [|apply nth_error_None in Ep; lia].
  exists i, p. split; [exact Ep|]. rewrite (priv_sections_nth f a b i p Ep) in Hi. congruence.
Qed.

(* the Font DICTs *)
Definition fd_dict (a i : nat) (fm : list real) : list entry :=
  plain_entries (dput b_opPrivate [VLay (OSize (a + i)); VLay (OOffs (a + i))] (setFontMatrix b_opFontMatrix fm false [])).

Definition fd_dicts (f : font) : list (list entry) :=
  map (fun ifm => fd_dict 9 (fst ifm) (snd ifm)) (combine (seq 0 (length (f_private f))) (f_fontmatrices f)).

Definition c_top7 (f : font) (reg ord : str) (sup : Z) : cdict :=
  let p := ss_lookup [] reg in
  let q := ss_lookup (snd p) ord in
  dput b_opFDArray [VLay (OOffs 8)]
    (dput b_opFDSelect [VLay (OOffs 6)]
       (dput b_opCharStrings [VLay (OOffs 7)]
          (dput b_opCharset [VLay (OOffs 5)]
             (setFontMatrix b_opFontMatrix (fi_FontMatrix (f_info f)) true
                (dput b_opCIDCount [VInt (Z.of_N (lenN (f_glyphs f) mod 65536))]
                   (dput b_opROS [VInt (fst p); VInt (fst q); VInt sup] (M_makeTopDict (f_info f)))))))).

Definition c_data1 (reg ord : str) : list str := snd (ss_lookup (snd (ss_lookup [] reg)) ord).
Definition c_pt (f : font) reg ord sup := intern_entries (c_data1 reg ord) (sorted_entries (c_top7 f reg ord sup)).

Definition cid_secs (f : font) (nameIdx : list N) (topes : list entry) (strIdx charset fdsel csIdx : list N) : list msec :=
  [MHeader; MFixed nameIdx; MIndex [topes]; MLate strIdx; MFixed [0; 0];
   MFixed charset; MFixed fdsel; MFixed csIdx; MIndex (fd_dicts f)] ++
  priv_sections f 9 (9 + length (f_private f)) ++ [MFixed [0; 0]].

Section Cid.
Variable std_code exp_code : str -> option N.

Lemma sections_cid_inv f secs reg ord sup :
  f_ros f = Some (reg, ord, sup) -> M_write_sections std_code exp_code f = Ok secs ->
  exists nameIdx charset csIdx strIdx,
    f_glyphs f <> [] /\
    M_index_encode [fi_FontName (f_info f)] = Ok nameIdx /\
    M_charset_encode (map Z.of_N (f_gid2cid f)) = Ok charset /\
    M_index_encode (map snd (f_glyphs f)) = Ok csIdx /\
    (length (f_private f) <= length (f_fontmatrices f))%nat /\
    ss_encode (snd (c_pt f reg ord sup)) = Ok strIdx /\
    secs = cid_secs f nameIdx (fst (c_pt f reg ord sup)) strIdx charset
             (M_fdselect_encode (firstn (N.to_nat (lenN (f_glyphs f) mod 65536)) (f_fdselect f))) csIdx.
Proof.
  intros Hros. unfold M_write_sections. rewrite Hros.
  destruct (N.ltb_spec (lenN (f_glyphs f)) 1) as [H0|H0]; [discriminate|]. cbn [orb].
  destruct (M_index_encode [fi_FontName (f_info f)]) as [nameIdx| | |] eqn:En; cbn [obind]; try discriminate.
  unfold M_sections_cid.
  destruct (M_charset_encode (map Z.of_N (f_gid2cid f))) as [charset| | |] eqn:Ec; cbn [obind]; try discriminate.
  destruct (M_index_encode (map snd (f_glyphs f))) as [csIdx| | |] eqn:Ei; cbn [obind]; try discriminate.
  destruct (Nat.ltb_spec (length (f_fontmatrices f)) (length (f_private f))) as [Hlt|Hge]; [discriminate|].
  match goal with |- context [ss_encode ?x] => destruct (ss_encode x) as [strIdx| | |] eqn:Ess end; cbn [obind]; try discriminate.
  intros H. injection H as Hsecs.
  exists nameIdx, charset, csIdx, strIdx.
  split; [intros Hx; rewrite Hx in H0; cbn in H0; lia|]. split; [reflexivity|]. split; [reflexivity|].
  split; [reflexivity|]. split; [exact Hge|]. split; [exact Ess|]. rewrite <- Hsecs. reflexivity.
Qed.

End Cid.

(* ---------- layout operands of a CID-keyed font ---------- *)

Lemma setFontMatrix_nolay op fm isCID : lay_ops_all (setFontMatrix op fm isCID []) = [].
Proof.
  unfold setFontMatrix. destruct (reals_eqb fm _); [reflexivity|].
  unfold lay_ops_all. cbn [dput map concat snd]. rewrite lay_ops_reals. reflexivity.
Qed.

Lemma setFontMatrix_nostr op fm isCID : nostr (setFontMatrix op fm isCID []).
Proof.
  unfold setFontMatrix. destruct (reals_eqb fm _); [constructor|].
  cbn [dput]. constructor; [|constructor]. unfold nostr_args. cbn [snd]. apply strs_of_reals.
Qed.

Lemma fd_dict_ops a i fm o : In o (lay_ops_all (fd_dict a i fm)) -> o = OSize (a + i) \/ o = OOffs (a + i).
Proof.
  unfold fd_dict. intros Hin. rewrite plain_entries_nostr in Hin.
  2: { apply Forall_dput; [reflexivity|apply setFontMatrix_nostr]. }
  apply (Permutation_in _ (Permutation_sym (lay_ops_perm _ _ (sorted_perm _)))) in Hin.
  apply lay_ops_dput in Hin. destruct Hin as [Hin|Hin].
  - cbn in Hin. destruct Hin as [<-|[<-|[]]]; auto.
  - rewrite setFontMatrix_nolay in Hin. destruct Hin.
Qed.

Lemma priv_sec_ops f a b i p o : In o (lay_ops_all (plain_entries (priv_dict p (f_defw f) (f_nomw f) (ODiff b (a + i))))) ->
  o = ODiff b (a + i).
Proof.
  intros Hin. rewrite plain_entries_nostr in Hin by apply priv_dict_nostr.
  apply (Permutation_in _ (Permutation_sym (lay_ops_perm _ _ (sorted_perm _)))) in Hin.
  unfold priv_dict in Hin. apply lay_ops_dput in Hin. destruct Hin as [Hin|Hin]; [cbn in Hin; destruct Hin as [<-|[]]; reflexivity|].
  rewrite (nolay_all _ (privdict_nolay _ _ _)) in Hin. destruct Hin.
Qed.

Lemma fd_dicts_in f es : In es (fd_dicts f) -> exists i fm, (i < length (f_private f))%nat /\ es = fd_dict 9 i fm.
Proof.
  unfold fd_dicts. intros Hin. apply in_map_iff in Hin. destruct Hin as [[i fm] [<- Hin]].
  apply in_combine_l in Hin. apply in_seq in Hin. exists i, fm. split; [lia|reflexivity].
Qed.

Lemma nth_cid_priv f nameIdx topes strIdx charset fdsel csIdx i p :
  nth_error (f_private f) i = Some p ->
  nth (9 + i) (map abs_sec (cid_secs f nameIdx topes strIdx charset fdsel csIdx)) (SFixed 0) =
  SDict (abs_entries (plain_entries (priv_dict p (f_defw f) (f_nomw f) (ODiff (9 + length (f_private f)) (9 + i))))).
Proof.
  intros H. unfold cid_secs. rewrite map_app. rewrite app_nth2 by (cbn [map length]; lia).
  cbn [map length]. replace (9 + i - 9)%nat with i by lia.
  rewrite map_app. rewrite app_nth1.
  2: { rewrite map_length, priv_sections_length. apply nth_error_Some. congruence. }
  rewrite (nth_error_nth _ _ _ (map_nth_error abs_sec _ _ (priv_sections_nth f 9 _ i p H))). reflexivity.
Qed.

Lemma cid_secs_length f nameIdx topes strIdx charset fdsel csIdx :
  length (cid_secs f nameIdx topes strIdx charset fdsel csIdx) = (10 + length (f_private f))%nat.
Proof. unfold cid_secs. rewrite !app_length, priv_sections_length. cbn [length]. lia. Qed.

Lemma cid_layout_wf f nameIdx topes strIdx charset fdsel csIdx :
  (forall o, In o (lay_ops_all topes) -> o = OOffs 5 \/ o = OOffs 6 \/ o = OOffs 7 \/ o = OOffs 8) ->
  let asecs := map abs_sec (cid_secs f nameIdx topes strIdx charset fdsel csIdx) in
  Forall (wf asecs) (all_ops asecs).
Proof.
  intros Htop asecs. set (n := length (f_private f)).
  assert (Hlen : length asecs = (10 + n)%nat) by (subst asecs; rewrite map_length; apply cid_secs_length).
  assert (Hpriv_wf : forall i p, nth_error (f_private f) i = Some p ->
            wf asecs (OSize (9 + i)) /\ wf asecs (OOffs (9 + i)) /\ wf asecs (ODiff (9 + n) (9 + i))).
  { intros i p Hp. assert (Hi : (i < n)%nat) by (apply nth_error_Some; congruence).
    cbn [wf wf0]. rewrite Hlen. split; [|split; lia]. split; [lia|].
    eexists. split; [subst asecs; apply (nth_cid_priv f nameIdx topes strIdx charset fdsel csIdx i p Hp)|].
    apply Forall_forall. intros o Ho. rewrite abs_entries_ops in Ho.
    rewrite (priv_sec_ops f 9 _ i p o Ho). cbn [wf0]. rewrite Hlen. fold n. lia. }
  apply Forall_forall. intros o Hin. rewrite all_ops_eq in Hin.
  apply in_concat in Hin. destruct Hin as [ops [Hops Ho]].
  apply in_map_iff in Hops. destruct Hops as [s [<- Hs]].
  subst asecs. apply in_map_iff in Hs. destruct Hs as [m [<- Hm]].
  unfold cid_secs in Hm. apply in_app_or in Hm. destruct Hm as [Hm|Hm].
  - cbn [In] in Hm.
    destruct Hm as [<-|[<-|[<-|[<-|[<-|[<-|[<-|[<-|[<-|[]]]]]]]]]]; cbn [abs_sec ops_of] in Ho; try contradiction.
    + cbn [map concat] in Ho. rewrite app_nil_r in Ho. rewrite abs_entries_ops in Ho.
      destruct (Htop o Ho) as [-> | [-> | [-> | ->]]]; cbn [wf wf0]; rewrite Hlen; lia.
    + apply in_concat in Ho. destruct Ho as [l [Hl Ho]]. rewrite map_map in Hl.
      apply in_map_iff in Hl. destruct Hl as [es [<- Hes]]. rewrite abs_entries_ops in Ho.
      destruct (fd_dicts_in f es Hes) as (i & fm & Hi & ->).
      destruct (nth_error (f_private f) i) as [p|] eqn:Ep; [|apply nth_error_None in Ep; lia].
      destruct (Hpriv_wf i p Ep) as (A & B & _).
      destruct (fd_dict_ops 9 i fm o Ho) as [->| ->]; assumption.
  - apply in_app_or in Hm. destruct Hm as [Hm|[<-|[]]]; [|cbn [abs_sec ops_of] in Ho; contradiction].
    destruct (priv_sections_in f 9 _ m Hm) as (i & p & Hp & ->).
    unfold priv_sec in Ho. cbn [abs_sec ops_of] in Ho. rewrite abs_entries_ops in Ho.
    rewrite (priv_sec_ops f 9 _ i p o Ho). exact (proj2 (proj2 (Hpriv_wf i p Hp))).
Qed.

Lemma makeTopDict_good fi (P : entry -> Prop) :
  (forall op s, P (op, [VStr s])) -> (forall op z, P (op, [VInt z])) -> (forall op r, P (op, [VReal r])) ->
  good P 6 (M_makeTopDict fi).
Proof.
  intros P1 P2 P3. unfold M_makeTopDict.
  apply good_if2; [|unfold M_dict_number; destruct (real_to_int32 _); reflexivity|intros _; unfold M_dict_number; destruct (real_to_int32 _); auto].
  apply good_if2; [|unfold M_dict_number; destruct (real_to_int32 _); reflexivity|intros _; unfold M_dict_number; destruct (real_to_int32 _); auto].
  apply good_if2; [|reflexivity|intros _; auto].
  apply good_if1; [|reflexivity|intros _; auto].
  change 6 with (0 + 1 + 1 + 1 + 1 + 1 + 1).
  repeat (apply good_put_str; [|intros _; auto]).
  apply good_nil.
Qed.

Lemma lay_ops_setFontMatrix op fm isCID d o : In o (lay_ops_all (setFontMatrix op fm isCID d)) -> In o (lay_ops_all d).
Proof.
  unfold setFontMatrix. destruct (reals_eqb fm _); [auto|]. intros Hin. apply lay_ops_dput in Hin.
  destruct Hin as [Hin|Hin]; [rewrite lay_ops_reals in Hin; destruct Hin|exact Hin].
Qed.

Lemma c_data1_props reg ord :
  wf_table (c_data1 reg ord) /\ lenN (c_data1 reg ord) <= 2 /\
  sid_spec (c_data1 reg ord) reg (fst (ss_lookup [] reg)) /\
  sid_spec (c_data1 reg ord) ord (fst (ss_lookup (snd (ss_lookup [] reg)) ord)).
Proof.
  destruct (lookups_spec [reg; ord] [] wf_nil ltac:(apply small_of_bound; cbn; lia)) as (W & E & L & F).
  cbn [ss_lookups fst snd] in *. unfold c_data1. split; [exact W|]. split; [cbn [lenN] in L; lia|].
  inversion F as [|? ? ? ? F1 F']; subst. inversion F' as [|? ? ? ? F2 _]; subst. split; assumption.
Qed.

Lemma c_top7_small f reg ord sup :
  NoDup (keys (c_top7 f reg ord sup)) /\
  small (c_data1 reg ord ++ all_strs (sorted_entries (c_top7 f reg ord sup))).
Proof.
  destruct (c_data1_props reg ord) as (W & L & _).
  assert (G : good (fun _ => True) 6 (c_top7 f reg ord sup)).
  { unfold c_top7. cbv zeta. do 4 (apply good_dput; [|reflexivity|exact I]).
    apply good_setFontMatrix; [|exact I]. do 2 (apply good_dput; [|reflexivity|exact I]).
    apply makeTopDict_good; auto. }
  destruct G as (A & _ & C). split; [exact A|].
  unfold small. rewrite lenN_app. fold (nstrs (sorted_entries (c_top7 f reg ord sup))).
  rewrite <- (nstrs_perm _ _ (sorted_perm _)). pose proof nstd_val. lia.
Qed.

Lemma c_top_ops f reg ord sup o :
  In o (lay_ops_all (fst (c_pt f reg ord sup))) -> o = OOffs 5 \/ o = OOffs 6 \/ o = OOffs 7 \/ o = OOffs 8.
Proof.
  intros Hin. destruct (c_data1_props reg ord) as (W & _). destruct (c_top7_small f reg ord sup) as [_ Hsm].
  unfold c_pt in Hin. apply lay_ops_sorted_interned in Hin; [|exact W|exact Hsm].
  unfold c_top7 in Hin. cbv zeta in Hin.
  apply lay_ops_dput in Hin. destruct Hin as [Hin|Hin]; [cbn in Hin; destruct Hin as [<-|[]]; tauto|].
  apply lay_ops_dput in Hin. destruct Hin as [Hin|Hin]; [cbn in Hin; destruct Hin as [<-|[]]; tauto|].
  apply lay_ops_dput in Hin. destruct Hin as [Hin|Hin]; [cbn in Hin; destruct Hin as [<-|[]]; tauto|].
  apply lay_ops_dput in Hin. destruct Hin as [Hin|Hin]; [cbn in Hin; destruct Hin as [<-|[]]; tauto|].
  apply lay_ops_setFontMatrix in Hin.
  apply lay_ops_dput in Hin. destruct Hin as [Hin|Hin]; [cbn in Hin; destruct Hin|].
  apply lay_ops_dput in Hin. destruct Hin as [Hin|Hin]; [cbn in Hin; destruct Hin|].
  exfalso. assert (G : good nolay 6 (M_makeTopDict (f_info f))) by (apply makeTopDict_good; intros; reflexivity).
  rewrite (nolay_all _ (proj1 (proj2 G))) in Hin. destruct Hin.
Qed.

Section Cid2.
Variable std_code exp_code : str -> option N.

(* the layout operands of every font Write lays out refer to existing sections *)
Lemma write_layout_wf_cid f secs reg ord sup :
  f_ros f = Some (reg, ord, sup) -> M_write_sections std_code exp_code f = Ok secs ->
  Forall (wf (map abs_sec secs)) (all_ops (map abs_sec secs)).
Proof.
  intros Hros Hs. destruct (sections_cid_inv std_code exp_code f secs reg ord sup Hros Hs)
    as (nameIdx & charset & csIdx & strIdx & _ & _ & _ & _ & _ & _ & ->).
  apply cid_layout_wf. apply c_top_ops.
Qed.

Lemma write_layout_wf_simple f secs p :
  font_ok_simple f -> f_private f = [p] -> M_write_sections std_code exp_code f = Ok secs ->
  Forall (wf (map abs_sec secs)) (all_ops (map abs_sec secs)).
Proof.
  intros Hok Hp Hs. pose proof Hok as (_ & Hn & _).
  destruct (sections_simple_inv std_code exp_code f secs p Hok Hp Hs)
    as (nameIdx & encBlob & top3 & charset & csIdx & strIdx & _ & _ & _ & Hstage & _ & _ & _ & ->).
  apply (simple_layout_wf nameIdx (fst (s_pt f encBlob top3)) strIdx encBlob charset csIdx
           (s_priv_entries f p (nenc encBlob))).
  - intros o Ho. exact (s_top_ops std_code exp_code f encBlob top3 o Hn Hstage Ho).
  - intros o Ho. exact (s_priv_ops f p _ o Ho).
Qed.

End Cid2.

Section Refusal.
Variable std_code exp_code : str -> option N.

(* Write refuses glyph names whose string identifier does not fit 16 bits *)
Lemma write_ok_sids_fit f bytes :
  f_ros f = None -> lenN (f_glyphs f) < 65536 -> M_write std_code exp_code f = Ok bytes ->
  Forall (fun sid => (0 <= sid <= 65535)%Z) (fst (ss_lookups [] (map fst (f_glyphs f)))).
Proof.
  intros Hros Hn Hw. unfold M_write in Hw.
  destruct (M_write_sections std_code exp_code f) as [secs| | |] eqn:Es; cbn [obind] in Hw; try discriminate.
  clear Hw. unfold M_write_sections in Es. rewrite Hros in Es.
  destruct ((lenN (f_glyphs f) <? 1) || _); [discriminate|].
  destruct (M_index_encode [fi_FontName (f_info f)]) as [nameIdx| | |]; cbn [obind] in Es; try discriminate.
  unfold M_sections_simple in Es.
  rewrite (N.mod_small _ _ Hn), firstn_all_N in Es.
  match type of Es with obind ?X _ = _ => destruct X as [[encBlob top3]| | |] end; cbn [obind] in Es; try discriminate.
  destruct (M_charset_encode (fst (ss_lookups [] (map fst (f_glyphs f))))) as [charset| | |] eqn:Ec; cbn [obind] in Es; try discriminate.
  destruct (charset_ok_form _ _ Ec) as (ns & E & Hs). rewrite E. constructor; [lia|].
  apply Forall_forall. intros x Hin. apply in_map_iff in Hin. destruct Hin as [y [<- Hy]].
  rewrite Forall_forall in Hs. specialize (Hs y Hy). unfold Proofs_charset.small in Hs. lia.
Qed.

End Refusal.
