(* C13B/Proofs_write.v — Font.Write over abstract sections: the sizes the
   layout loop works with are the sizes of the bytes written, every section
   lies at its offset, the sections tile the file. *)
From Coq Require Import List NArith ZArith Bool Arith Lia Permutation.
From Coq Require Import ZifyBool ZifyNat ZifyN.
From Common Require Import Bytes Outcome.
From Gen Require Import C13 C13B.
From C13 Require Import Model Util ModelDict ModelTables ModelLayout Proofs_index Proofs_layout.
From C13B Require Import ModelNum ModelStr ModelCDict ModelFont Util Proofs_num Proofs_str Proofs_cdict Proofs_fields.
Import ListNotations.
Local Open Scope N_scope.

(* ---------- sizes ---------- *)

Lemma enc_entry_size lay e :
  lenN (enc_entry lay e) = entry_base e + sumN (map (fun o => int_size (lay o)) (lay_ops_of (snd e))).
Proof.
  unfold enc_entry, entry_base. rewrite lenN_app.
  assert (E : lenN (concat (map (enc_val lay) (snd e))) =
              sumN (map val_base (snd e)) + sumN (map (fun o => int_size (lay o)) (lay_ops_of (snd e)))).
  { induction (snd e) as [|v args IH]; [reflexivity|].
    cbn [map concat sumN]. rewrite lenN_app, IH. unfold lay_ops_of. cbn [map concat].
    rewrite map_app, sumN_app.
    destruct v; cbn [val_base enc_val app map sumN]; unfold int_size; lia. }
  rewrite E. lia.
Qed.

Lemma enc_entries_size lay es :
  lenN (enc_entries lay es) = dsize (fun o => int_size (lay o)) (abs_entries es).
Proof.
  unfold enc_entries, dsize, abs_entries. cbn [d_base d_ops].
  induction es as [|e es IH]; [reflexivity|].
  cbn [map concat sumN]. rewrite lenN_app, enc_entry_size, IH, map_app, sumN_app. lia.
Qed.

Lemma sec_bytes_size lay hdr s b : sec_bytes lay hdr s = Ok b ->
  lenN b = sec_size (fun o => int_size (lay o)) (abs_sec s).
Proof.
  destruct s as [|b0|b0|es|ds]; cbn [sec_bytes abs_sec sec_size]; intros H.
  - inversion H; reflexivity.
  - inversion H; reflexivity.
  - inversion H; reflexivity.
  - inversion H; subst. apply enc_entries_size.
  - rewrite (index_len_correct _ _ H). rewrite !map_map. f_equal.
    apply map_ext. intros es. apply enc_entries_size.
Qed.

Lemma map_outcome_ok {A B} (f : A -> outcome B) : forall l bl, map_outcome f l = Ok bl -> Forall2 (fun a b => f a = Ok b) l bl.
Proof.
  induction l as [|x l IH]; intros bl; cbn [map_outcome].
  - intros H; inversion H; constructor.
  - destruct (f x) as [y| | |] eqn:E; cbn [obind]; try discriminate.
    destruct (map_outcome f l) as [t| | |]; cbn [obind]; try discriminate.
    intros H; inversion H; subst. constructor; [exact E|apply IH; reflexivity].
Qed.

Lemma blobs_sizes lay hdr secs bl : map_outcome (sec_bytes lay hdr) secs = Ok bl ->
  map lenN bl = map (sec_size (fun o => int_size (lay o))) (map abs_sec secs).
Proof.
  intros H. apply map_outcome_ok in H. induction H as [|s b secs bl Hb F IH]; [reflexivity|].
  cbn [map]. rewrite IH, (sec_bytes_size _ _ _ _ Hb). reflexivity.
Qed.

(* ---------- positions ---------- *)

Lemma dropN_concat (bl : list (list N)) : forall j,
  dropN (concat bl) (sumN (firstn j (map lenN bl))) = concat (skipn j bl).
Proof.
  induction bl as [|b bl IH]; intros j.
  - destruct j; reflexivity.
  - destruct j as [|j]; cbn [map firstn sumN skipn concat].
    + apply dropN_zero.
    + rewrite <- (dropN_dropN (b ++ concat bl) (lenN b)). rewrite dropN_app. apply IH.
Qed.

Lemma lenN_concat_firstn (bl : list (list N)) j :
  sumN (firstn j (map lenN bl)) <= lenN (concat bl).
Proof. rewrite lenN_concat. apply sumN_firstn_le. Qed.

(* the written file *)
Record written := mkWritten {
  w_secs : list msec;
  w_offs : list Z;
  w_sizes : list N;
  w_blobs : list (list N);
  w_bytes : list N
}.

Definition w_lay (w : written) : operand -> Z := opval (map abs_sec (w_secs w)) (w_offs w).

(* what Write guarantees about its output *)
Definition write_facts (w : written) : Prop :=
  let asecs := map abs_sec (w_secs w) in
  w_bytes w = concat (w_blobs w) /\
  Forall2 (fun s b => sec_bytes (w_lay w) (hdr_offsize asecs (w_offs w)) s = Ok b) (w_secs w) (w_blobs w) /\
  map lenN (w_blobs w) = w_sizes w /\
  (Z.of_N (sumN (w_sizes w)) < 2147483648)%Z /\
  (forall j, (j < length (w_secs w))%nat -> nth_offs (w_offs w) j = Z.of_N (sumN (firstn j (w_sizes w)))) /\
  (forall j d, nth j asecs (SFixed 0) = SDict d -> Forall (wf0 asecs) (d_ops d) ->
     w_lay w (OSize j) = Z.of_N (nth j (w_sizes w) 0)).

Lemma write_facts_of secs bytes :
  Forall (wf (map abs_sec secs)) (all_ops (map abs_sec secs)) ->
  (Z.of_N (sumN (smax (map abs_sec secs))) < 2147483648)%Z ->
  (let asecs := map abs_sec secs in
   match M_layout asecs with
   | Ok (offs, _) =>
     bl <- map_outcome (sec_bytes (opval asecs offs) (hdr_offsize asecs offs)) secs ;; Ok (concat bl)
   | Err => Err | Panic => Panic | OutOfFuel => OutOfFuel
   end) = Ok bytes ->
  exists w, w_secs w = secs /\ w_bytes w = bytes /\ write_facts w.
Proof.
  intros Hwf Htot. cbv zeta. set (asecs := map abs_sec secs) in *.
  destruct (layout_main asecs Hwf Htot) as (offs & sizes & HL & Hs & Hsum & Hoffs & Hsize).
  unfold M_layout, layout_fuel. rewrite HL.
  destruct (map_outcome _ secs) as [bl| | |] eqn:Eb; cbn [obind]; try discriminate.
  intros H; inversion H; subst bytes.
  exists (mkWritten secs offs sizes bl (concat bl)). cbn [w_secs w_bytes]. split; [reflexivity|]. split; [reflexivity|].
  unfold write_facts, w_lay. cbn [w_secs w_offs w_sizes w_blobs w_bytes]. fold asecs.
  split; [reflexivity|]. split; [apply map_outcome_ok; exact Eb|].
  split.
  { rewrite (blobs_sizes _ _ _ _ Eb). rewrite Hs. unfold round_sizes. fold asecs. apply map_ext. intros s. reflexivity. }
  split; [exact Hsum|]. split; [|exact Hsize].
  intros j Hj. apply Hoffs. unfold asecs. rewrite map_length. exact Hj.
Qed.

(* section j of the file *)
Lemma section_at w j b : write_facts w -> nth_error (w_blobs w) j = Some b ->
  (j < length (w_secs w))%nat ->
  (0 <= nth_offs (w_offs w) j)%Z /\
  dropN (w_bytes w) (Z.to_N (nth_offs (w_offs w) j)) = b ++ concat (skipn (S j) (w_blobs w)) /\
  (nth_offs (w_offs w) j + Z.of_N (lenN b) <= Z.of_N (lenN (w_bytes w)))%Z.
Proof.
  intros (Hb & Hf & Hs & Hsum & Hoffs & _) Hn Hj.
  rewrite (Hoffs j Hj). split; [lia|]. rewrite N2Z.id, Hb, <- Hs. split.
  - rewrite dropN_concat.
    assert (E : skipn j (w_blobs w) = b :: skipn (S j) (w_blobs w)).
    { clear -Hn. revert j Hn. induction (w_blobs w) as [|x l IH]; intros j Hn; [destruct j; discriminate|].
      destruct j as [|j]; cbn in *; [inversion Hn; reflexivity|apply IH; exact Hn]. }
    rewrite E. reflexivity.
  - rewrite lenN_concat.
    assert (E : sumN (firstn j (map lenN (w_blobs w))) + lenN b <= sumN (map lenN (w_blobs w))).
    { clear -Hn. revert j Hn. induction (w_blobs w) as [|x l IH]; intros j Hn; [destruct j; discriminate|].
      destruct j as [|j]; cbn [nth_error map firstn sumN] in *; [inversion Hn; lia|specialize (IH j Hn); lia]. }
    lia.
Qed.

(* sections tile the file: consecutive, without gaps, the last one ends at the end *)
Lemma sections_tile w : write_facts w ->
  lenN (w_bytes w) = sumN (w_sizes w) /\
  forall j, (S j < length (w_secs w))%nat ->
    nth_offs (w_offs w) (S j) = (nth_offs (w_offs w) j + Z.of_N (nth j (w_sizes w) 0%N))%Z.
Proof.
  intros (Hb & Hf & Hs & Hsum & Hoffs & _). split.
  - rewrite Hb, lenN_concat, Hs. reflexivity.
  - intros j Hj. rewrite (Hoffs (S j) Hj), (Hoffs j ltac:(lia)).
    assert (Hl : (j < length (w_sizes w))%nat).
    { rewrite <- Hs, map_length. rewrite <- (Forall2_length' _ _ _ Hf). lia. }
    clear -Hl. revert j Hl. induction (w_sizes w) as [|x l IH]; intros j Hl; [cbn in Hl; lia|].
    destruct j as [|j]; cbn [firstn sumN nth length] in *; [destruct l; cbn; lia|].
    specialize (IH j ltac:(lia)). cbn [firstn sumN] in IH. lia.
Qed.

(* ---------- reading an INDEX that was written ---------- *)

Lemma index_rt_of_ok blobs bs : M_index_encode blobs = Ok bs ->
  forall size tail, lenN bs <= size -> M_index_read_fast size (bs ++ tail) = Ok (blobs, tail).
Proof.
  intros E size tail Hs. rewrite index_read_fast_eq.
  assert (B : lenN blobs < 65536 /\ sumN (map lenN blobs) + 1 < 4294967296).
  { unfold M_index_encode, M_index_header in E. rewrite lenN_map in E.
    destruct (N.leb_spec 65536 (lenN blobs)); [discriminate|]. split; [lia|].
    destruct (N.eqb_spec (lenN blobs) 0) as [E0|E0].
    - apply lenN_zero in E0. subst. cbn. lia.
    - destruct (N.ltb_spec 4 (off_size (sumN (map lenN blobs)))); [discriminate|].
      unfold off_size in *.
      destruct (sumN (map lenN blobs) + 1 <? 256) eqn:A; [apply N.ltb_lt in A; lia|].
      destruct (sumN (map lenN blobs) + 1 <? 65536) eqn:B; [apply N.ltb_lt in B; lia|].
      destruct (sumN (map lenN blobs) + 1 <? 16777216) eqn:C; [apply N.ltb_lt in C; lia|].
      destruct (sumN (map lenN blobs) + 1 <? 4294967296) eqn:D; [apply N.ltb_lt in D; lia|lia]. }
  exact (index_roundtrip_gen blobs bs (proj1 B) (proj2 B) E size tail Hs).
Qed.

Lemma index_count_of_ok blobs bs : M_index_encode blobs = Ok bs -> lenN blobs < 65536.
Proof.
  unfold M_index_encode, M_index_header. rewrite lenN_map.
  destruct (N.leb_spec 65536 (lenN blobs)); [discriminate|]. intros _. lia.
Qed.

Lemma empty_index : M_index_encode [] = Ok [0; 0].
Proof. reflexivity. Qed.

Lemma offs_size_le4 i : M_offs_size i <= 4.
Proof.
  unfold M_offs_size, cff_offsSize.
  destruct (i <? 256)%Z; [cbn; lia|]. destruct (i <? 65536)%Z; [cbn; lia|]. destruct (i <? 16777216)%Z; cbn; lia.
Qed.

(* ---------- values of the layout operands ---------- *)

Lemma sum_firstn_le_total (l : list N) j : sumN (firstn j l) <= sumN l.
Proof. apply sumN_firstn_le. Qed.

Lemma lay_offs w j : write_facts w -> (j < length (w_secs w))%nat ->
  w_lay w (OOffs j) = Z.of_N (sumN (firstn j (w_sizes w))) /\
  (0 <= w_lay w (OOffs j) < 2147483648)%Z.
Proof.
  intros (Hb & Hf & Hs & Hsum & Hoffs & _) Hj. unfold w_lay. cbn [opval opval0].
  rewrite (Hoffs j Hj). split; [reflexivity|]. pose proof (sum_firstn_le_total (w_sizes w) j). lia.
Qed.

Lemma lay_diff w a b : write_facts w -> (a < length (w_secs w))%nat -> (b <= a)%nat ->
  w_lay w (ODiff a b) = (w_lay w (OOffs a) - w_lay w (OOffs b))%Z /\
  (0 <= w_lay w (ODiff a b) < 2147483648)%Z.
Proof.
  intros Hw Ha Hb. destruct (lay_offs w a Hw Ha) as [Ea Ra]. destruct (lay_offs w b Hw ltac:(lia)) as [Eb Rb].
  unfold w_lay in *. cbn [opval opval0] in *.
  assert (Hle : (nth_offs (w_offs w) b <= nth_offs (w_offs w) a)%Z).
  { rewrite Ea, Eb. apply N2Z.inj_le. clear -Hb. revert a b Hb. induction (w_sizes w) as [|x l IH]; intros a b Hb.
    - destruct a, b; cbn; lia.
    - destruct b as [|b]; [cbn [firstn sumN]; lia|]. destruct a as [|a]; [lia|]. cbn [firstn sumN].
      specialize (IH a b ltac:(lia)). lia. }
  unfold wrap_i32. rewrite Z.mod_small by lia. lia.
Qed.

Lemma lay_size w j d : write_facts w ->
  nth j (map abs_sec (w_secs w)) (SFixed 0) = SDict d -> Forall (wf0 (map abs_sec (w_secs w))) (d_ops d) ->
  w_lay w (OSize j) = Z.of_N (nth j (w_sizes w) 0) /\ (0 <= w_lay w (OSize j) < 2147483648)%Z.
Proof.
  intros (Hb & Hf & Hs & Hsum & Hoffs & Hsz) Hd Hw0. rewrite (Hsz j d Hd Hw0). split; [reflexivity|].
  pose proof (nth_le_sumN (w_sizes w) j). lia.
Qed.

(* ---------- the statement about offsets, for any list of sections ---------- *)

Lemma nth_map_lenN' (bl : list (list N)) j b : nth_error bl j = Some b -> nth j (map lenN bl) 0 = lenN b.
Proof.
  revert j. induction bl as [|x bl IH]; intros j H; [destruct j; discriminate|].
  destruct j as [|j]; cbn in *; [inversion H; reflexivity|apply IH; exact H].
Qed.

Lemma write_offsets_gen secs bytes :
  Forall (wf (map abs_sec secs)) (all_ops (map abs_sec secs)) ->
  (Z.of_N (sumN (smax (map abs_sec secs))) < 2147483648)%Z ->
  (let asecs := map abs_sec secs in
   match M_layout asecs with
   | Ok (offs, _) =>
     bl <- map_outcome (sec_bytes (opval asecs offs) (hdr_offsize asecs offs)) secs ;; Ok (concat bl)
   | Err => Err | Panic => Panic | OutOfFuel => OutOfFuel
   end) = Ok bytes ->
  exists (lay : operand -> Z) (blobs : list (list N)) (pos : nat -> N) (hdr : N),
    bytes = concat blobs /\ length blobs = length secs /\
    Forall2 (fun s b => sec_bytes lay hdr s = Ok b) secs blobs /\
    (Z.of_N (lenN bytes) < 2147483648)%Z /\
    pos 0%nat = 0 /\
    (forall j b, nth_error blobs j = Some b ->
       pos (S j) = pos j + lenN b /\ pos (S j) <= lenN bytes /\
       dropN bytes (pos j) = b ++ concat (skipn (S j) blobs) /\
       lay (OOffs j) = Z.of_N (pos j)) /\
    pos (length secs) = lenN bytes /\
    (forall a b, (b <= a < length secs)%nat -> lay (ODiff a b) = (Z.of_N (pos a) - Z.of_N (pos b))%Z) /\
    (forall j d b, nth j (map abs_sec secs) (SFixed 0) = SDict d -> Forall (wf0 (map abs_sec secs)) (d_ops d) ->
       nth_error blobs j = Some b -> lay (OSize j) = Z.of_N (lenN b)).
Proof.
  intros Hwf Htot Hw. destruct (write_facts_of secs bytes Hwf Htot Hw) as (w & Ews & Ewb & Hfacts).
  pose proof Hfacts as (Hb & Hf & Hs & Hsum & Hoffs & Hsz).
  exists (w_lay w), (w_blobs w), (fun j => sumN (firstn j (w_sizes w))), (hdr_offsize (map abs_sec (w_secs w)) (w_offs w)).
  rewrite Ews in *. rewrite <- Ewb.
  assert (Hlen : length (w_blobs w) = length secs) by (symmetry; exact (Forall2_length' _ _ _ Hf)).
  destruct (sections_tile w Hfacts) as [Htot' _].
  split; [exact Hb|]. split; [exact Hlen|]. split; [exact Hf|]. split; [rewrite Htot'; exact Hsum|].
  split; [reflexivity|]. split.
  { intros j b Hn.
    assert (Hj : (j < length secs)%nat) by (rewrite <- Hlen; apply nth_error_Some; congruence).
    assert (Hstep : sumN (firstn (S j) (w_sizes w)) = sumN (firstn j (w_sizes w)) + lenN b).
    { rewrite <- Hs. clear -Hn. revert j Hn. induction (w_blobs w) as [|x l IH]; intros j Hn; [destruct j; discriminate|].
      destruct j as [|j]; cbn [nth_error map firstn sumN] in *; [inversion Hn; destruct l; cbn; lia|].
      rewrite (IH j Hn). lia. }
    split; [exact Hstep|]. split.
    { rewrite Htot'. apply sumN_firstn_le. }
    destruct (section_at w j b Hfacts Hn ltac:(rewrite Ews; exact Hj)) as (_ & P & _).
    rewrite (Hoffs j Hj), N2Z.id in P. split; [exact P|].
    destruct (lay_offs w j Hfacts ltac:(rewrite Ews; exact Hj)) as [E _]. exact E. }
  split.
  { rewrite Htot', <- Hs, <- Hlen. rewrite <- (map_length lenN). rewrite firstn_all. reflexivity. }
  split.
  { intros a b [Hba Ha]. destruct (lay_diff w a b Hfacts ltac:(rewrite Ews; exact Ha) Hba) as [E _].
    rewrite E. destruct (lay_offs w a Hfacts ltac:(rewrite Ews; exact Ha)) as [Ea _].
    destruct (lay_offs w b Hfacts ltac:(rewrite Ews; lia)) as [Eb _]. rewrite Ea, Eb. reflexivity. }
  intros j d b Hd Hw0 Hn. rewrite (Hsz j d Hd Hw0). rewrite <- Hs, (nth_map_lenN' _ _ _ Hn). reflexivity.
Qed.
