(* C13B/ModelFont.v — the assembly of a CFF font: makeTopDict /
   makePrivateDict and their read sides (cff/dict.go, cff/font.go, cff/read.go),
   Font.Write (cff/write.go) over abstract sections with C13's layout loop,
   and cff.Read following the offsets.  Definitions only.

   Charstrings and subroutines are opaque byte strings: Write gets the
   charstrings and the integer default / nominal widths that
   encodeCharStrings returns, Read returns the charstrings it would decode. *)
From Coq Require Import List NArith ZArith Bool Arith Lia.
From Common Require Import Bytes Outcome.
From Gen Require Import C13 C13B.
From C13 Require Import Model ModelDict ModelTables ModelLayout.
From C13B Require Import ModelNum ModelStr ModelCDict.
Import ListNotations.
Local Open Scope N_scope.

(* ---------- type1.FontInfo / type1.PrivateDict ---------- *)

Record fontinfo := mkInfo {
  fi_FontName : str;
  fi_Version : str;
  fi_Notice : str;
  fi_Copyright : str;
  fi_FullName : str;
  fi_FamilyName : str;
  fi_Weight : str;
  fi_ItalicAngle : real;
  fi_IsFixedPitch : bool;
  fi_UnderlinePosition : real;
  fi_UnderlineThickness : real;
  fi_FontMatrix : list real          (* 6 entries *)
}.

Record privdict := mkPriv {
  pd_BlueValues : list Z;            (* funit.Int16 *)
  pd_OtherBlues : list Z;
  pd_BlueScale : real;
  pd_BlueShift : Z;                  (* int32 *)
  pd_BlueFuzz : Z;
  pd_StdHW : real;
  pd_StdVW : real;
  pd_ForceBold : bool
}.

Definition rdefUnderlinePosition : real := real_of_Z b_defaultUnderlinePosition.
Definition rdefUnderlineThickness : real := real_of_Z b_defaultUnderlineThickness.
Definition rdefBlueScale : real := real_of_triple b_defaultBlueScale.

(* dictNumber *)
Definition M_dict_number (r : real) : opv :=
  match real_to_int32 r with Some z => VInt z | None => VReal r end.

Definition put_str (op : N) (s : str) (d : cdict) : cdict :=
  match s with [] => d | _ => dput op [VStr s] d end.

(* makeTopDict(info) *)
Definition M_makeTopDict (fi : fontinfo) : cdict :=
  let d := @nil entry in
  let d := put_str b_opVersion (fi_Version fi) d in
  let d := put_str b_opNotice (fi_Notice fi) d in
  let d := put_str b_opCopyright (fi_Copyright fi) d in
  let d := put_str b_opFullName (fi_FullName fi) d in
  let d := put_str b_opFamilyName (fi_FamilyName fi) d in
  let d := put_str b_opWeight (fi_Weight fi) d in
  let d := if fi_IsFixedPitch fi then dput b_opIsFixedPitch [VInt 1] d else d in
  let d := if real_eqb (fi_ItalicAngle fi) R0 then d
           else dput b_opItalicAngle [VReal (fi_ItalicAngle fi)] d in
  let d := if real_eqb (fi_UnderlinePosition fi) rdefUnderlinePosition then d
           else dput b_opUnderlinePosition [M_dict_number (fi_UnderlinePosition fi)] d in
  let d := if real_eqb (fi_UnderlineThickness fi) rdefUnderlineThickness then d
           else dput b_opUnderlineThickness [M_dict_number (fi_UnderlineThickness fi)] d in
  d.

(* the FontInfo part of the Top DICT as Write builds it (without the layout
   operands): makeTopDict, then setFontMatrix *)
Definition M_topdict_base (fi : fontinfo) (isCID : bool) : cdict :=
  setFontMatrix b_opFontMatrix (fi_FontMatrix fi) isCID (M_makeTopDict fi).

(* the field extraction of Read from the decoded Top DICT; the FontName comes
   from the Name INDEX *)
Definition M_topdict_info (fontName : str) (top : rdict) (isCID : bool) : fontinfo :=
  {| fi_FontName := fontName;
     fi_Version := getString top b_opVersion;
     fi_Notice := getString top b_opNotice;
     fi_Copyright := getString top b_opCopyright;
     fi_FullName := getString top b_opFullName;
     fi_FamilyName := getString top b_opFamilyName;
     fi_Weight := getString top b_opWeight;
     fi_ItalicAngle := rnormangle (getFloat top b_opItalicAngle R0);
     fi_IsFixedPitch := negb (getInt top b_opIsFixedPitch 0 =? 0)%Z;
     fi_UnderlinePosition := getFloat top b_opUnderlinePosition rdefUnderlinePosition;
     fi_UnderlineThickness := getFloat top b_opUnderlineThickness rdefUnderlineThickness;
     fi_FontMatrix := getFontMatrix top b_opFontMatrix isCID |}.

(* makePrivateDict(idx, defaultWidth, nominalWidth); the widths are the
   integers int32(defaultWidth), int32(nominalWidth) *)
Definition M_makePrivateDict (p : privdict) (defW nomW : Z) : cdict :=
  let d := @nil entry in
  let d := setDelta b_opBlueValues (pd_BlueValues p) d in
  let d := setDelta b_opOtherBlues (pd_OtherBlues p) d in
  let d := if real_eqb (pd_BlueScale p) rdefBlueScale then d
           else dput b_opBlueScale [VReal (pd_BlueScale p)] d in
  let d := if (pd_BlueShift p =? b_defaultBlueShift)%Z then d
           else dput b_opBlueShift [VInt (pd_BlueShift p)] d in
  let d := if (pd_BlueFuzz p =? b_defaultBlueFuzz)%Z then d
           else dput b_opBlueFuzz [VInt (pd_BlueFuzz p)] d in
  let d := if real_eqb (pd_StdHW p) R0 then d else dput b_opStdHW [VReal (pd_StdHW p)] d in
  let d := if real_eqb (pd_StdVW p) R0 then d else dput b_opStdVW [VReal (pd_StdVW p)] d in
  let d := if pd_ForceBold p then dput b_opForceBold [VInt 1] d else d in
  let d := if (defW =? 0)%Z then d else dput b_opDefaultWidthX [VInt defW] d in
  let d := if (nomW =? 0)%Z then d else dput b_opNominalWidthX [VInt nomW] d in
  d.

Definition r_one : real := mkReal false 1 0.
Definition r_10000 : real := mkReal false 1 4.

(* the fields readPrivate takes from the decoded Private DICT *)
Definition M_private_info (pd : rdict) : privdict :=
  {| pd_BlueValues := getDelta pd b_opBlueValues;
     pd_OtherBlues := getDelta pd b_opOtherBlues;
     pd_BlueScale := rclamp (getFloat pd b_opBlueScale rdefBlueScale) R0 r_one;
     pd_BlueShift := getInt pd b_opBlueShift 7;
     pd_BlueFuzz := getInt pd b_opBlueFuzz 1;
     pd_StdHW := rclamp (getFloat pd b_opStdHW R0) R0 r_10000;
     pd_StdVW := rclamp (getFloat pd b_opStdVW R0) R0 r_10000;
     pd_ForceBold := negb (getInt pd b_opForceBold 0 =? 0)%Z |}.

(* ---------- the font values ---------- *)

(* what Write is given *)
Record font := mkFont {
  f_info : fontinfo;
  f_ros : option (str * str * Z);       (* Registry, Ordering, Supplement; None = simple font *)
  f_glyphs : list (str * list N);       (* glyph name (simple fonts), charstring *)
  f_defw : Z;                           (* int32(defaultWidth) *)
  f_nomw : Z;                           (* int32(nominalWidth) *)
  f_private : list privdict;
  f_fdselect : list N;                  (* FDSelect(gid), gid = 0..; CID-keyed fonts *)
  f_encoding : list N;                  (* empty or 256 glyph ids; simple fonts *)
  f_gid2cid : list N;                   (* CID-keyed fonts *)
  f_fontmatrices : list (list real)     (* one per private dictionary; CID-keyed fonts *)
}.

(* what Read returns *)
Record rprivate := mkRPriv {
  rp_dict : privdict;
  rp_subrs : list (list N);
  rp_defw : real;
  rp_nomw : real
}.

Record rfont := mkRFont {
  rf_info : fontinfo;
  rf_ros : option (str * str * Z);
  rf_glyphs : list (str * list N);      (* name (empty for CID-keyed fonts), charstring *)
  rf_gsubrs : list (list N);
  rf_private : list rprivate;
  rf_fdselect : list N;                 (* the private dictionary of every glyph *)
  rf_encoding : list N;                 (* 256 glyph ids; simple fonts *)
  rf_gid2cid : list N;
  rf_fontmatrices : list (list real)
}.

(* ---------- standard / expert encoding by glyph name ---------- *)

Section Enc.
(* psenc.StandardEncodingRev and expertEnc: glyph name -> code.  External
   tables: every statement holds for any two functions. *)
Variable std_code : str -> option N.
Variable exp_code : str -> option N.

(* StandardEncoding(glyphs) / expertEncoding(glyphs): encoding[code] = gid
   for gid = 0, 1, ... (a later glyph overrides) *)
Fixpoint name_enc_from (code_of : str -> option N) (gid : N) (names : list str) (acc : list N) : list N :=
  match names with
  | [] => acc
  | n :: r =>
    let acc' := match code_of n with
                | Some c => set_nth acc (N.to_nat (c mod 256)) (gid mod 65536)
                | None => acc
                end in
    name_enc_from code_of (gid + 1) r acc'
  end.

Definition name_enc (code_of : str -> option N) (names : list str) : list N :=
  name_enc_from code_of 0 names (repeat 0 256).

Fixpoint list_eqbN (a b : list N) : bool :=
  match a, b with
  | [], [] => true
  | x :: a', y :: b' => (x =? y) && list_eqbN a' b'
  | _, _ => false
  end.

(* isStandardEncoding / isExpertEncoding: "for i, gid := range tmp { if
   encoding[i] != gid { return false } }": index out of range when the
   encoding vector ends before a difference is found *)
Fixpoint cmp_enc (enc tmp : list N) : outcome bool :=
  match tmp with
  | [] => Ok true
  | g :: t =>
    match enc with
    | [] => Panic
    | e :: r => if e =? g then cmp_enc r t else Ok false
    end
  end.

Definition is_name_enc (code_of : str -> option N) (enc : list N) (names : list str) : outcome bool :=
  cmp_enc enc (name_enc code_of names).

(* ---------- sections ---------- *)

Inductive msec :=
| MHeader                                (* 1 0 4 offSize *)
| MFixed (b : list N)
| MLate (b : list N)                     (* String INDEX: known after the first round *)
| MDict (es : list entry)                (* a Private DICT: interned entries in key order *)
| MIndex (ds : list (list entry)).       (* Top DICT INDEX, Font DICT INDEX *)

Definition abs_sec (s : msec) : section :=
  match s with
  | MHeader => SFixed 4
  | MFixed b => SFixed (lenN b)
  | MLate b => SLate (lenN b)
  | MDict es => SDict (abs_entries es)
  | MIndex ds => SIndex (map abs_entries ds)
  end.

Definition sec_bytes (lay : operand -> Z) (hdrOffSize : N) (s : msec) : outcome (list N) :=
  match s with
  | MHeader => Ok [1; 0; 4; hdrOffSize]
  | MFixed b => Ok b
  | MLate b => Ok b
  | MDict es => Ok (enc_entries lay es)
  | MIndex ds => M_index_encode (map (enc_entries lay) ds)
  end.

Definition notdef : str := [46; 110; 111; 116; 100; 101; 102].   (* ".notdef" *)

Definition opt_default {A} (d : A) (o : option A) : A := match o with Some x => x | None => d end.

(* entries of a DICT that holds no strings, in key order *)
Definition plain_entries (d : cdict) : list entry := fst (intern_entries [] (sorted_entries d)).

(* The sections of Font.Write in file order, before the loop.
   Section numbers: 0 header, 1 Name INDEX, 2 Top DICT INDEX, 3 String INDEX,
   4 Global Subr INDEX, then
     simple font:    [5 encoding] charset, CharStrings INDEX, (empty) Font DICT INDEX, Private DICTs, Subrs INDEX
     CID-keyed font: 5 charset, 6 FDSelect, 7 CharStrings INDEX, 8 Font DICT INDEX, 9.. Private DICTs, Subrs INDEX *)

(* the Private DICT sections: makePrivateDict plus the Subrs operand the loop sets *)
Definition priv_sections (f : font) (secPriv0 secSubrs : nat) : list msec :=
  map (fun ip =>
         MDict (plain_entries
                  (dput b_opSubrs [VLay (ODiff secSubrs (secPriv0 + fst ip))]
                     (M_makePrivateDict (snd ip) (f_defw f) (f_nomw f)))))
      (combine (seq 0 (length (f_private f))) (f_private f)).

Definition M_sections_simple (f : font) (nameIdx : list N) : outcome (list msec) :=
  let numGlyphs := lenN (f_glyphs f) mod 65536 in                      (* uint16(len(f.Glyphs)) *)
  let top2 := setFontMatrix b_opFontMatrix (fi_FontMatrix (f_info f)) false (M_makeTopDict (f_info f)) in
  (* glyph names: numGlyphs lookups *)
  let names := map fst (firstn (N.to_nat numGlyphs) (f_glyphs f)) in
  let lk := ss_lookups [] names in
  let glyphSIDs := fst lk in
  let data2 := snd lk in
  encSec <-
    (if (lenN (f_encoding f) =? 0) then Ok (None, top2)
     else
       isStd <- is_name_enc std_code (f_encoding f) (map fst (f_glyphs f)) ;;
       if isStd then Ok (None, top2) else
       isExp <- is_name_enc exp_code (f_encoding f) (map fst (f_glyphs f)) ;;
       if isExp then Ok (None, dput b_opEncoding [VInt 1] top2) else
       e <- M_encoding_encode (f_encoding f) glyphSIDs ;;
       Ok (Some e, dput b_opEncoding [VLay (OOffs 5)] top2)) ;;
  let encBlob := fst encSec in
  let top3 := snd encSec in
  let nEnc := match encBlob with Some _ => 1%nat | None => 0%nat end in
  charset <- M_charset_encode glyphSIDs ;;
  let secCharset := (5 + nEnc)%nat in
  let secCS := S secCharset in
  csIdx <- M_index_encode (map snd (f_glyphs f)) ;;
  let secFD := S secCS in
  let numFonts := length (f_private f) in
  let secPriv0 := S secFD in
  let secSubrs := (secPriv0 + numFonts)%nat in
  (* the Top DICT as the loop completes it: the Private operand of the last dictionary wins *)
  let top4 := match numFonts with
              | O => top3
              | S k => dput b_opPrivate [VLay (OSize (secPriv0 + k)); VLay (OOffs (secPriv0 + k))] top3
              end in
  let top5 := dput b_opCharset [VLay (OOffs secCharset)] top4 in
  let top6 := dput b_opCharStrings [VLay (OOffs secCS)] top5 in
  let pt := intern_entries data2 (sorted_entries top6) in
  strIdx <- ss_encode (snd pt) ;;
  Ok ([MHeader; MFixed nameIdx; MIndex [fst pt]; MLate strIdx; MFixed [0; 0]] ++
      match encBlob with Some e => [MFixed e] | None => [] end ++
      [MFixed charset; MFixed csIdx; MFixed []] ++
      priv_sections f secPriv0 secSubrs ++ [MFixed [0; 0]]).

Definition M_sections_cid (f : font) (nameIdx : list N) (reg ord : str) (sup : Z) : outcome (list msec) :=
  let numGlyphs := lenN (f_glyphs f) mod 65536 in
  let top0 := M_makeTopDict (f_info f) in
  (* the two lookups are the first ones *)
  let p := ss_lookup [] reg in
  let q := ss_lookup (snd p) ord in
  let data1 := snd q in
  let top1 := dput b_opCIDCount [VInt (Z.of_N numGlyphs)]
                (dput b_opROS [VInt (fst p); VInt (fst q); VInt sup] top0) in
  let top2 := setFontMatrix b_opFontMatrix (fi_FontMatrix (f_info f)) true top1 in
  charset <- M_charset_encode (map Z.of_N (f_gid2cid f)) ;;
  let fdsel := M_fdselect_encode (firstn (N.to_nat numGlyphs) (f_fdselect f)) in
  csIdx <- M_index_encode (map snd (f_glyphs f)) ;;
  let numFonts := length (f_private f) in
  if (length (f_fontmatrices f) <? numFonts)%nat then Panic else                (* f.FontMatrices[i] *)
  let secPriv0 := 9%nat in
  let secSubrs := (secPriv0 + numFonts)%nat in
  let fdDicts :=
    map (fun ifm =>
           plain_entries
             (dput b_opPrivate [VLay (OSize (secPriv0 + fst ifm)); VLay (OOffs (secPriv0 + fst ifm))]
                (setFontMatrix b_opFontMatrix (snd ifm) false [])))
        (combine (seq 0 numFonts) (f_fontmatrices f)) in
  let top5 := dput b_opCharset [VLay (OOffs 5)] top2 in
  let top6 := dput b_opCharStrings [VLay (OOffs 7)] top5 in
  let top7 := dput b_opFDArray [VLay (OOffs 8)] (dput b_opFDSelect [VLay (OOffs 6)] top6) in
  let pt := intern_entries data1 (sorted_entries top7) in
  strIdx <- ss_encode (snd pt) ;;
  Ok ([MHeader; MFixed nameIdx; MIndex [fst pt]; MLate strIdx; MFixed [0; 0];
       MFixed charset; MFixed fdsel; MFixed csIdx; MIndex fdDicts] ++
      priv_sections f secPriv0 secSubrs ++ [MFixed [0; 0]]).

Definition M_write_sections (f : font) : outcome (list msec) :=
  (* encodeCharStrings: the .notdef test *)
  if (lenN (f_glyphs f) <? 1) ||
     (match f_ros f with Some _ => false | None => negb (str_eqb (fst (hd ([], []) (f_glyphs f))) notdef) end)
  then Err else
  nameIdx <- M_index_encode [fi_FontName (f_info f)] ;;
  match f_ros f with
  | None => M_sections_simple f nameIdx
  | Some (reg, ord, sup) => M_sections_cid f nameIdx reg ord sup
  end.

(* Font.Write *)
Definition M_write (f : font) : outcome (list N) :=
  secs <- M_write_sections f ;;
  let asecs := map abs_sec secs in
  match M_layout asecs with
  | Ok (offs, _) =>
    bl <- map_outcome (sec_bytes (opval asecs offs) (hdr_offsize asecs offs)) secs ;;
    Ok (concat bl)
  | Err => Err
  | Panic => Panic
  | OutOfFuel => OutOfFuel
  end.

(* the offsets Write settled on and the header's offSize (for the correspondence) *)
Definition M_write_offsets (f : font) : outcome (list Z * N) :=
  secs <- M_write_sections f ;;
  let asecs := map abs_sec secs in
  match M_layout asecs with
  | Ok (offs, _) => Ok (offs, hdr_offsize asecs offs)
  | Err => Err
  | Panic => Panic
  | OutOfFuel => OutOfFuel
  end.

(* ---------- Read ---------- *)

(* p.SeekPos(pos) followed by reads: the input from pos on; an error for a
   negative position *)
Definition seek (data : list N) (pos : Z) : outcome (list N) :=
  if (pos <? 0)%Z then Err else Ok (dropN data (Z.to_N pos)).

(* readIndexAt *)
Definition read_index_at (data : list N) (pos : Z) : outcome (list (list N)) :=
  if (pos <? 4)%Z then Err
  else x <- M_index_read_fast (lenN data) (dropN data (Z.to_N pos)) ;; Ok (fst x).

(* (cffDict).readPrivate *)
Definition M_readPrivate (data : list N) (strs : list str) (d : rdict) : outcome rprivate :=
  match getPair d b_opPrivate with
  | None => Err
  | Some (pdSize, pdOffs) =>
    if (pdOffs <? 4)%Z || (pdSize <? 0)%Z then Err
    else if (Z.of_N (lenN data) <? pdOffs + pdSize)%Z then Err
    else
      let blob := takeN (dropN data (Z.to_N pdOffs)) (Z.to_N pdSize) in
      pd <- M_decodeDict strs blob ;;
      let subrsOffs := getInt pd b_opSubrs 0 in
      subrs <- (if (0 <? subrsOffs)%Z then read_index_at data (wrap_i32 (pdOffs + subrsOffs)) else Ok []) ;;
      Ok {| rp_dict := M_private_info pd;
            rp_subrs := subrs;
            rp_defw := getFloat pd b_opDefaultWidthX R0;
            rp_nomw := getFloat pd b_opNominalWidthX R0 |}
  end.

(* the predefined charsets of a simple font: strings.lookup of the table's
   names in the font's own string table *)
Definition M_predef_charset (strs : list str) (id : N) (nGlyphs : N) : outcome (list Z) :=
  x <- M_predefined_charset id nGlyphs ;;
  Ok (fst (ss_lookups strs (map (fun sid => opt_default [] (nth_str b_stdStrings sid)) x))).

Fixpoint names_of (strs : list str) (charset : list Z) : outcome (list str) :=
  match charset with
  | [] => Ok []
  | sid :: r =>
    match ss_get strs sid with
    | None => Err
    | Some s => t <- names_of strs r ;; Ok (s :: t)
    end
  end.

Definition M_read (data : list N) : outcome rfont :=
  let size := lenN data in
  match data with
  | major :: minor :: hdrSize :: offSize :: _ =>
    if major =? 2 then Err
    else if negb (major =? 1) || (hdrSize <? 4) || (4 <? offSize) then Err
    else
    x1 <- M_index_read_fast size (dropN data hdrSize) ;;
    let fontNames := fst x1 in
    if lenN fontNames =? 0 then Err else if 1 <? lenN fontNames then Err else
    x2 <- M_index_read_fast size (snd x1) ;;
    if negb (lenN (fst x2) =? lenN fontNames) then Err else
    x3 <- M_index_read_fast size (snd x2) ;;
    let strs := fst x3 in
    top <- M_decodeDict strs (hd [] (fst x2)) ;;
    if negb (getInt top b_opCharstringType 2 =? 2)%Z then Err else
    x4 <- M_index_read_fast size (snd x3) ;;
    let gsubrs := fst x4 in
    charStrings <- read_index_at data (getInt top b_opCharStrings 0) ;;
    let nGlyphs := lenN charStrings in
    if nGlyphs =? 0 then Err else
    let isCID := match dfind b_opROS top with Some _ => true | None => false end in
    cidPart <-
      (if isCID then
         match dget top b_opROS with
         | [r0; r1; r2] =>
           match r0, r1, r2 with
           | RStr reg, RStr ord, RInt sup =>
             fdIdx <- read_index_at data (getInt top b_opFDArray 0) ;;
             if 256 <? lenN fdIdx then Err else if lenN fdIdx =? 0 then Err else
             fds <- map_outcome (fun blob =>
                       fd <- M_decodeDict strs blob ;;
                       pi <- M_readPrivate data strs fd ;;
                       Ok (pi, getFontMatrix fd b_opFontMatrix false)) fdIdx ;;
             let fdSelectOffs := getInt top b_opFDSelect 0 in
             if (fdSelectOffs <? 4)%Z then Err else
             fsel <- M_fdselect_read nGlyphs (lenN fds) (dropN data (Z.to_N fdSelectOffs)) ;;
             Ok (Some (reg, ord, sup), map fst fds, map snd fds, fst fsel)
           | _, _, _ => Err
           end
         | _ => Err
         end
       else Ok (None, [], [], repeat 0 (N.to_nat nGlyphs))) ;;
    let '(ros, cidPrivs, fontMatrices, fdsel) := cidPart in
    let fontMatrix := getFontMatrix top b_opFontMatrix isCID in
    let charsetOffs := getInt top b_opCharset 0 in
    charset <-
      (if isCID then
         inp <- seek data charsetOffs ;;
         x <- M_charset_read (Z.of_N nGlyphs) inp ;; Ok (map Z.of_N (fst x))
       else if ((0 <=? charsetOffs) && (charsetOffs <=? 2))%Z then
         M_predef_charset strs (Z.to_N charsetOffs) nGlyphs
       else
         inp <- seek data charsetOffs ;;
         x <- M_charset_read (Z.of_N nGlyphs) inp ;; Ok (map Z.of_N (fst x))) ;;
    privs <- (if isCID then Ok cidPrivs
              else p <- M_readPrivate data strs top ;; Ok [p]) ;;
    (* the glyph loop: charstrings stay opaque; names of a simple font *)
    names <- (if isCID then Ok (repeat [] (N.to_nat nGlyphs)) else names_of strs charset) ;;
    enc <-
      (if isCID then Ok []
       else
         let encodingOffs := getInt top b_opEncoding 0 in
         if (encodingOffs =? 0)%Z then Ok (name_enc std_code names)
         else if (encodingOffs =? 1)%Z then Ok (name_enc exp_code names)
         else
           inp <- seek data encodingOffs ;;
           x <- M_encoding_read inp charset ;; Ok (fst x)) ;;
    Ok {| rf_info := M_topdict_info (hd [] fontNames) top isCID;
          rf_ros := ros;
          rf_glyphs := combine names charStrings;
          rf_gsubrs := gsubrs;
          rf_private := privs;
          rf_fdselect := fdsel;
          rf_encoding := enc;
          rf_gid2cid := if isCID then map Z.to_N charset else [];
          rf_fontmatrices := fontMatrices |}
  | _ => Err
  end.

End Enc.
