(* C13B/ModelCDict.v — DICTs at the entry level (cff/dict.go): the map
   cffDict, sortedKeys, (cffDict).encode, decodeDict with the strings
   resolved, and the typed accessors getInt / getFloat / getString /
   getDeltaF16 / getPair / getFontMatrix / setDeltaF16 / setFontMatrix.
   Definitions only.

   The operand codecs are C13's: integers by the encoder translated from the
   source (M_dict_int_encode), reals by M_real_layout, the byte-level decoder
   M_dict_decode_top. *)
From Coq Require Import List NArith ZArith Bool Arith Lia.
From Common Require Import Bytes Outcome.
From Gen Require Import C13B.
From C13 Require Import Model ModelDict ModelTables ModelLayout.
From C13B Require Import ModelNum ModelStr.
Import ListNotations.
Local Open Scope N_scope.

(* an operand: int32, float64, string, or an int32 whose value depends on the
   layout of the file (offsets and sizes set inside the loop of Font.Write) *)
Inductive opv :=
| VInt (z : Z)
| VReal (r : real)
| VStr (s : str)
| VLay (o : operand).

Definition entry := (N * list opv)%type.

(* cffDict: a map from operators to operand lists, as an association list
   with distinct keys *)
Definition cdict := list entry.

(* d[op] = args *)
Fixpoint dput (op : N) (args : list opv) (d : cdict) : cdict :=
  match d with
  | [] => [(op, args)]
  | (o, a) :: r => if o =? op then (op, args) :: r else (o, a) :: dput op args r
  end.

(* ---------- sortedKeys ---------- *)

Fixpoint assocZ (op : N) (l : list (N * Z)) : option Z :=
  match l with
  | [] => None
  | (o, k) :: r => if o =? op then Some k else assocZ op r
  end.

(* conv: opROS -> -1, opSyntheticBase -> -2 (regenerated: b_sortKeys), every
   other operator its own number *)
Definition sort_key (op : N) : Z :=
  match assocZ op b_sortKeys with Some k => k | None => Z.of_N op end.

Fixpoint insert_entry (e : entry) (l : list entry) : list entry :=
  match l with
  | [] => [e]
  | x :: r => if (sort_key (fst e) <? sort_key (fst x))%Z then e :: l else x :: insert_entry e r
  end.

Definition sorted_entries (d : cdict) : list entry := fold_right insert_entry [] d.

(* ---------- encode ---------- *)

(* "if s, ok := arg.(string); ok { arg = ss.lookup(s) }" for the operands of
   one operator, in order *)
Fixpoint intern_args (data : list str) (args : list opv) : list opv * list str :=
  match args with
  | [] => ([], data)
  | VStr s :: r =>
    let p := ss_lookup data s in
    let q := intern_args (snd p) r in
    (VInt (fst p) :: fst q, snd q)
  | v :: r =>
    let q := intern_args data r in
    (v :: fst q, snd q)
  end.

(* the entries in the order of sortedKeys, strings replaced by their SIDs *)
Fixpoint intern_entries (data : list str) (es : list entry) : list entry * list str :=
  match es with
  | [] => ([], data)
  | (op, args) :: r =>
    let p := intern_args data args in
    let q := intern_entries (snd p) r in
    ((op, fst p) :: fst q, snd q)
  end.

(* one operand; lay gives the value of a layout operand *)
Definition enc_val (lay : operand -> Z) (v : opv) : list N :=
  match v with
  | VInt z => M_dict_int_encode z
  | VReal r => 30 :: M_real_encode r
  | VStr _ => []                       (* panic("unexpected type") cannot be reached: strings are interned first *)
  | VLay o => M_dict_int_encode (lay o)
  end.

(* "if op > 255 { WriteByte(12) }; WriteByte(byte(op))" *)
Definition enc_op (op : N) : list N :=
  if 255 <? op then [12; op mod 256] else [op mod 256].

Definition enc_entry (lay : operand -> Z) (e : entry) : list N :=
  concat (map (enc_val lay) (snd e)) ++ enc_op (fst e).

Definition enc_entries (lay : operand -> Z) (es : list entry) : list N :=
  concat (map (enc_entry lay) es).

(* (cffDict).encode(ss): the bytes and the string table afterwards *)
Definition M_dict_encode (lay : operand -> Z) (data : list str) (d : cdict) : list N * list str :=
  let p := intern_entries data (sorted_entries d) in
  (enc_entries lay (fst p), snd p).

(* ---------- the abstraction used by the layout loop (C13.ModelLayout) ---------- *)

Definition val_base (v : opv) : N :=
  match v with VLay _ => 0 | _ => lenN (enc_val (fun _ => 0%Z) v) end.

Definition entry_base (e : entry) : N :=
  sumN (map val_base (snd e)) + lenN (enc_op (fst e)).

Definition lay_ops_of (args : list opv) : list operand :=
  concat (map (fun v => match v with VLay o => [o] | _ => [] end) args).

Definition abs_entries (es : list entry) : dictd :=
  {| d_base := sumN (map entry_base es);
     d_ops := concat (map (fun e => lay_ops_of (snd e)) es) |}.

(* ---------- decodeDict with the strings resolved ---------- *)

Inductive rval :=
| RInt (z : Z)
| RReal (r : real)
| RStr (s : str).

Definition resolve (data : list str) (v : dictval) : rval :=
  match v with
  | DInt z => RInt z
  | DReal d => RReal (real_of_decimal d)
  | DStr z => RStr (match ss_get data z with Some s => s | None => [] end)
  end.

Definition rdict := list (N * list rval).

Definition M_decodeDict (data : list str) (buf : list N) : outcome rdict :=
  d <- M_dict_decode_top (lenN data) buf ;;
  Ok (map (fun e => (fst e, map (resolve data) (snd e))) d).

(* ---------- accessors ---------- *)

Fixpoint dfind (op : N) (d : rdict) : option (list rval) :=
  match d with
  | [] => None
  | (o, a) :: r => if o =? op then Some a else dfind op r
  end.

(* d[op] of a Go map: nil when absent *)
Definition dget (d : rdict) (op : N) : list rval :=
  match dfind op d with Some a => a | None => [] end.

Definition getInt (d : rdict) (op : N) (def : Z) : Z :=
  match dget d op with [RInt x] => x | _ => def end.

Definition getFloat (d : rdict) (op : N) (def : real) : real :=
  match dget d op with
  | [RInt x] => real_of_Z x
  | [RReal r] => r
  | _ => def
  end.

Definition getString (d : rdict) (op : N) : str :=
  match dget d op with
  | [RStr s] => utf8_fix s
  | _ => []
  end.

(* funit.Int16(x) of an int32, and int16 addition *)
Definition wrap_i16 (z : Z) : Z := ((z + 32768) mod 65536 - 32768)%Z.

Fixpoint delta_acc (prev : Z) (l : list rval) : option (list Z) :=
  match l with
  | [] => Some []
  | RInt x :: r =>
    let v := wrap_i16 (wrap_i16 x + prev) in
    match delta_acc v r with Some t => Some (v :: t) | None => None end
  | _ => None
  end.

Definition getDelta (d : rdict) (op : N) : list Z :=
  match delta_acc 0 (dget d op) with Some l => l | None => [] end.

Definition getPair (d : rdict) (op : N) : option (Z * Z) :=
  match dget d op with [RInt x; RInt y] => Some (x, y) | _ => None end.

Definition rident : list real :=
  [mkReal false 1 0; R0; R0; mkReal false 1 0; R0; R0].
Definition rdefault_fm : list real := map real_of_triple b_defaultFontMatrix.

Fixpoint all_reals (l : list rval) : option (list real) :=
  match l with
  | [] => Some []
  | RReal r :: t => match all_reals t with Some u => Some (r :: u) | None => None end
  | _ => None
  end.

Definition getFontMatrix (d : rdict) (op : N) (isCID : bool) : list real :=
  let def := if isCID then rident else rdefault_fm in
  match dfind op d with
  | Some xx =>
    if lenN xx =? 6 then match all_reals xx with Some l => l | None => def end else def
  | None => def
  end.

(* setDeltaF16: int32(x) - int32(prev), the true difference of two 16-bit
   values (repair fixes/C13-delta-int16-wrap.diff) *)
Fixpoint deltas (prev : Z) (l : list Z) : list opv :=
  match l with
  | [] => []
  | x :: r => VInt (x - prev) :: deltas x r
  end.

(* the code before the repair: int32(x - prev) with the subtraction in int16 *)
Fixpoint deltas_old (prev : Z) (l : list Z) : list opv :=
  match l with
  | [] => []
  | x :: r => VInt (wrap_i16 (x - prev)) :: deltas_old x r
  end.

(* the values a delta array denotes by the specification: partial sums *)
Fixpoint S_delta_values (prev : Z) (l : list opv) : list Z :=
  match l with
  | VInt d :: r => (prev + d)%Z :: S_delta_values (prev + d) r
  | _ => []
  end.

Definition setDelta (op : N) (val : list Z) (d : cdict) : cdict :=
  match val with
  | [] => d                  (* delete(d, op) on a dictionary that never holds op *)
  | _ => dput op (deltas 0 val) d
  end.

Fixpoint reals_eqb (a b : list real) : bool :=
  match a, b with
  | [], [] => true
  | x :: a', y :: b' => real_eqb x y && reals_eqb a' b'
  | _, _ => false
  end.

(* setFontMatrix: the entry is written unless every element equals the
   default of its place exactly *)
Definition setFontMatrix (op : N) (fm : list real) (isCID : bool) (d : cdict) : cdict :=
  let def := if isCID then rident else rdefault_fm in
  if reals_eqb fm def then d else dput op (map VReal fm) d.
