(* C13B/Examples.v — non-vacuity: concrete values meeting the hypotheses of
   the theorems, evaluated inside Coq (which also cross-checks the extracted
   model on these cases). *)
From Coq Require Import List NArith ZArith Bool Arith Lia.
From Common Require Import Bytes Outcome.
From Gen Require Import C13 C13B.
From C13 Require Import Model Util ModelDict ModelTables ModelLayout.
From C13B Require Import ModelNum ModelStr ModelCDict ModelFont.
From C13B Require Import Util Proofs_num Proofs_str Proofs_cdict Proofs_fields.
Import ListNotations.
Local Open Scope N_scope.

Definition s_A : str := [65].
Definition s_space : str := [115; 112; 97; 99; 101].
Definition s_custom : str := [103; 49].            (* "g1" *)
Definition s_notice : str := [78; 111; 116; 105; 99; 101; 33].

(* (a) a standard string, a custom one, a repeat *)
Example ex_lookups :
  ss_lookups [] [s_A; s_custom; s_space; s_custom; s_notice] = ([34; 391; 1; 391; 392]%Z, [s_custom; s_notice]).
Proof. vm_compute. reflexivity. Qed.

Example ex_get : ss_get [s_custom; s_notice] 392 = Some s_notice /\ ss_get [s_custom] 392 = None /\ ss_get [] (-1) = None.
Proof. vm_compute. auto. Qed.

Example ex_utf8 : utf8_fix [99; 97; 102; 233] = [99; 97; 102; 239; 191; 189] /\ utf8_fix [195; 169] = [195; 169].
Proof. vm_compute. auto. Qed.

(* reals in the domain *)
Definition r_half : real := mkReal false 5 (-1).
Definition r_m12 : real := mkReal true 12 0.
Definition r_small : real := mkReal false 1 (-300).
Definition r_big : real := mkReal true 1 300.

Example ex_real_ok : real_ok r_half /\ real_ok r_m12 /\ real_ok r_small /\ real_ok r_big /\ real_ok R0.
Proof. repeat split; vm_compute; reflexivity. Qed.

Example ex_real_bytes : M_real_encode r_half = [165; 255] /\ M_real_encode r_m12 = [225; 47] /\ M_real_encode R0 = [15].
Proof. vm_compute. auto. Qed.

Example ex_real_back :
  match dict_token (30 :: M_real_encode r_small ++ [7]) with
  | Ok (TVal (DReal d), [7]) => real_of_decimal d = r_small
  | _ => False
  end.
Proof. vm_compute. reflexivity. Qed.

Example ex_angle : rnormangle (mkReal false 20025 (-2)) = mkReal true 15975 (-2) /\ rnormangle r_m12 = r_m12 /\
                   rnormangle (mkReal false 18 1) = mkReal true 18 1.
Proof. vm_compute. auto. Qed.

(* (b) a FontInfo with every kind of field away from its default *)
Definition fi1 : fontinfo :=
  {| fi_FontName := [84]; fi_Version := []; fi_Notice := s_notice; fi_Copyright := []; fi_FullName := s_A;
     fi_FamilyName := []; fi_Weight := [66; 111; 108; 100];
     fi_ItalicAngle := r_m12; fi_IsFixedPitch := true;
     fi_UnderlinePosition := mkReal true 1205 (-1); fi_UnderlineThickness := real_of_Z 50;
     fi_FontMatrix := [mkReal false 1 (-3); R0; R0; mkReal false 1 (-3); R0; r_half] |}.

Example ex_fi_ok : fi_ok fi1.
Proof. repeat split; try (vm_compute; reflexivity). repeat constructor; vm_compute; auto. Qed.

Example ex_topdict :
  let p := M_dict_encode (fun _ => 0%Z) [] (M_topdict_base fi1 false) in
  snd p = [s_notice] /\
  match M_decodeDict (snd p) (fst p) with
  | Ok rd => M_topdict_info [84] rd false = fi_nf fi1
  | _ => False
  end.
Proof. vm_compute. auto. Qed.

Definition pd1 : privdict :=
  {| pd_BlueValues := [-10; 0; 700; 710]%Z; pd_OtherBlues := [-32768; 32767]%Z; pd_BlueScale := mkReal false 5 (-2);
     pd_BlueShift := 8; pd_BlueFuzz := 1; pd_StdHW := mkReal false 415 (-1); pd_StdVW := R0; pd_ForceBold := true |}.

Example ex_pd_ok : pd_ok pd1.
Proof. repeat split; try (vm_compute; reflexivity); repeat constructor; vm_compute; try discriminate; auto. Qed.

Example ex_private :
  match M_decodeDict [] (fst (M_dict_encode (fun _ => 0%Z) [] (M_makePrivateDict pd1 500 607))) with
  | Ok rd => M_private_info rd = pd1 /\ getFloat rd b_opDefaultWidthX R0 = mkReal false 5 2
  | _ => False
  end.
Proof. vm_compute. auto. Qed.

(* all defaults: nothing is written *)
Example ex_defaults :
  M_makePrivateDict (mkPriv [] [] rdefBlueScale 7 1 R0 R0 false) 0 0 = [] /\
  M_topdict_base (mkInfo [84] [] [] [] [] [] [] R0 false rdefUnderlinePosition rdefUnderlineThickness rdefault_fm) false = [].
Proof. vm_compute. auto. Qed.

(* (c) whole fonts, evaluated inside Coq; the external encoding tables are
   instantiated with small ones *)
From C13B Require Import Proofs_write Proofs_read Proofs_simple Proofs_cid.

Definition ex_std (s : str) : option N := if str_eqb s s_A then Some 65 else None.
Definition ex_exp (s : str) : option N := None.

Definition font1 : font :=
  {| f_info := fi1; f_ros := None;
     f_glyphs := [(notdef, [14]); (s_custom, [139; 14]); (s_A, [14])];
     f_defw := 500; f_nomw := 607;
     f_private := [pd1]; f_fdselect := []; f_encoding := []; f_gid2cid := []; f_fontmatrices := [] |}.

Example ex_font1_ok : font_ok_simple font1 /\ pd_ok pd1.
Proof.
  split; [|exact ex_pd_ok]. unfold font_ok_simple. split; [reflexivity|]. split; [vm_compute; reflexivity|].
  split; [exact ex_fi_ok|]. split.
  - cbn. repeat constructor; cbn; intuition discriminate.
  - split; [exists pd1; split; [reflexivity|exact ex_pd_ok]|]. unfold int32. cbn [font1 f_defw f_nomw f_encoding]. split; [lia|]. split; [lia|]. left. reflexivity.
Qed.

Example ex_font1_size : write_size_ok ex_std ex_exp font1.
Proof.
  intros secs H. vm_compute in H. injection H as <-. vm_compute. reflexivity.
Qed.

Example ex_font1_roundtrip :
  match M_write ex_std ex_exp font1 with
  | Ok bytes => lenN bytes = 136 /\ M_read ex_std ex_exp bytes = Ok (font_nf_simple ex_std font1 pd1)
  | _ => False
  end.
Proof. vm_compute. auto. Qed.

(* a custom encoding with a second code for glyph 1 (a supplement) *)
Definition font2 : font :=
  {| f_info := mkInfo [84] [] [] [] [] [] [] R0 false rdefUnderlinePosition rdefUnderlineThickness rdefault_fm;
     f_ros := None;
     f_glyphs := [(notdef, [14]); (s_custom, [14]); (s_notice, [14])];
     f_defw := 0; f_nomw := 0;
     f_private := [mkPriv [] [] rdefBlueScale 7 1 R0 R0 false]; f_fdselect := [];
     f_encoding := repeat 0 65 ++ [1; 2] ++ repeat 0 30 ++ [1] ++ repeat 0 158;
     f_gid2cid := []; f_fontmatrices := [] |}.

Example ex_font2_roundtrip :
  lenN (f_encoding font2) = 256 /\
  match M_write ex_std ex_exp font2 with
  | Ok bytes => M_read ex_std ex_exp bytes = Ok (font_nf_simple ex_std font2 (mkPriv [] [] rdefBlueScale 7 1 R0 R0 false))
  | _ => False
  end.
Proof. vm_compute. auto. Qed.

(* a CID-keyed font with two private dictionaries: what Read returns *)
Definition font3 : font :=
  {| f_info := mkInfo [67] [] s_notice [] [] [] [] r_m12 false rdefUnderlinePosition rdefUnderlineThickness rident;
     f_ros := Some ([65; 100; 111; 98; 101], [73; 100], 3%Z);
     f_glyphs := [([], [14]); ([], [139; 14]); ([], [14]); ([], [14])];
     f_defw := 1000; f_nomw := 0;
     f_private := [pd1; mkPriv [] [] rdefBlueScale 7 1 R0 R0 false];
     f_fdselect := [0; 1; 1; 0]; f_encoding := []; f_gid2cid := [0; 1; 5; 6];
     f_fontmatrices := [rdefault_fm; rident] |}.

Example ex_font3_roundtrip :
  match M_write ex_std ex_exp font3 with
  | Ok bytes =>
    match M_read ex_std ex_exp bytes with
    | Ok g => rf_ros g = f_ros font3 /\ rf_gid2cid g = f_gid2cid font3 /\ rf_fdselect g = f_fdselect font3 /\
              rf_fontmatrices g = f_fontmatrices font3 /\ map rp_dict (rf_private g) = map pd_nf (f_private font3) /\
              map snd (rf_glyphs g) = map snd (f_glyphs font3) /\ rf_info g = fi_nf (f_info font3)
    | _ => False
    end
  | _ => False
  end.
Proof. vm_compute. repeat split. Qed.

(* Write refuses: no .notdef, no glyphs *)
Example ex_refused :
  M_write ex_std ex_exp (mkFont (f_info font2) None [(s_A, [14])] 0 0 (f_private font2) [] [] [] []) = Err /\
  M_write ex_std ex_exp (mkFont (f_info font2) None [] 0 0 (f_private font2) [] [] [] []) = Err.
Proof. vm_compute. auto. Qed.

(* (d) Read on junk *)
Example ex_read_junk :
  M_read ex_std ex_exp [] = Err /\ M_read ex_std ex_exp [1; 0; 4; 1; 0; 1; 1; 1] = Err /\
  M_read ex_std ex_exp [2; 0; 4; 1] = Err.
Proof. vm_compute. auto. Qed.

(* the CID-keyed font above meets the hypotheses of write_read_roundtrip and
   Read returns exactly its normal form *)
From C13B Require Import Proofs_cid2.

Lemma ex_real_ok_by_compute r : real_canon r = true -> real_in_range r = true -> real_ok r.
Proof. intros A B. split; assumption. Qed.

Ltac rok := apply ex_real_ok_by_compute; vm_compute; reflexivity.

Example ex_font3_ok : font_ok_cid font3 [65; 100; 111; 98; 101] [73; 100] 3.
Proof.
  unfold font_ok_cid.
  split; [reflexivity|]. split; [unfold int32; lia|]. split; [vm_compute; reflexivity|].
  split.
  { unfold fi_ok. split; [rok|]. split; [rok|]. split; [rok|]. split; [reflexivity|].
    repeat (constructor; [rok|]). constructor. }
  split; [cbn [font3 f_private length]; lia|].
  split.
  { constructor; [exact ex_pd_ok|]. constructor; [|constructor].
    unfold pd_ok, int16s, int32. cbn [pd_BlueValues pd_OtherBlues pd_BlueScale pd_BlueShift pd_BlueFuzz pd_StdHW pd_StdVW].
    split; [constructor|]. split; [constructor|]. split; [rok|]. split; [lia|]. split; [lia|]. split; rok. }
  split; [reflexivity|].
  split.
  { constructor; [split; [reflexivity|repeat (constructor; [rok|]); constructor]|].
    constructor; [split; [reflexivity|repeat (constructor; [rok|]); constructor]|constructor]. }
  split; [unfold int32; cbn [font3 f_defw]; lia|]. split; [unfold int32; cbn [font3 f_nomw]; lia|].
  split; [reflexivity|].
  split; [cbn [font3 f_fdselect f_private length]; repeat (constructor; [vm_compute; reflexivity|]); constructor|].
  reflexivity.
Qed.

Example ex_font3_full :
  match M_write ex_std ex_exp font3 with
  | Ok bytes => M_read ex_std ex_exp bytes = Ok (font_nf_cid font3 [65; 100; 111; 98; 101] [73; 100] 3)
  | _ => False
  end.
Proof. vm_compute. reflexivity. Qed.
