(* C13B/ModelStr.v — the string table of a CFF font (cff/strings.go):
   cffStrings.lookup (SID allocation on the write side), cffStrings.get (SID
   resolution on the read side), cffStrings.encode (the String INDEX), and
   getString's conversion to valid UTF-8.  Definitions only.

   A string is a byte string.  The table is the slice ss.data of custom
   strings; the map ss.rev is determined by it (standard strings first, then
   the custom strings, a later entry overriding an earlier one), so lookup is
   modelled as a search. *)
From Coq Require Import List NArith ZArith Bool Arith Lia.
From Common Require Import Bytes Outcome.
From Gen Require Import C13B.
From C13 Require Import Model ModelTables.
Import ListNotations.
Local Open Scope N_scope.

Notation str := (list N) (only parsing).

Fixpoint str_eqb (a b : str) : bool :=
  match a, b with
  | [], [] => true
  | x :: a', y :: b' => (x =? y) && str_eqb a' b'
  | _, _ => false
  end.

(* index of the last occurrence of s in l, counting from i *)
Fixpoint find_last_from (s : str) (l : list str) (i : N) (acc : option N) : option N :=
  match l with
  | [] => acc
  | x :: r => find_last_from s r (i + 1) (if str_eqb x s then Some i else acc)
  end.

Definition find_last (s : str) (l : list str) : option N := find_last_from s l 0 None.

(* ss.lookup(s): the SID and the table afterwards.  rev holds the standard
   strings overridden by the custom ones; a string found nowhere is appended
   and gets int32(len(ss.data)) + nStdString. *)
Definition ss_lookup (data : list str) (s : str) : Z * list str :=
  match find_last s data with
  | Some k => (wrap_i32 (Z.of_N k + Z.of_N b_nStdString), data)
  | None =>
    match find_last s b_stdStrings with
    | Some i => (Z.of_N i, data)
    | None => (wrap_i32 (wrap_i32 (Z.of_N (lenN data)) + Z.of_N b_nStdString), data ++ [s])
    end
  end.

(* a sequence of lookups, threading the table *)
Fixpoint ss_lookups (data : list str) (l : list str) : list Z * list str :=
  match l with
  | [] => ([], data)
  | s :: r =>
    let p := ss_lookup data s in
    let q := ss_lookups (snd p) r in
    (fst p :: fst q, snd q)
  end.

(* l[i]; the bound is tested first so that no huge unary number is built *)
Definition nth_str (l : list str) (i : N) : option str :=
  if i <? lenN l then nth_error l (N.to_nat i) else None.

(* ss.get(i) *)
Definition ss_get (data : list str) (i : Z) : option str :=
  if (i <? 0)%Z then None
  else if (i <? Z.of_N b_nStdString)%Z then nth_str b_stdStrings (Z.to_N i)
  else nth_str data (Z.to_N (i - Z.of_N b_nStdString)%Z).

(* ss.encode(): the String INDEX *)
Definition ss_encode (data : list str) : outcome (list N) := M_index_encode data.

(* ---------- string([]rune(x)): valid UTF-8 ---------- *)

(* Every byte that does not start a well-formed UTF-8 sequence (Go's
   utf8.DecodeRune: shortest form, no surrogates, at most U+10FFFF) becomes
   U+FFFD = EF BF BD; well-formed sequences are kept. *)
Definition cont (b : N) : bool := (128 <=? b) && (b <=? 191).
Definition in_rng (lo hi b : N) : bool := (lo <=? b) && (b <=? hi).

(* number of bytes of the well-formed sequence at the head of l, 0 if none *)
Definition utf8_len (l : list N) : nat :=
  match l with
  | [] => 0%nat
  | b0 :: r =>
    if b0 <? 128 then 1%nat
    else if in_rng 194 223 b0 then
      match r with b1 :: _ => if cont b1 then 2%nat else 0%nat | _ => 0%nat end
    else if in_rng 224 239 b0 then
      match r with
      | b1 :: b2 :: _ =>
        let lo := if b0 =? 224 then 160 else 128 in
        let hi := if b0 =? 237 then 159 else 191 in
        if in_rng lo hi b1 && cont b2 then 3%nat else 0%nat
      | _ => 0%nat
      end
    else if in_rng 240 244 b0 then
      match r with
      | b1 :: b2 :: b3 :: _ =>
        let lo := if b0 =? 240 then 144 else 128 in
        let hi := if b0 =? 244 then 143 else 191 in
        if in_rng lo hi b1 && cont b2 && cont b3 then 4%nat else 0%nat
      | _ => 0%nat
      end
    else 0%nat
  end.

Fixpoint utf8_fix_fuel (fuel : nat) (l : list N) : list N :=
  match fuel with
  | O => []
  | S f =>
    match l with
    | [] => []
    | b0 :: r =>
      match utf8_len l with
      | O => [239; 191; 189] ++ utf8_fix_fuel f r
      | S k => firstn (S k) l ++ utf8_fix_fuel f (skipn (S k) l)
      end
    end
  end.

Definition utf8_fix (l : list N) : list N := utf8_fix_fuel (S (length l)) l.
