(* C13B/Proofs_simple.v — simple (name-keyed) fonts: Read of what Write wrote. *)
From Coq Require Import List NArith ZArith Bool Arith Lia Permutation.
From Coq Require Import ZifyBool ZifyNat ZifyN.
From Common Require Import Bytes Outcome.
From Gen Require Import C13 C13B.
From C13 Require Import Model Util ModelDict ModelTables ModelLayout
  Proofs_index Proofs_layout Proofs_charset Proofs_encoding Proofs_fdselect.
From C13B Require Import ModelNum ModelStr ModelCDict ModelFont Util Proofs_num Proofs_str Proofs_cdict
  Proofs_fields Proofs_write Proofs_read.
Import ListNotations.
Local Open Scope N_scope.

(* ---------- layout operands of dictionaries ---------- *)

Definition lay_ops_all (d : list entry) : list operand := concat (map (fun e => lay_ops_of (snd e)) d).

Lemma lay_ops_perm d d' : Permutation d d' -> Permutation (lay_ops_all d) (lay_ops_all d').
Proof.
  unfold lay_ops_all. induction 1 as [|x l l' P IH|x y l|l l' l'' P1 IH1 P2 IH2]; cbn [map concat].
  - constructor.
  - apply Permutation_app_head. exact IH.
  - rewrite !app_assoc. apply Permutation_app_tail. apply Permutation_app_comm.
  - etransitivity; eassumption.
Qed.

Lemma lay_ops_interned_args data : forall args args', Forall2 (arg_rel data) args args' -> lay_ops_of args' = lay_ops_of args.
Proof.
  induction 1 as [|v v' a a' Hr F IH]; [reflexivity|].
  unfold lay_ops_of in *. cbn [map concat]. rewrite IH. f_equal.
  destruct v; cbn [arg_rel] in Hr; try (subst; reflexivity). destruct Hr as [sid [-> _]]. reflexivity.
Qed.

Lemma lay_ops_interned data es es' : Forall2 (entry_rel data) es es' -> lay_ops_all es' = lay_ops_all es.
Proof.
  induction 1 as [|e e' es es' [_ Fa] F IH]; [reflexivity|].
  unfold lay_ops_all in *. cbn [map concat]. rewrite IH, (lay_ops_interned_args data _ _ Fa). reflexivity.
Qed.

Lemma lay_ops_dput op a d : forall o, In o (lay_ops_all (dput op a d)) -> In o (lay_ops_of a) \/ In o (lay_ops_all d).
Proof.
  induction d as [|[o' b] d IH]; intros o; cbn [dput]; unfold lay_ops_all in *; cbn [map concat snd].
  - rewrite app_nil_r. tauto.
  - destruct (o' =? op); cbn [map concat snd]; rewrite !in_app_iff; [tauto|].
    intros [H|H]; [tauto|]. destruct (IH o H); tauto.
Qed.

Lemma abs_entries_ops es : d_ops (abs_entries es) = lay_ops_all es.
Proof. reflexivity. Qed.

(* ---------- well-formed simple fonts ---------- *)

Definition font_ok_simple (f : font) : Prop :=
  f_ros f = None /\
  lenN (f_glyphs f) < 65536 /\
  fi_ok (f_info f) /\
  NoDup (map fst (f_glyphs f)) /\
  (exists p, f_private f = [p] /\ pd_ok p) /\
  int32 (f_defw f) /\ int32 (f_nomw f) /\
  (f_encoding f = [] \/ (lenN (f_encoding f) = 256 /\ forall g, In g (f_encoding f) -> g < lenN (f_glyphs f))).

Section Simple.
Variable std_code exp_code : str -> option N.

Definition s_names (f : font) : list str := map fst (f_glyphs f).
Definition s_lk (f : font) := ss_lookups [] (s_names f).
Definition s_top2 (f : font) : cdict := M_topdict_base (f_info f) false.

(* the four outcomes of the encoding stage *)
Inductive enc_stage (f : font) : option (list N) -> cdict -> Prop :=
| ES_none : f_encoding f = [] -> enc_stage f None (s_top2 f)
| ES_std : f_encoding f <> [] -> is_name_enc std_code (f_encoding f) (s_names f) = Ok true ->
    enc_stage f None (s_top2 f)
| ES_exp : f_encoding f <> [] -> is_name_enc std_code (f_encoding f) (s_names f) = Ok false ->
    is_name_enc exp_code (f_encoding f) (s_names f) = Ok true ->
    enc_stage f None (dput b_opEncoding [VInt 1] (s_top2 f))
| ES_custom e : f_encoding f <> [] -> is_name_enc std_code (f_encoding f) (s_names f) = Ok false ->
    is_name_enc exp_code (f_encoding f) (s_names f) = Ok false ->
    M_encoding_encode (f_encoding f) (fst (s_lk f)) = Ok e ->
    enc_stage f (Some e) (dput b_opEncoding [VLay (OOffs 5)] (s_top2 f)).

Definition s_top6 (f : font) (encBlob : option (list N)) (top3 : cdict) : cdict :=
  let nEnc := match encBlob with Some _ => 1%nat | None => 0%nat end in
  dput b_opCharStrings [VLay (OOffs (6 + nEnc))]
    (dput b_opCharset [VLay (OOffs (5 + nEnc))]
       (dput b_opPrivate [VLay (OSize (8 + nEnc)); VLay (OOffs (8 + nEnc))] top3)).

Definition s_pt (f : font) encBlob top3 := intern_entries (snd (s_lk f)) (sorted_entries (s_top6 f encBlob top3)).

Definition s_priv_entries (f : font) (p : privdict) (nEnc : nat) : list entry :=
  plain_entries (dput b_opSubrs [VLay (ODiff (9 + nEnc) (8 + nEnc))] (M_makePrivateDict p (f_defw f) (f_nomw f))).

Lemma firstn_all_N {A} (l : list A) : firstn (N.to_nat (lenN l)) l = l.
Proof. rewrite lenN_length, Nat2N.id. apply firstn_all. Qed.

Lemma sections_simple_inv f secs p :
  font_ok_simple f -> f_private f = [p] -> M_write_sections std_code exp_code f = Ok secs ->
  exists nameIdx encBlob top3 charset csIdx strIdx,
    f_glyphs f <> [] /\ fst (hd ([], []) (f_glyphs f)) = notdef /\
    M_index_encode [fi_FontName (f_info f)] = Ok nameIdx /\
    enc_stage f encBlob top3 /\
    M_charset_encode (fst (s_lk f)) = Ok charset /\
    M_index_encode (map snd (f_glyphs f)) = Ok csIdx /\
    ss_encode (snd (s_pt f encBlob top3)) = Ok strIdx /\
    secs = [MHeader; MFixed nameIdx; MIndex [fst (s_pt f encBlob top3)]; MLate strIdx; MFixed [0; 0]] ++
           match encBlob with Some e => [MFixed e] | None => [] end ++
           [MFixed charset; MFixed csIdx; MFixed [];
            MDict (s_priv_entries f p (match encBlob with Some _ => 1 | None => 0 end)); MFixed [0; 0]].
Proof.
  intros (Hros & Hn & _) Hp. unfold M_write_sections. rewrite Hros.
  destruct (N.ltb_spec (lenN (f_glyphs f)) 1) as [H0|H0]; [discriminate|]. cbn [orb].
  destruct (str_eqb (fst (hd ([], []) (f_glyphs f))) notdef) eqn:Enot; [|discriminate]. cbn [negb].
  apply str_eqb_eq in Enot.
  destruct (M_index_encode [fi_FontName (f_info f)]) as [nameIdx| | |] eqn:En; cbn [obind]; try discriminate.
  unfold M_sections_simple.
  assert (Hmod : lenN (f_glyphs f) mod 65536 = lenN (f_glyphs f)) by (apply N.mod_small; exact Hn).
  rewrite Hmod, firstn_all_N. fold (s_names f). fold (s_lk f). fold (s_top2 f). rewrite Hp. cbn [length].
  (* the encoding stage *)
  match goal with |- obind ?X _ = _ -> _ => set (stage := X) end.
  assert (Hstage : forall x, stage = Ok x -> enc_stage f (fst x) (snd x)).
  { subst stage. intros x. destruct (N.eqb_spec (lenN (f_encoding f)) 0) as [E|E].
    - intros H; inversion H; subst. cbn [fst snd]. apply ES_none. apply lenN_zero. exact E.
    - assert (Hne : f_encoding f <> []) by (intros Hx; rewrite Hx in E; apply E; reflexivity).
      destruct (is_name_enc std_code (f_encoding f) (s_names f)) as [[|]| | |] eqn:Es; cbn [obind]; try discriminate.
      + intros H; inversion H; subst. cbn [fst snd]. apply ES_std; assumption.
      + destruct (is_name_enc exp_code (f_encoding f) (s_names f)) as [[|]| | |] eqn:Ee; cbn [obind]; try discriminate.
        * intros H; inversion H; subst. cbn [fst snd]. apply ES_exp; assumption.
        * destruct (M_encoding_encode (f_encoding f) (fst (s_lk f))) as [e| | |] eqn:Em; cbn [obind]; try discriminate.
          intros H; inversion H; subst. cbn [fst snd]. apply ES_custom; assumption. }
  destruct stage as [[encBlob top3]| | |] eqn:Est; cbn [obind]; try discriminate.
  specialize (Hstage _ eq_refl). cbn [fst snd] in *.
  destruct (M_charset_encode (fst (s_lk f))) as [charset| | |] eqn:Ec; cbn [obind]; try discriminate.
  destruct (M_index_encode (map snd (f_glyphs f))) as [csIdx| | |] eqn:Ei; cbn [obind]; try discriminate.
  match goal with |- context [ss_encode ?x] => destruct (ss_encode x) as [strIdx| | |] eqn:Ess end; cbn [obind]; try discriminate.
  intros H. injection H as Hsecs.
  exists nameIdx, encBlob, top3, charset, csIdx, strIdx.
  split; [intros Hx; rewrite Hx in H0; cbn in H0; lia|]. split; [exact Enot|]. split; [reflexivity|].
  split; [exact Hstage|]. split; [reflexivity|]. split; [reflexivity|].
  unfold priv_sections in Hsecs. rewrite Hp in Hsecs. cbn [length seq combine map fst snd] in Hsecs.
  rewrite <- Hsecs. unfold s_priv_entries, s_pt, s_top6.
  destruct encBlob as [e|]; cbn [Nat.add] in *; (split; [exact Ess|reflexivity]).
Qed.

End Simple.

(* ---------- no layout operands in the FontInfo / Private parts ---------- *)

Definition nolay (e : entry) : Prop := lay_ops_of (snd e) = [].

Lemma lay_ops_reals l : lay_ops_of (map VReal l) = [].
Proof. induction l as [|r l IH]; [reflexivity|]. unfold lay_ops_of in *. cbn [map concat app]. exact IH. Qed.

Lemma lay_ops_deltas : forall l p, lay_ops_of (deltas p l) = [].
Proof. induction l as [|x l IH]; intros p; [reflexivity|]. unfold lay_ops_of in *. cbn [deltas map concat app]. apply IH. Qed.

Lemma nolay_all d : Forall nolay d -> lay_ops_all d = [].
Proof. induction 1 as [|e d He Hd IH]; [reflexivity|]. unfold lay_ops_all in *. cbn [map concat]. rewrite He, IH. reflexivity. Qed.

Lemma topdict_base_nolay fi isCID : Forall nolay (M_topdict_base fi isCID).
Proof.
  assert (G : good nolay 6 (M_topdict_base fi isCID)).
  { unfold M_topdict_base, M_makeTopDict.
    apply good_setFontMatrix; [|apply lay_ops_reals].
    apply good_if2; [|unfold M_dict_number; destruct (real_to_int32 _); reflexivity|intros _; unfold nolay, M_dict_number; cbn [snd]; destruct (real_to_int32 _); reflexivity].
    apply good_if2; [|unfold M_dict_number; destruct (real_to_int32 _); reflexivity|intros _; unfold nolay, M_dict_number; cbn [snd]; destruct (real_to_int32 _); reflexivity].
    apply good_if2; [|reflexivity|intros _; reflexivity].
    apply good_if1; [|reflexivity|intros _; reflexivity].
    change 6 with (0 + 1 + 1 + 1 + 1 + 1 + 1).
    repeat (apply good_put_str; [|intros _; reflexivity]).
    apply good_nil. }
  exact (proj1 (proj2 G)).
Qed.

Lemma privdict_nolay p dw nw : Forall nolay (M_makePrivateDict p dw nw).
Proof.
  assert (G : good nolay 0 (M_makePrivateDict p dw nw)).
  { unfold M_makePrivateDict.
    do 8 (first [apply good_if2; [|reflexivity|intros _; reflexivity] | apply good_if1; [|reflexivity|intros _; reflexivity]]).
    apply good_setDelta; [|intros _; apply lay_ops_deltas].
    apply good_setDelta; [|intros _; apply lay_ops_deltas].
    apply good_nil. }
  exact (proj1 (proj2 G)).
Qed.

(* the layout operands of a dictionary after a chain of dput *)
Lemma lay_ops_sorted_interned data d o :
  In o (lay_ops_all (fst (intern_entries data (sorted_entries d)))) -> wf_table data -> small (data ++ all_strs (sorted_entries d)) ->
  In o (lay_ops_all d).
Proof.
  intros Hin Hwf Hsm. destruct (intern_entries_spec (sorted_entries d) data Hwf Hsm) as (_ & _ & _ & F).
  rewrite (lay_ops_interned _ _ _ F) in Hin.
  eapply Permutation_in; [apply Permutation_sym, lay_ops_perm, sorted_perm|exact Hin].
Qed.

(* ---------- the layout of a simple font ---------- *)

Definition simple_secs (nameIdx : list N) (topes : list entry) (strIdx : list N) (encBlob : option (list N))
    (charset csIdx : list N) (privEs : list entry) : list msec :=
  [MHeader; MFixed nameIdx; MIndex [topes]; MLate strIdx; MFixed [0; 0]] ++
  match encBlob with Some e => [MFixed e] | None => [] end ++
  [MFixed charset; MFixed csIdx; MFixed []; MDict privEs; MFixed [0; 0]].

Definition nenc (encBlob : option (list N)) : nat := match encBlob with Some _ => 1 | None => 0 end.

(* where the layout operands of a simple font may point *)
Definition simple_op_ok (k : nat) (o : operand) : Prop :=
  o = OOffs (5 + k) \/ o = OOffs (6 + k) \/ o = OOffs (8 + k) \/ o = OSize (8 + k) \/ (k = 1%nat /\ o = OOffs 5).

Lemma simple_layout_wf nameIdx topes strIdx encBlob charset csIdx privEs :
  (forall o, In o (lay_ops_all topes) -> simple_op_ok (nenc encBlob) o) ->
  (forall o, In o (lay_ops_all privEs) -> o = ODiff (9 + nenc encBlob) (8 + nenc encBlob)) ->
  let asecs := map abs_sec (simple_secs nameIdx topes strIdx encBlob charset csIdx privEs) in
  Forall (wf asecs) (all_ops asecs).
Proof.
  intros Htop Hpriv asecs. apply Forall_forall. intros o Hin.
  assert (Hcases : In o (lay_ops_all topes) \/ In o (lay_ops_all privEs)).
  { subst asecs. unfold simple_secs, all_ops in Hin. destruct encBlob;
      cbn [map app abs_sec concat d_ops abs_entries] in Hin; rewrite ?app_nil_r in Hin;
      repeat (apply in_app_or in Hin; destruct Hin as [Hin|Hin]); try contradiction; auto;
      cbn [In] in Hin; tauto. }
  assert (Hpw : Forall (wf0 asecs) (lay_ops_all privEs)).
  { apply Forall_forall. intros o' Ho'. rewrite (Hpriv o' Ho'). subst asecs. unfold simple_secs.
    destruct encBlob; cbn [wf0 nenc map app length]; lia. }
  destruct Hcases as [H|H].
  - destruct (Htop o H) as [->|[->|[->|[->|[Hk ->]]]]]; subst asecs; unfold simple_secs;
      destruct encBlob; cbn [nenc] in *; try discriminate; cbn [wf wf0 map app length abs_sec Nat.add]; try lia.
    + split; [lia|]. eexists. split; [reflexivity|]. exact Hpw.
    + split; [lia|]. eexists. split; [reflexivity|]. exact Hpw.
  - rewrite Forall_forall in Hpw. specialize (Hpw o H). rewrite (Hpriv o H) in *. exact Hpw.
Qed.

Section Simple2.
Variable std_code exp_code : str -> option N.

Lemma s_lk_props f : lenN (f_glyphs f) < 65536 ->
  wf_table (snd (s_lk f)) /\ lenN (snd (s_lk f)) <= lenN (f_glyphs f) /\
  Forall2 (sid_spec (snd (s_lk f))) (s_names f) (fst (s_lk f)).
Proof.
  intros Hn. unfold s_lk.
  assert (Hl : lenN (s_names f) = lenN (f_glyphs f)) by (unfold s_names; apply lenN_map).
  destruct (lookups_spec (s_names f) [] wf_nil ltac:(apply small_of_bound; cbn [app]; lia)) as (W & E & L & F).
  cbn [lenN] in L. split; [exact W|]. split; [lia|exact F].
Qed.

Lemma enc_stage_good f encBlob top3 (P : entry -> Prop) :
  enc_stage std_code exp_code f encBlob top3 -> good P 6 (s_top2 f) ->
  P (b_opEncoding, [VInt 1]) -> P (b_opEncoding, [VLay (OOffs 5)]) -> good P 6 top3.
Proof.
  intros Hs G P1 P2. destruct Hs; try exact G; apply good_dput; auto.
Qed.

Lemma s_top6_good f encBlob top3 (P : entry -> Prop) :
  good P 6 top3 ->
  (forall op o, P (op, [VLay o])) -> (forall op o1 o2, P (op, [VLay o1; VLay o2])) ->
  good P 6 (s_top6 f encBlob top3).
Proof.
  intros G P1 P2. unfold s_top6. cbv zeta. repeat (apply good_dput; [|reflexivity|auto]). exact G.
Qed.

Lemma topdict_base_trivial fi isCID : good (fun _ => True) 6 (M_topdict_base fi isCID).
Proof.
  unfold M_topdict_base, M_makeTopDict.
  apply good_setFontMatrix; [|exact I].
  apply good_if2; [|unfold M_dict_number; destruct (real_to_int32 _); reflexivity|intros _; exact I].
  apply good_if2; [|unfold M_dict_number; destruct (real_to_int32 _); reflexivity|intros _; exact I].
  apply good_if2; [|reflexivity|intros _; exact I].
  apply good_if1; [|reflexivity|intros _; exact I].
  change 6 with (0 + 1 + 1 + 1 + 1 + 1 + 1).
  repeat (apply good_put_str; [|intros _; exact I]).
  apply good_nil.
Qed.

Lemma enc_stage_ops f encBlob top3 o :
  enc_stage std_code exp_code f encBlob top3 -> In o (lay_ops_all top3) -> nenc encBlob = 1%nat /\ o = OOffs 5.
Proof.
  intros Hs Hin. pose proof (nolay_all _ (topdict_base_nolay (f_info f) false)) as Hz. fold (s_top2 f) in Hz.
  destruct Hs; try (rewrite Hz in Hin; destruct Hin).
  - apply lay_ops_dput in Hin. destruct Hin as [Hin|Hin]; [destruct Hin|rewrite Hz in Hin; destruct Hin].
  - apply lay_ops_dput in Hin. destruct Hin as [Hin|Hin]; [|rewrite Hz in Hin; destruct Hin].
    cbn in Hin. destruct Hin as [<-|[]]. split; reflexivity.
Qed.

Lemma s_top6_small f encBlob top3 :
  lenN (f_glyphs f) < 65536 -> enc_stage std_code exp_code f encBlob top3 ->
  NoDup (keys (s_top6 f encBlob top3)) /\
  small (snd (s_lk f) ++ all_strs (sorted_entries (s_top6 f encBlob top3))).
Proof.
  intros Hn Hs. destruct (s_lk_props f Hn) as (W & L & _).
  assert (G : good (fun _ => True) 6 (s_top6 f encBlob top3)).
  { apply s_top6_good; auto. apply (enc_stage_good f encBlob top3 _ Hs); auto. apply topdict_base_trivial. }
  destruct G as (A & _ & C). split; [exact A|].
  unfold small. rewrite lenN_app. fold (nstrs (sorted_entries (s_top6 f encBlob top3))).
  rewrite <- (nstrs_perm _ _ (sorted_perm _)). pose proof nstd_val. lia.
Qed.

Lemma s_top_ops f encBlob top3 o :
  lenN (f_glyphs f) < 65536 -> enc_stage std_code exp_code f encBlob top3 ->
  In o (lay_ops_all (fst (s_pt f encBlob top3))) -> simple_op_ok (nenc encBlob) o.
Proof.
  intros Hn Hs Hin. destruct (s_lk_props f Hn) as (W & L & _).
  destruct (s_top6_small f encBlob top3 Hn Hs) as [_ Hsm].
  unfold s_pt in Hin. apply lay_ops_sorted_interned in Hin; [|exact W|exact Hsm].
  unfold s_top6 in Hin. cbv zeta in Hin. fold (nenc encBlob) in Hin. unfold simple_op_ok.
  apply lay_ops_dput in Hin. destruct Hin as [Hin|Hin]; [cbn in Hin; destruct Hin as [<-|[]]; tauto|].
  apply lay_ops_dput in Hin. destruct Hin as [Hin|Hin]; [cbn in Hin; destruct Hin as [<-|[]]; tauto|].
  apply lay_ops_dput in Hin. destruct Hin as [Hin|Hin]; [cbn in Hin; destruct Hin as [<-|[<-|[]]]; tauto|].
  destruct (enc_stage_ops f encBlob top3 o Hs Hin) as [A B]. right; right; right; right. split; assumption.
Qed.

Lemma s_priv_ops f p k o : In o (lay_ops_all (s_priv_entries f p k)) -> o = ODiff (9 + k) (8 + k).
Proof.
  unfold s_priv_entries. intros Hin.
  rewrite plain_entries_nostr in Hin.
  2: { apply Forall_dput; [reflexivity|apply privdict_nostr]. }
  apply (Permutation_in _ (Permutation_sym (lay_ops_perm _ _ (sorted_perm _)))) in Hin.
  apply lay_ops_dput in Hin. destruct Hin as [Hin|Hin]; [cbn in Hin; destruct Hin as [<-|[]]; reflexivity|].
  rewrite (nolay_all _ (privdict_nolay _ _ _)) in Hin. destruct Hin.
Qed.

End Simple2.

Lemma simple_blobs lay h nameIdx topes strIdx encBlob charset csIdx privEs blobs :
  Forall2 (fun s b => sec_bytes lay h s = Ok b)
    (simple_secs nameIdx topes strIdx encBlob charset csIdx privEs) blobs ->
  exists topIdx, M_index_encode [enc_entries lay topes] = Ok topIdx /\
    blobs = [[1; 0; 4; h]; nameIdx; topIdx; strIdx; [0; 0]] ++
            match encBlob with Some e => [e] | None => [] end ++
            [charset; csIdx; []; enc_entries lay privEs; [0; 0]].
Proof.
  unfold simple_secs. intros F.
  destruct encBlob as [e|]; cbn [app] in F;
    repeat match goal with
    | H : Forall2 _ (_ :: _) _ |- _ => inversion H; clear H; subst
    | H : Forall2 _ [] _ |- _ => inversion H; clear H; subst
    end;
    cbn [sec_bytes map] in *;
    repeat match goal with
    | H : Ok _ = Ok _ |- _ => inversion H; clear H; subst
    end;
    eexists; (split; [eassumption|reflexivity]).
Qed.

Section Simple3.
Variable std_code exp_code : str -> option N.

Definition stage_enc_args (encBlob : option (list N)) (top3 : cdict) : option (list opv) := assoc b_opEncoding top3.

Lemma s_top6_assoc f encBlob top3 :
  enc_stage std_code exp_code f encBlob top3 ->
  let k := nenc encBlob in
  let d := s_top6 f encBlob top3 in
  assoc b_opCharStrings d = Some [VLay (OOffs (6 + k))] /\
  assoc b_opCharset d = Some [VLay (OOffs (5 + k))] /\
  assoc b_opPrivate d = Some [VLay (OSize (8 + k)); VLay (OOffs (8 + k))] /\
  assoc b_opROS d = None /\
  assoc b_opCharstringType d = None /\
  assoc b_opEncoding d = assoc b_opEncoding top3 /\
  (forall op, In op info_ops -> assoc op d = assoc op (M_topdict_base (f_info f) false)).
Proof.
  intros Hs. cbv zeta. unfold s_top6. cbv zeta. fold (nenc encBlob).
  assert (Hbase : forall op, (op =? b_opEncoding) = false -> assoc op top3 = assoc op (s_top2 f)).
  { intros op Hop. destruct Hs; try reflexivity; rewrite assoc_dput; rewrite N.eqb_sym in Hop; rewrite Hop; reflexivity. }
  repeat match goal with |- _ /\ _ => split end.
  - assoc_simpl. reflexivity.
  - assoc_simpl. reflexivity.
  - assoc_simpl. reflexivity.
  - assoc_simpl. rewrite Hbase by reflexivity. unfold s_top2, M_topdict_base, M_makeTopDict. assoc_simpl. reflexivity.
  - assoc_simpl. rewrite Hbase by reflexivity. unfold s_top2, M_topdict_base, M_makeTopDict. assoc_simpl. reflexivity.
  - assoc_simpl. reflexivity.
  - intros op Hin. cbn [info_ops In] in Hin.
    repeat (destruct Hin as [<-|Hin]; [assoc_simpl; rewrite Hbase by reflexivity; reflexivity|]). destruct Hin.
Qed.

Lemma s_top6_entries_ok f encBlob top3 lay :
  fi_ok (f_info f) -> enc_stage std_code exp_code f encBlob top3 ->
  let k := nenc encBlob in
  int32 (lay (OOffs (5 + k))) -> int32 (lay (OOffs (6 + k))) -> int32 (lay (OOffs (8 + k))) ->
  int32 (lay (OSize (8 + k))) -> (k = 1%nat -> int32 (lay (OOffs 5))) ->
  Forall (src_entry_ok lay (snd (s_lk f))) (s_top6 f encBlob top3).
Proof.
  intros Hfi Hs k H5 H6 H8 Hz8 He.
  assert (Hone : forall op o, op_legal op -> op_is_string op = false -> int32 (lay o) ->
                 src_entry_ok lay (snd (s_lk f)) (op, [VLay o])).
  { intros op o H1 H2 H3. split; [exact H1|]. cbn [fst snd]. rewrite str_count_nostr by exact H2. cbn. split; [exact H3|exact I]. }
  unfold s_top6. cbv zeta. fold (nenc encBlob). fold k.
  apply Forall_dput; [apply Hone; [op_legal_tac|reflexivity|exact H6]|].
  apply Forall_dput; [apply Hone; [op_legal_tac|reflexivity|exact H5]|].
  apply Forall_dput.
  { split; [op_legal_tac|]. cbn [fst snd]. rewrite str_count_nostr by reflexivity. cbn. tauto. }
  pose proof (proj1 (proj2 (topdict_base_good lay (snd (s_lk f)) (f_info f) false Hfi))) as Hb. fold (s_top2 f) in Hb.
  destruct Hs; try exact Hb.
  - apply Forall_dput; [|exact Hb]. split; [op_legal_tac|]. cbn [fst snd]. rewrite str_count_nostr by reflexivity. cbn. split; [unfold int32; lia|exact I].
  - apply Forall_dput; [|exact Hb]. apply Hone; [op_legal_tac|reflexivity|]. apply He. reflexivity.
Qed.

End Simple3.

(* the glyph SIDs of a font that Write accepted: .notdef first, all in 16 bits *)
Lemma charset_ok_form sids charset : M_charset_encode sids = Ok charset ->
  exists ns, sids = 0%Z :: map Z.of_N ns /\ Forall Proofs_charset.small ns.
Proof.
  unfold M_charset_encode. destruct sids as [|n0 names]; [discriminate|].
  destruct (Z.eqb_spec n0 0) as [->|]; cbn [negb]; [|discriminate].
  destruct (existsb _ names) eqn:Ex; [discriminate|]. intros _.
  exists (map Z.to_N names).
  assert (Hall : Forall (fun x => (0 <= x <= 65535)%Z) names).
  { apply Forall_forall. intros x Hin.
    assert (Hx : ((x <? 0) || (65535 <? x))%Z = false).
    { destruct ((x <? 0) || (65535 <? x))%Z eqn:E; [|reflexivity].
      assert (existsb (fun x => (x <? 0) || (65535 <? x))%Z names = true) by (apply existsb_exists; eauto). congruence. }
    lia. }
  split.
  - f_equal. rewrite map_map. clear Ex. induction Hall as [|x l Hx Hl IH]; [reflexivity|].
    cbn [map]. rewrite Z2N.id by lia. f_equal. exact IH.
  - clear Ex. induction Hall as [|x l Hx Hl IH]; [constructor|]. cbn [map]. constructor; [|exact IH].
    unfold Proofs_charset.small. lia.
Qed.

Lemma lookups_length l : forall data, length (fst (ss_lookups data l)) = length l.
Proof. induction l as [|s l IH]; intros data; [reflexivity|]. cbn [ss_lookups fst length]. rewrite IH. reflexivity. Qed.

(* resolving the glyph names *)
Lemma names_of_ok strs : forall names sids,
  Forall2 (fun s sid => ss_get strs sid = Some s) names sids -> names_of strs sids = Ok names.
Proof.
  induction 1 as [|s sid names sids H F IH]; [reflexivity|].
  cbn [names_of]. rewrite H, IH. reflexivity.
Qed.

Lemma Forall2_nodup {A B} (R : A -> B -> Prop) l l' :
  (forall a a' b, R a b -> R a' b -> a = a') -> Forall2 R l l' -> NoDup l -> NoDup l'.
Proof.
  intros Hinj F. induction F as [|a b l l' Hab F IH]; intros Hnd; [constructor|].
  inversion Hnd as [|? ? Hn Hnd']; subst. constructor; [|apply IH; exact Hnd'].
  intros Hin. apply Hn. clear -Hinj F Hab Hin. induction F as [|a2 b2 l l' H2 F IH]; [destruct Hin|].
  destruct Hin as [->|Hin]; [left; exact (Hinj _ _ _ H2 Hab)|right; apply IH; exact Hin].
Qed.

(* name-based encodings *)
Lemma set_nth_length l : forall i v, length (set_nth l i v) = length l.
Proof. induction l as [|x l IH]; intros i v; [destruct i; reflexivity|]. destruct i; cbn [set_nth length]; [reflexivity|rewrite IH; reflexivity]. Qed.

Lemma name_enc_from_length code_of : forall names gid acc, length (name_enc_from code_of gid names acc) = length acc.
Proof.
  induction names as [|n names IH]; intros gid acc; [reflexivity|].
  cbn [name_enc_from]. rewrite IH. destruct (code_of n); [apply set_nth_length|reflexivity].
Qed.

Lemma name_enc_length code_of names : length (name_enc code_of names) = 256%nat.
Proof. unfold name_enc. rewrite name_enc_from_length. apply repeat_length. Qed.

Lemma cmp_enc_true : forall tmp enc, cmp_enc enc tmp = Ok true -> firstn (length tmp) enc = tmp.
Proof.
  induction tmp as [|g t IH]; intros enc; [reflexivity|].
  destruct enc as [|e r]; cbn [cmp_enc]; [intros Hx; discriminate Hx|]. destruct (e =? g) eqn:E; [|intros Hx; discriminate Hx].
  apply N.eqb_eq in E. subst e. intros H. cbn [length firstn]. f_equal. apply IH. exact H.
Qed.

Lemma is_name_enc_true code_of enc names : lenN enc = 256 -> is_name_enc code_of enc names = Ok true ->
  name_enc code_of names = enc.
Proof.
  intros Hl H. unfold is_name_enc in H. apply cmp_enc_true in H. rewrite name_enc_length in H.
  rewrite <- H. rewrite lenN_length in Hl. apply firstn_all2. lia.
Qed.

(* an entry occupies at least one byte *)
Lemma enc_entries_in lay es e : In e es -> 1 <= lenN (enc_entries lay es).
Proof.
  intros Hin. unfold enc_entries. induction es as [|x es IH]; [destruct Hin|].
  cbn [map concat]. rewrite lenN_app. destruct Hin as [->|Hin].
  - unfold enc_entry. rewrite lenN_app. pose proof (enc_op_len (fst e)). rewrite (lenN_length (enc_op (fst e))). lia.
  - specialize (IH Hin). lia.
Qed.

Lemma nth_map_lenN (bl : list (list N)) j b : nth_error bl j = Some b -> nth j (map lenN bl) 0 = lenN b.
Proof.
  revert j. induction bl as [|x bl IH]; intros j H; [destruct j; discriminate|].
  destruct j as [|j]; cbn in *; [inversion H; reflexivity|apply IH; exact H].
Qed.

Lemma combine_fst_snd {A B} (l : list (A * B)) : combine (map fst l) (map snd l) = l.
Proof. induction l as [|[a b] l IH]; [reflexivity|]. cbn [map combine fst snd]. rewrite IH. reflexivity. Qed.

Lemma nodup_sidN (l : list Z) : NoDup l -> Forall (fun x => (0 <= x < 65536)%Z) l -> NoDup (map sidN l).
Proof.
  induction 1 as [|x l Hn Hnd IH]; intros Hr; [constructor|].
  inversion Hr as [|? ? Hx Hr']; subst. cbn [map]. constructor; [|apply IH; exact Hr'].
  intros Hin. apply in_map_iff in Hin. destruct Hin as [y [Ey Hy]]. apply Hn.
  rewrite Forall_forall in Hr'. specialize (Hr' y Hy). unfold sidN in Ey.
  rewrite !Z.mod_small in Ey by lia. assert (y = x) by lia. subst. exact Hy.
Qed.

Section SimpleMain.
Variable std_code exp_code : str -> option N.

(* what Read returns for a simple font that was written: the normal form *)
Definition font_nf_simple (f : font) (p : privdict) : rfont :=
  {| rf_info := fi_nf (f_info f);
     rf_ros := None;
     rf_glyphs := f_glyphs f;
     rf_gsubrs := [];
     rf_private := [{| rp_dict := pd_nf p; rp_subrs := [];
                       rp_defw := real_of_Z (f_defw f); rp_nomw := real_of_Z (f_nomw f) |}];
     rf_fdselect := repeat 0 (N.to_nat (lenN (f_glyphs f)));
     rf_encoding := match f_encoding f with
                    | [] => name_enc std_code (s_names f)
                    | _ => f_encoding f
                    end;
     rf_gid2cid := [];
     rf_fontmatrices := [] |}.

(* the largest size the file can have (every offset operand five bytes long)
   fits an int32: Font.Write keeps offsets in int32 *)
Definition write_size_ok (f : font) : Prop :=
  forall secs, M_write_sections std_code exp_code f = Ok secs ->
    (Z.of_N (sumN (smax (map abs_sec secs))) < 2147483648)%Z.

Lemma simple_roundtrip_gen f bytes p :
  font_ok_simple f -> f_private f = [p] -> pd_ok p -> write_size_ok f ->
  M_write std_code exp_code f = Ok bytes ->
  M_read std_code exp_code bytes = Ok (font_nf_simple f p).
Proof.
  intros Hok Hp Hpd Hsize Hw.
  pose proof Hok as (Hros & Hn & Hfi & Hnd & _ & Hdw & Hnw & Henc).
  unfold M_write in Hw.
  destruct (M_write_sections std_code exp_code f) as [secs| | |] eqn:Esecs; cbn [obind] in Hw; try discriminate.
  destruct (sections_simple_inv std_code exp_code f secs p Hok Hp Esecs)
    as (nameIdx & encBlob & top3 & charset & csIdx & strIdx & Hne & Hnot & Enam & Hstage & Echar & Ecs & Estr & Hsecs).
  fold (simple_secs nameIdx (fst (s_pt f encBlob top3)) strIdx encBlob charset csIdx
          (s_priv_entries f p (nenc encBlob))) in Hsecs.
  set (topes := fst (s_pt f encBlob top3)) in *.
  set (privEs := s_priv_entries f p (nenc encBlob)) in *.
  assert (Hwf : Forall (wf (map abs_sec secs)) (all_ops (map abs_sec secs))).
  { rewrite Hsecs. apply simple_layout_wf.
    - intros o Ho. exact (s_top_ops std_code exp_code f encBlob top3 o Hn Hstage Ho).
    - intros o Ho. exact (s_priv_ops f p _ o Ho). }
  destruct (write_facts_of secs bytes Hwf (Hsize secs Esecs) Hw) as (w & Ews & Ewb & Hfacts).
  pose proof Hfacts as (Hb & Hf & Hs & Hsum & Hoffs & Hsz).
  rewrite Ews, Hsecs in Hf.
  destruct (simple_blobs _ _ nameIdx topes strIdx encBlob charset csIdx privEs _ Hf) as (topIdx & Etop & Hblobs).
  set (lay := w_lay w) in *. set (k := nenc encBlob) in *.
  assert (Hlen : length (w_secs w) = (10 + k)%nat).
  { rewrite Ews, Hsecs. subst k. destruct encBlob; reflexivity. }
  assert (Hprivsec : nth (8 + k) (map abs_sec (w_secs w)) (SFixed 0) = SDict (abs_entries privEs)).
  { rewrite Ews, Hsecs. subst k. destruct encBlob; reflexivity. }
  assert (Hprivwf : Forall (wf0 (map abs_sec (w_secs w))) (d_ops (abs_entries privEs))).
  { apply Forall_forall. intros o Ho. rewrite abs_entries_ops in Ho. rewrite (s_priv_ops f p _ o Ho).
    cbn [wf0]. rewrite map_length, Hlen. fold k. lia. }
  destruct (lay_offs w (5 + k) Hfacts ltac:(lia)) as [E5 R5].
  destruct (lay_offs w (6 + k) Hfacts ltac:(lia)) as [E6 R6].
  destruct (lay_offs w (8 + k) Hfacts ltac:(lia)) as [E8 R8].
  destruct (lay_offs w (9 + k) Hfacts ltac:(lia)) as [E9 R9].
  destruct (lay_offs w 5 Hfacts ltac:(lia)) as [E5' R5'].
  destruct (lay_size w (8 + k) _ Hfacts Hprivsec Hprivwf) as [Ez8 Rz8].
  destruct (lay_diff w (9 + k) (8 + k) Hfacts ltac:(lia) ltac:(lia)) as [Ed Rd].
  fold lay in E5, R5, E6, R6, E8, R8, E9, R9, E5', R5', Ez8, Rz8, Ed, Rd.
  (* the Top DICT *)
  destruct (s_lk_props f Hn) as (Wd & Ld & Fsid).
  destruct (s_top6_small std_code exp_code f encBlob top3 Hn Hstage) as [Hnd6 Hsm6].
  assert (Hok6 : Forall (src_entry_ok lay (snd (s_lk f))) (s_top6 f encBlob top3)).
  { apply (s_top6_entries_ok std_code exp_code f encBlob top3 lay Hfi Hstage); fold k; unfold int32; lia. }
  destruct (dict_roundtrip_gen' lay (snd (s_lk f)) (s_top6 f encBlob top3) Wd Hnd6 Hok6 Hsm6)
    as (W' & Ext' & L' & rd & Hrd & Hfind).
  change (fst (M_dict_encode lay (snd (s_lk f)) (s_top6 f encBlob top3))) with (enc_entries lay topes) in *.
  change (snd (M_dict_encode lay (snd (s_lk f)) (s_top6 f encBlob top3))) with (snd (s_pt f encBlob top3)) in *.
  set (strs := snd (s_pt f encBlob top3)) in *.
  (* the bytes *)
  set (h := hdr_offsize _ (w_offs w)) in Hblobs.
  assert (Hh : h <= 4) by apply offs_size_le4.
  set (privb := enc_entries lay privEs) in *.
  set (encL := match encBlob with Some e => e | None => [] end).
  assert (Hbytes : bytes = [1; 0; 4; h] ++ nameIdx ++ topIdx ++ strIdx ++ [0; 0] ++ encL ++ charset ++ csIdx ++ privb ++ [0; 0]).
  { rewrite <- Ewb, Hb, Hblobs. subst encL. destruct encBlob; cbn [concat app]; rewrite ?app_nil_r, <- ?app_assoc; reflexivity. }
  assert (Hn5 : nth_error (w_blobs w) (5 + k) = Some charset) by (rewrite Hblobs; subst k; destruct encBlob; reflexivity).
  assert (Hn6 : nth_error (w_blobs w) (6 + k) = Some csIdx) by (rewrite Hblobs; subst k; destruct encBlob; reflexivity).
  assert (Hn8 : nth_error (w_blobs w) (8 + k) = Some privb) by (rewrite Hblobs; subst k; destruct encBlob; reflexivity).
  assert (Hn9 : nth_error (w_blobs w) (9 + k) = Some [0; 0]) by (rewrite Hblobs; subst k; destruct encBlob; reflexivity).
  destruct (section_at w (5 + k) charset Hfacts Hn5 ltac:(lia)) as (_ & P5 & _).
  destruct (section_at w (6 + k) csIdx Hfacts Hn6 ltac:(lia)) as (_ & P6 & _).
  destruct (section_at w (8 + k) privb Hfacts Hn8 ltac:(lia)) as (_ & P8 & Q8).
  destruct (section_at w (9 + k) [0; 0] Hfacts Hn9 ltac:(lia)) as (_ & P9 & _).
  change (nth_offs (w_offs w) (5 + k)) with (lay (OOffs (5 + k))) in P5.
  change (nth_offs (w_offs w) (6 + k)) with (lay (OOffs (6 + k))) in P6.
  change (nth_offs (w_offs w) (8 + k)) with (lay (OOffs (8 + k))) in P8, Q8.
  change (nth_offs (w_offs w) (9 + k)) with (lay (OOffs (9 + k))) in P9.
  rewrite Ewb in P5, P6, P8, Q8, P9.
  (* every section lies behind the header *)
  assert (Hs0 : exists rest, w_sizes w = 4 :: rest).
  { rewrite <- Hs, Hblobs. cbn [app map lenN]. eexists. reflexivity. }
  destruct Hs0 as [srest Hs0].
  assert (Hge4 : forall j, (0 < j)%nat -> 4 <= sumN (firstn j (w_sizes w))).
  { intros j Hj. rewrite Hs0. destruct j; [lia|]. cbn [firstn sumN]. lia. }
  pose proof (Hge4 (5 + k)%nat ltac:(lia)) as G5. pose proof (Hge4 (6 + k)%nat ltac:(lia)) as G6.
  pose proof (Hge4 (8 + k)%nat ltac:(lia)) as G8.
  (* Read *)
  rewrite Hbytes in *. clear Hbytes. cbn [app] in P5, P6, P8, Q8, P9, Ewb |- *.
  unfold M_read.
  set (rest0 := nameIdx ++ topIdx ++ strIdx ++ 0 :: 0 :: encL ++ charset ++ csIdx ++ privb ++ [0; 0]) in *.
  set (data := 1 :: 0 :: 4 :: h :: rest0) in *.
  set (size := lenN data).
  cbn [N.eqb Pos.eqb negb orb N.ltb N.compare Pos.compare Pos.compare_cont].
  destruct (N.ltb_spec 4 h) as [Hx|_]; [lia|].
  assert (Hsize4 : size = 4 + (lenN nameIdx + (lenN topIdx + (lenN strIdx + (2 + (lenN encL + (lenN charset + (lenN csIdx + (lenN privb + 2))))))))).
  { subst size data rest0. cbn [lenN]. rewrite !lenN_app. cbn [lenN]. rewrite !lenN_app. cbn [lenN]. lia. }
  assert (Hd4 : dropN data 4 = rest0) by (unfold data; cbn [dropN N.eqb N.pred Pos.pred_N Pos.pred_double]; apply dropN_zero).
  rewrite Hd4. unfold rest0 at 1.
  rewrite (index_rt_of_ok _ _ Enam size _ ltac:(lia)). cbn [obind fst snd].
  change (lenN [fi_FontName (f_info f)]) with 1. cbn [N.eqb N.ltb N.compare Pos.compare].
  rewrite (index_rt_of_ok _ _ Etop size _ ltac:(lia)). cbn [obind fst snd].
  change (lenN [enc_entries lay topes]) with 1. cbn [N.eqb Pos.eqb negb].
  unfold ss_encode in Estr. fold strs in Estr.
  rewrite (index_rt_of_ok _ _ Estr size _ ltac:(lia)). cbn [obind fst snd hd].
  rewrite Hrd. cbn [obind].
  destruct (s_top6_assoc std_code exp_code f encBlob top3 Hstage) as (Acs & Acharset & Apriv & Aros & Acst & Aenc & Ainfo).
  fold k in Acs, Acharset, Apriv.
  assert (Gcst : getInt rd b_opCharstringType 2 = 2%Z).
  { unfold getInt, dget. rewrite (Hfind b_opCharstringType), Acst. reflexivity. }
  rewrite Gcst. cbn [Z.eqb Pos.eqb negb].
  change (0 :: 0 :: encL ++ charset ++ csIdx ++ privb ++ [0; 0]) with ([0; 0] ++ encL ++ charset ++ csIdx ++ privb ++ [0; 0]).
  rewrite (index_rt_of_ok [] [0; 0] empty_index size (encL ++ charset ++ csIdx ++ privb ++ [0; 0]) ltac:(cbn [lenN]; lia)).
  cbn [obind fst snd].
  assert (Gcs : getInt rd b_opCharStrings 0 = lay (OOffs (6 + k))).
  { unfold getInt, dget. rewrite (Hfind b_opCharStrings), Acs. reflexivity. }
  rewrite Gcs. unfold read_index_at.
  destruct (Z.ltb_spec (lay (OOffs (6 + k))) 4) as [Hx|_]; [lia|].
  rewrite P6. fold size. rewrite (index_rt_of_ok _ _ Ecs size _ ltac:(lia)). cbn [obind fst snd].
  change (1 <? 1) with false. cbn iota. rewrite lenN_map.
  destruct (N.eqb_spec (lenN (f_glyphs f)) 0) as [Hx|_]; [exfalso; apply Hne; apply lenN_zero; exact Hx|].
  assert (Gros : dfind b_opROS rd = None) by (rewrite (Hfind b_opROS), Aros; reflexivity).
  rewrite Gros. cbn [obind].
  (* charset *)
  assert (Gchar : getInt rd b_opCharset 0 = lay (OOffs (5 + k))).
  { unfold getInt, dget. rewrite (Hfind b_opCharset), Acharset. reflexivity. }
  rewrite Gchar.
  destruct (Z.leb_spec (lay (OOffs (5 + k))) 2) as [Hx|_]; [lia|]. rewrite andb_false_r.
  unfold seek. destruct (Z.ltb_spec (lay (OOffs (5 + k))) 0) as [Hx|_]; [lia|]. cbn [obind]. rewrite P5.
  destruct (charset_ok_form _ _ Echar) as (ns & Esids & Hsmall).
  assert (Hlen_ns : length (f_glyphs f) = S (length ns)).
  { pose proof (lookups_length (s_names f) []) as L. fold (s_lk f) in L. rewrite Esids in L.
    unfold s_names in L. cbn [length] in L. rewrite !map_length in L. lia. }
  assert (Hns : lenN ns < 65535) by (rewrite (lenN_length ns); rewrite (lenN_length (f_glyphs f)) in Hn; lia).
  destruct (charset_roundtrip_gen ns Hsmall Hns) as (cs' & Ecs' & Hcsread).
  rewrite <- Esids in Ecs'. rewrite Echar in Ecs'. injection Ecs' as <-.
  replace (Z.of_N (lenN (f_glyphs f))) with (Z.of_nat (S (length ns))) by (rewrite lenN_length; lia).
  rewrite Hcsread. cbn [obind fst].
  change (map Z.of_N (0 :: ns)) with (0%Z :: map Z.of_N ns). rewrite <- Esids.
  (* the Private DICT *)
  assert (Gpair : getPair rd b_opPrivate = Some (Z.of_N (lenN privb), lay (OOffs (8 + k)))).
  { unfold getPair, dget. rewrite (Hfind b_opPrivate), Apriv. cbn [option_map length].
    rewrite str_count_nostr by reflexivity. cbn [src_rvs src_rv rv_of pred].
    rewrite Ez8, <- Hs, (nth_map_lenN _ _ _ Hn8). reflexivity. }
  assert (Hppos : 1 <= lenN privb).
  { subst privb privEs. unfold s_priv_entries. rewrite plain_entries_nostr by apply priv_dict_nostr.
    apply enc_entries_in with (b_opSubrs, [VLay (ODiff (9 + k) (8 + k))]).
    eapply Permutation_in; [apply sorted_perm|]. apply assoc_some_in. rewrite assoc_dput, N.eqb_refl. reflexivity. }
  assert (Hdiff : lay (ODiff (9 + k) (8 + k)) = Z.of_N (lenN privb)).
  { rewrite Ed, E9, E8. destruct (sections_tile w Hfacts) as [_ Ht].
    specialize (Ht (8 + k)%nat ltac:(lia)).
    change (nth_offs (w_offs w) (S (8 + k))) with (lay (OOffs (9 + k))) in Ht.
    change (nth_offs (w_offs w) (8 + k)) with (lay (OOffs (8 + k))) in Ht.
    rewrite E9, E8 in Ht. rewrite <- Hs in Ht |- *. rewrite (nth_map_lenN _ _ _ Hn8) in Ht. lia. }
  rewrite (readPrivate_written lay data strs rd p (f_defw f) (f_nomw f) (ODiff (9 + k) (8 + k)) privb _ _
             W' (index_count_of_ok _ _ Estr) Hpd Hdw Hnw eq_refl
             (lay (OOffs (8 + k))) Gpair ltac:(lia) ltac:(lia) ltac:(lia) Q8 P8
             ltac:(rewrite Ed; replace (lay (OOffs (8 + k)) + (lay (OOffs (9 + k)) - lay (OOffs (8 + k))))%Z with (lay (OOffs (9 + k))) by lia; exact P9)).
  cbn [obind].
  (* the glyph names *)
  assert (Hsmall_strs : small strs) by (apply small_of_bound; exact (index_count_of_ok _ _ Estr)).
  assert (Fget : Forall2 (fun s sid => ss_get strs sid = Some s) (s_names f) (fst (s_lk f))).
  { eapply Forall2_imp; [|exact Fsid]. intros s sid Hsp. apply sid_spec_get; [exact Hsmall_strs|].
    exact (sid_spec_extends _ _ _ _ Ext' W' Hsp). }
  rewrite (names_of_ok strs _ _ Fget). cbn [obind].
  assert (Hinfo : M_topdict_info (fi_FontName (f_info f)) rd false = fi_nf (f_info f)).
  { exact (topdict_info_extract lay strs (s_top6 f encBlob top3) rd (f_info f) false Hfind Ainfo Hfi). }
  assert (Hgl : combine (s_names f) (map snd (f_glyphs f)) = f_glyphs f) by apply combine_fst_snd.
  assert (Genc : getInt rd b_opEncoding 0 = match assoc b_opEncoding top3 with
                                            | Some [VInt z] => z
                                            | Some [VLay o] => lay o
                                            | _ => 0%Z end).
  { unfold getInt, dget. rewrite (Hfind b_opEncoding), Aenc.
    destruct (assoc b_opEncoding top3) as [[|[z|r|s0|o] [|v2 l2]]|]; cbn [option_map length]; try reflexivity;
      rewrite ?str_count_nostr by reflexivity; try reflexivity.
    all: cbn [src_rvs src_rv rv_of pred]; try reflexivity.
    all: destruct v2; reflexivity. }
  assert (Abase : assoc b_opEncoding (s_top2 f) = None).
  { unfold s_top2, M_topdict_base, M_makeTopDict. assoc_simpl. reflexivity. }
  unfold font_nf_simple. rewrite Hinfo, Hgl.
  destruct Hstage as [He|Hne' Hstd|Hne' Hstd Hexp|e Hne' Hstd Hexp Hcust].
  - rewrite Genc, Abase. cbn [Z.eqb obind]. rewrite He. reflexivity.
  - rewrite Genc, Abase. cbn [Z.eqb obind]. destruct Henc as [Hx|[Hl256 _]]; [contradiction|].
    rewrite (is_name_enc_true std_code _ _ Hl256 Hstd). destruct (f_encoding f); [contradiction|reflexivity].
  - rewrite Genc, assoc_dput, N.eqb_refl. cbn [Z.eqb Pos.eqb obind]. destruct Henc as [Hx|[Hl256 _]]; [contradiction|].
    rewrite (is_name_enc_true exp_code _ _ Hl256 Hexp). destruct (f_encoding f); [contradiction|reflexivity].
  - rewrite Genc, assoc_dput, N.eqb_refl. cbn [nenc] in k. subst k.
    assert (Hn5e : nth_error (w_blobs w) 5 = Some e) by (rewrite Hblobs; reflexivity).
    destruct (section_at w 5 e Hfacts Hn5e ltac:(lia)) as (_ & P5e & _).
    change (nth_offs (w_offs w) 5) with (lay (OOffs 5)) in P5e.
    pose proof (Hge4 5%nat ltac:(lia)) as G5e.
    destruct (Z.eqb_spec (lay (OOffs 5)) 0) as [Hx|_]; [lia|].
    destruct (Z.eqb_spec (lay (OOffs 5)) 1) as [Hx|_]; [lia|].
    destruct (Z.ltb_spec (lay (OOffs 5)) 0) as [Hx|_]; [lia|]. cbn [obind].
    rewrite Ewb in P5e. rewrite P5e.
    destruct Henc as [Hx|[Hl256 Hgids]]; [contradiction|].
    assert (Hsids_len : lenN (fst (s_lk f)) = lenN (f_glyphs f)).
    { rewrite !lenN_length. pose proof (lookups_length (s_names f) []) as L. fold (s_lk f) in L. rewrite L.
      unfold s_names. rewrite map_length. reflexivity. }
    assert (Huniq : NoDup (map sidN (fst (s_lk f)))).
    { apply nodup_sidN.
      - eapply (Forall2_nodup (sid_spec strs)); [|eapply Forall2_imp; [|exact Fsid]|exact Hnd].
        + intros a a' b Ha Ha'. exact (sid_spec_inj _ _ _ _ Hsmall_strs Ha Ha').
        + intros s sid Hsp. exact (sid_spec_extends _ _ _ _ Ext' W' Hsp).
      - rewrite Esids. constructor; [lia|]. rewrite Forall_forall. intros x Hin. apply in_map_iff in Hin.
        destruct Hin as [y [<- Hy]]. rewrite Forall_forall in Hsmall. specialize (Hsmall y Hy).
        unfold Proofs_charset.small in Hsmall. lia. }
    rewrite (encoding_roundtrip_gen (f_encoding f) (fst (s_lk f)) e _ Hl256
               ltac:(intros g Hg; rewrite Hsids_len; exact (Hgids g Hg)) ltac:(rewrite Hsids_len; lia) Huniq Hcust).
    cbn [obind fst]. destruct (f_encoding f); [contradiction|reflexivity].
Qed.

End SimpleMain.
