(* C13B/ModelNum.v — the numbers of CFF DICTs in the exactly representable
   domain: int32 integers and decimal reals (sign, mantissa, exponent) with
   value = +- mantissa * 10^exponent, all arithmetic exact (no floats).

   Mirrors, on this domain:
   * encodeFloat (cff/dict.go): zero test, the |x| < 1e-300 cut, the nibble
     layout (C13.ModelDict.M_real_layout; the digit extraction by
     log10/pow10/round is NOT modelled: the digits are the mantissa's digits);
   * decodeFloat: text -> value (C13.ModelDict.M_real_decode) followed by the
     clamps  x > 1e300 -> 1e300,  |x| < 1e-300 -> 0,  x < -1e300 -> -1e300;
   * dictNumber, clamp, normaliseAngle (cff/dict.go, cff/read.go).
   Definitions only. *)
From Coq Require Import List NArith ZArith Bool Arith Lia.
From Common Require Import Bytes Outcome.
From C13 Require Import Model ModelDict ModelTables.
Import ListNotations.
Local Open Scope Z_scope.

(* value = (if r_neg then -1 else 1) * r_mant * 10 ^ r_exp, r_mant >= 0 *)
Record real := mkReal { r_neg : bool; r_mant : Z; r_exp : Z }.

Definition R0 : real := mkReal false 0 0.

Definition real_eqb (a b : real) : bool :=
  Bool.eqb (r_neg a) (r_neg b) && (r_mant a =? r_mant b) && (r_exp a =? r_exp b).

(* canonical form: zero is (false,0,0); otherwise the mantissa is positive and
   not divisible by 10 *)
Definition real_canon (r : real) : bool :=
  if r_mant r =? 0 then negb (r_neg r) && (r_exp r =? 0)
  else (0 <? r_mant r) && negb (r_mant r mod 10 =? 0).

(* remove trailing zeros of the mantissa *)
Fixpoint strip10 (fuel : nat) (m e : Z) : Z * Z :=
  match fuel with
  | O => (m, e)
  | S f => if m mod 10 =? 0 then strip10 f (m / 10) (e + 1) else (m, e)
  end.

Definition strip_fuel (m : Z) : nat := S (Z.to_nat (Z.log2 m)).

Definition rnorm (neg : bool) (m e : Z) : real :=
  if m <=? 0 then R0
  else let p := strip10 (strip_fuel m) m e in mkReal neg (fst p) (snd p).

Definition real_of_Z (z : Z) : real := rnorm (z <? 0) (Z.abs z) 0.

(* order of magnitude: for r_mant > 0, 10^(rmag-1) <= |value| < 10^rmag *)
Definition rmag (r : real) : Z := ndigits (r_mant r) + r_exp r.

(* the integer v with value = v * 10^e, for e <= r_exp r *)
Definition rscale (r : real) (e : Z) : Z :=
  (if r_neg r then -1 else 1) * r_mant r * 10 ^ (r_exp r - e).

Definition rcompare (a b : real) : comparison :=
  let e := Z.min (r_exp a) (r_exp b) in Z.compare (rscale a e) (rscale b e).

Definition rltb (a b : real) : bool := match rcompare a b with Lt => true | _ => false end.
Definition rleb (a b : real) : bool := match rcompare a b with Gt => false | _ => true end.

(* ---------- reader side: decodeFloat after ParseFloat ---------- *)

(* the value of the decimal text with decodeFloat's clamps applied *)
Definition real_of_decimal (d : decimal) : real :=
  let m := d_mant d in
  let e := d_exp d - d_nfrac d in
  if m <=? 0 then R0
  else
    let o := ndigits m + e in
    if o <=? -300 then R0                       (* |x| < 1e-300 *)
    else if 301 <=? o then mkReal (d_neg d) 1 300   (* |x| >= 1e300: clamped to (or equal to) 1e300 *)
    else rnorm (d_neg d) m e.

(* ---------- writer side: encodeFloat ---------- *)

(* the decimal digits of a positive integer, most significant first
   (C13's itoaBinary mirror with a fuel of log2 m + 1 instead of m + 1) *)
Definition digits_of (m : Z) : list N := itoa_fuel (strip_fuel m) m [].

(* the bytes after the 0x1e prefix *)
Definition M_real_encode (r : real) : list N :=
  if (r_mant r <=? 0) || (rmag r <=? -300) then [15%N]
  else
    let ds := digits_of (r_mant r) in
    M_real_layout (r_neg r) ds (r_exp r + Z.of_nat (length ds)).

(* dictNumber: an integer operand when the value is an integer that fits an
   int32, a real operand otherwise *)
Definition real_to_int32 (r : real) : option Z :=
  if r_mant r =? 0 then Some 0
  else if (r_exp r <? 0) || (9 <? r_exp r) then None
  else
    let v := rscale r 0 in
    if (-2147483648 <=? v) && (v <=? 2147483647) then Some v else None.

(* clamp(x, lo, hi) *)
Definition rclamp (x lo hi : real) : real :=
  if rltb x lo then lo else if rltb hi x then hi else x.

(* normaliseAngle: the angle in [-180, 180); exact arithmetic
   (the code: unchanged when already in the range [repair
   fixes/C13-italicangle-normalise.diff], otherwise
   y = fmod(x+180, 360); if y < 0 { y += 360 }; y - 180) *)
Definition rnormangle (x : real) : real :=
  if rleb (real_of_Z (-180)) x && rltb x (real_of_Z 180) then x
  else
    let e := Z.min (r_exp x) 0 in
    let v := rscale x e in
    let k := 10 ^ (- e) in
    let w := (v + 180 * k) mod (360 * k) - 180 * k in
    rnorm (w <? 0) (Z.abs w) e.

(* the constants of Gen/C13B.v as reals *)
Definition real_of_triple (t : bool * Z * Z) : real :=
  mkReal (fst (fst t)) (snd (fst t)) (snd t).
