(* C13B/Proofs_fields.v — the Top DICT (FontInfo) and the Private DICT:
   what makeTopDict / setFontMatrix / makePrivateDict put into a DICT is what
   the field extraction of Read and readPrivate take out of it. *)
From Coq Require Import List NArith ZArith Bool Arith Lia Permutation.
From Coq Require Import ZifyBool ZifyNat ZifyN.
From Common Require Import Bytes Outcome.
From Gen Require Import C13 C13B.
From C13 Require Import Model Util ModelDict ModelTables ModelLayout.
From C13B Require Import ModelNum ModelStr ModelCDict ModelFont Util Proofs_num Proofs_str Proofs_cdict.
Import ListNotations.
Local Open Scope N_scope.

(* ---------- building dictionaries ---------- *)

Definition is_nil {A} (l : list A) : bool := match l with [] => true | _ => false end.

Lemma assoc_put_str op op' s d :
  assoc op (put_str op' s d) = if (op' =? op) && negb (is_nil s) then Some [VStr s] else assoc op d.
Proof.
  unfold put_str. destruct s as [|c s]; cbn [is_nil negb].
  - rewrite andb_false_r. reflexivity.
  - rewrite assoc_dput, andb_true_r. reflexivity.
Qed.

Lemma nodup_dput op a d : NoDup (keys d) -> NoDup (keys (dput op a d)).
Proof. intros H. apply keys_dput. exact H. Qed.

Lemma nodup_put_str op s d : NoDup (keys d) -> NoDup (keys (put_str op s d)).
Proof. intros H. unfold put_str. destruct s; [exact H|apply nodup_dput; exact H]. Qed.

Lemma Forall_dput (P : entry -> Prop) op a d : P (op, a) -> Forall P d -> Forall P (dput op a d).
Proof.
  intros Hp Hd. induction d as [|[o b] d IH]; cbn [dput].
  - constructor; [exact Hp|constructor].
  - inversion Hd; subst. destruct (o =? op); constructor; auto.
Qed.

Lemma Forall_put_str (P : entry -> Prop) op s d : (s <> [] -> P (op, [VStr s])) -> Forall P d -> Forall P (put_str op s d).
Proof. intros Hp Hd. unfold put_str. destruct s; [exact Hd|]. apply Forall_dput; [apply Hp; discriminate|exact Hd]. Qed.

(* number of string operands *)
Definition nstrs (d : list entry) : N := lenN (all_strs d).

Lemma nstrs_cons e d : nstrs (e :: d) = lenN (strs_of (snd e)) + nstrs d.
Proof. unfold nstrs, all_strs. cbn [map concat]. rewrite lenN_app. reflexivity. Qed.

Lemma nstrs_perm d d' : Permutation d d' -> nstrs d = nstrs d'.
Proof.
  induction 1 as [|x l l' P IH|x y l|l l' l'' P1 IH1 P2 IH2].
  - reflexivity.
  - rewrite !nstrs_cons, IH. reflexivity.
  - rewrite !nstrs_cons. lia.
  - congruence.
Qed.

Lemma nstrs_dput op a d : nstrs (dput op a d) <= nstrs d + lenN (strs_of a).
Proof.
  induction d as [|[o b] d IH]; cbn [dput].
  - rewrite nstrs_cons. cbn [snd]. unfold nstrs, all_strs. cbn. lia.
  - destruct (o =? op); rewrite !nstrs_cons; cbn [snd]; lia.
Qed.

Lemma nstrs_put_str op s d : nstrs (put_str op s d) <= nstrs d + 1.
Proof.
  unfold put_str. destruct s; [lia|]. pose proof (nstrs_dput op [VStr (n :: s)] d) as H.
  change (lenN (strs_of [VStr (n :: s)])) with 1 in H. exact H.
Qed.

Lemma nstrs_dput0 op a d : strs_of a = [] -> nstrs (dput op a d) <= nstrs d.
Proof. intros H. pose proof (nstrs_dput op a d) as L. rewrite H in L. cbn [lenN] in L. lia. Qed.

Lemma strs_of_reals l : strs_of (map VReal l) = [].
Proof. induction l as [|r l IH]; [reflexivity|]. unfold strs_of in *. cbn [map concat app]. exact IH. Qed.

Lemma strs_of_deltas p l : strs_of (deltas p l) = [].
Proof. revert p. induction l as [|x l IH]; intros p; [reflexivity|]. unfold strs_of in *. cbn [deltas map concat app]. apply IH. Qed.

Lemma setFontMatrix_props op fm isCID d (P : entry -> Prop) :
  NoDup (keys d) -> Forall P d -> P (op, map VReal fm) ->
  NoDup (keys (setFontMatrix op fm isCID d)) /\ Forall P (setFontMatrix op fm isCID d) /\
  nstrs (setFontMatrix op fm isCID d) <= nstrs d.
Proof.
  intros Hn Hf Hp. unfold setFontMatrix. destruct (reals_eqb fm _).
  - split; [exact Hn|]. split; [exact Hf|lia].
  - split; [apply nodup_dput; exact Hn|]. split; [apply Forall_dput; assumption|].
    apply nstrs_dput0. apply strs_of_reals.
Qed.

Lemma assoc_setFontMatrix op op' fm isCID d :
  assoc op (setFontMatrix op' fm isCID d) =
  if (op' =? op) && negb (reals_eqb fm (if isCID then rident else rdefault_fm)) then Some (map VReal fm) else assoc op d.
Proof.
  unfold setFontMatrix. destruct (reals_eqb fm _); cbn [negb].
  - rewrite andb_false_r. reflexivity.
  - rewrite assoc_dput, andb_true_r. reflexivity.
Qed.

Lemma assoc_setDelta op op' v d :
  assoc op (setDelta op' v d) = if (op' =? op) && negb (is_nil v) then Some (deltas 0 v) else assoc op d.
Proof.
  unfold setDelta. destruct v as [|x v]; cbn [is_nil negb].
  - rewrite andb_false_r. reflexivity.
  - rewrite assoc_dput, andb_true_r. reflexivity.
Qed.

Lemma setDelta_props op v d (P : entry -> Prop) :
  NoDup (keys d) -> Forall P d -> (v <> [] -> P (op, deltas 0 v)) ->
  NoDup (keys (setDelta op v d)) /\ Forall P (setDelta op v d) /\ nstrs (setDelta op v d) <= nstrs d.
Proof.
  intros Hn Hf Hp. unfold setDelta. destruct v as [|x v].
  - split; [exact Hn|]. split; [exact Hf|lia].
  - split; [apply nodup_dput; exact Hn|]. split; [apply Forall_dput; [apply Hp; discriminate|exact Hf]|].
    apply nstrs_dput0. apply strs_of_deltas.
Qed.

(* ---------- reals ---------- *)

Lemma real_eqb_eq a b : real_eqb a b = true -> a = b.
Proof.
  unfold real_eqb. intros H. apply andb_true_iff in H. destruct H as [H C]. apply andb_true_iff in H. destruct H as [A B].
  destruct a, b. cbn in *. apply eqb_prop in A. apply Z.eqb_eq in B. apply Z.eqb_eq in C. subst. reflexivity.
Qed.

Lemma real_eqb_refl a : real_eqb a a = true.
Proof. unfold real_eqb. rewrite eqb_reflx, !Z.eqb_refl. reflexivity. Qed.

Lemma reals_eqb_eq a : forall b, reals_eqb a b = true -> a = b.
Proof.
  induction a as [|x a IH]; intros [|y b]; cbn [reals_eqb]; try discriminate; [reflexivity|].
  intros H. apply andb_true_iff in H. destruct H as [A B]. apply real_eqb_eq in A. subst. f_equal. apply IH. exact B.
Qed.

Lemma all_reals_map l : all_reals (map RReal l) = Some l.
Proof. induction l as [|r l IH]; [reflexivity|]. cbn [map all_reals]. rewrite IH. reflexivity. Qed.

Lemma src_rvs_reals lay data k l : src_rvs lay data k (map VReal l) = map RReal l.
Proof. revert k. induction l as [|r l IH]; intros k; [reflexivity|]. cbn [map src_rvs src_rv rv_of]. rewrite IH. reflexivity. Qed.

(* delta arrays *)
Lemma wrap_i16_id z : (-32768 <= z <= 32767)%Z -> wrap_i16 z = z.
Proof. intros H. unfold wrap_i16. rewrite Z.mod_small by lia. lia. Qed.

Lemma wrap_i16_add_sub x p : (-32768 <= x <= 32767)%Z -> wrap_i16 (wrap_i16 (x - p) + p) = x.
Proof.
  intros H. unfold wrap_i16.
  replace ((x - p + 32768) mod 65536 - 32768 + p + 32768)%Z with ((x - p + 32768) mod 65536 + p)%Z by lia.
  rewrite Zplus_mod_idemp_l. replace (x - p + 32768 + p)%Z with (x + 32768)%Z by lia.
  rewrite Z.mod_small by lia. lia.
Qed.

Definition int16s (l : list Z) : Prop := Forall (fun x => (-32768 <= x <= 32767)%Z) l.

Lemma src_rvs_deltas lay data : forall l p k, k = 0%nat ->
  src_rvs lay data k (deltas p l) = map (fun v => match v with VInt z => RInt z | _ => RInt 0 end) (deltas p l).
Proof.
  induction l as [|x l IH]; intros p k ->; [reflexivity|].
  cbn [deltas src_rvs src_rv rv_of map pred]. rewrite IH by reflexivity. reflexivity.
Qed.

Lemma delta_roundtrip : forall l p, int16s l -> (-32768 <= p <= 32767)%Z ->
  delta_acc p (map (fun v => match v with VInt z => RInt z | _ => RInt 0 end) (deltas p l)) = Some l.
Proof.
  induction l as [|x l IH]; intros p Hl Hp; [reflexivity|].
  inversion Hl as [|? ? Hx Hl']; subst. cbn [deltas map delta_acc].
  assert (E : wrap_i16 (wrap_i16 (x - p) + p) = x) by (apply wrap_i16_add_sub; exact Hx).
  rewrite E. rewrite (IH x Hl' Hx). reflexivity.
Qed.

(* ---------- the Top DICT ---------- *)

Lemma assoc_if1 op (c : bool) o a d :
  assoc op (if c then dput o a d else d) = if c && (o =? op) then Some a else assoc op d.
Proof. destruct c; cbn [andb]; [apply assoc_dput|reflexivity]. Qed.

Lemma assoc_if2 op (c : bool) o a d :
  assoc op (if c then d else dput o a d) = if negb c && (o =? op) then Some a else assoc op d.
Proof. destruct c; cbn [andb negb]; [reflexivity|apply assoc_dput]. Qed.

Ltac unfold_ops :=
  unfold b_opVersion, b_opNotice, b_opCopyright, b_opFullName, b_opFamilyName, b_opWeight,
    b_opIsFixedPitch, b_opItalicAngle, b_opUnderlinePosition, b_opUnderlineThickness, b_opFontMatrix,
    b_opBlueValues, b_opOtherBlues, b_opBlueScale, b_opBlueShift, b_opBlueFuzz, b_opStdHW, b_opStdVW,
    b_opForceBold, b_opDefaultWidthX, b_opNominalWidthX, b_opSubrs, b_opPrivate, b_opCharset, b_opEncoding,
    b_opCharStrings, b_opROS, b_opCIDCount, b_opFDArray, b_opFDSelect, b_opCharstringType in *.

Ltac assoc_simpl :=
  repeat first [rewrite assoc_setFontMatrix | rewrite assoc_setDelta | rewrite assoc_put_str
               | rewrite assoc_if1 | rewrite assoc_if2 | rewrite assoc_dput];
  unfold_ops; cbn [N.eqb Pos.eqb andb assoc]; rewrite ?andb_false_r, ?andb_true_r; cbn [andb].

Definition fi_ok (fi : fontinfo) : Prop :=
  real_ok (fi_ItalicAngle fi) /\ real_ok (fi_UnderlinePosition fi) /\ real_ok (fi_UnderlineThickness fi) /\
  length (fi_FontMatrix fi) = 6%nat /\ Forall real_ok (fi_FontMatrix fi).

(* the normal form of a FontInfo: string fields as valid UTF-8, the italic
   angle reduced into [-180,180) *)
Definition fi_nf (fi : fontinfo) : fontinfo :=
  {| fi_FontName := fi_FontName fi;
     fi_Version := utf8_fix (fi_Version fi);
     fi_Notice := utf8_fix (fi_Notice fi);
     fi_Copyright := utf8_fix (fi_Copyright fi);
     fi_FullName := utf8_fix (fi_FullName fi);
     fi_FamilyName := utf8_fix (fi_FamilyName fi);
     fi_Weight := utf8_fix (fi_Weight fi);
     fi_ItalicAngle := rnormangle (fi_ItalicAngle fi);
     fi_IsFixedPitch := fi_IsFixedPitch fi;
     fi_UnderlinePosition := fi_UnderlinePosition fi;
     fi_UnderlineThickness := fi_UnderlineThickness fi;
     fi_FontMatrix := fi_FontMatrix fi |}.

Definition info_ops : list N :=
  [b_opVersion; b_opNotice; b_opCopyright; b_opFullName; b_opFamilyName; b_opWeight; b_opIsFixedPitch;
   b_opItalicAngle; b_opUnderlinePosition; b_opUnderlineThickness; b_opFontMatrix].

(* the decoded dictionary holds what the source dictionary holds *)
Definition finds (lay : operand -> Z) (data : list str) (d : cdict) (rd : rdict) : Prop :=
  forall op, dfind op rd =
    option_map (fun args => src_rvs lay data (str_count op (length args)) args) (assoc op d).

Lemma str_count_nostr op n : op_is_string op = false -> str_count op n = 0%nat.
Proof. intros H. unfold str_count. rewrite H. reflexivity. Qed.

(* string, number and matrix fields, one at a time *)
Lemma get_string_field lay data d rd op s :
  finds lay data d rd -> op_is_string op = true -> (op =? opROS) = false ->
  assoc op d = (if negb (is_nil s) then Some [VStr s] else None) ->
  getString rd op = utf8_fix s.
Proof.
  intros Hf Hs Hr Ha. unfold getString, dget. rewrite (Hf op), Ha.
  destruct s as [|c s]; cbn [is_nil negb option_map]; [reflexivity|].
  unfold str_count. rewrite Hs, Hr. reflexivity.
Qed.

Lemma get_real_field lay data d rd op r def :
  finds lay data d rd -> op_is_string op = false ->
  assoc op d = (if negb (real_eqb r def) then Some [VReal r] else None) ->
  getFloat rd op def = r.
Proof.
  intros Hf Hs Ha. unfold getFloat, dget. rewrite (Hf op), Ha.
  destruct (real_eqb r def) eqn:E; cbn [negb option_map].
  - apply real_eqb_eq in E. congruence.
  - rewrite str_count_nostr by exact Hs. reflexivity.
Qed.

Lemma get_number_field lay data d rd op r def :
  finds lay data d rd -> op_is_string op = false -> real_canon r = true ->
  assoc op d = (if negb (real_eqb r def) then Some [M_dict_number r] else None) ->
  getFloat rd op def = r.
Proof.
  intros Hf Hs Hc Ha. unfold getFloat, dget. rewrite (Hf op), Ha.
  destruct (real_eqb r def) eqn:E; cbn [negb option_map].
  - apply real_eqb_eq in E. congruence.
  - rewrite str_count_nostr by exact Hs. unfold M_dict_number.
    destruct (real_to_int32 r) as [z|] eqn:Ez; cbn [src_rvs src_rv rv_of].
    + exact (proj2 (real_to_int32_spec r z Hc Ez)).
    + reflexivity.
Qed.

Lemma get_flag_field lay data d rd op (b : bool) :
  finds lay data d rd -> op_is_string op = false ->
  assoc op d = (if b then Some [VInt 1] else None) ->
  negb (getInt rd op 0 =? 0)%Z = b.
Proof.
  intros Hf Hs Ha. unfold getInt, dget. rewrite (Hf op), Ha.
  destruct b; cbn [option_map]; [|reflexivity].
  rewrite str_count_nostr by exact Hs. reflexivity.
Qed.

Lemma get_int_field lay data d rd op z def :
  finds lay data d rd -> op_is_string op = false ->
  assoc op d = (if negb (z =? def)%Z then Some [VInt z] else None) ->
  getInt rd op def = z.
Proof.
  intros Hf Hs Ha. unfold getInt, dget. rewrite (Hf op), Ha.
  destruct (Z.eqb_spec z def); cbn [negb option_map]; [congruence|].
  rewrite str_count_nostr by exact Hs. reflexivity.
Qed.

Lemma get_matrix_field lay data d rd op (fm : list real) (isCID : bool) :
  finds lay data d rd -> op_is_string op = false -> length fm = 6%nat ->
  assoc op d = (if negb (reals_eqb fm (if isCID then rident else rdefault_fm)) then Some (map VReal fm) else None) ->
  getFontMatrix rd op isCID = fm.
Proof.
  intros Hf Hs Hl Ha. unfold getFontMatrix. rewrite (Hf op), Ha.
  destruct (reals_eqb fm _) eqn:E; cbn [negb option_map].
  - apply reals_eqb_eq in E. congruence.
  - rewrite src_rvs_reals, lenN_map, lenN_length, Hl. cbn [N.of_nat Pos.of_succ_nat Pos.succ N.eqb Pos.eqb].
    rewrite all_reals_map. reflexivity.
Qed.

Lemma get_delta_field lay data d rd op v :
  finds lay data d rd -> op_is_string op = false -> int16s v ->
  assoc op d = (if negb (is_nil v) then Some (deltas 0 v) else None) ->
  getDelta rd op = v.
Proof.
  intros Hf Hs Hv Ha. unfold getDelta, dget. rewrite (Hf op), Ha.
  destruct v as [|x v]; cbn [is_nil negb option_map]; [reflexivity|].
  rewrite src_rvs_deltas by (apply str_count_nostr; exact Hs).
  rewrite delta_roundtrip by (try assumption; lia). reflexivity.
Qed.

(* the FontInfo fields of any dictionary that agrees with makeTopDict +
   setFontMatrix on the eleven FontInfo operators *)
Lemma topdict_info_extract lay data d rd fi isCID :
  finds lay data d rd ->
  (forall op, In op info_ops -> assoc op d = assoc op (M_topdict_base fi isCID)) ->
  fi_ok fi ->
  M_topdict_info (fi_FontName fi) rd isCID = fi_nf fi.
Proof.
  intros Hf Ha (Hang & Hup & Hut & Hlen & Hfm).
  assert (A : forall op, In op info_ops -> assoc op d = assoc op (M_topdict_base fi isCID)) by exact Ha.
  unfold M_topdict_info, fi_nf. f_equal.
  - apply (get_string_field lay data d rd _ _ Hf); [reflexivity|reflexivity|].
    rewrite A by (cbn; tauto). unfold M_topdict_base, M_makeTopDict. assoc_simpl. reflexivity.
  - apply (get_string_field lay data d rd _ _ Hf); [reflexivity|reflexivity|].
    rewrite A by (cbn; tauto). unfold M_topdict_base, M_makeTopDict. assoc_simpl. reflexivity.
  - apply (get_string_field lay data d rd _ _ Hf); [reflexivity|reflexivity|].
    rewrite A by (cbn; tauto). unfold M_topdict_base, M_makeTopDict. assoc_simpl. reflexivity.
  - apply (get_string_field lay data d rd _ _ Hf); [reflexivity|reflexivity|].
    rewrite A by (cbn; tauto). unfold M_topdict_base, M_makeTopDict. assoc_simpl. reflexivity.
  - apply (get_string_field lay data d rd _ _ Hf); [reflexivity|reflexivity|].
    rewrite A by (cbn; tauto). unfold M_topdict_base, M_makeTopDict. assoc_simpl. reflexivity.
  - apply (get_string_field lay data d rd _ _ Hf); [reflexivity|reflexivity|].
    rewrite A by (cbn; tauto). unfold M_topdict_base, M_makeTopDict. assoc_simpl. reflexivity.
  - f_equal. apply (get_real_field lay data d rd _ _ _ Hf); [reflexivity|].
    rewrite A by (cbn; tauto). unfold M_topdict_base, M_makeTopDict. assoc_simpl.
    destruct (real_eqb (fi_ItalicAngle fi) R0); reflexivity.
  - apply (get_flag_field lay data d rd _ _ Hf); [reflexivity|].
    rewrite A by (cbn; tauto). unfold M_topdict_base, M_makeTopDict. assoc_simpl.
    destruct (fi_IsFixedPitch fi); reflexivity.
  - apply (get_number_field lay data d rd _ _ _ Hf); [reflexivity|exact (proj1 Hup)|].
    rewrite A by (cbn; tauto). unfold M_topdict_base, M_makeTopDict. assoc_simpl.
    destruct (real_eqb (fi_UnderlinePosition fi) rdefUnderlinePosition); reflexivity.
  - apply (get_number_field lay data d rd _ _ _ Hf); [reflexivity|exact (proj1 Hut)|].
    rewrite A by (cbn; tauto). unfold M_topdict_base, M_makeTopDict. assoc_simpl.
    destruct (real_eqb (fi_UnderlineThickness fi) rdefUnderlineThickness); reflexivity.
  - apply (get_matrix_field lay data d rd _ _ _ Hf); [reflexivity|exact Hlen|].
    rewrite A by (cbn; tauto). unfold M_topdict_base, M_makeTopDict. assoc_simpl.
    destruct (reals_eqb (fi_FontMatrix fi) _); reflexivity.
Qed.

(* ---------- the dictionaries can be written ---------- *)

Definition good (P : entry -> Prop) (n : N) (d : cdict) : Prop :=
  NoDup (keys d) /\ Forall P d /\ nstrs d <= n.

Lemma good_nil P : good P 0 [].
Proof. split; [constructor|]. split; [constructor|]. cbn. lia. Qed.

Lemma good_put_str P n op s d : good P n d -> (s <> [] -> P (op, [VStr s])) -> good P (n + 1) (put_str op s d).
Proof.
  intros (A & B & C) Hp. split; [apply nodup_put_str; exact A|]. split; [apply Forall_put_str; assumption|].
  pose proof (nstrs_put_str op s d). lia.
Qed.

Lemma good_dput P n op a d : good P n d -> strs_of a = [] -> P (op, a) -> good P n (dput op a d).
Proof.
  intros (A & B & C) Hs Hp. split; [apply nodup_dput; exact A|]. split; [apply Forall_dput; assumption|].
  pose proof (nstrs_dput0 op a d Hs). lia.
Qed.

Lemma good_if1 P n (c : bool) op a d : good P n d -> strs_of a = [] -> (c = true -> P (op, a)) ->
  good P n (if c then dput op a d else d).
Proof. intros G Hs Hp. destruct c; [apply good_dput; auto|exact G]. Qed.

Lemma good_if2 P n (c : bool) op a d : good P n d -> strs_of a = [] -> (c = false -> P (op, a)) ->
  good P n (if c then d else dput op a d).
Proof. intros G Hs Hp. destruct c; [exact G|apply good_dput; auto]. Qed.

Lemma good_setFontMatrix P n op fm isCID d : good P n d -> P (op, map VReal fm) ->
  good P n (setFontMatrix op fm isCID d).
Proof.
  intros (A & B & C) Hp. destruct (setFontMatrix_props op fm isCID d P A B Hp) as (A' & B' & C').
  split; [exact A'|]. split; [exact B'|lia].
Qed.

Lemma good_setDelta P n op v d : good P n d -> (v <> [] -> P (op, deltas 0 v)) -> good P n (setDelta op v d).
Proof.
  intros (A & B & C) Hp. destruct (setDelta_props op v d P A B Hp) as (A' & B' & C').
  split; [exact A'|]. split; [exact B'|lia].
Qed.

Lemma good_le P n m d : good P n d -> n <= m -> good P m d.
Proof. intros (A & B & C) H. split; [exact A|]. split; [exact B|lia]. Qed.

Lemma src_args_ok_reals lay data l : Forall real_ok l -> src_args_ok lay data 0 (map VReal l).
Proof. induction 1 as [|r l Hr Hl IH]; cbn [map src_args_ok pred]; [exact I|]. split; [exact Hr|exact IH]. Qed.

Lemma src_args_ok_deltas lay data : forall l p, int16s l -> (-32768 <= p <= 32767)%Z -> src_args_ok lay data 0 (deltas p l).
Proof.
  induction l as [|x l IH]; intros p Hl Hp; cbn [deltas src_args_ok pred]; [exact I|].
  inversion Hl as [|? ? Hx Hl']; subst. split; [cbn [src_val_ok val_ok]; unfold int32; lia|apply IH; assumption].
Qed.

Lemma dict_number_ok lay r : real_ok r -> val_ok lay (M_dict_number r) /\ strs_of [M_dict_number r] = [].
Proof.
  intros H. unfold M_dict_number. destruct (real_to_int32 r) as [z|] eqn:E.
  - split; [|reflexivity]. cbn [val_ok]. exact (proj1 (real_to_int32_spec r z (proj1 H) E)).
  - split; [exact H|reflexivity].
Qed.

Ltac op_legal_tac := unfold op_legal; cbn [fst]; unfold_ops; lia.

Lemma topdict_base_good lay data0 fi isCID : fi_ok fi ->
  good (src_entry_ok lay data0) 6 (M_topdict_base fi isCID).
Proof.
  intros (Hang & Hup & Hut & Hlen & Hfm).
  unfold M_topdict_base, M_makeTopDict.
  apply good_setFontMatrix.
  2: { split; [op_legal_tac|]. cbn [fst snd]. rewrite str_count_nostr by reflexivity. apply src_args_ok_reals. exact Hfm. }
  destruct (dict_number_ok lay _ Hup) as [U1 U2]. destruct (dict_number_ok lay _ Hut) as [T1 T2].
  apply good_if2; [|exact T2|intros _; split; [op_legal_tac|cbn [fst snd]; rewrite str_count_nostr by reflexivity; cbn; split; [exact T1|exact I]]].
  apply good_if2; [|exact U2|intros _; split; [op_legal_tac|cbn [fst snd]; rewrite str_count_nostr by reflexivity; cbn; split; [exact U1|exact I]]].
  apply good_if2; [|reflexivity|intros _; split; [op_legal_tac|cbn [fst snd]; rewrite str_count_nostr by reflexivity; cbn; split; [exact Hang|exact I]]].
  apply good_if1; [|reflexivity|intros _; split; [op_legal_tac|cbn [fst snd]; rewrite str_count_nostr by reflexivity; cbn; split; [unfold int32; lia|exact I]]].
  change 6 with (0 + 1 + 1 + 1 + 1 + 1 + 1).
  repeat (apply good_put_str; [|intros _; split; [op_legal_tac|cbn; tauto]]).
  apply good_nil.
Qed.

(* ---------- Theorem: the Top DICT round trip ---------- *)

Lemma small_bound data n : lenN data + n < 65536 -> forall l, lenN l <= n -> small (data ++ l).
Proof. intros H l Hl. unfold small. rewrite lenN_app. pose proof nstd_val. lia. Qed.

Lemma topdict_roundtrip_gen lay data0 fi isCID :
  wf_table data0 -> lenN data0 + 6 < 65536 -> fi_ok fi ->
  let p := M_dict_encode lay data0 (M_topdict_base fi isCID) in
  exists rd, M_decodeDict (snd p) (fst p) = Ok rd /\
             M_topdict_info (fi_FontName fi) rd isCID = fi_nf fi.
Proof.
  intros Hwf Hsz Hfi p.
  destruct (topdict_base_good lay data0 fi isCID Hfi) as (Hnd & Hok & Hn).
  assert (Hsm : small (data0 ++ all_strs (sorted_entries (M_topdict_base fi isCID)))).
  { apply (small_bound data0 6 Hsz). fold (nstrs (sorted_entries (M_topdict_base fi isCID))).
    rewrite <- (nstrs_perm _ _ (sorted_perm _)). exact Hn. }
  destruct (dict_roundtrip_gen' lay data0 _ Hwf Hnd Hok Hsm) as (W & E & L & rd & Hrd & Hfind).
  exists rd. split; [exact Hrd|].
  apply (topdict_info_extract lay (snd p) (M_topdict_base fi isCID) rd fi isCID); [exact Hfind|reflexivity|exact Hfi].
Qed.

(* ---------- the Private DICT ---------- *)

Definition pd_ok (p : privdict) : Prop :=
  int16s (pd_BlueValues p) /\ int16s (pd_OtherBlues p) /\ real_ok (pd_BlueScale p) /\
  int32 (pd_BlueShift p) /\ int32 (pd_BlueFuzz p) /\ real_ok (pd_StdHW p) /\ real_ok (pd_StdVW p).

(* the normal form of a private dictionary: BlueScale limited to [0,1],
   StdHW and StdVW to [0,10000] *)
Definition pd_nf (p : privdict) : privdict :=
  {| pd_BlueValues := pd_BlueValues p;
     pd_OtherBlues := pd_OtherBlues p;
     pd_BlueScale := rclamp (pd_BlueScale p) R0 r_one;
     pd_BlueShift := pd_BlueShift p;
     pd_BlueFuzz := pd_BlueFuzz p;
     pd_StdHW := rclamp (pd_StdHW p) R0 r_10000;
     pd_StdVW := rclamp (pd_StdVW p) R0 r_10000;
     pd_ForceBold := pd_ForceBold p |}.

Definition priv_ops : list N :=
  [b_opBlueValues; b_opOtherBlues; b_opBlueScale; b_opBlueShift; b_opBlueFuzz; b_opStdHW; b_opStdVW;
   b_opForceBold; b_opDefaultWidthX; b_opNominalWidthX].

Lemma get_intfloat_field lay data d rd op z :
  finds lay data d rd -> op_is_string op = false ->
  assoc op d = (if negb (z =? 0)%Z then Some [VInt z] else None) ->
  getFloat rd op R0 = real_of_Z z.
Proof.
  intros Hf Hs Ha. unfold getFloat, dget. rewrite (Hf op), Ha.
  destruct (Z.eqb_spec z 0); cbn [negb option_map]; [subst; reflexivity|].
  rewrite str_count_nostr by exact Hs. reflexivity.
Qed.

Lemma private_info_extract lay data d rd p defW nomW :
  finds lay data d rd ->
  (forall op, In op priv_ops -> assoc op d = assoc op (M_makePrivateDict p defW nomW)) ->
  pd_ok p ->
  M_private_info rd = pd_nf p /\
  getFloat rd b_opDefaultWidthX R0 = real_of_Z defW /\
  getFloat rd b_opNominalWidthX R0 = real_of_Z nomW.
Proof.
  intros Hf A (Hbv & Hob & Hbs & Hsh & Hfz & Hhw & Hvw).
  split; [|split].
  - unfold M_private_info, pd_nf. f_equal.
    + apply (get_delta_field lay data d rd _ _ Hf); [reflexivity|exact Hbv|].
      rewrite A by (cbn; tauto). unfold M_makePrivateDict. assoc_simpl. reflexivity.
    + apply (get_delta_field lay data d rd _ _ Hf); [reflexivity|exact Hob|].
      rewrite A by (cbn; tauto). unfold M_makePrivateDict. assoc_simpl. reflexivity.
    + f_equal. apply (get_real_field lay data d rd _ _ _ Hf); [reflexivity|].
      rewrite A by (cbn; tauto). unfold M_makePrivateDict. assoc_simpl.
      destruct (real_eqb (pd_BlueScale p) rdefBlueScale); reflexivity.
    + apply (get_int_field lay data d rd _ _ _ Hf); [reflexivity|].
      rewrite A by (cbn; tauto). unfold M_makePrivateDict. assoc_simpl.
      change b_defaultBlueShift with 7%Z. destruct (pd_BlueShift p =? 7)%Z; reflexivity.
    + apply (get_int_field lay data d rd _ _ _ Hf); [reflexivity|].
      rewrite A by (cbn; tauto). unfold M_makePrivateDict. assoc_simpl.
      change b_defaultBlueFuzz with 1%Z. destruct (pd_BlueFuzz p =? 1)%Z; reflexivity.
    + f_equal. apply (get_real_field lay data d rd _ _ _ Hf); [reflexivity|].
      rewrite A by (cbn; tauto). unfold M_makePrivateDict. assoc_simpl.
      destruct (real_eqb (pd_StdHW p) R0); reflexivity.
    + f_equal. apply (get_real_field lay data d rd _ _ _ Hf); [reflexivity|].
      rewrite A by (cbn; tauto). unfold M_makePrivateDict. assoc_simpl.
      destruct (real_eqb (pd_StdVW p) R0); reflexivity.
    + apply (get_flag_field lay data d rd _ _ Hf); [reflexivity|].
      rewrite A by (cbn; tauto). unfold M_makePrivateDict. assoc_simpl.
      destruct (pd_ForceBold p); reflexivity.
  - apply (get_intfloat_field lay data d rd _ _ Hf); [reflexivity|].
    rewrite A by (cbn; tauto). unfold M_makePrivateDict. assoc_simpl.
    destruct (defW =? 0)%Z; reflexivity.
  - apply (get_intfloat_field lay data d rd _ _ Hf); [reflexivity|].
    rewrite A by (cbn; tauto). unfold M_makePrivateDict. assoc_simpl.
    destruct (nomW =? 0)%Z; reflexivity.
Qed.

Lemma privdict_good lay data0 p defW nomW : pd_ok p -> int32 defW -> int32 nomW ->
  good (src_entry_ok lay data0) 0 (M_makePrivateDict p defW nomW).
Proof.
  intros (Hbv & Hob & Hbs & Hsh & Hfz & Hhw & Hvw) Hd Hn.
  unfold M_makePrivateDict.
  assert (Hint : forall op z, op_legal op -> op_is_string op = false -> int32 z -> src_entry_ok lay data0 (op, [VInt z])).
  { intros op z H1 H2 H3. split; [exact H1|]. cbn [fst snd]. rewrite str_count_nostr by exact H2. cbn. split; [exact H3|exact I]. }
  assert (Hreal : forall op r, op_legal op -> op_is_string op = false -> real_ok r -> src_entry_ok lay data0 (op, [VReal r])).
  { intros op r H1 H2 H3. split; [exact H1|]. cbn [fst snd]. rewrite str_count_nostr by exact H2. cbn. split; [exact H3|exact I]. }
  apply good_if2; [|reflexivity|intros _; apply Hint; [op_legal_tac|reflexivity|exact Hn]].
  apply good_if2; [|reflexivity|intros _; apply Hint; [op_legal_tac|reflexivity|exact Hd]].
  apply good_if1; [|reflexivity|intros _; apply Hint; [op_legal_tac|reflexivity|unfold int32; lia]].
  apply good_if2; [|reflexivity|intros _; apply Hreal; [op_legal_tac|reflexivity|exact Hvw]].
  apply good_if2; [|reflexivity|intros _; apply Hreal; [op_legal_tac|reflexivity|exact Hhw]].
  apply good_if2; [|reflexivity|intros _; apply Hint; [op_legal_tac|reflexivity|exact Hfz]].
  apply good_if2; [|reflexivity|intros _; apply Hint; [op_legal_tac|reflexivity|exact Hsh]].
  apply good_if2; [|reflexivity|intros _; apply Hreal; [op_legal_tac|reflexivity|exact Hbs]].
  apply good_setDelta.
  2: { intros _. split; [op_legal_tac|]. cbn [fst snd]. rewrite str_count_nostr by reflexivity.
       apply src_args_ok_deltas; [exact Hob|lia]. }
  apply good_setDelta.
  2: { intros _. split; [op_legal_tac|]. cbn [fst snd]. rewrite str_count_nostr by reflexivity.
       apply src_args_ok_deltas; [exact Hbv|lia]. }
  apply good_nil.
Qed.

Lemma private_roundtrip_gen lay data0 p defW nomW :
  wf_table data0 -> lenN data0 < 65536 -> pd_ok p -> int32 defW -> int32 nomW ->
  let q := M_dict_encode lay data0 (M_makePrivateDict p defW nomW) in
  snd q = data0 /\
  exists rd, M_decodeDict data0 (fst q) = Ok rd /\
             M_private_info rd = pd_nf p /\
             getFloat rd b_opDefaultWidthX R0 = real_of_Z defW /\
             getFloat rd b_opNominalWidthX R0 = real_of_Z nomW.
Proof.
  intros Hwf Hsz Hp Hd Hn q.
  destruct (privdict_good lay data0 p defW nomW Hp Hd Hn) as (Hnd & Hok & Hns).
  assert (Hz : all_strs (sorted_entries (M_makePrivateDict p defW nomW)) = []).
  { apply lenN_zero. fold (nstrs (sorted_entries (M_makePrivateDict p defW nomW))).
    rewrite <- (nstrs_perm _ _ (sorted_perm _)). lia. }
  assert (Hsm : small (data0 ++ all_strs (sorted_entries (M_makePrivateDict p defW nomW)))).
  { rewrite Hz, app_nil_r. apply small_of_bound. exact Hsz. }
  destruct (dict_roundtrip_gen' lay data0 _ Hwf Hnd Hok Hsm) as (W & [ext E] & L & rd & Hrd & Hfind).
  fold q in W, E, L, Hrd, Hfind.
  assert (Eq : snd q = data0).
  { rewrite Hz in L. cbn [lenN] in L. rewrite E in L. rewrite lenN_app in L.
    assert (ext = []) by (apply lenN_zero; lia). subst ext. rewrite app_nil_r in E. exact E. }
  split; [exact Eq|]. rewrite Eq in *. exists rd. split; [exact Hrd|].
  apply (private_info_extract lay data0 _ rd p defW nomW Hfind); [reflexivity|exact Hp].
Qed.

(* ---------- key order ---------- *)

From Coq Require Import Sorted.

Definition key_le (a b : entry) : Prop := (sort_key (fst a) <= sort_key (fst b))%Z.

Lemma insert_sorted e l : StronglySorted key_le l -> StronglySorted key_le (insert_entry e l).
Proof.
  induction l as [|x l IH]; intros Hs; cbn [insert_entry].
  - constructor; constructor.
  - inversion Hs as [|? ? Hs' Hall]; subst.
    destruct (Z.ltb_spec (sort_key (fst e)) (sort_key (fst x))) as [Hlt|Hge].
    + constructor; [exact Hs|]. constructor; [unfold key_le; lia|].
      eapply Forall_impl; [|exact Hall]. intros y Hy. unfold key_le in *. lia.
    + constructor; [apply IH; exact Hs'|].
      assert (P : Permutation (e :: l) (insert_entry e l)) by apply insert_perm.
      eapply Permutation_Forall; [exact P|]. constructor; [unfold key_le; lia|exact Hall].
Qed.

Lemma sorted_entries_sorted d : StronglySorted key_le (sorted_entries d).
Proof.
  induction d as [|e d IH]; cbn [sorted_entries fold_right]; [constructor|].
  apply insert_sorted. exact IH.
Qed.

(* ---------- defaults are omitted ---------- *)

Lemma real_eqb_iff a b : real_eqb a b = true <-> a = b.
Proof. split; [apply real_eqb_eq|intros ->; apply real_eqb_refl]. Qed.

Lemma reals_eqb_refl a : reals_eqb a a = true.
Proof. induction a as [|x a IH]; [reflexivity|]. cbn [reals_eqb]. rewrite real_eqb_refl, IH. reflexivity. Qed.

Lemma reals_eqb_iff a b : reals_eqb a b = true <-> a = b.
Proof. split; [apply reals_eqb_eq|intros ->; apply reals_eqb_refl]. Qed.

Ltac omission_fin :=
  match goal with
  | |- context [is_nil ?s] => destruct s; cbn; split; (congruence || discriminate)
  | |- context [real_eqb ?a ?b] => pose proof (real_eqb_iff a b); destruct (real_eqb a b); cbn; intuition congruence
  | |- context [reals_eqb ?a ?b] => pose proof (reals_eqb_iff a b); destruct (reals_eqb a b); cbn; intuition congruence
  | |- context [(?a =? ?b)%Z] => destruct (Z.eqb_spec a b); cbn; intuition congruence
  | |- context [if ?c then _ else _] => destruct c; cbn; split; (congruence || discriminate)
  end.

Lemma topdict_omission fi isCID :
  let D := M_topdict_base fi isCID in
  (assoc b_opVersion D = None <-> fi_Version fi = []) /\
  (assoc b_opNotice D = None <-> fi_Notice fi = []) /\
  (assoc b_opCopyright D = None <-> fi_Copyright fi = []) /\
  (assoc b_opFullName D = None <-> fi_FullName fi = []) /\
  (assoc b_opFamilyName D = None <-> fi_FamilyName fi = []) /\
  (assoc b_opWeight D = None <-> fi_Weight fi = []) /\
  (assoc b_opIsFixedPitch D = None <-> fi_IsFixedPitch fi = false) /\
  (assoc b_opItalicAngle D = None <-> fi_ItalicAngle fi = R0) /\
  (assoc b_opUnderlinePosition D = None <-> fi_UnderlinePosition fi = rdefUnderlinePosition) /\
  (assoc b_opUnderlineThickness D = None <-> fi_UnderlineThickness fi = rdefUnderlineThickness) /\
  (assoc b_opFontMatrix D = None <-> fi_FontMatrix fi = if isCID then rident else rdefault_fm).
Proof.
  cbv zeta. unfold M_topdict_base, M_makeTopDict.
  repeat match goal with |- _ /\ _ => split end; assoc_simpl; omission_fin.
Qed.

Lemma privdict_omission p defW nomW :
  let D := M_makePrivateDict p defW nomW in
  (assoc b_opBlueValues D = None <-> pd_BlueValues p = []) /\
  (assoc b_opOtherBlues D = None <-> pd_OtherBlues p = []) /\
  (assoc b_opBlueScale D = None <-> pd_BlueScale p = rdefBlueScale) /\
  (assoc b_opBlueShift D = None <-> pd_BlueShift p = 7%Z) /\
  (assoc b_opBlueFuzz D = None <-> pd_BlueFuzz p = 1%Z) /\
  (assoc b_opStdHW D = None <-> pd_StdHW p = R0) /\
  (assoc b_opStdVW D = None <-> pd_StdVW p = R0) /\
  (assoc b_opForceBold D = None <-> pd_ForceBold p = false) /\
  (assoc b_opDefaultWidthX D = None <-> defW = 0%Z) /\
  (assoc b_opNominalWidthX D = None <-> nomW = 0%Z).
Proof.
  cbv zeta. unfold M_makePrivateDict. change b_defaultBlueShift with 7%Z. change b_defaultBlueFuzz with 1%Z.
  repeat match goal with |- _ /\ _ => split end; assoc_simpl; omission_fin.
Qed.

(* ---------- operand counts (TN5176, tables 9, 10, 23) ---------- *)

Definition S_arity_ok (op : N) (n : nat) : bool :=
  if existsb (N.eqb op) [0; 1; 2; 3; 4; 3072; 3073; 3074; 3075; 3076; 15; 16; 17; 3106; 3108; 3109;
                         10; 11; 19; 20; 21; 3081; 3082; 3083; 3086] then (n =? 1)%nat
  else if op =? 3079 then (n =? 6)%nat
  else if op =? 18 then (n =? 2)%nat
  else if op =? 3102 then (n =? 3)%nat
  else if existsb (N.eqb op) [6; 7; 8; 9] then (1 <=? n)%nat && (n <=? 48)%nat
  else false.

Definition arity_ok (e : entry) : Prop := S_arity_ok (fst e) (length (snd e)) = true.

Lemma deltas_length : forall l p, length (deltas p l) = length l.
Proof. induction l as [|x l IH]; intros p; [reflexivity|]. cbn [deltas length]. rewrite IH. reflexivity. Qed.

Lemma topdict_arity fi isCID : length (fi_FontMatrix fi) = 6%nat ->
  good arity_ok 6 (M_topdict_base fi isCID).
Proof.
  intros Hlen. unfold M_topdict_base, M_makeTopDict.
  apply good_setFontMatrix; [|unfold arity_ok; cbn [fst snd]; rewrite map_length, Hlen; reflexivity].
  apply good_if2; [|unfold M_dict_number; destruct (real_to_int32 _); reflexivity|intros _; reflexivity].
  apply good_if2; [|unfold M_dict_number; destruct (real_to_int32 _); reflexivity|intros _; reflexivity].
  apply good_if2; [|reflexivity|intros _; reflexivity].
  apply good_if1; [|reflexivity|intros _; reflexivity].
  change 6 with (0 + 1 + 1 + 1 + 1 + 1 + 1).
  repeat (apply good_put_str; [|intros _; reflexivity]).
  apply good_nil.
Qed.

Lemma privdict_arity p defW nomW :
  (length (pd_BlueValues p) <= 48)%nat -> (length (pd_OtherBlues p) <= 48)%nat ->
  good arity_ok 0 (M_makePrivateDict p defW nomW).
Proof.
  intros H1 H2. unfold M_makePrivateDict.
  do 8 (first [apply good_if2; [|reflexivity|intros _; reflexivity] | apply good_if1; [|reflexivity|intros _; reflexivity]]).
  apply good_setDelta.
  2: { intros Hne. unfold arity_ok. cbn [fst snd]. rewrite deltas_length. unfold S_arity_ok, b_opOtherBlues. cbn [existsb N.eqb Pos.eqb orb].
       destruct (pd_OtherBlues p); [contradiction|]. cbn [length] in *. apply andb_true_iff. split; [reflexivity|apply Nat.leb_le; lia]. }
  apply good_setDelta.
  2: { intros Hne. unfold arity_ok. cbn [fst snd]. rewrite deltas_length. unfold S_arity_ok, b_opBlueValues. cbn [existsb N.eqb Pos.eqb orb].
       destruct (pd_BlueValues p); [contradiction|]. cbn [length] in *. apply andb_true_iff. split; [reflexivity|apply Nat.leb_le; lia]. }
  apply good_nil.
Qed.

(* the code before the repair of setDeltaF16: the written deltas do not
   denote the values *)
Lemma delta_old_refuted_gen :
  exists l, int16s l /\ S_delta_values 0 (deltas_old 0 l) <> l.
Proof. exists [-32768; 32767]%Z. split; [repeat constructor; lia|]. vm_compute. discriminate. Qed.

Lemma delta_spec_values : forall l p, S_delta_values p (deltas p l) = l.
Proof.
  induction l as [|x l IH]; intros p; [reflexivity|].
  cbn [deltas S_delta_values]. replace (p + (x - p))%Z with x by lia. rewrite IH. reflexivity.
Qed.
