(* C13B/Util.v — arithmetic lemmas: decimal digit counts, trailing zeros,
   the digit string of a mantissa. *)
From Coq Require Import List NArith ZArith Bool Arith Lia.
From Coq Require Import ZifyBool ZifyNat ZifyN.
From Common Require Import Bytes Outcome.
From C13 Require Import Model ModelDict ModelTables Proofs_real.
From C13B Require Import ModelNum.
Import ListNotations.
Local Open Scope Z_scope.

(* ---------- powers of ten ---------- *)

Lemma pow10_pos k : 0 <= k -> 0 < 10 ^ k.
Proof. intros. apply Z.pow_pos_nonneg; lia. Qed.

Lemma pow10_S k : 0 <= k -> 10 ^ (k + 1) = 10 * 10 ^ k.
Proof. intros. rewrite Z.pow_add_r by lia. lia. Qed.

Lemma pow10_mono a b : 0 <= a <= b -> 10 ^ a <= 10 ^ b.
Proof. intros. apply Z.pow_le_mono_r; lia. Qed.

Lemma pow10_lt a b : 0 <= a < b -> 10 ^ a < 10 ^ b.
Proof. intros. apply Z.pow_lt_mono_r; lia. Qed.

(* ---------- ndigits ---------- *)

Lemma ndigits_fuel_spec f : forall z, 0 < z -> z < 2 ^ Z.of_nat f ->
  1 <= ndigits_fuel f z /\ 10 ^ (ndigits_fuel f z - 1) <= z < 10 ^ (ndigits_fuel f z).
Proof.
  induction f as [|f IH]; intros z Hz Hb.
  - cbn in Hb. lia.
  - cbn [ndigits_fuel]. destruct (Z.leb_spec z 0) as [H0|H0]; [lia|].
    destruct (Z.ltb_spec z 10) as [Hs|Hs].
    + (* one digit *)
      assert (Hq : z / 10 = 0) by (apply Z.div_small; lia).
      rewrite Hq. destruct f; cbn [ndigits_fuel]; cbn; lia.
    + assert (Hq : 0 < z / 10) by (apply Z.div_str_pos; lia).
      assert (Hb' : z / 10 < 2 ^ Z.of_nat f).
      { rewrite Nat2Z.inj_succ, Z.pow_succ_r in Hb by lia.
        apply Z.div_lt_upper_bound; lia. }
      destruct (IH (z / 10) Hq Hb') as (A & B & C).
      split; [lia|].
      replace (1 + ndigits_fuel f (z / 10) - 1) with (ndigits_fuel f (z / 10) - 1 + 1) by lia.
      rewrite pow10_S by lia.
      replace (1 + ndigits_fuel f (z / 10)) with (ndigits_fuel f (z / 10) + 1) by lia.
      rewrite pow10_S by lia.
      pose proof (Z.div_mod z 10 ltac:(lia)). pose proof (Z.mod_pos_bound z 10 ltac:(lia)). lia.
Qed.

Lemma log2_fuel z : 0 < z -> z < 2 ^ Z.of_nat (S (Z.to_nat (Z.log2 z))).
Proof.
  intros Hz. rewrite Nat2Z.inj_succ, Z2Nat.id by apply Z.log2_nonneg.
  apply Z.log2_spec. exact Hz.
Qed.

Lemma ndigits_spec z : 0 < z ->
  1 <= ndigits z /\ 10 ^ (ndigits z - 1) <= z < 10 ^ (ndigits z).
Proof. intros Hz. unfold ndigits. apply ndigits_fuel_spec; [exact Hz|apply log2_fuel; exact Hz]. Qed.

(* the digit count is determined by the bracket *)
Lemma ndigits_unique z k : 0 < z -> 1 <= k -> 10 ^ (k - 1) <= z < 10 ^ k -> ndigits z = k.
Proof.
  intros Hz Hk [L U]. destruct (ndigits_spec z Hz) as (A & B & C).
  destruct (Z.lt_trichotomy (ndigits z) k) as [H|[H|H]]; [|exact H|].
  - pose proof (pow10_mono (ndigits z) (k - 1) ltac:(lia)). lia.
  - pose proof (pow10_mono k (ndigits z - 1) ltac:(lia)). lia.
Qed.

Lemma ndigits_mul10 z k : 0 < z -> 0 <= k -> ndigits (z * 10 ^ k) = ndigits z + k.
Proof.
  intros Hz Hk. destruct (ndigits_spec z Hz) as (A & B & C).
  pose proof (pow10_pos k Hk).
  apply ndigits_unique; [nia|lia|].
  replace (ndigits z + k - 1) with ((ndigits z - 1) + k) by lia.
  rewrite !Z.pow_add_r by lia. split; nia.
Qed.

(* ---------- strip10 ---------- *)

(* the result: m = m' * 10^(e'-e), m' not divisible by 10 *)
Lemma strip10_spec f : forall m e, 0 < m -> m < 2 ^ Z.of_nat f ->
  let p := strip10 f m e in
  0 < fst p /\ e <= snd p /\ m = fst p * 10 ^ (snd p - e) /\ (fst p) mod 10 <> 0.
Proof.
  induction f as [|f IH]; intros m e Hm Hb.
  - cbn in Hb. lia.
  - cbn [strip10]. destruct (Z.eqb_spec (m mod 10) 0) as [H0|H0].
    + assert (Hq : 0 < m / 10).
      { pose proof (Z.div_mod m 10 ltac:(lia)). lia. }
      assert (Hb' : m / 10 < 2 ^ Z.of_nat f).
      { rewrite Nat2Z.inj_succ, Z.pow_succ_r in Hb by lia. apply Z.div_lt_upper_bound; lia. }
      destruct (IH (m / 10) (e + 1) Hq Hb') as (A & B & C & D).
      cbv zeta. split; [exact A|]. split; [lia|]. split; [|exact D].
      replace (snd (strip10 f (m / 10) (e + 1)) - e) with ((snd (strip10 f (m / 10) (e + 1)) - (e + 1)) + 1) by lia.
      rewrite pow10_S by lia.
      pose proof (Z.div_mod m 10 ltac:(lia)). rewrite H0 in H. lia.
    + cbv zeta. cbn [fst snd]. rewrite Z.sub_diag. cbn. repeat split; lia.
Qed.

(* a mantissa not divisible by 10 is left alone *)
Lemma strip10_id f m e : m mod 10 <> 0 -> strip10 f m e = (m, e).
Proof. intros H. destruct f; cbn [strip10]; [reflexivity|]. destruct (Z.eqb_spec (m mod 10) 0); [contradiction|reflexivity]. Qed.

(* stripping m * 10^k: k more zeros *)
Lemma strip10_mul f : forall k m e, 0 < m -> m mod 10 <> 0 -> (Z.to_nat k <= f)%nat -> 0 <= k ->
  strip10 f (m * 10 ^ k) e = (m, e + k).
Proof.
  induction f as [|f IH]; intros k m e Hm Hnd Hf Hk.
  - assert (k = 0) by lia. subst. cbn [strip10]. rewrite Z.pow_0_r, Z.mul_1_r, Z.add_0_r. reflexivity.
  - destruct (Z.eqb_spec k 0) as [->|Hk0].
    + rewrite Z.pow_0_r, Z.mul_1_r, Z.add_0_r. apply strip10_id. exact Hnd.
    + assert (E : m * 10 ^ k = (m * 10 ^ (k - 1)) * 10).
      { replace k with ((k - 1) + 1) at 1 by lia. rewrite pow10_S by lia. lia. }
      rewrite E. cbn [strip10].
      rewrite Z.mod_mul by lia. cbn [Z.eqb]. rewrite Z.div_mul by lia.
      rewrite IH by lia. f_equal. lia.
Qed.

(* number of trailing zeros is below the bit length *)
Lemma pow10_log2 m k : 0 < m -> 0 <= k -> m * 10 ^ k < 2 ^ Z.of_nat (S (Z.to_nat (Z.log2 (m * 10 ^ k)))) .
Proof. intros. apply log2_fuel. pose proof (pow10_pos k ltac:(lia)). nia. Qed.

Lemma k_le_log2 m k : 0 < m -> 0 <= k -> k <= Z.log2 (m * 10 ^ k).
Proof.
  intros Hm Hk. pose proof (pow10_pos k Hk).
  apply Z.log2_le_pow2; [nia|].
  assert (2 ^ k <= 10 ^ k) by (apply Z.pow_le_mono_l; lia). nia.
Qed.

(* rnorm of a canonical value scaled by a power of ten *)
Lemma rnorm_scaled neg m e k : 0 < m -> m mod 10 <> 0 -> 0 <= k ->
  rnorm neg (m * 10 ^ k) (e - k) = mkReal neg m e.
Proof.
  intros Hm Hnd Hk. unfold rnorm. pose proof (pow10_pos k Hk).
  destruct (Z.leb_spec (m * 10 ^ k) 0); [nia|].
  unfold strip_fuel. rewrite strip10_mul; try assumption.
  - cbn [fst snd]. f_equal. lia.
  - pose proof (k_le_log2 m k Hm Hk). lia.
Qed.

Lemma rnorm_canon_id neg m e : 0 < m -> m mod 10 <> 0 -> rnorm neg m e = mkReal neg m e.
Proof.
  intros Hm Hnd. pose proof (rnorm_scaled neg m e 0 Hm Hnd ltac:(lia)) as H.
  rewrite Z.pow_0_r, Z.mul_1_r, Z.sub_0_r in H. exact H.
Qed.

(* ---------- uniqueness of the decomposition m * 10^e ---------- *)

Lemma not_div10_pow m1 m2 k : 0 < m1 -> m1 mod 10 <> 0 -> 0 <= k -> m1 = m2 * 10 ^ k -> k = 0.
Proof.
  intros H1 Hnd Hk E. destruct (Z.eqb_spec k 0) as [|Hk0]; [assumption|exfalso].
  apply Hnd. subst m1. replace k with ((k - 1) + 1) by lia. rewrite pow10_S by lia.
  replace (m2 * (10 * 10 ^ (k - 1))) with ((m2 * 10 ^ (k - 1)) * 10) by lia.
  apply Z.mod_mul. lia.
Qed.

(* m1 * 10^e1 = m * 10^e (rationals), m canonical  ->  m1 = m * 10^(e - e1), e1 <= e *)
Lemma dec_equiv_scaled m1 e1 m e : 0 < m1 -> 0 < m -> m mod 10 <> 0 ->
  dec_equiv m1 e1 m e -> e1 <= e /\ m1 = m * 10 ^ (e - e1).
Proof.
  intros H1 Hm Hnd E. unfold dec_equiv in E.
  destruct (Z.le_gt_cases e1 e) as [Hle|Hgt].
  - rewrite Z.min_l in E by lia. rewrite Z.sub_diag, Z.pow_0_r, Z.mul_1_r in E. split; [exact Hle|exact E].
  - exfalso. rewrite Z.min_r in E by lia. rewrite Z.sub_diag, Z.pow_0_r, Z.mul_1_r in E.
    pose proof (not_div10_pow m m1 (e1 - e) Hm Hnd ltac:(lia) (eq_sym E)). lia.
Qed.

(* ---------- the digit string ---------- *)

Lemma itoa_fuel_spec2 f : forall x acc,
  0 <= x < 2 ^ Z.of_nat f -> Forall digit acc ->
  Forall digit (itoa_fuel f x acc) /\
  dv 0 (itoa_fuel f x acc) = x * 10 ^ Z.of_nat (length acc) + dv 0 acc /\
  (0 < x -> itoa_fuel f x acc <> []).
Proof.
  induction f as [|f IH]; intros x acc Hx Hacc.
  - cbn in Hx. assert (x = 0) by lia. subst. cbn [itoa_fuel]. split; [exact Hacc|]. split; lia.
  - cbn [itoa_fuel]. destruct (Z.leb_spec x 0) as [H0|H0].
    + assert (x = 0) by lia. subst. split; [exact Hacc|]. split; [lia|lia].
    + assert (Hd : digit (Z.to_N (x mod 10))) by (unfold digit; lia).
      assert (Hb' : 0 <= x / 10 < 2 ^ Z.of_nat f).
      { rewrite Nat2Z.inj_succ, Z.pow_succ_r in Hx by lia. split; [apply Z.div_pos; lia|].
        apply Z.div_lt_upper_bound; lia. }
      destruct (IH (x / 10) (Z.to_N (x mod 10) :: acc) Hb' ltac:(constructor; assumption))
        as (A & B & C).
      split; [exact A|]. split.
      * rewrite B. cbn [length]. rewrite Nat2Z.inj_succ, Z.pow_succ_r by lia.
        rewrite (dv_shift (Z.to_N (x mod 10) :: acc)). cbn [dv fold_left length].
        fold (dv (0 * 10 + Z.of_N (Z.to_N (x mod 10))) acc).
        rewrite (dv_shift acc (0 * 10 + Z.of_N (Z.to_N (x mod 10)))).
        rewrite Z2N.id by lia. nia.
      * intros _. destruct (Z.leb_spec (x / 10) 0).
        -- destruct f; cbn [itoa_fuel]; [discriminate|].
           destruct (Z.leb_spec (x / 10) 0); [discriminate|lia].
        -- apply C. lia.
Qed.

Lemma digits_of_spec m : 0 < m ->
  Forall digit (digits_of m) /\ dv 0 (digits_of m) = m /\ digits_of m <> [].
Proof.
  intros Hm. unfold digits_of, strip_fuel.
  destruct (itoa_fuel_spec2 (S (Z.to_nat (Z.log2 m))) m [] ltac:(split; [lia|apply log2_fuel; exact Hm]) ltac:(constructor))
    as (A & B & C).
  split; [exact A|]. split; [|apply C; exact Hm]. rewrite B. cbn. lia.
Qed.
