(* C13B/Props.v — the theorems of part C13B of property C13 (assembly of CFF
   fonts: string table, DICT contents, section wiring of Font.Write, the
   offset following of Read).  Nothing else: every proof is an instantiation
   of a lemma of Proofs_*.v. *)
From Coq Require Import List NArith ZArith Bool Arith Lia Sorted.
From Common Require Import Bytes Outcome.
From Gen Require Import C13 C13B.
From C13 Require Import Model Util ModelDict ModelTables ModelLayout Proofs_index.
From C13B Require Import ModelNum ModelStr ModelCDict ModelFont.
From C13 Require Import Proofs_layout.
From C13B Require Import Util Proofs_num Proofs_str Proofs_cdict Proofs_fields Proofs_write Proofs_read
  Proofs_simple Proofs_cid Proofs_cid2 Proofs_total.
Import ListNotations.
Local Open Scope N_scope.

(* ================= (a) the string table ================= *)

(* For every list of strings interned during a write (lookups in order,
   starting from the empty table; fewer than 65536 of them), every string is
   found again under the SID it was given - in the table, and in the table
   read back from the written String INDEX wherever that is placed in a file. *)
Theorem strings_roundtrip :
  forall l : list str, lenN l < 65536 ->
    let sids := fst (ss_lookups [] l) in
    let data := snd (ss_lookups [] l) in
    sumN (map lenN data) < 4294967295 ->
    Forall2 (fun s sid => ss_get data sid = Some s) l sids /\
    exists bs, ss_encode data = Ok bs /\
      forall size tail, lenN bs <= size -> M_index_read size (bs ++ tail) = Ok (data, tail).
Proof.
  intros l Hl sids data Hb.
  destruct (lookups_spec l [] wf_nil ltac:(apply small_of_bound; cbn [app]; exact Hl)) as (W & E & L & F).
  fold data in W, E, L, F. fold sids in F. cbn [lenN] in L.
  split.
  - eapply Forall2_imp; [|exact F]. intros s sid H. apply sid_spec_get; [apply small_of_bound; lia|exact H].
  - destruct (index_encode_ok data ltac:(lia) ltac:(lia)) as [bs Ebs].
    exists bs. split; [exact Ebs|]. intros size tail Hs.
    exact (ss_index_roundtrip data bs size tail ltac:(lia) Hb Ebs Hs).
Qed.
Print Assumptions strings_roundtrip.

(* SIDs are unique per distinct string: two lookups get the same SID exactly
   when they are lookups of the same string. *)
Theorem sid_unique :
  forall (l : list str) i j si sj sidi sidj, lenN l < 65536 ->
    let sids := fst (ss_lookups [] l) in
    nth_error l i = Some si -> nth_error l j = Some sj ->
    nth_error sids i = Some sidi -> nth_error sids j = Some sidj ->
    (sidi = sidj <-> si = sj).
Proof.
  intros l i j si sj sidi sidj Hl sids Hi Hj Hsi Hsj.
  destruct (lookups_spec l [] wf_nil ltac:(apply small_of_bound; cbn [app]; exact Hl)) as (W & E & L & F).
  fold sids in F. cbn [lenN] in L.
  assert (Hsm : small (snd (ss_lookups [] l))) by (apply small_of_bound; lia).
  pose proof (Forall2_nth _ _ _ F) as G.
  pose proof (G i si sidi Hi Hsi) as Si. pose proof (G j sj sidj Hj Hsj) as Sj.
  split.
  - intros ->. exact (sid_spec_inj _ _ _ _ Hsm Si Sj).
  - intros ->. exact (sid_spec_fun _ _ _ _ W Si Sj).
Qed.
Print Assumptions sid_unique.

(* Standard strings keep their fixed SID (their index in the table
   regenerated from cff/strings.go, 391 entries), custom strings get 391+k
   where k is their position among the custom strings in first-use order. *)
Theorem sid_assignment :
  forall l : list str, lenN l < 65536 ->
    let sids := fst (ss_lookups [] l) in
    let data := snd (ss_lookups [] l) in
    data = S_first_use [] l /\
    Forall2 (fun s sid =>
      (0 <= sid)%Z /\
      ((sid < 391)%Z -> find_last s b_stdStrings = Some (Z.to_N sid)) /\
      ((391 <= sid)%Z -> find_last s b_stdStrings = None /\ nth_error data (Z.to_nat (sid - 391)) = Some s)) l sids.
Proof.
  intros l Hl sids data. split; [apply lookups_first_use|].
  destruct (lookups_spec l [] wf_nil ltac:(apply small_of_bound; cbn [app]; exact Hl)) as (W & E & L & F).
  fold data in W, F. fold sids in F.
  eapply Forall2_imp; [|exact F]. intros s sid H. pose proof nstd_val as Hv.
  destruct H as [[k [A B]]|[Hn [i [A B]]]].
  - split; [lia|]. split; [lia|]. intros _. split.
    + destruct W as [_ Hstd]. apply Hstd. apply nth_error_In with k. exact A.
    + subst sid. replace (Z.to_nat (Z.of_nat k + Z.of_N b_nStdString - 391)) with k by lia. exact A.
  - destruct (find_last_some s _ i A) as [Li _]. rewrite len_std in Li. subst sid.
    split; [lia|]. split; [intros _; rewrite N2Z.id; exact A|lia].
Qed.
Print Assumptions sid_assignment.

(* ================= (b) DICT assembly ================= *)

(* Reals: for every canonical decimal that is 0 or has 1e-300 <= |x| <= 1e300
   (any number of digits) the operand encodeFloat lays out is read back by
   decodeFloat - clamps included - as the same decimal. *)
Theorem real_operand_roundtrip :
  forall (r : real) (rest : list N), real_ok r ->
    exists d, dict_token (30 :: M_real_encode r ++ rest) = Ok (TVal (DReal d), rest) /\
              real_of_decimal d = r.
Proof. exact real_roundtrip_gen. Qed.
Print Assumptions real_operand_roundtrip.

(* Entry level.  For every dictionary (a finite map: distinct operators) whose
   operators can be written (one-byte operators 0..21 except 12, two-byte
   operators 12 0..12 255) and whose operands are in the domain (int32,
   reals as above, strings in the string positions of string operators, layout
   operands with int32 values): encode interns the strings in key order and
   decodeDict, given the string table afterwards, returns for every operator
   exactly the operands written (strings resolved), and nothing for every
   other operator. *)
Theorem dict_entries_roundtrip :
  forall (lay : operand -> Z) (data0 : list str) (d : cdict),
    wf_table data0 -> NoDup (keys d) -> Forall (src_entry_ok lay data0) d ->
    small (data0 ++ all_strs (sorted_entries d)) ->
    let p := M_dict_encode lay data0 d in
    wf_table (snd p) /\ extends data0 (snd p) /\
    exists rd, M_decodeDict (snd p) (fst p) = Ok rd /\
      forall op, dfind op rd =
        option_map (fun args => src_rvs lay (snd p) (str_count op (length args)) args) (assoc op d).
Proof.
  intros lay data0 d H1 H2 H3 H4 p.
  destruct (dict_roundtrip_gen' lay data0 d H1 H2 H3 H4) as (A & B & _ & C). auto.
Qed.
Print Assumptions dict_entries_roundtrip.

(* Every operator is emitted at most once, in the order of sortedKeys: ROS
   (and SyntheticBase) first, then by operator number; an operator above 255
   is written as 12 followed by its low byte. *)
Theorem dict_operators_once_sorted :
  forall d : cdict, NoDup (keys d) ->
    NoDup (keys (sorted_entries d)) /\
    StronglySorted (fun a b => (sort_key (fst a) <= sort_key (fst b))%Z) (sorted_entries d) /\
    sort_key b_opROS = (-1)%Z /\ (forall op, 255 < op -> enc_op op = [12; op mod 256]) /\
    (forall op, op <= 255 -> enc_op op = [op mod 256]).
Proof.
  intros d H. split; [apply keys_sorted; exact H|]. split; [apply sorted_entries_sorted|].
  split; [reflexivity|]. split; intros op Hop; unfold enc_op.
  - destruct (N.ltb_spec 255 op); [reflexivity|lia].
  - destruct (N.ltb_spec 255 op); [lia|reflexivity].
Qed.
Print Assumptions dict_operators_once_sorted.

(* Top DICT: for every FontInfo in the domain (reals as above, a matrix of
   six entries; any strings) and either kind of font, decodeDict of what
   makeTopDict + setFontMatrix + encode wrote, followed by the field
   extraction of Read, gives the normal form of the FontInfo: string fields as
   valid UTF-8 (string([]rune(x))), ItalicAngle reduced into [-180,180),
   everything else unchanged - whether a field was written or omitted because
   it has its default value. *)
Theorem topdict_roundtrip :
  forall (lay : operand -> Z) (data0 : list str) (fi : fontinfo) (isCID : bool),
    wf_table data0 -> lenN data0 + 6 < 65536 -> fi_ok fi ->
    let p := M_dict_encode lay data0 (M_topdict_base fi isCID) in
    exists rd, M_decodeDict (snd p) (fst p) = Ok rd /\
               M_topdict_info (fi_FontName fi) rd isCID = fi_nf fi.
Proof. exact topdict_roundtrip_gen. Qed.
Print Assumptions topdict_roundtrip.

(* Private DICT: for every private dictionary in the domain (16-bit blue
   values, int32 BlueShift / BlueFuzz, reals as above) and all int32 default /
   nominal widths, readPrivate's field extraction gives the normal form
   (BlueScale limited to [0,1], StdHW / StdVW to [0,10000]) and the two
   widths; the string table is not touched. *)
Theorem private_roundtrip :
  forall (lay : operand -> Z) (data0 : list str) (p : privdict) (defW nomW : Z),
    wf_table data0 -> lenN data0 < 65536 -> pd_ok p -> int32 defW -> int32 nomW ->
    let q := M_dict_encode lay data0 (M_makePrivateDict p defW nomW) in
    snd q = data0 /\
    exists rd, M_decodeDict data0 (fst q) = Ok rd /\
               M_private_info rd = pd_nf p /\
               getFloat rd b_opDefaultWidthX R0 = real_of_Z defW /\
               getFloat rd b_opNominalWidthX R0 = real_of_Z nomW.
Proof. exact private_roundtrip_gen. Qed.
Print Assumptions private_roundtrip.

(* A field equal to its default is omitted, and only then (the reader
   substitutes exactly these defaults: topdict_roundtrip, private_roundtrip). *)
Theorem topdict_defaults_omitted :
  forall fi isCID,
  let D := M_topdict_base fi isCID in
  (assoc b_opVersion D = None <-> fi_Version fi = []) /\
  (assoc b_opNotice D = None <-> fi_Notice fi = []) /\
  (assoc b_opCopyright D = None <-> fi_Copyright fi = []) /\
  (assoc b_opFullName D = None <-> fi_FullName fi = []) /\
  (assoc b_opFamilyName D = None <-> fi_FamilyName fi = []) /\
  (assoc b_opWeight D = None <-> fi_Weight fi = []) /\
  (assoc b_opIsFixedPitch D = None <-> fi_IsFixedPitch fi = false) /\
  (assoc b_opItalicAngle D = None <-> fi_ItalicAngle fi = R0) /\
  (assoc b_opUnderlinePosition D = None <-> fi_UnderlinePosition fi = rdefUnderlinePosition) /\
  (assoc b_opUnderlineThickness D = None <-> fi_UnderlineThickness fi = rdefUnderlineThickness) /\
  (assoc b_opFontMatrix D = None <-> fi_FontMatrix fi = if isCID then rident else rdefault_fm).
Proof. exact topdict_omission. Qed.
Print Assumptions topdict_defaults_omitted.

Theorem private_defaults_omitted :
  forall p defW nomW,
  let D := M_makePrivateDict p defW nomW in
  (assoc b_opBlueValues D = None <-> pd_BlueValues p = []) /\
  (assoc b_opOtherBlues D = None <-> pd_OtherBlues p = []) /\
  (assoc b_opBlueScale D = None <-> pd_BlueScale p = rdefBlueScale) /\
  (assoc b_opBlueShift D = None <-> pd_BlueShift p = 7%Z) /\
  (assoc b_opBlueFuzz D = None <-> pd_BlueFuzz p = 1%Z) /\
  (assoc b_opStdHW D = None <-> pd_StdHW p = R0) /\
  (assoc b_opStdVW D = None <-> pd_StdVW p = R0) /\
  (assoc b_opForceBold D = None <-> pd_ForceBold p = false) /\
  (assoc b_opDefaultWidthX D = None <-> defW = 0%Z) /\
  (assoc b_opNominalWidthX D = None <-> nomW = 0%Z).
Proof. exact privdict_omission. Qed.
Print Assumptions private_defaults_omitted.

(* Operand counts are the ones of tables 9, 10 and 23 of TN5176 (one number /
   SID / boolean, six for FontMatrix, 1..48 for the delta arrays - 48 is the
   operand stack limit; the arrays are written with as many operands as they
   have entries, so the bound is a hypothesis on the font). *)
Theorem operand_counts_legal :
  forall fi isCID p defW nomW,
    length (fi_FontMatrix fi) = 6%nat ->
    (length (pd_BlueValues p) <= 48)%nat -> (length (pd_OtherBlues p) <= 48)%nat ->
    Forall (fun e => S_arity_ok (fst e) (length (snd e)) = true) (M_topdict_base fi isCID) /\
    Forall (fun e => S_arity_ok (fst e) (length (snd e)) = true) (M_makePrivateDict p defW nomW).
Proof.
  intros fi isCID p defW nomW H1 H2 H3. split.
  - exact (proj1 (proj2 (topdict_arity fi isCID H1))).
  - exact (proj1 (proj2 (privdict_arity p defW nomW H2 H3))).
Qed.
Print Assumptions operand_counts_legal.

(* Delta arrays: the operands written for 16-bit values denote these values
   under the specification's reading (partial sums), and getDeltaF16 - which
   adds in 16 bits - returns them. *)
Theorem delta_arrays_roundtrip :
  forall l : list Z, int16s l ->
    S_delta_values 0 (deltas 0 l) = l /\
    delta_acc 0 (map (fun v => match v with VInt z => RInt z | _ => RInt 0 end) (deltas 0 l)) = Some l.
Proof. intros l H. split; [apply delta_spec_values|apply delta_roundtrip; [exact H|lia]]. Qed.
Print Assumptions delta_arrays_roundtrip.

(* The code before the repair (differences taken in 16 bits): the written
   array does not denote the values. *)
Theorem delta_arrays_old_refuted :
  exists l : list Z, int16s l /\ S_delta_values 0 (deltas_old 0 l) <> l.
Proof. exact delta_old_refuted_gen. Qed.
Print Assumptions delta_arrays_old_refuted.

(* The list of string operators hard-wired in C13's DICT decoder model is the
   one regenerated from dictOp.isString, and C13's nStdString is the length of
   the regenerated table of standard strings, which has no duplicates. *)
Theorem tables_match_source :
  (forall op, op_is_string op = existsb (N.eqb op) b_stringOps) /\
  cff_nStdString = lenN b_stdStrings /\ b_nStdString = lenN b_stdStrings /\
  ModelDict.opROS = b_opROS /\
  (forall s i, nth_error b_stdStrings i = Some s -> find_last s b_stdStrings = Some (N.of_nat i)).
Proof.
  split; [intros op; reflexivity|]. split; [vm_compute; reflexivity|]. split; [vm_compute; reflexivity|].
  split; [reflexivity|].
  intros s i H. exact (find_last_nodup s b_stdStrings std_nodup i H).
Qed.
Print Assumptions tables_match_source.

(* ================= (c) the whole file ================= *)

(* Offsets.  For every font that Write lays out - a simple font in the domain
   (font_ok_simple: fewer than 65536 glyphs with distinct names, one private
   dictionary, FontInfo / private values in the number domain) or any
   CID-keyed font - whose largest possible file size fits an int32 (every
   offset operand five bytes long; Write keeps offsets in int32):
   the bytes written are the concatenation of the section blobs, each blob is
   the encoding of its section with the final operand values, the sections
   tile the file in order (pos 0 = 0, pos (j+1) = pos j + size j, the last one
   ends at the end of the file, which is shorter than 2^31), section j starts
   exactly where its offset operand OOffs j says (charset, Encoding,
   CharStrings, FDSelect, FDArray, Private offsets are such operands - see
   M_sections_simple / M_sections_cid), every Subrs operand ODiff a b is the
   distance between its Subrs INDEX and its Private DICT, and every Private
   size operand OSize j is the length of Private DICT j as written. *)
Definition offsets_statement (secs : list msec) (bytes : list N) : Prop :=
  exists (lay : operand -> Z) (blobs : list (list N)) (pos : nat -> N) (hdr : N),
    bytes = concat blobs /\ length blobs = length secs /\
    Forall2 (fun s b => sec_bytes lay hdr s = Ok b) secs blobs /\
    (Z.of_N (lenN bytes) < 2147483648)%Z /\
    pos 0%nat = 0 /\
    (forall j b, nth_error blobs j = Some b ->
       pos (S j) = pos j + lenN b /\ pos (S j) <= lenN bytes /\
       dropN bytes (pos j) = b ++ concat (skipn (S j) blobs) /\
       lay (OOffs j) = Z.of_N (pos j)) /\
    pos (length secs) = lenN bytes /\
    (forall a b, (b <= a < length secs)%nat -> lay (ODiff a b) = (Z.of_N (pos a) - Z.of_N (pos b))%Z) /\
    (forall j d b, nth j (map abs_sec secs) (SFixed 0) = SDict d -> Forall (wf0 (map abs_sec secs)) (d_ops d) ->
       nth_error blobs j = Some b -> lay (OSize j) = Z.of_N (lenN b)).

Theorem write_offsets_correct :
  forall (std_code exp_code : str -> option N) (f : font) (secs : list msec) (bytes : list N),
    (font_ok_simple f /\ (exists p, f_private f = [p])) \/ (exists ros, f_ros f = Some ros) ->
    M_write_sections std_code exp_code f = Ok secs ->
    (Z.of_N (sumN (smax (map abs_sec secs))) < 2147483648)%Z ->
    M_write std_code exp_code f = Ok bytes ->
    offsets_statement secs bytes.
Proof.
  intros std_code exp_code f secs bytes Hkind Hs Htot Hw.
  unfold M_write in Hw. rewrite Hs in Hw. cbn [obind] in Hw.
  apply write_offsets_gen; [|exact Htot|exact Hw].
  destruct Hkind as [[Hok [p Hp]]|[[[reg ord] sup] Hros]].
  - exact (write_layout_wf_simple std_code exp_code f secs p Hok Hp Hs).
  - exact (write_layout_wf_cid std_code exp_code f secs reg ord sup Hros Hs).
Qed.
Print Assumptions write_offsets_correct.

(* Round trip: M_read (M_write f) = Ok (normal form of f), for every abstract
   font value in the domain, for every choice of the external tables
   psenc.StandardEncodingRev / expertEnc (std_code, exp_code).

   Simple fonts (font_ok_simple: fewer than 65536 glyphs with distinct names,
   one private dictionary in the number domain, an encoding vector that is
   empty or has 256 entries referring to existing glyphs; all four encoding
   regimes - none, standard, expert, custom with supplements).  Normal form
   font_nf_simple: FontInfo as in topdict_roundtrip, glyph names and
   charstrings unchanged, no subroutines, the private dictionary as in
   private_roundtrip with the integer default / nominal widths as reals, every
   glyph in dictionary 0, and the encoding vector itself - the standard
   encoding of the glyph names when the font has none.

   CID-keyed fonts (font_ok_cid: fewer than 65536 glyphs, 1..256 private
   dictionaries in the domain with one six-entry matrix each, an FDSelect
   value below their number for every glyph, one CID per glyph, an int32
   supplement).  Normal form font_nf_cid: ROS, GIDToCID, FDSelect and the
   per-dictionary matrices unchanged, the private dictionaries as above (the
   same default / nominal widths for all: encodeCharStrings computes one
   pair), empty glyph names, no encoding.

   The hypothesis write_size_ok (the largest possible file - every offset
   operand five bytes long - is shorter than 2^31) is the condition under
   which Write's int32 offsets cannot wrap.  That Write succeeded is a
   hypothesis: it refuses fonts without .notdef, with non-contiguous
   encodings, with identifiers beyond 16 bits. *)
Theorem write_read_roundtrip :
  forall (std_code exp_code : str -> option N) (f : font) (bytes : list N),
    write_size_ok std_code exp_code f ->
    M_write std_code exp_code f = Ok bytes ->
    (forall p, font_ok_simple f -> f_private f = [p] -> pd_ok p ->
       M_read std_code exp_code bytes = Ok (font_nf_simple std_code f p)) /\
    (forall reg ord sup, font_ok_cid f reg ord sup ->
       M_read std_code exp_code bytes = Ok (font_nf_cid f reg ord sup)).
Proof.
  intros std_code exp_code f bytes Hsize Hw. split.
  - intros p Hok Hp Hpd. apply simple_roundtrip_gen; assumption.
  - intros reg ord sup Hok. apply cid_roundtrip_gen; assumption.
Qed.
Print Assumptions write_read_roundtrip.

(* The refusal when string identifiers run past 65535 (repair fac3feb): a
   simple font that Write accepts has all its glyph-name SIDs in 16 bits;
   a font with more custom glyph names than that is refused, never written
   with truncated identifiers. *)
Theorem write_refuses_sid_overflow :
  forall (std_code exp_code : str -> option N) (f : font) (bytes : list N),
    f_ros f = None -> lenN (f_glyphs f) < 65536 -> M_write std_code exp_code f = Ok bytes ->
    Forall (fun sid => (0 <= sid <= 65535)%Z) (fst (ss_lookups [] (map fst (f_glyphs f)))).
Proof. exact write_ok_sids_fit. Qed.
Print Assumptions write_refuses_sid_overflow.

(* ================= (d) totality of Read (serves C02) ================= *)

(* On every byte string the model of cff.Read returns a font or an error:
   never Panic, never OutOfFuel - for any tables of the standard / expert
   encoding.  (Charstrings are opaque: their decoding is C04/C05.) *)
Theorem read_is_total :
  forall (std_code exp_code : str -> option N) (data : list N), bytes_ok data = true ->
    M_read std_code exp_code data <> Panic /\ M_read std_code exp_code data <> OutOfFuel.
Proof. exact read_total. Qed.
Print Assumptions read_is_total.
