(* C13B/Proofs_num.v — reals: what encodeFloat lays out for a canonical decimal
   is read back by decodeFloat (with its clamps) as the same decimal. *)
From Coq Require Import List NArith ZArith Bool Arith Lia.
From Coq Require Import ZifyBool ZifyNat ZifyN.
From Common Require Import Bytes Outcome.
From C13 Require Import Model ModelDict ModelTables Proofs_real.
From C13B Require Import ModelNum Util.
Import ListNotations.
Local Open Scope Z_scope.

(* the domain: zero, or 1e-300 <= |x| <= 1e300, in canonical form *)
Definition real_in_range (r : real) : bool :=
  (r_mant r =? 0) ||
  ((-300 <? rmag r) && ((rmag r <=? 300) || ((r_mant r =? 1) && (r_exp r =? 300)))).

Definition real_ok (r : real) : Prop := real_canon r = true /\ real_in_range r = true.

Lemma real_ok_R0 : real_ok R0.
Proof. split; reflexivity. Qed.

Lemma threshold_big : 10 ^ 301 < float_overflow_threshold.
Proof. unfold float_overflow_threshold. vm_compute. reflexivity. Qed.

Lemma canon_nonzero r : real_canon r = true -> r_mant r <> 0 -> 0 < r_mant r /\ r_mant r mod 10 <> 0.
Proof.
  unfold real_canon. intros H Hn. destruct (Z.eqb_spec (r_mant r) 0); [contradiction|].
  apply andb_true_iff in H. destruct H as [A B]. split; [lia|].
  destruct (Z.eqb_spec (r_mant r mod 10) 0); [discriminate|assumption].
Qed.

Lemma canon_zero r : real_canon r = true -> r_mant r = 0 -> r = R0.
Proof.
  unfold real_canon. intros H H0. rewrite H0 in H. cbn in H.
  apply andb_true_iff in H. destruct H as [A B].
  destruct r as [ng m e]. cbn in *. subst. destruct ng; [discriminate|].
  destruct (Z.eqb_spec e 0); [subst; reflexivity|discriminate].
Qed.

(* the text parsed from the layout does not overflow float64 *)
Lemma no_overflow d o : 0 < d_mant d ->
  ndigits (d_mant d) + (d_exp d - d_nfrac d) = o -> o <= 301 ->
  S_real_overflow d = false.
Proof.
  intros Hm Ho Hle. unfold S_real_overflow.
  destruct (Z.eqb_spec (d_mant d) 0); [lia|].
  set (e := d_exp d - d_nfrac d) in *.
  rewrite Ho.
  destruct (Z.ltb_spec 320 o); [lia|].
  destruct (Z.ltb_spec o 300); [reflexivity|].
  destruct (ndigits_spec (d_mant d) Hm) as (A & B & C).
  pose proof threshold_big as T.
  destruct (Z.leb_spec 0 e) as [He|He].
  - apply Z.leb_gt.
    assert (d_mant d * 10 ^ e < 10 ^ o).
    { subst o. rewrite Z.pow_add_r by lia. pose proof (pow10_pos e He). nia. }
    pose proof (pow10_mono o 301 ltac:(lia)). lia.
  - apply Z.leb_gt.
    assert (ndigits (d_mant d) <= 301 + - e) by lia.
    pose proof (pow10_mono (ndigits (d_mant d)) (301 + - e) ltac:(lia)) as P.
    rewrite Z.pow_add_r in P by lia. pose proof (pow10_pos (- e) ltac:(lia)). nia.
Qed.

Lemma dict_token_real bytes rest d :
  M_real_decode (bytes ++ rest) = Ok (d, rest) ->
  dict_token (30%N :: bytes ++ rest) = Ok (TVal (DReal d), rest).
Proof. intros H. unfold dict_token. cbn [N.eqb N.leb Pos.eqb N.compare Pos.compare Pos.compare_cont]. rewrite H. reflexivity. Qed.

(* the main lemma *)
Lemma real_roundtrip_gen r rest : real_ok r ->
  exists d, dict_token (30%N :: M_real_encode r ++ rest) = Ok (TVal (DReal d), rest) /\
            real_of_decimal d = r.
Proof.
  intros [Hc Hr]. destruct (Z.eqb_spec (r_mant r) 0) as [H0|H0].
  - (* zero *)
    rewrite (canon_zero r Hc H0).
    exists {| d_neg := false; d_mant := 0; d_nfrac := 0; d_exp := 0 |}. split; [|reflexivity].
    apply dict_token_real. reflexivity.
  - destruct (canon_nonzero r Hc H0) as [Hm Hnd].
    unfold real_in_range in Hr. destruct (Z.eqb_spec (r_mant r) 0); [contradiction|]. cbn [orb] in Hr.
    apply andb_true_iff in Hr. destruct Hr as [Hlo Hhi]. apply Z.ltb_lt in Hlo.
    unfold M_real_encode.
    destruct (Z.leb_spec (r_mant r) 0); [lia|]. cbn [orb].
    destruct (Z.leb_spec (rmag r) (-300)); [lia|].
    destruct (digits_of_spec (r_mant r) Hm) as (Dd & Dv & Dne).
    set (ds := digits_of (r_mant r)) in *.
    destruct (real_layout_value (r_neg r) ds (r_exp r + Z.of_nat (length ds)) rest Dd Dne)
      as (cs & d & Hch & Hp & Hneg & Heq).
    replace (r_exp r + Z.of_nat (length ds) - Z.of_nat (length ds)) with (r_exp r) in Heq by lia.
    rewrite Dv in Heq.
    assert (Hm1 : 0 < d_mant d).
    { unfold dec_equiv in Heq.
      set (a := d_exp d - d_nfrac d - Z.min (d_exp d - d_nfrac d) (r_exp r)) in *.
      set (b := r_exp r - Z.min (d_exp d - d_nfrac d) (r_exp r)) in *.
      pose proof (pow10_pos a ltac:(lia)). pose proof (pow10_pos b ltac:(lia)). nia. }
    destruct (dec_equiv_scaled _ _ _ _ Hm1 Hm Hnd Heq) as [Hle Hsc].
    set (e1 := d_exp d - d_nfrac d) in *.
    set (k := r_exp r - e1) in *.
    assert (Hmag : ndigits (d_mant d) + e1 = rmag r).
    { rewrite Hsc. rewrite ndigits_mul10 by lia. unfold rmag. lia. }
    assert (Hmag301 : rmag r <= 301).
    { apply orb_true_iff in Hhi. destruct Hhi as [Hhi|Hhi]; [lia|].
      apply andb_true_iff in Hhi. destruct Hhi as [A B].
      apply Z.eqb_eq in A. apply Z.eqb_eq in B. unfold rmag. rewrite A, B. vm_compute. discriminate. }
    exists d. split.
    + apply dict_token_real. unfold M_real_decode. rewrite Hch, Hp.
      rewrite (no_overflow d (rmag r) Hm1 Hmag Hmag301). reflexivity.
    + unfold real_of_decimal. fold e1.
      destruct (Z.leb_spec (d_mant d) 0); [lia|].
      rewrite Hmag.
      destruct (Z.leb_spec (rmag r) (-300)); [lia|].
      destruct (Z.leb_spec 301 (rmag r)) as [H301|H301].
      * apply orb_true_iff in Hhi. destruct Hhi as [Hhi|Hhi]; [lia|].
        apply andb_true_iff in Hhi. destruct Hhi as [A B].
        apply Z.eqb_eq in A. apply Z.eqb_eq in B.
        rewrite Hneg. destruct r as [ng m e]. cbn in *. subst. reflexivity.
      * rewrite Hsc, Hneg. replace e1 with (r_exp r - k) by lia.
        rewrite rnorm_scaled by lia. destruct r; reflexivity.
Qed.

(* ---------- integers as reals, dictNumber ---------- *)

Lemma real_of_Z_canon z : real_canon (real_of_Z z) = true.
Proof.
  unfold real_of_Z, rnorm. destruct (Z.leb_spec (Z.abs z) 0) as [Hz|Hz]; [reflexivity|].
  unfold strip_fuel.
  destruct (strip10_spec (S (Z.to_nat (Z.log2 (Z.abs z)))) (Z.abs z) 0 Hz (log2_fuel _ Hz))
    as (A & B & C & D).
  unfold real_canon. cbn [r_mant].
  destruct (Z.eqb_spec (fst (strip10 (S (Z.to_nat (Z.log2 (Z.abs z)))) (Z.abs z) 0)) 0); [lia|].
  apply andb_true_iff. split; [lia|].
  destruct (Z.eqb_spec (fst (strip10 (S (Z.to_nat (Z.log2 (Z.abs z)))) (Z.abs z) 0) mod 10) 0); [contradiction|reflexivity].
Qed.

(* a canonical integer-valued real: value = rscale r 0 *)
Lemma real_of_Z_rscale r : real_canon r = true -> 0 <= r_exp r -> real_of_Z (rscale r 0) = r.
Proof.
  intros Hc He. destruct (Z.eqb_spec (r_mant r) 0) as [H0|H0].
  - rewrite (canon_zero r Hc H0). reflexivity.
  - destruct (canon_nonzero r Hc H0) as [Hm Hnd].
    unfold rscale. rewrite Z.sub_0_r. pose proof (pow10_pos (r_exp r) He).
    unfold real_of_Z. destruct r as [ng m e]. cbn [r_neg r_mant r_exp] in *.
    destruct ng.
    + replace (-1 * m * 10 ^ e <? 0) with true by (symmetry; apply Z.ltb_lt; nia).
      replace (Z.abs (-1 * m * 10 ^ e)) with (m * 10 ^ e) by nia.
      pose proof (rnorm_scaled true m (e + e) e Hm Hnd He) as R.
      replace (e + e - e) with e in R by lia.
      assert (X : rnorm true (m * 10 ^ e) 0 = mkReal true m e).
      { pose proof (rnorm_scaled true m e e Hm Hnd He) as R2. rewrite Z.sub_diag in R2. exact R2. }
      exact X.
    + replace (1 * m * 10 ^ e <? 0) with false by (symmetry; apply Z.ltb_ge; nia).
      replace (Z.abs (1 * m * 10 ^ e)) with (m * 10 ^ e) by nia.
      pose proof (rnorm_scaled false m e e Hm Hnd He) as R2. rewrite Z.sub_diag in R2. exact R2.
Qed.

Lemma real_to_int32_spec r z : real_canon r = true -> real_to_int32 r = Some z ->
  -2147483648 <= z <= 2147483647 /\ real_of_Z z = r.
Proof.
  intros Hc. unfold real_to_int32.
  destruct (Z.eqb_spec (r_mant r) 0) as [H0|H0].
  - intros E. inversion E; subst. split; [lia|]. rewrite (canon_zero r Hc H0). reflexivity.
  - destruct (Z.ltb_spec (r_exp r) 0); [discriminate|].
    destruct (Z.ltb_spec 9 (r_exp r)); [discriminate|]. cbn [orb].
    destruct (Z.leb_spec (-2147483648) (rscale r 0)); [|discriminate].
    destruct (Z.leb_spec (rscale r 0) 2147483647); [|discriminate]. cbn [andb].
    intros E. inversion E; subst. split; [lia|]. apply real_of_Z_rscale; [exact Hc|lia].
Qed.
