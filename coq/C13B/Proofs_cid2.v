(* C13B/Proofs_cid2.v — CID-keyed fonts: Read of what Write wrote. *)
From Coq Require Import List NArith ZArith Bool Arith Lia Permutation.
From Coq Require Import ZifyBool ZifyNat ZifyN.
From Common Require Import Bytes Outcome.
From Gen Require Import C13 C13B.
From C13 Require Import Model Util ModelDict ModelTables ModelLayout
  Proofs_index Proofs_layout Proofs_charset Proofs_encoding Proofs_fdselect.
From C13B Require Import ModelNum ModelStr ModelCDict ModelFont Util Proofs_num Proofs_str Proofs_cdict
  Proofs_fields Proofs_write Proofs_read Proofs_simple Proofs_cid.
Import ListNotations.
Local Open Scope N_scope.

(* ---------- a Font DICT ---------- *)

Definition fd_src (a i : nat) (fm : list real) : cdict :=
  dput b_opPrivate [VLay (OSize (a + i)); VLay (OOffs (a + i))] (setFontMatrix b_opFontMatrix fm false []).

Lemma fd_src_nostr a i fm : nostr (fd_src a i fm).
Proof. apply Forall_dput; [reflexivity|apply setFontMatrix_nostr]. Qed.

Lemma fd_dict_decode lay strs a i fm :
  wf_table strs -> lenN strs < 65536 -> length fm = 6%nat -> Forall real_ok fm ->
  int32 (lay (OSize (a + i))) -> int32 (lay (OOffs (a + i))) ->
  exists rd, M_decodeDict strs (enc_entries lay (fd_dict a i fm)) = Ok rd /\
    getPair rd b_opPrivate = Some (lay (OSize (a + i)), lay (OOffs (a + i))) /\
    getFontMatrix rd b_opFontMatrix false = fm.
Proof.
  intros Hwf Hsz Hlen Hfm Hz Ho.
  assert (Hbase : good (src_entry_ok lay strs) 0 (setFontMatrix b_opFontMatrix fm false [])).
  { apply good_setFontMatrix; [apply good_nil|]. split; [op_legal_tac|]. cbn [fst snd].
    rewrite str_count_nostr by reflexivity. apply src_args_ok_reals. exact Hfm. }
  destruct Hbase as (Hnd & Hok & _).
  assert (Hnd' : NoDup (keys (fd_src a i fm))) by (apply nodup_dput; exact Hnd).
  assert (Hok' : Forall (src_entry_ok lay strs) (fd_src a i fm)).
  { apply Forall_dput; [|exact Hok]. split; [op_legal_tac|]. cbn [fst snd]. rewrite str_count_nostr by reflexivity.
    cbn. tauto. }
  assert (Hz0 : all_strs (sorted_entries (fd_src a i fm)) = []).
  { apply lenN_zero. fold (nstrs (sorted_entries (fd_src a i fm))). rewrite <- (nstrs_perm _ _ (sorted_perm _)).
    assert (nostr (fd_src a i fm)) by apply fd_src_nostr.
    clear -H. induction H as [|e d He Hd IH]; [reflexivity|]. rewrite nstrs_cons. unfold nostr_args in He. rewrite He. cbn [lenN]. lia. }
  assert (Hsm : small (strs ++ all_strs (sorted_entries (fd_src a i fm)))).
  { rewrite Hz0, app_nil_r. apply small_of_bound. exact Hsz. }
  destruct (dict_roundtrip_gen' lay strs _ Hwf Hnd' Hok' Hsm) as (_ & _ & _ & rd & Hrd & Hfind).
  unfold M_dict_encode in Hrd, Hfind. rewrite (intern_entries_nostr strs) in Hrd, Hfind.
  2,3: eapply nostr_perm; [apply sorted_perm|apply fd_src_nostr].
  cbn [fst snd] in Hrd, Hfind.
  exists rd. split.
  { unfold fd_dict. fold (fd_src a i fm). rewrite plain_entries_nostr by apply fd_src_nostr. exact Hrd. }
  split.
  - unfold getPair, dget. rewrite (Hfind b_opPrivate). unfold fd_src. rewrite assoc_dput, N.eqb_refl.
    cbn [option_map length]. rewrite str_count_nostr by reflexivity. reflexivity.
  - apply (get_matrix_field lay strs (fd_src a i fm) rd _ fm false Hfind); [reflexivity|exact Hlen|].
    unfold fd_src. assoc_simpl. destruct (reals_eqb fm rdefault_fm); reflexivity.
Qed.

(* ---------- the blobs of a CID-keyed font ---------- *)

Definition msec_entries (m : msec) : list entry := match m with MDict es => es | _ => [] end.

Lemma priv_blobs lay h f a b pb :
  Forall2 (fun s bl => sec_bytes lay h s = Ok bl) (priv_sections f a b) pb ->
  pb = map (fun m => enc_entries lay (msec_entries m)) (priv_sections f a b).
Proof.
  intros F. assert (Hall : Forall (fun m => exists es, m = MDict es) (priv_sections f a b)).
  { apply Forall_forall. intros m Hm. destruct (priv_sections_in f a b m Hm) as (i & p & _ & ->). eexists. reflexivity. }
  induction F as [|m bl l l' Hb F IH]; [reflexivity|].
  inversion Hall as [|? ? [es ->] Hall']; subst. cbn [sec_bytes] in Hb. inversion Hb; subst.
  cbn [map msec_entries]. f_equal. apply IH. exact Hall'.
Qed.

Lemma cid_blobs lay h f nameIdx topes strIdx charset fdsel csIdx blobs :
  Forall2 (fun s b => sec_bytes lay h s = Ok b) (cid_secs f nameIdx topes strIdx charset fdsel csIdx) blobs ->
  exists topIdx fdIdx,
    M_index_encode [enc_entries lay topes] = Ok topIdx /\
    M_index_encode (map (enc_entries lay) (fd_dicts f)) = Ok fdIdx /\
    blobs = [[1; 0; 4; h]; nameIdx; topIdx; strIdx; [0; 0]; charset; fdsel; csIdx; fdIdx] ++
            map (fun m => enc_entries lay (msec_entries m)) (priv_sections f 9 (9 + length (f_private f))) ++ [[0; 0]].
Proof.
  unfold cid_secs. intros F.
  apply Forall2_app_inv_l in F. destruct F as (b1 & b2 & F1 & F2 & ->).
  apply Forall2_app_inv_l in F2. destruct F2 as (pb & lastb & Fp & Fl & ->).
  rewrite (priv_blobs _ _ _ _ _ _ Fp).
  repeat match goal with
  | H : Forall2 _ (_ :: _) _ |- _ => inversion H; clear H; subst
  | H : Forall2 _ [] _ |- _ => inversion H; clear H; subst
  end.
  cbn [sec_bytes map] in *.
  repeat match goal with
  | H : Ok _ = Ok _ |- _ => inversion H; clear H; subst
  end.
  eexists. eexists. split; [eassumption|]. split; [eassumption|reflexivity].
Qed.

(* map_outcome with known results *)
Lemma map_outcome_Forall2 {A B} (f : A -> outcome B) l res :
  Forall2 (fun a b => f a = Ok b) l res -> map_outcome f l = Ok res.
Proof.
  induction 1 as [|a b l res H F IH]; [reflexivity|]. cbn [map_outcome]. rewrite H, IH. reflexivity.
Qed.

(* ---------- indexing the font dictionaries ---------- *)

Lemma combine_seq_map {A B} (g : nat -> A -> B) (l : list A) : forall s,
  map (fun x => g (fst x) (snd x)) (combine (seq s (length l)) l) =
  map (fun x => g (fst x) (snd x)) (combine (seq s (length l)) l).
Proof. reflexivity. Qed.

(* the triples (index, private dictionary, matrix) *)
Definition fdl (f : font) : list (nat * (privdict * list real)) :=
  combine (seq 0 (length (f_private f))) (combine (f_private f) (f_fontmatrices f)).

Lemma combine_combine_l {A B} (l : list A) (m : list B) : forall s, length l = length m ->
  map (fun x => (fst x, fst (snd x))) (combine (seq s (length l)) (combine l m)) = combine (seq s (length l)) l.
Proof.
  revert m. induction l as [|a l IH]; intros m s H; [reflexivity|].
  destruct m as [|b m]; [discriminate|]. cbn [length seq combine map fst snd]. f_equal. apply IH. cbn in H. lia.
Qed.

Lemma combine_combine_r {A B} (l : list A) (m : list B) : forall s, length l = length m ->
  map (fun x => (fst x, snd (snd x))) (combine (seq s (length l)) (combine l m)) = combine (seq s (length l)) m.
Proof.
  revert m. induction l as [|a l IH]; intros m s H; [destruct m; [reflexivity|discriminate]|].
  destruct m as [|b m]; [discriminate|]. cbn [length seq combine map fst snd]. f_equal. apply IH. cbn in H. lia.
Qed.

Lemma map_snd_combine_seq {A} (l : list A) s : map snd (combine (seq s (length l)) l) = l.
Proof. revert s. induction l as [|a l IH]; intros s; [reflexivity|]. cbn [length seq combine map snd]. f_equal. apply IH. Qed.

Lemma fd_dicts_fdl f : length (f_private f) = length (f_fontmatrices f) ->
  fd_dicts f = map (fun x => fd_dict 9 (fst x) (snd (snd x))) (fdl f).
Proof.
  intros H. unfold fd_dicts, fdl. rewrite <- (combine_combine_r (f_private f) (f_fontmatrices f) 0 H).
  rewrite map_map. reflexivity.
Qed.

Lemma priv_sections_fdl f a b : length (f_private f) = length (f_fontmatrices f) ->
  priv_sections f a b = map (fun x => priv_sec f a b (fst x) (fst (snd x))) (fdl f).
Proof.
  intros H. rewrite priv_sections_eq. unfold fdl. rewrite <- (combine_combine_l (f_private f) (f_fontmatrices f) 0 H).
  rewrite map_map. reflexivity.
Qed.

Lemma fdl_privs f : length (f_private f) = length (f_fontmatrices f) -> map (fun x => fst (snd x)) (fdl f) = f_private f.
Proof.
  intros H. pose proof (combine_combine_l (f_private f) (f_fontmatrices f) 0 H) as E.
  apply (f_equal (map snd)) in E. rewrite map_map in E. cbn [snd] in E. rewrite map_snd_combine_seq in E. exact E.
Qed.

Lemma fdl_fms f : length (f_private f) = length (f_fontmatrices f) -> map (fun x => snd (snd x)) (fdl f) = f_fontmatrices f.
Proof.
  intros H. pose proof (combine_combine_r (f_private f) (f_fontmatrices f) 0 H) as E.
  apply (f_equal (map snd)) in E. rewrite map_map in E. cbn [snd] in E. rewrite H in E at 2.
  rewrite map_snd_combine_seq in E. exact E.
Qed.

Lemma fdl_in f x : length (f_private f) = length (f_fontmatrices f) -> In x (fdl f) ->
  (fst x < length (f_private f))%nat /\ nth_error (f_private f) (fst x) = Some (fst (snd x)) /\
  nth_error (f_fontmatrices f) (fst x) = Some (snd (snd x)) /\
  nth_error (fdl f) (fst x) = Some x.
Proof.
  intros H Hin. unfold fdl in *. apply In_nth_error in Hin. destruct Hin as [k Hk].
  assert (Hlen : length (combine (f_private f) (f_fontmatrices f)) = length (f_private f)) by (rewrite combine_length; lia).
  assert (Hkl : (k < length (f_private f))%nat).
  { assert (nth_error (combine (seq 0 (length (f_private f))) (combine (f_private f) (f_fontmatrices f))) k <> None) by congruence.
    apply nth_error_Some in H0. rewrite combine_length, seq_length, Hlen in H0. lia. }
  destruct (nth_error (combine (f_private f) (f_fontmatrices f)) k) as [[p fm]|] eqn:Ec.
  2: { apply nth_error_None in Ec. lia. }
  rewrite <- Hlen in Hk at 1. rewrite (combine_seq_nth _ 0 k (p, fm) Ec) in Hk. inversion Hk; subst x. cbn [fst snd Nat.add].
  split; [exact Hkl|].
  assert (Hp : nth_error (f_private f) k = Some p /\ nth_error (f_fontmatrices f) k = Some fm).
  { clear -Ec. revert k Ec. generalize (f_fontmatrices f) as m. induction (f_private f) as [|a l IH]; intros m k Ec; [destruct k; discriminate|].
    destruct m as [|b m]; [destruct k; discriminate|]. destruct k as [|k]; cbn in *; [inversion Ec; auto|apply IH; exact Ec]. }
  split; [exact (proj1 Hp)|]. split; [exact (proj2 Hp)|].
  rewrite <- Hlen at 1. exact (combine_seq_nth _ 0 k (p, fm) Ec).
Qed.

(* ---------- the Top DICT of a CID-keyed font ---------- *)

Lemma c_top7_assoc f reg ord sup :
  let d := c_top7 f reg ord sup in
  assoc b_opCharStrings d = Some [VLay (OOffs 7)] /\
  assoc b_opCharset d = Some [VLay (OOffs 5)] /\
  assoc b_opFDArray d = Some [VLay (OOffs 8)] /\
  assoc b_opFDSelect d = Some [VLay (OOffs 6)] /\
  assoc b_opROS d = Some [VInt (fst (ss_lookup [] reg)); VInt (fst (ss_lookup (snd (ss_lookup [] reg)) ord)); VInt sup] /\
  assoc b_opCharstringType d = None /\
  (forall op, In op info_ops -> assoc op d = assoc op (M_topdict_base (f_info f) true)).
Proof.
  cbv zeta. unfold c_top7. cbv zeta.
  repeat match goal with |- _ /\ _ => split end.
  - assoc_simpl. reflexivity.
  - assoc_simpl. reflexivity.
  - assoc_simpl. reflexivity.
  - assoc_simpl. reflexivity.
  - assoc_simpl. reflexivity.
  - assoc_simpl. unfold M_makeTopDict. assoc_simpl. reflexivity.
  - intros op Hin. cbn [info_ops In] in Hin. unfold M_topdict_base.
    repeat (destruct Hin as [<-|Hin]; [assoc_simpl; reflexivity|]). destruct Hin.
Qed.

Lemma makeTopDict_entries_ok lay data0 fi : fi_ok fi -> Forall (src_entry_ok lay data0) (M_makeTopDict fi).
Proof.
  intros (Hang & Hup & Hut & Hlen & Hfm).
  assert (G : good (src_entry_ok lay data0) 6 (M_makeTopDict fi)).
  { unfold M_makeTopDict.
    destruct (dict_number_ok lay _ Hup) as [U1 U2]. destruct (dict_number_ok lay _ Hut) as [T1 T2].
    apply good_if2; [|exact T2|intros _; split; [op_legal_tac|cbn [fst snd]; rewrite str_count_nostr by reflexivity; cbn; split; [exact T1|exact I]]].
    apply good_if2; [|exact U2|intros _; split; [op_legal_tac|cbn [fst snd]; rewrite str_count_nostr by reflexivity; cbn; split; [exact U1|exact I]]].
    apply good_if2; [|reflexivity|intros _; split; [op_legal_tac|cbn [fst snd]; rewrite str_count_nostr by reflexivity; cbn; split; [exact Hang|exact I]]].
    apply good_if1; [|reflexivity|intros _; split; [op_legal_tac|cbn [fst snd]; rewrite str_count_nostr by reflexivity; cbn; split; [unfold int32; lia|exact I]]].
    change 6 with (0 + 1 + 1 + 1 + 1 + 1 + 1).
    repeat (apply good_put_str; [|intros _; split; [op_legal_tac|cbn; tauto]]).
    apply good_nil. }
  exact (proj1 (proj2 G)).
Qed.

Lemma c_top7_entries_ok f reg ord sup lay :
  fi_ok (f_info f) -> int32 sup -> lenN (f_glyphs f) < 65536 ->
  int32 (lay (OOffs 5)) -> int32 (lay (OOffs 6)) -> int32 (lay (OOffs 7)) -> int32 (lay (OOffs 8)) ->
  Forall (src_entry_ok lay (c_data1 reg ord)) (c_top7 f reg ord sup).
Proof.
  intros Hfi Hsup Hn H5 H6 H7 H8. pose proof Hfi as (_ & _ & _ & Hlen & Hfm).
  destruct (c_data1_props reg ord) as (_ & _ & Sr & So).
  assert (Hone : forall op o, op_legal op -> op_is_string op = false -> int32 (lay o) ->
                 src_entry_ok lay (c_data1 reg ord) (op, [VLay o])).
  { intros op o A B C. split; [exact A|]. cbn [fst snd]. rewrite str_count_nostr by exact B. cbn. split; [exact C|exact I]. }
  unfold c_top7. cbv zeta.
  apply Forall_dput; [apply Hone; [op_legal_tac|reflexivity|exact H8]|].
  apply Forall_dput; [apply Hone; [op_legal_tac|reflexivity|exact H6]|].
  apply Forall_dput; [apply Hone; [op_legal_tac|reflexivity|exact H7]|].
  apply Forall_dput; [apply Hone; [op_legal_tac|reflexivity|exact H5]|].
  assert (Hbase : Forall (src_entry_ok lay (c_data1 reg ord))
            (dput b_opCIDCount [VInt (Z.of_N (lenN (f_glyphs f) mod 65536))]
               (dput b_opROS [VInt (fst (ss_lookup [] reg)); VInt (fst (ss_lookup (snd (ss_lookup [] reg)) ord)); VInt sup]
                  (M_makeTopDict (f_info f))))).
  { apply Forall_dput.
    { split; [op_legal_tac|]. cbn [fst snd]. rewrite str_count_nostr by reflexivity. cbn. split; [|exact I].
      unfold int32. rewrite N.mod_small by exact Hn. lia. }
    apply Forall_dput; [|apply makeTopDict_entries_ok; exact Hfi].
    split; [op_legal_tac|]. cbn [fst snd]. change (str_count b_opROS 3) with 2%nat.
    cbn [src_args_ok src_val_ok pred]. split; [exists reg; exact Sr|]. split; [exists ord; exact So|]. split; [exact Hsup|exact I]. }
  unfold setFontMatrix. destruct (reals_eqb _ _); [exact Hbase|].
  apply Forall_dput; [|exact Hbase]. split; [op_legal_tac|]. cbn [fst snd]. rewrite str_count_nostr by reflexivity.
  apply src_args_ok_reals. exact Hfm.
Qed.

(* ---------- the round trip ---------- *)

Definition font_ok_cid (f : font) (reg ord : str) (sup : Z) : Prop :=
  f_ros f = Some (reg, ord, sup) /\ int32 sup /\
  lenN (f_glyphs f) < 65536 /\
  fi_ok (f_info f) /\
  (1 <= length (f_private f) <= 256)%nat /\ Forall pd_ok (f_private f) /\
  length (f_private f) = length (f_fontmatrices f) /\
  Forall (fun fm => length fm = 6%nat /\ Forall real_ok fm) (f_fontmatrices f) /\
  int32 (f_defw f) /\ int32 (f_nomw f) /\
  length (f_fdselect f) = length (f_glyphs f) /\
  Forall (fun fd => fd < N.of_nat (length (f_private f))) (f_fdselect f) /\
  length (f_gid2cid f) = length (f_glyphs f).

Definition font_nf_cid (f : font) (reg ord : str) (sup : Z) : rfont :=
  {| rf_info := fi_nf (f_info f);
     rf_ros := Some (reg, ord, sup);
     rf_glyphs := combine (repeat [] (N.to_nat (lenN (f_glyphs f)))) (map snd (f_glyphs f));
     rf_gsubrs := [];
     rf_private := map (fun p => {| rp_dict := pd_nf p; rp_subrs := [];
                                    rp_defw := real_of_Z (f_defw f); rp_nomw := real_of_Z (f_nomw f) |}) (f_private f);
     rf_fdselect := f_fdselect f;
     rf_encoding := [];
     rf_gid2cid := f_gid2cid f;
     rf_fontmatrices := f_fontmatrices f |}.

Lemma Forall2_map_same {A B C} (f : B -> outcome C) (g : A -> B) (r : A -> C) l :
  Forall (fun x => f (g x) = Ok (r x)) l -> Forall2 (fun a b => f a = Ok b) (map g l) (map r l).
Proof. induction 1; cbn [map]; constructor; auto. Qed.

Lemma map_ZofN_inj l l' : map Z.of_N l = map Z.of_N l' -> l = l'.
Proof.
  revert l'. induction l as [|x l IH]; intros [|y l'] H; try discriminate; [reflexivity|].
  cbn [map] in H. injection H as Hx Hl. f_equal; [lia|apply IH; exact Hl].
Qed.

Lemma firstn_sum_step (b : list N) : forall (bl : list (list N)) a c, nth_error bl a = Some b -> (a < c)%nat ->
  sumN (firstn a (map lenN bl)) + lenN b <= sumN (firstn c (map lenN bl)).
Proof.
  induction bl as [|x bl IH]; intros a c Ha Hac; [destruct a; discriminate|].
  destruct c as [|c]; [lia|]. destruct a as [|a]; cbn [nth_error map firstn sumN] in *.
  - inversion Ha; subst. lia.
  - specialize (IH a c Ha ltac:(lia)). lia.
Qed.

Section CidMain.
Variable std_code exp_code : str -> option N.

Lemma cid_roundtrip_gen f bytes reg ord sup :
  font_ok_cid f reg ord sup -> write_size_ok std_code exp_code f ->
  M_write std_code exp_code f = Ok bytes ->
  M_read std_code exp_code bytes = Ok (font_nf_cid f reg ord sup).
Proof.
  intros Hok Hsize Hw.
  pose proof Hok as (Hros & Hsup & Hn & Hfi & Hnp & Hpds & Hlfm & Hfms & Hdw & Hnw & Hlfd & Hfds & Hlcid).
  set (n := length (f_private f)) in *.
  unfold M_write in Hw.
  destruct (M_write_sections std_code exp_code f) as [secs| | |] eqn:Esecs; cbn [obind] in Hw; try discriminate.
  destruct (sections_cid_inv std_code exp_code f secs reg ord sup Hros Esecs)
    as (nameIdx & charset & csIdx & strIdx & Hne & Enam & Echar & Ecs & _ & Estr & Hsecs).
  assert (Hmod : lenN (f_glyphs f) mod 65536 = lenN (f_glyphs f)) by (apply N.mod_small; exact Hn).
  rewrite Hmod in Hsecs.
  assert (Hfdall : firstn (N.to_nat (lenN (f_glyphs f))) (f_fdselect f) = f_fdselect f).
  { apply firstn_all2. rewrite lenN_length, Nat2N.id. lia. }
  rewrite Hfdall in Hsecs.
  set (topes := fst (c_pt f reg ord sup)) in *. set (fdsel := M_fdselect_encode (f_fdselect f)) in *.
  assert (Hwf : Forall (wf (map abs_sec secs)) (all_ops (map abs_sec secs))).
  { exact (write_layout_wf_cid std_code exp_code f secs reg ord sup Hros Esecs). }
  destruct (write_facts_of secs bytes Hwf (Hsize secs Esecs) Hw) as (w & Ews & Ewb & Hfacts).
  pose proof Hfacts as (Hb & Hf & Hs & Hsum & Hoffs & Hsz).
  rewrite Ews, Hsecs in Hf.
  destruct (cid_blobs _ _ f nameIdx topes strIdx charset fdsel csIdx _ Hf) as (topIdx & fdIdx & Etop & Efd & Hblobs).
  fold n in Hblobs. set (lay := w_lay w) in *.
  assert (Hlen : length (w_secs w) = (10 + n)%nat) by (rewrite Ews, Hsecs; apply cid_secs_length).
  (* values of the layout operands *)
  assert (Hoff : forall j, (j < 10 + n)%nat -> lay (OOffs j) = Z.of_N (sumN (firstn j (w_sizes w))) /\ (0 <= lay (OOffs j) < 2147483648)%Z).
  { intros j Hj. exact (lay_offs w j Hfacts ltac:(lia)). }
  destruct (Hoff 5%nat ltac:(lia)) as [E5 R5]. destruct (Hoff 6%nat ltac:(lia)) as [E6 R6].
  destruct (Hoff 7%nat ltac:(lia)) as [E7 R7]. destruct (Hoff 8%nat ltac:(lia)) as [E8 R8].
  destruct (Hoff (9 + n)%nat ltac:(lia)) as [E9n R9n].
  (* the Top DICT *)
  destruct (c_data1_props reg ord) as (Wd & Ld & Sr & So).
  destruct (c_top7_small f reg ord sup) as [Hnd7 Hsm7].
  assert (Hok7 : Forall (src_entry_ok lay (c_data1 reg ord)) (c_top7 f reg ord sup)).
  { apply c_top7_entries_ok; try assumption; unfold int32; lia. }
  destruct (dict_roundtrip_gen' lay (c_data1 reg ord) (c_top7 f reg ord sup) Wd Hnd7 Hok7 Hsm7)
    as (W' & Ext' & L' & rd & Hrd & Hfind).
  change (fst (M_dict_encode lay (c_data1 reg ord) (c_top7 f reg ord sup))) with (enc_entries lay topes) in *.
  change (snd (M_dict_encode lay (c_data1 reg ord) (c_top7 f reg ord sup))) with (snd (c_pt f reg ord sup)) in *.
  set (strs := snd (c_pt f reg ord sup)) in *.
  assert (Hstrs : lenN strs < 65536) by exact (index_count_of_ok _ _ Estr).
  assert (Hsmall_strs : small strs) by (apply small_of_bound; exact Hstrs).
  (* the bytes *)
  set (h := hdr_offsize _ (w_offs w)) in Hblobs.
  assert (Hh : h <= 4) by apply offs_size_le4.
  set (PB := map (fun m => enc_entries lay (msec_entries m)) (priv_sections f 9 (9 + n))) in *.
  assert (Hbytes : bytes = [1; 0; 4; h] ++ nameIdx ++ topIdx ++ strIdx ++ [0; 0] ++ charset ++ fdsel ++ csIdx ++ fdIdx ++ concat PB ++ [0; 0]).
  { rewrite <- Ewb, Hb, Hblobs. cbn [concat app]. rewrite concat_app. cbn [concat]. rewrite ?app_nil_r, <- ?app_assoc. reflexivity. }
  assert (Hn5 : nth_error (w_blobs w) 5 = Some charset) by (rewrite Hblobs; reflexivity).
  assert (Hn6 : nth_error (w_blobs w) 6 = Some fdsel) by (rewrite Hblobs; reflexivity).
  assert (Hn7 : nth_error (w_blobs w) 7 = Some csIdx) by (rewrite Hblobs; reflexivity).
  assert (Hn8 : nth_error (w_blobs w) 8 = Some fdIdx) by (rewrite Hblobs; reflexivity).
  assert (HPBlen : length PB = n) by (subst PB; rewrite map_length; apply priv_sections_length).
  assert (Hn9n : nth_error (w_blobs w) (9 + n) = Some [0; 0]).
  { rewrite Hblobs. rewrite nth_error_app2 by (cbn [length]; lia). cbn [length].
    replace (9 + n - 9)%nat with n by lia. rewrite nth_error_app2 by lia. rewrite HPBlen, Nat.sub_diag. reflexivity. }
  destruct (section_at w 5 charset Hfacts Hn5 ltac:(lia)) as (_ & P5 & _).
  destruct (section_at w 6 fdsel Hfacts Hn6 ltac:(lia)) as (_ & P6 & _).
  destruct (section_at w 7 csIdx Hfacts Hn7 ltac:(lia)) as (_ & P7 & _).
  destruct (section_at w 8 fdIdx Hfacts Hn8 ltac:(lia)) as (_ & P8 & _).
  destruct (section_at w (9 + n) [0; 0] Hfacts Hn9n ltac:(lia)) as (_ & P9n & _).
  change (nth_offs (w_offs w) 5) with (lay (OOffs 5)) in P5.
  change (nth_offs (w_offs w) 6) with (lay (OOffs 6)) in P6.
  change (nth_offs (w_offs w) 7) with (lay (OOffs 7)) in P7.
  change (nth_offs (w_offs w) 8) with (lay (OOffs 8)) in P8.
  change (nth_offs (w_offs w) (9 + n)) with (lay (OOffs (9 + n))) in P9n.
  assert (Hs0 : exists rest, w_sizes w = 4 :: rest).
  { rewrite <- Hs, Hblobs. cbn [app map lenN]. eexists. reflexivity. }
  destruct Hs0 as [srest Hs0].
  assert (Hge4 : forall j, (0 < j)%nat -> 4 <= sumN (firstn j (w_sizes w))).
  { intros j Hj. rewrite Hs0. destruct j; [lia|]. cbn [firstn sumN]. lia. }
  pose proof (Hge4 5%nat ltac:(lia)) as G5. pose proof (Hge4 6%nat ltac:(lia)) as G6.
  pose proof (Hge4 7%nat ltac:(lia)) as G7. pose proof (Hge4 8%nat ltac:(lia)) as G8.
  (* Read *)
  rewrite Hbytes in *. clear Hbytes. cbn [app] in P5, P6, P7, P8, P9n, Ewb |- *.
  unfold M_read.
  set (rest0 := nameIdx ++ topIdx ++ strIdx ++ 0 :: 0 :: charset ++ fdsel ++ csIdx ++ fdIdx ++ concat PB ++ [0; 0]) in *.
  set (data := 1 :: 0 :: 4 :: h :: rest0) in *.
  set (size := lenN data).
  cbn [N.eqb Pos.eqb negb orb N.ltb N.compare Pos.compare Pos.compare_cont].
  destruct (N.ltb_spec 4 h) as [Hx|_]; [lia|].
  assert (Hsize4 : size = 4 + (lenN nameIdx + (lenN topIdx + (lenN strIdx + (2 + (lenN charset + (lenN fdsel + (lenN csIdx + (lenN fdIdx + (lenN (concat PB) + 2)))))))))).
  { subst size data rest0. cbn [lenN]. rewrite !lenN_app. cbn [lenN]. rewrite !lenN_app. cbn [lenN]. lia. }
  assert (Hd4 : dropN data 4 = rest0) by (unfold data; cbn [dropN N.eqb N.pred Pos.pred_N Pos.pred_double]; apply dropN_zero).
  rewrite Hd4. unfold rest0 at 1.
  rewrite (index_rt_of_ok _ _ Enam size _ ltac:(lia)). cbn [obind fst snd].
  change (lenN [fi_FontName (f_info f)]) with 1. cbn [N.eqb N.ltb N.compare Pos.compare].
  rewrite (index_rt_of_ok _ _ Etop size _ ltac:(lia)). cbn [obind fst snd].
  change (lenN [enc_entries lay topes]) with 1. cbn [N.eqb Pos.eqb negb].
  unfold ss_encode in Estr. fold strs in Estr.
  rewrite (index_rt_of_ok _ _ Estr size _ ltac:(lia)). cbn [obind fst snd hd].
  rewrite Hrd. cbn [obind].
  destruct (c_top7_assoc f reg ord sup) as (Acs & Acharset & Afda & Afds & Aros & Acst & Ainfo).
  assert (Gcst : getInt rd b_opCharstringType 2 = 2%Z).
  { unfold getInt, dget. rewrite (Hfind b_opCharstringType), Acst. reflexivity. }
  rewrite Gcst. cbn [Z.eqb Pos.eqb negb].
  change (0 :: 0 :: charset ++ fdsel ++ csIdx ++ fdIdx ++ concat PB ++ [0; 0]) with ([0; 0] ++ charset ++ fdsel ++ csIdx ++ fdIdx ++ concat PB ++ [0; 0]).
  rewrite (index_rt_of_ok [] [0; 0] empty_index size _ ltac:(cbn [lenN]; lia)).
  cbn [obind fst snd].
  assert (Gcs : getInt rd b_opCharStrings 0 = lay (OOffs 7)).
  { unfold getInt, dget. rewrite (Hfind b_opCharStrings), Acs. reflexivity. }
  rewrite Gcs. unfold read_index_at at 1.
  destruct (Z.ltb_spec (lay (OOffs 7)) 4) as [Hx|_]; [lia|].
  rewrite Ewb in P5, P6, P7, P8, P9n.
  rewrite P7. fold size. rewrite (index_rt_of_ok _ _ Ecs size _ ltac:(lia)). cbn [obind fst snd].
  change (1 <? 1) with false. cbn iota. rewrite lenN_map.
  destruct (N.eqb_spec (lenN (f_glyphs f)) 0) as [Hx|_]; [exfalso; apply Hne; apply lenN_zero; exact Hx|].
  (* the CID branch *)
  assert (Gros : dfind b_opROS rd = Some [RStr reg; RStr ord; RInt sup]).
  { rewrite (Hfind b_opROS), Aros. cbn [option_map length]. change (str_count b_opROS 3) with 2%nat.
    cbn [src_rvs src_rv rv_of pred].
    rewrite (sid_spec_get strs reg _ Hsmall_strs (sid_spec_extends _ _ _ _ Ext' W' Sr)).
    rewrite (sid_spec_get strs ord _ Hsmall_strs (sid_spec_extends _ _ _ _ Ext' W' So)). reflexivity. }
  assert (Gdget : dget rd b_opROS = [RStr reg; RStr ord; RInt sup]) by (unfold dget; rewrite Gros; reflexivity).
  rewrite Gros, Gdget.
  assert (Gfda : getInt rd b_opFDArray 0 = lay (OOffs 8)).
  { unfold getInt, dget. rewrite (Hfind b_opFDArray), Afda. reflexivity. }
  rewrite Gfda. unfold read_index_at at 1.
  destruct (Z.ltb_spec (lay (OOffs 8)) 4) as [Hx|_]; [lia|].
  rewrite P8. fold size. rewrite (index_rt_of_ok _ _ Efd size _ ltac:(lia)). cbn [obind fst snd].
  assert (Hfdlen : lenN (map (enc_entries lay) (fd_dicts f)) = N.of_nat n).
  { rewrite lenN_map, lenN_length. unfold fd_dicts. rewrite map_length, combine_length, seq_length. fold n. lia. }
  rewrite Hfdlen.
  destruct (N.ltb_spec 256 (N.of_nat n)) as [Hx|_]; [lia|].
  destruct (N.eqb_spec (N.of_nat n) 0) as [Hx|_]; [lia|].
  (* every Font DICT with its Private DICT *)
  set (dw := real_of_Z (f_defw f)). set (nw := real_of_Z (f_nomw f)).
  set (res := fun x : nat * (privdict * list real) =>
         ({| rp_dict := pd_nf (fst (snd x)); rp_subrs := []; rp_defw := dw; rp_nomw := nw |}, snd (snd x))).
  assert (Hfdres : Forall (fun x =>
            (fd <- M_decodeDict strs (enc_entries lay (fd_dict 9 (fst x) (snd (snd x)))) ;;
             pi <- M_readPrivate data strs fd ;;
             Ok (pi, getFontMatrix fd b_opFontMatrix false)) = Ok (res x)) (fdl f)).
  { apply Forall_forall. intros [i [p fm]] Hin.
    destruct (fdl_in f _ Hlfm Hin) as (Hi & Hp & Hfm & _). cbn [fst snd] in *. fold n in Hi.
    assert (Hfmok : length fm = 6%nat /\ Forall real_ok fm).
    { rewrite Forall_forall in Hfms. apply Hfms. apply nth_error_In with i. exact Hfm. }
    assert (Hpok : pd_ok p).
    { rewrite Forall_forall in Hpds. apply Hpds. apply nth_error_In with i. exact Hp. }
    set (privb := enc_entries lay (plain_entries (priv_dict p (f_defw f) (f_nomw f) (ODiff (9 + n) (9 + i))))).
    assert (Hnb : nth_error (w_blobs w) (9 + i) = Some privb).
    { rewrite Hblobs. rewrite nth_error_app2 by (cbn [length]; lia). cbn [length].
      replace (9 + i - 9)%nat with i by lia. rewrite nth_error_app1 by lia.
      subst PB. rewrite nth_error_map, (priv_sections_nth f 9 (9 + n) i p Hp). reflexivity. }
    destruct (section_at w (9 + i) privb Hfacts Hnb ltac:(lia)) as (_ & Pi & Qi).
    change (nth_offs (w_offs w) (9 + i)) with (lay (OOffs (9 + i))) in Pi, Qi. rewrite Ewb in Pi, Qi.
    destruct (Hoff (9 + i)%nat ltac:(lia)) as [Ei Ri].
    pose proof (nth_cid_priv f nameIdx topes strIdx charset fdsel csIdx i p Hp) as Hsec. fold n in Hsec.
    rewrite <- Hsecs, <- Ews in Hsec.
    assert (Hsecwf : Forall (wf0 (map abs_sec (w_secs w)))
              (d_ops (abs_entries (plain_entries (priv_dict p (f_defw f) (f_nomw f) (ODiff (9 + n) (9 + i))))))).
    { apply Forall_forall. intros o Ho. rewrite abs_entries_ops in Ho. rewrite (priv_sec_ops f 9 _ i p o Ho).
      cbn [wf0]. rewrite map_length, Hlen. lia. }
    destruct (lay_size w (9 + i) _ Hfacts Hsec Hsecwf) as [Ezi Rzi]. fold lay in Ezi, Rzi.
    rewrite <- Hs, (nth_map_lenN _ _ _ Hnb) in Ezi.
    destruct (lay_diff w (9 + n) (9 + i) Hfacts ltac:(lia) ltac:(lia)) as [Edi Rdi]. fold lay in Edi, Rdi.
    assert (Hppos : 1 <= lenN privb).
    { subst privb. rewrite plain_entries_nostr by apply priv_dict_nostr.
      apply enc_entries_in with (b_opSubrs, [VLay (ODiff (9 + n) (9 + i))]).
      eapply Permutation_in; [apply sorted_perm|]. apply assoc_some_in. unfold priv_dict. rewrite assoc_dput, N.eqb_refl. reflexivity. }
    assert (Hmono : (lay (OOffs (9 + i)) + Z.of_N (lenN privb) <= lay (OOffs (9 + n)))%Z).
    { rewrite Ei, E9n. rewrite <- Hs.
      pose proof (firstn_sum_step privb (w_blobs w) (9 + i) (9 + n) Hnb ltac:(lia)). lia. }
    destruct (fd_dict_decode lay strs 9 i fm W' Hstrs (proj1 Hfmok) (proj2 Hfmok)
                ltac:(unfold int32; lia) ltac:(unfold int32; lia)) as (rdi & Hdi & Gpi & Gfi).
    rewrite Hdi. cbn [obind]. rewrite Ezi in Gpi.
    pose proof (Hge4 (9 + i)%nat ltac:(lia)) as G9i.
    rewrite (readPrivate_written lay data strs rdi p (f_defw f) (f_nomw f) (ODiff (9 + n) (9 + i)) privb _ _
               W' Hstrs Hpok Hdw Hnw eq_refl (lay (OOffs (9 + i))) Gpi ltac:(lia) ltac:(lia) ltac:(lia) Qi Pi
               ltac:(rewrite Edi; replace (lay (OOffs (9 + i)) + (lay (OOffs (9 + n)) - lay (OOffs (9 + i))))%Z with (lay (OOffs (9 + n))) by lia; exact P9n)).
    cbn [obind]. rewrite Gfi. reflexivity. }
  rewrite (fd_dicts_fdl f Hlfm), map_map.
  rewrite (map_outcome_Forall2 _ _ (map res (fdl f))).
  2: { apply (Forall2_map_same _ (fun x => enc_entries lay (fd_dict 9 (fst x) (snd (snd x)))) res). exact Hfdres. }
  cbn [obind].
  (* FDSelect *)
  assert (Gfds : getInt rd b_opFDSelect 0 = lay (OOffs 6)).
  { unfold getInt, dget. rewrite (Hfind b_opFDSelect), Afds. reflexivity. }
  rewrite Gfds. destruct (Z.ltb_spec (lay (OOffs 6)) 4) as [Hx|_]; [lia|]. rewrite P6.
  assert (Hreslen : lenN (map res (fdl f)) = N.of_nat n).
  { rewrite lenN_map, lenN_length. unfold fdl. rewrite combine_length, seq_length, combine_length. fold n. lia. }
  rewrite Hreslen.
  assert (Hgl : lenN (f_glyphs f) = lenN (f_fdselect f)) by (rewrite !lenN_length; lia).
  rewrite Hgl. subst fdsel.
  rewrite (fdselect_roundtrip_gen (f_fdselect f) (N.of_nat n) _
             ltac:(eapply Forall_impl; [|exact Hfds]; intros a Ha; cbn beta in Ha; fold n in Ha; lia) Hfds
             ltac:(rewrite <- Hgl; exact Hn)).
  cbn [obind fst].
  (* charset *)
  assert (Gchar : getInt rd b_opCharset 0 = lay (OOffs 5)).
  { unfold getInt, dget. rewrite (Hfind b_opCharset), Acharset. reflexivity. }
  rewrite Gchar. unfold seek. destruct (Z.ltb_spec (lay (OOffs 5)) 0) as [Hx|_]; [lia|]. cbn [obind]. rewrite P5.
  destruct (charset_ok_form _ _ Echar) as (ns & Ecids & Hsmall).
  assert (Hcid : f_gid2cid f = 0 :: ns) by (apply map_ZofN_inj; exact Ecids).
  assert (Hlen_ns : length (f_glyphs f) = S (length ns)) by (rewrite <- Hlcid, Hcid; reflexivity).
  assert (Hns : lenN ns < 65535) by (rewrite (lenN_length ns); rewrite (lenN_length (f_glyphs f)) in Hn; lia).
  destruct (charset_roundtrip_gen ns Hsmall Hns) as (cs' & Ecs' & Hcsread).
  rewrite <- Ecids in Ecs'. rewrite Echar in Ecs'. injection Ecs' as <-.
  rewrite <- Hgl. replace (Z.of_N (lenN (f_glyphs f))) with (Z.of_nat (S (length ns))) by (rewrite lenN_length; lia).
  rewrite Hcsread. cbn [obind fst].
  (* the result *)
  unfold font_nf_cid. f_equal.
  assert (Hinfo : M_topdict_info (fi_FontName (f_info f)) rd true = fi_nf (f_info f)).
  { exact (topdict_info_extract lay strs (c_top7 f reg ord sup) rd (f_info f) true Hfind Ainfo Hfi). }
  rewrite Hinfo. f_equal.
  - rewrite map_map. unfold res. cbn [fst]. rewrite <- (fdl_privs f Hlfm). rewrite map_map. reflexivity.
  - rewrite map_map, Hcid. change (0 :: ns) with ([0] ++ ns). rewrite map_app. cbn [map app]. f_equal.
    clear. induction ns as [|x l IH]; [reflexivity|]. cbn [map]. rewrite N2Z.id, IH. reflexivity.
  - rewrite map_map. unfold res. cbn [snd]. exact (fdl_fms f Hlfm).
Qed.

End CidMain.
