(* C13B/Proofs_read.v — pieces of Read on what Write wrote: a Private DICT
   with its (empty) Subrs INDEX. *)
From Coq Require Import List NArith ZArith Bool Arith Lia Permutation.
From Coq Require Import ZifyBool ZifyNat ZifyN.
From Common Require Import Bytes Outcome.
From Gen Require Import C13 C13B.
From C13 Require Import Model Util ModelDict ModelTables ModelLayout Proofs_index Proofs_layout.
From C13B Require Import ModelNum ModelStr ModelCDict ModelFont Util Proofs_num Proofs_str Proofs_cdict
  Proofs_fields Proofs_write.
Import ListNotations.
Local Open Scope N_scope.

Definition nostr_args (args : list opv) : Prop := strs_of args = [].
Definition nostr (d : list entry) : Prop := Forall (fun e => nostr_args (snd e)) d.

Lemma intern_args_nostr data args : nostr_args args -> intern_args data args = (args, data).
Proof.
  unfold nostr_args, strs_of. induction args as [|v args IH]; intros H; [reflexivity|].
  cbn [map concat] in H. destruct v as [z|r|s|o]; cbn [app] in H; try discriminate;
    cbn [intern_args]; rewrite (IH H); reflexivity.
Qed.

Lemma intern_entries_nostr data es : nostr es -> intern_entries data es = (es, data).
Proof.
  induction 1 as [|[op args] es He Hes IH]; [reflexivity|].
  cbn [intern_entries]. cbn [snd] in He. rewrite (intern_args_nostr data args He). cbn [fst snd].
  rewrite IH. reflexivity.
Qed.

Lemma nostr_perm d d' : Permutation d d' -> nostr d -> nostr d'.
Proof. intros P H. unfold nostr in *. eapply Permutation_Forall; eassumption. Qed.

Lemma nstrs_zero_nostr d : nstrs d = 0 -> nostr d.
Proof.
  induction d as [|e d IH]; intros H; [constructor|].
  rewrite nstrs_cons in H. constructor; [apply lenN_zero; lia|apply IH; lia].
Qed.

Lemma plain_entries_nostr d : nostr d -> plain_entries d = sorted_entries d.
Proof.
  intros H. unfold plain_entries. rewrite intern_entries_nostr; [reflexivity|].
  eapply nostr_perm; [apply sorted_perm|exact H].
Qed.

Lemma privdict_nostr p dw nw : nostr (M_makePrivateDict p dw nw).
Proof.
  apply nstrs_zero_nostr.
  assert (G : good (fun _ => True) 0 (M_makePrivateDict p dw nw)).
  { unfold M_makePrivateDict.
    do 8 (first [apply good_if2; [|reflexivity|intros _; exact I] | apply good_if1; [|reflexivity|intros _; exact I]]).
    apply good_setDelta; [|intros _; exact I]. apply good_setDelta; [|intros _; exact I]. apply good_nil. }
  destruct G as (_ & _ & G). lia.
Qed.

(* the Private DICT of Write: makePrivateDict plus the Subrs operand *)
Definition priv_dict (p : privdict) (dw nw : Z) (o : operand) : cdict :=
  dput b_opSubrs [VLay o] (M_makePrivateDict p dw nw).

Lemma priv_dict_nostr p dw nw o : nostr (priv_dict p dw nw o).
Proof. apply Forall_dput; [reflexivity|apply privdict_nostr]. Qed.

(* decoding it against any string table *)
Lemma priv_dict_decode lay strs p dw nw o :
  wf_table strs -> lenN strs < 65536 -> pd_ok p -> int32 dw -> int32 nw -> int32 (lay o) ->
  exists rd, M_decodeDict strs (enc_entries lay (plain_entries (priv_dict p dw nw o))) = Ok rd /\
    M_private_info rd = pd_nf p /\
    getFloat rd b_opDefaultWidthX R0 = real_of_Z dw /\
    getFloat rd b_opNominalWidthX R0 = real_of_Z nw /\
    getInt rd b_opSubrs 0 = lay o.
Proof.
  intros Hwf Hsz Hp Hd Hn Ho.
  destruct (privdict_good lay strs p dw nw Hp Hd Hn) as (Hnd & Hok & Hns).
  assert (Hnd' : NoDup (keys (priv_dict p dw nw o))) by (apply nodup_dput; exact Hnd).
  assert (Hok' : Forall (src_entry_ok lay strs) (priv_dict p dw nw o)).
  { apply Forall_dput; [|exact Hok]. split; [op_legal_tac|]. cbn [fst snd]. rewrite str_count_nostr by reflexivity.
    cbn. split; [exact Ho|exact I]. }
  assert (Hz : all_strs (sorted_entries (priv_dict p dw nw o)) = []).
  { apply lenN_zero. fold (nstrs (sorted_entries (priv_dict p dw nw o))).
    rewrite <- (nstrs_perm _ _ (sorted_perm _)).
    pose proof (nstrs_dput0 b_opSubrs [VLay o] (M_makePrivateDict p dw nw) eq_refl). unfold priv_dict. lia. }
  assert (Hsm : small (strs ++ all_strs (sorted_entries (priv_dict p dw nw o)))).
  { rewrite Hz, app_nil_r. apply small_of_bound. exact Hsz. }
  destruct (dict_roundtrip_gen' lay strs _ Hwf Hnd' Hok' Hsm) as (W & _ & _ & rd & Hrd & Hfind).
  unfold M_dict_encode in Hrd, Hfind. rewrite (intern_entries_nostr strs) in Hrd, Hfind.
  2,3: eapply nostr_perm; [apply sorted_perm|apply priv_dict_nostr].
  cbn [fst snd] in Hrd, Hfind.
  exists rd. split; [rewrite plain_entries_nostr by apply priv_dict_nostr; exact Hrd|].
  assert (Hext := private_info_extract lay strs (priv_dict p dw nw o) rd p dw nw Hfind).
  destruct Hext as (A & B & C).
  { intros op Hin. unfold priv_dict. rewrite assoc_dput. cbn [priv_ops In] in Hin.
    repeat (destruct Hin as [<-|Hin]; [reflexivity|]). destruct Hin. }
  { exact Hp. }
  split; [exact A|]. split; [exact B|]. split; [exact C|].
  unfold getInt, dget. rewrite (Hfind b_opSubrs). unfold priv_dict. rewrite assoc_dput, N.eqb_refl. reflexivity.
Qed.

(* readPrivate on it *)
Lemma readPrivate_written lay data strs (rd : rdict) p dw nw o privb tail1 tail2 :
  wf_table strs -> lenN strs < 65536 -> pd_ok p -> int32 dw -> int32 nw ->
  privb = enc_entries lay (plain_entries (priv_dict p dw nw o)) ->
  forall pdOffs,
  getPair rd b_opPrivate = Some (Z.of_N (lenN privb), pdOffs) ->
  (4 <= pdOffs)%Z -> (0 < lay o)%Z -> (pdOffs + lay o < 2147483648)%Z ->
  (pdOffs + Z.of_N (lenN privb) <= Z.of_N (lenN data))%Z ->
  dropN data (Z.to_N pdOffs) = privb ++ tail1 ->
  dropN data (Z.to_N (pdOffs + lay o)) = [0; 0] ++ tail2 ->
  M_readPrivate data strs rd =
    Ok {| rp_dict := pd_nf p; rp_subrs := []; rp_defw := real_of_Z dw; rp_nomw := real_of_Z nw |}.
Proof.
  intros Hwf Hsz Hp Hd Hn Epriv pdOffs Hpair H4 Hpos Hlt Hfit Hat1 Hat2.
  destruct (priv_dict_decode lay strs p dw nw o Hwf Hsz Hp Hd Hn ltac:(unfold int32; lia)) as (pd & Hdec & A & B & C & D).
  unfold M_readPrivate. rewrite Hpair.
  destruct (Z.ltb_spec pdOffs 4); [lia|]. destruct (Z.ltb_spec (Z.of_N (lenN privb)) 0); [lia|]. cbn [orb].
  destruct (Z.ltb_spec (Z.of_N (lenN data)) (pdOffs + Z.of_N (lenN privb))); [lia|].
  rewrite Hat1, N2Z.id, takeN_app. rewrite Epriv, Hdec. cbn [obind]. rewrite D.
  destruct (Z.ltb_spec 0 (lay o)); [|lia].
  unfold read_index_at. rewrite wrap_small by lia.
  destruct (Z.ltb_spec (pdOffs + lay o) 4); [lia|].
  rewrite Hat2. cbn [app]. unfold M_index_read_fast, rd_u16. cbn [N.mul N.add N.eqb obind fst].
  rewrite A, B, C. reflexivity.
Qed.
