(* C13B/Proofs_str.v — the string table: SIDs handed out by lookup resolve
   to the same strings (also through the written String INDEX), equal
   strings get equal SIDs and different strings different ones. *)
From Coq Require Import List NArith ZArith Bool Arith Lia.
From Coq Require Import ZifyBool ZifyNat ZifyN.
From Common Require Import Bytes Outcome.
From Gen Require Import C13B.
From C13 Require Import Model Util ModelTables Proofs_index.
From C13B Require Import ModelStr.
Import ListNotations.
Local Open Scope N_scope.

Lemma str_eqb_refl s : str_eqb s s = true.
Proof. induction s as [|x s IH]; cbn [str_eqb]; [reflexivity|]. rewrite N.eqb_refl, IH. reflexivity. Qed.

Lemma str_eqb_eq a : forall b, str_eqb a b = true -> a = b.
Proof.
  induction a as [|x a IH]; intros [|y b]; cbn [str_eqb]; try discriminate; [reflexivity|].
  intros H. apply andb_true_iff in H. destruct H as [E1 E2].
  apply N.eqb_eq in E1. subst. f_equal. apply IH. exact E2.
Qed.

Lemma str_eqb_neq a b : a <> b -> str_eqb a b = false.
Proof. intros H. destruct (str_eqb a b) eqn:E; [|reflexivity]. apply str_eqb_eq in E. contradiction. Qed.

(* ---------- find_last ---------- *)

Lemma fl_app s a : forall b i acc,
  find_last_from s (a ++ b) i acc = find_last_from s b (i + lenN a) (find_last_from s a i acc).
Proof.
  induction a as [|x a IH]; intros b i acc; cbn [app find_last_from lenN].
  - rewrite N.add_0_r. reflexivity.
  - rewrite IH. f_equal. lia.
Qed.

Lemma find_last_snoc s l t :
  find_last s (l ++ [t]) = if str_eqb t s then Some (lenN l) else find_last s l.
Proof. unfold find_last. rewrite fl_app. cbn [find_last_from]. rewrite N.add_0_l. reflexivity. Qed.

Lemma nth_error_snoc_last {A} (l : list A) x : nth_error (l ++ [x]) (length l) = Some x.
Proof. rewrite nth_error_app2 by lia. rewrite Nat.sub_diag. reflexivity. Qed.

Lemma find_last_some s l : forall k, find_last s l = Some k ->
  k < lenN l /\ nth_error l (N.to_nat k) = Some s.
Proof.
  induction l as [|t l IH] using rev_ind; intros k.
  - cbn. discriminate.
  - rewrite find_last_snoc, lenN_app. cbn [lenN].
    destruct (str_eqb t s) eqn:E.
    + intros H. inversion H; subst. apply str_eqb_eq in E. subst. split; [lia|].
      rewrite lenN_length, Nat2N.id. apply nth_error_snoc_last.
    + intros H. destruct (IH k H) as [A B]. split; [lia|].
      rewrite nth_error_app1; [exact B|]. rewrite lenN_length in A. lia.
Qed.

Lemma find_last_none s l : find_last s l = None -> ~ In s l.
Proof.
  induction l as [|t l IH] using rev_ind.
  - intros _ [].
  - rewrite find_last_snoc. destruct (str_eqb t s) eqn:E; [discriminate|].
    intros H Hin. apply in_app_or in Hin. destruct Hin as [Hin|[->|[]]].
    + exact (IH H Hin).
    + rewrite str_eqb_refl in E. discriminate.
Qed.

Lemma find_last_in s l : In s l -> exists k, find_last s l = Some k.
Proof.
  intros Hin. destruct (find_last s l) eqn:E; [eauto|]. exfalso. exact (find_last_none s l E Hin).
Qed.

Lemma find_last_nodup s l : NoDup l -> forall k, nth_error l k = Some s -> find_last s l = Some (N.of_nat k).
Proof.
  induction l as [|t l IH] using rev_ind; intros Hnd k Hk.
  - destruct k; discriminate.
  - apply NoDup_remove in Hnd. rewrite app_nil_r in Hnd. destruct Hnd as [Hnd Hnot].
    rewrite find_last_snoc.
    destruct (Nat.lt_ge_cases k (length l)) as [Hlt|Hge].
    + rewrite nth_error_app1 in Hk by exact Hlt.
      assert (t <> s). { intros ->. apply Hnot. apply nth_error_In with k. exact Hk. }
      rewrite str_eqb_neq by assumption. apply IH; assumption.
    + rewrite nth_error_app2 in Hk by exact Hge.
      destruct (k - length l)%nat as [|j] eqn:Ej; [|destruct j; discriminate].
      cbn in Hk. inversion Hk; subst. rewrite str_eqb_refl. rewrite lenN_length. f_equal. lia.
Qed.

Lemma NoDup_snoc {A} (l : list A) x : NoDup l -> ~ In x l -> NoDup (l ++ [x]).
Proof.
  intros Hnd Hn. induction l as [|y l IH]; cbn [app].
  - constructor; [intros []|constructor].
  - inversion Hnd; subst. constructor.
    + intros Hin. apply in_app_or in Hin. destruct Hin as [Hin|[<-|[]]]; [contradiction|].
      apply Hn. left. reflexivity.
    + apply IH; [assumption|]. intros Hin. apply Hn. right. exact Hin.
Qed.

(* ---------- the write-side invariant ---------- *)

Notation nstd := b_nStdString (only parsing).

Lemma nstd_val : nstd = 391.
Proof. reflexivity. Qed.

Lemma len_std : lenN b_stdStrings = nstd.
Proof. vm_compute. reflexivity. Qed.

(* custom strings are pairwise different and none equals a standard string *)
Definition wf_table (data : list str) : Prop :=
  NoDup data /\ forall s, In s data -> find_last s b_stdStrings = None.

Definition small (data : list str) : Prop := (Z.of_N (lenN data) < 2147483648 - Z.of_N nstd)%Z.

Lemma wf_nil : wf_table [].
Proof. split; [constructor|intros s []]. Qed.

(* what the SID of a string is, as a relation *)
Definition sid_spec (data : list str) (s : str) (sid : Z) : Prop :=
  (exists k, nth_error data k = Some s /\ sid = (Z.of_nat k + Z.of_N nstd)%Z) \/
  (~ In s data /\ exists i, find_last s b_stdStrings = Some i /\ sid = Z.of_N i).

Lemma wrap_small z : (-2147483648 <= z < 2147483648)%Z -> wrap_i32 z = z.
Proof. intros H. unfold wrap_i32. rewrite Z.mod_small by lia. lia. Qed.

Lemma nth_error_lt {A} (l : list A) k x : nth_error l k = Some x -> (k < length l)%nat.
Proof. intros H. apply nth_error_Some. congruence. Qed.

(* lookup returns a SID satisfying the specification, and keeps the invariant *)
Lemma lookup_spec data s : wf_table data -> small (data ++ [s]) ->
  let p := ss_lookup data s in
  sid_spec (snd p) s (fst p) /\ wf_table (snd p) /\
  (snd p = data \/ snd p = data ++ [s]).
Proof.
  intros [Hnd Hstd] Hsm. unfold small in Hsm. rewrite lenN_app in Hsm. cbn [lenN] in Hsm.
  pose proof nstd_val as Hv.
  unfold ss_lookup. destruct (find_last s data) as [k|] eqn:Ed.
  - destruct (find_last_some s data k Ed) as [A B]. cbn [fst snd].
    split; [|split; [split; assumption|left; reflexivity]].
    left. exists (N.to_nat k). split; [exact B|].
    rewrite wrap_small by lia. lia.
  - destruct (find_last s b_stdStrings) as [i|] eqn:Es; cbn [fst snd].
    + split; [|split; [split; assumption|left; reflexivity]].
      right. split; [apply find_last_none; exact Ed|]. exists i. split; [exact Es|reflexivity].
    + split; [|split; [|right; reflexivity]].
      * left. exists (length data). split; [apply nth_error_snoc_last|].
        rewrite (wrap_small (Z.of_N (lenN data))) by lia.
        rewrite wrap_small by lia. rewrite lenN_length. lia.
      * split.
        -- apply NoDup_snoc; [exact Hnd|apply find_last_none; exact Ed].
        -- intros x Hin. apply in_app_or in Hin. destruct Hin as [Hin|[<-|[]]]; [apply Hstd; exact Hin|exact Es].
Qed.

(* the table only grows *)
Definition extends (d1 d2 : list str) : Prop := exists ext, d2 = d1 ++ ext.

Lemma extends_refl d : extends d d.
Proof. exists []. rewrite app_nil_r. reflexivity. Qed.

Lemma extends_trans a b c : extends a b -> extends b c -> extends a c.
Proof. intros [x ->] [y ->]. exists (x ++ y). rewrite app_assoc. reflexivity. Qed.

Lemma extends_len a b : extends a b -> lenN a <= lenN b.
Proof. intros [x ->]. rewrite lenN_app. lia. Qed.

(* a SID stays valid when the table grows (and keeps the invariant) *)
Lemma sid_spec_extends d1 d2 s sid : extends d1 d2 -> wf_table d2 -> sid_spec d1 s sid -> sid_spec d2 s sid.
Proof.
  intros [ext ->] [Hnd Hstd] [[k [A B]]|[Hn [i [A B]]]].
  - left. exists k. split; [|exact B]. rewrite nth_error_app1; [exact A|]. exact (nth_error_lt _ _ _ A).
  - right. split; [|exists i; split; assumption].
    intros Hin. rewrite (Hstd s Hin) in A. discriminate.
Qed.

(* a string has one SID *)
Lemma sid_spec_fun data s sid1 sid2 : wf_table data -> sid_spec data s sid1 -> sid_spec data s sid2 -> sid1 = sid2.
Proof.
  intros [Hnd Hstd] [[k [A B]]|[Hn [i [A B]]]] [[k' [A' B']]|[Hn' [i' [A' B']]]].
  - pose proof (find_last_nodup s data Hnd k A) as F1. pose proof (find_last_nodup s data Hnd k' A') as F2.
    rewrite F1 in F2. inversion F2. lia.
  - exfalso. apply Hn'. apply nth_error_In with k. exact A.
  - exfalso. apply Hn. apply nth_error_In with k'. exact A'.
  - rewrite A in A'. inversion A'. subst. reflexivity.
Qed.

(* a SID names one string *)
Lemma sid_spec_get data s sid : small data -> sid_spec data s sid -> ss_get data sid = Some s.
Proof.
  intros Hsm [[k [A B]]|[Hn [i [A B]]]]; unfold ss_get, small in *; pose proof nstd_val as Hv.
  - subst sid. destruct (Z.ltb_spec (Z.of_nat k + Z.of_N nstd) 0); [lia|].
    destruct (Z.ltb_spec (Z.of_nat k + Z.of_N nstd) (Z.of_N nstd)); [lia|].
    unfold nth_str. pose proof (nth_error_lt _ _ _ A) as L.
    replace (Z.to_N (Z.of_nat k + Z.of_N nstd - Z.of_N nstd)) with (N.of_nat k) by lia.
    rewrite lenN_length. destruct (N.ltb_spec (N.of_nat k) (N.of_nat (length data))); [|lia].
    rewrite Nat2N.id. exact A.
  - subst sid. destruct (find_last_some s _ i A) as [L E]. rewrite len_std in L.
    destruct (Z.ltb_spec (Z.of_N i) 0); [lia|].
    destruct (Z.ltb_spec (Z.of_N i) (Z.of_N nstd)); [|lia].
    unfold nth_str. rewrite N2Z.id, len_std.
    destruct (N.ltb_spec i nstd); [exact E|lia].
Qed.

Lemma sid_spec_inj data s1 s2 sid : small data -> sid_spec data s1 sid -> sid_spec data s2 sid -> s1 = s2.
Proof.
  intros Hsm H1 H2. pose proof (sid_spec_get _ _ _ Hsm H1) as G1. pose proof (sid_spec_get _ _ _ Hsm H2) as G2.
  congruence.
Qed.

(* standard strings keep their fixed SID, custom strings get 391 + position *)
Lemma sid_spec_range data s sid : sid_spec data s sid ->
  (0 <= sid)%Z /\ ((sid < Z.of_N nstd)%Z <-> find_last s b_stdStrings = Some (Z.to_N sid) /\ ~ In s data).
Proof.
  intros [[k [A B]]|[Hn [i [A B]]]]; pose proof nstd_val as Hv.
  - split; [lia|]. split; [lia|]. intros [_ Hn]. exfalso. apply Hn. apply nth_error_In with k. exact A.
  - subst sid. destruct (find_last_some s _ i A) as [L E]. rewrite len_std in L.
    split; [lia|]. split; [|lia]. intros _. rewrite N2Z.id. split; assumption.
Qed.

(* ---------- a sequence of lookups ---------- *)

Lemma lookups_spec l : forall data, wf_table data -> small (data ++ l) ->
  let p := ss_lookups data l in
  wf_table (snd p) /\ extends data (snd p) /\ (lenN (snd p) <= lenN data + lenN l) /\ Forall2 (sid_spec (snd p)) l (fst p).
Proof.
  induction l as [|s l IH]; intros data Hwf Hsm; cbn [ss_lookups fst snd].
  - split; [exact Hwf|]. split; [apply extends_refl|]. split; [cbn [lenN]; lia|constructor].
  - assert (Hsm1 : small (data ++ [s])).
    { unfold small in *. rewrite !lenN_app in *. cbn [lenN] in *. lia. }
    destruct (lookup_spec data s Hwf Hsm1) as (S1 & W1 & E1).
    set (p := ss_lookup data s) in *.
    assert (Hsm2 : small (snd p ++ l)).
    { unfold small in *. rewrite !lenN_app in *. cbn [lenN] in *.
      destruct E1 as [->| ->]; [lia|]. rewrite lenN_app. cbn [lenN]. lia. }
    destruct (IH (snd p) W1 Hsm2) as (W2 & E2 & L2 & F2).
    set (q := ss_lookups (snd p) l) in *.
    assert (Ex : extends data (snd p)).
    { destruct E1 as [->| ->]; [apply extends_refl|]. exists [s]. reflexivity. }
    split; [exact W2|]. split; [exact (extends_trans _ _ _ Ex E2)|]. split.
    + assert (Lp : lenN (snd p) <= lenN data + 1).
      { destruct E1 as [E1|E1]; rewrite E1; [lia|]. rewrite lenN_app. cbn [lenN]. lia. }
      cbn [lenN]. lia.
    + constructor; [|exact F2]. exact (sid_spec_extends _ _ _ _ E2 W2 S1).
Qed.

Lemma small_of_bound data : lenN data < 65536 -> small data.
Proof. intros H. unfold small. pose proof nstd_val. lia. Qed.

(* ---------- through the String INDEX ---------- *)

Lemma ss_index_roundtrip data bs size tail :
  lenN data < 65536 -> sumN (map lenN data) < 4294967295 ->
  ss_encode data = Ok bs -> lenN bs <= size ->
  M_index_read size (bs ++ tail) = Ok (data, tail).
Proof.
  intros Hc Hb E Hs. unfold ss_encode in E.
  exact (index_roundtrip_gen data bs Hc ltac:(lia) E size tail Hs).
Qed.

(* ---------- first-use order ---------- *)

Definition in_list (s : str) (l : list str) : bool := existsb (fun x => str_eqb x s) l.

(* the custom strings of a sequence of lookups, in the order of first use *)
Definition S_first_use (data : list str) (l : list str) : list str :=
  fold_left (fun d s => if in_list s d || in_list s b_stdStrings then d else d ++ [s]) l data.

Lemma in_list_find s l : in_list s l = match find_last s l with Some _ => true | None => false end.
Proof.
  induction l as [|t l IH] using rev_ind; [reflexivity|].
  unfold in_list in *. rewrite existsb_app, find_last_snoc. cbn [existsb]. rewrite orb_false_r.
  destruct (str_eqb t s); [apply orb_true_r|]. rewrite orb_false_r. exact IH.
Qed.

Lemma lookups_first_use l : forall data, snd (ss_lookups data l) = S_first_use data l.
Proof.
  induction l as [|s l IH]; intros data; [reflexivity|].
  cbn [ss_lookups snd]. rewrite IH. unfold S_first_use. cbn [fold_left]. f_equal.
  unfold ss_lookup. rewrite !in_list_find.
  destruct (find_last s data); [reflexivity|]. destruct (find_last s b_stdStrings); reflexivity.
Qed.

(* ---------- the standard strings are pairwise different ---------- *)

Fixpoint nodup_strs (l : list str) : bool :=
  match l with
  | [] => true
  | x :: r => negb (in_list x r) && nodup_strs r
  end.

Lemma in_list_true s l : In s l -> in_list s l = true.
Proof.
  intros H. unfold in_list. apply existsb_exists. exists s. split; [exact H|apply str_eqb_refl].
Qed.

Lemma nodup_strs_sound l : nodup_strs l = true -> NoDup l.
Proof.
  induction l as [|x l IH]; cbn [nodup_strs]; [constructor|].
  intros H. apply andb_true_iff in H. destruct H as [A B]. constructor; [|apply IH; exact B].
  intros Hin. rewrite (in_list_true x l Hin) in A. discriminate.
Qed.

Lemma std_nodup : NoDup b_stdStrings.
Proof. apply nodup_strs_sound. vm_compute. reflexivity. Qed.

Lemma Forall2_nth {A B} (P : A -> B -> Prop) l l' : Forall2 P l l' ->
  forall k a b, nth_error l k = Some a -> nth_error l' k = Some b -> P a b.
Proof.
  induction 1 as [|x y l l' Hp F IH]; intros k a b H1 H2.
  - destruct k; discriminate.
  - destruct k as [|k]; cbn in *; [inversion H1; inversion H2; subst; exact Hp|eapply IH; eassumption].
Qed.
