(* C13B/Proofs_total.v — Read is total: on any bytes the model of cff.Read
   returns a font or an error, never Panic, never OutOfFuel. *)
From Coq Require Import List NArith ZArith Bool Arith Lia.
From Coq Require Import ZifyBool ZifyNat ZifyN.
From Common Require Import Bytes Outcome.
From Gen Require Import C13 C13B.
From C13 Require Import Model Util ModelDict ModelTables ModelLayout
  Proofs_index Proofs_misc Proofs_charset Proofs_encoding Proofs_fdselect.
From C13B Require Import ModelNum ModelStr ModelCDict ModelFont.
Import ListNotations.
Local Open Scope N_scope.

Definition safe {A} (o : outcome A) : Prop := o <> Panic /\ o <> OutOfFuel.

Lemma safe_ok {A} (a : A) : safe (Ok a).
Proof. split; discriminate. Qed.

Lemma safe_err {A} : safe (@Err A).
Proof. split; discriminate. Qed.

Lemma safe_bind {A B} (x : outcome A) (f : A -> outcome B) :
  safe x -> (forall a, x = Ok a -> safe (f a)) -> safe (obind x f).
Proof.
  intros [H1 H2] Hf. destruct x; cbn [obind]; try congruence; [apply Hf; reflexivity|apply safe_err].
Qed.

Lemma safe_if {A} (c : bool) (x y : outcome A) : safe x -> safe y -> safe (if c then x else y).
Proof. destruct c; auto. Qed.

(* ---------- the pieces ---------- *)

Lemma index_fast_safe size inp : safe (M_index_read_fast size inp).
Proof.
  unfold M_index_read_fast.
  destruct (rd_u16 inp) as [[count r1]|]; [|apply safe_err].
  destruct (count =? 0); [apply safe_ok|].
  destruct (rd_u8 r1) as [[os r2]|]; [|apply safe_err].
  destruct (read_offsets _ _ _ _ _) as [[offs r3]|]; [|apply safe_err].
  destruct (splitN r3 _) as [[buf r4]|]; [|apply safe_err].
  destruct offs; apply safe_ok.
Qed.

Lemma read_offsets_len size os : forall k prev inp offs r,
  read_offsets size os k prev inp = Some (offs, r) -> length offs = k.
Proof.
  induction k as [|k IH]; intros prev inp offs r; cbn [read_offsets].
  - intros H; inversion H; reflexivity.
  - destruct (splitN inp os) as [[blob r']|]; [|discriminate].
    destruct ((be_val blob <? prev) || (size <=? be_val blob)); [discriminate|].
    destruct (read_offsets size os k (be_val blob) r') as [[l r'']|] eqn:E; [|discriminate].
    intros H; inversion H; subst. cbn [length]. f_equal. exact (IH _ _ _ _ E).
Qed.

Lemma split_seq_len : forall offs rest cur, (length (split_seq rest cur offs) <= length offs)%nat.
Proof.
  induction offs as [|b tl IH]; intros rest cur; cbn [split_seq length]; [lia|].
  destruct (splitN rest (b - cur)) as [[x r]|]; cbn [length]; [specialize (IH r b); lia|lia].
Qed.

(* an INDEX that was read has fewer than 65536 entries *)
Lemma index_fast_count size inp bl r : bytes_ok inp = true ->
  M_index_read_fast size inp = Ok (bl, r) -> lenN bl < 65536.
Proof.
  intros Hb. unfold M_index_read_fast, rd_u16.
  destruct inp as [|a [|b r1]]; try discriminate.
  cbn [bytes_ok forallb] in Hb. apply andb_true_iff in Hb. destruct Hb as [Ha Hb].
  apply andb_true_iff in Hb. destruct Hb as [Hb _]. unfold byte_ok in *.
  destruct (N.eqb_spec (a * 256 + b) 0) as [E|E]; [intros H; inversion H; cbn; lia|].
  destruct (rd_u8 r1) as [[os r2]|]; [|discriminate].
  destruct (read_offsets _ _ _ _ _) as [[offs r3]|] eqn:Eo; [|discriminate].
  apply read_offsets_len in Eo.
  destruct (splitN r3 _) as [[buf r4]|]; [|discriminate].
  destruct offs as [|o0 tl]; intros H; inversion H; subst; [cbn; lia|].
  rewrite lenN_length. pose proof (split_seq_len tl (dropN buf o0) o0). cbn [length] in Eo. lia.
Qed.

Lemma bytes_ok_dropN l : forall n, bytes_ok l = true -> bytes_ok (dropN l n) = true.
Proof.
  induction l as [|x l IH]; intros n H; cbn [dropN]; [reflexivity|].
  destruct (n =? 0); [exact H|]. cbn [bytes_ok forallb] in H. apply andb_true_iff in H. apply IH. tauto.
Qed.

Lemma decodeDict_safe data buf : safe (M_decodeDict data buf).
Proof.
  unfold M_decodeDict. apply safe_bind; [exact (dict_decode_total (lenN data) buf)|]. intros; apply safe_ok.
Qed.

Lemma read_index_at_safe data pos : safe (read_index_at data pos).
Proof.
  unfold read_index_at. apply safe_if; [apply safe_err|].
  apply safe_bind; [apply index_fast_safe|intros; apply safe_ok].
Qed.

Lemma read_index_at_count data pos bl : bytes_ok data = true ->
  read_index_at data pos = Ok bl -> lenN bl < 65536.
Proof.
  intros Hb. unfold read_index_at. destruct (pos <? 4)%Z; [discriminate|].
  destruct (M_index_read_fast _ _) as [[l r]| | |] eqn:E; cbn [obind]; try discriminate.
  intros H; inversion H; subst. cbn [fst]. eapply index_fast_count; [|exact E]. apply bytes_ok_dropN. exact Hb.
Qed.

Lemma seek_safe data pos : safe (seek data pos).
Proof. unfold seek. apply safe_if; [apply safe_err|apply safe_ok]. Qed.

Lemma readPrivate_safe data strs d : safe (M_readPrivate data strs d).
Proof.
  unfold M_readPrivate. destruct (getPair d b_opPrivate) as [[pdSize pdOffs]|]; [|apply safe_err].
  apply safe_if; [apply safe_err|]. apply safe_if; [apply safe_err|].
  apply safe_bind; [apply decodeDict_safe|]. intros pd _.
  apply safe_bind; [apply safe_if; [apply read_index_at_safe|apply safe_ok]|]. intros; apply safe_ok.
Qed.

Lemma charset_read_safe n inp : safe (M_charset_read n inp).
Proof. pose proof (charset_read_total_gen n inp) as H. destruct (M_charset_read n inp) as [[l r]| | |]; try contradiction; [apply safe_ok|apply safe_err]. Qed.

Lemma encoding_read_safe inp cs : safe (M_encoding_read inp cs).
Proof. pose proof (encoding_read_total_gen inp cs) as H. destruct (M_encoding_read inp cs) as [[l r]| | |]; try contradiction; [apply safe_ok|apply safe_err]. Qed.

Lemma fdselect_read_safe n np inp : n < 65536 -> safe (M_fdselect_read n np inp).
Proof. intros Hn. pose proof (fdselect_read_total_gen n np inp Hn) as H. destruct (M_fdselect_read n np inp) as [[l r]| | |]; try contradiction; [apply safe_ok|apply safe_err]. Qed.

Lemma map_outcome_safe {A B} (f : A -> outcome B) (xs : list A) : (forall a, safe (f a)) -> safe (map_outcome f xs).
Proof.
  intros Hf. induction xs as [|x xs IH]; cbn [map_outcome]; [apply safe_ok|].
  apply safe_bind; [apply Hf|]. intros y _. apply safe_bind; [exact IH|]. intros; apply safe_ok.
Qed.

Lemma names_of_safe strs cs : safe (names_of strs cs).
Proof.
  induction cs as [|sid r IH]; cbn [names_of]; [apply safe_ok|].
  destruct (ss_get strs sid); [|apply safe_err]. apply safe_bind; [exact IH|]. intros; apply safe_ok.
Qed.

Lemma predef_safe strs id n : safe (M_predef_charset strs id n).
Proof.
  unfold M_predef_charset. apply safe_bind.
  - unfold M_predefined_charset. apply safe_if; [apply safe_err|apply safe_ok].
  - intros; apply safe_ok.
Qed.

(* ---------- Read ---------- *)

Lemma read_total std_code exp_code data : bytes_ok data = true -> safe (M_read std_code exp_code data).
Proof.
  intros Hb. unfold M_read.
  destruct data as [|major [|minor [|hdrSize [|offSize rest]]]]; try apply safe_err.
  set (data := major :: minor :: hdrSize :: offSize :: rest) in *.
  apply safe_if; [apply safe_err|]. apply safe_if; [apply safe_err|].
  apply safe_bind; [apply index_fast_safe|]. intros x1 _.
  apply safe_if; [apply safe_err|]. apply safe_if; [apply safe_err|].
  apply safe_bind; [apply index_fast_safe|]. intros x2 _.
  apply safe_if; [apply safe_err|].
  apply safe_bind; [apply index_fast_safe|]. intros x3 _.
  apply safe_bind; [apply decodeDict_safe|]. intros top _.
  apply safe_if; [apply safe_err|].
  apply safe_bind; [apply index_fast_safe|]. intros x4 _.
  apply safe_bind; [apply read_index_at_safe|]. intros charStrings Hcs.
  pose proof (read_index_at_count data _ _ Hb Hcs) as Hn.
  apply safe_if; [apply safe_err|].
  apply safe_bind.
  { destruct (dfind b_opROS top); [|apply safe_ok].
    destruct (dget top b_opROS) as [|r0 [|r1 [|r2 [|r3 rr]]]]; try apply safe_err.
    destruct r0; try apply safe_err. destruct r1; try apply safe_err. destruct r2; try apply safe_err.
    apply safe_bind; [apply read_index_at_safe|]. intros fdIdx _.
    apply safe_if; [apply safe_err|]. apply safe_if; [apply safe_err|].
    apply safe_bind.
    { apply map_outcome_safe. intros blob. apply safe_bind; [apply decodeDict_safe|]. intros fd _.
      apply safe_bind; [apply readPrivate_safe|]. intros; apply safe_ok. }
    intros fds _. apply safe_if; [apply safe_err|].
    apply safe_bind; [apply fdselect_read_safe; exact Hn|]. intros; apply safe_ok. }
  intros [[[ros cidPrivs] fontMatrices] fdsel] _.
  apply safe_bind.
  { destruct (dfind b_opROS top).
    - apply safe_bind; [apply seek_safe|]. intros inp _.
      apply safe_bind; [apply charset_read_safe|]. intros; apply safe_ok.
    - apply safe_if; [apply predef_safe|].
      apply safe_bind; [apply seek_safe|]. intros inp _.
      apply safe_bind; [apply charset_read_safe|]. intros; apply safe_ok. }
  intros charset _.
  apply safe_bind.
  { destruct (dfind b_opROS top); [apply safe_ok|].
    apply safe_bind; [apply readPrivate_safe|]. intros; apply safe_ok. }
  intros privs _.
  apply safe_bind.
  { destruct (dfind b_opROS top); [apply safe_ok|apply names_of_safe]. }
  intros names _.
  apply safe_bind.
  { destruct (dfind b_opROS top); [apply safe_ok|].
    apply safe_if; [apply safe_ok|]. apply safe_if; [apply safe_ok|].
    apply safe_bind; [apply seek_safe|]. intros inp _.
    apply safe_bind; [apply encoding_read_safe|]. intros; apply safe_ok. }
  intros enc _. apply safe_ok.
Qed.
