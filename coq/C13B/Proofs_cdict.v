(* C13B/Proofs_cdict.v — DICTs at the entry level: what (cffDict).encode
   writes is decoded by decodeDict into the same entries. *)
From Coq Require Import List NArith ZArith Bool Arith Lia Permutation.
From Coq Require Import ZifyBool ZifyNat ZifyN.
From Common Require Import Bytes Outcome.
From Gen Require Import C13 C13B.
From C13 Require Import Model Util ModelDict ModelTables ModelLayout Proofs_dict Proofs_misc.
From C13B Require Import ModelNum ModelStr ModelCDict Util Proofs_num Proofs_str.
Import ListNotations.
Local Open Scope N_scope.

(* ---------- association lists ---------- *)

Fixpoint assoc (op : N) (d : list entry) : option (list opv) :=
  match d with
  | [] => None
  | (o, a) :: r => if o =? op then Some a else assoc op r
  end.

Definition keys (d : list entry) : list N := map fst d.

Lemma assoc_dput op op' a d :
  assoc op (dput op' a d) = if op' =? op then Some a else assoc op d.
Proof.
  induction d as [|[o b] d IH]; cbn [dput assoc].
  - reflexivity.
  - destruct (N.eqb_spec o op') as [->|Hne]; cbn [assoc].
    + destruct (N.eqb_spec op' op); reflexivity.
    + rewrite IH. destruct (N.eqb_spec o op) as [->|]; [|reflexivity].
      destruct (N.eqb_spec op' op); [congruence|reflexivity].
Qed.

Lemma keys_dput op a d : NoDup (keys d) -> NoDup (keys (dput op a d)) /\
  (forall x, In x (keys (dput op a d)) <-> x = op \/ In x (keys d)).
Proof.
  induction d as [|[o b] d IH]; intros Hnd; cbn [dput keys map fst].
  - split; [constructor; [intros []|constructor]|]. intros x. cbn. intuition congruence.
  - inversion Hnd as [|? ? Hn Hnd']; subst. destruct (IH Hnd') as [A B].
    destruct (N.eqb_spec o op) as [->|Hne]; cbn [keys map fst].
    + split; [exact Hnd|]. intros x. cbn. intuition congruence.
    + split.
      * constructor; [|exact A]. fold (keys (dput op a d)). rewrite B. intros [E|E]; [congruence|contradiction].
      * intros x. cbn [In]. fold (keys (dput op a d)). rewrite B. fold (keys d). intuition congruence.
Qed.

Lemma assoc_none_keys op d : ~ In op (keys d) -> assoc op d = None.
Proof.
  induction d as [|[o b] d IH]; cbn [keys map fst assoc In]; [reflexivity|].
  intros H. destruct (N.eqb_spec o op); [exfalso; apply H; left; assumption|].
  apply IH. intros Hin. apply H. right. exact Hin.
Qed.

Lemma assoc_in op a d : NoDup (keys d) -> In (op, a) d -> assoc op d = Some a.
Proof.
  induction d as [|[o b] d IH]; intros Hnd Hin; [destruct Hin|].
  cbn [keys map fst] in Hnd. inversion Hnd as [|? ? Hn Hnd']; subst.
  cbn [assoc]. destruct Hin as [E|Hin].
  - inversion E; subst. rewrite N.eqb_refl. reflexivity.
  - destruct (N.eqb_spec o op) as [->|]; [|apply IH; assumption].
    exfalso. apply Hn. change (In op (keys d)). apply in_map_iff. exists (op, a). split; [reflexivity|exact Hin].
Qed.

Lemma assoc_some_in op a d : assoc op d = Some a -> In (op, a) d.
Proof.
  induction d as [|[o b] d IH]; cbn [assoc]; [discriminate|].
  destruct (N.eqb_spec o op) as [->|]; [intros E; inversion E; left; reflexivity|].
  intros H. right. apply IH. exact H.
Qed.

(* sortedKeys: a permutation *)
Lemma insert_perm e l : Permutation (e :: l) (insert_entry e l).
Proof.
  induction l as [|x l IH]; cbn [insert_entry]; [reflexivity|].
  destruct (sort_key (fst e) <? sort_key (fst x))%Z; [reflexivity|].
  rewrite perm_swap. constructor. exact IH.
Qed.

Lemma sorted_perm d : Permutation d (sorted_entries d).
Proof.
  induction d as [|e d IH]; cbn [sorted_entries fold_right]; [constructor|].
  fold (sorted_entries d). rewrite <- insert_perm. constructor. exact IH.
Qed.

Lemma assoc_perm op d d' : NoDup (keys d) -> Permutation d d' -> assoc op d' = assoc op d.
Proof.
  intros Hnd P.
  assert (Hnd' : NoDup (keys d')).
  { eapply Permutation_NoDup; [|exact Hnd]. unfold keys. apply Permutation_map. exact P. }
  destruct (assoc op d) as [a|] eqn:E.
  - apply assoc_in; [exact Hnd'|]. eapply Permutation_in; [exact P|]. apply assoc_some_in. exact E.
  - destruct (assoc op d') as [a'|] eqn:E'; [|reflexivity].
    apply assoc_some_in in E'. apply Permutation_sym in P. pose proof (Permutation_in _ P E') as Hin.
    rewrite (assoc_in op a' d Hnd Hin) in E. discriminate.
Qed.

Lemma assoc_sorted op d : NoDup (keys d) -> assoc op (sorted_entries d) = assoc op d.
Proof. intros H. apply assoc_perm; [exact H|apply sorted_perm]. Qed.

Lemma keys_sorted d : NoDup (keys d) -> NoDup (keys (sorted_entries d)).
Proof.
  intros H. eapply Permutation_NoDup; [|exact H]. unfold keys. apply Permutation_map. apply sorted_perm.
Qed.

(* ---------- interning ---------- *)

(* the relation between an operand and its interned form *)
Definition arg_rel (data : list str) (v v' : opv) : Prop :=
  match v with
  | VStr s => exists sid, v' = VInt sid /\ sid_spec data s sid
  | _ => v' = v
  end.

Lemma arg_rel_extends d1 d2 v v' : extends d1 d2 -> wf_table d2 -> arg_rel d1 v v' -> arg_rel d2 v v'.
Proof.
  intros E W. destruct v; cbn [arg_rel]; try (intros ->; reflexivity).
  intros [sid [A B]]. exists sid. split; [exact A|]. exact (sid_spec_extends _ _ _ _ E W B).
Qed.

Definition strs_of (args : list opv) : list str :=
  concat (map (fun v => match v with VStr s => [s] | _ => [] end) args).

Lemma lenN_strs_of_le args : lenN (strs_of args) <= lenN args.
Proof.
  induction args as [|v args IH]; [cbn; lia|].
  unfold strs_of in *. cbn [map concat]. rewrite lenN_app. destruct v; cbn [lenN]; lia.
Qed.

Lemma intern_args_spec args : forall data, wf_table data -> small (data ++ strs_of args) ->
  let p := intern_args data args in
  wf_table (snd p) /\ extends data (snd p) /\ lenN (snd p) <= lenN data + lenN (strs_of args) /\
  Forall2 (arg_rel (snd p)) args (fst p).
Proof.
  induction args as [|v args IH]; intros data Hwf Hsm.
  - cbn [intern_args fst snd]. split; [exact Hwf|]. split; [apply extends_refl|]. split; [cbn; lia|constructor].
  - assert (Hcase : forall (w : opv), (match v with VStr _ => False | _ => True end) -> w = v ->
      let q := intern_args data args in
      wf_table (snd q) /\ extends data (snd q) /\ lenN (snd q) <= lenN data + lenN (strs_of (v :: args)) /\
      Forall2 (arg_rel (snd q)) (v :: args) (v :: fst q)).
    { intros w Hv _. assert (Hs : strs_of (v :: args) = strs_of args) by (destruct v; try contradiction; reflexivity).
      rewrite Hs in *. destruct (IH data Hwf Hsm) as (A & B & C & D).
      split; [exact A|]. split; [exact B|]. split; [exact C|].
      constructor; [destruct v; try contradiction; reflexivity|exact D]. }
    destruct v as [z|r|s|o]; try (cbn [intern_args fst snd]; apply (Hcase _ I eq_refl)).
    clear Hcase. cbn [intern_args].
    assert (Hs : strs_of (VStr s :: args) = s :: strs_of args) by reflexivity. rewrite Hs in *.
    assert (Hsm1 : small (data ++ [s])).
    { unfold small in *. rewrite !lenN_app in *. cbn [lenN] in *. lia. }
    destruct (lookup_spec data s Hwf Hsm1) as (S1 & W1 & E1).
    set (p := ss_lookup data s) in *.
    assert (Hsm2 : small (snd p ++ strs_of args)).
    { unfold small in *. rewrite !lenN_app in *. cbn [lenN] in *.
      destruct E1 as [->| ->]; [lia|]. rewrite lenN_app. cbn [lenN]. lia. }
    destruct (IH (snd p) W1 Hsm2) as (W2 & E2 & L2 & F2).
    assert (Ex : extends data (snd p)).
    { destruct E1 as [->| ->]; [apply extends_refl|]. exists [s]. reflexivity. }
    cbn [fst snd]. split; [exact W2|]. split; [exact (extends_trans _ _ _ Ex E2)|]. split.
    + assert (Lp : lenN (snd p) <= lenN data + 1).
      { destruct E1 as [E1|E1]; rewrite E1; [lia|]. rewrite lenN_app. cbn [lenN]. lia. }
      cbn [lenN]. lia.
    + constructor; [|exact F2]. cbn [arg_rel]. exists (fst p). split; [reflexivity|].
      exact (sid_spec_extends _ _ _ _ E2 W2 S1).
Qed.

Lemma Forall2_imp {A B} (P Q : A -> B -> Prop) l l' :
  (forall a b, P a b -> Q a b) -> Forall2 P l l' -> Forall2 Q l l'.
Proof. intros H F. induction F; constructor; auto. Qed.

Definition entry_rel (data : list str) (e e' : entry) : Prop :=
  fst e' = fst e /\ Forall2 (arg_rel data) (snd e) (snd e').

Definition all_strs (es : list entry) : list str := concat (map (fun e => strs_of (snd e)) es).

Lemma intern_entries_spec es : forall data, wf_table data -> small (data ++ all_strs es) ->
  let p := intern_entries data es in
  wf_table (snd p) /\ extends data (snd p) /\ lenN (snd p) <= lenN data + lenN (all_strs es) /\
  Forall2 (entry_rel (snd p)) es (fst p).
Proof.
  induction es as [|[op args] es IH]; intros data Hwf Hsm.
  - cbn [intern_entries fst snd]. split; [exact Hwf|]. split; [apply extends_refl|]. split; [cbn; lia|constructor].
  - cbn [intern_entries].
    change (all_strs ((op, args) :: es)) with (strs_of args ++ all_strs es) in *.
    assert (Hsm1 : small (data ++ strs_of args)).
    { unfold small in *. rewrite !lenN_app in *. lia. }
    destruct (intern_args_spec args data Hwf Hsm1) as (W1 & E1 & L1 & F1).
    set (p := intern_args data args) in *.
    assert (Hsm2 : small (snd p ++ all_strs es)).
    { unfold small in *. rewrite !lenN_app in *. lia. }
    destruct (IH (snd p) W1 Hsm2) as (W2 & E2 & L2 & F2).
    cbn [fst snd]. split; [exact W2|]. split; [exact (extends_trans _ _ _ E1 E2)|]. split.
    + rewrite lenN_app. lia.
    + constructor; [|exact F2]. split; [reflexivity|]. cbn [snd].
      eapply Forall2_imp; [|exact F1]. intros a b. apply arg_rel_extends; assumption.
Qed.

Lemma Forall2_assoc data es es' op :
  Forall2 (entry_rel data) es es' ->
  match assoc op es, assoc op es' with
  | Some a, Some a' => Forall2 (arg_rel data) a a'
  | None, None => True
  | _, _ => False
  end.
Proof.
  induction 1 as [|[o a] [o' a'] es es' [E R] F IH]; cbn [assoc]; [exact I|].
  cbn [fst snd] in *. subst o'. destruct (o =? op); [exact R|exact IH].
Qed.

(* ---------- decoding what encode wrote ---------- *)

Definition int32 (z : Z) : Prop := (-2147483648 <= z <= 2147483647)%Z.

(* an operand that can be written (strings already interned) *)
Definition val_ok (lay : operand -> Z) (v : opv) : Prop :=
  match v with
  | VInt z => int32 z
  | VReal r => real_ok r
  | VStr _ => False
  | VLay o => int32 (lay o)
  end.

Definition val_match (lay : operand -> Z) (v : opv) (dv : dictval) : Prop :=
  match v with
  | VInt z => dv = DInt z
  | VReal r => exists d, dv = DReal d /\ real_of_decimal d = r
  | VLay o => dv = DInt (lay o)
  | VStr _ => False
  end.

Lemma int_enc_len z : int32 z -> (1 <= length (M_dict_int_encode z))%nat.
Proof.
  intros H. rewrite (dict_int_size z H).
  destruct ((-107 <=? z)%Z && (z <=? 107)%Z); [lia|].
  destruct ((-1131 <=? z)%Z && (z <=? 1131)%Z); [lia|].
  destruct ((-32768 <=? z)%Z && (z <=? 32767)%Z); lia.
Qed.

Lemma tok_val lay v rest : val_ok lay v ->
  exists dv, val_match lay v dv /\ dict_token (enc_val lay v ++ rest) = Ok (TVal dv, rest) /\
             (1 <= length (enc_val lay v))%nat.
Proof.
  destruct v as [z|r|s|o]; cbn [val_ok val_match enc_val]; intros H.
  - exists (DInt z). split; [reflexivity|]. split; [exact (dict_int_roundtrip_gen z rest H)|exact (int_enc_len z H)].
  - destruct (real_roundtrip_gen r rest H) as [d [A B]].
    exists (DReal d). split; [exists d; split; [reflexivity|exact B]|]. split; [exact A|cbn [length]; lia].
  - contradiction.
  - exists (DInt (lay o)). split; [reflexivity|].
    split; [exact (dict_int_roundtrip_gen (lay o) rest H)|exact (int_enc_len _ H)].
Qed.

Definition op_legal (op : N) : Prop := (op <= 21 /\ op <> 12) \/ (3072 <= op <= 3327).

Lemma tok_op op rest : op_legal op -> dict_token (enc_op op ++ rest) = Ok (TOp op, rest).
Proof.
  intros [[H1 H2]|H]; unfold enc_op.
  - destruct (N.ltb_spec 255 op); [lia|]. rewrite N.mod_small by lia. cbn [app]. unfold dict_token.
    destruct (N.eqb_spec op 12); [contradiction|]. destruct (N.leb_spec op 21); [reflexivity|lia].
  - destruct (N.ltb_spec 255 op); [|lia]. cbn [app]. unfold dict_token. cbn [N.eqb Pos.eqb].
    f_equal. f_equal. f_equal.
    assert (op / 256 = 12) by (symmetry; apply N.div_unique with (op - 3072); lia).
    pose proof (N.div_mod op 256 ltac:(lia)). lia.
Qed.

Lemma enc_op_len op : (1 <= length (enc_op op))%nat.
Proof. unfold enc_op. destruct (255 <? op); cbn [length]; lia. Qed.

(* the operands of one entry *)
Lemma decode_vals lay nstr : forall args rest fuel stack res,
  Forall (val_ok lay) args ->
  (length (concat (map (enc_val lay) args) ++ rest) < fuel)%nat -> rest <> [] ->
  exists dvs fuel', Forall2 (val_match lay) args dvs /\ (length rest < fuel')%nat /\
    M_dict_decode fuel nstr (concat (map (enc_val lay) args) ++ rest) stack res =
    M_dict_decode fuel' nstr rest (stack ++ dvs) res.
Proof.
  induction args as [|v args IH]; intros rest fuel stack res Hok Hf Hne.
  - exists [], fuel. split; [constructor|]. split; [exact Hf|]. rewrite app_nil_r. reflexivity.
  - inversion Hok as [|? ? Hv Hargs]; subst. cbn [map concat] in *. rewrite <- app_assoc in *.
    destruct (tok_val lay v (concat (map (enc_val lay) args) ++ rest) Hv) as (dv & Hm & Ht & Hl).
    destruct fuel as [|f]; [lia|].
    destruct (enc_val lay v ++ concat (map (enc_val lay) args) ++ rest) as [|b r] eqn:Eb.
    { destruct (enc_val lay v); [cbn in Hl; lia|discriminate]. }
    cbn [M_dict_decode]. rewrite Ht. cbn [obind fst snd].
    assert (Hf' : (length (concat (map (enc_val lay) args) ++ rest) < f)%nat).
    { rewrite <- Eb in Hf. rewrite app_length in Hf. lia. }
    destruct (IH rest f (stack ++ [dv]) res Hargs Hf' Hne) as (dvs & fuel' & F & L & E).
    exists (dv :: dvs), fuel'. split; [constructor; assumption|]. split; [exact L|].
    rewrite E. rewrite <- app_assoc. reflexivity.
Qed.

(* flush: the string operands *)
Definition str_count (op : N) (n : nat) : nat :=
  if op_is_string op then (if (op =? opROS)%N then Nat.min n 2 else n) else 0%nat.

Fixpoint to_strs (k : nat) (dvs : list dictval) : list dictval :=
  match k, dvs with
  | S k', DInt z :: r => DStr z :: to_strs k' r
  | _, _ => dvs
  end.

Fixpoint sids_ok (nstr : N) (k : nat) (dvs : list dictval) : Prop :=
  match k, dvs with
  | S k', dv :: r => (exists z, dv = DInt z /\ sid_ok nstr z = true) /\ sids_ok nstr k' r
  | _, _ => True
  end.

Lemma map_first_ok nstr : forall k dvs, sids_ok nstr k dvs ->
  map_first k (to_sid nstr) dvs = Ok (to_strs k dvs).
Proof.
  induction k as [|k IH]; intros dvs H; [destruct dvs; reflexivity|].
  destruct dvs as [|dv r]; [reflexivity|]. cbn [sids_ok] in H. destruct H as [[z [-> Hz]] Hr].
  cbn [map_first to_sid to_strs]. rewrite Hz. cbn [obind]. rewrite (IH r Hr). reflexivity.
Qed.

Lemma flush_ok nstr op dvs res : sids_ok nstr (str_count op (length dvs)) dvs ->
  flush nstr op dvs res = Ok (dict_set op (to_strs (str_count op (length dvs)) dvs) res).
Proof.
  unfold flush, str_count. destruct (op_is_string op).
  - intros H. rewrite (map_first_ok nstr _ dvs H). reflexivity.
  - intros _. destruct dvs; reflexivity.
Qed.

(* an entry that can be written and read back *)
Definition entry_ok (lay : operand -> Z) (nstr : N) (e : entry) : Prop :=
  op_legal (fst e) /\ Forall (val_ok lay) (snd e) /\
  (forall dvs, Forall2 (val_match lay) (snd e) dvs -> sids_ok nstr (str_count (fst e) (length dvs)) dvs).

Definition entry_match (lay : operand -> Z) (e : entry) (de : N * list dictval) : Prop :=
  fst de = fst e /\ exists dvs, Forall2 (val_match lay) (snd e) dvs /\
    snd de = to_strs (str_count (fst e) (length dvs)) dvs.

Definition dset_all (des : list (N * list dictval)) (res : list (N * list dictval)) :=
  fold_left (fun r e => dict_set (fst e) (snd e) r) des res.

Lemma decode_entries lay nstr : forall es fuel res,
  Forall (entry_ok lay nstr) es -> (length (enc_entries lay es) < fuel)%nat ->
  exists des, Forall2 (entry_match lay) es des /\
    M_dict_decode fuel nstr (enc_entries lay es) [] res = Ok (dset_all des res).
Proof.
  induction es as [|[op args] es IH]; intros fuel res Hok Hf.
  - exists []. split; [constructor|]. destruct fuel; [cbn in Hf; lia|]. reflexivity.
  - inversion Hok as [|? ? He Hes]; subst. destruct He as (Hop & Hvals & Hsid). cbn [fst snd] in *.
    unfold enc_entries in *. cbn [map concat] in *. fold (enc_entries lay es) in *.
    unfold enc_entry in *. cbn [fst snd] in *. rewrite <- !app_assoc in *.
    assert (Hne : enc_op op ++ enc_entries lay es <> []).
    { pose proof (enc_op_len op). destruct (enc_op op); [cbn in *; lia|discriminate]. }
    destruct (decode_vals lay nstr args (enc_op op ++ enc_entries lay es) fuel [] res Hvals Hf Hne)
      as (dvs & fuel' & F & L & E).
    rewrite E. cbn [app].
    destruct fuel' as [|f]; [lia|].
    assert (Hf' : (length (enc_entries lay es) < f)%nat).
    { rewrite app_length in L. pose proof (enc_op_len op). lia. }
    destruct (enc_op op ++ enc_entries lay es) as [|b r] eqn:Eb; [contradiction|].
    cbn [M_dict_decode]. rewrite <- Eb. rewrite (tok_op op _ Hop). cbn [obind fst snd].
    rewrite (flush_ok nstr op dvs res (Hsid dvs F)). cbn [obind].
    destruct (IH f (dict_set op (to_strs (str_count op (length dvs)) dvs) res) Hes Hf') as (des & Fd & Ed).
    exists ((op, to_strs (str_count op (length dvs)) dvs) :: des). split.
    + constructor; [|exact Fd]. split; [reflexivity|]. exists dvs. split; [exact F|reflexivity].
    + rewrite Ed. reflexivity.
Qed.

(* ---------- looking entries up in the decoded dictionary ---------- *)

Fixpoint dvfind (op : N) (d : list (N * list dictval)) : option (list dictval) :=
  match d with
  | [] => None
  | (o, a) :: r => if o =? op then Some a else dvfind op r
  end.

Lemma dvfind_set op op' v res :
  dvfind op (dict_set op' v res) = if op' =? op then Some v else dvfind op res.
Proof.
  induction res as [|[o w] r IH]; cbn [dict_set dvfind].
  - reflexivity.
  - destruct (N.ltb_spec op' o); cbn [dvfind].
    + destruct (N.eqb_spec op' op); reflexivity.
    + destruct (N.eqb_spec op' o) as [->|Hne]; cbn [dvfind].
      * destruct (N.eqb_spec o op); reflexivity.
      * rewrite IH. destruct (N.eqb_spec o op) as [->|]; [|reflexivity].
        destruct (N.eqb_spec op' op); [congruence|reflexivity].
Qed.

Lemma dvfind_set_all op des : forall res,
  ~ In op (map fst des) -> dvfind op (dset_all des res) = dvfind op res.
Proof.
  induction des as [|[o a] des IH]; intros res Hn; [reflexivity|].
  cbn [dset_all fold_left fst snd]. fold (dset_all des (dict_set o a res)).
  rewrite IH; [|intros H; apply Hn; right; exact H].
  rewrite dvfind_set. destruct (N.eqb_spec o op) as [->|]; [|reflexivity].
  exfalso. apply Hn. left. reflexivity.
Qed.

Lemma dvfind_set_all_in op a des : forall res,
  NoDup (map fst des) -> In (op, a) des -> dvfind op (dset_all des res) = Some a.
Proof.
  induction des as [|[o b] des IH]; intros res Hnd Hin; [destruct Hin|].
  cbn [map fst] in Hnd. inversion Hnd as [|? ? Hn Hnd']; subst.
  cbn [dset_all fold_left fst snd]. fold (dset_all des (dict_set o b res)).
  destruct Hin as [E|Hin].
  - inversion E; subst. rewrite dvfind_set_all by exact Hn. rewrite dvfind_set, N.eqb_refl. reflexivity.
  - apply IH; assumption.
Qed.

Lemma dfind_map op (f : dictval -> rval) d :
  dfind op (map (fun e => (fst e, map f (snd e))) d) = option_map (map f) (dvfind op d).
Proof.
  induction d as [|[o a] d IH]; cbn [map dfind dvfind fst snd]; [reflexivity|].
  destruct (o =? op); [reflexivity|exact IH].
Qed.

(* the resolved operands of an entry *)
Definition rv_of (lay : operand -> Z) (data : list str) (isstr : bool) (v : opv) : rval :=
  match v with
  | VInt z => if isstr then RStr (match ss_get data z with Some s => s | None => [] end) else RInt z
  | VReal r => RReal r
  | VLay o => if isstr then RStr (match ss_get data (lay o) with Some s => s | None => [] end) else RInt (lay o)
  | VStr _ => RInt 0
  end.

Fixpoint rvs_of (lay : operand -> Z) (data : list str) (k : nat) (args : list opv) : list rval :=
  match args with
  | [] => []
  | v :: a => rv_of lay data (match k with O => false | S _ => true end) v :: rvs_of lay data (pred k) a
  end.

Lemma resolve_to_strs lay data : forall k args dvs,
  Forall2 (val_match lay) args dvs -> sids_ok (lenN data) k dvs ->
  map (resolve data) (to_strs k dvs) = rvs_of lay data k args.
Proof.
  intros k args dvs F. revert k. induction F as [|v dv args dvs Hm F IH]; intros k Hs.
  - destruct k; reflexivity.
  - destruct k as [|k].
    + cbn [to_strs rvs_of pred map]. rewrite <- (IH 0%nat) by (destruct dvs; exact I).
      assert (T0 : to_strs 0 dvs = dvs) by (destruct dvs; reflexivity). rewrite T0. f_equal.
      destruct v as [z|r|s|o]; cbn [val_match] in Hm; try contradiction.
      * subst. reflexivity.
      * destruct Hm as [d [-> E]]. cbn [resolve rv_of]. rewrite E. reflexivity.
      * subst. reflexivity.
    + cbn [sids_ok] in Hs. destruct Hs as [[z [-> Hz]] Hr]. cbn [to_strs map rvs_of pred].
      rewrite (IH k Hr). f_equal.
      destruct v as [z'|r|s|o]; cbn [val_match] in Hm; try contradiction.
      * inversion Hm; subst. reflexivity.
      * destruct Hm as [d [E _]]. discriminate.
      * inversion Hm; subst. reflexivity.
Qed.

Lemma entry_match_keys lay es des : Forall2 (entry_match lay) es des -> map fst des = keys es.
Proof.
  induction 1 as [|e de es des [E _] F IH]; [reflexivity|].
  cbn [map keys]. unfold keys in IH. rewrite IH, E. reflexivity.
Qed.

Lemma entry_match_in lay es des op args : Forall2 (entry_match lay) es des -> In (op, args) es ->
  exists dvs, Forall2 (val_match lay) args dvs /\ In (op, to_strs (str_count op (length dvs)) dvs) des.
Proof.
  induction 1 as [|e de es des [E [dvs [F S]]] Fr IH]; intros Hin; [destruct Hin|].
  destruct Hin as [->|Hin].
  - cbn [fst snd] in *. exists dvs. split; [exact F|]. left. destruct de as [o d]. cbn [fst snd] in *. subst. reflexivity.
  - destruct (IH Hin) as [dvs' [A B]]. exists dvs'. split; [exact A|right; exact B].
Qed.

Lemma Forall2_length' {A B} (P : A -> B -> Prop) l l' : Forall2 P l l' -> length l = length l'.
Proof. induction 1; cbn [length]; congruence. Qed.

(* decodeDict of what encode wrote: every operator is found with its operands *)
Lemma decodeDict_entries lay data es :
  Forall (entry_ok lay (lenN data)) es -> NoDup (keys es) ->
  exists rd, M_decodeDict data (enc_entries lay es) = Ok rd /\
    forall op, dfind op rd =
      option_map (fun args => rvs_of lay data (str_count op (length args)) args) (assoc op es).
Proof.
  intros Hok Hnd. unfold M_decodeDict, M_dict_decode_top.
  destruct (decode_entries lay (lenN data) es (S (length (enc_entries lay es))) [] Hok ltac:(lia)) as (des & F & E).
  rewrite E. cbn [obind]. eexists. split; [reflexivity|].
  intros op. rewrite dfind_map.
  pose proof (entry_match_keys lay es des F) as Hk.
  destruct (assoc op es) as [args|] eqn:Ea; cbn [option_map].
  - apply assoc_some_in in Ea.
    destruct (entry_match_in lay es des op args F Ea) as (dvs & Fv & Hin).
    rewrite (dvfind_set_all_in op _ des [] ltac:(rewrite Hk; exact Hnd) Hin). cbn [option_map]. f_equal.
    rewrite (Forall2_length' _ _ _ Fv).
    apply resolve_to_strs; [exact Fv|].
    rewrite Forall_forall in Hok. destruct (Hok _ Ea) as (_ & _ & Hs). cbn [fst snd] in Hs. exact (Hs dvs Fv).
  - rewrite dvfind_set_all; [reflexivity|]. rewrite Hk. intros Hin.
    destruct (assoc op es) eqn:E2; [discriminate|].
    apply in_map_iff in Hin. destruct Hin as [[o a] [Eo Hin]]. cbn [fst] in Eo. subst o.
    rewrite (assoc_in op a es Hnd Hin) in E2. discriminate.
Qed.

(* ---------- encode (with interning) followed by decodeDict ---------- *)

Lemma sid_spec_ok data s sid : sid_spec data s sid -> sid_ok (lenN data) sid = true.
Proof.
  unfold sid_ok. change cff_nStdString with b_nStdString. pose proof nstd_val as Hv.
  intros [[k [A B]]|[Hn [i [A B]]]].
  - pose proof (nth_error_lt _ _ _ A) as L. rewrite lenN_length. subst sid. lia.
  - destruct (find_last_some s _ i A) as [L _]. rewrite len_std in L. subst sid. lia.
Qed.

(* a source operand in a string position / elsewhere *)
Definition src_val_ok (lay : operand -> Z) (data0 : list str) (isstr : bool) (v : opv) : Prop :=
  if isstr then
    match v with
    | VStr _ => True
    | VInt z => exists s, sid_spec data0 s z
    | _ => False
    end
  else val_ok lay v.

Fixpoint src_args_ok (lay : operand -> Z) (data0 : list str) (k : nat) (args : list opv) : Prop :=
  match args with
  | [] => True
  | v :: a => src_val_ok lay data0 (match k with O => false | S _ => true end) v /\ src_args_ok lay data0 (pred k) a
  end.

Definition src_entry_ok (lay : operand -> Z) (data0 : list str) (e : entry) : Prop :=
  op_legal (fst e) /\ src_args_ok lay data0 (str_count (fst e) (length (snd e))) (snd e).

(* the operands as Read sees them: strings resolved *)
Definition src_rv (lay : operand -> Z) (data : list str) (isstr : bool) (v : opv) : rval :=
  match v with
  | VStr s => RStr s
  | _ => rv_of lay data isstr v
  end.

Fixpoint src_rvs (lay : operand -> Z) (data : list str) (k : nat) (args : list opv) : list rval :=
  match args with
  | [] => []
  | v :: a => src_rv lay data (match k with O => false | S _ => true end) v :: src_rvs lay data (pred k) a
  end.

Lemma interned_args_ok lay data0 data : forall k args args',
  extends data0 data -> wf_table data -> small data ->
  src_args_ok lay data0 k args -> Forall2 (arg_rel data) args args' ->
  Forall (val_ok lay) args' /\
  (forall dvs, Forall2 (val_match lay) args' dvs -> sids_ok (lenN data) k dvs) /\
  rvs_of lay data k args' = src_rvs lay data k args.
Proof.
  intros k args args' Hext Hwf Hsm Hs F. revert k Hs.
  induction F as [|v v' args args' Hr F IH]; intros k Hs.
  - split; [constructor|]. split; [|reflexivity]. intros dvs Fd. inversion Fd. destruct k; exact I.
  - cbn [src_args_ok] in Hs. destruct Hs as [Hv Hs]. destruct (IH (pred k) Hs) as (A & B & C).
    destruct k as [|k]; cbn [pred] in *.
    + (* not a string position *)
      unfold src_val_ok in Hv. assert (v' = v) by (destruct v; cbn [val_ok arg_rel] in *; try contradiction; exact Hr).
      subst v'. split; [constructor; assumption|]. split.
      * intros dvs Fd. destruct dvs; exact I.
      * cbn [rvs_of src_rvs pred]. rewrite C. f_equal. destruct v; cbn [val_ok] in Hv; try contradiction; reflexivity.
    + unfold src_val_ok in Hv. destruct v as [z|r|s|o]; try contradiction; cbn [arg_rel] in Hr.
      * subst v'. destruct Hv as [s Hsp].
        pose proof (sid_spec_extends _ _ _ _ Hext Hwf Hsp) as Hsp'.
        pose proof (sid_spec_ok _ _ _ Hsp') as Hok. unfold sid_ok in Hok.
        split; [constructor; [|exact A]|]. { cbn [val_ok]. unfold int32. pose proof nstd_val. unfold small in Hsm. change cff_nStdString with b_nStdString in Hok. lia. }
        split.
        -- intros dvs Fd. inversion Fd as [|? dv ? dvs' Hm Fd']; subst. cbn [val_match] in Hm. subst dv.
           cbn [sids_ok]. split; [exists z; split; [reflexivity|exact (sid_spec_ok _ _ _ Hsp')]|exact (B dvs' Fd')].
        -- cbn [rvs_of src_rvs pred]. rewrite C. reflexivity.
      * destruct Hr as [sid [-> Hsp]].
        pose proof (sid_spec_ok _ _ _ Hsp) as Hok. unfold sid_ok in Hok.
        split; [constructor; [|exact A]|]. { cbn [val_ok]. unfold int32. pose proof nstd_val. unfold small in Hsm. change cff_nStdString with b_nStdString in Hok. lia. }
        split.
        -- intros dvs Fd. inversion Fd as [|? dv ? dvs' Hm Fd']; subst. cbn [val_match] in Hm. subst dv.
           cbn [sids_ok]. split; [exists sid; split; [reflexivity|exact (sid_spec_ok _ _ _ Hsp)]|exact (B dvs' Fd')].
        -- cbn [rvs_of src_rvs pred src_rv rv_of]. rewrite C. rewrite (sid_spec_get _ _ _ Hsm Hsp). reflexivity.
Qed.

(* the DICT round trip at the entry level *)
Lemma dict_roundtrip_gen lay data0 d :
  wf_table data0 -> NoDup (keys d) -> Forall (src_entry_ok lay data0) d ->
  let p := M_dict_encode lay data0 d in
  small (snd p) -> small (data0 ++ all_strs (sorted_entries d)) ->
  wf_table (snd p) /\ extends data0 (snd p) /\
  exists rd, M_decodeDict (snd p) (fst p) = Ok rd /\
    forall op, dfind op rd =
      option_map (fun args => src_rvs lay (snd p) (str_count op (length args)) args) (assoc op d).
Proof.
  intros Hwf Hnd Hok p Hsm Hsm0. unfold M_dict_encode in p.
  destruct (intern_entries_spec (sorted_entries d) data0 Hwf Hsm0) as (W & E & L & F).
  set (q := intern_entries data0 (sorted_entries d)) in *. subst p. cbn [fst snd] in *.
  split; [exact W|]. split; [exact E|].
  assert (Hkeys : keys (fst q) = keys (sorted_entries d)).
  { clear -F. induction F as [|e e' es es' [Ek _] F IH]; [reflexivity|]. cbn [keys map]. unfold keys in IH. rewrite IH, Ek. reflexivity. }
  assert (Hnd' : NoDup (keys (fst q))) by (rewrite Hkeys; apply keys_sorted; exact Hnd).
  (* every interned entry can be written *)
  assert (Hsrc : forall e, In e (sorted_entries d) -> src_entry_ok lay data0 e).
  { intros e Hin. rewrite Forall_forall in Hok. apply Hok. eapply Permutation_in; [apply Permutation_sym, sorted_perm|exact Hin]. }
  assert (Hall : Forall (entry_ok lay (lenN (snd q))) (fst q) /\
                 forall op, option_map (fun args => rvs_of lay (snd q) (str_count op (length args)) args) (assoc op (fst q)) =
                            option_map (fun args => src_rvs lay (snd q) (str_count op (length args)) args) (assoc op (sorted_entries d))).
  { clear Hkeys Hnd'. revert F Hsrc. generalize (sorted_entries d) as es. generalize (fst q) as es'. intros es' es Fr.
    induction Fr as [|[o a] [o' a'] es es' [Ek Fa] Fr IH]; intros Hsrc.
    - split; [constructor|]. intros op. reflexivity.
    - cbn [fst snd] in *. subst o'.
      destruct (Hsrc (o, a) ltac:(left; reflexivity)) as [Hop Hargs]. cbn [fst snd] in *.
      destruct (interned_args_ok lay data0 (snd q) _ a a' E W Hsm Hargs Fa) as (A & B & C).
      destruct (IH ltac:(intros e Hin; apply Hsrc; right; exact Hin)) as [I1 I2].
      pose proof (Forall2_length' _ _ _ Fa) as Hlen.
      split.
      + constructor; [|exact I1]. split; [exact Hop|]. split; [exact A|]. cbn [fst snd].
        intros dvs Fd. rewrite <- (Forall2_length' _ _ _ Fd), <- Hlen. exact (B dvs Fd).
      + intros op. cbn [assoc]. destruct (o =? op) eqn:Eo; [|apply I2].
        cbn [option_map]. f_equal. apply N.eqb_eq in Eo. subst op. rewrite <- Hlen. exact C. }
  destruct Hall as [Hall1 Hall2].
  destruct (decodeDict_entries lay (snd q) (fst q) Hall1 Hnd') as (rd & Erd & Hfind).
  exists rd. split; [exact Erd|]. intros op. rewrite Hfind, Hall2, assoc_sorted by exact Hnd. reflexivity.
Qed.

(* the same with the size condition stated on the inputs only *)
Lemma dict_roundtrip_gen' lay data0 d :
  wf_table data0 -> NoDup (keys d) -> Forall (src_entry_ok lay data0) d ->
  small (data0 ++ all_strs (sorted_entries d)) ->
  let p := M_dict_encode lay data0 d in
  wf_table (snd p) /\ extends data0 (snd p) /\ lenN (snd p) <= lenN data0 + lenN (all_strs (sorted_entries d)) /\
  exists rd, M_decodeDict (snd p) (fst p) = Ok rd /\
    forall op, dfind op rd =
      option_map (fun args => src_rvs lay (snd p) (str_count op (length args)) args) (assoc op d).
Proof.
  intros Hwf Hnd Hok Hsm0 p.
  destruct (intern_entries_spec (sorted_entries d) data0 Hwf Hsm0) as (W & E & L & F).
  assert (Hsm : small (snd p)).
  { unfold p, M_dict_encode. cbn [snd]. unfold small in *. rewrite lenN_app in Hsm0. lia. }
  destruct (dict_roundtrip_gen lay data0 d Hwf Hnd Hok Hsm Hsm0) as (A & B & C).
  split; [exact A|]. split; [exact B|]. split; [exact L|exact C].
Qed.
