From Coq Require Import Extraction ExtrOcamlBasic.
From Common Require Import Conv.
From C13 Require Import Model ModelDict ModelTables ModelLayout.
From C13B Require Import ModelNum ModelStr ModelCDict ModelFont.
Extraction "c13b_model.ml" conv_anchor lenN dropN
  rnorm real_of_Z R0 rnormangle
  str_eqb ss_lookups ss_get ss_encode utf8_fix M_index_read_fast
  M_dict_encode sorted_entries M_decodeDict getInt getFloat getString getDelta getPair getFontMatrix
  setFontMatrix M_topdict_base M_makePrivateDict M_topdict_info M_private_info
  M_readPrivate M_write M_write_offsets M_read find_last.
