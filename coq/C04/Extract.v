From Coq Require Import Extraction ExtrOcamlBasic.
From Common Require Import Conv.
From C05 Require Import Model.
From C04 Require Import Model.
Extraction "c04_model.ml" conv_anchor S_t2 mkTab enc_number enc_args M_t2edges edge_bytes op_bytes
  enc_header check_charstring mkGlyph.
